// Engine "gwrouting" (C42): ties lean/Scion/Model/GwRouting.lean to the real
// dataplane.RoutingTable / dataplane.IPForwarder and routing.Policy / routing.AdvertiseList
// (including the MarshalText/UnmarshalText round trip), and evaluates the C42 property
// predicate directly on the implementation.
package main

import (
	"bytes"
	"context"
	"encoding/binary"
	"errors"
	"fmt"
	"math/big"
	"net"
	"net/netip"
	"strings"

	"github.com/gopacket/gopacket"
	"github.com/gopacket/gopacket/layers"

	"github.com/scionproto/scion/gateway/control"
	"github.com/scionproto/scion/gateway/dataplane"
	"github.com/scionproto/scion/gateway/pktcls"
	"github.com/scionproto/scion/gateway/routing"
	"github.com/scionproto/scion/pkg/addr"
	"github.com/scionproto/scion/pkg/metrics"

	"verifharness/gwcond"
	"verifharness/vlib"
)

// ---------------------------------------------------------------------------------------
// routing table part

type session struct {
	id  int
	got int
}

func (s *session) Write(gopacket.Packet) { s.got++ }

type counter struct{ n float64 }

func (c *counter) With(...string) metrics.Counter { return c }
func (c *counter) Add(d float64)                  { c.n += d }

type scriptReader struct {
	pkts [][]byte
	i    int
	hook func(done int) // called before packet `done` is handed out (outcome of done-1 is final)
}

func (s *scriptReader) Read(b []byte) (int, error) {
	s.hook(s.i)
	if s.i >= len(s.pkts) {
		return 0, errors.New("end of script")
	}
	n := copy(b, s.pkts[s.i])
	s.i++
	return n, nil
}

var v4Bases = []uint32{0x0a000000, 0x0a010000, 0x0a010200, 0x0a010203, 0xc0a80000, 0xc0a80100, 0xac100000, 0x0a800000}
var v4Lens = []int{0, 1, 7, 8, 9, 12, 15, 16, 17, 20, 23, 24, 25, 28, 30, 31, 32}

func randV4Prefix(r *vlib.Rand) (uint32, int) {
	base := v4Bases[r.Intn(len(v4Bases))]
	if r.Chance(30) {
		base ^= uint32(1) << uint(r.Intn(32))
	}
	return base, v4Lens[r.Intn(len(v4Lens))]
}

func mask32(l int) uint32 {
	if l == 0 {
		return 0
	}
	return ^uint32(0) << uint(32-l)
}

func v4Net(base uint32, l int, masked bool) *net.IPNet {
	ip := make(net.IP, 4)
	if masked {
		base &= mask32(l)
	}
	binary.BigEndian.PutUint32(ip, base)
	return &net.IPNet{IP: ip, Mask: net.CIDRMask(l, 32)}
}

var v6Bases = []string{"2001:db8::", "2001:db8:1::", "2001:db8:1:2::", "fd00::", "2001:db8:1:2::3"}
var v6Lens = []int{0, 1, 16, 32, 33, 47, 48, 49, 64, 65, 96, 127, 128}

func randV6Prefix(r *vlib.Rand) *net.IPNet {
	ip := net.ParseIP(v6Bases[r.Intn(len(v6Bases))]).To16()
	ip = append(net.IP(nil), ip...)
	if r.Chance(30) {
		k := r.Intn(128)
		ip[k/8] ^= 1 << uint(7-k%8)
	}
	if ip.To4() != nil {
		ip[0] = 0x20 // never a v4-mapped prefix (DESIGN 7a)
	}
	l := v6Lens[r.Intn(len(v6Lens))]
	m := net.CIDRMask(l, 128)
	if r.Chance(80) {
		ip = ip.Mask(m)
	}
	return &net.IPNet{IP: ip, Mask: m}
}

func bigOf(b []byte) string { return new(big.Int).SetBytes(b).String() }

func encIPNet(n *net.IPNet) string {
	ones, bits := n.Mask.Size()
	if bits == 32 {
		return fmt.Sprintf("4 %d %d", binary.BigEndian.Uint32(n.IP.To4()), ones)
	}
	return fmt.Sprintf("6 %s %d", bigOf(n.IP.To16()), ones)
}

// netKey identifies the network a prefix denotes (for the distinctness requirement).
func netKey(n *net.IPNet) string {
	return n.IP.Mask(n.Mask).String() + "/" + fmt.Sprint(len(n.Mask)) + n.Mask.String()
}

func randCond(r *vlib.Rand, depth int) pktcls.Cond {
	if depth > 0 && r.Chance(35) {
		switch r.Intn(3) {
		case 0:
			return pktcls.NewCondNot(randCond(r, depth-1))
		case 1:
			n := r.Range(1, 3)
			cs := make([]pktcls.Cond, n)
			for i := range cs {
				cs[i] = randCond(r, depth-1)
			}
			return pktcls.NewCondAllOf(cs...)
		default:
			n := r.Range(0, 3) // any() = true convention included
			cs := make([]pktcls.Cond, n)
			for i := range cs {
				cs[i] = randCond(r, depth-1)
			}
			return pktcls.NewCondAnyOf(cs...)
		}
	}
	switch r.Intn(11) {
	case 0:
		return pktcls.CondBool(r.Chance(70))
	case 1:
		b, l := randV4Prefix(r)
		return pktcls.NewCondIPv4(&pktcls.IPv4MatchDestination{Net: v4Net(b, l, true)})
	case 2:
		b, l := randV4Prefix(r)
		return pktcls.NewCondIPv4(&pktcls.IPv4MatchSource{Net: v4Net(b, l, true)})
	case 3:
		return pktcls.NewCondIPv4(&pktcls.IPv4MatchDSCP{DSCP: uint8(r.Intn(4))})
	case 4:
		return pktcls.NewCondIPv4(&pktcls.IPv4MatchToS{TOS: uint8(r.Intn(8))})
	case 5:
		return pktcls.NewCondIPv4(&pktcls.IPv4MatchProtocol{Protocol: []uint8{6, 17, 1}[r.Intn(3)]})
	case 6:
		lo := uint16(r.Intn(6))
		return pktcls.NewCondPorts(&pktcls.PortMatchSource{MinPort: lo, MaxPort: lo + uint16(r.Intn(3))})
	case 7:
		lo := uint16(r.Intn(6))
		return pktcls.NewCondPorts(&pktcls.PortMatchDestination{MinPort: lo, MaxPort: lo + uint16(r.Intn(3))})
	default:
		return pktcls.CondBool(true)
	}
}

type rtCase struct {
	chains   []*control.RoutingChain
	distinct bool
	ids      []int
}

func genTable(r *vlib.Rand) rtCase {
	var c rtCase
	c.distinct = true
	seen := map[string]bool{}
	idSeen := map[int]bool{}
	nch := r.Range(1, 3)
	allowDup := r.Chance(10)
	for i := 0; i < nch; i++ {
		ch := &control.RoutingChain{}
		np := r.Range(0, 4)
		if r.Chance(85) && np == 0 {
			np = 1
		}
		for j := 0; j < np; j++ {
			var n *net.IPNet
			if r.Chance(75) {
				b, l := randV4Prefix(r)
				n = v4Net(b, l, r.Chance(80))
			} else {
				n = randV6Prefix(r)
			}
			if allowDup && len(ch.Prefixes) > 0 && r.Chance(40) {
				n = ch.Prefixes[r.Intn(len(ch.Prefixes))]
			}
			k := netKey(n)
			if seen[k] {
				if !allowDup {
					continue
				}
				c.distinct = false
			}
			seen[k] = true
			ch.Prefixes = append(ch.Prefixes, n)
		}
		nm := r.Range(0, 4)
		for j := 0; j < nm; j++ {
			id := r.Range(1, 7)
			ch.TrafficMatchers = append(ch.TrafficMatchers, control.TrafficMatcher{ID: id, Matcher: randCond(r, 2)})
			if !idSeen[id] {
				idSeen[id] = true
				c.ids = append(c.ids, id)
			}
		}
		c.chains = append(c.chains, ch)
	}
	return c
}

func encTable(c rtCase) (string, bool) {
	var sb strings.Builder
	fmt.Fprintf(&sb, "rt %d", len(c.chains))
	for _, ch := range c.chains {
		fmt.Fprintf(&sb, " %d", len(ch.Prefixes))
		for _, p := range ch.Prefixes {
			sb.WriteString(" " + encIPNet(p))
		}
		fmt.Fprintf(&sb, " %d", len(ch.TrafficMatchers))
		for _, tm := range ch.TrafficMatchers {
			s, ok := gwcond.EncCond(tm.Matcher)
			if !ok {
				return "", false
			}
			fmt.Fprintf(&sb, " %d %s", tm.ID, s)
		}
	}
	return sb.String(), true
}

type pktCase struct {
	raw    []byte
	v6     bool
	op     string // words after "pk"/"rte <fam>": "<dst> [frag] <pkt>"
	opRte  string
	ip4    *layers.IPv4
	ip6    *layers.IPv6
	dst    net.IP
	frag   bool
	inval  bool
	l4bad  bool
}

func genPacket(r *vlib.Rand, c rtCase) pktCase {
	var pc pktCase
	// destination: inside / at the edge of a configured prefix, or random
	var pfx *net.IPNet
	var all []*net.IPNet
	for _, ch := range c.chains {
		all = append(all, ch.Prefixes...)
	}
	if len(all) > 0 && r.Chance(85) {
		pfx = all[r.Intn(len(all))]
	}
	if r.Chance(3) {
		pc.inval = true
		switch r.Intn(3) {
		case 0:
			pc.raw = []byte{}
		case 1:
			pc.raw = append([]byte{byte(r.Intn(16))<<4 | 5}, r.Bytes(30)...)
			if v := pc.raw[0] >> 4; v == 4 || v == 6 {
				pc.raw[0] = 0x55
			}
		default:
			pc.raw = gwcond.V4Spec{Src: 1, Dst: 2, Payload: r.Bytes(4)}.Raw()[:r.Range(1, 19)]
		}
		pc.op = "inv"
		return pc
	}
	isV6 := pfx != nil && len(pfx.Mask) == 16 || pfx == nil && r.Chance(15)
	if isV6 {
		ip := net.IP(r.Bytes(16))
		if pfx != nil {
			ones, _ := pfx.Mask.Size()
			base := pfx.IP.Mask(pfx.Mask)
			for i := 0; i < 16; i++ {
				ip[i] = base[i]&pfx.Mask[i] | ip[i]&^pfx.Mask[i]
			}
			switch r.Intn(6) {
			case 0: // first address
				copy(ip, base)
			case 1: // just outside: flip the last network bit
				if ones > 0 {
					ip[(ones-1)/8] ^= 1 << uint(7-(ones-1)%8)
				}
			}
		}
		if ip.To4() != nil {
			ip[0] = 0x20
		}
		raw := make([]byte, 40+8)
		raw[0] = 0x60
		binary.BigEndian.PutUint16(raw[4:], 8)
		raw[6] = 17
		raw[7] = 64
		copy(raw[8:24], net.ParseIP("2001:db8::99").To16())
		copy(raw[24:40], ip)
		pc.raw, pc.v6, pc.dst = raw, true, ip
		p := gopacket.NewPacket(raw, layers.LayerTypeIPv6, gwcond.DecodeOptions)
		if p.ErrorLayer() != nil {
			panic("generated IPv6 packet does not decode")
		}
		pc.ip6 = p.NetworkLayer().(*layers.IPv6)
		pc.op = fmt.Sprintf("6 %s x", bigOf(ip))
		pc.opRte = pc.op
		return pc
	}
	dst := uint32(r.U64())
	if pfx != nil {
		ones, _ := pfx.Mask.Size()
		m := mask32(ones)
		base := binary.BigEndian.Uint32(pfx.IP.To4())
		dst = base&m | dst&^m
		switch r.Intn(8) {
		case 0:
			dst = base & m
		case 1:
			dst = base&m | ^m
		case 2:
			dst = (base & m) - 1
		case 3:
			dst = (base&m | ^m) + 1
		}
	}
	spec := gwcond.V4Spec{Src: v4Bases[r.Intn(len(v4Bases))] | uint32(r.Intn(256)), Dst: dst,
		TOS: uint8(r.Intn(16)), Proto: []uint8{6, 17, 17, 1, 59}[r.Intn(5)]}
	if r.Chance(12) {
		spec.MF = r.Bool()
		if !spec.MF || r.Bool() {
			spec.FragOff = uint16(r.Range(1, 100))
		}
	}
	kind := 2
	if spec.Proto == 17 {
		kind = 0
	} else if spec.Proto == 6 {
		kind = 1
	}
	spec.Payload = gwcond.L4(r, kind, uint16(r.Intn(8)), uint16(r.Intn(8)), r.Chance(12))
	if spec.Proto == 1 && r.Chance(90) {
		spec.Payload = append([]byte{8, 0, 0, 0, 0, 1, 0, 1}, r.Bytes(r.Intn(6))...) // ICMP echo: decodes
	}
	pc.raw = spec.Raw()
	var valid bool
	pc.ip4, valid = gwcond.DecodeV4(pc.raw)
	if pc.ip4 == nil {
		panic("generated IPv4 header does not decode")
	}
	pc.frag = spec.MF || spec.FragOff != 0
	pc.dst = pc.ip4.DstIP
	enc := gwcond.EncV4(pc.ip4)
	pc.op = fmt.Sprintf("4 %d %d %s", dst, b2i(pc.frag), enc)
	pc.opRte = fmt.Sprintf("4 %d %s", dst, enc)
	if !valid {
		// a malformed L4 header makes gopacket report an error layer: the forwarder drops the
		// packet as invalid; RouteIPv4 is still exercised on the IPv4 layer
		pc.l4bad = true
		pc.op = "inv"
	}
	return pc
}

func b2i(b bool) int {
	if b {
		return 1
	}
	return 0
}

// specRoute is the statement of C42 evaluated directly: most specific configured prefix
// containing dst; first traffic class (real Eval) of that prefix; its session.  ok=false when
// two most specific candidates exist (non-distinct table).
func specRoute(c rtCase, classOf map[int]pktcls.Cond, sessOf map[int]*session, dst net.IP, layer gopacket.Layer) (int, bool) {
	best, bestLen, nbest := -1, -1, 0
	type ent struct {
		n   *net.IPNet
		tms []control.TrafficMatcher
	}
	var ents []ent
	for _, ch := range c.chains {
		for _, p := range ch.Prefixes {
			ents = append(ents, ent{p, ch.TrafficMatchers})
		}
	}
	var a netip.Addr
	if v4 := dst.To4(); v4 != nil {
		a, _ = netip.AddrFromSlice(v4)
	} else {
		a, _ = netip.AddrFromSlice(dst.To16())
	}
	for i, e := range ents {
		ones, _ := e.n.Mask.Size()
		var pa netip.Addr
		if len(e.n.Mask) == 4 {
			pa, _ = netip.AddrFromSlice(e.n.IP.To4())
		} else {
			pa, _ = netip.AddrFromSlice(e.n.IP.To16())
		}
		np, err := pa.Prefix(ones)
		if err != nil || !np.Contains(a) {
			continue
		}
		if ones > bestLen {
			best, bestLen, nbest = i, ones, 1
		} else if ones == bestLen {
			nbest++
		}
	}
	if best < 0 {
		return 0, true
	}
	if nbest > 1 {
		return 0, false
	}
	for _, tm := range ents[best].tms {
		if classOf[tm.ID].Eval(layer) {
			if s := sessOf[tm.ID]; s != nil {
				return s.id, true
			}
			return 0, true
		}
	}
	return 0, true
}

func runTables(e *vlib.Env, r *vlib.Rand, ncases int) {
	for ci := 0; ci < ncases; ci++ {
		c := genTable(r)
		line, ok := encTable(c)
		if !ok {
			panic("unencodable condition generated")
		}
		rt := dataplane.NewRoutingTable(c.chains)
		var diag bytes.Buffer
		rt.DiagnosticsWrite(&diag)
		tag := "rt"
		if !c.distinct {
			tag = "rt-dup"
		}
		e.Op(line, fmt.Sprintf("ok %d", strings.Count(diag.String(), "condition: ")), tag)
		// class registered per ID: first registration (in a chain that has prefixes) wins
		classOf := map[int]pktcls.Cond{}
		for _, ch := range c.chains {
			if len(ch.Prefixes) == 0 {
				continue
			}
			for _, tm := range ch.TrafficMatchers {
				if _, ok := classOf[tm.ID]; !ok {
					classOf[tm.ID] = tm.Matcher
				}
			}
		}
		sessOf := map[int]*session{}
		var sessOps []string // Set/ClearSession history, for replays
		sessions := map[int]*session{}
		nextSess := 1
		for round := 0; round < 3; round++ {
			// session updates
			nops := r.Range(0, 4)
			if round == 0 {
				nops = len(c.ids) + r.Intn(3)
			}
			for k := 0; k < nops; k++ {
				id := r.Range(1, 8)
				if round == 0 && k < len(c.ids) && r.Chance(85) {
					id = c.ids[k]
				} else if len(c.ids) > 0 && r.Chance(70) {
					id = c.ids[r.Intn(len(c.ids))]
				}
				if r.Chance(75) {
					s := &session{id: nextSess}
					nextSess++
					sessions[s.id] = s
					err := rt.SetSession(id, s)
					ans := "ok"
					if err != nil {
						ans = "err"
					} else {
						sessOf[id] = s
					}
					e.Op(fmt.Sprintf("set %d %d", id, s.id), ans, "set-"+ans)
					sessOps = append(sessOps, fmt.Sprintf("set %d %d -> %s", id, s.id, ans))
				} else {
					err := rt.ClearSession(id)
					ans := "ok"
					if err != nil {
						ans = "err"
					} else {
						delete(sessOf, id)
					}
					e.Op(fmt.Sprintf("clr %d", id), ans, "clr-"+ans)
					sessOps = append(sessOps, fmt.Sprintf("clr %d -> %s", id, ans))
				}
			}
			// packets
			npk := r.Range(3, 8)
			pkts := make([]pktCase, npk)
			raws := make([][]byte, npk)
			for k := range pkts {
				pkts[k] = genPacket(r, c)
				raws[k] = pkts[k].raw
			}
			// direct RouteIPv4 / RouteIPv6
			for _, pc := range pkts {
				if pc.inval {
					continue
				}
				var w control.PktWriter
				var layer gopacket.Layer
				if pc.v6 {
					w = rt.RouteIPv6(*pc.ip6)
					layer = pc.ip6
				} else {
					w = rt.RouteIPv4(*pc.ip4)
					layer = pc.ip4
				}
				ans, got := "nil", 0
				if w != nil {
					got = w.(*session).id
					ans = fmt.Sprintf("sess %d", got)
				}
				t := "rte-nil"
				if w != nil {
					t = "rte-sess"
				}
				e.Op("rte "+pc.opRte, ans, t)
				if want, ok := specRoute(c, classOf, sessOf, pc.dst, layer); ok && want != got {
					e.Violate("C42/route", fmt.Sprintf("RoutingTable returned session %d, the most specific prefix's first matching class has %d", got, want),
						map[string]any{"table": line, "sessions": append([]string(nil), sessOps...), "packet": pc.opRte})
				}
			}
			// through IPForwarder.Run
			var inv, fragc, noroute counter
			outcomes := make([]string, npk)
			snap := func() (float64, float64, float64, int) {
				t := 0
				for _, s := range sessions {
					t += s.got
				}
				return inv.n, fragc.n, noroute.n, t
			}
			pi, pf, pn, pt := snap()
			rd := &scriptReader{pkts: raws}
			rd.hook = func(done int) {
				if done == 0 {
					return
				}
				ci, cf, cn, ct := snap()
				var out []string
				if ci != pi {
					out = append(out, "drop invalid")
				}
				if cf != pf {
					out = append(out, "drop fragment")
				}
				if cn != pn {
					out = append(out, "drop noroute")
				}
				if ct != pt {
					for id, s := range sessions {
						if s.got > 0 {
							out = append(out, fmt.Sprintf("sess %d", id))
							if s.got != 1 {
								out = append(out, "multiple-writes")
							}
							s.got = 0
						}
					}
				}
				if len(out) == 0 {
					out = append(out, "nothing-observed")
				}
				outcomes[done-1] = strings.Join(out, "+")
				pi, pf, pn, pt = snap()
			}
			fw := &dataplane.IPForwarder{Reader: rd, RoutingTable: rt, Metrics: dataplane.IPForwarderMetrics{
				IPPktsInvalid: &inv, IPPktsFragmented: &fragc, IPPktsNoRoute: &noroute}}
			_ = fw.Run(context.Background())
			for k, pc := range pkts {
				out := outcomes[k]
				t := strings.ReplaceAll(out, " ", "-")
				if strings.HasPrefix(out, "sess") {
					t = "pk-sess"
				}
				if pc.v6 {
					t += "/v6"
				}
				e.Op("pk "+pc.op, out, t)
				// the statement
				want := ""
				switch {
				case pc.inval || pc.l4bad:
					want = "drop invalid"
				case pc.frag:
					want = "drop fragment"
				default:
					var layer gopacket.Layer = pc.ip4
					if pc.v6 {
						layer = pc.ip6
					}
					s, ok := specRoute(c, classOf, sessOf, pc.dst, layer)
					if !ok {
						continue
					}
					want = "drop noroute"
					if s != 0 {
						want = fmt.Sprintf("sess %d", s)
					}
				}
				if want != out {
					e.Violate("C42/forward", fmt.Sprintf("forwarder did %q, statement requires %q", out, want),
						map[string]any{"table": line, "sessions": append([]string(nil), sessOps...), "packet": pc.op})
				}
			}
		}
	}
}

// ---------------------------------------------------------------------------------------
// policy part

var iaPool = []string{"0-0", "1-0", "2-0", "0-ff00:0:110", "0-ff00:0:111", "1-ff00:0:110", "1-ff00:0:111", "2-ff00:0:110", "2-ff00:0:112"}
var qIAPool = []string{"1-ff00:0:110", "1-ff00:0:111", "2-ff00:0:110", "2-ff00:0:112", "3-ff00:0:113"}
var pfxPool = []string{"0.0.0.0/0", "10.0.0.0/8", "10.1.0.0/16", "10.1.2.0/24", "10.1.2.3/32", "10.1.2.3/8", "10.128.0.0/9",
	"192.168.0.0/16", "192.168.1.0/24", "172.16.0.0/12", "10.1.2.128/25", "10.1.3.0/24",
	"::/0", "2001:db8::/32", "2001:db8:1::/48", "2001:db8:1:2::/64", "2001:db8:1:2::3/128", "::ffff:10.1.2.0/120", "fd00::/8", "2001:db8:1::7/48"}

func randPrefix(r *vlib.Rand) netip.Prefix {
	p := netip.MustParsePrefix(pfxPool[r.Intn(len(pfxPool))])
	if r.Chance(20) {
		// random length on the same address
		p = netip.PrefixFrom(p.Addr(), r.Intn(p.Addr().BitLen()+1))
	}
	return p
}

func randIAM(r *vlib.Rand, deep bool) routing.IAMatcher {
	var m routing.IAMatcher = routing.SingleIAMatcher{IA: addr.MustParseIA(iaPool[r.Intn(len(iaPool))])}
	if r.Chance(30) {
		m = routing.NegatedIAMatcher{IAMatcher: m}
		if deep && r.Chance(30) {
			m = routing.NegatedIAMatcher{IAMatcher: m}
		}
	}
	return m
}

func encIAM(m routing.IAMatcher) string {
	switch v := m.(type) {
	case routing.SingleIAMatcher:
		return fmt.Sprintf("s %d %d", v.IA.ISD(), v.IA.AS())
	case routing.NegatedIAMatcher:
		return "n " + encIAM(v.IAMatcher)
	}
	panic("unknown IAMatcher")
}

func encAddr(a netip.Addr) string {
	if a.Is4() {
		b := a.As4()
		return fmt.Sprintf("4 %d", binary.BigEndian.Uint32(b[:]))
	}
	b := a.As16()
	return "6 " + bigOf(b[:])
}

func encNPrefix(p netip.Prefix) string { return fmt.Sprintf("%s %d", encAddr(p.Addr()), p.Bits()) }

func encPolicy(p *routing.Policy) string {
	var sb strings.Builder
	fmt.Fprintf(&sb, "pol %d %d", int(p.DefaultAction), len(p.Rules))
	for _, ru := range p.Rules {
		fmt.Fprintf(&sb, " %d %s %s %d %d", int(ru.Action), encIAM(ru.From), encIAM(ru.To), b2i(ru.Network.Negated), len(ru.Network.Allowed))
		for _, n := range ru.Network.Allowed {
			sb.WriteString(" " + encNPrefix(n))
		}
	}
	return sb.String()
}

// encTextRules renders the rules with their atoms as text (ops ptx / ppx of the policy-text model).
func encTextRules(rs []routing.Rule) (string, bool) {
	var sb strings.Builder
	fmt.Fprintf(&sb, "%d", len(rs))
	iam := func(m routing.IAMatcher) (int, string, bool) {
		switch v := m.(type) {
		case routing.SingleIAMatcher:
			return 0, v.IA.String(), true
		case routing.NegatedIAMatcher:
			if in, ok := v.IAMatcher.(routing.SingleIAMatcher); ok {
				return 1, in.IA.String(), true
			}
		}
		return 0, "", false
	}
	for _, ru := range rs {
		fn, fi, ok1 := iam(ru.From)
		tn, ti, ok2 := iam(ru.To)
		if !ok1 || !ok2 || int(ru.Action) < 1 || int(ru.Action) > 4 || len(ru.Network.Allowed) == 0 {
			return "", false
		}
		fmt.Fprintf(&sb, " %d %d %s %d %s %d %d", int(ru.Action), fn, fi, tn, ti, b2i(ru.Network.Negated), len(ru.Network.Allowed))
		for _, n := range ru.Network.Allowed {
			sb.WriteString(" " + n.String())
		}
		nh := "-"
		if ru.NextHop != nil {
			nh = ru.NextHop.String()
		}
		sb.WriteString(" " + nh + " " + vlib.Hex([]byte(ru.Comment)))
	}
	return sb.String(), true
}

var comments = []string{"", "", "hello", "allow # all", "x  y", "a,b;c", "trailing#", "# starts with hash"}

// genPolicy: expressible=true restricts to what the text form can carry (DESIGN 7a): known
// actions, at most one negation, non-empty networks, single-line comments, next hop only on
// advertise rules.
func genPolicy(r *vlib.Rand, expressible bool) *routing.Policy {
	p := &routing.Policy{DefaultAction: []routing.Action{routing.Accept, routing.Accept, routing.Reject, routing.Reject, routing.UnknownAction}[r.Intn(5)]}
	n := r.Intn(7)
	for i := 0; i < n; i++ {
		var ru routing.Rule
		switch k := r.Intn(12); {
		case k < 4:
			ru.Action = routing.Accept
		case k < 8:
			ru.Action = routing.Reject
		case k < 11:
			ru.Action = routing.Advertise
		default:
			ru.Action = routing.RedistributeBGP
			if !expressible && r.Chance(40) {
				ru.Action = routing.UnknownAction
			}
		}
		ru.From = randIAM(r, !expressible)
		ru.To = randIAM(r, !expressible)
		nn := r.Range(1, 3)
		if !expressible && r.Chance(10) {
			nn = 0
		}
		for j := 0; j < nn; j++ {
			ru.Network.Allowed = append(ru.Network.Allowed, randPrefix(r))
		}
		ru.Network.Negated = r.Chance(25)
		if ru.Action == routing.Advertise && r.Chance(40) {
			ru.NextHop = net.ParseIP([]string{"10.0.0.1", "2001:db8::1"}[r.Intn(2)])
		}
		ru.Comment = comments[r.Intn(len(comments))]
		if r.Chance(15) { // random printable comment without leading/trailing blank
			n := r.Range(1, 12)
			b := make([]byte, n)
			for k := range b {
				b[k] = byte(r.Range(0x20, 0x7e))
			}
			if b[0] == ' ' {
				b[0] = 'x'
			}
			if b[n-1] == ' ' {
				b[n-1] = 'y'
			}
			ru.Comment = string(b)
		}
		p.Rules = append(p.Rules, ru)
	}
	return p
}

func specIAMatch(m routing.IAMatcher, ia addr.IA) bool {
	switch v := m.(type) {
	case routing.SingleIAMatcher:
		return (v.IA.ISD() == 0 || v.IA.ISD() == ia.ISD()) && (v.IA.AS() == 0 || v.IA.AS() == ia.AS())
	case routing.NegatedIAMatcher:
		return !specIAMatch(v.IAMatcher, ia)
	}
	panic("unknown IAMatcher")
}

func specNet(m routing.NetworkMatcher, a netip.Addr) bool {
	in := false
	for _, p := range m.Allowed {
		if p.Contains(a) {
			in = true
		}
	}
	return in != m.Negated
}

// specMatch is the policy clause of the statement: first accept/reject rule matching the
// ISD-AS pair and the address decides, otherwise the default; only addresses of the prefix.
func specMatch(p *routing.Policy, from, to addr.IA, q netip.Prefix, a netip.Addr) bool {
	if !q.Contains(a) {
		return false
	}
	for _, ru := range p.Rules {
		if ru.Action != routing.Accept && ru.Action != routing.Reject {
			continue
		}
		if specIAMatch(ru.From, from) && specIAMatch(ru.To, to) && specNet(ru.Network, a) {
			return ru.Action == routing.Accept
		}
	}
	return p.DefaultAction == routing.Accept
}

func edgeAddrs(p netip.Prefix) []netip.Addr {
	m := p.Masked()
	first := m.Addr()
	// last address
	b := first.AsSlice()
	for i := p.Bits(); i < len(b)*8; i++ {
		b[i/8] |= 1 << uint(7-i%8)
	}
	last, _ := netip.AddrFromSlice(b)
	out := []netip.Addr{first, last}
	if x := first.Prev(); x.IsValid() {
		out = append(out, x)
	}
	if x := last.Next(); x.IsValid() {
		out = append(out, x)
	}
	return out
}

type query struct {
	from, to addr.IA
	q        netip.Prefix
	probes   []netip.Addr
}

func (q query) op() string {
	var sb strings.Builder
	fmt.Fprintf(&sb, "q %d %d %d %d %s %d", q.from.ISD(), q.from.AS(), q.to.ISD(), q.to.AS(), encNPrefix(q.q), len(q.probes))
	for _, a := range q.probes {
		sb.WriteString(" " + encAddr(a))
	}
	return sb.String()
}

func genQuery(r *vlib.Rand, p *routing.Policy) query {
	q := query{from: addr.MustParseIA(qIAPool[r.Intn(len(qIAPool))]), to: addr.MustParseIA(qIAPool[r.Intn(len(qIAPool))]), q: randPrefix(r)}
	if r.Chance(45) {
		q.q = netip.MustParsePrefix([]string{"0.0.0.0/0", "::/0", "10.0.0.0/8", "2001:db8::/32"}[r.Intn(4)])
	}
	var cand []netip.Addr
	cand = append(cand, edgeAddrs(q.q)...)
	for _, ru := range p.Rules {
		for _, n := range ru.Network.Allowed {
			cand = append(cand, edgeAddrs(n)...)
		}
	}
	for i := 0; i < 4; i++ {
		pp := randPrefix(r)
		b := pp.Masked().Addr().AsSlice()
		rb := r.Bytes(len(b))
		for k := pp.Bits(); k < len(b)*8; k++ {
			b[k/8] |= rb[k/8] & (1 << uint(7-k%8))
		}
		a, _ := netip.AddrFromSlice(b)
		cand = append(cand, a)
	}
	// keep at most 24 probes
	for len(cand) > 24 {
		k := r.Intn(len(cand))
		cand = append(cand[:k], cand[k+1:]...)
	}
	q.probes = cand
	return q
}

func implMatch(p *routing.Policy, q query) (string, []bool) {
	set, err := p.Match(q.from, q.to, q.q)
	if err != nil {
		return "err", nil
	}
	bits := make([]bool, len(q.probes))
	var sb strings.Builder
	for i, a := range q.probes {
		bits[i] = set.Contains(a)
		sb.WriteByte("01"[b2i(bits[i])])
	}
	return sb.String() + ".", bits
}

func implAdv(p *routing.Policy, q query) (string, []netip.Prefix) {
	l, err := routing.AdvertiseList(p, q.from, q.to)
	if err != nil {
		return "err", nil
	}
	var sb strings.Builder
	fmt.Fprintf(&sb, "%d", len(l))
	for _, n := range l {
		f := "6"
		if n.Addr().Is4() {
			f = "4"
		}
		v := strings.SplitN(encAddr(n.Addr()), " ", 2)[1]
		fmt.Fprintf(&sb, " %s/%s/%d", f, v, n.Bits())
	}
	return sb.String(), l
}

func runPolicies(e *vlib.Env, r *vlib.Rand, ncases int) {
	for ci := 0; ci < ncases; ci++ {
		expressible := r.Chance(75)
		p := genPolicy(r, expressible)
		pline := encPolicy(p)
		tag := "pol"
		if !expressible {
			tag = "pol-notext"
		}
		e.Op(pline, fmt.Sprintf("ok %d", len(p.Rules)), tag)
		nq := r.Range(2, 5)
		qs := make([]query, nq)
		ans := make([]string, nq)
		adv := make([]string, nq)
		for k := range qs {
			qs[k] = genQuery(r, p)
			var bits []bool
			ans[k], bits = implMatch(p, qs[k])
			nacc := strings.Count(ans[k], "1")
			t := "q-mixed"
			if nacc == 0 {
				t = "q-none"
			} else if nacc == len(qs[k].probes) {
				t = "q-all"
			}
			e.Op(qs[k].op(), ans[k], t)
			for i, a := range qs[k].probes {
				if bits != nil && bits[i] != specMatch(p, qs[k].from, qs[k].to, qs[k].q, a) {
					e.Violate("C42/policy-first-match", fmt.Sprintf("Policy.Match accepts=%v for %s, first matching rule says %v", bits[i], a, !bits[i]),
						map[string]any{"policy": pline, "from": qs[k].from.String(), "to": qs[k].to.String(), "prefix": qs[k].q.String(), "addr": a.String()})
				}
			}
			var l []netip.Prefix
			adv[k], l = implAdv(p, qs[k])
			t = "adv"
			if len(l) == 0 {
				t = "~adv-empty"
			}
			e.Op(fmt.Sprintf("adv %d %d %d %d", qs[k].from.ISD(), qs[k].from.AS(), qs[k].to.ISD(), qs[k].to.AS()), adv[k], t)
			// statement: advertised prefixes = networks of the matching non-negated advertise rules
			var want []netip.Prefix
			for _, ru := range p.Rules {
				if ru.Action == routing.Advertise && !ru.Network.Negated && specIAMatch(ru.From, qs[k].from) && specIAMatch(ru.To, qs[k].to) {
					want = append(want, ru.Network.Allowed...)
				}
			}
			if fmt.Sprint(want) != fmt.Sprint(l) {
				e.Violate("C42/advertise", "AdvertiseList differs from the networks of the matching advertise rules",
					map[string]any{"policy": pline, "from": qs[k].from.String(), "to": qs[k].to.String(), "got": fmt.Sprint(l), "want": fmt.Sprint(want)})
			}
		}
		if !expressible {
			continue
		}
		// text round trip
		txt, err := p.MarshalText()
		if err != nil {
			e.Violate("C42/marshal", "MarshalText failed: "+err.Error(), map[string]any{"policy": pline})
			continue
		}
		p2 := &routing.Policy{DefaultAction: p.DefaultAction}
		if err := p2.UnmarshalText(txt); err != nil {
			e.Violate("C42/unmarshal", "UnmarshalText(MarshalText(p)) failed: "+err.Error(), map[string]any{"policy": pline, "text": string(txt)})
			continue
		}
		// the text itself: real MarshalText vs the model's, byte for byte; real parse vs the model's
		if enc, ok := encTextRules(p.Rules); ok {
			e.Op("ptx "+enc, vlib.Hex(txt), "text-marshal")
			if enc2, ok := encTextRules(p2.Rules); ok {
				e.Op("ppx "+vlib.Hex(txt), enc2, "text-unmarshal")
				if enc2 != enc {
					e.Violate("C42/text-roundtrip-rules", "the re-parsed rules differ from the marshalled ones (action, matchers, networks, next hop or comment)",
						map[string]any{"policy": pline, "text": string(txt), "before": enc, "after": enc2})
				}
			}
		}
		e.Op(encPolicy(p2), fmt.Sprintf("ok %d", len(p.Rules)), "pol-reparsed")
		for k := range qs {
			a2, _ := implMatch(p2, qs[k])
			e.Op(qs[k].op(), a2, "q-reparsed")
			if a2 != ans[k] {
				e.Violate("C42/text-roundtrip", "decisions differ after MarshalText/UnmarshalText",
					map[string]any{"policy": pline, "text": string(txt), "query": qs[k].op(), "before": ans[k], "after": a2})
			}
			v2, _ := implAdv(p2, qs[k])
			e.Op(fmt.Sprintf("adv %d %d %d %d", qs[k].from.ISD(), qs[k].from.AS(), qs[k].to.ISD(), qs[k].to.AS()), v2, "adv-reparsed")
			if v2 != adv[k] {
				e.Violate("C42/text-roundtrip-advertise", "advertised prefixes differ after MarshalText/UnmarshalText",
					map[string]any{"policy": pline, "text": string(txt), "before": adv[k], "after": v2})
			}
		}
		e.Sample(map[string]any{"text": string(txt)})
	}
}

func main() {
	e := vlib.Init()
	r := vlib.NewRand(uint64(e.Seed))
	e.Rule = "routing tables: 1-3 chains of nested/adjacent IPv4+IPv6 prefixes (distinct; 10% of the tables with duplicates are " +
		"model-only), shared matcher IDs, random condition trees, Set/ClearSession incl. unknown IDs; packets aimed inside/at the edges of " +
		"the prefixes, fragments, invalid reads; each packet through RouteIPv4/6 and through IPForwarder.Run. " +
		"policies: 0-6 rules over ISD-AS wildcards/negations, prefix lists (v4, v6, unmasked, 4in6), all actions; queries probe the " +
		"edges of every prefix involved; 75% of the policies go through MarshalText/UnmarshalText and are queried again. " +
		"distinct = distinct op lines with a non-trivial tag"
	runTables(e, r, e.N(1500, 15000))
	runPolicies(e, r, e.N(2500, 25000))
	e.Finish()
}
