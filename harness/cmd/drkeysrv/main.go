// Engine "drkeysrv" (C40): ties lean/Scion/Model/DrkeySrv.lean to the six handlers of
// control/drkey/grpc.Server (real handlers, real validators; fabricated peers, TLS states,
// certificate verifier results and a recording Engine), and evaluates the C40 property predicate
// directly on the implementation: whenever the Engine is asked for a key, the requester must be
// the entity the statement binds that key to.
package main

import (
	"context"
	"crypto/tls"
	"crypto/x509"
	"crypto/x509/pkix"
	"errors"
	"fmt"
	"net"
	"net/netip"
	"strings"
	"time"

	"google.golang.org/grpc/credentials"
	"google.golang.org/grpc/peer"
	"google.golang.org/protobuf/types/known/timestamppb"

	"github.com/scionproto/scion/control/config"
	dkgrpc "github.com/scionproto/scion/control/drkey/grpc"
	"github.com/scionproto/scion/pkg/addr"
	"github.com/scionproto/scion/pkg/drkey"
	cppb "github.com/scionproto/scion/pkg/proto/control_plane"
	dkpb "github.com/scionproto/scion/pkg/proto/drkey"
	"github.com/scionproto/scion/pkg/snet"

	"verifharness/vlib"
)

// recEngine records what the handlers ask the engine for.
type recEngine struct {
	calls []string
	l1    *drkey.Level1Meta
	sv    *drkey.SecretValueMeta
	ah    *drkey.ASHostMeta
	ha    *drkey.HostASMeta
	hh    *drkey.HostHostMeta
	intra bool
}

func (e *recEngine) reset() { *e = recEngine{} }

func tsStr(t time.Time) string { return fmt.Sprintf("%d %d", t.Unix(), t.Nanosecond()) }

func (e *recEngine) GetSecretValue(_ context.Context, m drkey.SecretValueMeta) (drkey.SecretValue, error) {
	e.sv = &m
	e.calls = append(e.calls, fmt.Sprintf("call %d %s", m.ProtoId, tsStr(m.Validity)))
	return drkey.SecretValue{}, nil
}
func (e *recEngine) GetLevel1Key(_ context.Context, m drkey.Level1Meta) (drkey.Level1Key, error) {
	e.l1, e.intra = &m, true
	e.calls = append(e.calls, fmt.Sprintf("call %d %s %d %d", m.ProtoId, tsStr(m.Validity), uint64(m.SrcIA), uint64(m.DstIA)))
	return drkey.Level1Key{}, nil
}
func (e *recEngine) DeriveLevel1(_ context.Context, m drkey.Level1Meta) (drkey.Level1Key, error) {
	e.l1 = &m
	e.calls = append(e.calls, fmt.Sprintf("call %d %s %d %d", m.ProtoId, tsStr(m.Validity), uint64(m.SrcIA), uint64(m.DstIA)))
	return drkey.Level1Key{}, nil
}
func (e *recEngine) DeriveASHost(_ context.Context, m drkey.ASHostMeta) (drkey.ASHostKey, error) {
	e.ah = &m
	e.calls = append(e.calls, fmt.Sprintf("call %d %s %d %d - %s", m.ProtoId, tsStr(m.Validity), uint64(m.SrcIA), uint64(m.DstIA), vlib.Hex([]byte(m.DstHost))))
	return drkey.ASHostKey{}, nil
}
func (e *recEngine) DeriveHostAS(_ context.Context, m drkey.HostASMeta) (drkey.HostASKey, error) {
	e.ha = &m
	e.calls = append(e.calls, fmt.Sprintf("call %d %s %d %d %s -", m.ProtoId, tsStr(m.Validity), uint64(m.SrcIA), uint64(m.DstIA), vlib.Hex([]byte(m.SrcHost))))
	return drkey.HostASKey{}, nil
}
func (e *recEngine) DeriveHostHost(_ context.Context, m drkey.HostHostMeta) (drkey.HostHostKey, error) {
	e.hh = &m
	e.calls = append(e.calls, fmt.Sprintf("call %d %s %d %d %s %s", m.ProtoId, tsStr(m.Validity), uint64(m.SrcIA), uint64(m.DstIA), vlib.Hex([]byte(m.SrcHost)), vlib.Hex([]byte(m.DstHost))))
	return drkey.HostHostKey{}, nil
}

// certVerifier stands for the CP-PKI verification of the client chain (C32-C37): the fabricated
// leaf says which ISD-AS it authenticates or that it is invalid.
type certVerifier struct{}

func (certVerifier) VerifyParsedClientCertificate(chain []*x509.Certificate) (addr.IA, error) {
	cn := chain[0].Subject.CommonName
	if cn == "bad" {
		return 0, errors.New("chain does not verify")
	}
	var ia uint64
	fmt.Sscanf(cn, "%d", &ia)
	return addr.IA(ia), nil
}

type otherAuth struct{}

func (otherAuth) AuthType() string { return "other" }

// local ISD-AS of the server the next fabricated peer talks to (for SCION peer addresses)
var curLocal addr.IA

// fabricated requester
type peerCase struct {
	p       *peer.Peer // nil: no peer in the context
	op      string
	ip      net.IP // TCP peers only
	isTCP   bool
	cert    *addr.IA // IA authenticated by the certificate (nil: none)
	sane    bool     // a TCP address whose IP has 4 or 16 bytes (what a real connection yields)
	skid    []byte   // subject key identifier of the presented leaf certificate
	otherIP net.IP   // IP carried by a non-TCP peer address (never a valid requester identity)
	detail  string   // non-TCP peers: Go value of the address
}

func genIP(r *vlib.Rand) net.IP {
	switch k := r.Intn(10); {
	case k < 4:
		return net.IP(r.Bytes(4))
	case k < 6:
		return net.IPv4(byte(r.Intn(256)), byte(r.Intn(256)), byte(r.Intn(256)), byte(r.Intn(256))) // 16-byte form
	default:
		b := r.Bytes(16)
		if r.Chance(10) { // looks almost like a mapped address
			copy(b, []byte{0, 0, 0, 0, 0, 0, 0, 0, 0, 0, 0xff, 0xfe})
		}
		return net.IP(b)
	}
}

func mkPeer(r *vlib.Rand, ip net.IP, wantCert bool, certIA addr.IA, skid []byte) peerCase {
	var pc peerCase
	if r.Chance(2) {
		pc.op = "nopeer"
		return pc
	}
	p := &peer.Peer{}
	var aop string
	switch k := r.Intn(100); {
	case k < 82:
		p.Addr = &net.TCPAddr{IP: ip, Port: r.Range(1, 65535)}
		pc.ip, pc.isTCP, pc.sane = ip, true, len(ip) == 4 || len(ip) == 16
		aop = "tcp." + vlib.Hex(ip)
	case k < 85:
		p.Addr = &net.TCPAddr{IP: nil, Port: 1}
		pc.isTCP = true
		aop = "tcp.-"
	case k < 87:
		w := net.IP(r.Bytes([]int{1, 3, 5, 12, 15, 17}[r.Intn(6)]))
		p.Addr = &net.TCPAddr{IP: w, Port: 1}
		pc.ip, pc.isTCP = w, true
		aop = "tcp." + vlib.Hex(w)
	case k < 96: // a host reaching the service over SCION/QUIC: from the local AS or from ANOTHER AS
		ia := curLocal
		if r.Chance(60) {
			ia = addr.IA(r.U64())
			if r.Bool() {
				ia = curLocal ^ addr.IA(uint64(1)<<r.Intn(64))
			}
		}
		p.Addr = &snet.UDPAddr{IA: ia, Host: &net.UDPAddr{IP: ip, Port: r.Range(1, 65535)}}
		pc.otherIP, pc.detail = ip, fmt.Sprintf("*snet.UDPAddr{IA: %s, Host: %s}", ia, ip)
		aop = "other"
	case k < 98:
		p.Addr = &net.UDPAddr{IP: ip, Port: 1}
		pc.otherIP, pc.detail = ip, fmt.Sprintf("*net.UDPAddr{IP: %s}", ip)
		aop = "other"
	default:
		p.Addr = &net.UnixAddr{Name: "/tmp/x", Net: "unix"}
		aop = "other"
	}
	var auth string
	k := r.Intn(100)
	if !wantCert {
		k = 60 + r.Intn(40)
	}
	leaf := func(cn string) credentials.TLSInfo {
		return credentials.TLSInfo{State: tls.ConnectionState{PeerCertificates: []*x509.Certificate{
			{Subject: pkix.Name{CommonName: cn}, SubjectKeyId: skid}, {Subject: pkix.Name{CommonName: "ca"}}}}}
	}
	switch {
	case k < 70:
		p.AuthInfo = leaf(fmt.Sprintf("%d", uint64(certIA)))
		ia := certIA
		pc.cert = &ia
		auth = fmt.Sprintf("cert.%d", uint64(certIA))
	case k < 78:
		p.AuthInfo = leaf("bad")
		auth = "badcert"
	case k < 86:
		p.AuthInfo = credentials.TLSInfo{}
		auth = "nocert"
	case k < 93:
		p.AuthInfo = otherAuth{}
		auth = "nottls"
	default:
		auth = "none"
	}
	pc.p, pc.op, pc.skid = p, aop+"/"+auth, skid
	return pc
}

type tsCase struct {
	ts *timestamppb.Timestamp
	op string
}

func genTs(r *vlib.Rand) tsCase {
	switch k := r.Intn(100); {
	case k < 88:
		s, n := int64(r.Range(0, 4_000_000_000)), int32(r.Intn(1_000_000_000))
		if r.Chance(5) {
			s = -int64(r.Range(0, 62135596800))
		}
		return tsCase{&timestamppb.Timestamp{Seconds: s, Nanos: n}, fmt.Sprintf("%d:%d", s, n)}
	case k < 91:
		return tsCase{nil, "nil"}
	case k < 94:
		s := []int64{-62135596800, -62135596801, 253402300799, 253402300800}[r.Intn(4)]
		return tsCase{&timestamppb.Timestamp{Seconds: s}, fmt.Sprintf("%d:0", s)}
	case k < 97:
		n := []int32{-1, 1_000_000_000, 999_999_999, -2147483648}[r.Intn(4)]
		return tsCase{&timestamppb.Timestamp{Seconds: 1_700_000_000, Nanos: n}, fmt.Sprintf("1700000000:%d", n)}
	default:
		s := int64(r.U64())
		return tsCase{&timestamppb.Timestamp{Seconds: s, Nanos: 5}, fmt.Sprintf("%d:5", s)}
	}
}

func genProto(r *vlib.Rand) int32 {
	switch k := r.Intn(100); {
	case k < 45:
		return 1
	case k < 70:
		return int32(r.Range(2, 65535))
	case k < 82:
		return 0
	case k < 88:
		return int32(65536 * r.Range(1, 32767)) // truncates to Generic
	case k < 93:
		return int32(65536*r.Range(1, 32767) + 1) // truncates to SCMP
	case k < 96:
		return -int32(r.Range(1, 1<<31-1))
	default:
		return int32(r.U64())
	}
}

// hostText renders a request host that may or may not denote the requester.
func hostText(r *vlib.Rand, requester net.IP, match bool) string {
	if match && (len(requester) == 4 || len(requester) == 16) {
		a, _ := netip.AddrFromSlice(requester)
		switch r.Intn(6) {
		case 0: // other textual form of the same host
			if a.Unmap().Is4() {
				return "::ffff:" + a.Unmap().String()
			}
			return a.StringExpanded()
		case 1:
			return a.Unmap().String()
		default:
			return requester.String()
		}
	}
	switch k := r.Intn(100); {
	case k < 35:
		return genIP(r).String()
	case k < 60 && len(requester) > 0: // one bit away from the requester
		b := append(net.IP(nil), requester...)
		b[r.Intn(len(b))] ^= 1 << r.Intn(8)
		return b.String()
	case k < 70:
		return []string{"CS", "DS", "Wildcard", "CS_M", ""}[r.Intn(5)]
	case k < 78 && len(requester) == 16:
		return requester.String() + "%eth0"
	case k < 85:
		return []string{"abc", "1.2.3", "::g", "1.2.3.4.5", " 1.2.3.4", "01.2.3.4"}[r.Intn(6)]
	default:
		return genIP(r).String()
	}
}

// boundHost reports whether the requester is the host that text names for the derivers.
func boundHost(pc peerCase, text string) bool {
	if !pc.isTCP {
		return false
	}
	a, ok := netip.AddrFromSlice(pc.ip)
	if !ok {
		return false
	}
	h, err := addr.ParseHost(text)
	if err != nil || h.Type() != addr.HostTypeIP {
		return false
	}
	return a.Unmap() == h.IP().Unmap().WithZone("")
}

func entryOp(hp config.HostProto) string {
	h := hp.Host
	if h.Is4() {
		return fmt.Sprintf("4.%s.%d", vlib.Hex(h.AsSlice()), hp.Proto)
	}
	return fmt.Sprintf("6.%s.%d.%s", vlib.Hex(h.AsSlice()), hp.Proto, vlib.Hex([]byte(h.Zone())))
}

// history is one long-lived Server instance and what it has been asked so far: the decisions
// must not depend on earlier requests (the model is a function of the current request only).
type history struct {
	srv     *dkgrpc.Server
	local   addr.IA
	entries []config.HostProto
	set     map[config.HostProto]struct{}
	ias     []addr.IA // ISD-ASes the certificates of this history authenticate
	skids   [][]byte  // subject key identifiers used (and re-used) by genuine and forged certificates
	log     []string
}

func genAllow(r *vlib.Rand) ([]config.HostProto, map[config.HostProto]struct{}) {
	set := map[config.HostProto]struct{}{}
	var entries []config.HostProto
	for j, ne := 0, r.Intn(5); j < ne; j++ {
		eip := genIP(r)
		a, _ := netip.AddrFromSlice(eip)
		switch r.Intn(8) {
		case 0: // keep a mapped literal as configured text would give it
		case 1:
			if a.Is6() && !a.Is4In6() {
				a = a.WithZone("eth0")
			}
		default:
			a = a.Unmap()
		}
		hp := config.HostProto{Host: a, Proto: drkey.Protocol(genProto(r))}
		if _, dup := set[hp]; !dup {
			set[hp] = struct{}{}
			entries = append(entries, hp)
		}
	}
	return entries, set
}

func main() {
	e := vlib.Init()
	r := vlib.NewRand(uint64(e.Seed))
	e.Rule = "each of the six handlers of control/drkey/grpc.Server called with fabricated requests: requester = " +
		"TCP peer with 4-/16-byte/IPv4-mapped/nil/odd-length IP or a non-TCP address (*snet.UDPAddr of the local or of " +
		"another AS, *net.UDPAddr, unix; level-2/3 requests then name that address's own IP), no peer at all; TLS state " +
		"absent / non-TLS / no certificate / rejected chain / chain authenticating an ISD-AS; protocol ids incl. " +
		"Generic, niche, values that truncate to Generic/SCMP, negative; timestamps valid, nil, out of range; request " +
		"hosts naming the requester in several textual forms, a host one bit away, other hosts, service names, zoned " +
		"and malformed text; allow-lists with IPv4, IPv6, IPv4-mapped and zoned entries; first every request on a " +
		"fresh Server, then histories of 4-16 requests on ONE long-lived Server (level-1 heavy: genuine and forged / " +
		"other-AS certificates sharing or not sharing a SubjectKeyId, in either order; the verifier stub decides per " +
		"presented chain) - the stateless model must still predict every answer; non-trivial = the engine was " +
		"called (a key would be handed out)"
	ctx := context.Background()
	eng := &recEngine{}
	n := e.N(30000, 450000)
	step := func(h *history) {
		local := addr.IA(r.U64())
		if r.Chance(50) {
			local = addr.MustParseIA("1-ff00:0:110")
		}
		if h != nil {
			local = h.local
		}
		otherIA := func() addr.IA {
			switch r.Intn(4) {
			case 0:
				return local ^ addr.IA(uint64(1)<<r.Intn(64))
			case 1:
				return 0
			default:
				return addr.IA(r.U64())
			}
		}
		curLocal = local
		ip := genIP(r)
		ts := genTs(r)
		proto := genProto(r)
		kind := []string{"l1", "il1", "sv", "ah", "ha", "hh"}[r.Intn(6)]
		srv := &dkgrpc.Server{LocalIA: local, ClientCertificateVerifier: certVerifier{}, Engine: eng}
		if h != nil {
			srv = h.srv
			if r.Chance(50) {
				kind = "l1"
			}
		}
		eng.reset()
		var op string
		var err error
		var pc peerCase
		mkCtx := func() context.Context {
			if pc.p == nil {
				return ctx
			}
			return peer.NewContext(ctx, pc.p)
		}
		bad := func(key, what string, extra map[string]any) {
			rp := map[string]any{"rpc": kind, "local": local.String(), "peer": pc.op, "proto": proto, "ts": ts.op}
			for k, v := range extra {
				rp[k] = v
			}
			if pc.p != nil {
				rp["cert_subject_key_id"] = vlib.Hex(pc.skid)
			}
			if pc.detail != "" {
				rp["peer_addr"] = pc.detail
			}
			if h != nil {
				rp["request"] = op
				rp["history_on_same_server"] = append([]string(nil), h.log...)
			}
			e.Violate("C40/"+key, what, rp)
		}
		tag := kind
		switch kind {
		case "l1":
			if h != nil {
				pc = mkPeer(r, ip, true, h.ias[r.Intn(len(h.ias))], h.skids[r.Intn(len(h.skids))])
			} else {
				pc = mkPeer(r, ip, true, otherIA(), r.Bytes(r.Intn(3)*4))
			}
			op = fmt.Sprintf("l1 %d %s %d %s", uint64(local), pc.op, proto, ts.op)
			_, ok := vlib.Safe(func() string {
				_, err = srv.DRKeyLevel1(mkCtx(), &cppb.DRKeyLevel1Request{ValTime: ts.ts, ProtocolId: dkpb.Protocol(proto)})
				return ""
			})
			if !ok {
				err = errors.New("panic")
				eng.calls = append(eng.calls, "PANIC")
			}
			if m := eng.l1; m != nil {
				if pc.cert == nil || m.DstIA != *pc.cert {
					bad("level1-not-cert-ia", "level-1 key derived for an AS other than the one authenticated by the client certificate", map[string]any{"derived_for": m.DstIA.String()})
				}
				if m.SrcIA != local || eng.intra {
					bad("level1-not-local-src", "level-1 key not derived from the local AS's secret", nil)
				}
			}
		case "il1", "sv":
			// allow-list
			entries, set := genAllow(r)
			if h != nil {
				entries, set = h.entries, h.set
			}
			if len(entries) > 0 && r.Chance(75) { // requester taken from the list
				pick := entries[r.Intn(len(entries))]
				ip = net.IP(pick.Host.AsSlice())
				if pick.Host.Is4() && r.Bool() {
					ip = ip.To16()
				}
				if r.Chance(75) {
					proto = int32(pick.Proto)
					if r.Chance(10) {
						proto += 65536 * int32(r.Range(1, 100))
					}
				}
			}
			srv.AllowedSVHostProto = set
			al := "-"
			if len(entries) > 0 {
				var parts []string
				for _, hp := range entries {
					parts = append(parts, entryOp(hp))
				}
				al = strings.Join(parts, ",")
			}
			pc = mkPeer(r, ip, false, 0, nil)
			configured := func(p drkey.Protocol) bool {
				if !pc.isTCP {
					return false
				}
				a, ok := netip.AddrFromSlice(pc.ip)
				if !ok {
					return false
				}
				for _, hp := range entries {
					if hp.Proto == p && hp.Host.Unmap().WithZone("") == a.Unmap() {
						return true
					}
				}
				return false
			}
			if kind == "sv" {
				op = fmt.Sprintf("sv %d %s %s %d %s", uint64(local), al, pc.op, proto, ts.op)
				_, ok := vlib.Safe(func() string {
					_, err = srv.DRKeySecretValue(mkCtx(), &cppb.DRKeySecretValueRequest{ValTime: ts.ts, ProtocolId: dkpb.Protocol(proto)})
					return ""
				})
				if !ok {
					err = errors.New("panic")
					eng.calls = append(eng.calls, "PANIC")
				}
				if m := eng.sv; m != nil && !configured(m.ProtoId) {
					bad("sv-not-configured", "secret value handed to a host that is not configured for the protocol", map[string]any{"allowed": al})
				}
			} else {
				src, dst := local, otherIA()
				switch r.Intn(10) {
				case 0, 1, 2, 3:
				case 4, 5, 6, 7:
					src, dst = dst, src
				case 8:
					src = otherIA()
				default:
					src, dst = local, local
				}
				op = fmt.Sprintf("il1 %d %s %s %d %s %d %d", uint64(local), al, pc.op, proto, ts.op, uint64(src), uint64(dst))
				_, ok := vlib.Safe(func() string {
					_, err = srv.DRKeyIntraLevel1(mkCtx(), &cppb.DRKeyIntraLevel1Request{ValTime: ts.ts,
						ProtocolId: dkpb.Protocol(proto), SrcIa: uint64(src), DstIa: uint64(dst)})
					return ""
				})
				if !ok {
					err = errors.New("panic")
					eng.calls = append(eng.calls, "PANIC")
				}
				if m := eng.l1; m != nil {
					if !configured(m.ProtoId) {
						bad("intra-level1-not-configured", "level-1 key handed to a host that is not configured for the protocol", map[string]any{"allowed": al})
					}
					if m.SrcIA != local && m.DstIA != local {
						bad("intra-level1-not-endpoint", "level-1 key handed out although the local AS is not an endpoint", map[string]any{"src": m.SrcIA.String(), "dst": m.DstIA.String()})
					}
				}
			}
		default: // ah, ha, hh
			pc = mkPeer(r, ip, false, 0, nil)
			src, dst := otherIA(), otherIA()
			srcMatch, dstMatch := r.Chance(30), r.Chance(30)
			switch kind {
			case "ah":
				if r.Chance(80) {
					dst = local
				} else if r.Bool() {
					src = local
				}
				dstMatch = r.Chance(75)
			case "ha":
				if r.Chance(80) {
					src = local
				} else if r.Bool() {
					dst = local
				}
				srcMatch = r.Chance(75)
			default:
				switch r.Intn(8) {
				case 0, 1, 2:
					src, srcMatch = local, r.Chance(80)
				case 3, 4, 5:
					dst, dstMatch = local, r.Chance(80)
				case 6:
					src, dst = local, local
					srcMatch, dstMatch = r.Chance(40), r.Chance(40)
				default: // local side and matching host on opposite sides
					if r.Bool() {
						src, dstMatch, srcMatch = local, true, false
					} else {
						dst, srcMatch, dstMatch = local, true, false
					}
				}
			}
			nameIP := pc.ip
			if !pc.isTCP && pc.otherIP != nil { // requests naming the IP of a non-TCP requester
				nameIP = pc.otherIP
			}
			sh, dh := hostText(r, nameIP, srcMatch), hostText(r, nameIP, dstMatch)
			op = fmt.Sprintf("%s %d %s %d %s %d %d %s %s %s %s", kind, uint64(local), pc.op, proto, ts.op,
				uint64(src), uint64(dst), vlib.Hex([]byte(sh)), vlib.Hex([]byte(dh)),
				vlib.Hex(net.ParseIP(sh)), vlib.Hex(net.ParseIP(dh)))
			_, ok := vlib.Safe(func() string {
				switch kind {
				case "ah":
					_, err = srv.DRKeyASHost(mkCtx(), &cppb.DRKeyASHostRequest{ValTime: ts.ts, ProtocolId: dkpb.Protocol(proto),
						SrcIa: uint64(src), DstIa: uint64(dst), DstHost: dh})
				case "ha":
					_, err = srv.DRKeyHostAS(mkCtx(), &cppb.DRKeyHostASRequest{ValTime: ts.ts, ProtocolId: dkpb.Protocol(proto),
						SrcIa: uint64(src), DstIa: uint64(dst), SrcHost: sh})
				default:
					_, err = srv.DRKeyHostHost(mkCtx(), &cppb.DRKeyHostHostRequest{ValTime: ts.ts, ProtocolId: dkpb.Protocol(proto),
						SrcIa: uint64(src), DstIa: uint64(dst), SrcHost: sh, DstHost: dh})
				}
				return ""
			})
			if !ok {
				err = errors.New("panic")
				eng.calls = append(eng.calls, "PANIC")
			}
			extra := map[string]any{"src": src.String(), "dst": dst.String(), "src_host": sh, "dst_host": dh}
			// the statement, on what the engine was asked for; requesters that no TCP connection can
			// produce (nil / odd-length IP) are tied to the model but not judged
			judged := pc.p != nil && (!pc.isTCP || pc.sane)
			if m := eng.ah; m != nil && judged {
				if m.ProtoId == drkey.Generic {
					bad("generic-served", "AS-host key served for the generic protocol", extra)
				}
				if m.DstIA != local || !boundHost(pc, m.DstHost) {
					bad("ashost-wrong-requester", "AS-host key handed to a requester that is not the named destination host of the local AS", extra)
				}
			}
			if m := eng.ha; m != nil && judged {
				if m.ProtoId == drkey.Generic {
					bad("generic-served", "host-AS key served for the generic protocol", extra)
				}
				if m.SrcIA != local || !boundHost(pc, m.SrcHost) {
					bad("hostas-wrong-requester", "host-AS key handed to a requester that is not the named source host of the local AS", extra)
				}
			}
			if m := eng.hh; m != nil && judged {
				if m.ProtoId == drkey.Generic {
					bad("generic-served", "host-host key served for the generic protocol", extra)
				}
				if !(m.SrcIA == local && boundHost(pc, m.SrcHost)) && !(m.DstIA == local && boundHost(pc, m.DstHost)) {
					bad("hosthost-wrong-requester", "host-host key handed to a requester that is not a named host on the local side", extra)
				}
			}
			if !judged && len(eng.calls) > 0 {
				tag += "/unjudged"
			}
		}
		var ans string
		switch {
		case err != nil && len(eng.calls) == 0:
			ans, tag = "deny", "~"+tag+"/deny"
		case err == nil && len(eng.calls) == 1:
			ans = eng.calls[0]
			tag += "/call"
		default:
			ans = fmt.Sprintf("inconsistent err=%v calls=%v", err != nil, eng.calls)
			tag += "/inconsistent"
			bad("handler-inconsistent", "handler result and engine calls disagree: "+ans, nil)
		}
		if h != nil {
			tag += "/reused"
			h.log = append(h.log, op+" => "+ans)
		}
		e.Op(op, ans, tag)
	}
	for i := 0; i < n; i++ {
		step(nil)
	}
	// histories on one long-lived Server each
	for done := 0; done < e.N(10000, 150000); {
		h := &history{local: addr.IA(r.U64())}
		if r.Chance(50) {
			h.local = addr.MustParseIA("1-ff00:0:110")
		}
		h.entries, h.set = genAllow(r)
		h.ias = []addr.IA{addr.IA(r.U64()), addr.IA(r.U64())}
		h.skids = [][]byte{r.Bytes(20), r.Bytes(20), nil}
		if r.Chance(30) { // all certificates of this history carry different key identifiers (control)
			for j := 0; j < 12; j++ {
				h.skids = append(h.skids, r.Bytes(20))
			}
			h.skids = h.skids[3:]
		}
		h.srv = &dkgrpc.Server{LocalIA: h.local, ClientCertificateVerifier: certVerifier{}, Engine: eng,
			AllowedSVHostProto: h.set}
		for j, l := 0, r.Range(4, 16); j < l; j++ {
			step(h)
			done++
		}
	}
	e.Finish()
}
