// Engine "meta" (C19): ties lean/Scion/Model/PathMeta.lean to pkg/slayers/path/scion and
// evaluates the C19 property predicate directly on the implementation.
package main

import (
	"bytes"
	"encoding/binary"
	"fmt"

	"github.com/scionproto/scion/pkg/slayers/path"
	"github.com/scionproto/scion/pkg/slayers/path/scion"

	"verifharness/vlib"
)

type ans struct {
	acc             bool
	numINF, numHops int
	idx             int
	flags           int
	incOk           bool
	incVal          uint64
	revOk           bool
	revVal          uint64
}

func b2i(b bool) int {
	if b {
		return 1
	}
	return 0
}

// mkRaw builds the bytes of a path with meta line w and random field contents.
func mkRaw(w uint32, r *vlib.Rand, ninf, nhops int) []byte {
	n := scion.MetaLen + ninf*path.InfoLen + nhops*path.HopLen
	buf := make([]byte, n)
	if r != nil {
		copy(buf, r.Bytes(n))
	}
	binary.BigEndian.PutUint32(buf, w)
	return buf
}

// implAnswer runs the real code on meta line w.
func implAnswer(w uint32, r *vlib.Rand) ans {
	var b4 [4]byte
	binary.BigEndian.PutUint32(b4[:], w)
	var base scion.Base
	if err := base.DecodeFromBytes(b4[:]); err != nil {
		return ans{}
	}
	a := ans{acc: true, numINF: base.NumINF, numHops: base.NumHops}
	buf := mkRaw(w, r, base.NumINF, base.NumHops)
	var raw scion.Raw
	if err := raw.DecodeFromBytes(buf); err != nil {
		panic("raw decode failed after base decode succeeded: " + err.Error())
	}
	// infIndexForHF is unexported: read it off a copy whose CurrINF is tried for 0..2 — no:
	// CurrINFMatchesCurrHF() tells whether CurrINF == infIndexForHF(CurrHF); probe the three values.
	a.idx = -1
	for i := 0; i < 3; i++ {
		c := raw
		c.PathMeta.CurrINF = uint8(i)
		if c.CurrINFMatchesCurrHF() {
			a.idx = i
		}
	}
	a.flags = b2i(raw.CurrINFMatchesCurrHF())*32 + b2i(raw.IsXover())*16 +
		b2i(raw.IsFirstHopAfterXover())*8 + b2i(raw.IsFirstHop())*4 + b2i(raw.IsPenultimateHop())*2 +
		b2i(raw.IsLastHop())
	// IncPath on a copy
	{
		cb := append([]byte(nil), buf...)
		var c scion.Raw
		_ = c.DecodeFromBytes(cb)
		if err := c.IncPath(); err == nil {
			a.incOk = true
			a.incVal = uint64(binary.BigEndian.Uint32(c.Raw[:4]))
		} else {
			a.incVal = uint64(c.PathMeta.CurrHF)
		}
	}
	// Reverse on a copy
	{
		cb := append([]byte(nil), buf...)
		var c scion.Raw
		_ = c.DecodeFromBytes(cb)
		if _, err := c.Reverse(); err == nil {
			a.revOk = true
			a.revVal = uint64(binary.BigEndian.Uint32(c.Raw[:4]))
		}
	}
	return a
}

func (a ans) String() string {
	if !a.acc {
		return "rej"
	}
	inc := fmt.Sprintf("err:%d", a.incVal)
	if a.incOk {
		inc = fmt.Sprintf("ok:%d", a.incVal)
	}
	rev := "none"
	if a.revOk {
		rev = fmt.Sprintf("%d", a.revVal)
	}
	return fmt.Sprintf("acc %d %d %d %d %s %s", a.numINF, a.numHops, a.idx, a.flags, inc, rev)
}

func mix(h uint64, v uint64) uint64 { return (h ^ v) * 0x100000001b3 }

func digestOne(h uint64, a ans) uint64 {
	if !a.acc {
		return mix(h, 0)
	}
	h = mix(h, 1)
	h = mix(h, uint64(a.numINF*1000000+a.numHops*10000+a.idx*100+a.flags))
	h = mix(h, uint64(b2i(a.incOk))<<33+a.incVal)
	return mix(h, uint64(b2i(a.revOk))<<33+a.revVal)
}

// specCheck evaluates the statement of C19 on the implementation, independently of the model.
func specCheck(e *vlib.Env, w uint32, r *vlib.Rand) {
	ci, ch := int(w>>30), int(w>>24)&63
	s := [3]int{int(w>>12) & 63, int(w>>6) & 63, int(w) & 63}
	tot := s[0] + s[1] + s[2]
	shape := !(s[0] == 0 && s[1] > 0) && !(s[1] == 0 && s[2] > 0) && !(s[0] == 0 && s[2] > 0) && tot <= 64
	var b4 [4]byte
	binary.BigEndian.PutUint32(b4[:], w)
	var base scion.Base
	err := base.DecodeFromBytes(b4[:])
	bad := func(key, what string) {
		e.Violate("C19/"+key, what, map[string]any{"meta": w, "currINF": ci, "currHF": ch, "segLen": s})
	}
	if (err == nil) != shape {
		bad("accept", fmt.Sprintf("decode accepted=%v but shape allowed=%v", err == nil, shape))
		return
	}
	if err != nil {
		return
	}
	ninf := b2i(s[0] > 0) + b2i(s[1] > 0) + b2i(s[2] > 0)
	if base.NumINF != ninf || base.NumHops != tot {
		bad("counts", "NumINF/NumHops wrong")
	}
	// necessary conditions that hold for EVERY accepted header, whatever the pointers: a
	// cross-over needs a following hop, a first-hop-after-cross-over needs a preceding hop and
	// segment (in particular neither is ever reported on a path without hops)
	{
		var b scion.Base
		_ = b.DecodeFromBytes(b4[:])
		if b.IsXover() && !(ch+1 < tot) {
			bad("xover-without-next-hop", "IsXover reported although the current hop has no successor")
		}
		if b.IsFirstHopAfterXover() && !(ch > 0 && ci > 0) {
			bad("fhax-without-previous", "IsFirstHopAfterXover reported at the first hop or first segment")
		}
	}
	// advancing from ANY current hop that has a successor lands on the next hop and on the segment
	// containing it, whatever the info pointer was before (theorem incPath_spec has no
	// consistency hypothesis either)
	if ch+1 < tot {
		nb := mkRaw(w, r, ninf, tot)
		var c scion.Raw
		if c.DecodeFromBytes(nb) == nil {
			if err := c.IncPath(); err != nil {
				bad("inc-any", "IncPath failed although a next hop exists: "+err.Error())
			} else {
				nseg, st := 0, 0
				for ch+1 >= st+s[nseg] {
					st += s[nseg]
					nseg++
				}
				raw32 := binary.BigEndian.Uint32(c.Raw[:4])
				if int(c.PathMeta.CurrHF) != ch+1 || int(c.PathMeta.CurrINF) != nseg ||
					int(raw32>>30) != nseg || int(raw32>>24)&63 != ch+1 {
					bad("inc-any", "IncPath did not land on the next hop and its segment (struct or raw bytes)")
				}
			}
		}
	}
	if ch >= tot || ci >= ninf {
		return // pointers out of range: the remaining clauses are about positions on the path
	}
	// segment containing the current hop
	seg, start := 0, 0
	for ch >= start+s[seg] {
		start += s[seg]
		seg++
	}
	buf := mkRaw(w, r, ninf, tot)
	orig := append([]byte(nil), buf...)
	var raw scion.Raw
	if err := raw.DecodeFromBytes(buf); err != nil {
		bad("rawdecode", err.Error())
		return
	}
	if raw.CurrINFMatchesCurrHF() != (ci == seg) {
		bad("match", "CurrINFMatchesCurrHF wrong")
	}
	if ci == seg {
		lastOfSeg := ch == start+s[seg]-1
		if raw.IsXover() != (lastOfSeg && ch != tot-1) {
			bad("xover", "IsXover not exactly at a segment boundary")
		}
		if raw.IsFirstHopAfterXover() != (seg > 0 && ch == start) {
			bad("fhax", "IsFirstHopAfterXover not exactly at the first hop of a later segment")
		}
		// advancing
		cb := append([]byte(nil), buf...)
		var c scion.Raw
		_ = c.DecodeFromBytes(cb)
		ierr := c.IncPath()
		if ch == tot-1 {
			if ierr == nil {
				bad("inc-end", "IncPath succeeded on the last hop")
			}
		} else {
			nseg := seg
			if lastOfSeg {
				nseg++
			}
			if ierr != nil || int(c.PathMeta.CurrHF) != ch+1 || int(c.PathMeta.CurrINF) != nseg ||
				!bytes.Equal(c.Raw[4:], orig[4:]) || binary.BigEndian.Uint32(c.Raw[:4])&0xFF03FFFF != (w&0x00FFFFFF&0xFF03FFFF)|uint32(nseg)<<30|uint32(ch+1)<<24 {
				bad("inc", "IncPath did not move to the next hop/segment")
			}
		}
	}
	// reversing twice restores the path; raw and decoded agree
	cb := append([]byte(nil), buf...)
	var c scion.Raw
	_ = c.DecodeFromBytes(cb)
	dec, derr := c.ToDecoded()
	if derr != nil {
		bad("todecoded", derr.Error())
		return
	}
	for i := 0; i < ninf; i++ {
		f, _ := c.GetInfoField(i)
		if f != dec.InfoFields[i] {
			bad("raw-vs-decoded", "info field differs")
		}
	}
	for i := 0; i < tot; i++ {
		f, _ := c.GetHopField(i)
		if f != dec.HopFields[i] {
			bad("raw-vs-decoded", "hop field differs")
		}
	}
	if _, err := c.Reverse(); err != nil {
		bad("reverse", err.Error())
		return
	}
	once := append([]byte(nil), c.Raw...)
	if _, err := dec.Reverse(); err != nil {
		bad("reverse-decoded", err.Error())
		return
	}
	dr, err := dec.ToRaw()
	if err != nil || !bytes.Equal(dr.Raw, once) {
		bad("raw-vs-decoded", "Raw.Reverse and Decoded.Reverse disagree")
	}
	// the reversed path points at the same hop seen from the other end
	if int(c.PathMeta.CurrHF) != tot-1-ch || int(c.PathMeta.CurrINF) != ninf-1-ci {
		bad("reverse-pointers", "reversed pointers wrong")
	}
	if _, err := c.Reverse(); err != nil {
		bad("reverse2", err.Error())
		return
	}
	// restores everything except the reserved meta bits and the reserved bits of info/hop fields:
	// compare via decoded structures
	var a1, a2 scion.Decoded
	if a1.DecodeFromBytes(orig) != nil || a2.DecodeFromBytes(c.Raw) != nil {
		bad("reverse2-decode", "cannot decode")
		return
	}
	if a1.PathMeta != a2.PathMeta || fmt.Sprint(a1.InfoFields) != fmt.Sprint(a2.InfoFields) ||
		fmt.Sprint(a1.HopFields) != fmt.Sprint(a2.HopFields) {
		bad("reverse-involution", "reversing twice does not restore the path")
	}
}

func main() {
	e := vlib.Init()
	r := vlib.NewRand(uint64(e.Seed))
	e.Rule = "meta lines: all shapes with every segLen in {0,1,2,3,62,63} x all pointers (line ops) + random lines; " +
		"blocks: FNV digest of the answers for all 4096 (s1,s2) of a (currINF,currHF,s0) block " +
		"(thorough: all 16384 blocks = the complete 2^26 space); non-trivial = accepted by the decoder; " +
		"spec predicate evaluated on every line op with random info/hop contents"
	special := []int{0, 1, 2, 3, 62, 63}
	line := func(w uint32) {
		a := implAnswer(w, r)
		tag := "~rej"
		if a.acc {
			tag = fmt.Sprintf("acc/inf%d/f%02d", a.numINF, a.flags)
		}
		e.Op(fmt.Sprintf("m %d", w), a.String(), tag)
		specCheck(e, w, r)
	}
	ptrHF := []int{0, 1, 2, 3, 4, 5, 6, 61, 62, 63}
	for ci := 0; ci < 4; ci++ {
		for _, ch := range ptrHF {
			for _, a := range special {
				for _, b := range special {
					for _, c := range special {
						line(uint32(ci)<<30 | uint32(ch)<<24 | uint32(a)<<12 | uint32(b)<<6 | uint32(c))
					}
				}
			}
		}
	}
	nrand := e.N(60000, 400000)
	for i := 0; i < nrand; i++ {
		w := uint32(r.U64())
		if r.Chance(70) { // bias towards acceptable shapes and in-range pointers
			s0, s1, s2 := r.Range(1, 30), r.Intn(20), 0
			if s1 > 0 {
				s2 = r.Intn(15)
			}
			tot := s0 + s1 + s2
			w = uint32(r.Intn(3))<<30 | uint32(r.Intn(tot))<<24 | uint32(r.Intn(64))<<18 | uint32(s0)<<12 | uint32(s1)<<6 | uint32(s2)
		}
		line(w)
	}
	// digest blocks
	nblk := e.N(768, 16384)
	for k := 0; k < nblk; k++ {
		var ci, ch, s0 int
		if e.Thorough() {
			ci, ch, s0 = k>>12, (k>>6)&63, k&63
		} else {
			ci, ch, s0 = r.Intn(4), r.Intn(64), r.Intn(64)
		}
		h := uint64(0xcbf29ce484222325)
		nacc := 0
		for s1 := 0; s1 < 64; s1++ {
			for s2 := 0; s2 < 64; s2++ {
				a := implAnswer(uint32(ci)<<30|uint32(ch)<<24|uint32(s0)<<12|uint32(s1)<<6|uint32(s2), nil)
				if a.acc {
					nacc++
				}
				h = digestOne(h, a)
			}
		}
		tag := "blk"
		if nacc == 0 {
			tag = "~blk-allrej"
		}
		e.Op(fmt.Sprintf("blk %d %d %d", ci, ch, s0), fmt.Sprintf("%d", h), tag)
		e.Evaluations += 4095
	}
	e.Extra["blocks"] = nblk
	e.Extra["headers_in_blocks"] = nblk * 4096
	e.Finish()
}
