// Engine "gwframes" (C41): real encoder -> frames -> real ingress worker, lossless and under
// loss / duplication / reordering / interleaved streams; every step is also an op for the Lean
// model (lean/Scion/Model/GwFrames.lean), and the C41 property predicate is evaluated directly
// on the implementation.
package main

import (
	"bytes"
	"encoding/binary"
	"fmt"
	"strings"
	"time"

	"github.com/scionproto/scion/gateway/dataplane"

	"verifharness/vlib"
)

type frame struct {
	raw     []byte
	index   int
	epoch   int
	seq     uint64
	payload []byte
}

func parseFrame(raw []byte) frame {
	return frame{raw: raw, index: int(binary.BigEndian.Uint16(raw[2:4])),
		epoch: int(binary.BigEndian.Uint32(raw[4:8]) & 0xfffff), seq: binary.BigEndian.Uint64(raw[8:16]),
		payload: raw[dataplane.VerifHdrLen:]}
}

func (f frame) dOp(wid int) string {
	return fmt.Sprintf("d %d %d %d %d %s", wid, f.index, f.epoch, f.seq, vlib.Hex(f.payload))
}

// ---------------------------------------------------------------------------------------
// packets

func validIP(p []byte) bool {
	if len(p) == 0 {
		return false
	}
	switch p[0] >> 4 {
	case 4:
		return len(p) >= 20 && int(binary.BigEndian.Uint16(p[2:4])) == len(p)
	case 6:
		return len(p) >= 40 && 40+int(binary.BigEndian.Uint16(p[4:6])) == len(p)
	}
	return false
}

func genSize(r *vlib.Rand, big bool) int {
	switch k := r.Intn(100); {
	case k < 10:
		return []int{20, 21, 39, 40, 41, 56, 57, 60, 81, 100}[r.Intn(10)]
	case k < 55:
		return r.Range(20, 200)
	case k < 85:
		return r.Range(200, 1600)
	case k < 96 || !big:
		return r.Range(1600, 4000)
	default:
		return r.Range(4000, 9000)
	}
}

func genPkt(r *vlib.Rand, big bool) []byte {
	n := genSize(r, big)
	v6 := r.Chance(35)
	if v6 && n < 40 {
		n = 40 + r.Intn(3)
	}
	p := r.Bytes(n)
	if r.Chance(25) {
		// payload forged to look like IP headers
		for i := 20; i+6 <= n; i += r.Range(1, 40) {
			if r.Bool() {
				p[i] = 0x45
				binary.BigEndian.PutUint16(p[i+2:], uint16(r.Range(20, 100)))
			} else {
				p[i] = 0x60
				binary.BigEndian.PutUint16(p[i+4:], uint16(r.Intn(60)))
			}
		}
	}
	if v6 {
		p[0] = 0x60 | p[0]&0x0f
		binary.BigEndian.PutUint16(p[4:], uint16(n-40))
	} else {
		p[0] = 0x40 | p[0]&0x0f
		binary.BigEndian.PutUint16(p[2:], uint16(n))
	}
	if r.Chance(8) { // make it invalid
		switch r.Intn(7) {
		case 0:
			p[0] = byte(r.Intn(16))<<4 | 5
			if v := p[0] >> 4; v == 4 || v == 6 {
				p[0] = 0x75
			}
		case 1:
			if v6 {
				binary.BigEndian.PutUint16(p[4:], uint16(n-40+1))
			} else {
				binary.BigEndian.PutUint16(p[2:], uint16(n+1))
			}
		case 2:
			if v6 {
				binary.BigEndian.PutUint16(p[4:], uint16(max(n-41, 0)))
				if n == 40 {
					p = p[:39]
				}
			} else {
				binary.BigEndian.PutUint16(p[2:], uint16(n-1))
			}
		case 3:
			p = p[:r.Intn(min(len(p), 20))] // too short (possibly empty)
		case 4:
			p = []byte{}
		case 5:
			p = append(p, byte(r.Intn(256))) // one byte too many
		default:
			if v6 {
				p = p[:r.Range(20, 39)]
			} else {
				p = p[:19]
			}
		}
	}
	return p
}

// ---------------------------------------------------------------------------------------

type stream struct {
	mtu     int
	epoch   int
	sent    [][]byte // packets accepted by Write, in order
	frames  []frame
	maxSpan int // largest number of frames any packet is spread over
	id      uint32
	dead    bool
}

// readTimeout runs enc.Read with a watchdog (a broken encoder must not hang the run).
func readTimeout(enc *dataplane.VerifEncoder) ([]byte, bool) {
	ch := make(chan []byte, 1)
	go func() {
		f := enc.Read()
		if f != nil {
			f = append([]byte(nil), f...) // the encoder reuses its frame buffer
		}
		ch <- f
	}()
	select {
	case f := <-ch:
		return f, true
	case <-time.After(5 * time.Second):
		return nil, false
	}
}

// runEncoder drives one real encoder through a random write/read schedule.
func runEncoder(e *vlib.Env, r *vlib.Rand, mtu int, big bool, forceID *uint32) *stream {
	streamID := uint32(r.U64())
	if forceID != nil {
		streamID = *forceID
	}
	sess := uint8(r.Intn(256))
	st := &stream{mtu: mtu, epoch: int(streamID & 0xfffff), id: streamID}
	enc := dataplane.NewVerifEncoder(sess, streamID, uint16(mtu))
	e.Op(fmt.Sprintf("new %d %d", mtu, st.epoch), "ok", "~new")
	npk := r.Range(1, 24)
	var validStarts []int // stream offset at which each sent valid packet starts
	validBytes := 0
	consumed := 0 // stream bytes carried by the frames so far
	nValidWritten := 0
	nWrittenPending := 0
	var streamBytes []byte
	bad := func(key, what string) {
		e.Violate("C41/"+key, what, map[string]any{"mtu": mtu, "packets": hexList(st.sent), "frames": frameList(st.frames)})
	}
	readOne := func() bool {
		raw, ok := readTimeout(enc)
		if !ok {
			bad("encoder-blocked", "encoder.Read blocked although a valid packet or a residual was pending")
			st.dead = true
			return false
		}
		if raw == nil {
			e.Op("r", "nil", "read-nil")
			return false
		}
		f := parseFrame(raw)
		tag := "frame"
		switch {
		case f.index == 0xffff && enc.Residual() > 0:
			tag = "frame-middle"
		case f.index == 0xffff:
			tag = "frame-tail-only"
		case f.index > 0 && enc.Residual() > 0:
			tag = "frame-tail+pkts+head"
		case f.index > 0:
			tag = "frame-tail+pkts"
		case enc.Residual() > 0:
			tag = "frame-pkts+head"
		default:
			tag = "frame-pkts"
		}
		e.Op("r", fmt.Sprintf("f %d %d %d %s %d", f.index, f.epoch, f.seq, vlib.Hex(f.payload), enc.Residual()), tag)
		// header and size sanity (statement: frames of the size the sender accepts)
		if raw[0] != 0 || raw[1] != sess || f.epoch != st.epoch || f.seq != uint64(len(st.frames)) || len(raw) > mtu || len(f.payload) == 0 {
			bad("frame-header", fmt.Sprintf("bad frame header/size: version %d session %d(%d) epoch %d(%d) seq %d(%d) len %d mtu %d",
				raw[0], raw[1], sess, f.epoch, st.epoch, f.seq, len(st.frames), len(raw), mtu))
		}
		st.frames = append(st.frames, f)
		consumed += len(f.payload)
		return true
	}
	pendingValid := func() int {
		started := 0
		for _, s := range validStarts {
			if s < consumed {
				started++
			}
		}
		return nValidWritten - started
	}
	for w := 0; w < npk; {
		burst := r.Range(1, 6)
		for k := 0; k < burst && w < npk && nWrittenPending < 28; k++ {
			p := genPkt(r, big)
			n := enc.Write(p)
			e.Op("w "+vlib.Hex(p), fmt.Sprint(n), "~write")
			w++
			nWrittenPending++
			if n != 1 {
				bad("write", fmt.Sprintf("Write returned %d with %d packets pending", n, nWrittenPending))
				continue
			}
			if validIP(p) {
				validStarts = append(validStarts, validBytes)
				validBytes += len(p)
				streamBytes = append(streamBytes, p...)
				st.sent = append(st.sent, p)
				nValidWritten++
			}
		}
		nread := r.Intn(4)
		if r.Chance(30) {
			nread = 1000 // drain
		}
		for k := 0; k < nread && (enc.Residual() > 0 || pendingValid() > 0); k++ {
			if !readOne() {
				break
			}
			nWrittenPending = pendingValid() // invalid ones before the next valid one are gone or will be skipped
		}
		if st.dead {
			return st
		}
	}
	enc.Close()
	e.Op("close", "ok", "~close")
	for i := 0; i < 100000; i++ {
		if !readOne() {
			break
		}
	}
	if st.dead {
		return st
	}
	// statement: the frames carry exactly the valid packets, in order, and nothing else
	var carried []byte
	for _, f := range st.frames {
		carried = append(carried, f.payload...)
	}
	if !bytes.Equal(carried, streamBytes) {
		bad("invalid-encapsulated", "the frame payloads are not the concatenation of the valid packets written")
	}
	// span of each packet in frames (for the capacity guard of DESIGN 7a)
	off := 0
	fi, fstart := 0, 0
	for _, p := range st.sent {
		for fi < len(st.frames) && fstart+len(st.frames[fi].payload) <= off {
			fstart += len(st.frames[fi].payload)
			fi++
		}
		span, fj, fs := 0, fi, fstart
		for fj < len(st.frames) && fs < off+len(p) {
			fs += len(st.frames[fj].payload)
			fj++
			span++
		}
		if span > st.maxSpan {
			st.maxSpan = span
		}
		off += len(p)
	}
	return st
}

func hexList(ps [][]byte) []string {
	out := make([]string, 0, len(ps))
	for _, p := range ps {
		h := vlib.Hex(p)
		if len(h) > 120 {
			h = fmt.Sprintf("%s…(%d bytes)", h[:120], len(p))
		}
		out = append(out, h)
	}
	return out
}

func frameList(fs []frame) []string {
	out := make([]string, 0, len(fs))
	for _, f := range fs {
		out = append(out, fmt.Sprintf("seq=%d epoch=%d index=%d len=%d", f.seq, f.epoch, f.index, len(f.payload)))
	}
	return out
}

func deliver(e *vlib.Env, w *dataplane.VerifWorker, wid int, f frame, tag string) [][]byte {
	out := w.ProcessFrame(f.raw)
	var sb strings.Builder
	fmt.Fprintf(&sb, "%d", len(out))
	cp := make([][]byte, len(out))
	for i, p := range out {
		cp[i] = p
		sb.WriteString(" " + vlib.Hex(p))
	}
	fmt.Fprintf(&sb, " | %d", max(w.Entries(f.epoch), 0))
	t := tag
	if len(out) > 0 {
		t += "-emit"
	}
	e.Op(f.dOp(wid), sb.String(), t)
	return cp
}

func main() {
	e := vlib.Init()
	r := vlib.NewRand(uint64(e.Seed))
	e.Rule = "trials: MTU from {57..60, 96, 97, 128, 256, 576, 1280, 1500, 1557, random 57..9000}; 1-24 packets (20..9000 bytes, v4/v6, 8% invalid: " +
		"bad version, length field off by one, truncated, empty; 25% with payload forged to look like IP headers) written in bursts " +
		"and read on a random schedule (frames cut early wherever Read allows); frames delivered (a) in order without loss, (b) with " +
		"drops / duplicates / window shuffles / reversed, optionally interleaved with a second stream; every step is a model op. " +
		"non-trivial = an op that produced a frame or emitted a packet"
	ntrials := e.N(260, 2000)
	mtus := []int{57, 58, 59, 60, 96, 97, 128, 256, 576, 1280, 1500, 1557}
	var totalEmitted, lossless, guarded, guardedAll int
	for t := 0; t < ntrials; t++ {
		mtu := mtus[r.Intn(len(mtus))]
		if r.Chance(25) {
			mtu = r.Range(57, 9000)
		}
		big := mtu >= 107 || r.Chance(5)
		s1 := runEncoder(e, r, mtu, big, nil)
		if s1.dead {
			break
		}
		replay := func(extra map[string]any) map[string]any {
			m := map[string]any{"mtu": mtu, "packets": hexList(s1.sent), "frames": frameList(s1.frames)}
			for k, v := range extra {
				m[k] = v
			}
			return m
		}
		// (a) in order, no loss
		wa := dataplane.NewVerifWorker()
		var got [][]byte
		for _, f := range s1.frames {
			got = append(got, deliver(e, wa, 0, f, "lossless")...)
		}
		wa.Release()
		e.Op("rel 0", "ok", "~rel")
		totalEmitted += len(got)
		if s1.maxSpan <= dataplane.VerifReassemblyListCap {
			lossless++
			same := len(got) == len(s1.sent)
			for i := 0; same && i < len(got); i++ {
				same = bytes.Equal(got[i], s1.sent[i])
			}
			if !same {
				e.Violate("C41/lossless", fmt.Sprintf("in-order loss-free delivery emitted %d packets, %d were sent (or contents differ)", len(got), len(s1.sent)),
					replay(map[string]any{"emitted": hexList(got)}))
			}
		} else {
			guarded++ // a packet needs more frames than the reassembly list holds (DESIGN 7a)
			if len(got) == len(s1.sent) {
				guardedAll++
			}
		}
		// (b) faults
		sentSet := map[string]bool{}
		for _, p := range s1.sent {
			sentSet[string(p)] = true
		}
		fs := append([]frame(nil), s1.frames...)
		if r.Chance(35) {
			// half of the second streams have an id that differs from the first one's only in
			// the upper bits 16..19 of the 20-bit stream field (or only in bit 19), the same MTU and
			// the same kind of traffic: the receiver must keep the two apart
			var force *uint32
			mtu2 := mtus[r.Intn(len(mtus))]
			if r.Chance(50) {
				id := s1.id ^ uint32(r.Range(1, 15))<<16
				if r.Chance(40) {
					id = s1.id ^ 1<<19
				}
				force = &id
				mtu2 = mtu
			}
			s2 := runEncoder(e, r, mtu2, false, force)
			if s2.dead {
				break
			}
			for s2.epoch == s1.epoch {
				s2.epoch = -1
				break
			}
			if s2.epoch >= 0 {
				for _, p := range s2.sent {
					sentSet[string(p)] = true
				}
				// interleave
				var mix []frame
				a, b := fs, s2.frames
				for len(a) > 0 || len(b) > 0 {
					if len(b) == 0 || (len(a) > 0 && r.Bool()) {
						mix = append(mix, a[0])
						a = a[1:]
					} else {
						mix = append(mix, b[0])
						b = b[1:]
					}
				}
				fs = mix
			}
		}
		var faulty []frame
		mode := r.Intn(6)
		for _, f := range fs {
			switch {
			case (mode == 0 || mode >= 3) && r.Chance(20):
				continue // drop
			case (mode == 1 || mode >= 3) && r.Chance(20):
				faulty = append(faulty, f, f)
			default:
				faulty = append(faulty, f)
			}
		}
		if mode == 2 || mode >= 4 {
			for i := 0; i < len(faulty); {
				wlen := r.Range(1, 6)
				j := min(i+wlen, len(faulty))
				for k := j - 1; k > i; k-- {
					x := i + r.Intn(k-i+1)
					faulty[k], faulty[x] = faulty[x], faulty[k]
				}
				i = j
			}
		}
		if mode == 5 && r.Chance(30) {
			for i, j := 0, len(faulty)-1; i < j; i, j = i+1, j-1 {
				faulty[i], faulty[j] = faulty[j], faulty[i]
			}
		}
		wb := dataplane.NewVerifWorker()
		tag := fmt.Sprintf("fault%d", mode)
		for _, f := range faulty {
			for _, p := range deliver(e, wb, 1, f, tag) {
				totalEmitted++
				if !sentSet[string(p)] {
					e.Violate("C41/emitted-not-sent", "under loss/duplication/reordering the receiver emitted a packet that was never sent",
						replay(map[string]any{"emitted": vlib.Hex(p), "delivered": frameList(faulty)}))
				}
			}
		}
		wb.Release()
		e.Op("rel 1", "ok", "~rel")
		if t < 2 {
			e.Sample(map[string]any{"mtu": mtu, "packets": len(s1.sent), "frames": len(s1.frames)})
		}
	}
	e.Extra["packets_emitted"] = totalEmitted
	e.Extra["lossless_trials_checked"] = lossless
	e.Extra["lossless_trials_over_list_capacity"] = guarded
	e.Extra["lossless_trials_over_list_capacity_that_still_delivered_all"] = guardedAll
	e.Finish()
}
