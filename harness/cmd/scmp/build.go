package main

import (
	"encoding/binary"
	"fmt"
	"hash"
	"net/netip"
	"time"

	"github.com/gopacket/gopacket"
	"github.com/gopacket/gopacket/layers"

	"github.com/scionproto/scion/pkg/addr"
	"github.com/scionproto/scion/pkg/drkey"
	libepic "github.com/scionproto/scion/pkg/experimental/epic"
	"github.com/scionproto/scion/pkg/scrypto"
	"github.com/scionproto/scion/pkg/slayers"
	"github.com/scionproto/scion/pkg/slayers/path"
	"github.com/scionproto/scion/pkg/slayers/path/empty"
	"github.com/scionproto/scion/pkg/slayers/path/epic"
	"github.com/scionproto/scion/pkg/slayers/path/onehop"
	"github.com/scionproto/scion/pkg/slayers/path/scion"
	"github.com/scionproto/scion/pkg/spao"
	"github.com/scionproto/scion/private/drkey/drkeyutil"

	"verifharness/vlib"
)

// ---------------------------------------------------------------------------------------------
// scenarios: a packet that is valid at this router except for at most one deliberate flaw.

type l4Kind int

const (
	l4UDP l4Kind = iota
	l4TCP
	l4Echo
	l4EchoReply
	l4TrReq
	l4ScmpErr
	l4ScmpShort
	l4Unknown
	l4BFD
	l4UDPShort
	l4ScmpUnknownInfo
	l4ScmpUnknownErr
	numL4
)

var l4Names = []string{"udp", "tcp", "echo", "echoreply", "trreq", "scmperr", "scmpshort", "l4-253",
	"bfd", "udpshort", "scmp-info-200", "scmp-err-100"}

type segSpec struct {
	n    int
	cons bool
	peer bool
}

type scen struct {
	kind    string // transit inbound outbound astin astout xover peer ohp-out ohp-in empty
	ptype   string // scion epic ohp empty
	segs    []segSpec
	cur     int    // current hop index on arrival
	tin     uint16 // interface the current hop names as ingress in travel direction
	teg     uint16 // ... as egress in travel direction (for xover: of the second hop)
	link    uint16 // interface whose link delivers the packet (0 internal)
	srcIA   addr.IA
	dstIA   addr.IA
	srcT    slayers.AddrType
	dstT    slayers.AddrType
	srcRaw  []byte
	dstRaw  []byte
	l4      l4Kind
	pld     int
	ext     string // "" h e he a(valid SPAO) ax(SPAO with wrong tag)
	alertIn bool
	alertEg bool
	dport   uint16
	// flaws
	flaw string
	// expectation: "forward", "slow", "discard", "done", "" (unknown)
	expDisp string
	cause   string // model cause name when expDisp == "slow" with an SCMP error
	egress  uint16 // expected pkt.egress for forward
}

func (s *scen) String() string {
	return fmt.Sprintf("%s/%s/%s segs=%v cur=%d tin=%d teg=%d link=%d l4=%s ext=%q flaw=%s srcT=%d dstT=%d",
		s.kind, s.ptype, s.flaw, s.segs, s.cur, s.tin, s.teg, s.link, l4Names[s.l4], s.ext, s.flaw,
		s.srcT, s.dstT)
}

func (s *scen) numHops() int {
	n := 0
	for _, g := range s.segs {
		n += g.n
	}
	return n
}

func (s *scen) segOf(h int) (seg, start int) {
	for i, g := range s.segs {
		if h < start+g.n {
			return i, start
		}
		start += g.n
	}
	return len(s.segs) - 1, start
}

type builder struct {
	mac hash.Hash
	now time.Time
	r   *vlib.Rand
	fp  drkeyutil.FakeProvider
}

func newBuilder(r *vlib.Rand) *builder {
	m, err := scrypto.InitMac(hfKey)
	if err != nil {
		panic(err)
	}
	return &builder{mac: m, now: time.Now(), r: r, fp: drkeyutil.FakeProvider{
		EpochDuration: drkeyutil.LoadEpochDuration(), AcceptanceWindow: drkeyutil.LoadAcceptanceWindow()}}
}

var (
	ip4Src = []byte{10, 0, 0, 7}
	ip4Dst = []byte{10, 0, 0, 8}
)

func ip6(last byte) []byte {
	a := netip.MustParseAddr("2001:db8:1::").As16()
	a[15] = last
	return a[:]
}

// rawAddr gives address bytes for a 4-bit address type: real addresses for the known types,
// arbitrary non-zero bytes for the others.
func rawAddr(t slayers.AddrType, dst bool, svc addr.SVC) []byte {
	n := t.Length()
	switch t {
	case slayers.T4Ip:
		if dst {
			return append([]byte(nil), ip4Dst...)
		}
		return append([]byte(nil), ip4Src...)
	case slayers.T16Ip:
		if dst {
			return ip6(8)
		}
		return ip6(7)
	case slayers.T4Svc:
		b := make([]byte, 4)
		binary.BigEndian.PutUint16(b, uint16(svc))
		return b
	}
	b := make([]byte, n)
	for i := range b {
		b[i] = byte(0x40 + i)
	}
	return b
}

// build serialises the scenario. The second result describes the bytes (offsets of fields) for the
// mutators.
func (b *builder) build(s *scen) ([]byte, *layout) {
	now := uint32(b.now.Unix())
	sc := &slayers.SCION{
		Version: 0, TrafficClass: uint8(b.r.Intn(256)), FlowID: uint32(b.r.Intn(1 << 20)),
		SrcIA: s.srcIA, DstIA: s.dstIA,
		SrcAddrType: s.srcT, DstAddrType: s.dstT, RawSrcAddr: s.srcRaw, RawDstAddr: s.dstRaw,
	}
	lay := &layout{}
	var ourMacs [][]byte // full MACs of our hop(s), for EPIC
	switch s.ptype {
	case "scion", "epic":
		nh := s.numHops()
		dp := &scion.Decoded{}
		dp.NumINF = len(s.segs)
		dp.NumHops = nh
		for i, g := range s.segs {
			dp.PathMeta.SegLen[i] = uint8(g.n)
		}
		dp.PathMeta.CurrHF = uint8(s.cur)
		seg, _ := s.segOf(s.cur)
		dp.PathMeta.CurrINF = uint8(seg)
		ts := now - 100
		if s.flaw == "expired" {
			ts = now - 30000
		}
		for _, g := range s.segs {
			dp.InfoFields = append(dp.InfoFields, path.InfoField{ConsDir: g.cons, Peer: g.peer,
				SegID: uint16(b.r.Intn(1 << 16)), Timestamp: ts})
		}
		for h := 0; h < nh; h++ {
			hf := path.HopField{ExpTime: 63, ConsIngress: uint16(b.r.Range(20, 60)),
				ConsEgress: uint16(b.r.Range(20, 60))}
			copy(hf.Mac[:], b.r.Bytes(6))
			dp.HopFields = append(dp.HopFields, hf)
		}
		// our hop(s)
		setHop := func(h int, tin, teg uint16, first bool) {
			sg, _ := s.segOf(h)
			inf := &dp.InfoFields[sg]
			hf := &dp.HopFields[h]
			if inf.ConsDir {
				hf.ConsIngress, hf.ConsEgress = tin, teg
			} else {
				hf.ConsIngress, hf.ConsEgress = teg, tin
			}
			if first {
				if s.alertIn {
					if inf.ConsDir {
						hf.IngressRouterAlert = true
					} else {
						hf.EgressRouterAlert = true
					}
				}
			}
			if s.alertEg && ((s.kind != "xover") || !first) {
				if inf.ConsDir {
					hf.EgressRouterAlert = true
				} else {
					hf.IngressRouterAlert = true
				}
			}
			beta := inf.SegID
			full := path.FullMAC(b.mac, path.InfoField{SegID: beta, Timestamp: inf.Timestamp,
				ConsDir: inf.ConsDir, Peer: inf.Peer}, *hf, nil)
			copy(hf.Mac[:], full[:6])
			ourMacs = append(ourMacs, append([]byte(nil), full...))
			peering := false
			if inf.Peer && len(s.segs) == 2 {
				peering = h == s.segs[0].n-1 || h == s.segs[0].n
			}
			if first && !inf.ConsDir && scopeOf(s.link) == "e" && !peering {
				// the ingress router first folds the hop's MAC into the SegID
				inf.SegID = beta ^ binary.BigEndian.Uint16(hf.Mac[:2])
			}
			if s.flaw == "badmac" && first {
				hf.Mac[b.r.Intn(6)] ^= byte(1 << b.r.Intn(8))
			}
			if s.flaw == "badmac2" && !first {
				hf.Mac[b.r.Intn(6)] ^= byte(1 << b.r.Intn(8))
			}
		}
		if _, st := s.segOf(s.cur); s.kind == "astout" && st == s.cur && s.cur > 0 {
			// first hop after a cross-over done by the sibling router: the AS was entered through
			// the interface named by the previous segment's last hop
			sg, _ := s.segOf(s.cur - 1)
			if dp.InfoFields[sg].ConsDir {
				dp.HopFields[s.cur-1].ConsIngress = s.tin
			} else {
				dp.HopFields[s.cur-1].ConsEgress = s.tin
			}
		}
		if s.kind == "xover" {
			setHop(s.cur, s.tin, 0, true)
			setHop(s.cur+1, 0, s.teg, false)
		} else {
			setHop(s.cur, s.tin, s.teg, true)
		}
		raw, err := dp.ToRaw()
		if err != nil {
			panic(err)
		}
		if s.ptype == "scion" {
			sc.PathType = scion.PathType
			sc.Path = raw
		} else {
			sc.PathType = epic.PathType
			ets, _ := libepic.CreateTimestamp(time.Unix(int64(dp.InfoFields[0].Timestamp), 0), time.Now())
			sc.Path = &epic.Path{PktID: epic.PktID{Timestamp: ets, Counter: uint32(b.r.U64())},
				PHVF: b.r.Bytes(4), LHVF: b.r.Bytes(4), ScionPath: raw}
		}
		lay.numINF, lay.numHops = len(s.segs), nh
	case "ohp":
		sc.PathType = onehop.PathType
		o := &onehop.Path{Info: path.InfoField{ConsDir: true, Timestamp: now - 10,
			SegID: uint16(b.r.Intn(1 << 16))}, FirstHop: path.HopField{ExpTime: 63, ConsEgress: s.teg}}
		if s.kind == "ohp-in" {
			o.FirstHop.ConsEgress = uint16(b.r.Range(20, 60))
			copy(o.FirstHop.Mac[:], b.r.Bytes(6))
		} else {
			o.FirstHop.Mac = path.MAC(b.mac, o.Info, o.FirstHop, nil)
			if s.flaw == "badmac" {
				o.FirstHop.Mac[2] ^= 4
			}
		}
		sc.Path = o
	case "empty":
		sc.PathType = empty.PathType
		sc.Path = &empty.Path{}
	}

	// upper layers
	l4bytes, first := b.l4Bytes(s, sc)
	var extBytes []byte
	next := first
	switch s.ext {
	case "h", "e", "he", "a", "ax":
		extBytes, next = b.extBytes(s, sc, first, l4bytes)
	}
	sc.NextHdr = next
	pldAll := append(append([]byte(nil), extBytes...), l4bytes...)
	ser := func() []byte {
		buf := gopacket.NewSerializeBuffer()
		if err := gopacket.SerializeLayers(buf, gopacket.SerializeOptions{FixLengths: true}, sc,
			gopacket.Payload(pldAll)); err != nil {
			panic(fmt.Sprintf("serialize %v: %v", s, err))
		}
		return append([]byte(nil), buf.Bytes()...)
	}
	out := ser()
	if s.ptype == "epic" && len(ourMacs) > 0 {
		ep := sc.Path.(*epic.Path)
		inf0, _ := ep.ScionPath.GetInfoField(0)
		auth := ourMacs[len(ourMacs)-1]
		if m, err := libepic.CalcMac(auth, ep.PktID, sc, inf0.Timestamp, nil); err == nil {
			hop := s.cur
			if s.kind == "xover" {
				hop++
			}
			if hop == lay.numHops-1 {
				ep.LHVF = append([]byte(nil), m...)
			} else if hop == lay.numHops-2 {
				ep.PHVF = append([]byte(nil), m...)
			}
			if s.flaw == "badhvf" {
				ep.LHVF[0] ^= 1
				ep.PHVF[0] ^= 1
			}
		}
		if s.ext == "a" || s.ext == "ax" {
			// the hop validation fields are authenticated data
			extBytes, _ = b.extBytes(s, sc, first, l4bytes)
			pldAll = append(append([]byte(nil), extBytes...), l4bytes...)
		}
		out = ser()
	}
	lay.hdrLen = int(out[5]) * 4
	lay.addrLen = sc.AddrHdrLen()
	lay.ptype = s.ptype
	lay.extLen = len(extBytes)
	lay.pathOff = 12 + lay.addrLen
	if s.ptype == "epic" {
		lay.pathOff += 16
	}
	switch s.flaw {
	case "pktlen+":
		binary.BigEndian.PutUint16(out[6:], binary.BigEndian.Uint16(out[6:])+uint16(b.r.Range(1, 40)))
	case "pktlen-":
		v := binary.BigEndian.Uint16(out[6:])
		d := uint16(b.r.Range(1, 40))
		if d > v {
			d = v
		}
		if d == 0 {
			out = append(out, 0)
		} else {
			binary.BigEndian.PutUint16(out[6:], v-d)
		}
	}
	return out, lay
}

// layout: where things are in a built packet
type layout struct {
	hdrLen  int
	addrLen int
	pathOff int // offset of the SCION path meta line (inside the EPIC header for EPIC)
	ptype   string
	numINF  int
	numHops int
	extLen  int
}

// l4Bytes returns the serialised upper layer and its protocol number.
func (b *builder) l4Bytes(s *scen, sc *slayers.SCION) ([]byte, slayers.L4ProtocolType) {
	pld := b.r.Bytes(s.pld)
	serial := func(ls ...gopacket.SerializableLayer) []byte {
		buf := gopacket.NewSerializeBuffer()
		err := gopacket.SerializeLayers(buf,
			gopacket.SerializeOptions{FixLengths: true, ComputeChecksums: true}, ls...)
		if err != nil {
			// checksum needs addresses the scenario may deliberately not have
			buf = gopacket.NewSerializeBuffer()
			if err = gopacket.SerializeLayers(buf, gopacket.SerializeOptions{FixLengths: true}, ls...); err != nil {
				panic(err)
			}
		}
		return append([]byte(nil), buf.Bytes()...)
	}
	scmp := func(t slayers.SCMPType, c slayers.SCMPCode) *slayers.SCMP {
		l := &slayers.SCMP{TypeCode: slayers.CreateSCMPTypeCode(t, c)}
		l.SetNetworkLayerForChecksum(sc)
		return l
	}
	dport := s.dport
	if dport == 0 {
		dport = 40000
	}
	switch s.l4 {
	case l4UDP:
		u := &slayers.UDP{SrcPort: 31000, DstPort: dport}
		u.SetNetworkLayerForChecksum(sc)
		return serial(u, gopacket.Payload(pld)), slayers.L4UDP
	case l4UDPShort:
		return []byte{0x79, 0x18, 0x9c}, slayers.L4UDP
	case l4TCP:
		t := make([]byte, 20)
		binary.BigEndian.PutUint16(t[0:], 31000)
		binary.BigEndian.PutUint16(t[2:], dport)
		t[12] = 5 << 4
		return append(t, pld...), slayers.L4TCP
	case l4Echo:
		return serial(scmp(slayers.SCMPTypeEchoRequest, 0), &slayers.SCMPEcho{Identifier: 31000, SeqNumber: 3},
			gopacket.Payload(pld)), slayers.L4SCMP
	case l4EchoReply:
		return serial(scmp(slayers.SCMPTypeEchoReply, 0), &slayers.SCMPEcho{Identifier: 31000, SeqNumber: 3},
			gopacket.Payload(pld)), slayers.L4SCMP
	case l4TrReq:
		return serial(scmp(slayers.SCMPTypeTracerouteRequest, 0),
			&slayers.SCMPTraceroute{Identifier: uint16(b.r.Intn(1 << 16)), Sequence: uint16(b.r.Intn(1 << 16))}), slayers.L4SCMP
	case l4ScmpErr:
		codes := []slayers.SCMPType{slayers.SCMPTypeDestinationUnreachable, slayers.SCMPTypePacketTooBig,
			slayers.SCMPTypeParameterProblem, slayers.SCMPTypeExternalInterfaceDown,
			slayers.SCMPTypeInternalConnectivityDown}
		t := codes[b.r.Intn(len(codes))]
		quote := gopacket.Payload(b.quotedPacket(s))
		switch t {
		case slayers.SCMPTypeDestinationUnreachable:
			return serial(scmp(t, 0), &slayers.SCMPDestinationUnreachable{}, quote), slayers.L4SCMP
		case slayers.SCMPTypePacketTooBig:
			return serial(scmp(t, 0), &slayers.SCMPPacketTooBig{MTU: 1400}, quote), slayers.L4SCMP
		case slayers.SCMPTypeParameterProblem:
			return serial(scmp(t, slayers.SCMPCodeInvalidHopFieldMAC), &slayers.SCMPParameterProblem{Pointer: 60}, quote), slayers.L4SCMP
		case slayers.SCMPTypeExternalInterfaceDown:
			return serial(scmp(t, 0), &slayers.SCMPExternalInterfaceDown{IA: s.srcIA, IfID: 5}, quote), slayers.L4SCMP
		default:
			return serial(scmp(t, 0), &slayers.SCMPInternalConnectivityDown{IA: s.srcIA, Ingress: 1, Egress: 2}, quote), slayers.L4SCMP
		}
	case l4ScmpShort:
		return []byte{4, 51, 0}[:b.r.Intn(4)], slayers.L4SCMP
	case l4ScmpUnknownInfo:
		return append([]byte{200, 0, 0, 0}, pld...), slayers.L4SCMP
	case l4ScmpUnknownErr:
		return append([]byte{100, 0, 0, 0}, pld...), slayers.L4SCMP
	case l4BFD:
		bl := &layers.BFD{Version: 1, State: layers.BFDStateDown, DetectMultiplier: 3,
			MyDiscriminator: 7, YourDiscriminator: 0, DesiredMinTxInterval: 1000000,
			RequiredMinRxInterval: 1000000}
		return serial(bl), slayers.L4BFD
	}
	return pld, slayers.ExperimentationAndTesting
}

// quotedPacket is a small SCION/UDP packet as it would be quoted in an SCMP error.
func (b *builder) quotedPacket(s *scen) []byte {
	q := &slayers.SCION{SrcIA: s.dstIA, DstIA: s.srcIA, PathType: empty.PathType, Path: &empty.Path{},
		NextHdr: slayers.L4UDP}
	_ = q.SetSrcAddr(addr.HostIP(netip.AddrFrom4([4]byte{10, 0, 0, 8})))
	_ = q.SetDstAddr(addr.HostIP(netip.AddrFrom4([4]byte{10, 0, 0, 7})))
	u := &slayers.UDP{SrcPort: 40000, DstPort: 31000}
	u.SetNetworkLayerForChecksum(q)
	buf := gopacket.NewSerializeBuffer()
	if err := gopacket.SerializeLayers(buf, gopacket.SerializeOptions{FixLengths: true, ComputeChecksums: true},
		q, u, gopacket.Payload(b.r.Bytes(b.r.Intn(64)))); err != nil {
		panic(err)
	}
	return append([]byte(nil), buf.Bytes()...)
}

// extBytes serialises the extension headers in front of l4.
func (b *builder) extBytes(s *scen, sc *slayers.SCION, l4 slayers.L4ProtocolType, l4b []byte) ([]byte, slayers.L4ProtocolType) {
	var out []byte
	first := l4
	ser := func(l gopacket.SerializableLayer) []byte {
		buf := gopacket.NewSerializeBuffer()
		if err := l.SerializeTo(buf, gopacket.SerializeOptions{FixLengths: true}); err != nil {
			panic(err)
		}
		return append([]byte(nil), buf.Bytes()...)
	}
	var e2e []byte
	switch s.ext {
	case "e", "he":
		e := &slayers.EndToEndExtn{}
		e.NextHdr = l4
		e.Options = []*slayers.EndToEndOption{{OptType: slayers.OptTypePadN, OptData: b.r.Bytes(b.r.Intn(9))},
			{OptType: 0xfe, OptData: b.r.Bytes(b.r.Intn(20))}}
		e2e = ser(e)
		first = slayers.End2EndClass
	case "a", "ax":
		// SPAO as an end host would add it to a traceroute request: receiver-side AS-host key
		key, _ := b.fp.GetASHostKey(b.now, s.srcIA, addr.Host{})
		spi, _ := slayers.MakePacketAuthSPIDRKey(uint16(drkey.SCMP), slayers.PacketAuthASHost,
			slayers.PacketAuthReceiverSide)
		ts, err := spao.RelativeTimestamp(key.Epoch, b.now)
		if err != nil {
			panic(err)
		}
		opt, err := slayers.NewPacketAuthOption(slayers.PacketAuthOptionParams{SPI: spi,
			Algorithm: slayers.PacketAuthCMAC, TimestampSN: ts, Auth: make([]byte, 16)})
		if err != nil {
			panic(err)
		}
		tmp := *sc
		tmp.NextHdr = slayers.End2EndClass
		// PayloadLen is not authenticated (mutable); the path is, with its mutable parts zeroed
		if _, err := spao.ComputeAuthCMAC(spao.MACInput{Key: key.Key[:], Header: opt, ScionLayer: &tmp,
			PldType: slayers.L4SCMP, Pld: l4b}, make([]byte, spao.MACBufferSize), opt.Authenticator()); err != nil {
			panic(err)
		}
		if s.ext == "ax" {
			opt.Authenticator()[3] ^= 0x10
		}
		e := &slayers.EndToEndExtn{}
		e.NextHdr = l4
		e.Options = []*slayers.EndToEndOption{opt.EndToEndOption}
		e2e = ser(e)
		first = slayers.End2EndClass
	}
	if s.ext == "h" || s.ext == "he" {
		h := &slayers.HopByHopExtn{}
		h.NextHdr = first
		h.Options = []*slayers.HopByHopOption{{OptType: slayers.OptTypePad1},
			{OptType: 0x7e, OptData: b.r.Bytes(b.r.Intn(30))}}
		out = append(out, ser(h)...)
		first = slayers.HopByHopClass
	}
	out = append(out, e2e...)
	return out, first
}
