package main

import (
	"bytes"
	"encoding/binary"
	"fmt"
	"strings"
	"time"

	"github.com/gopacket/gopacket"

	"github.com/scionproto/scion/pkg/addr"
	"github.com/scionproto/scion/pkg/slayers"
	"github.com/scionproto/scion/pkg/slayers/path"
	"github.com/scionproto/scion/pkg/slayers/path/epic"
	"github.com/scionproto/scion/pkg/slayers/path/scion"
	"github.com/scionproto/scion/pkg/spao"
	"github.com/scionproto/scion/private/drkey/drkeyutil"
	"github.com/scionproto/scion/router"

	"verifharness/vlib"
)

// parsed is a packet decoded the way the router's decodeLayers does it: SCION header, then an
// optional hop-by-hop and an optional end-to-end extension (skipped), real decoders only.
type parsed struct {
	scn     slayers.SCION
	hasHBH  bool
	hasE2E  bool
	e2eRaw  []byte
	next    slayers.L4ProtocolType
	pld     []byte
	rawPath *scion.Raw
}

func parsePkt(b []byte) (*parsed, error) {
	p := &parsed{}
	if err := p.scn.DecodeFromBytes(b, gopacket.NilDecodeFeedback); err != nil {
		return nil, err
	}
	p.next, p.pld = p.scn.NextHdr, p.scn.Payload
	if p.next == slayers.HopByHopClass {
		var h slayers.HopByHopExtnSkipper
		if err := h.DecodeFromBytes(p.pld, gopacket.NilDecodeFeedback); err != nil {
			return nil, err
		}
		p.hasHBH = true
		p.next, p.pld = h.NextHdr, h.Payload
	}
	if p.next == slayers.End2EndClass {
		var e slayers.EndToEndExtnSkipper
		if err := e.DecodeFromBytes(p.pld, gopacket.NilDecodeFeedback); err != nil {
			return nil, err
		}
		p.hasE2E = true
		p.e2eRaw = e.Contents
		p.next, p.pld = e.NextHdr, e.Payload
	}
	switch v := p.scn.Path.(type) {
	case *scion.Raw:
		p.rawPath = v
	case *epic.Path:
		p.rawPath = v.ScionPath
	}
	return p, nil
}

// ---------------------------------------------------------------------------------------------
// C08: consistency of a packet the router sends, computed from the bytes alone.

func addrLenOf(t byte) int { return 4 * (1 + int(t&3)) }

// scionPathLen returns the length of a SCION path whose meta line is at b[0:4], and whether the
// pointers are consistent.
func scionPathLen(b []byte) (int, string) {
	if len(b) < 4 {
		return 0, "path shorter than its meta line"
	}
	w := binary.BigEndian.Uint32(b)
	ci, ch := int(w>>30), int(w>>24)&63
	s := [3]int{int(w>>12) & 63, int(w>>6) & 63, int(w) & 63}
	if (s[0] == 0 && (s[1] > 0 || s[2] > 0)) || (s[1] == 0 && s[2] > 0) {
		return 0, "empty segment before a non-empty one"
	}
	ninf := 0
	for _, x := range s {
		if x > 0 {
			ninf++
		}
	}
	nh := s[0] + s[1] + s[2]
	if nh > 64 {
		return 0, "more than 64 hops"
	}
	if nh == 0 {
		return 0, "no hops"
	}
	if ch >= nh {
		return 0, fmt.Sprintf("CurrHF %d >= NumHops %d", ch, nh)
	}
	idx := 2
	if ch < s[0] {
		idx = 0
	} else if ch < s[0]+s[1] {
		idx = 1
	}
	if ci != idx {
		return 0, fmt.Sprintf("CurrINF %d does not match CurrHF %d (segment %d)", ci, ch, idx)
	}
	return 4 + 8*ninf + 12*nh, ""
}

// inconsistent returns "" when out decodes as a SCION packet whose header length, payload length
// and path pointers are consistent, else what is wrong.
func inconsistent(out []byte) string {
	if len(out) < 12 {
		return "shorter than the common header"
	}
	al := 16 + addrLenOf(out[9]>>4) + addrLenOf(out[9])
	hdr := int(out[5]) * 4
	if hdr > len(out) {
		return fmt.Sprintf("HdrLen*4 = %d exceeds the packet (%d bytes)", hdr, len(out))
	}
	if 12+al > hdr {
		return fmt.Sprintf("HdrLen*4 = %d smaller than common+address header %d", hdr, 12+al)
	}
	pb := out[12+al : hdr]
	var pl int
	switch out[8] {
	case 0:
		pl = 0
	case 1:
		var why string
		if pl, why = scionPathLen(pb); why != "" {
			return why
		}
	case 2:
		pl = 32
	case 3:
		if len(pb) < 16 {
			return "EPIC header truncated"
		}
		n, why := scionPathLen(pb[16:])
		if why != "" {
			return why
		}
		pl = 16 + n
	default:
		return fmt.Sprintf("unknown path type %d", out[8])
	}
	if hdr != 12+al+pl {
		return fmt.Sprintf("HdrLen*4 = %d but common+address+path = %d", hdr, 12+al+pl)
	}
	if int(binary.BigEndian.Uint16(out[6:])) != len(out)-hdr {
		return fmt.Sprintf("PayloadLen = %d but %d bytes follow the header",
			binary.BigEndian.Uint16(out[6:]), len(out)-hdr)
	}
	var s slayers.SCION
	if err := s.DecodeFromBytes(out, gopacket.NilDecodeFeedback); err != nil {
		return "real decoder rejects it: " + firstWords(err.Error())
	}
	return ""
}

func firstWords(s string) string {
	if i := strings.IndexAny(s, "{\n"); i > 0 {
		s = s[:i]
	}
	if len(s) > 80 {
		s = s[:80]
	}
	return strings.TrimSpace(s)
}

// ---------------------------------------------------------------------------------------------
// C09: the statement evaluated on one SCMP message the router emitted.

func csum16(parts ...[]byte) uint32 {
	var c uint32
	for _, p := range parts {
		for i := 0; i+1 < len(p); i += 2 {
			c += uint32(p[i])<<8 | uint32(p[i+1])
		}
		if len(p)%2 == 1 {
			c += uint32(p[len(p)-1]) << 8
		}
	}
	return c
}

// scmpChecksumOK verifies the SCMP checksum over pseudo header + message (independent of slayers).
func scmpChecksumOK(out []byte, al int, upper []byte) bool {
	var l [4]byte
	binary.BigEndian.PutUint32(l[:], uint32(len(upper)))
	c := csum16(out[12:12+al], l[:], []byte{0, 0, 0, 202}, upper)
	for c > 0xffff {
		c = c>>16 + c&0xffff
	}
	return c == 0xffff
}

// maskMutable zeroes what routers legitimately rewrite in a SCION/EPIC path: CurrINF/CurrHF,
// every SegID, the router-alert flags, reserved bits of info and hop field flags.
func maskMutable(b []byte) []byte {
	o := append([]byte(nil), b...)
	if len(o) < 12 {
		return o
	}
	off := 12 + 16 + addrLenOf(o[9]>>4) + addrLenOf(o[9])
	if o[8] == 3 {
		off += 16
	} else if o[8] != 1 {
		return o
	}
	if off+4 > len(o) {
		return o
	}
	w := binary.BigEndian.Uint32(o[off:])
	o[off] = 0
	o[off+1] &= 0x03 // reserved bits: every re-serialisation of the meta line (IncPath, ToDecoded) clears them
	ninf := 0
	nh := 0
	for k := 0; k < 3; k++ {
		n := int(w>>(uint(2-k)*6)) & 63
		if n > 0 {
			ninf++
		}
		nh += n
	}
	zero := func(p int) {
		if p < len(o) {
			o[p] = 0
		}
	}
	for i := 0; i < ninf; i++ {
		// SetInfoField re-serialises the field: reserved flag bits and the reserved byte become 0
		if p := off + 4 + 8*i; p < len(o) {
			o[p] &= 0x03
		}
		zero(off + 4 + 8*i + 1)
		zero(off + 4 + 8*i + 2)
		zero(off + 4 + 8*i + 3)
	}
	for i := 0; i < nh; i++ {
		zero(off + 4 + 8*ninf + 12*i)
	}
	return o
}

type c09ctx struct {
	e    *vlib.Env
	dv   *dpVar
	orig []byte
	link uint16
	res  *router.VerifScmpResult
	sc   *scen
	rep  map[string]any
}

var fakeKeys = drkeyutil.FakeProvider{EpochDuration: drkeyutil.LoadEpochDuration(),
	AcceptanceWindow: drkeyutil.LoadAcceptanceWindow()}

// checkC09 evaluates the statement of C09 on an emitted error message. It returns the violation
// key suffix and text, or "" if the message is fine.
func checkC09(c *c09ctx) (string, string) {
	out, at := c.res.Out, c.res.AtSlow
	op, err := parsePkt(c.orig)
	if err != nil {
		return "offender-undecodable", "an SCMP error was emitted for a packet that does not decode"
	}
	// decodes
	if why := inconsistent(out); why != "" {
		return "undecodable", "emitted SCMP error does not decode / is inconsistent: " + why
	}
	rp, err := parsePkt(out)
	if err != nil {
		return "undecodable", "emitted SCMP error does not decode: " + firstWords(err.Error())
	}
	if rp.next != slayers.L4SCMP || rp.hasHBH {
		return "not-scmp", fmt.Sprintf("emitted packet's upper layer is %d, not SCMP", rp.next)
	}
	if len(rp.pld) < 8 {
		return "scmp-short", "SCMP message shorter than header + info block"
	}
	typ, code := int(rp.pld[0]), int(rp.pld[1])
	if typ >= 128 {
		return "", "" // informational (traceroute reply): not an error message
	}
	// no error in response to an SCMP error
	if op.next == slayers.L4SCMP && len(op.pld) >= 1 && op.pld[0] < 128 {
		return "error-on-error", fmt.Sprintf("SCMP error %d/%d generated in response to an SCMP error message (type %d)", typ, code, op.pld[0])
	}
	// addressed to the source, from the local IA and router address
	if rp.scn.DstIA != op.scn.SrcIA || rp.scn.DstAddrType != op.scn.SrcAddrType ||
		!bytes.Equal(rp.scn.RawDstAddr, op.scn.RawSrcAddr) {
		return "dst-not-source", fmt.Sprintf("destination %v,%x is not the offending packet's source %v,%x",
			rp.scn.DstIA, rp.scn.RawDstAddr, op.scn.SrcIA, op.scn.RawSrcAddr)
	}
	if rp.scn.SrcIA != localIA || int(rp.scn.SrcAddrType) != c.dv.hostType ||
		!bytes.Equal(rp.scn.RawSrcAddr, c.dv.rawHost) {
		return "src-not-router", fmt.Sprintf("source %v,%x is not the local IA and router address",
			rp.scn.SrcIA, rp.scn.RawSrcAddr)
	}
	// size, quote
	if len(out) > slayers.MaxSCMPPacketLen {
		return "too-big", fmt.Sprintf("message is %d bytes (> %d)", len(out), slayers.MaxSCMPPacketLen)
	}
	ib := map[int]int{1: 4, 2: 4, 4: 4, 5: 16, 6: 24}[typ]
	if ib == 0 {
		return "unknown-type", fmt.Sprintf("SCMP error type %d is not one the specification defines", typ)
	}
	if len(rp.pld) < 4+ib {
		return "scmp-short", "SCMP message shorter than header + info block"
	}
	quote := rp.pld[4+ib:]
	if ma := maskMutable(at); len(quote) > len(at) || !bytes.Equal(maskMutable(quote), ma[:len(quote)]) {
		return "quote-not-prefix", "data block is not a prefix of the offending packet"
	}
	if mo := maskMutable(c.orig); len(quote) > len(mo) || !bytes.Equal(maskMutable(quote), mo[:len(quote)]) {
		return "quote-not-prefix", "data block differs from the received packet outside the router-mutable path fields"
	}
	hdr := len(out) - len(quote)
	if want := min(slayers.MaxSCMPPacketLen, hdr+len(at)); len(out) != want {
		return "quote-not-maximal", fmt.Sprintf("message is %d bytes although %d were possible", len(out), want)
	}
	// checksum
	al := rp.scn.AddrHdrLen()
	if !scmpChecksumOK(out, al, rp.pld) {
		return "checksum", "SCMP checksum does not verify"
	}
	// type / code / pointer
	ptr := int(binary.BigEndian.Uint16(rp.pld[6:8]))
	if why := typeCodePointer(c, op, typ, code, ptr, rp.pld); why != "" {
		if strings.HasPrefix(why, "EPIC:") {
			return "pointer-epic-header-ignored", why
		}
		return "type-code-pointer", why
	}
	// authenticator
	if c.dv.auth {
		if !rp.hasE2E {
			return "auth-missing", "SCMP authentication is enabled but the error carries no authenticator"
		}
		if why := authOK(rp, out); why != "" {
			return "auth-invalid", why
		}
	} else if rp.hasE2E {
		return "auth-unexpected", "extension header although SCMP authentication is disabled"
	}
	return "", ""
}

// authOK verifies the SPAO authenticator the way a receiver does (real spao code, the router's
// fake DRKey provider has the all-zero key).
func authOK(rp *parsed, out []byte) string {
	var e2e slayers.EndToEndExtn
	if err := e2e.DecodeFromBytes(rp.e2eRaw, gopacket.NilDecodeFeedback); err != nil {
		return "E2E extension does not decode: " + firstWords(err.Error())
	}
	opt, err := e2e.FindOption(slayers.OptTypeAuthenticator)
	if err != nil {
		return "no authenticator option"
	}
	ao, err := slayers.ParsePacketAuthOption(opt)
	if err != nil {
		return "authenticator option malformed"
	}
	if ao.Algorithm() != slayers.PacketAuthCMAC || !ao.SPI().IsDRKey() ||
		ao.SPI().Type() != slayers.PacketAuthASHost || ao.SPI().Direction() != slayers.PacketAuthSenderSide {
		return "authenticator SPI/algorithm is not DRKey AS-host sender-side CMAC"
	}
	dst, err := rp.scn.DstAddr()
	if err != nil {
		return "destination address unparsable"
	}
	key, err := fakeKeys.GetKeyWithinAcceptanceWindow(time.Now(), ao.TimestampSN(), rp.scn.DstIA, dst)
	if err != nil {
		return "authenticator timestamp outside the acceptance window"
	}
	tag, err := spao.ComputeAuthCMAC(spao.MACInput{Key: key.Key[:], Header: ao, ScionLayer: &rp.scn,
		PldType: slayers.L4SCMP, Pld: rp.pld}, make([]byte, spao.MACBufferSize), make([]byte, 16))
	if err != nil {
		return "MAC computation failed: " + firstWords(err.Error())
	}
	if !bytes.Equal(tag, ao.Authenticator()) {
		return "authenticator tag does not verify"
	}
	return ""
}

// typeCodePointer checks type, code and pointer against the detected problem. The problem is
// known when the packet was built with one deliberate flaw (c.sc); the pointer is checked wherever
// the code (by doc/protocols/scmp.rst or the router's own constants) fixes it.
func typeCodePointer(c *c09ctx, op *parsed, typ, code, ptr int, scmp []byte) string {
	at, err := parsePkt(c.res.AtSlow)
	if err != nil {
		return "packet handed to the slow path does not decode"
	}
	al := at.scn.AddrHdrLen()
	base := 12 + al
	if at.scn.PathType == epic.PathType {
		base += epic.MetadataLen // the pointer is a byte offset in the offending packet
	}
	hopPtr, infoPtr := -1, -1
	if at.rawPath != nil {
		hopPtr = base + 4 + 8*at.rawPath.NumINF + 12*int(at.rawPath.PathMeta.CurrHF)
		infoPtr = base + 4 + 8*int(at.rawPath.PathMeta.CurrINF)
	}
	switch typ {
	case 1:
		if code != 0 {
			return fmt.Sprintf("DestinationUnreachable with code %d (router only has 'no route')", code)
		}
	case 4:
		switch code {
		case 48, 49, 50, 51, 52:
			if ptr != hopPtr && at.scn.PathType == epic.PathType && ptr == hopPtr-epic.MetadataLen {
				return fmt.Sprintf("EPIC: code %d pointer %d ignores the %d-byte EPIC header; the current hop field is at %d", code, ptr, epic.MetadataLen, hopPtr)
			}
			if ptr != hopPtr {
				return fmt.Sprintf("code %d: pointer %d is not the current hop field (%d)", code, ptr, hopPtr)
			}
		case 53:
			if ptr != infoPtr && at.scn.PathType == epic.PathType && ptr == infoPtr-epic.MetadataLen {
				return fmt.Sprintf("EPIC: code 53 pointer %d ignores the %d-byte EPIC header; the current info field is at %d", ptr, epic.MetadataLen, infoPtr)
			}
			if ptr != infoPtr {
				return fmt.Sprintf("code 53: pointer %d is not the current info field (%d)", ptr, infoPtr)
			}
		case 19:
			if ptr != 0 {
				return fmt.Sprintf("code 19: pointer %d, expected 0", ptr)
			}
		case 33:
			if ptr != 0 && ptr != 12+8 {
				return fmt.Sprintf("code 33: pointer %d is neither the source IA (20) nor 0", ptr)
			}
		case 34:
			if ptr != 0 && ptr != 12 {
				return fmt.Sprintf("code 34: pointer %d is neither the destination IA (12) nor 0", ptr)
			}
		default:
			return fmt.Sprintf("ParameterProblem code %d is not one the router's checks produce", code)
		}
	case 5:
		if code != 0 || addr.IA(binary.BigEndian.Uint64(scmp[4:])) != localIA {
			return "ExternalInterfaceDown: code/IA wrong"
		}
		ifid := binary.BigEndian.Uint64(scmp[12:])
		i := ifByID(uint16(ifid))
		if ifid > 65535 || i == nil || i.sibling || !i.down {
			return fmt.Sprintf("ExternalInterfaceDown names interface %d which is not a down external interface", ifid)
		}
	case 6:
		if code != 0 || addr.IA(binary.BigEndian.Uint64(scmp[4:])) != localIA {
			return "InternalConnectivityDown: code/IA wrong"
		}
		in, eg := binary.BigEndian.Uint64(scmp[12:]), binary.BigEndian.Uint64(scmp[20:])
		i := ifByID(uint16(eg))
		if eg > 65535 || i == nil || !i.sibling || !i.down {
			return fmt.Sprintf("InternalConnectivityDown names egress %d which is not behind a down sibling link", eg)
		}
		want := uint64(0)
		if scopeOf(c.link) == "e" {
			want = uint64(c.link)
		}
		if in != want {
			return fmt.Sprintf("InternalConnectivityDown names ingress %d, packet came in on %d", in, want)
		}
	default:
		return fmt.Sprintf("the router has no check that produces SCMP type %d", typ)
	}
	// the detected problem, when known
	if c.sc != nil && c.sc.cause != "" {
		cons := true
		if at.rawPath != nil {
			if inf, err := at.rawPath.GetCurrentInfoField(); err == nil {
				cons = inf.ConsDir
			}
		}
		wt, wc := expectedTypeCode(c.sc.cause, cons)
		if typ != wt || code != wc {
			return fmt.Sprintf("problem %s (flaw %s): got %d/%d, documented %d/%d", c.sc.cause, c.sc.flaw, typ, code, wt, wc)
		}
	}
	return ""
}

// expectedTypeCode is the table of doc/protocols/scmp.rst for the problems the router detects.
// For the two interface codes the hop field names interfaces in construction direction.
func expectedTypeCode(cause string, consDir bool) (int, int) {
	switch cause {
	case "pathExpired":
		return 4, 52
	case "ingressMismatch": // the interface the packet entered through is the hop's cons-ingress iff ConsDir
		if consDir {
			return 4, 49
		}
		return 4, 50
	case "unknownEgress":
		if consDir {
			return 4, 50
		}
		return 4, 49
	case "badPktLen":
		return 4, 19
	case "invalidSrcIA", "invalidSrcHost":
		return 4, 33
	case "invalidDstIA", "invalidDstHost":
		return 4, 34
	case "badMac":
		return 4, 51
	case "noSvcBackend":
		return 1, 0
	case "invalidPath":
		return 4, 48
	case "invalidSegChange":
		return 4, 53
	case "extIfDown":
		return 5, 0
	case "intConnDown":
		return 6, 0
	}
	return -1, -1
}

// ---------------------------------------------------------------------------------------------
// T1: the slow path as an op for the Lean model, and the implementation's answer.

func infosStr(infs []path.InfoField) string {
	if len(infs) == 0 {
		return "-"
	}
	var parts []string
	for _, i := range infs {
		parts = append(parts, fmt.Sprintf("%d.%d.%d.%d", b2i(i.ConsDir), b2i(i.Peer), i.SegID, i.Timestamp))
	}
	return strings.Join(parts, ",")
}

func hopsHex(hfs []path.HopField) string {
	var all []byte
	for _, h := range hfs {
		var b [12]byte
		_ = h.SerializeTo(b[:])
		all = append(all, b[:]...)
	}
	return vlib.Hex(all)
}

func b2i(b bool) int {
	if b {
		return 1
	}
	return 0
}

// spOp renders the slow-path invocation; ok=false if the inputs cannot be abstracted.
func spOp(dv *dpVar, link uint16, res *router.VerifScmpResult, reqAuth bool) (string, bool) {
	at, err := parsePkt(res.AtSlow)
	if err != nil {
		return "", false
	}
	meta, infos, hops := uint32(0), "-", "-"
	if at.rawPath != nil {
		dec, err := at.rawPath.ToDecoded()
		if err != nil {
			return "", false
		}
		meta = binary.BigEndian.Uint32(at.rawPath.Raw[:4])
		infos, hops = infosStr(dec.InfoFields), hopsHex(dec.HopFields)
	}
	l4 := "o"
	trid, trseq := 0, 0
	if at.next == slayers.L4SCMP {
		if len(at.pld) < 4 {
			l4 = "s"
		} else {
			l4 = fmt.Sprintf("m.%d.%d.%d", at.pld[0], at.pld[1], len(at.pld)-4)
			if len(at.pld) >= 8 {
				trid, trseq = int(binary.BigEndian.Uint16(at.pld[4:])), int(binary.BigEndian.Uint16(at.pld[6:]))
			}
		}
	}
	ing := 0
	if scopeOf(link) == "e" {
		ing = int(link)
	}
	return fmt.Sprintf("sp %s %d %d %d %d %d %s %d %d %d %d %d %d %s %d %s %s %s %d %d %d %d %d %d %d %d",
		scopeOf(link), b2i(dv.auth), dv.v.UnderlayHeadroom(), res.Headroom, uint64(localIA), dv.hostType,
		vlib.Hex(dv.rawHost), len(res.AtSlow), int(at.scn.PathType), at.scn.FlowID, at.scn.TrafficClass,
		uint64(at.scn.SrcIA), int(at.scn.SrcAddrType), vlib.Hex(at.scn.RawSrcAddr), meta, infos, hops, l4,
		trid, trseq, b2i(reqAuth), res.SpType, res.SpCode, res.SpPtr, ing, int(res.Egress)), true
}

// spAnswer renders what the implementation did.
func spAnswer(res *router.VerifScmpResult) string {
	if res.SlowErr != nil {
		return "drop"
	}
	out := res.Out
	rp, err := parsePkt(out)
	if err != nil {
		return "undecodable " + firstWords(err.Error())
	}
	dec := &scion.Decoded{}
	meta := uint32(0)
	switch v := rp.scn.Path.(type) {
	case *scion.Raw:
		d, err := v.ToDecoded()
		if err != nil {
			return "undecodable path"
		}
		dec = d
		meta = binary.BigEndian.Uint32(v.Raw[:4])
	default:
		return "reply-path-not-scion"
	}
	if rp.next != slayers.L4SCMP || len(rp.pld) < 4 {
		// not an SCMP message: describe it as a reflected packet
		return fmt.Sprintf("not-scmp next=%d len=%d", rp.next, len(out))
	}
	typ, code := int(rp.pld[0]), int(rp.pld[1])
	ibl := map[int]int{1: 4, 4: 4, 5: 16, 6: 24, 131: 20}[typ]
	if ibl == 0 || len(rp.pld) < 4+ibl {
		return fmt.Sprintf("scmp-unexpected type=%d len=%d", typ, len(rp.pld))
	}
	ib := rp.pld[4 : 4+ibl]
	info := "-"
	switch typ {
	case 4:
		info = fmt.Sprintf("%d", binary.BigEndian.Uint16(ib[2:]))
	case 5:
		info = fmt.Sprintf("%d.%d", binary.BigEndian.Uint64(ib), binary.BigEndian.Uint64(ib[8:]))
	case 6:
		info = fmt.Sprintf("%d.%d.%d", binary.BigEndian.Uint64(ib), binary.BigEndian.Uint64(ib[8:]), binary.BigEndian.Uint64(ib[16:]))
	case 131:
		info = fmt.Sprintf("%d.%d.%d.%d", binary.BigEndian.Uint16(ib), binary.BigEndian.Uint16(ib[2:]),
			binary.BigEndian.Uint64(ib[4:]), binary.BigEndian.Uint64(ib[12:]))
	}
	q := len(rp.pld) - 4 - ibl
	front := res.OutOff < res.Headroom
	return fmt.Sprintf("emit %d %d %d %d %d %d %d %d %d %d %d %s %s %d %d %d %s %s %d %d %s %d %d %d %d %d",
		len(out), out[5], binary.BigEndian.Uint16(out[6:]), out[4], out[8], rp.scn.FlowID, rp.scn.TrafficClass,
		uint64(rp.scn.DstIA), uint64(rp.scn.SrcIA), int(rp.scn.DstAddrType), int(rp.scn.SrcAddrType),
		vlib.Hex(rp.scn.RawDstAddr), vlib.Hex(rp.scn.RawSrcAddr), dec.NumINF, dec.NumHops, meta,
		infosStr(dec.InfoFields), hopsHex(dec.HopFields), typ, code, info, b2i(rp.hasE2E), b2i(typ < 128), q,
		b2i(front), res.OutOff)
}

// ---------------------------------------------------------------------------------------------
// T1 at byte level: checksum and authenticator input of an emitted message

func fnv64(b []byte) uint64 {
	h := uint64(0xcbf29ce484222325)
	for _, c := range b {
		h = (h ^ uint64(c)) * 0x100000001b3
	}
	return h
}

// infoStr renders the info block of an SCMP message of the types the router emits.
func infoStr(typ int, ib []byte) string {
	switch typ {
	case 4:
		return fmt.Sprintf("%d", binary.BigEndian.Uint16(ib[2:]))
	case 5:
		return fmt.Sprintf("%d.%d", binary.BigEndian.Uint64(ib), binary.BigEndian.Uint64(ib[8:]))
	case 6:
		return fmt.Sprintf("%d.%d.%d", binary.BigEndian.Uint64(ib), binary.BigEndian.Uint64(ib[8:]), binary.BigEndian.Uint64(ib[16:]))
	case 131:
		return fmt.Sprintf("%d.%d.%d.%d", binary.BigEndian.Uint16(ib), binary.BigEndian.Uint16(ib[2:]),
			binary.BigEndian.Uint64(ib[4:]), binary.BigEndian.Uint64(ib[12:]))
	}
	return "-"
}

// ckOp: the model recomputes the checksum from the decoded fields; the answer is the checksum
// field of the real message.
func ckOp(out []byte) (op, ans string, ok bool) {
	rp, err := parsePkt(out)
	if err != nil || rp.next != slayers.L4SCMP || len(rp.pld) < 4 {
		return "", "", false
	}
	typ := int(rp.pld[0])
	ibl := map[int]int{1: 4, 4: 4, 5: 16, 6: 24, 131: 20}[typ]
	if ibl == 0 || len(rp.pld) < 4+ibl {
		return "", "", false
	}
	if typ == 1 && !bytes.Equal(rp.pld[4:8], []byte{0, 0, 0, 0}) || typ == 4 && (rp.pld[4] != 0 || rp.pld[5] != 0) {
		return "", "", false // reserved bytes are not fields of the model
	}
	op = fmt.Sprintf("ck %d %d %s %s %d %d %s %s", uint64(rp.scn.SrcIA), uint64(rp.scn.DstIA),
		vlib.Hex(rp.scn.RawSrcAddr), vlib.Hex(rp.scn.RawDstAddr), typ, rp.pld[1], infoStr(typ, rp.pld[4:4+ibl]),
		vlib.Hex(rp.pld[4+ibl:]))
	return op, fmt.Sprintf("%d", binary.BigEndian.Uint16(rp.pld[2:])), true
}

// auOp: the model builds the authenticator input of the reply header; the answer is length and
// FNV-64 of what the real serializeAuthenticatedData produces, followed by the payload.
func auOp(out []byte) (op, ans string, ok bool) {
	rp, err := parsePkt(out)
	if err != nil || !rp.hasE2E || rp.next != slayers.L4SCMP {
		return "", "", false
	}
	var e2e slayers.EndToEndExtn
	if err := e2e.DecodeFromBytes(rp.e2eRaw, gopacket.NilDecodeFeedback); err != nil {
		return "", "", false
	}
	opt, err := e2e.FindOption(slayers.OptTypeAuthenticator)
	if err != nil {
		return "", "", false
	}
	ao, err := slayers.ParsePacketAuthOption(opt)
	if err != nil {
		return "", "", false
	}
	raw, isRaw := rp.scn.Path.(*scion.Raw)
	if !isRaw {
		return "", "", false
	}
	dec, err := raw.ToDecoded()
	if err != nil {
		return "", "", false
	}
	buf := make([]byte, spao.MACBufferSize)
	n, err := spao.VerifSerializeAuthenticatedData(buf, &rp.scn, ao, slayers.L4SCMP, rp.pld)
	if err != nil {
		return "", "", false
	}
	in := append(append([]byte(nil), buf[:n]...), rp.pld...)
	op = fmt.Sprintf("au %d %d %d %d %d %d %s %s %d %s %s %d %s", rp.scn.TrafficClass, rp.scn.FlowID,
		int(rp.scn.DstAddrType), int(rp.scn.SrcAddrType), uint64(rp.scn.DstIA), uint64(rp.scn.SrcIA),
		vlib.Hex(rp.scn.RawDstAddr), vlib.Hex(rp.scn.RawSrcAddr), binary.BigEndian.Uint32(raw.Raw[:4]),
		infosStr(dec.InfoFields), hopsHex(dec.HopFields), ao.TimestampSN(), vlib.Hex(rp.pld))
	return op, fmt.Sprintf("%d %d", len(in), fnv64(in)), true
}
