// Engine "scmp" (C08, C09): drives the real router fast path and slow path (through the verif
// hooks router.VerifScmp* / udpip.VerifScmp*) with valid, flawed, corrupted, truncated, length-lying
// and random datagrams on the internal, sibling and external links, ties
// lean/Scion/Model/Scmp.lean to what the slow path emits and evaluates the statements of C08 and
// C09 directly on the implementation's outputs.
package main

import (
	"crypto/sha256"
	"encoding/hex"
	"encoding/json"
	"errors"
	"fmt"
	"os"
	"strings"

	"github.com/gopacket/gopacket"

	"github.com/scionproto/scion/pkg/addr"
	"github.com/scionproto/scion/pkg/log"
	"github.com/scionproto/scion/pkg/slayers"
	"github.com/scionproto/scion/pkg/slayers/path/epic"
	"github.com/scionproto/scion/pkg/stun"
	"github.com/scionproto/scion/router/underlayproviders/udpip"

	"verifharness/vlib"
)

type engine struct {
	e    *vlib.Env
	r    *vlib.Rand
	g    *gen
	dvs  []*dpVar
	next int
	// statistics
	genMismatch int
	mismatchLog []string
	slowSeen    map[string]int
	scmpEmitted int
	placeFront  int
	placeEnd    int
	atLimit     int
	consistPre  int
}

func (en *engine) pickDP() *dpVar {
	en.next++
	return en.dvs[en.next%len(en.dvs)]
}

func replayData(dv *dpVar, raw []byte, link uint16, headroom int, what string) map[string]any {
	return map[string]any{"raw": hex.EncodeToString(raw), "link": link, "scope": scopeOf(link),
		"dp": dv.name, "headroom": headroom, "input": what}
}

// feed pushes one datagram through the router and evaluates both predicates and the model ops.
// sc may be nil (unknown expectation). Returns the outcome.
func (en *engine) feed(dv *dpVar, raw []byte, link uint16, headroom int, sc *scen, stream, what string, reqAuthKnown, reqAuth bool) outcome {
	e := en.e
	if len(raw) > 9000-headroom && sc != nil {
		headroom = 512 // built packets fit a real buffer
	}
	if max := 9000 - headroom; len(raw) > max {
		raw = raw[:max] // what a socket read into the packet buffer returns
	}
	o := dv.run(raw, link, headroom, false)
	scope := scopeOf(link)
	tag := stream + "/" + scope + "/"
	rep := func() map[string]any { return replayData(dv, raw, link, headroom, what) }
	if o.pnc != "" {
		// does it replay alone, on fresh processors?
		o2 := dv.run(raw, link, headroom, true)
		m := rep()
		m["replays_alone"] = o2.pnc != ""
		m["panic"] = o.pnc
		if e.Prop == "C08" {
			e.Violate("C08/panic/"+scope, o.pnc, m)
		}
		e.Case(tag+"PANIC", tag+"PANIC", false)
		return o
	}
	res := &o.res
	switch o.stage {
	case "intake-drop":
		e.Case("", "~"+tag+"intake-drop", true)
		return o
	case "stun-drop":
		e.Case("", "~"+tag+"stun-drop", true)
		return o
	case "stun-reply":
		hs := sha256.Sum256(raw)
		e.Case(fmt.Sprintf("stun|%x", hs[:12]), tag+"stun-reply", false)
		return o
	}
	h := sha256.Sum256(raw)
	fp := fmt.Sprintf("%s|%d|%x", dv.name, link, h[:12])
	btag := tag + res.Disp
	switch res.Disp {
	case "forward":
		if res.OutLink == nil {
			btag += "/no-egress-link"
			break
		}
		if res.Egress == 0 {
			btag += "/deliver"
		}
		if e.Prop == "C08" {
			if why := inconsistent(res.Out); why != "" {
				m := rep()
				m["out"] = hex.EncodeToString(res.Out)
				m["egress"] = res.Egress
				key := "C08/forwarded-inconsistent/" + pathTypeName(raw)
				if strings.HasPrefix(why, "PayloadLen") {
					key = "C08/forwarded-payloadlen-mismatch/" + pathTypeName(raw)
				}
				e.Violate(key, "forwarded packet: "+why, m)
			}
		}
	case "slow":
		btag = fmt.Sprintf("%s/%d/%d", btag, res.SpType, res.SpCode)
		en.slowSeen[fmt.Sprintf("%d/%d", res.SpType, res.SpCode)]++
		// precondition of the slow path that the fast path establishes (C08 theorem hypothesis)
		if at, err := parsePkt(res.AtSlow); err == nil && at.rawPath != nil {
			if _, why := scionPathLen(at.rawPath.Raw); why == "" {
				en.consistPre++
			} else if e.Prop == "C08" {
				e.Violate("C08/slowpath-precondition", "fast path handed over a packet with inconsistent path pointers: "+why, rep())
			}
		}
		if res.SlowErr != nil {
			btag += "/drop"
		} else {
			btag += "/emit"
			en.scmpEmitted++
			if res.SpType >= 0 {
				if res.OutOff < res.Headroom {
					en.placeFront++
				} else {
					en.placeEnd++
				}
				if len(res.Out) == 1232 {
					en.atLimit++
				}
			}
			if e.Prop == "C08" {
				if why := inconsistent(res.Out); why != "" {
					m := rep()
					m["out"] = hex.EncodeToString(res.Out)
					e.Violate("C08/emitted-inconsistent", "packet emitted by the slow path: "+why, m)
				}
			}
			if e.Prop == "C09" && res.SpType >= 0 {
				k, why := checkC09(&c09ctx{e: e, dv: dv, orig: raw, link: link, res: res, sc: sc})
				if k != "" {
					m := rep()
					m["out"] = hex.EncodeToString(res.Out)
					m["request"] = fmt.Sprintf("%d/%d ptr %d", res.SpType, res.SpCode, res.SpPtr)
					if sc != nil {
						m["scenario"] = sc.String()
					}
					e.Violate("C09/"+k, why, m)
				}
			}
		}
		// byte level: checksum of every emitted message, authenticator input of every third
		if res.SlowErr == nil {
			if op, ans, ok := ckOp(res.Out); ok {
				e.Op(op, ans, "ck/"+fmt.Sprint(res.SpType))
			}
			if en.scmpEmitted%3 == 0 || stream == "flaw-max" {
				if op, ans, ok := auOp(res.Out); ok {
					e.Op(op, ans, "au/"+fmt.Sprint(res.SpType))
				}
			}
		}
		// model correspondence
		known := reqAuthKnown
		if at, err := parsePkt(res.AtSlow); err == nil {
			if !(dv.auth && res.SpType < 0 && at.hasE2E) {
				known, reqAuth = true, false // hasValidAuth is false without an E2E extension / not consulted
			}
		}
		if known {
			if op, ok := spOp(dv, link, res, reqAuth); ok {
				e.Op(op, spAnswer(res), btag)
			}
		}
		// cause table
		if sc != nil && sc.cause != "" && res.SpType >= 0 {
			if at, err := parsePkt(res.AtSlow); err == nil && at.rawPath != nil {
				cons := false
				if inf, err := at.rawPath.GetCurrentInfoField(); err == nil {
					cons = inf.ConsDir
				}
				wt, wc := expectedTypeCode(sc.cause, cons)
				if wt == res.SpType && wc == res.SpCode || e.Prop == "C09" {
					e.Op(fmt.Sprintf("cz %s %d %d %d %d %d %d", sc.cause, b2i(cons), at.scn.AddrHdrLen(),
						at.rawPath.NumINF, at.rawPath.PathMeta.CurrINF, at.rawPath.PathMeta.CurrHF,
						b2i(at.scn.PathType == epic.PathType)),
						fmt.Sprintf("%d %d %d", res.SpType, res.SpCode, res.SpPtr), "cz/"+sc.cause)
				}
			}
		}
	}
	e.Case(fp, btag, res.Disp == "discard")
	if sc != nil && sc.expDisp != "" && sc.expDisp != res.Disp {
		en.genMismatch++
		if len(en.mismatchLog) < 12 {
			en.mismatchLog = append(en.mismatchLog, fmt.Sprintf("%s: expected %s got %s (%d/%d)", sc, sc.expDisp,
				res.Disp, res.SpType, res.SpCode))
		}
	}
	return o
}

func pathTypeName(raw []byte) string {
	if len(raw) < 9 {
		return "short"
	}
	return [...]string{"empty", "scion", "onehop", "epic"}[raw[8]&3]
}

// linksFor returns the links a mutated packet is fed on: the scenario's own, and one of each other
// scope.
func (en *engine) otherLinks(own uint16) []uint16 {
	r := en.r
	ext := []uint16{1, 2, 3, 4, 5, 6}
	sib := []uint16{11, 12}
	out := []uint16{own}
	if scopeOf(own) != "i" {
		out = append(out, 0)
	}
	if scopeOf(own) != "e" {
		out = append(out, ext[r.Intn(len(ext))])
	}
	if scopeOf(own) != "s" {
		out = append(out, sib[r.Intn(len(sib))])
	}
	return out
}

func (en *engine) headroom() int {
	switch en.r.Intn(10) {
	case 0:
		return 600
	case 1:
		return 1232
	}
	return 512
}

func main() {
	e := vlib.Init()
	r := vlib.NewRand(uint64(e.Seed))
	en := &engine{e: e, r: r, slowSeen: map[string]int{}}
	en.g = &gen{r: r, b: newBuilder(r)}
	en.dvs = []*dpVar{newDPVar(false, true, false), newDPVar(true, false, false),
		newDPVar(true, true, true), newDPVar(false, false, true)}
	e.Rule = "streams: (1) packets valid at this router for every forwarding case (transit, inbound, outbound, " +
		"AS-transit in/out, cross-over, peering, one-hop in/out, BFD on empty/one-hop path; SCION and EPIC; all 16x16 " +
		"source/destination address types; paths up to 64 hops; sizes up to the buffer), (2) the same with exactly one " +
		"flaw per router check (23 flaws -> every SCMP error the router can emit) x offender payload kinds incl. every SCMP class, " +
		"(3) single-field corruptions, (4) every truncation offset, (5) length-field lies (HdrLen, slack, PayloadLen, SegLen, " +
		"ExtLen, option length, address length), (6) random bytes incl. STUN requests/cookies/attribute chains and a deterministic sweep of structured STUN messages (every attribute-length residue, every cut inside the last attribute and its padding, honest/lying message length); each on internal, sibling " +
		"(connected and detached) and external links, 4 data planes (SCMP authentication on/off, IPv4/IPv6 router address). " +
		"Every datagram goes link.receive -> computeProcID -> processPkt -> slow path as in the router. " +
		"non-trivial = reached the fast path and was not discarded (or STUN reply); distinct by (data plane, link, bytes)"

	if f := os.Getenv("VERIF_SCMP_EPICPTR"); f != "" {
		// one concrete EPIC packet with a bad hop MAC and the router's answer (report to the lead)
		for i := 0; i < 2000; i++ {
			sc := en.g.flawed(flawTable[0], false)
			if sc.ptype != "epic" || sc.l4 != l4UDP || sc.kind != "transit" {
				continue
			}
			raw, lay := en.g.b.build(sc)
			dv := en.dvs[0]
			o := dv.run(raw, sc.link, 512, true)
			if o.res.Disp != "slow" || o.res.SlowErr != nil {
				continue
			}
			at, _ := parsePkt(o.res.AtSlow)
			doc := map[string]any{"raw": hex.EncodeToString(raw), "link": sc.link, "dp": dv.name,
				"scmp_out": hex.EncodeToString(o.res.Out), "request": fmt.Sprintf("%d/%d", o.res.SpType, o.res.SpCode),
				"pointer_in_message": o.res.SpPtr,
				"offset_of_current_hop_field_in_packet": lay.pathOff + 4 + 8*lay.numINF + 12*int(at.rawPath.PathMeta.CurrHF),
				"epic_header_bytes_ignored": 16, "scenario": sc.String()}
			b, _ := json.MarshalIndent(doc, "", " ")
			_ = os.WriteFile(f, b, 0o644)
			fmt.Println(string(b))
			return
		}
		return
	}
	if os.Getenv("VERIF_SCMP_DEBUG") != "" {
		_ = log.Setup(log.Config{Console: log.ConsoleConfig{Level: "debug"}})
		for i := 0; i < 400; i++ {
			sc := en.g.valid(validKinds[i%7], false)
			raw, _ := en.g.b.build(sc)
			o := en.dvs[0].run(raw, sc.link, 512, false)
			if o.res.Disp != sc.expDisp {
				fmt.Println("MISMATCH", sc, o.stage, o.res.Disp)
			}
		}
		return
	}
	if e.Replay != "" {
		en.replay(e.Replay)
		en.finish()
		return
	}

	// finite tables
	en.tables()

	// (1) valid packets
	nValid := e.N(2500, 20000)
	type kept struct {
		raw  []byte
		lay  *layout
		sc   *scen
		link uint16
	}
	var corpus []kept
	for i := 0; i < nValid; i++ {
		kind := validKinds[i%len(validKinds)]
		sc := en.g.valid(kind, r.Chance(15))
		if r.Chance(8) && sc.ptype != "ohp" && sc.ptype != "empty" && sc.kind != "peer" {
			// router alert + traceroute request
			sc.l4, sc.ext = l4TrReq, ""
			if sc.kind == "outbound" || r.Bool() && sc.kind != "inbound" {
				sc.alertEg = true
				if sc.kind == "astin" {
					sc.expDisp = "forward" // the egress router is the sibling
				} else {
					sc.expDisp = "slow"
				}
			} else {
				sc.alertIn = true
				sc.expDisp = "slow"
				if sc.kind == "outbound" || sc.kind == "astout" {
					sc.expDisp = "forward"
				}
			}
			if r.Chance(40) {
				sc.ext = "a"
			} else if r.Chance(15) {
				sc.ext = "ax"
			}
		}
		if sc.kind == "inbound" && (sc.l4 == l4ScmpUnknownInfo) {
			sc.l4 = l4UDP
		}
		raw, lay := en.g.b.build(sc)
		dv := en.pickDP()
		authKnown := sc.ext == "a" || sc.ext == "ax" || sc.ext == ""
		en.feed(dv, raw, sc.link, en.headroom(), sc, "valid", sc.kind, authKnown, sc.ext == "a")
		if len(corpus) < 4000 {
			corpus = append(corpus, kept{raw, lay, sc, sc.link})
		}
	}
	// address-type sweep: all 16x16 (source, destination) types on packets valid up to the
	// address checks, from every link kind
	for st := 0; st < 16; st++ {
		for dt := 0; dt < 16; dt++ {
			for _, kind := range []string{"outbound", "inbound", "transit", "astout", "ohp-out", "ohp-in"} {
				sc := en.g.valid(kind, false)
				sc.ext = ""
				sc.l4 = l4UDP
				if sc.ptype == "epic" {
					sc.ptype = "scion"
				}
				sc.srcT, sc.dstT = slayers.AddrType(st), slayers.AddrType(dt)
				sc.srcRaw = rawAddr(sc.srcT, false, addr.SvcCS)
				sc.dstRaw = rawAddr(sc.dstT, true, addr.SvcCS)
				sc.expDisp = ""
				raw, _ := en.g.b.build(sc)
				en.feed(en.pickDP(), raw, sc.link, 512, sc, "addrsweep", kind, true, false)
			}
		}
	}

	// (2) one flaw each
	nFlaw := e.N(6000, 60000)
	for i := 0; i < nFlaw; i++ {
		f := flawTable[i%len(flawTable)]
		sc := en.g.flawed(f, r.Chance(20))
		if i%7 == 0 {
			sc.ext = []string{"h", "e", "he"}[r.Intn(3)]
		}
		raw, lay := en.g.b.build(sc)
		dv := en.pickDP()
		en.feed(dv, raw, sc.link, en.headroom(), sc, "flaw", f.name, true, false)
		if len(corpus) < 8000 && i%3 == 0 {
			corpus = append(corpus, kept{raw, lay, sc, sc.link})
		}
	}
	// longest paths x largest offenders x every SCMP type x auth: the size bound
	for _, nh := range []int{62, 63, 64} {
		for _, f := range flawTable {
			for _, dv := range en.dvs {
				sc := en.g.flawed(f, true)
				if sc.kind == "peer" {
					continue
				}
				// stretch the last segment so that the path has nh hops
				tot := sc.numHops()
				if nh > tot && len(sc.segs) > 0 {
					last := len(sc.segs) - 1
					if sc.segs[last].n+nh-tot <= 63 {
						if sc.kind == "inbound" {
							sc.cur += nh - tot
						}
						sc.segs[last].n += nh - tot
					}
				}
				sc.srcT = slayers.T16Ip
				sc.srcRaw = rawAddr(sc.srcT, false, 0)
				if f.name == "srchost-type" || f.name == "srchost-4in6" {
					continue
				}
				sc.pld = 8300 - 12*nh
				raw, _ := en.g.b.build(sc)
				en.feed(dv, raw, sc.link, 512, sc, "flaw-max", f.name, true, false)
			}
		}
	}

	// (3) single-field corruptions, (5) length lies
	nMut := e.N(60000, 600000)
	for i := 0; i < nMut; i++ {
		k := corpus[r.Intn(len(corpus))]
		var raw []byte
		var what, stream string
		if i%3 == 2 {
			raw, what = lengthLie(r, k.raw, k.lay)
			stream = "lenlie"
		} else {
			raw, what = corruptField(r, k.raw, k.lay)
			stream = "corrupt"
		}
		links := en.otherLinks(k.link)
		link := links[0]
		if r.Chance(30) {
			link = links[r.Intn(len(links))]
		}
		en.feed(en.pickDP(), raw, link, en.headroom(), nil, stream, what+" of "+k.sc.kind+"/"+k.sc.flaw, false, false)
	}

	// (4) every truncation offset of a sample of packets (all offsets up to 400, then strided)
	nTrunc := e.N(60, 600)
	for i := 0; i < nTrunc; i++ {
		k := corpus[r.Intn(len(corpus))]
		links := en.otherLinks(k.link)
		for cut := 0; cut < len(k.raw); cut++ {
			if cut > 400 && cut%37 != 0 && cut != len(k.raw)-1 {
				continue
			}
			link := links[cut%len(links)]
			en.feed(en.pickDP(), k.raw[:cut], link, 512, nil, "trunc", fmt.Sprintf("cut %d of %s", cut, k.sc.kind), false, false)
		}
	}

	// (6a) structured STUN: every attribute-length residue, every cut inside the last attribute and
	// inside its padding, honest and lying message length — on the internal link of every data
	// plane and once on an external and a sibling link
	for i, m := range stunSweep(r) {
		dv := en.dvs[i%len(en.dvs)]
		en.feed(dv, m.raw, 0, 512, nil, "stun", m.what, false, false)
		if i%9 == 0 {
			en.feed(dv, m.raw, []uint16{1, 11, 12, 5}[(i/9)%4], 512, nil, "stun", m.what, false, false)
		}
		en.stunOp(m.raw)
	}
	// (6) random bytes incl. STUN
	nRand := e.N(40000, 400000)
	links := []uint16{0, 0, 0, 1, 2, 5, 11, 12}
	for i := 0; i < nRand; i++ {
		raw, what := randomBytes(r)
		link := links[r.Intn(len(links))]
		dv := en.pickDP()
		en.feed(dv, raw, link, 512, nil, "random", what, false, false)
		if strings.HasPrefix(what, "stun") || (i%16 == 0 && len(raw) <= 200) {
			en.stunOp(raw)
		}
		if i%4 == 0 && len(raw) <= 120 {
			seed := udpip.VerifScmpLinkSeed(dv.v.Link(link))
			ans, _ := vlib.Safe(func() string {
				id, ok := udpip.VerifScmpComputeProcID(raw, nproc, seed)
				if ok {
					return fmt.Sprintf("ok %d", id)
				}
				return "no"
			})
			tg := "pid/" + ans[:2]
			e.Op(fmt.Sprintf("pid %d %d %s", nproc, seed, vlib.Hex(raw)), ans, tg)
		}
	}
	en.finish()
}

// stunOp compares the real STUN parser's decision with the model's.
func (en *engine) stunOp(raw []byte) {
	ans := ""
	var err error
	if pn, okp := vlib.Safe(func() string { _, err = stun.ParseBindingRequest(raw); return "" }); !okp {
		err = errors.New(pn)
		ans = "PANIC"
	}
	switch {
	case ans == "PANIC":
	case err == nil || errors.Is(err, stun.ErrWrongFingerprint):
		ans = fmt.Sprintf("crc %d", len(raw)-8)
	case errors.Is(err, stun.ErrNotSTUN):
		ans = "notstun"
	case errors.Is(err, stun.ErrNotBindingRequest):
		ans = "notbinding"
	case errors.Is(err, stun.ErrMalformedAttrs):
		ans = "malformed"
	case errors.Is(err, stun.ErrNoFingerprint):
		ans = "nofp"
	default:
		ans = "other-error"
	}
	tg := "stun/" + strings.Fields(ans)[0]
	if ans == "notstun" {
		tg = "~stun/notstun"
	}
	en.e.Op("stun "+vlib.Hex(raw), ans, tg)
}

// tables ties the finite tables of the model exhaustively.
func (en *engine) tables() {
	e := en.e
	for t := 0; t < 256; t++ {
		e.Op(fmt.Sprintf("hs %d", t), fmt.Sprintf("%d", slayers.ScmpHeaderSize(slayers.SCMPType(t))), "tbl/hs")
	}
	for t := 0; t < 16; t++ {
		_, err := slayers.ParseAddr(slayers.AddrType(t), make([]byte, 16))
		e.Op(fmt.Sprintf("al %d", t), fmt.Sprintf("%d %d", slayers.AddrType(t).Length(), b2i(err == nil)), "tbl/al")
	}
	// info block sizes as serialised by the real layers
	ser := func(l gopacket.SerializableLayer) int {
		b := gopacket.NewSerializeBuffer()
		if err := l.SerializeTo(b, gopacket.SerializeOptions{}); err != nil {
			panic(err)
		}
		return len(b.Bytes())
	}
	for t, l := range map[int]gopacket.SerializableLayer{
		1: &slayers.SCMPDestinationUnreachable{}, 4: &slayers.SCMPParameterProblem{},
		5: &slayers.SCMPExternalInterfaceDown{}, 6: &slayers.SCMPInternalConnectivityDown{},
		131: &slayers.SCMPTraceroute{}} {
		e.Op(fmt.Sprintf("ib %d", t), fmt.Sprintf("%d", ser(l)), "tbl/ib")
	}
}

func (en *engine) finish() {
	e := en.e
	e.Extra["generator_expectation_mismatches"] = en.genMismatch
	e.Extra["generator_mismatch_samples"] = en.mismatchLog
	e.Extra["slow_path_requests"] = en.slowSeen
	e.Extra["slow_path_emitted"] = en.scmpEmitted
	e.Extra["errors_serialised_in_headroom"] = en.placeFront
	e.Extra["errors_packed_at_buffer_end"] = en.placeEnd
	e.Extra["errors_of_exactly_1232_bytes"] = en.atLimit
	e.Extra["slow_path_inputs_with_consistent_pointers"] = en.consistPre
	e.Finish()
}

// replay re-runs the failing input of a replay file written by ../check.
func (en *engine) replay(file string) {
	b, err := os.ReadFile(file)
	if err != nil {
		panic(err)
	}
	var doc struct {
		FailingInput struct {
			Replay map[string]any `json:"replay"`
		} `json:"failing_input"`
		Other []struct {
			Replay map[string]any `json:"replay"`
		} `json:"other_failing_inputs"`
	}
	if err := json.Unmarshal(b, &doc); err != nil {
		panic(err)
	}
	one := func(m map[string]any) {
		if m == nil {
			return
		}
		rawS, _ := m["raw"].(string)
		raw, _ := hex.DecodeString(rawS)
		link := uint16(0)
		if f, ok := m["link"].(float64); ok {
			link = uint16(f)
		}
		hr := 512
		if f, ok := m["headroom"].(float64); ok {
			hr = int(f)
		}
		name, _ := m["dp"].(string)
		for _, dv := range en.dvs {
			if dv.name == name || name == "" {
				en.feed(dv, raw, link, hr, nil, "replay", "replay", false, false)
			}
		}
	}
	one(doc.FailingInput.Replay)
	for _, o := range doc.Other {
		one(o.Replay)
	}
}
