package main

import (
	"fmt"
	"net"
	"net/netip"

	"github.com/scionproto/scion/pkg/addr"
	"github.com/scionproto/scion/pkg/slayers"
	"github.com/scionproto/scion/private/topology"
	"github.com/scionproto/scion/router"
	"github.com/scionproto/scion/router/underlayproviders/udpip"
)

// The AS under test: one router with five own external interfaces, three interfaces owned by
// two sibling routers, an internal link, one configured service.
var (
	localIA = addr.MustParseIA("1-ff00:0:110")
	hfKey   = []byte("testkey_xxxxxxxx")
)

type ifInfo struct {
	id      uint16
	lt      topology.LinkType
	nb      addr.IA
	remote  string
	sibling bool
	down    bool // BFD session present and not up
}

var ifTable = []ifInfo{
	{1, topology.Parent, addr.MustParseIA("1-ff00:0:1"), "203.0.113.11:30001", false, false},
	{2, topology.Child, addr.MustParseIA("1-ff00:0:2"), "203.0.113.12:30001", false, false},
	{3, topology.Peer, addr.MustParseIA("1-ff00:0:3"), "203.0.113.13:30001", false, false},
	{4, topology.Core, addr.MustParseIA("1-ff00:0:4"), "203.0.113.14:30001", false, false},
	{5, topology.Child, addr.MustParseIA("1-ff00:0:5"), "203.0.113.15:30001", false, true},
	{6, topology.Child, addr.MustParseIA("1-ff00:0:6"), "203.0.113.16:30001", false, false},
	{11, topology.Child, addr.MustParseIA("1-ff00:0:b"), "198.51.100.11:30042", true, false},
	{13, topology.Core, addr.MustParseIA("1-ff00:0:d"), "198.51.100.11:30042", true, false},
	{12, topology.Parent, addr.MustParseIA("1-ff00:0:c"), "198.51.100.12:30042", true, true},
}

func ifByID(id uint16) *ifInfo {
	for i := range ifTable {
		if ifTable[i].id == id {
			return &ifTable[i]
		}
	}
	return nil
}

var (
	svcCSAddr = netip.MustParseAddrPort("198.51.100.20:30652")
	hostSrc   = &net.UDPAddr{IP: net.IP{198, 51, 100, 77}, Port: 31000}
)

const nproc = 4

// dpVar is one configured data plane.
type dpVar struct {
	name     string
	v        *router.VerifScmpDP
	auth     bool
	reuse    bool
	v6       bool
	hostType int
	rawHost  []byte
	pool     router.PacketPool
	count    int
	cfg      router.VerifScmpConfig
}

func newDPVar(auth, reuse, v6 bool) *dpVar {
	d := &dpVar{auth: auth, reuse: reuse, v6: v6}
	d.name = fmt.Sprintf("auth=%v,reuse=%v,v6=%v", auth, reuse, v6)
	internal := "198.51.100.1:30042"
	d.hostType, d.rawHost = int(slayers.T4Ip), []byte{198, 51, 100, 1}
	if v6 {
		internal = "[2001:db8::1]:30042"
		d.hostType = int(slayers.T16Ip)
		a := netip.MustParseAddr("2001:db8::1").As16()
		d.rawHost = a[:]
	}
	cfg := router.VerifScmpConfig{
		LocalIA: localIA, Key: hfKey, Auth: auth, InternalAddr: internal, ReuseLocal: reuse,
		Svc:       map[addr.SVC]netip.AddrPort{addr.SvcCS: svcCSAddr},
		PortStart: 1024, PortEnd: 65535,
	}
	for _, i := range ifTable {
		cfg.Links = append(cfg.Links, router.VerifScmpLink{IfID: i.id, LinkTo: i.lt, Neighbor: i.nb,
			Remote: i.remote, Sibling: i.sibling, BFD: i.down})
	}
	d.cfg = cfg
	d.rebuild()
	return d
}

func (d *dpVar) rebuild() {
	d.v = router.VerifScmpNewDP(d.cfg)
	d.pool = router.VerifScmpEmptyPool(8)
	d.count = 0
}

// result of pushing one datagram through the router
type outcome struct {
	stage string // "intake-drop" | "stun-drop" | "stun-reply" | "fast"
	res   router.VerifScmpResult
	stun  []byte // reply of the STUN branch
	proc  int
	pnc   string // non-empty: the real code panicked
}

// scopeOf is the scope letter of the link a packet arriving "on interface id" uses.
func scopeOf(id uint16) string {
	if id == 0 {
		return "i"
	}
	if ifByID(id).sibling {
		return "s"
	}
	return "e"
}

// run pushes raw through intake (Link.receive → computeProcID), then either the internal link's own
// processor (STUN branch) or processPkt and — on request — the slow path.
func (d *dpVar) run(raw []byte, ingress uint16, headroom int, fresh bool) (o outcome) {
	d.count++
	if d.count > 20000 { // the never-running BFD sessions queue every accepted BFD message
		d.rebuild()
	}
	if fresh {
		d.v.FreshProcessors()
	}
	defer func() {
		if e := recover(); e != nil {
			o.pnc = fmt.Sprintf("PANIC at %s: %v", o.stage, e)
			// the processors may hold broken state now
			d.v.FreshProcessors()
			router.VerifScmpPoolDrain(d.pool)
		}
	}()
	link := d.v.Link(ingress)
	p := d.v.Receive(raw, headroom)
	var src *net.UDPAddr
	switch scopeOf(ingress) {
	case "i":
		src = hostSrc
	default:
		ap := netip.MustParseAddrPort(ifByID(ingress).remote)
		src = net.UDPAddrFromAddrPort(ap)
	}
	o.stage = "intake"
	proc, other := udpip.VerifScmpIntake(link, nproc, d.pool, p, src)
	router.VerifScmpPoolDrain(d.pool)
	o.proc = proc
	if proc < 0 && !other {
		o.stage = "intake-drop"
		return o
	}
	if other {
		o.stage = "stun"
		reply, err := udpip.VerifScmpInternalProcess(link, p)
		if err != nil || !reply {
			o.stage = "stun-drop"
			return o
		}
		o.stage = "stun-reply"
		o.stun = append([]byte(nil), p.RawPacket...)
		return o
	}
	o.stage = "fast"
	o.res = d.v.Process(p)
	return o
}
