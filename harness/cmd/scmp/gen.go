package main

import (
	"encoding/binary"
	"fmt"
	"strings"

	"github.com/scionproto/scion/pkg/addr"
	"github.com/scionproto/scion/pkg/slayers"
	"github.com/scionproto/scion/pkg/stun"

	"verifharness/vlib"
)

var (
	remoteSrcIA = addr.MustParseIA("2-ff00:0:220")
	remoteDstIA = addr.MustParseIA("3-ff00:0:330")
)

// within-segment pairs (ingress, egress) of own external interfaces that validateEgressID admits
var transitPairs = [][2]uint16{{1, 2}, {2, 1}, {4, 4}, {1, 6}, {6, 1}, {2, 3}, {3, 2}}

// cross-over pairs: core-child, child-core, child-child
var xoverPairs = [][2]uint16{{4, 2}, {2, 4}, {2, 6}, {6, 2}, {4, 6}}

type gen struct {
	r *vlib.Rand
	b *builder
}

// shape picks a segment structure with `total`-ish hops and a current hop for the scenario kind.
func (g *gen) segsFor(kind string, long bool) ([]segSpec, int) {
	r := g.r
	pick := func(lo, hi int) int { return r.Range(lo, hi) }
	nseg := pick(1, 3)
	maxTot := 12
	if long {
		maxTot = 64
	}
	var segs []segSpec
	left := maxTot
	for i := 0; i < nseg; i++ {
		rem := nseg - i - 1
		hi := left - 2*rem
		if hi < 2 {
			hi = 2
		}
		if !long && hi > 6 {
			hi = 6
		}
		if hi > 63 {
			hi = 63
		}
		n := pick(2, hi)
		if long && i == nseg-1 && r.Chance(50) {
			n = hi // fill up to the maximum
		}
		segs = append(segs, segSpec{n: n, cons: r.Bool()})
		left -= n
	}
	tot := 0
	for _, s := range segs {
		tot += s.n
	}
	cur := 0
	switch kind {
	case "inbound":
		cur = tot - 1
	case "outbound":
		cur = 0
	case "xover":
		if len(segs) == 1 {
			if tot+2 > 64 {
				segs[0].n -= 2
				tot -= 2
			}
			segs = append(segs, segSpec{n: 2, cons: r.Bool()})
			tot += 2
		}
		k := r.Intn(len(segs) - 1)
		cur = -1
		for i := 0; i <= k; i++ {
			cur += segs[i].n
		}
	case "peer":
		segs = []segSpec{{n: pick(2, 5), cons: false, peer: true}, {n: pick(2, 5), cons: true, peer: true}}
		cur = segs[0].n - 1 + r.Intn(2)
	default: // transit astin astout: a hop that is neither the path's last nor a segment's last
		var cands []int
		start := 0
		for _, s := range segs {
			for h := start; h < start+s.n-1; h++ {
				if kind == "astout" && h == 0 {
					continue
				}
				cands = append(cands, h)
			}
			start += s.n
		}
		if len(cands) == 0 {
			segs = []segSpec{{n: 3, cons: r.Bool()}}
			cands = []int{1}
		}
		cur = cands[r.Intn(len(cands))]
	}
	return segs, cur
}

func (g *gen) hosts(s *scen) {
	r := g.r
	pickT := func() slayers.AddrType {
		if r.Chance(60) {
			return slayers.T4Ip
		}
		if r.Chance(70) {
			return slayers.T16Ip
		}
		return slayers.T4Svc
	}
	s.srcT = pickT()
	if s.srcT == slayers.T4Svc && r.Chance(60) {
		s.srcT = slayers.T4Ip
	}
	s.dstT = pickT()
	s.srcRaw = rawAddr(s.srcT, false, addr.SvcCS)
	s.dstRaw = rawAddr(s.dstT, true, addr.SvcCS)
}

// valid builds a scenario of the given kind without flaw.
func (g *gen) valid(kind string, long bool) *scen {
	r := g.r
	s := &scen{kind: kind, ptype: "scion", expDisp: "forward"}
	if kind == "ohp-out" || kind == "ohp-in" {
		s.ptype = "ohp"
		s.l4 = l4UDP
		s.pld = r.Intn(200)
		g.hosts(s)
		if kind == "ohp-out" {
			own := []uint16{1, 2, 3, 4, 5, 6}
			s.teg = own[r.Intn(len(own))]
			s.link = 0
			s.srcIA, s.dstIA = localIA, ifByID(s.teg).nb
			s.egress = s.teg
		} else {
			own := []uint16{1, 2, 3, 4, 5, 6}
			s.link = own[r.Intn(len(own))]
			s.srcIA, s.dstIA = ifByID(s.link).nb, localIA
			s.dstT, s.dstRaw = slayers.T4Svc, rawAddr(slayers.T4Svc, true, addr.SvcCS)
			s.egress = 0
		}
		return s
	}
	if kind == "bfd-empty" {
		s.ptype, s.l4, s.link = "empty", l4BFD, 12
		s.srcIA, s.dstIA = localIA, localIA
		g.hosts(s)
		s.expDisp = "done"
		return s
	}
	if kind == "bfd-ohp" {
		s.ptype, s.l4, s.link = "ohp", l4BFD, 5
		s.kind = "ohp-in"
		s.srcIA, s.dstIA = ifByID(5).nb, localIA
		g.hosts(s)
		s.expDisp = "done"
		return s
	}
	s.segs, s.cur = g.segsFor(kind, long)
	if r.Chance(25) {
		s.ptype = "epic"
	}
	g.hosts(s)
	s.srcIA, s.dstIA = remoteSrcIA, remoteDstIA
	l4s := []l4Kind{l4UDP, l4UDP, l4TCP, l4Echo, l4EchoReply, l4Unknown, l4ScmpErr, l4ScmpUnknownInfo}
	s.l4 = l4s[r.Intn(len(l4s))]
	s.pld = r.Intn(300)
	exts := []string{"", "", "", "h", "e", "he"}
	s.ext = exts[r.Intn(len(exts))]
	switch kind {
	case "transit":
		p := transitPairs[r.Intn(len(transitPairs))]
		s.tin, s.teg, s.link, s.egress = p[0], p[1], p[0], p[1]
	case "inbound":
		own := []uint16{1, 2, 3, 4, 5, 6}
		s.tin = own[r.Intn(len(own))]
		s.teg, s.link, s.egress = 0, s.tin, 0
		s.dstIA = localIA
		if s.dstT == slayers.T4Svc {
			s.dstRaw = rawAddr(slayers.T4Svc, true, addr.SvcCS)
		}
		s.dport = uint16(r.Range(1, 65535))
	case "outbound":
		own := []uint16{1, 2, 3, 4, 6}
		s.teg = own[r.Intn(len(own))]
		s.tin, s.link, s.egress = 0, 0, s.teg
		s.srcIA = localIA
		if s.srcT == slayers.T4Svc { // a local service as source is legitimate
			s.srcRaw = rawAddr(slayers.T4Svc, false, addr.SvcCS)
		}
	case "astin":
		ps := [][2]uint16{{1, 11}, {4, 13}}
		p := ps[r.Intn(len(ps))]
		s.tin, s.teg, s.link, s.egress = p[0], p[1], p[0], p[1]
	case "astout":
		ps := [][2]uint16{{11, 1}, {13, 4}, {11, 3}}
		p := ps[r.Intn(len(ps))]
		s.tin, s.teg, s.link, s.egress = p[0], p[1], p[0], p[1]
	case "xover":
		p := xoverPairs[r.Intn(len(xoverPairs))]
		s.tin, s.teg, s.link, s.egress = p[0], p[1], p[0], p[1]
	case "peer":
		if s.cur == s.segs[0].n-1 {
			s.tin, s.teg = 2, 3
		} else {
			s.tin, s.teg = 3, 2
		}
		s.link, s.egress = s.tin, s.teg
	}
	return s
}

var validKinds = []string{"transit", "inbound", "outbound", "astin", "astout", "xover", "peer", "ohp-out",
	"ohp-in", "bfd-empty", "bfd-ohp"}

// flaws: name, the kinds it applies to, the model's cause
type flawSpec struct {
	name  string
	kinds []string
	cause string
}

var flawTable = []flawSpec{
	{"badmac", []string{"transit", "inbound", "outbound", "astin", "astout", "xover", "peer"}, "badMac"},
	{"badmac2", []string{"xover"}, "badMac"},
	{"expired", []string{"transit", "inbound", "outbound", "astin", "astout", "xover", "peer"}, "pathExpired"},
	{"wrongingress", []string{"transit", "inbound", "astin", "xover"}, "ingressMismatch"},
	{"pktlen+", []string{"transit", "inbound", "outbound", "astin", "astout", "xover"}, "badPktLen"},
	{"pktlen-", []string{"transit", "inbound", "outbound", "astin", "astout", "xover"}, "badPktLen"},
	{"srcia-local-inbound", []string{"transit", "inbound", "astin", "xover"}, "invalidSrcIA"},
	{"srcia-foreign-outbound", []string{"outbound"}, "invalidSrcIA"},
	{"dstia-local-outbound", []string{"outbound", "astout"}, "invalidDstIA"},
	{"dstia-foreign-lasthop", []string{"inbound"}, "invalidDstIA"},
	{"dstia-local-notlast", []string{"transit", "astin", "xover"}, "invalidDstIA"},
	{"srchost-type", []string{"outbound"}, "invalidSrcHost"},
	{"srchost-4in6", []string{"outbound"}, "invalidSrcHost"},
	{"svc-nobackend", []string{"inbound"}, "noSvcBackend"},
	{"dsthost-type", []string{"inbound"}, "invalidDstHost"},
	{"dsthost-4in6", []string{"inbound"}, "invalidDstHost"},
	{"dsthost-unspec", []string{"inbound"}, "invalidDstHost"},
	{"egress-unknown", []string{"transit", "outbound", "astout", "xover"}, "unknownEgress"},
	{"egress-sibling-from-internal", []string{"outbound", "astout"}, "unknownEgress"},
	{"badpair", []string{"transit", "astin"}, "invalidPath"},
	{"badxover", []string{"xover"}, "invalidSegChange"},
	{"egress-down", []string{"transit", "outbound", "astout", "xover"}, "extIfDown"},
	{"sibling-down", []string{"transit", "xover"}, "intConnDown"},
}

func has(l []string, x string) bool {
	for _, y := range l {
		if y == x {
			return true
		}
	}
	return false
}

// flawed builds a scenario with exactly one flaw.
func (g *gen) flawed(f flawSpec, long bool) *scen {
	r := g.r
	kind := f.kinds[r.Intn(len(f.kinds))]
	s := g.valid(kind, long)
	s.flaw = f.name
	s.expDisp, s.cause = "slow", f.cause
	// offender payload kinds relevant for C09
	l4s := []l4Kind{l4UDP, l4UDP, l4TCP, l4Echo, l4EchoReply, l4TrReq, l4Unknown, l4ScmpErr, l4ScmpErr,
		l4ScmpShort, l4ScmpUnknownInfo, l4ScmpUnknownErr, l4UDPShort}
	s.l4 = l4s[r.Intn(len(l4s))]
	switch r.Intn(6) {
	case 0:
		s.pld = r.Intn(40)
	case 1:
		s.pld = r.Range(900, 1400)
	case 2:
		s.pld = r.Range(1400, 7400)
	default:
		s.pld = r.Intn(1300)
	}
	switch f.name {
	case "wrongingress":
		own := []uint16{1, 2, 3, 4, 5, 6}
		for {
			l := own[r.Intn(len(own))]
			if l != s.tin {
				s.link = l
				break
			}
		}
	case "srcia-local-inbound":
		s.srcIA = localIA
	case "srcia-foreign-outbound":
		s.srcIA = remoteSrcIA
	case "dstia-local-outbound", "dstia-local-notlast":
		s.dstIA = localIA
	case "dstia-foreign-lasthop":
		s.dstIA = remoteDstIA
	case "srchost-type":
		ts := []slayers.AddrType{1, 2, 5, 6, 7, 8, 9, 10, 11, 12, 13, 14, 15}
		s.srcT = ts[r.Intn(len(ts))]
		s.srcRaw = rawAddr(s.srcT, false, 0)
	case "srchost-4in6":
		s.srcT = slayers.T16Ip
		s.srcRaw = []byte{0, 0, 0, 0, 0, 0, 0, 0, 0, 0, 0xff, 0xff, 10, 0, 0, 7}
	case "svc-nobackend":
		s.dstT = slayers.T4Svc
		s.dstRaw = rawAddr(slayers.T4Svc, true, addr.SvcDS)
	case "dsthost-type":
		ts := []slayers.AddrType{1, 2, 5, 6, 7, 8, 9, 10, 11, 12, 13, 14, 15}
		s.dstT = ts[r.Intn(len(ts))]
		s.dstRaw = rawAddr(s.dstT, true, 0)
	case "dsthost-4in6":
		s.dstT = slayers.T16Ip
		s.dstRaw = []byte{0, 0, 0, 0, 0, 0, 0, 0, 0, 0, 0xff, 0xff, 10, 0, 0, 8}
	case "dsthost-unspec":
		if r.Bool() {
			s.dstT, s.dstRaw = slayers.T4Ip, []byte{0, 0, 0, 0}
		} else {
			s.dstT, s.dstRaw = slayers.T16Ip, make([]byte, 16)
		}
	case "egress-unknown":
		s.teg = uint16(r.Range(100, 60000))
	case "egress-sibling-from-internal":
		if r.Chance(70) {
			s.teg = 11
		} else {
			s.teg = 0 // back to the internal network
		}
	case "badpair":
		ps := [][2]uint16{{1, 1}, {1, 4}, {4, 1}, {3, 3}, {1, 3}, {3, 1}, {4, 2}, {2, 2}, {2, 6}, {3, 4}}
		if kind == "astin" {
			ps = [][2]uint16{{4, 11}, {2, 11}, {1, 13}, {3, 13}}
		}
		p := ps[r.Intn(len(ps))]
		s.tin, s.teg, s.link = p[0], p[1], p[0]
	case "badxover":
		ps := [][2]uint16{{1, 2}, {2, 1}, {1, 1}, {4, 4}, {3, 2}, {2, 3}, {1, 4}, {4, 1}, {4, 13}}
		p := ps[r.Intn(len(ps))]
		s.tin, s.teg, s.link = p[0], p[1], p[0]
	case "egress-down":
		s.teg = 5
		if kind == "transit" {
			s.tin, s.link = 1, 1 // parent -> child 5
		}
		if kind == "xover" {
			s.tin, s.link = 4, 4
		}
	case "sibling-down":
		s.teg = 12 // parent link behind sibling 2 whose BFD session is not up
		s.tin, s.link = 2, 2
		if kind == "xover" {
			// child -> parent is not an admissible cross-over; use a same-segment hop instead
			s.kind = "transit"
			s.segs, s.cur = g.segsFor("transit", long)
		}
	}
	if strings.HasPrefix(f.name, "dsthost-") {
		switch s.l4 {
		case l4ScmpShort, l4UDPShort, l4ScmpUnknownInfo, l4ScmpUnknownErr:
			// the destination port is looked up first and that fails: discarded without SCMP
			s.expDisp = ""
		}
	}
	return s
}

// ---------------------------------------------------------------------------------------------
// mutators

// corruptField overwrites one header field of a built packet.
func corruptField(r *vlib.Rand, raw []byte, lay *layout) ([]byte, string) {
	out := append([]byte(nil), raw...)
	if len(out) < 12 {
		return out, "short"
	}
	setB := func(off int, v byte) {
		if off < len(out) {
			out[off] = v
		}
	}
	rb := func() byte {
		switch r.Intn(4) {
		case 0:
			return 0
		case 1:
			return 0xff
		}
		return byte(r.Intn(256))
	}
	switch r.Intn(14) {
	case 0:
		setB(0, rb())
		return out, "version-tc"
	case 1:
		l4 := []byte{0, 6, 17, 200, 201, 202, 203, 253, 254, 1, 0x21}
		setB(4, l4[r.Intn(len(l4))])
		return out, "nexthdr"
	case 2:
		setB(8, byte(r.Intn(6)))
		return out, "pathtype"
	case 3:
		setB(9, rb())
		return out, "addrtypes"
	case 4:
		setB(10+r.Intn(2), rb())
		return out, "rsv"
	case 5:
		off := 12 + r.Intn(lay.addrLen)
		setB(off, rb())
		return out, "addr"
	case 6:
		if lay.ptype == "scion" || lay.ptype == "epic" {
			// meta line: CurrINF/CurrHF/SegLens
			var w uint32
			switch r.Intn(4) {
			case 0:
				w = uint32(r.U64())
			case 1:
				w = binary.BigEndian.Uint32(out[lay.pathOff:])&0x00ffffff | uint32(r.Intn(256))<<24
			case 2:
				w = binary.BigEndian.Uint32(out[lay.pathOff:])&0xff000000 | uint32(r.Intn(1<<18))
			default:
				w = binary.BigEndian.Uint32(out[lay.pathOff:]) ^ 1<<uint(r.Intn(32))
			}
			if lay.pathOff+4 <= len(out) {
				binary.BigEndian.PutUint32(out[lay.pathOff:], w)
			}
			return out, "pathmeta"
		}
		setB(12+lay.addrLen+r.Intn(8), rb())
		return out, "pathbyte"
	case 7:
		if lay.numINF > 0 {
			off := lay.pathOff + 4 + 8*r.Intn(lay.numINF) + r.Intn(8)
			setB(off, rb())
			return out, "infofield"
		}
		setB(12+lay.addrLen+r.Intn(16), rb())
		return out, "pathbyte"
	case 8:
		if lay.numHops > 0 {
			off := lay.pathOff + 4 + 8*lay.numINF + 12*r.Intn(lay.numHops) + r.Intn(12)
			setB(off, rb())
			return out, "hopfield"
		}
		setB(12+lay.addrLen+r.Intn(32), rb())
		return out, "pathbyte"
	case 9:
		if lay.ptype == "epic" {
			setB(12+lay.addrLen+r.Intn(16), rb())
			return out, "epic-hdr"
		}
		fallthrough
	case 10:
		// upper layer / extension bytes
		if lay.hdrLen < len(out) {
			off := lay.hdrLen + r.Intn(min(len(out)-lay.hdrLen, 48))
			setB(off, rb())
		}
		return out, "upper"
	case 11:
		// flip 1..3 random bits anywhere in the header
		for k := r.Range(1, 3); k > 0; k-- {
			off := r.Intn(min(len(out), lay.hdrLen+8))
			out[off] ^= 1 << uint(r.Intn(8))
		}
		return out, "bitflips"
	case 12:
		// router alert bits / flags of a hop field
		if lay.numHops > 0 {
			off := lay.pathOff + 4 + 8*lay.numINF + 12*r.Intn(lay.numHops)
			setB(off, byte(r.Intn(4)))
			return out, "hopflags"
		}
		return out, "noop"
	default:
		setB(r.Intn(len(out)), rb())
		return out, "anybyte"
	}
}

// lengthLie changes one length field: HdrLen, PayloadLen, SegLen, ExtLen, option length.
func lengthLie(r *vlib.Rand, raw []byte, lay *layout) ([]byte, string) {
	out := append([]byte(nil), raw...)
	if len(out) < 12 {
		return out, "short"
	}
	delta := func(v int, max int) int {
		switch r.Intn(6) {
		case 0:
			return 0
		case 1:
			return max
		case 2:
			return v + 1
		case 3:
			if v > 0 {
				return v - 1
			}
			return v + 2
		case 4:
			return v + r.Range(1, 8)
		}
		return r.Intn(max + 1)
	}
	switch r.Intn(7) {
	case 0:
		out[5] = byte(delta(int(out[5]), 255))
		return out, "hdrlen"
	case 1:
		// HdrLen and the bytes agree (slack inserted after the path)
		k := r.Range(1, 4)
		if int(out[5])+k <= 255 && lay.hdrLen <= len(out) {
			ins := make([]byte, 4*k)
			out = append(out[:lay.hdrLen], append(ins, out[lay.hdrLen:]...)...)
			out[5] += byte(k)
		}
		return out, "hdrlen-slack"
	case 2:
		binary.BigEndian.PutUint16(out[6:], uint16(delta(int(binary.BigEndian.Uint16(out[6:])), 65535)))
		return out, "payloadlen"
	case 3:
		if (lay.ptype == "scion" || lay.ptype == "epic") && lay.pathOff+4 <= len(out) {
			w := binary.BigEndian.Uint32(out[lay.pathOff:])
			k := uint(r.Intn(3)) * 6
			v := int(w>>k) & 63
			w = w&^(63<<k) | uint32(delta(v, 63)&63)<<k
			binary.BigEndian.PutUint32(out[lay.pathOff:], w)
			return out, "seglen"
		}
		return out, "noop"
	case 4:
		// ExtLen of the first extension header
		if lay.extLen > 0 && lay.hdrLen+2 <= len(out) {
			out[lay.hdrLen+1] = byte(delta(int(out[lay.hdrLen+1]), 255))
			return out, "extlen"
		}
		return out, "noop"
	case 5:
		// length byte of the first TLV option
		if lay.extLen > 0 && lay.hdrLen+4 <= len(out) {
			out[lay.hdrLen+3] = byte(delta(int(out[lay.hdrLen+3]), 255))
			return out, "optlen"
		}
		return out, "noop"
	default:
		// address type nibble changes the address header length
		out[9] = byte(r.Intn(256))
		return out, "addrlen"
	}
}

// randomBytes: noise, SCION-looking prefixes, STUN.
func randomBytes(r *vlib.Rand) ([]byte, string) {
	switch r.Intn(10) {
	case 9:
		return stunStructured(r), "stun-structured"
	case 0:
		return r.Bytes(r.Intn(40)), "noise-short"
	case 1:
		return r.Bytes(r.Range(40, 300)), "noise"
	case 2:
		// plausible common header, random rest
		b := r.Bytes(r.Range(12, 200))
		l4 := []byte{6, 17, 200, 201, 202, 203, 253, 254}
		b[0] &= 0x0f
		b[4] = l4[r.Intn(len(l4))]
		b[8] = byte(r.Intn(5))
		if r.Bool() {
			b[9] = []byte{0x00, 0x33, 0x03, 0x30, 0x44, 0x40, 0x04}[r.Intn(7)]
		}
		if r.Bool() {
			b[5] = byte((len(b) / 4) - r.Intn(3))
		}
		return b, "scionish"
	case 3:
		var tx stun.TxID
		copy(tx[:], r.Bytes(12))
		return stun.Request(tx), "stun-request"
	case 4:
		var tx stun.TxID
		copy(tx[:], r.Bytes(12))
		b := stun.Request(tx)
		switch r.Intn(5) {
		case 0:
			b = b[:r.Intn(len(b)+1)]
		case 1:
			b[r.Intn(len(b))] ^= 1 << uint(r.Intn(8))
		case 2:
			binary.BigEndian.PutUint16(b[2:], uint16(r.Intn(70000)))
		case 3:
			binary.BigEndian.PutUint16(b[22:], uint16(r.Intn(70000))) // attribute length
		default:
			b = append(b, r.Bytes(r.Intn(24))...)
		}
		return b, "stun-mutated"
	case 5:
		// magic cookie in place, everything else random
		b := r.Bytes(r.Range(8, 120))
		copy(b[4:], []byte{0x21, 0x12, 0xa4, 0x42})
		if r.Bool() {
			b[0] &= 0x3f
		}
		if r.Bool() && len(b) >= 2 {
			b[0], b[1] = 0, 1
		}
		return b, "stun-cookie"
	case 6:
		// STUN with a chain of attributes
		b := []byte{0, 1, 0, 0, 0x21, 0x12, 0xa4, 0x42}
		b = append(b, r.Bytes(12)...)
		for k := r.Intn(5); k > 0; k-- {
			l := r.Intn(13)
			a := make([]byte, 4)
			binary.BigEndian.PutUint16(a, uint16(r.Intn(1<<16)))
			binary.BigEndian.PutUint16(a[2:], uint16(l+r.Intn(3)-1))
			b = append(b, a...)
			b = append(b, r.Bytes((l+3)&^3)...)
		}
		if r.Bool() {
			b = append(b, 0x80, 0x28, 0, 4)
			b = append(b, r.Bytes(4)...)
		}
		binary.BigEndian.PutUint16(b[2:], uint16(len(b)-20))
		return b, "stun-attrs"
	case 7:
		return nil, "empty"
	default:
		return r.Bytes(r.Range(300, 8600)), "noise-long"
	}
}

// ---------------------------------------------------------------------------------------------
// structured STUN messages

type stunMsg struct {
	raw  []byte
	what string
}

func stunHeader(r *vlib.Rand, typ uint16) []byte {
	b := make([]byte, 20)
	binary.BigEndian.PutUint16(b, typ)
	copy(b[4:], []byte{0x21, 0x12, 0xa4, 0x42})
	copy(b[8:], r.Bytes(12))
	return b
}

func stunAttr(typ uint16, val []byte, padded bool) []byte {
	a := make([]byte, 4, 4+len(val)+3)
	binary.BigEndian.PutUint16(a, typ)
	binary.BigEndian.PutUint16(a[2:], uint16(len(val)))
	a = append(a, val...)
	if padded {
		for len(a)%4 != 0 {
			a = append(a, 0)
		}
	}
	return a
}

// stunSweep enumerates binding requests (and a few other types) with 0..2 well-formed leading
// attributes of every length residue and a last attribute of length 0..9 (fingerprint type and
// another one) that is cut at every offset: inside its 4-byte header, inside its value and inside
// its padding; the message length field is honest, or lies (too small, too large, announces the
// uncut size).
func stunSweep(r *vlib.Rand) []stunMsg {
	var out []stunMsg
	for lead := 0; lead <= 2; lead++ {
		for leadLen := 0; leadLen < 4; leadLen++ {
			if lead == 0 && leadLen > 0 {
				continue
			}
			for _, lastTyp := range []uint16{0x8028, 0x8022} {
				for l := 0; l <= 9; l++ {
					hdr := stunHeader(r, 1)
					body := []byte{}
					for k := 0; k < lead; k++ {
						body = append(body, stunAttr(uint16(0x8000+k), r.Bytes(leadLen+4*k), true)...)
					}
					last := stunAttr(lastTyp, r.Bytes(l), true)
					for cut := 0; cut <= len(last); cut++ {
						full := append(append([]byte(nil), body...), last[:cut]...)
						uncut := len(body) + len(last)
						for _, ml := range []int{len(full), uncut, len(full) + 4, 0} {
							if ml != len(full) && (cut+l+lead)%3 != 0 {
								continue // lying lengths on a third of the cases
							}
							m := append(append([]byte(nil), hdr...), full...)
							binary.BigEndian.PutUint16(m[2:], uint16(ml))
							out = append(out, stunMsg{m, fmt.Sprintf("stun-sweep lead=%d/%d last=%#x len=%d cut=%d/%d msglen=%d",
								lead, leadLen, lastTyp, l, cut, len(last), ml)})
						}
					}
				}
			}
		}
	}
	// the same final attributes behind other message types / flag bits
	for _, typ := range []uint16{0x0101, 0x0111, 0x0002, 0x4001, 0x8001} {
		for l := 1; l <= 3; l++ {
			last := stunAttr(0x8022, r.Bytes(l), false)
			m := append(stunHeader(r, typ), last...)
			binary.BigEndian.PutUint16(m[2:], uint16(len(last)))
			out = append(out, stunMsg{m, fmt.Sprintf("stun-sweep type=%#x unpadded len=%d", typ, l)})
		}
	}
	return out
}

// stunStructured is a random member of the same family with longer chains.
func stunStructured(r *vlib.Rand) []byte {
	typ := uint16(1)
	if r.Chance(10) {
		typ = uint16(r.Intn(1 << 14))
	}
	m := stunHeader(r, typ)
	n := r.Intn(6)
	for k := 0; k < n; k++ {
		t := uint16(r.Intn(1 << 16))
		if r.Chance(30) {
			t = 0x8028
		}
		m = append(m, stunAttr(t, r.Bytes(r.Intn(14)), k < n-1 || r.Chance(40))...)
	}
	if n > 0 && r.Chance(40) {
		m = m[:len(m)-r.Intn(min(8, len(m)-20)+1)]
	}
	ml := len(m) - 20
	if r.Chance(25) {
		ml += r.Intn(9) - 4
	}
	binary.BigEndian.PutUint16(m[2:], uint16(ml))
	return m
}
