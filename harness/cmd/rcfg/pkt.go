package main

// Packet construction for engine rcfg: every packet is built from facts chosen first (destination
// class, layer-4 kind, the port the statement derives from it), so the facts are true by
// construction and the real decoder/resolver is what is being examined.

import (
	"encoding/binary"
	"fmt"
	"net/netip"
	"time"

	"github.com/gopacket/gopacket"

	"github.com/scionproto/scion/pkg/addr"
	"github.com/scionproto/scion/pkg/scrypto"
	"github.com/scionproto/scion/pkg/slayers"
	"github.com/scionproto/scion/pkg/slayers/path"
	"github.com/scionproto/scion/pkg/slayers/path/empty"
	"github.com/scionproto/scion/pkg/slayers/path/scion"

	"verifharness/vlib"
)

type dstFacts struct {
	class string // ip (routable), unspec, v4mapped, svc, bad
	ip    netip.Addr
	svc   uint16
}

type pkt struct {
	kind   string
	dstTok string
	proto  int
	l4     []byte
	quote  string
	raw    []byte
	dst    dstFacts
	// what the statement derives (by construction)
	derived int  // >= 0: "the layer-4 port derived from the packet"; -1: none
	deflt   bool // documented default-port kinds (echo/traceroute request, other protocols)
	guard   bool // the statement leaves room (DESIGN 7a): no demand
	// outer header, for rebuilding the same packet with a real path
	dstType slayers.AddrType
	rawDst  []byte
	nh      int
	body    []byte
}

// withPath returns the same packet carried over a valid two-hop path entering through ifID.
func (p *pkt) withPath(ifID uint16) []byte {
	return buildSCIONPath(p.dstType, p.rawDst, p.nh, p.body, ifID)
}

const (
	kUDP = iota
	kTCP
	kEchoRep
	kTrRep
	kErrUDP
	kErrEchoReq
	kErrTrReq
	kEchoReq
	kTrReq
	kOther
	kUDPShort
	kTCPShort
	kSCMPShort
	kEchoRepShort
	kTrRepShort
	kErrHdrShort
	kErrNoQuote
	kErrUDP0
	kErrInfoOther
	kErrErr
	kErrEchoTrunc
	kErrTCP
	kErrGarbage
	kErrUDPTrunc
	kSCMPUnknown
	kUDPHbh
	kUDPE2e
	kUDPHbhE2e
	kErrUDPHbh
	kTCPE2e
	kEchoRepHbh
	kErrUDPCutPayload
	kErrUDPCutBig
	kErrCutSCION
	numKinds
)

var kindNames = [...]string{"udp", "tcp", "echo-reply", "traceroute-reply", "err-quoting-udp",
	"err-quoting-echo-request", "err-quoting-traceroute-request", "echo-request", "traceroute-request",
	"other-protocol", "udp-short", "tcp-short", "scmp-short", "echo-reply-short", "traceroute-reply-short",
	"err-header-short", "err-nothing-quoted", "err-quoting-udp-port0", "err-quoting-info-other",
	"err-quoting-error", "err-quoting-echo-truncated", "err-quoting-tcp", "err-quoting-garbage",
	"err-quoting-udp-truncated", "scmp-unknown-type", "udp-hbh", "udp-e2e", "udp-hbh-e2e",
	"err-quoting-udp-hbh", "tcp-e2e", "echo-reply-hbh", "err-quoting-udp-payload-cut",
	"err-quoting-big-udp-cut-at-scmp-limit", "err-quoting-cut-scion-header"}

func be16(v int) []byte { return []byte{byte(v >> 8), byte(v)} }

func udpHdr(r *vlib.Rand, src, dst int) []byte {
	pl := r.Bytes(r.Intn(12))
	b := append(be16(src), be16(dst)...)
	b = append(b, be16(8+len(pl))...)
	b = append(b, r.Bytes(2)...)
	return append(b, pl...)
}

func tcpHdr(r *vlib.Rand, src, dst int) []byte {
	b := append(be16(src), be16(dst)...)
	b = append(b, r.Bytes(8)...) // seq, ack
	b = append(b, 0x50, 0x10)    // data offset 5, ACK
	b = append(b, r.Bytes(6)...) // window, checksum, urgent
	return append(b, r.Bytes(r.Intn(9))...)
}

func scmpMsg(typ, code int, body []byte) []byte {
	return append([]byte{byte(typ), byte(code), 0, 0}, body...)
}

func echoBody(r *vlib.Rand, id int) []byte {
	b := append(be16(id), be16(r.Intn(65536))...)
	return append(b, r.Bytes(r.Intn(10))...)
}

func trBody(r *vlib.Rand, id int) []byte {
	b := append(be16(id), be16(r.Intn(65536))...)
	ia := make([]byte, 8)
	binary.BigEndian.PutUint64(ia, uint64(localIA))
	b = append(b, ia...)
	return append(b, r.Bytes(8)...)
}

var errTypes = []int{1, 2, 4, 5, 6}

func errHdrLen(typ int) int {
	switch typ {
	case 5:
		return 16
	case 6:
		return 24
	}
	return 4
}

// buildSCION serialises a SCION packet (empty path) with the given destination and payload.
func buildSCION(dstType slayers.AddrType, rawDst []byte, nh int, payload []byte) []byte {
	s := &slayers.SCION{
		FlowID:      1,
		NextHdr:     slayers.L4ProtocolType(nh),
		PathType:    empty.PathType,
		Path:        empty.Path{},
		DstIA:       localIA,
		SrcIA:       remoteIA,
		DstAddrType: dstType,
		RawDstAddr:  rawDst,
	}
	if err := s.SetSrcAddr(addr.HostIP(netip.MustParseAddr("172.16.4.7"))); err != nil {
		panic(err)
	}
	buf := gopacket.NewSerializeBuffer()
	err := gopacket.SerializeLayers(buf, gopacket.SerializeOptions{FixLengths: true}, s,
		gopacket.Payload(payload))
	if err != nil {
		panic(err)
	}
	return append([]byte(nil), buf.Bytes()...)
}

var hfKey = []byte("0123456789abcdef")

// buildSCIONPath is buildSCION with a two-hop SCION path whose second (current, last) hop enters
// the local AS through interface ifID and is authenticated with hfKey: a packet the fast path
// accepts as inbound when it is received on that interface.
func buildSCIONPath(dstType slayers.AddrType, rawDst []byte, nh int, payload []byte, ifID uint16) []byte {
	info := path.InfoField{SegID: 0x1234, ConsDir: true, Timestamp: uint32(time.Now().Unix() - 10)}
	hops := []path.HopField{
		{ConsIngress: 0, ConsEgress: 77, ExpTime: 63},
		{ConsIngress: ifID, ConsEgress: 0, ExpTime: 63},
	}
	mac, err := scrypto.InitMac(hfKey)
	if err != nil {
		panic(err)
	}
	hops[1].Mac = path.MAC(mac, info, hops[1], nil)
	dp := &scion.Decoded{
		Base: scion.Base{
			PathMeta: scion.MetaHdr{CurrINF: 0, CurrHF: 1, SegLen: [3]uint8{2, 0, 0}},
			NumINF:   1,
			NumHops:  2,
		},
		InfoFields: []path.InfoField{info},
		HopFields:  hops,
	}
	s := &slayers.SCION{
		FlowID:      1,
		NextHdr:     slayers.L4ProtocolType(nh),
		PathType:    scion.PathType,
		Path:        dp,
		DstIA:       localIA,
		SrcIA:       remoteIA,
		DstAddrType: dstType,
		RawDstAddr:  rawDst,
	}
	if err := s.SetSrcAddr(addr.HostIP(netip.MustParseAddr("172.16.4.7"))); err != nil {
		panic(err)
	}
	buf := gopacket.NewSerializeBuffer()
	err = gopacket.SerializeLayers(buf, gopacket.SerializeOptions{FixLengths: true}, s,
		gopacket.Payload(payload))
	if err != nil {
		panic(err)
	}
	return append([]byte(nil), buf.Bytes()...)
}

// ext wraps l4 in a minimal (4-byte, two Pad1 options) extension header.
func ext(nh int, l4 []byte) []byte { return append([]byte{byte(nh), 0, 0, 0}, l4...) }

// quoted builds the offending packet quoted by an SCMP error.
func quoted(nh int, l4 []byte) []byte {
	return buildSCION(slayers.T4Ip, []byte{172, 16, 4, 7}, nh, l4)
}

func routableDst(r *vlib.Rand) dstFacts {
	if r.Chance(30) {
		var b [16]byte
		copy(b[:], r.Bytes(16))
		b[0] = 0xfd
		return dstFacts{class: "ip", ip: netip.AddrFrom16(b)}
	}
	return dstFacts{class: "ip", ip: ip4(10, byte(r.Intn(256)), byte(r.Intn(256)), byte(1+r.Intn(254)))}
}

func genDst(r *vlib.Rand) dstFacts {
	switch x := r.Intn(100); {
	case x < 68:
		return routableDst(r)
	case x < 71:
		return dstFacts{class: "unspec", ip: ip4(0, 0, 0, 0)}
	case x < 74:
		return dstFacts{class: "unspec", ip: netip.IPv6Unspecified()}
	case x < 78:
		var b [16]byte
		b[10], b[11] = 0xff, 0xff
		copy(b[12:], r.Bytes(4))
		if r.Chance(20) {
			b[12], b[13], b[14], b[15] = 0, 0, 0, 0
		}
		return dstFacts{class: "v4mapped", ip: netip.AddrFrom16(b)}
	case x < 96:
		svcs := []uint16{1, 2, 0x10, 0x8001, 0x8002, 0x8010, 7, 0xffff, 0x7fff, 0}
		return dstFacts{class: "svc", svc: svcs[r.Intn(len(svcs))]}
	default:
		return dstFacts{class: "bad"}
	}
}

// mkPkt builds a packet of the given kind whose derived port (where the kind has one) is port.
func mkPkt(r *vlib.Rand, kind, port int, d dstFacts) *pkt {
	p := &pkt{kind: kindNames[kind], dst: d, derived: -1, quote: "-"}
	other := func() int { return 1 + r.Intn(65535) } // a port that must NOT be used
	errT := errTypes[r.Intn(len(errTypes))]
	errMsg := func(q []byte) []byte {
		return scmpMsg(errT, r.Intn(8), append(r.Bytes(errHdrLen(errT)), q...))
	}
	hdr := 0 // 0 none, 1 hbh, 2 e2e, 3 both
	p.proto = 202
	switch kind {
	case kUDP, kUDPHbh, kUDPE2e, kUDPHbhE2e:
		p.proto, p.l4, p.derived = 17, udpHdr(r, other(), port), port
		hdr = map[int]int{kUDP: 0, kUDPHbh: 1, kUDPE2e: 2, kUDPHbhE2e: 3}[kind]
	case kTCP, kTCPE2e:
		p.proto, p.l4, p.derived = 6, tcpHdr(r, other(), port), port
		if kind == kTCPE2e {
			hdr = 2
		}
	case kEchoRep, kEchoRepHbh:
		p.l4, p.derived = scmpMsg(129, 0, echoBody(r, port)), port
		if kind == kEchoRepHbh {
			hdr = 1
		}
	case kTrRep:
		p.l4, p.derived = scmpMsg(131, 0, trBody(r, port)), port
	case kErrUDP, kErrUDPHbh:
		ql4 := udpHdr(r, port, other())
		q := quoted(17, ql4)
		if kind == kErrUDPHbh {
			q = quoted(200, ext(17, ql4))
		}
		p.l4, p.quote = errMsg(q), fmt.Sprintf("u:%d", port)
		p.derived = port
		if port == 0 {
			p.derived, p.guard = -1, true // treated as truncated and dropped (DESIGN 7a)
		}
	case kErrUDP0:
		p.l4, p.quote, p.guard = errMsg(quoted(17, udpHdr(r, 0, other()))), "u:0", true
	case kErrEchoReq:
		// the statement names only the quoted UDP source port; the quoted echo/traceroute
		// identifier is the documented analogue (router-port-dispatch.rst) and what the code does
		p.l4, p.quote = errMsg(quoted(202, scmpMsg(128, 0, echoBody(r, port)))), fmt.Sprintf("m:128:%d", port)
		p.derived = port
	case kErrTrReq:
		p.l4, p.quote = errMsg(quoted(202, scmpMsg(130, 0, trBody(r, port)))), fmt.Sprintf("m:130:%d", port)
		p.derived = port
	case kEchoReq:
		p.l4, p.deflt = scmpMsg(128, 0, echoBody(r, port)), true
	case kTrReq:
		p.l4, p.deflt = scmpMsg(130, 0, trBody(r, port)), true
	case kOther:
		p.proto = []int{0, 203, 99, 253, 1, 58}[r.Intn(6)]
		p.l4, p.deflt = udpHdr(r, other(), port), true
	case kUDPShort:
		p.proto, p.l4 = 17, udpHdr(r, other(), port)[:r.Intn(8)]
	case kTCPShort:
		p.proto, p.l4 = 6, tcpHdr(r, other(), port)[:r.Intn(20)]
	case kSCMPShort:
		p.l4 = scmpMsg(129, 0, echoBody(r, port))[:r.Intn(4)]
	case kEchoRepShort:
		p.l4 = scmpMsg(129, 0, echoBody(r, port)[:r.Intn(4)])
	case kTrRepShort:
		p.l4 = scmpMsg(131, 0, trBody(r, port)[:r.Intn(20)])
	case kErrHdrShort:
		p.l4 = scmpMsg(errT, 0, r.Bytes(r.Intn(errHdrLen(errT))))
	case kErrNoQuote:
		p.l4 = scmpMsg(errT, 0, r.Bytes(errHdrLen(errT)))
	case kErrInfoOther:
		t := []int{129, 131}[r.Intn(2)]
		body := echoBody(r, port)
		if t == 131 {
			body = trBody(r, port)
		}
		p.l4, p.quote = errMsg(quoted(202, scmpMsg(t, 0, body))), fmt.Sprintf("m:%d:%d", t, port)
	case kErrErr:
		t := errTypes[r.Intn(len(errTypes))]
		inner := scmpMsg(t, 0, append(r.Bytes(errHdrLen(t)), quoted(17, udpHdr(r, port, other()))...))
		p.l4, p.quote = errMsg(quoted(202, inner)), fmt.Sprintf("m:%d:-", t)
	case kErrEchoTrunc:
		t := []int{128, 130}[r.Intn(2)]
		n := r.Intn(4)
		if t == 130 {
			n = r.Intn(20)
		}
		p.l4, p.quote = errMsg(quoted(202, scmpMsg(t, 0, trBody(r, port)[:n]))), fmt.Sprintf("m:%d:-", t)
	case kErrTCP:
		p.l4 = errMsg(quoted(6, tcpHdr(r, port, other())))
	case kErrGarbage:
		p.l4 = errMsg(r.Bytes(1 + r.Intn(11))) // shorter than a SCION common header
	case kErrUDPTrunc:
		p.l4 = errMsg(quoted(17, udpHdr(r, port, other())[:r.Intn(8)]))
	case kErrUDPCutPayload:
		// the quote ends inside the UDP payload: the UDP header is intact, so the source port is
		// there to be used (only a missing/short UDP HEADER makes it unavailable)
		ql4 := append(udpHdr(r, port, other())[:8], r.Bytes(8+r.Intn(40))...)
		ql4[4], ql4[5] = byte(len(ql4)>>8), byte(len(ql4))
		q := quoted(17, ql4)
		cut := 1 + r.Intn(len(ql4)-8) // bytes of payload removed, at least one, at most all
		p.l4, p.quote = errMsg(q[:len(q)-cut]), fmt.Sprintf("u:%d", port)
		p.derived = port
		if port == 0 {
			p.derived, p.guard = -1, true
		}
	case kErrUDPCutBig:
		// a 1400-byte datagram quoted up to the SCMP size limit (what a router emits for a
		// realistic large offending packet)
		ql4 := append(udpHdr(r, port, other())[:8], r.Bytes(1392)...)
		ql4[4], ql4[5] = byte(len(ql4)>>8), byte(len(ql4))
		q := quoted(17, ql4)
		room := 1232 - 36 - 4 - errHdrLen(errT) // SCMP limit minus outer SCION header (IPv4 hosts), SCMP header
		if room < len(q) {
			q = q[:room]
		}
		p.l4, p.quote = errMsg(q), fmt.Sprintf("u:%d", port)
		p.derived = port
		if port == 0 {
			p.derived, p.guard = -1, true
		}
	case kErrCutSCION:
		// the quote ends inside the quoted SCION header: nothing to derive a port from
		q := quoted(17, udpHdr(r, port, other()))
		p.l4 = errMsg(q[:12+r.Intn(24)]) // quoted header is 36 bytes
	case kSCMPUnknown:
		t := []int{0, 3, 7, 100, 127, 132, 200, 255}[r.Intn(8)]
		p.l4 = scmpMsg(t, 0, append(r.Bytes(4), quoted(17, udpHdr(r, port, other()))...))
	default:
		panic("kind")
	}
	body, nh := p.l4, p.proto
	switch hdr {
	case 1:
		body, nh = ext(p.proto, p.l4), 200
	case 2:
		body, nh = ext(p.proto, p.l4), 201
	case 3:
		body, nh = ext(201, ext(p.proto, p.l4)), 200
	}
	switch d.class {
	case "ip", "unspec", "v4mapped":
		t := slayers.T4Ip
		if d.ip.Is6() {
			t = slayers.T16Ip
		}
		p.dstTok = "ip:" + vlib.Hex(d.ip.AsSlice())
		p.dstType, p.rawDst = t, d.ip.AsSlice()
	case "svc":
		p.dstTok = fmt.Sprintf("s:%d", d.svc)
		p.dstType, p.rawDst = slayers.T4Svc, []byte{byte(d.svc >> 8), byte(d.svc), 0, 0}
	default:
		p.dstTok = "x"
		t := []slayers.AddrType{0b0001, 0b0010, 0b0101, 0b0111, 0b1000, 0b1100}[r.Intn(6)]
		p.dstType, p.rawDst = t, r.Bytes(t.Length())
	}
	p.nh, p.body = nh, body
	p.raw = buildSCION(p.dstType, p.rawDst, nh, body)
	return p
}

// genPkt draws a kind (well-formed kinds weighted up) and a destination.
func genPkt(r *vlib.Rand, port, s, e int, cs []call) *pkt {
	var kind int
	switch x := r.Intn(100); {
	case x < 22:
		kind = kUDP
	case x < 30:
		kind = kTCP
	case x < 37:
		kind = kEchoRep
	case x < 43:
		kind = kTrRep
	case x < 51:
		kind = kErrUDP
	case x < 55:
		kind = kErrEchoReq
	case x < 59:
		kind = kErrTrReq
	case x < 64:
		kind = kErrUDPCutPayload
	case x < 66:
		kind = kErrUDPCutBig
	default:
		kind = kEchoReq + r.Intn(numKinds-kEchoReq)
	}
	d := genDst(r)
	if d.class == "svc" && r.Chance(60) {
		// prefer a service that has (had) a registration, addressed plainly or as multicast
		var regs []uint16
		for _, c := range cs {
			if c.kind == "A" {
				regs = append(regs, c.svc)
			}
		}
		if len(regs) > 0 {
			d.svc = regs[r.Intn(len(regs))]
			if r.Chance(30) {
				d.svc |= 0x8000
			}
		}
	}
	return mkPkt(r, kind, port, d)
}
