// Engine "rcfg" (C11, C17): ties lean/Scion/Model/Resolve.lean and lean/Scion/Model/Plumb.lean to
// the router's configuration path (Connector -> dataPlane -> udpip provider -> internal link /
// conn.Config) and evaluates the C11 / C17 property predicates directly on the implementation.
//
// Everything goes through the real configuration calls (router.NewConnector, Connector.SetPortRange,
// AddInternalInterface, AddExternalInterface, AddSvc, ..., and control.IACtx.Configure for the
// real start-up order from topology.json + router TOML) with a spy ConnOpener; resolution goes
// through the real resolveLocalDst -> internalLink.Resolve (hook router.VerifCfgResolve).
package main

import (
	"fmt"
	"net"
	"net/netip"
	"os"
	"path/filepath"
	"runtime"
	"runtime/debug"
	"sort"
	"strconv"
	"strings"
	"sync"
	"sync/atomic"
	"syscall"

	"github.com/scionproto/scion/pkg/addr"
	"github.com/scionproto/scion/pkg/segment/iface"
	libconfig "github.com/scionproto/scion/private/config"
	"github.com/scionproto/scion/private/env"
	"github.com/scionproto/scion/private/topology"
	"github.com/scionproto/scion/private/underlay/conn"
	"github.com/scionproto/scion/router"
	"github.com/scionproto/scion/router/config"
	"github.com/scionproto/scion/router/control"
	"github.com/scionproto/scion/router/underlayproviders/udpip"

	"verifharness/vlib"
)

const endhostPort = 30041 // the statement's "default end-host port 30041"

var (
	localIA  = addr.MustParseIA("1-ff00:0:110")
	remoteIA = addr.MustParseIA("1-ff00:0:120")
	intAddr  = "10.0.0.1:30042"
	aliasUL  = "verifcfg2" // second registration of the real udpip factory (see hook)
)

// ---------------------------------------------------------------------------------------------
// spy ConnOpener

type opened struct {
	Underlay string `json:"underlay"`
	Local    string `json:"local"`
	Remote   string `json:"remote"`
	Internal bool   `json:"internal"`
	Rcv      int    `json:"rcv"`
	Snd      int    `json:"snd"`
}

type spy struct {
	underlay string
	reuse    bool
	log      *[]opened
}

type fakeConn struct{}

func (fakeConn) ReadBatch(conn.Messages) (int, error)       { select {} }
func (fakeConn) WriteBatch(conn.Messages, int) (int, error) { return 0, nil }
func (fakeConn) Close() error                               { return nil }

func (s *spy) Open(l, r netip.AddrPort, c *conn.Config) (router.BatchConn, error) {
	if s.log != nil {
		*s.log = append(*s.log, opened{s.underlay, l.String(), r.String(), !r.IsValid(),
			c.ReceiveBufferSize, c.SendBufferSize})
	}
	return fakeConn{}, nil
}
func (s *spy) UDPCanReuseLocal() bool { return s.reuse }

// worker: cases are generated sequentially (all randomness from the seed) and executed by a pool
// of workers, because building a Connector copies the 1.6 MB dataPlane value and costs ~10 ms.
// Every worker has its own registration of the real udpip factory under its own name, with its own
// spy, whose log is re-pointed per router.
type worker struct {
	alias    string
	aliasSpy *spy
}

var workers []*worker

func initWorkers() {
	// one worker by default: building a Connector is bound by page faults on the 2 MB dataPlane
	// value, which do not parallelise (measured: 1 worker 32 s, 4 workers 57 s for the same cases)
	n := 1
	_ = runtime.NumCPU
	if v, err := strconv.Atoi(os.Getenv("RCFG_WORKERS")); err == nil && v > 0 {
		n = v
	}
	for i := 0; i < n; i++ {
		w := &worker{alias: fmt.Sprintf("%s-%d", aliasUL, i)}
		w.aliasSpy = &spy{underlay: w.alias, reuse: true}
		udpip.VerifCfgRegisterAlias(w.alias, w.aliasSpy)
		workers = append(workers, w)
	}
}

// sink buffers what a case wants to report; replayed into the Env in case order.
type sink struct{ acts []func(e *vlib.Env) }

func (s *sink) Op(a, b, c string) { s.acts = append(s.acts, func(e *vlib.Env) { e.Op(a, b, c) }) }
func (s *sink) Sample(x any)      { s.acts = append(s.acts, func(e *vlib.Env) { e.Sample(x) }) }
func (s *sink) Case(a, b string, t bool) {
	s.acts = append(s.acts, func(e *vlib.Env) { e.Case(a, b, t) })
}
func (s *sink) Violate(k, w string, r any) {
	s.acts = append(s.acts, func(e *vlib.Env) { e.Violate(k, w, r) })
}

type job func(w *worker, s *sink)

// runJobs executes the jobs on the worker pool and replays their reports in job order.
func runJobs(e *vlib.Env, jobs []job) {
	sinks := make([]*sink, len(jobs))
	var wg sync.WaitGroup
	next := int64(-1)
	for _, w := range workers {
		wg.Add(1)
		go func(w *worker) {
			defer wg.Done()
			for {
				i := int(atomic.AddInt64(&next, 1))
				if i >= len(jobs) {
					return
				}
				s := &sink{}
				func() {
					defer func() {
						if x := recover(); x != nil {
							s.Violate("harness/panic", fmt.Sprintf("PANIC in case %d: %v", i, x), nil)
						}
					}()
					jobs[i](w, s)
				}()
				sinks[i] = s
			}
		}(w)
	}
	wg.Wait()
	for _, s := range sinks {
		for _, a := range s.acts {
			a(e)
		}
	}
}

// ---------------------------------------------------------------------------------------------
// configuration calls

type call struct {
	kind string // P I E E2 N N2 K A D
	s, e int
	svc  uint16
	ip   netip.Addr
	port uint16
}

func (c call) tok() string {
	switch c.kind {
	case "P":
		return fmt.Sprintf("P:%d:%d", c.s, c.e)
	case "A", "D":
		return fmt.Sprintf("%s:%d:%s:%d", c.kind, c.svc, vlib.Hex(c.ip.AsSlice()), c.port)
	}
	return c.kind
}

func toks(cs []call) string {
	if len(cs) == 0 {
		return "-"
	}
	t := make([]string, len(cs))
	for i, c := range cs {
		t[i] = c.tok()
	}
	return strings.Join(t, ",")
}

type rtr struct {
	w       *worker
	c       *router.Connector
	log     []opened
	nextIf  uint16
	errs    []string
	firstUL map[string]string // underlay name -> kind of the call that instantiated it
	extIfs  []uint16          // interface ids of the external links that were created
	hasKey  bool
}

func newRouter(w *worker, rc config.RouterConfig, reuse bool) *rtr {
	r := &rtr{w: w, nextIf: 1, firstUL: map[string]string{"udpip": "make"}}
	r.c = router.NewConnector(rc, env.Features{})
	sp := &spy{underlay: "udpip", reuse: reuse, log: &r.log}
	w.aliasSpy.log = &r.log
	if !router.VerifCfgSetConnOpener(r.c, "udpip", sp) {
		panic("no udpip underlay")
	}
	return r
}

func plainConfig(rcv, snd, batch int, ov [2]*int) config.RouterConfig {
	rc := config.RouterConfig{ReceiveBufferSize: rcv, SendBufferSize: snd, BatchSize: batch,
		NumProcessors: 1, NumSlowPathProcessors: 1,
		DispatchedPortStart: ov[0], DispatchedPortEnd: ov[1]}
	rc.BFD.Disable = true
	return rc
}

func (r *rtr) apply(c call) {
	var err error
	switch c.kind {
	case "P":
		r.c.SetPortRange(uint16(c.s), uint16(c.e))
	case "I":
		ap := netip.MustParseAddrPort(intAddr)
		err = r.c.AddInternalInterface(localIA, addr.HostIP(ap.Addr()), "udpip", intAddr)
	case "E", "E2", "N", "N2":
		id := r.nextIf
		r.nextIf++
		owned := c.kind[0] == 'E'
		prov := "udpip"
		if strings.HasSuffix(c.kind, "2") {
			prov = r.w.alias
		}
		if _, ok := r.firstUL[prov]; !ok {
			r.firstUL[prov] = map[bool]string{true: "ext", false: "nh"}[owned]
		}
		li := control.LinkInfo{
			Provider: prov,
			Local:    control.LinkEnd{IA: localIA, Addr: fmt.Sprintf("192.0.2.1:%d", 40000+int(id))},
			Remote:   control.LinkEnd{IA: remoteIA, Addr: fmt.Sprintf("192.0.2.%d:50000", 10+id)},
			LinkTo:   topology.Core,
			MTU:      1472,
		}
		if !owned {
			li.Local.Addr = intAddr
			li.Remote.Addr = fmt.Sprintf("10.0.0.%d:30042", 10+id)
		}
		lh := addr.HostIP(netip.MustParseAddrPort(li.Local.Addr).Addr())
		rh := addr.HostIP(netip.MustParseAddrPort(li.Remote.Addr).Addr())
		err = r.c.AddExternalInterface(iface.ID(id), li, lh, rh, owned)
		if err == nil && owned {
			r.extIfs = append(r.extIfs, id)
		}
	case "K":
		err = r.c.SetKey(localIA, 0, hfKey)
		if err == nil {
			r.hasKey = true
		}
	case "A":
		err = r.c.AddSvc(localIA, addr.SVC(c.svc), addr.HostIP(c.ip), c.port)
	case "D":
		err = r.c.DelSvc(localIA, addr.SVC(c.svc), addr.HostIP(c.ip), c.port)
	default:
		panic("unknown call " + c.kind)
	}
	if err != nil {
		r.errs = append(r.errs, c.kind)
	}
}

func build(w *worker, ov [2]*int, cs []call, reuse bool, rcv, snd, batch int) *rtr {
	r := newRouter(w, plainConfig(rcv, snd, batch, ov), reuse)
	if err := r.c.CreateIACtx(localIA); err != nil {
		panic(err)
	}
	for _, c := range cs {
		r.apply(c)
	}
	return r
}

// state renders the dispatch-range state (op `st`).
func (r *rtr) state() string {
	s, e := router.VerifCfgDPRange(r.c)
	ps, ok := udpip.VerifCfgProvider(router.VerifCfgUnderlay(r.c, "udpip"))
	if !ok {
		return "e:provider"
	}
	out := fmt.Sprintf("dp %d %d prov %d %d %d link ", s, e, ps.DispatchStart, ps.DispatchEnd,
		ps.DispatchRedirect)
	l := router.VerifCfgLink(r.c, 0)
	if l == nil {
		return out + "none"
	}
	ls, le, lr, ok := udpip.VerifCfgInternalRange(l)
	if !ok {
		return out + "e:notinternal"
	}
	return out + fmt.Sprintf("%d %d %d", ls, le, lr)
}

func apLess(a, b netip.AddrPort) bool {
	x, y := a.Addr().AsSlice(), b.Addr().AsSlice()
	if len(x) != len(y) {
		return len(x) < len(y)
	}
	if c := strings.Compare(string(x), string(y)); c != 0 {
		return c < 0
	}
	return a.Port() < b.Port()
}

// resolve runs the real resolveLocalDst (several times for SVC destinations, whose instance is
// picked at random) and renders the set of underlay destinations.
func (r *rtr) resolve(raw []byte, tries int) (string, []netip.AddrPort) {
	set := map[netip.AddrPort]bool{}
	for i := 0; i < tries; i++ {
		st, ap := router.VerifCfgResolve(r.c, raw)
		if st != router.VerifCfgOK {
			return st, nil
		}
		set[ap] = true
	}
	var aps []netip.AddrPort
	for ap := range set {
		aps = append(aps, ap)
	}
	sort.Slice(aps, func(i, j int) bool { return apLess(aps[i], aps[j]) })
	ss := make([]string, len(aps))
	for i, ap := range aps {
		ss[i] = fmt.Sprintf("%s:%d", vlib.Hex(ap.Addr().AsSlice()), ap.Port())
	}
	return "ok " + strings.Join(ss, ","), aps
}

// process is resolve through the whole fast path.
func (r *rtr) process(raw []byte, ifID uint16, tries int) (string, []netip.AddrPort) {
	set := map[netip.AddrPort]bool{}
	for i := 0; i < tries; i++ {
		st, ap := router.VerifCfgProcess(r.c, raw, ifID)
		if st != router.VerifCfgOK {
			return st, nil
		}
		set[ap] = true
	}
	var aps []netip.AddrPort
	for ap := range set {
		aps = append(aps, ap)
	}
	sort.Slice(aps, func(i, j int) bool { return apLess(aps[i], aps[j]) })
	ss := make([]string, len(aps))
	for i, ap := range aps {
		ss[i] = fmt.Sprintf("%s:%d", vlib.Hex(ap.Addr().AsSlice()), ap.Port())
	}
	return "ok " + strings.Join(ss, ","), aps
}

func ovTok(ov [2]*int) string {
	f := func(p *int) string {
		if p == nil {
			return "-"
		}
		return strconv.Itoa(*p)
	}
	return f(ov[0]) + " " + f(ov[1])
}

// ---------------------------------------------------------------------------------------------
// C11 property predicate, written from the statement (independent of the Lean model)

type inst struct {
	svc  uint16
	ip   netip.Addr
	port uint16
}

// configured returns what the statement calls the configured range: the arguments of the last
// SetPortRange (topology), overridden by the router configuration; ok=false if none was issued.
func configured(ov [2]*int, cs []call) (s, e int, ok bool) {
	for _, c := range cs {
		if c.kind == "P" {
			s, e, ok = c.s, c.e, true
		}
	}
	if !ok {
		return
	}
	if ov[0] != nil {
		s = *ov[0]
	}
	if ov[1] != nil {
		e = *ov[1]
	}
	return
}

func registered(cs []call) []inst {
	var is []inst
	for _, c := range cs {
		if (c.kind != "A" && c.kind != "D") || !c.ip.IsValid() {
			continue
		}
		x := inst{c.svc, c.ip, c.port}
		idx := -1
		for i, y := range is {
			if x == y {
				idx = i
			}
		}
		if c.kind == "A" && idx < 0 {
			is = append(is, x)
		}
		if c.kind == "D" && idx >= 0 {
			is = append(is[:idx], is[idx+1:]...)
		}
	}
	return is
}

func hasCall(cs []call, k string) bool {
	for _, c := range cs {
		if c.kind == k {
			return true
		}
	}
	return false
}

// orderClass names where the (last) SetPortRange stands relative to AddInternalInterface.
func orderClass(cs []call) string {
	iI, iP := -1, -1
	for i, c := range cs {
		if c.kind == "I" && iI < 0 {
			iI = i
		}
		if c.kind == "P" {
			iP = i
		}
	}
	if iP < iI {
		return "range-before-internal"
	}
	return "range-after-internal"
}

func checkC11(e *sink, ov [2]*int, cs []call, p *pkt, ans string, aps []netip.AddrPort,
	how string) {

	s, en, ok := configured(ov, cs)
	if !ok || !hasCall(cs, "I") {
		return // nothing configured: the statement demands nothing
	}
	inRange := func(port int) bool { return s <= port && port <= en }
	rep := map[string]any{"how": how, "override": ovTok(ov), "calls": toks(cs),
		"configured_range": []int{s, en}, "packet_kind": p.kind, "dst": p.dstTok,
		"l4_proto": p.proto, "l4_hex": vlib.Hex(p.l4), "raw_packet_hex": vlib.Hex(p.raw),
		"implementation_answer": ans}
	oc := orderClass(cs)
	switch p.dst.class {
	case "ip":
		var want int
		var cls string
		switch {
		case p.guard:
			return
		case p.derived >= 0:
			want = endhostPort
			cls = "out-of-range"
			if inRange(p.derived) {
				want, cls = p.derived, "in-range"
			}
			if s == 0 && en == 0 && p.derived == 0 {
				// "empty" range is (0,0): port 0 may go either way (DESIGN 7a)
				if ans == fmt.Sprintf("ok %s:%d", vlib.Hex(p.dst.ip.AsSlice()), endhostPort) {
					return
				}
			}
		case p.deflt:
			want, cls = endhostPort, "default"
		default:
			return // malformed: dropping is fine, the statement says nothing
		}
		exp := fmt.Sprintf("ok %s:%d", vlib.Hex(p.dst.ip.AsSlice()), want)
		if ans != exp {
			rep["derived_port"] = p.derived
			rep["expected"] = exp
			e.Violate("C11/"+p.kind+"/"+cls+"/"+oc,
				fmt.Sprintf("%s with derived port %d, range [%d,%d] (%s): delivered to %q, "+
					"statement demands %q", p.kind, p.derived, s, en, oc, ans, exp), rep)
		}
	case "svc":
		var cands []inst
		for _, i := range registered(cs) {
			if i.svc == p.dst.svc&0x7fff {
				cands = append(cands, i)
			}
		}
		if len(cands) == 0 {
			return
		}
		if !strings.HasPrefix(ans, "ok ") {
			rep["registered"] = fmt.Sprint(cands)
			e.Violate("C11/svc/unresolved/"+oc, "service with registered instances not resolved: "+ans, rep)
			return
		}
		for _, ap := range aps {
			good := false
			for _, i := range cands {
				if ap.Addr() != i.ip {
					continue
				}
				// the instance's own port; a port outside the dispatched range is handed to the
				// end-host port on that instance's host (doc/dev/design/router-port-dispatch.rst,
				// rule 2) - both readings are accepted
				if ap.Port() == i.port || (!inRange(int(i.port)) && ap.Port() == endhostPort) {
					good = true
				}
			}
			if !good {
				rep["registered"] = fmt.Sprint(cands)
				e.Violate("C11/svc/not-an-instance/"+oc,
					fmt.Sprintf("service packet delivered to %v, not a registered instance", ap), rep)
				return
			}
		}
	}
}

// ---------------------------------------------------------------------------------------------
// generators

func ip4(a, b, c, d byte) netip.Addr { return netip.AddrFrom4([4]byte{a, b, c, d}) }

var svcPool = []uint16{1, 2, 0x10, 0x8002, 0x8001, 7}

func genSvcCall(r *vlib.Rand, kind string, s, e int) call {
	c := call{kind: kind, svc: svcPool[r.Intn(4)]}
	if r.Chance(8) {
		c.svc = svcPool[r.Intn(len(svcPool))]
	}
	if r.Chance(25) {
		var b [16]byte
		b[0], b[1], b[15] = 0xfd, 0x00, byte(1+r.Intn(3))
		c.ip = netip.AddrFrom16(b)
	} else {
		c.ip = ip4(10, 0, 1, byte(1+r.Intn(3)))
	}
	switch r.Intn(6) {
	case 0:
		c.port = 30252
	case 1:
		c.port = uint16(pickPort(r, s, e))
	case 2:
		c.port = uint16(s)
	case 3:
		c.port = 0
	default:
		c.port = uint16(30250 + r.Intn(4))
	}
	if r.Chance(3) {
		c.ip = netip.Addr{} // invalid: AddSvc must refuse
	}
	return c
}

// pickPort draws a port with emphasis on the boundaries of [s,e].
func pickPort(r *vlib.Rand, s, e int) int {
	cl := func(x int) int {
		if x < 0 {
			return 0
		}
		if x > 65535 {
			return 65535
		}
		return x
	}
	switch r.Intn(12) {
	case 0:
		return cl(s - 1)
	case 1:
		return cl(s)
	case 2:
		return cl(s + 1)
	case 3:
		return cl(e - 1)
	case 4:
		return cl(e)
	case 5:
		return cl(e + 1)
	case 6:
		return []int{0, 1, 65535, 30041, 30040, 30042, 1023, 1024, 255, 256}[r.Intn(10)]
	case 7:
		if e >= s {
			return s + r.Intn(e-s+1)
		}
		return r.Intn(65536)
	default:
		return r.Intn(65536)
	}
}

type rng struct {
	s, e int
	text string // topology text form, "" if only numeric
}

func genRange(r *vlib.Rand) rng {
	switch r.Intn(10) {
	case 0:
		return rng{0, 0, "-"}
	case 1:
		return rng{1, 65535, "all"}
	case 2:
		p := 1 + r.Intn(65535)
		return rng{p, p, fmt.Sprintf("%d-%d", p, p)}
	case 3:
		return rng{31000, 32767, "31000-32767"}
	case 4:
		return rng{1024, 65535, "1024-65535"}
	case 5:
		return rng{30041, 30041, "30041-30041"}
	case 6:
		a := 1 + r.Intn(300)
		return rng{a, a + r.Intn(300), ""}
	default:
		a := 1 + r.Intn(65535)
		b := a + r.Intn(65536-a)
		return rng{a, b, fmt.Sprintf("%d-%d", a, b)}
	}
}

func permutations(xs []string) [][]string {
	if len(xs) <= 1 {
		return [][]string{append([]string(nil), xs...)}
	}
	var out [][]string
	for i := range xs {
		rest := append(append([]string(nil), xs[:i]...), xs[i+1:]...)
		for _, p := range permutations(rest) {
			out = append(out, append([]string{xs[i]}, p...))
		}
	}
	return out
}

// legal reports whether the router may be asked for this sequence: with an opener that cannot
// reuse the local address a sibling link on the udpip provider needs the internal link first (the
// code documents a panic otherwise).
func legal(cs []call, reuse bool) bool {
	if reuse {
		return true
	}
	seenI := false
	for _, c := range cs {
		if c.kind == "I" {
			seenI = true
		}
		if c.kind == "N" && !seenI {
			return false
		}
	}
	return true
}

func mkCalls(r *vlib.Rand, kinds []string, rg rng) []call {
	cs := make([]call, len(kinds))
	for i, k := range kinds {
		switch k {
		case "P":
			cs[i] = call{kind: "P", s: rg.s, e: rg.e}
		case "P'": // an earlier, different range that a later P must supersede
			o := genRange(r)
			cs[i] = call{kind: "P", s: o.s, e: o.e}
		case "A", "D":
			cs[i] = genSvcCall(r, k, rg.s, rg.e)
		default:
			cs[i] = call{kind: k}
		}
	}
	return cs
}

func genOverride(r *vlib.Rand) [2]*int {
	if !r.Chance(25) {
		return [2]*int{nil, nil}
	}
	o := genRange(r)
	return [2]*int{&o.s, &o.e}
}

// ---------------------------------------------------------------------------------------------
// C11 driver

func opRS(e *sink, r *rtr, ov [2]*int, cs []call, p *pkt, how string) {
	tries := 1
	if p.dst.class == "svc" {
		// Services.Any draws at random: draw often enough to see every candidate (the chance of
		// missing one of k is k*((k-1)/k)^tries < 1e-10 for these numbers)
		k := 0
		for _, i := range registered(cs) {
			if i.svc == p.dst.svc&0x7fff {
				k++
			}
		}
		tries = 64 + 45*k
	}
	var aps []netip.AddrPort
	ans, ok := vlib.Safe(func() string {
		a, x := r.resolve(p.raw, tries)
		aps = x
		return a
	})
	_ = ok
	op := fmt.Sprintf("rs %s %s %s %d %s %s", ovTok(ov), toks(cs), p.dstTok, p.proto, vlib.Hex(p.l4),
		p.quote)
	tag := p.kind + "/" + p.dst.class
	if !hasCall(cs, "I") {
		tag = "~nolink"
	}
	e.Op(op, ans, tag)
	e.Sample(map[string]string{"op": trunc(op, 200), "impl": ans})
	checkC11(e, ov, cs, p, ans, aps, how)
	// the same packet through the whole fast path (processPkt), received on an external link
	if r.hasKey && len(r.extIfs) > 0 && hasCall(cs, "I") {
		ifID := r.extIfs[len(p.l4)%len(r.extIfs)]
		raw := p.withPath(ifID)
		var faps []netip.AddrPort
		fans, _ := vlib.Safe(func() string {
			a, x := r.process(raw, ifID, tries)
			faps = x
			return a
		})
		e.Op("fp"+op[2:], fans, "fast/"+tag)
		p2 := *p
		p2.raw = raw
		checkC11(e, ov, cs, &p2, fans, faps, how+", through processPkt received on interface "+
			strconv.Itoa(int(ifID)))
	}
}

func trunc(s string, n int) string {
	if len(s) > n {
		return s[:n] + "..."
	}
	return s
}

func opST(e *sink, r *rtr, ov [2]*int, cs []call) {
	ans, _ := vlib.Safe(r.state)
	tag := "st/" + orderClass(cs)
	if !hasCall(cs, "P") || !hasCall(cs, "I") {
		tag = "st/partial"
	}
	e.Op(fmt.Sprintf("st %s %s", ovTok(ov), toks(cs)), ans, tag)
	// statement: the configured range is honoured whatever the order
	if s, en, ok := configured(ov, cs); ok && hasCall(cs, "I") {
		want := fmt.Sprintf("link %d %d %d", s, en, endhostPort)
		if !strings.HasSuffix(ans, want) {
			e.Violate("C11/effective-range/"+orderClass(cs),
				fmt.Sprintf("configured range [%d,%d] does not reach the internal link: %s", s, en, ans),
				map[string]any{"override": ovTok(ov), "calls": toks(cs), "state": ans, "expected": want})
		}
	}
}

func runC11(e *vlib.Env) {
	r := vlib.NewRand(uint64(e.Seed))
	e.Rule = "real Connector configured through every permutation of {SetPortRange, AddInternalInterface, " +
		"AddExternalInterface, AddNextHop, SetKey} plus random call sequences (repeated/late SetPortRange, " +
		"AddSvc/DelSvc, router-config override, second provider) and the real start-up (topology.json + " +
		"TOML -> IACtx.Configure) x range kinds ('-', 'all', single port, [a,b]) x packets (UDP, TCP, SCMP " +
		"echo/traceroute request+reply, SCMP errors quoting UDP/SCMP/TCP/garbage, truncated headers, HBH/E2E " +
		"extensions, v4/v6/unspecified/v4-mapped hosts, SVC incl. multicast) with ports on the range " +
		"boundaries; non-trivial = an internal link exists; distinct by op line"

	// (1) validatePortRange through topology.FromJSONBytes
	for _, s := range rangeStrings(r, e.N(400, 4000)) {
		opVR(e, s)
	}

	var jobs []job
	// seqJob: build a router through cs and resolve the (pre-generated) packets
	seqJob := func(ov [2]*int, cs []call, reuse bool, pkts []*pkt, how string, withState bool) {
		jobs = append(jobs, func(w *worker, sk *sink) {
			rt := build(w, ov, cs, reuse, 0, 0, 8)
			for _, p := range pkts {
				opRS(sk, rt, ov, cs, p, how)
			}
			if withState {
				opST(sk, rt, ov, cs)
			}
		})
	}

	// (2) every permutation of the start-up calls x range kinds
	base := []string{"P", "I", "E", "N", "K"}
	perms := permutations(base)
	withSvc := permutations([]string{"P", "I", "A", "E2", "N2"})
	perms = append(perms, withSvc...)
	rounds := e.N(1, 8)
	for round := 0; round < rounds; round++ {
		for _, kinds := range perms {
			rg := genRange(r)
			ov := genOverride(r)
			reuse := r.Bool()
			cs := mkCalls(r, kinds, rg)
			if !legal(cs, reuse) {
				reuse = true
			}
			s, en, _ := configured(ov, cs)
			var pkts []*pkt
			for k := 0; k < 16; k++ {
				pkts = append(pkts, genPkt(r, pickPort(r, s, en), s, en, cs))
			}
			seqJob(ov, cs, reuse, pkts, "permutation", true)
		}
	}

	// (3) random call sequences
	pool := []string{"P", "P'", "I", "I", "E", "E2", "N", "N2", "K", "A", "A", "A", "D", "P"}
	n := e.N(350, 6000)
	for i := 0; i < n; i++ {
		ln := 1 + r.Intn(9)
		kinds := make([]string, ln)
		for j := range kinds {
			kinds[j] = pool[r.Intn(len(pool))]
		}
		if r.Chance(85) { // mostly with an internal link, somewhere
			at := r.Intn(len(kinds) + 1)
			kinds = append(kinds[:at], append([]string{"I"}, kinds[at:]...)...)
		}
		rg := genRange(r)
		ov := genOverride(r)
		cs := mkCalls(r, kinds, rg)
		// D mostly deletes something that was added
		for j := range cs {
			if cs[j].kind == "D" && r.Chance(70) {
				for k := 0; k < j; k++ {
					if cs[k].kind == "A" {
						cs[j].svc, cs[j].ip, cs[j].port = cs[k].svc, cs[k].ip, cs[k].port
					}
				}
			}
		}
		reuse := r.Bool()
		if !legal(cs, reuse) {
			reuse = true
		}
		s, en, ok := configured(ov, cs)
		if !ok {
			s, en = rg.s, rg.e
		}
		var pkts []*pkt
		for k := 0; k < 16; k++ {
			pkts = append(pkts, genPkt(r, pickPort(r, s, en), s, en, cs))
		}
		seqJob(ov, cs, reuse, pkts, "random-sequence", true)
	}

	// (4) port sweeps on one router per range kind, both orders
	sweepKinds := []int{kUDP, kTCP, kEchoRep, kTrRep, kErrUDP, kErrEchoReq, kErrTrReq, kErrUDPCutPayload}
	for _, rg := range []rng{{0, 0, "-"}, {1, 65535, "all"}, {31000, 32767, ""}, {30041, 30041, ""},
		{1, 1, ""}, {65535, 65535, ""}, {1024, 65535, ""}, genRange(r), genRange(r)} {
		for _, kinds := range [][]string{{"P", "I"}, {"I", "P"}, {"P'", "I", "E", "P"}} {
			cs := mkCalls(r, kinds, rg)
			ov := [2]*int{nil, nil}
			ports := boundaryPorts(rg.s, rg.e)
			if e.Thorough() {
				ports = nil
				for p := 0; p < 65536; p++ {
					ports = append(ports, p)
				}
			} else {
				for k := 0; k < 40; k++ {
					ports = append(ports, r.Intn(65536))
				}
			}
			var pkts []*pkt
			for _, port := range ports {
				ks := sweepKinds
				if e.Thorough() && port%64 != 0 && !isBoundary(port, rg.s, rg.e) {
					ks = sweepKinds[:1]
				}
				for _, k := range ks {
					pkts = append(pkts, mkPkt(r, k, port, routableDst(r)))
				}
			}
			seqJob(ov, cs, true, pkts, "port-sweep", false)
		}
	}

	// (5) the real start-up path
	nb := e.N(30, 400)
	for i := 0; i < nb; i++ {
		jobs = append(jobs, bootCase(r))
	}
	runJobs(e, jobs)
}

func isBoundary(p, s, e int) bool {
	for _, b := range boundaryPorts(s, e) {
		if b == p {
			return true
		}
	}
	return false
}

func boundaryPorts(s, e int) []int {
	var out []int
	for _, p := range []int{0, 1, 2, s - 1, s, s + 1, e - 1, e, e + 1, 30040, 30041, 30042, 65534, 65535,
		(s + e) / 2} {
		if p >= 0 && p <= 65535 {
			out = append(out, p)
		}
	}
	return out
}

// ---------------------------------------------------------------------------------------------
// validatePortRange through the topology loader

func topoJSON(dispatched *string, alias string) string {
	dp := ""
	if dispatched != nil {
		dp = fmt.Sprintf("  \"dispatched_ports\": %s,\n", strconv.Quote(*dispatched))
	}
	return "{\n  \"isd_as\": \"1-ff00:0:110\",\n  \"mtu\": 1472,\n" + dp +
		`  "attributes": ["core"],
  "border_routers": {
    "br1": {
      "internal_addr": "10.0.0.1:30042",
      "interfaces": {
        "1": {"underlay": {"local": "192.0.2.1:40001", "remote": "192.0.2.11:50000"},
              "isd_as": "1-ff00:0:120", "link_to": "CORE", "mtu": 1472},
        "3": {"underlay": {"provider": "` + alias + `", "local": "192.0.2.1:40003", "remote": "192.0.2.13:50000"},
              "isd_as": "1-ff00:0:130", "link_to": "CORE", "mtu": 1472}
      }
    },
    "br2": {
      "internal_addr": "10.0.0.12:30042",
      "interfaces": {
        "2": {"underlay": {"local": "192.0.2.2:40002", "remote": "192.0.2.12:50000"},
              "isd_as": "1-ff00:0:120", "link_to": "CORE", "mtu": 1472}
      }
    }
  },
  "control_service": {"cs1": {"addr": "10.0.1.1:30252"}, "cs2": {"addr": "10.0.1.2:31006"}},
  "discovery_service": {"ds1": {"addr": "10.0.1.1:30252"}}
}
`
}

// specRange is the documented meaning of the topology's dispatched_ports text
// (doc/dev/design/router-port-dispatch.rst): "<min>-<max>", "-" = empty, "all" = 1-65535,
// nothing = empty. ok=false: not a documented form (no demand).
func specRange(s string) (a, b int, ok bool) {
	switch s {
	case "", "-":
		return 0, 0, true
	case "all":
		return 1, 65535, true
	}
	parts := strings.Split(s, "-")
	if len(parts) != 2 {
		return 0, 0, false
	}
	canon := func(t string) (int, bool) {
		v, err := strconv.Atoi(t)
		if err != nil || v < 1 || v > 65535 || strconv.Itoa(v) != t {
			return 0, false
		}
		return v, true
	}
	x, ok1 := canon(parts[0])
	y, ok2 := canon(parts[1])
	if !ok1 || !ok2 || x > y {
		return 0, 0, false
	}
	return x, y, true
}

func rangeStrings(r *vlib.Rand, n int) []string {
	out := []string{"", "-", "all", "ALL", "All", "1-65535", "31000-32767", "0-5", "5-0", "1-0", "0-0",
		"7-7", "8-7", "65535-65535", "65536-65536", "1-65536", "1-", "-1", "--", "1--2", "1-2-3", "a-b",
		"1 -2", " 1-2", "+1-2", "01-002", "1_0-20", "0x10-0x20", "99999999999999999999-5",
		"5-99999999999999999999", "1-1", "30041-30041", "all-", "-all", "1e3-2e3", "١-٢"}
	for len(out) < n {
		switch r.Intn(6) {
		case 0:
			out = append(out, fmt.Sprintf("%d-%d", r.Intn(70000), r.Intn(70000)))
		case 1:
			a := 1 + r.Intn(65535)
			out = append(out, fmt.Sprintf("%d-%d", a, a+r.Intn(65536-a)))
		case 2:
			a := r.Intn(300)
			out = append(out, fmt.Sprintf("%d-%d", a, a+r.Intn(3)-1))
		case 3:
			alpha := "0123456789--all +_x"
			b := make([]byte, r.Intn(9))
			for i := range b {
				b[i] = alpha[r.Intn(len(alpha))]
			}
			out = append(out, string(b))
		case 4:
			out = append(out, fmt.Sprintf("%0*d-%d", 1+r.Intn(7), r.Intn(65536), r.Intn(65536)))
		default:
			out = append(out, fmt.Sprintf("%d-%d", 65530+r.Intn(10), 65530+r.Intn(10)))
		}
	}
	return out
}

func opVR(e *vlib.Env, s string) {
	ans, _ := vlib.Safe(func() string {
		t, err := topology.FromJSONBytes([]byte(topoJSON(&s, aliasUL)))
		if err != nil {
			return "err"
		}
		a, b := t.PortRange()
		return fmt.Sprintf("ok %d %d", a, b)
	})
	tag := "vr/err"
	if strings.HasPrefix(ans, "ok") {
		tag = "vr/ok"
	}
	e.Op("vr "+vlib.Hex([]byte(s)), ans, tag)
	if a, b, ok := specRange(s); ok {
		if want := fmt.Sprintf("ok %d %d", a, b); ans != want {
			e.Violate("C11/range-text", fmt.Sprintf("dispatched_ports %q parsed as %q, documented meaning %q",
				s, ans, want), map[string]any{"dispatched_ports": s, "answer": ans, "expected": want})
		}
	}
}

// ---------------------------------------------------------------------------------------------
// the real start-up: topology.json + keys + router TOML -> LoadConfig, NewConnector, Configure

type booted struct {
	rt    *rtr
	calls []call // what Configure issues, for the model line (range as documented)
	ov    [2]*int
	rcv   int
	snd   int
	batch int
}

func boot(w *worker, dispatched *string, ov [2]*int, rcv, snd, batch int, reuse bool) (*booted, error) {
	dir, err := os.MkdirTemp("", "rcfg-boot")
	if err != nil {
		return nil, err
	}
	defer os.RemoveAll(dir)
	if err := os.WriteFile(filepath.Join(dir, "topology.json"), []byte(topoJSON(dispatched, w.alias)), 0o644); err != nil {
		return nil, err
	}
	_ = os.Mkdir(filepath.Join(dir, "keys"), 0o755)
	for _, k := range []string{"master0.key", "master1.key"} {
		if err := os.WriteFile(filepath.Join(dir, "keys", k), []byte("WBwuhjeRhrAyNMQnc7cxfw=="), 0o600); err != nil {
			return nil, err
		}
	}
	toml := fmt.Sprintf("[general]\nid = \"br1\"\nconfig_dir = %q\n\n[router]\nreceive_buffer_size = %d\n"+
		"send_buffer_size = %d\nbatch_size = %d\n", dir, rcv, snd, batch)
	if ov[0] != nil {
		toml += fmt.Sprintf("dispatched_port_start = %d\n", *ov[0])
	}
	if ov[1] != nil {
		toml += fmt.Sprintf("dispatched_port_end = %d\n", *ov[1])
	}
	toml += "\n[router.bfd]\ndisable = true\n"
	var cfg config.Config
	if err := libconfig.Decode([]byte(toml), &cfg); err != nil {
		return nil, fmt.Errorf("toml: %w", err)
	}
	cfg.InitDefaults()
	if err := cfg.Router.Validate(); err != nil {
		return nil, fmt.Errorf("validate: %w", err)
	}
	cc, err := control.LoadConfig(cfg.General.ID, cfg.General.ConfigDir)
	if err != nil {
		return nil, fmt.Errorf("loadconfig: %w", err)
	}
	rt := newRouter(w, cfg.Router, reuse)
	rt.firstUL[w.alias] = "ext"
	iac := &control.IACtx{Config: cc, DP: rt.c}
	if err := iac.Configure(); err != nil {
		return nil, fmt.Errorf("configure: %w", err)
	}
	b := &booted{rt: rt, ov: ov, rcv: rcv, snd: snd, batch: batch}
	text := ""
	if dispatched != nil {
		text = *dispatched
	}
	s, en, ok := specRange(text)
	if !ok {
		return nil, fmt.Errorf("boot with undocumented range text %q", text)
	}
	b.calls = bootCalls(s, en)
	return b, nil
}

// bootCalls is the call sequence ConfigDataplane issues for topoJSON.
func bootCalls(s, en int) []call {
	return []call{{kind: "K"}, {kind: "I"}, {kind: "E"}, {kind: "N"}, {kind: "E2"},
		{kind: "A", svc: 1, ip: ip4(10, 0, 1, 1), port: 30252},
		{kind: "A", svc: 2, ip: ip4(10, 0, 1, 1), port: 30252},
		{kind: "A", svc: 2, ip: ip4(10, 0, 1, 2), port: 31006},
		{kind: "P", s: s, e: en}}
}

func bootCase(r *vlib.Rand) job {
	rg := genRange(r)
	for rg.text == "" {
		rg = genRange(r)
	}
	var disp *string
	if !(rg.text == "-" && r.Bool()) { // half of the empty ranges: key absent
		disp = &rg.text
	}
	ov := genOverride(r)
	reuse := r.Bool()
	calls := bootCalls(rg.s, rg.e)
	s, en, _ := configured(ov, calls)
	var pkts []*pkt
	for k := 0; k < 24; k++ {
		pkts = append(pkts, genPkt(r, pickPort(r, s, en), s, en, calls))
	}
	return func(w *worker, sk *sink) {
		b, err := boot(w, disp, ov, 0, 0, 8, reuse)
		if err != nil {
			panic(err)
		}
		for _, p := range pkts {
			opRS(sk, b.rt, ov, b.calls, p, "real-startup(topology.json dispatched_ports="+rg.text+")")
		}
		opST(sk, b.rt, ov, b.calls)
	}
}

// ---------------------------------------------------------------------------------------------
// C17

func checkSockets(e *sink, rt *rtr, rcv, snd, batch int, how string, cs []call) {
	for _, o := range rt.log {
		site := rt.firstUL[o.Underlay]
		openk := "conn"
		if o.Internal {
			openk = "int"
		}
		op := fmt.Sprintf("pl %s %s %d %d %d", site, openk, batch, rcv, snd)
		tag := site + "/" + openk
		if rcv == snd {
			tag = "~" + tag // equal sizes cannot tell the two apart
		}
		e.Op(op, fmt.Sprintf("%d %d", o.Rcv, o.Snd), tag)
		e.Sample(map[string]any{"op": op, "socket": o})
		if o.Rcv != rcv || o.Snd != snd {
			kind := "external-or-sibling"
			if o.Internal {
				kind = "internal"
			}
			e.Violate("C17/"+kind+"/"+site,
				fmt.Sprintf("configured receive=%d send=%d, socket %s->%s (%s, provider created in %s) opened with "+
					"ReceiveBufferSize=%d SendBufferSize=%d", rcv, snd, o.Local, o.Remote, kind, site, o.Rcv, o.Snd),
				map[string]any{"how": how, "receive_buffer_size": rcv, "send_buffer_size": snd, "batch_size": batch,
					"calls": toks(cs), "socket": o})
		}
	}
	// provider state and RunConfig (independent read-out through the hooks)
	rc := router.VerifCfgRunConfig(rt.c)
	if rc.ReceiveBufferSize != rcv || rc.SendBufferSize != snd {
		e.Violate("C17/runconfig", fmt.Sprintf("RunConfig has receive=%d send=%d, configured %d %d",
			rc.ReceiveBufferSize, rc.SendBufferSize, rcv, snd),
			map[string]any{"how": how, "receive_buffer_size": rcv, "send_buffer_size": snd})
	}
	for _, name := range router.VerifCfgUnderlayNames(rt.c) {
		ps, ok := udpip.VerifCfgProvider(router.VerifCfgUnderlay(rt.c, name))
		if !ok {
			continue
		}
		e.Case(fmt.Sprintf("prov %s %s %d %d %d", name, rt.firstUL[name], batch, rcv, snd), "provider/"+rt.firstUL[name],
			rcv == snd)
		if ps.ReceiveBufferSize != rcv || ps.SendBufferSize != snd {
			e.Violate("C17/provider/"+rt.firstUL[name],
				fmt.Sprintf("provider %s (created in %s) holds receive=%d send=%d, configured %d %d", name,
					rt.firstUL[name], ps.ReceiveBufferSize, ps.SendBufferSize, rcv, snd),
				map[string]any{"how": how, "receive_buffer_size": rcv, "send_buffer_size": snd, "calls": toks(cs)})
		}
	}
}

// realSockets opens real UDP sockets on the loopback interface through conn.New (what the default
// ConnOpener does) with the given conn.Config and reads SO_RCVBUF / SO_SNDBUF back (hook
// conn.VerifCfgSockBufs). The kernel stores twice the requested value, clamps an unprivileged
// request at net.core.{r,w}mem_max, and a privileged *FORCE request is not clamped. What C17 demands
// of each option is that it is one the kernel could have produced from ITS OWN configured size:
//
//	size 0         -> the system default, untouched;
//	size s != 0    -> 2*min(s, max) (plain request) or 2*s (forced request),
//
// and therefore never a value determined by the other direction's size. Sizes stay >= 8 KiB (above
// the kernel's minimum). Half of the cases lie below the limits, the other half puts one or both
// sizes above its limit, always with a different size for the other direction.
// Skipped (recorded, no alarm) when the sandbox does not allow sockets.
func realSockets(e *vlib.Env, r *vlib.Rand, n int) {
	lo := netip.MustParseAddrPort("127.0.0.1:0")
	rem := netip.MustParseAddrPort("127.0.0.1:30041")
	open := func(c conn.Config, connected bool) (int, int, error) {
		var cn conn.Conn
		var err error
		if connected {
			cn, err = conn.New(lo, rem, &c)
		} else {
			cn, err = conn.New(lo, netip.AddrPort{}, &c)
		}
		if err != nil {
			return 0, 0, err
		}
		defer cn.Close()
		return conn.VerifCfgSockBufs(cn)
	}
	dr, ds, err := open(conn.Config{}, false)
	if err != nil {
		e.Extra["real_sockets"] = "skipped: " + err.Error()
		return
	}
	readMax := func(f string) (int, bool) {
		b, err := os.ReadFile(f)
		if err != nil {
			return 0, false
		}
		v, err := strconv.Atoi(strings.TrimSpace(string(b)))
		return v, err == nil
	}
	rmax, ok1 := readMax("/proc/sys/net/core/rmem_max")
	wmax, ok2 := readMax("/proc/sys/net/core/wmem_max")
	if !ok1 || !ok2 || rmax < 16384 || wmax < 16384 || rmax > 1<<28 || wmax > 1<<28 {
		e.Extra["real_sockets"] = fmt.Sprintf("skipped: rmem_max/wmem_max unreadable or out of the usable window (%d, %d)", rmax, wmax)
		return
	}
	// may this process force buffer sizes (CAP_NET_ADMIN)? Only recorded: without the privilege a
	// forced request fails and the plain, clamped value stays - which the predicate accepts too.
	priv := "no"
	if uc, err := net.ListenUDP("udp", &net.UDPAddr{IP: net.IPv4(127, 0, 0, 1)}); err == nil {
		if rc, err := uc.SyscallConn(); err == nil {
			_ = rc.Control(func(fd uintptr) {
				if syscall.SetsockoptInt(int(fd), syscall.SOL_SOCKET, syscall.SO_SNDBUFFORCE, 65536) == nil {
					priv = "yes"
				}
			})
		}
		uc.Close()
	}
	e.Extra["real_sockets"] = fmt.Sprintf("default rcv=%d snd=%d rmem_max=%d wmem_max=%d may_force=%s", dr, ds, rmax, wmax, priv)
	below := func(max int) int { return 8192 + r.Intn(max-8192+1) }
	above := func(max int) int { return max + 1 + r.Intn(3*max) }
	// producible: could the kernel hold `got` for a socket whose own configured size is req?
	producible := func(req, got, dflt, max int) bool {
		if req == 0 {
			return got == dflt
		}
		lim := req
		if lim > max {
			lim = max
		}
		return got == 2*lim || got == 2*req
	}
	show := func(req, got, dflt, max int) string {
		switch {
		case !producible(req, got, dflt, max):
			return fmt.Sprintf("?%d", got)
		case req == 0:
			return "-"
		}
		return strconv.Itoa(req)
	}
	for i := 0; i < n; i++ {
		var rcv, snd int
		class := "within-limits"
		switch i % 8 {
		case 0, 1, 2, 3: // both within the limits (or 0)
			rcv, snd = below(rmax), below(wmax)
			if r.Chance(20) {
				rcv = 0
			}
			if r.Chance(20) {
				snd = 0
			}
		case 4: // receive above its limit, send an unrelated size within its limit
			rcv, snd, class = above(rmax), below(wmax), "receive-above-rmem_max"
		case 5: // receive above its limit, send left at the default
			rcv, snd, class = above(rmax), 0, "receive-above-rmem_max"
		case 6: // send above its limit, receive unrelated / default
			rcv, snd, class = below(rmax), above(wmax), "send-above-wmem_max"
			if r.Bool() {
				rcv = 0
			}
		default: // both above, different
			rcv, snd, class = above(rmax), above(wmax), "both-above-limits"
		}
		// keep the two directions (and the defaults) distinguishable
		for (rcv != 0 && snd != 0 && (rcv == snd || rcv == 2*snd || snd == 2*rcv)) ||
			(rcv != 0 && (2*rcv == dr || 2*rcv == ds)) || (snd != 0 && (2*snd == ds || 2*snd == dr)) {
			if snd != 0 {
				snd += 4096
			}
			if rcv != 0 {
				rcv += 1024
			}
		}
		connected := r.Bool()
		gr, gs, err := open(conn.Config{ReceiveBufferSize: rcv, SendBufferSize: snd}, connected)
		ans := "err"
		if err == nil {
			ans = show(rcv, gr, dr, rmax) + " " + show(snd, gs, ds, wmax)
		}
		e.Op(fmt.Sprintf("so %d %d", rcv, snd), ans, "so/"+class)
		if err != nil {
			continue
		}
		kind := map[bool]string{true: "connected (external/sibling)", false: "listening (internal)"}[connected]
		rep := map[string]any{"receive_buffer_size": rcv, "send_buffer_size": snd, "so_rcvbuf": gr, "so_sndbuf": gs,
			"rmem_max": rmax, "wmem_max": wmax, "default_so_rcvbuf": dr, "default_so_sndbuf": ds, "socket": kind,
			"may_force": priv}
		if !producible(snd, gs, ds, wmax) {
			what := fmt.Sprintf("%s socket opened with conn.Config{ReceiveBufferSize:%d, SendBufferSize:%d}: kernel holds "+
				"SO_SNDBUF=%d, which the configured SEND size cannot produce (2*min(size, wmem_max=%d), 2*size, or the "+
				"default %d for 0)", kind, rcv, snd, gs, wmax, ds)
			if gs == 2*rcv {
				what += " - it is twice the configured RECEIVE size"
			}
			e.Violate("C17/socket-option/send/"+class, what, rep)
		}
		if !producible(rcv, gr, dr, rmax) {
			what := fmt.Sprintf("%s socket opened with conn.Config{ReceiveBufferSize:%d, SendBufferSize:%d}: kernel holds "+
				"SO_RCVBUF=%d, which the configured RECEIVE size cannot produce (2*min(size, rmem_max=%d), 2*size, or the "+
				"default %d for 0)", kind, rcv, snd, gr, rmax, dr)
			if gr == 2*snd {
				what += " - it is twice the configured SEND size"
			}
			e.Violate("C17/socket-option/receive/"+class, what, rep)
		}
	}
}

func genSize(r *vlib.Rand) int {
	switch r.Intn(8) {
	case 0:
		return 0
	case 1:
		return 1 + r.Intn(16)
	case 2:
		return 1 << uint(r.Intn(31))
	case 3:
		return 1111 * (1 + r.Intn(9))
	default:
		return 1 + r.Intn(1<<26)
	}
}

func runC17(e *vlib.Env) {
	r := vlib.NewRand(uint64(e.Seed))
	e.Rule = "real Connector from RouterConfig{ReceiveBufferSize, SendBufferSize, BatchSize} (random, mostly " +
		"distinct, incl. 0 and powers of two), links of every kind (internal, external, sibling with and " +
		"without local-address reuse, external/sibling on a second provider so that all three factory call " +
		"sites run) in random order, plus the real start-up (TOML + topology.json -> Configure); a spy " +
		"ConnOpener records the conn.Config of every socket; non-trivial = receive != send; distinct by " +
		"(site, link kind, sizes)"
	pool := []string{"I", "E", "E", "E2", "E2", "N", "N2", "N2", "P", "K", "A"}
	var jobs []job
	n := e.N(600, 9000)
	for i := 0; i < n; i++ {
		rcv, snd, batch := genSize(r), genSize(r), 1+r.Intn(256)
		if r.Chance(3) {
			snd = rcv
		}
		ln := 1 + r.Intn(8)
		kinds := make([]string, ln)
		for j := range kinds {
			kinds[j] = pool[r.Intn(len(pool))]
		}
		if r.Chance(70) {
			kinds = append([]string{"I"}, kinds...)
		}
		cs := mkCalls(r, kinds, genRange(r))
		reuse := r.Bool()
		if !legal(cs, reuse) {
			reuse = true
		}
		jobs = append(jobs, func(w *worker, sk *sink) {
			rt := build(w, [2]*int{nil, nil}, cs, reuse, rcv, snd, batch)
			checkSockets(sk, rt, rcv, snd, batch, "direct configuration calls", cs)
		})
	}
	nb := e.N(40, 500)
	for i := 0; i < nb; i++ {
		rcv, snd, batch := genSize(r), genSize(r), 1+r.Intn(256)
		reuse := r.Bool()
		jobs = append(jobs, func(w *worker, sk *sink) {
			all := "all"
			b, err := boot(w, &all, [2]*int{nil, nil}, rcv, snd, batch, reuse)
			if err != nil {
				panic(err)
			}
			checkSockets(sk, b.rt, rcv, snd, batch,
				"real start-up (router TOML receive_buffer_size/send_buffer_size)", b.calls)
		})
	}
	runJobs(e, jobs)
	realSockets(e, r, e.N(300, 3000))
}

func main() {
	e := vlib.Init()
	// NewConnector copies the 1.6 MB dataPlane value several times; keep the collector (and its
	// write barriers) out of the way
	if os.Getenv("GOGC") == "" {
		debug.SetGCPercent(100)
	}
	initWorkers()
	switch e.Prop {
	case "C11":
		runC11(e)
	case "C17":
		runC17(e)
	default:
		fmt.Fprintln(os.Stderr, "rcfg: unknown property", e.Prop)
		os.Exit(2)
	}
	// report the plainest failing input first (a UDP packet, then TCP, then the rest)
	rank := func(k string) int {
		switch {
		case strings.HasPrefix(k, "C11/udp/"):
			return 0
		case strings.HasPrefix(k, "C11/tcp/"):
			return 1
		case strings.HasPrefix(k, "harness/"):
			return 9
		}
		return 2
	}
	sort.SliceStable(e.Violations, func(i, j int) bool {
		return rank(e.Violations[i].Key) < rank(e.Violations[j].Key)
	})
	e.Finish()
}
