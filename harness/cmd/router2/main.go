// Engine "router2": one-hop paths (C12), EPIC (C13), links that BFD declares down (C15).
// Drives the real router data plane through the verif hook router/verif_router2_verif.go.
package main

import (
	"fmt"
	"os"

	"verifharness/vlib"
)

func main() {
	e := vlib.Init()
	r := vlib.NewRand(uint64(e.Seed))
	switch e.Prop {
	case "C03":
		// statement C03 for completed one-hop paths only: reversed, they are accepted by both routers
		(&c12{e: e, r: r, c03: true}).run()
	case "C07":
		// statement C07 for one-hop-path packets only (SCION/EPIC paths are engine router's)
		(&c12{e: e, r: r, c07: true}).run()
	case "C12":
		(&c12{e: e, r: r}).run()
	case "C01":
		// statement C01 for EPIC-path packets only (the SCION-path part is engine router's)
		c := &c13{e: e, r: r}
		e.Rule = "EPIC-path packets whose current hop field (or next-segment first hop at a cross-over) has a valid MAC but is expired, on a fresh packet processor and on one whose last SCION-path packet predates the expiry; each compared with the same packet carrying a plain SCION path"
		c.expiredHops("C01")
	case "C13":
		(&c13{e: e, r: r}).run()
	case "C15":
		(&c15{e: e, r: r}).run()
	default:
		fmt.Fprintln(os.Stderr, "router2: unknown property", e.Prop)
		e.Finish()
		os.Exit(2)
	}
	e.Finish()
}
