// Engine "router2": one-hop paths (C12), EPIC (C13), links that BFD declares down (C15).
// Drives the real router data plane through the verif hook router/verif_router2_verif.go.
package main

import (
	"fmt"
	"os"

	"verifharness/vlib"
)

func main() {
	e := vlib.Init()
	r := vlib.NewRand(uint64(e.Seed))
	switch e.Prop {
	case "C12":
		(&c12{e: e, r: r}).run()
	case "C13":
		(&c13{e: e, r: r}).run()
	case "C15":
		(&c15{e: e, r: r}).run()
	default:
		fmt.Fprintln(os.Stderr, "router2: unknown property", e.Prop)
		e.Finish()
		os.Exit(2)
	}
	e.Finish()
}
