package main

// C15 — no traffic over links that BFD declares down. One history per data plane:
//   ld cfg <localIA> <links scope:ifid:session,...> <ifid:linkidx,...>   -> ok
//   ld start                                                             -> ok    (sessions run: Down)
//   ld recv <ifid> <remote state>      accepted BFD control message      -> st <state> | st -
//   ld recvt <ifid> <remote state>     the same followed by the detection time elapsing
//   ld ohp <egress>                    valid one-hop packet from the internal side, first hop leaving through <egress>  -> fwd <egress>
//   ld pkt <ingress> <egress>          SCION-path packet that would leave through <egress>
//                                        -> fwd <egress> | scmp 5 <ia> <if> | scmp 6 <ia> <in> <eg>
// The sessions are the real bfd.Sessions inside the real udpip links; messages reach them through
// processPkt/processBFD; see router/verif_router2_verif.go for how a history is applied step by step.

import (
	"fmt"
	"strings"
	"sync/atomic"
	"time"

	"github.com/gopacket/gopacket"
	"github.com/gopacket/gopacket/layers"

	"github.com/scionproto/scion/pkg/addr"
	"github.com/scionproto/scion/pkg/slayers"
	"github.com/scionproto/scion/pkg/slayers/path"
	"github.com/scionproto/scion/pkg/slayers/path/empty"
	"github.com/scionproto/scion/pkg/slayers/path/onehop"
	"github.com/scionproto/scion/router"

	"verifharness/vlib"
)

type c15 struct {
	e *vlib.Env
	r *vlib.Rand
}

// linkKey groups interfaces served by one link (sibling links are shared per remote address).
func (a *asCfg) linkKey(id uint16) string {
	i := a.ifByID(id)
	if i == nil {
		return "internal"
	}
	if i.sibling {
		return "s:" + i.remote
	}
	return fmt.Sprintf("e:%d", id)
}

// modelCfg renders the configuration for the model: which interface is served by which link,
// the link's scope, and whether it has a BFD session (first configured interface of a shared
// sibling link decides; later duplicates are dropped by the underlay).
func (a *asCfg) modelCfg() string {
	links := []string{"i:0:-"}
	idx := map[string]int{"internal": 0}
	ifs := []string{"0:0"}
	for _, i := range a.ifs {
		k := a.linkKey(i.id)
		if _, ok := idx[k]; !ok {
			idx[k] = len(links)
			sess := "-"
			if i.bfd {
				sess = "0"
			}
			if i.sibling {
				links = append(links, "s:0:"+sess)
			} else {
				links = append(links, fmt.Sprintf("e:%d:%s", i.id, sess))
			}
		}
		ifs = append(ifs, fmt.Sprintf("%d:%d", i.id, idx[k]))
	}
	return fmt.Sprintf("ld cfg %d %s %s", uint64(a.ia), strings.Join(links, ","), strings.Join(ifs, ","))
}

func (a *asCfg) linkHasBFD(id uint16) bool {
	k := a.linkKey(id)
	for _, i := range a.ifs {
		if a.linkKey(i.id) == k {
			return i.bfd
		}
	}
	return false
}

// bfdPacket builds the SCION packet that carries a BFD control message over the link behind via,
// the way the peer's bfdSend does (one-hop path between ASes, empty path between siblings).
func (a *asCfg) bfdPacket(via uint16, m *layers.BFD) []byte {
	i := a.ifByID(via)
	s := &slayers.SCION{TrafficClass: 0xb8, FlowID: 0xdead, NextHdr: slayers.L4BFD}
	_ = s.SetSrcAddr(hostIP("203.0.113.77"))
	_ = s.SetDstAddr(hostIP("203.0.113.0"))
	if i == nil || i.sibling {
		s.PathType, s.Path = empty.PathType, &empty.Path{}
		s.SrcIA, s.DstIA = a.ia, a.ia
	} else {
		oh := &onehop.Path{Info: path.InfoField{ConsDir: true, Timestamp: nowSec() - 10},
			FirstHop: path.HopField{ConsEgress: 99, ExpTime: 63}}
		s.PathType, s.Path = onehop.PathType, oh
		s.SrcIA, s.DstIA = i.nb, a.ia
	}
	buf := gopacket.NewSerializeBuffer()
	if err := gopacket.SerializeLayers(buf, gopacket.SerializeOptions{FixLengths: true}, s, m); err != nil {
		panic(err)
	}
	return append([]byte(nil), buf.Bytes()...)
}

func bfdMsg(state int, short bool) *layers.BFD {
	m := &layers.BFD{Version: 1, State: layers.BFDState(state), DetectMultiplier: 255,
		MyDiscriminator: 4711, YourDiscriminator: 1, DesiredMinTxInterval: 4000000000, RequiredMinRxInterval: 4000000000}
	if short {
		// detection time = 1 x max(RequiredMinRxInterval of the session (1 ms), 1 us)
		m.DetectMultiplier, m.DesiredMinTxInterval = 1, 1
	}
	return m
}

type ldEvent struct {
	kind   string // recv recvt bad pkt nobfd
	ifID   uint16
	state  int
	badHow int
	yd0    bool // the message carries Your Discriminator 0
	sc     scenario
	raw    []byte
}

func (c *c15) run() {
	e := c.e
	e.Rule = "histories on a router with 6 owned external links (parent, 2 child, 2 core, peer) and 2 sibling links (3 sibling-owned interfaces), BFD configured on a random subset; " +
		"events: accepted BFD control messages with every remote state (through processPkt/processBFD into the real sessions of the real udpip links), " +
		"messages that must be discarded, messages on links without session, expiry of the detection time, valid one-hop packets, and SCION- and EPIC-path packets (transit, cross-over, origin, delivery; " +
		"each also run on a twin data plane without BFD to make sure it would use the egress link); non-trivial = BFD events on links with a session and packets whose egress link has one"
	nh := e.N(160, 2000)
	for h := 0; h < nh; h++ {
		c.history(h)
	}
	nl := e.N(40, 600)
	for l := 0; l < nl; l++ {
		c.loop(l)
	}
	ns := e.N(16, 200)
	for k := 0; k < ns; k++ {
		c.silence(k)
	}
}

// silence: the peer announces a small Detect Mult, the local one is large; the session comes up and
// the peer goes silent. RFC 5880 6.8.4: the link is down after remote mult x max(local RequiredMinRx,
// remote DesiredMinTx). Timers are the runtime's: a reference timer of exactly that duration is started
// when the last message is released, and only "packets still forwarded 9 more detection times after the
// reference timer fired" counts as a violation.
func (c *c15) silence(idx int) {
	r, e := c.r, c.e
	ids := []uint16{ifP, ifC, ifK, ifPE, ifSC, ifSK}
	id := ids[r.Intn(len(ids))]
	rm := r.Range(1, 3)
	local := r.Range(15*rm+5, 60)
	if local > 255 {
		local = 255
	}
	rx := time.Duration(r.Range(5, 12)) * time.Millisecond
	a := stdAS(r, map[uint16]bool{id: true})
	tw := stdAS(vlib.NewRand(1), nil)
	tw.key, tw.reuse = a.key, a.reuse
	if err := a.build(uint8(local), 50*time.Minute, rx); err != nil {
		panic(err)
	}
	if err := tw.build(3, 0, 0); err != nil {
		panic(err)
	}
	defer a.dp.Close()
	a.dp.StartBFD()
	vs := a.dp.Session(id)
	dt := time.Duration(rm) * rx // the peer's DesiredMinTx equals our RequiredMinRx
	msg := func(state int) []byte {
		m := bfdMsg(state, false)
		m.DetectMultiplier = layers.BFDDetectMultiplier(rm)
		m.DesiredMinTxInterval = layers.BFDTimeInterval(rx / time.Microsecond)
		m.RequiredMinRxInterval = m.DesiredMinTxInterval
		return a.bfdPacket(id, m)
	}
	rep := map[string]any{"case": idx, "config": a.modelCfg(), "interface": id, "local_detect_mult": local, "remote_detect_mult": rm,
		"interval_ms": rx.Milliseconds(), "negotiated_detection_time_ms": dt.Milliseconds()}
	step := func(state int) bool {
		_, p, hung := a.dp.Deliver(msg(state), id, true, 3*time.Second)
		return p && !hung
	}
	// either Down -> Init -> Up (peer reports Down, then Init) or Down -> Up on ONE Init packet of a peer
	// that is already in Init
	single := r.Bool()
	rep["single_init_packet"] = single
	if !single {
		if !step(1) {
			e.Extra["silence-setup"] = "first message not accepted"
			return
		}
		vs.Release()
	}
	if !step(2) { // parks only after the first message has been applied: the session is in Init
		e.Extra["silence-setup"] = "second message not accepted"
		return
	}
	// a packet that would use the link
	var sc scenario
	var raw []byte
	for try := 0; try < 200; try++ {
		s2, hops := randScenario(a, r, []int{0, 1, 3, 4}[r.Intn(4)], -1)
		if a.linkKey(s2.egress) != a.linkKey(id) {
			continue
		}
		b := a.buildPath(r, s2, hops, nowSec()-uint32(r.Range(1, 100)))
		pr := b.packet(r, nil, randHost(r), nil, 0, r.Bytes(8))
		if t := tw.dp.Process(pr, s2.via); t.Disp == router.VerifR2Forward && t.Egress == s2.egress {
			sc, raw = s2, pr
			break
		}
	}
	if raw == nil {
		e.Extra["silence-setup"] = "no packet for the link"
		return
	}
	var refFired atomic.Int64
	start := time.Now()
	ref := time.AfterFunc(dt, func() { refFired.Store(time.Now().UnixNano()) })
	defer ref.Stop()
	vs.Release() // Init + Init -> Up; from now on the peer is silent
	sawUp, forwardedWhileUp := false, false
	outcome := "gave-up"
	var downAfter time.Duration
	for time.Since(start) < 10*dt+5*time.Second {
		st := vs.State()
		if st == layers.BFDStateUp && !sawUp {
			sawUp = true
			if res := a.dp.Process(raw, sc.via); res.Disp == router.VerifR2Forward {
				forwardedWhileUp = true
			}
		}
		if sawUp && st != layers.BFDStateUp {
			outcome, downAfter = "down", time.Since(start)
			break
		}
		if f := refFired.Load(); sawUp && f != 0 && time.Now().UnixNano()-f >= int64(9*dt) {
			if res := a.dp.Process(raw, sc.via); res.Disp == router.VerifR2Forward && vs.State() == layers.BFDStateUp {
				outcome = "still-forwarding"
				rep["elapsed_ms"] = time.Since(start).Milliseconds()
				rep["reference_timer_fired_ms_ago"] = (time.Now().UnixNano() - f) / 1e6
				rep["raw"], rep["via"], rep["egress"] = vlib.Hex(raw), sc.via, sc.egress
				e.Violate("C15/forwarding-after-detection-time",
					fmt.Sprintf("the peer has been silent for %d ms (negotiated detection time %d ms: remote mult %d x %d ms; local mult %d) and packets are still forwarded over the link",
						time.Since(start).Milliseconds(), dt.Milliseconds(), rm, rx.Milliseconds(), local), rep)
				break
			}
		}
		time.Sleep(200 * time.Microsecond)
	}
	e.Case(fmt.Sprintf("silence:%d:%d:%d:%d:%d:%v", idx, id, local, rm, rx.Milliseconds(), single), fmt.Sprintf("silence/single=%v/%s", single, outcome), false)
	if !sawUp {
		e.Extra["silence-setup"] = "session did not come up"
		return
	}
	if !forwardedWhileUp {
		e.Violate("C15/not-forwarded-over-usable-link", "packet not forwarded while the session was Up", rep)
	}
	if outcome == "down" {
		rep["down_after_ms"] = downAfter.Milliseconds()
		res := a.dp.Process(raw, sc.via)
		if res.Disp == router.VerifR2Forward {
			e.Violate("C15/forwarded-over-down-link", "packet forwarded after the detection time expired", rep)
		} else if res.Disp == router.VerifR2Slow {
			if out, err := a.dp.SlowPath(res); err == nil {
				want := fmt.Sprintf("scmp 5 %d %d", uint64(a.ia), sc.egress)
				if i := a.ifByID(sc.egress); i != nil && i.sibling {
					want = fmt.Sprintf("scmp 6 %d %d %d", uint64(a.ia), a.ingressOf(sc.via), sc.egress)
				}
				if got := describeSCMP(out); got != want {
					rep["want"], rep["impl"] = want, got
					e.Violate("C15/wrong-answer-for-down-link", "packet for a link that timed out not answered with the right SCMP message", rep)
				}
			}
		}
	}
}

// loop: the same packets through the real processing loop (runProcessor) with a saturated slow-path
// queue: whatever happens to the SCMP answers, nothing may be handed to a link that is down, and every
// packet for a usable link is handed to exactly that link.
func (c *c15) loop(idx int) {
	r, e := c.r, c.e
	bfd := map[uint16]bool{}
	for _, id := range []uint16{ifP, ifC, ifC2, ifK, ifK2, ifPE, ifSC, ifSP, ifSK} {
		bfd[id] = r.Chance(60)
	}
	a := stdAS(r, bfd) // sessions configured but never started: those links are down
	tw := stdAS(vlib.NewRand(1), nil)
	tw.key, tw.reuse = a.key, a.reuse
	if err := a.build(3, time.Second, time.Second); err != nil {
		panic(err)
	}
	if err := tw.build(3, 0, 0); err != nil {
		panic(err)
	}
	n := r.Range(8, 30)
	var pkts []router.VerifR2LoopPacket
	wantSent := map[string]int{} // link key -> packets that must be handed to it
	downPkts := 0
	var desc []string
	for k := 0; k < n; k++ {
		kind := []int{0, 0, 0, 1, 1, 2, 3, 3, 4}[r.Intn(9)]
		sc, hops := randScenario(a, r, kind, -1)
		b := a.buildPath(r, sc, hops, nowSec()-uint32(r.Range(1, 100)))
		raw := b.packet(r, nil, randHost(r), nil, 0, r.Bytes(r.Range(0, 20)))
		if t := tw.dp.Process(raw, sc.via); t.Disp != router.VerifR2Forward || t.Egress != sc.egress {
			continue
		}
		pkts = append(pkts, router.VerifR2LoopPacket{Raw: raw, Via: sc.via})
		desc = append(desc, fmt.Sprintf("%d>%d", sc.via, sc.egress))
		if a.linkHasBFD(sc.egress) {
			downPkts++
		} else {
			wantSent[a.linkKey(sc.egress)]++
		}
	}
	slowCap := r.Intn(3)
	var sent map[uint16]int
	var slow, pooled int
	ans, ok := vlib.Safe(func() string {
		sent, slow, pooled = a.dp.RunLoop(pkts, slowCap)
		return "ok"
	})
	rep := map[string]any{"loop": idx, "config": a.modelCfg(), "packets via>egress": strings.Join(desc, " "), "slow_queue_capacity": slowCap,
		"sent_by_interface": fmt.Sprint(sent), "queued_for_slow_path": slow, "returned_to_pool": pooled}
	if !ok {
		e.Violate("C15/loop-panic", ans, rep)
		return
	}
	e.Case(fmt.Sprintf("loop:%d:%d:%d:%s", idx, slowCap, n, strings.Join(desc, " ")), fmt.Sprintf("loop/slowcap%d/down%v", slowCap, downPkts > 0), downPkts == 0)
	gotSent := map[string]int{}
	for id, cnt := range sent {
		gotSent[a.linkKey(id)] += cnt
		if a.linkHasBFD(id) {
			e.Violate("C15/loop-forwarded-over-down-link",
				fmt.Sprintf("the processing loop handed %d packet(s) to the link of interface %d whose BFD session is not up (slow-path queue full)", cnt, id), rep)
		}
	}
	for k, w := range wantSent {
		if gotSent[k] != w {
			e.Violate("C15/loop-usable-link", fmt.Sprintf("link %s: %d packets handed over, %d expected", k, gotSent[k], w), rep)
		}
	}
	wantSlow := downPkts
	if wantSlow > slowCap {
		wantSlow = slowCap
	}
	if slow != wantSlow || pooled != downPkts-wantSlow+1 {
		e.Violate("C15/loop-accounting", fmt.Sprintf("packets for down links: %d queued for the slow path (want %d), %d returned to the pool (want %d incl. the end marker)",
			slow, wantSlow, pooled, downPkts-wantSlow+1), rep)
	}
}

func (c *c15) history(hidx int) {
	r, e := c.r, c.e
	bfd := map[uint16]bool{}
	for _, id := range []uint16{ifP, ifC, ifC2, ifK, ifK2, ifPE, ifSC, ifSP, ifSK} {
		bfd[id] = r.Chance(65)
	}
	a := stdAS(r, bfd)
	tw := stdAS(vlib.NewRand(1), nil)
	tw.key, tw.reuse = a.key, a.reuse
	if err := a.build(3, 50*time.Minute, time.Millisecond); err != nil {
		panic(err)
	}
	if err := tw.build(3, 0, 0); err != nil {
		panic(err)
	}
	// a message that wrongly reached a session which still holds our look-ahead message leaves a
	// goroutine blocked inside ReceiveMessage: such a data plane is abandoned, not closed
	leak := false
	defer func() {
		if !leak {
			a.dp.Close()
		}
	}()
	e.Op(a.modelCfg(), "ok", "~cfg")

	// generate the history
	n := r.Range(30, 70)
	// the first `pre` events happen before the sessions run (configured sessions are not up yet;
	// BFD messages among them are skipped)
	pre := r.Range(0, 4)
	var evs []ldEvent
	bfdIfs := []uint16{ifP, ifC, ifC2, ifK, ifK2, ifPE, ifSC, ifSP, ifSK}
	hot := bfdIfs[r.Intn(len(bfdIfs))] // one link gets most of the events
	for k := 0; k < n; k++ {
		x := r.Intn(100)
		id := bfdIfs[r.Intn(len(bfdIfs))]
		if r.Chance(50) {
			id = hot
		}
		switch {
		case x < 34:
			st := []int{0, 1, 1, 2, 2, 2, 3, 3, 3, 3, 3}[r.Intn(11)]
			evs = append(evs, ldEvent{kind: "recv", ifID: id, state: st, yd0: st <= 1 && r.Chance(40)})
		case x < 40:
			// a message followed by the detection time elapsing; only after a plain message on
			// the same link (see the synchronisation in the recvt case below)
			kind := "recv"
			for j := len(evs) - 1; j >= pre; j-- {
				if (evs[j].kind == "recv" || evs[j].kind == "recvt") && a.linkKey(evs[j].ifID) == a.linkKey(id) {
					if evs[j].kind == "recv" {
						kind = "recvt"
					}
					break
				}
			}
			evs = append(evs, ldEvent{kind: kind, ifID: id, state: []int{1, 2, 3, 3}[r.Intn(4)]})
		case x < 45:
			evs = append(evs, ldEvent{kind: "bad", ifID: id, state: r.Intn(4), badHow: []int{0, 1, 2, 3, 3, 3, 4, 5, 6}[r.Intn(9)]})
		case x < 52:
			evs = append(evs, ldEvent{kind: "ohp", ifID: id})
		default:
			kind := []int{0, 0, 0, 1, 1, 2, 3, 3, 4}[r.Intn(9)]
			sc, hops := randScenario(a, r, kind, -1)
			var raw []byte
			if r.Chance(25) {
				sc.name = "epic:" + sc.name
				raw = a.validEpic(r, sc, hops, time.Now().UnixNano())
			} else {
				b := a.buildPath(r, sc, hops, nowSec()-uint32(r.Range(1, 100)))
				raw = b.packet(r, nil, randHost(r), nil, 0, r.Bytes(r.Range(0, 20)))
			}
			evs = append(evs, ldEvent{kind: "pkt", sc: sc, raw: raw})
		}
	}
	started := false
	parked := map[string]int{} // link key -> index of the event whose message the session holds (-1 dummy)
	nextOn := func(from int, key string) int {
		for j := from + 1; j < len(evs); j++ {
			if (evs[j].kind == "recv" || evs[j].kind == "recvt") && a.linkKey(evs[j].ifID) == key && a.linkHasBFD(evs[j].ifID) {
				return j
			}
		}
		return -1
	}
	abort := false
	deliver := func(j int, key string, via uint16) bool {
		m := bfdMsg(1, false) // dummy: held by the session, never applied
		if j >= 0 {
			m = bfdMsg(evs[j].state, evs[j].kind == "recvt")
			if evs[j].yd0 {
				m.YourDiscriminator = 0
			}
			via = evs[j].ifID
		}
		d, p, hung := a.dp.Deliver(a.bfdPacket(via, m), via, true, 3*time.Second)
		if hung || !p || d != router.VerifR2Done {
			return false
		}
		parked[key] = j
		return true
	}
	for k, ev := range evs {
		if abort {
			break
		}
		if !started && k >= pre {
			a.dp.StartBFD()
			started = true
			e.Op("ld start", "ok", "~start")
		}
		switch ev.kind {
		case "recv", "recvt":
			op := fmt.Sprintf("ld %s %d %d #%d.%d", ev.kind, ev.ifID, ev.state, hidx, k)
			if ev.yd0 {
				op = fmt.Sprintf("ld recvd %d %d 0 #%d.%d", ev.ifID, ev.state, hidx, k)
			}
			if !started {
				continue
			}
			if !a.linkHasBFD(ev.ifID) {
				d, p, hung := a.dp.Deliver(a.bfdPacket(ev.ifID, bfdMsg(ev.state, false)), ev.ifID, false, 3*time.Second)
				ans := "st -"
				if hung || p || d != router.VerifR2Discard {
					ans = fmt.Sprintf("unexpected disp=%d parked=%v hung=%v", d, p, hung)
				}
				e.Op(op, ans, "~bfd-without-session")
				continue
			}
			key := a.linkKey(ev.ifID)
			vs := a.dp.Session(ev.ifID)
			ans, ok := vlib.Safe(func() string {
				if j, have := parked[key]; !have || j != k {
					if have { // cannot happen: the lookahead is always the next event of the link
						return "protocol-error"
					}
					if !deliver(k, key, ev.ifID) {
						return "not-accepted"
					}
				}
				vs.Release()
				delete(parked, key)
				if ev.kind == "recvt" {
					// the message is applied once the session knows a remote discriminator again; the
					// detection-timer branch (1 ms later) resets it to 0 after its transition
					// (the generator puts a plain message before every recvt on the same link, so the
					// discriminator is known - non-zero - when this message is released)
					dl := time.Now().Add(10 * time.Second)
					for vs.RemoteDisc() != 0 && time.Now().Before(dl) {
						time.Sleep(100 * time.Microsecond)
					}
					if vs.RemoteDisc() != 0 {
						return fmt.Sprintf("timer-not-fired %d", vs.State())
					}

				}
				if !deliver(nextOn(k, key), key, ev.ifID) {
					return "lookahead-not-accepted"
				}
				return fmt.Sprintf("st %d", vs.State())
			})
			if !ok || !strings.HasPrefix(ans, "st ") {
				abort = true
			}
			e.Op(op, ans, fmt.Sprintf("%s/%d->%s", ev.kind, ev.state, ans))
			// the data plane's own interface state report follows the session
			up, _ := a.ifUp(ev.ifID)
			if a.dp.InterfaceUp(ev.ifID) != up {
				e.Violate("C15/interface-state", "getInterfaceState disagrees with the link's IsUp", map[string]any{"if": ev.ifID})
			}
		case "bad":
			if !started {
				continue
			}
			m := bfdMsg(ev.state, false)
			switch ev.badHow {
			case 0:
				m.Version = 0
			case 1:
				m.DetectMultiplier = 0
			case 2:
				m.MyDiscriminator = 0
			case 3:
				// Your Discriminator 0 is acceptable only with State Down / AdminDown
				m.YourDiscriminator, m.State = 0, []layers.BFDState{layers.BFDStateInit, layers.BFDStateUp}[r.Intn(2)]
			case 4:
				m.Poll = true
			case 5:
				m.Demand = true
			case 6:
				m.RequiredMinEchoRxInterval = 5
			}
			// a discarded message never reaches the session; the model history simply lacks it.
			// Only possible while the session does not hold a lookahead message of ours? It holds one
			// (parked): an accepted message would block. Deliver reports that as hung.
			d, p, hung := a.dp.Deliver(a.bfdPacket(ev.ifID, m), ev.ifID, false, 500*time.Millisecond)
			if a.linkHasBFD(ev.ifID) && (p || hung) {
				e.Violate("C15/bad-bfd-accepted", "a BFD control message that must be discarded reached the session (it can bring a down link up without handshake)",
					map[string]any{"if": ev.ifID, "how": ev.badHow, "disp": d, "bfd_state": int(m.State), "your_discriminator": uint32(m.YourDiscriminator),
						"version": m.Version, "detect_mult": int(m.DetectMultiplier), "my_discriminator": uint32(m.MyDiscriminator), "history": hidx, "event": k, "config": a.modelCfg()})
				abort, leak = true, true
			}
			if ev.badHow == 3 && a.linkHasBFD(ev.ifID) && !abort {
				// correspondence line: the model discards it too, the session state is unchanged
				e.Op(fmt.Sprintf("ld recvd %d %d 0 #%d.%d", ev.ifID, int(m.State), hidx, k), fmt.Sprintf("st %d", a.dp.Session(ev.ifID).State()), fmt.Sprintf("recvd-discarded/%d", int(m.State)))
			}
			e.Case(fmt.Sprintf("bad:%d:%d:%d:%d", hidx, k, ev.ifID, ev.badHow), "bfd-discarded", false)
		case "pkt":
			c.probe(a, tw, ev, hidx, k)
		case "ohp":
			c.ohpProbe(a, tw, ev, hidx, k)
		}
	}
}

// ifUp: what the statement says about the interface right now, from the session states the
// harness observed (sessions: up iff state Up; no session: always usable).
func (a *asCfg) ifUp(id uint16) (bool, string) {
	if !a.linkHasBFD(id) {
		return true, "nobfd"
	}
	vs := a.dp.Session(id)
	if vs == nil {
		return false, "not-started"
	}
	return vs.State() == layers.BFDStateUp, fmt.Sprintf("state%d", vs.State())
}

func (c *c15) probe(a, tw *asCfg, ev ldEvent, hidx, k int) {
	e := c.e
	sc := ev.sc
	t := tw.dp.Process(ev.raw, sc.via)
	if t.Disp != router.VerifR2Forward || t.Egress != sc.egress {
		e.Extra["generator-miss:"+sc.name] = fmt.Sprintf("twin disp=%d egress=%d slow=%d/%d", t.Disp, t.Egress, t.SlowType, t.SlowCode)
		return
	}
	ingress := a.ingressOf(sc.via)
	op := fmt.Sprintf("ld pkt %d %d #%d.%d", ingress, sc.egress, hidx, k)
	var res router.VerifR2Result
	var scmpOut []byte
	var serr error
	ans, ok := vlib.Safe(func() string {
		res = a.dp.Process(ev.raw, sc.via)
		switch res.Disp {
		case router.VerifR2Forward:
			return fmt.Sprintf("fwd %d", res.Egress)
		case router.VerifR2Slow:
			scmpOut, serr = a.dp.SlowPath(res)
			if serr != nil {
				return fmt.Sprintf("slow %d/%d dropped", res.SlowType, res.SlowCode)
			}
			return describeSCMP(scmpOut)
		}
		return fmt.Sprintf("disp%d", res.Disp)
	})
	up, why := a.ifUp(sc.egress)
	scope := "ext"
	if i := a.ifByID(sc.egress); i == nil {
		scope = "int"
	} else if i.sibling {
		scope = "sib"
	}
	kindTag := "pkt"
	if strings.HasPrefix(sc.name, "epic:") {
		kindTag = "epic"
	}
	tag := fmt.Sprintf("%s/%s/%s/%s", kindTag, scope, why, strings.Fields(ans)[0])
	if why == "nobfd" {
		tag = "~" + tag
	}
	e.Op(op, ans, tag)
	e.Sample(map[string]any{"op": op, "impl": ans, "scenario": sc.name, "egress_link": why})
	rep := map[string]any{"history": hidx, "event": k, "op": op, "raw": vlib.Hex(ev.raw), "via": sc.via, "scenario": sc.name,
		"egress": sc.egress, "egress_link": why, "impl": ans, "config": a.modelCfg()}
	if !ok {
		e.Violate("C15/panic", ans, rep)
		return
	}
	// ---- the statement, evaluated on the implementation ----
	fwd := res.Disp == router.VerifR2Forward
	switch {
	case !up && fwd:
		e.Violate("C15/forwarded-over-down-link", "packet forwarded over a link whose BFD session is not up ("+why+")", rep)
	case !up:
		want := fmt.Sprintf("scmp 5 %d %d", uint64(a.ia), sc.egress)
		if scope == "sib" {
			want = fmt.Sprintf("scmp 6 %d %d %d", uint64(a.ia), ingress, sc.egress)
		}
		if ans != want {
			rep["want"] = want
			e.Violate("C15/wrong-answer-for-down-link", "packet for a down link not answered with the right SCMP message", rep)
		} else if h, okh := parseRawHdr(scmpOut); okh {
			oh, _ := parseRawHdr(ev.raw)
			if h.srcIA != uint64(a.ia) || h.dstIA != oh.srcIA || string(h.dstAddr) != string(oh.srcAddr) {
				e.Violate("C15/scmp-addressing", "SCMP answer not addressed from the local AS to the packet's source", rep)
			}
		}
	case up && !fwd:
		e.Violate("C15/not-forwarded-over-usable-link", "packet not forwarded although the egress link is usable ("+why+")", rep)
	case up && int(res.Egress) != int(sc.egress):
		e.Violate("C15/wrong-egress", "forwarded through another interface", rep)
	}
}

// describeSCMP decodes the message the slow path produced.
func describeSCMP(raw []byte) string {
	pkt := gopacket.NewPacket(raw, slayers.LayerTypeSCION, gopacket.Default)
	if l := pkt.Layer(slayers.LayerTypeSCMPExternalInterfaceDown); l != nil {
		m := l.(*slayers.SCMPExternalInterfaceDown)
		return fmt.Sprintf("scmp 5 %d %d", uint64(m.IA), m.IfID)
	}
	if l := pkt.Layer(slayers.LayerTypeSCMPInternalConnectivityDown); l != nil {
		m := l.(*slayers.SCMPInternalConnectivityDown)
		return fmt.Sprintf("scmp 6 %d %d %d", uint64(m.IA), m.Ingress, m.Egress)
	}
	if l := pkt.Layer(slayers.LayerTypeSCMP); l != nil {
		m := l.(*slayers.SCMP)
		return fmt.Sprintf("scmp-other %d/%d", m.TypeCode.Type(), m.TypeCode.Code())
	}
	return "undecodable-scmp"
}

var _ = addr.IA(0)

// ohpProbe: a valid one-hop packet from the internal network whose first hop leaves through ev.ifID.
// processOHP forwards it whatever the link state (known finding C15/ohp-forwarded-over-down-link).
func (c *c15) ohpProbe(a, tw *asCfg, ev ldEvent, hidx, k int) {
	e := c.e
	id := ev.ifID
	i := a.ifByID(id)
	info := path.InfoField{ConsDir: true, SegID: uint16(c.r.Intn(65536)), Timestamp: nowSec() - 5}
	first := path.HopField{ConsEgress: id, ExpTime: 63}
	copy(first.Mac[:], hopMacFull(a.key, info.SegID, info.Timestamp, first.ExpTime, 0, id)[:6])
	q := ohpParams{src: a.ia, dst: i.nb, srcHost: hostIP("10.1.1.1"), dk: dIP4, p: onehop.Path{Info: info, FirstHop: first}, l4: l4UDP}
	raw := q.raw(c.r)
	if t := tw.dp.Process(raw, 0); t.Disp != router.VerifR2Forward || t.Egress != id {
		e.Extra["generator-miss:ohp"] = fmt.Sprintf("twin disp=%d egress=%d", t.Disp, t.Egress)
		return
	}
	op := fmt.Sprintf("ld ohp %d #%d.%d", id, hidx, k)
	var res router.VerifR2Result
	ans, ok := vlib.Safe(func() string {
		res = a.dp.Process(raw, 0)
		if res.Disp == router.VerifR2Forward {
			return fmt.Sprintf("fwd %d", res.Egress)
		}
		return fmt.Sprintf("disp%d slow=%d/%d", res.Disp, res.SlowType, res.SlowCode)
	})
	up, why := a.ifUp(id)
	scope := "ext"
	if i.sibling {
		scope = "sib"
	}
	tag := fmt.Sprintf("ohp/%s/%s/%s", scope, why, strings.Fields(ans)[0])
	if why == "nobfd" {
		tag = "~" + tag
	}
	e.Op(op, ans, tag)
	rep := map[string]any{"history": hidx, "event": k, "op": op, "raw": vlib.Hex(raw), "via": 0, "packet": "one-hop path",
		"egress": id, "egress_scope": scope, "egress_link": why, "impl": ans, "config": a.modelCfg()}
	if !ok {
		e.Violate("C15/panic", ans, rep)
		return
	}
	fwd := res.Disp == router.VerifR2Forward
	switch {
	case !up && fwd:
		e.Violate("C15/ohp-forwarded-over-down-link", "one-hop-path packet forwarded over a link whose BFD session is not up ("+why+", "+scope+")", rep)
	case up && !fwd:
		e.Violate("C15/ohp-not-forwarded-over-usable-link", "valid one-hop packet not forwarded although the egress link is usable ("+why+")", rep)
	}
}
