package main

import (
	"crypto/aes"
	"encoding/binary"
	"fmt"
	"net/netip"
	"sort"
	"strings"
	"time"

	"github.com/dchest/cmac"
	"github.com/gopacket/gopacket"

	"github.com/scionproto/scion/pkg/addr"
	"github.com/scionproto/scion/pkg/slayers"
	"github.com/scionproto/scion/pkg/slayers/path"
	"github.com/scionproto/scion/private/topology"
	"github.com/scionproto/scion/router"
	_ "github.com/scionproto/scion/router/underlayproviders/udpip"

	"verifharness/vlib"
)

// ---------------------------------------------------------------------------------------------
// independent primitives (written from the protocol documents, not calling pkg/slayers/path)

// hopMacFull is AES-CMAC(key, 0^16 | SegID | Timestamp | 0^8 | ExpTime | ConsIngress | ConsEgress | 0^16).
func hopMacFull(key []byte, segID uint16, ts uint32, exp uint8, consIn, consEg uint16) []byte {
	var in [16]byte
	binary.BigEndian.PutUint16(in[2:], segID)
	binary.BigEndian.PutUint32(in[4:], ts)
	in[9] = exp
	binary.BigEndian.PutUint16(in[10:], consIn)
	binary.BigEndian.PutUint16(in[12:], consEg)
	blk, err := aes.NewCipher(key)
	if err != nil {
		panic(err)
	}
	m, err := cmac.New(blk)
	if err != nil {
		panic(err)
	}
	m.Write(in[:])
	return m.Sum(nil)
}

// rawHdr is a hand-written parse of the SCION common and address headers.
type rawHdr struct {
	nextHdr    byte
	hdrBytes   int
	payloadLen int
	pathType   byte
	dstType    byte
	srcType    byte
	dstIA      uint64
	srcIA      uint64
	dstAddr    []byte
	srcAddr    []byte
	addrLen    int
}

func parseRawHdr(raw []byte) (h rawHdr, ok bool) {
	if len(raw) < 12 {
		return h, false
	}
	h.nextHdr = raw[4]
	h.hdrBytes = int(raw[5]) * 4
	h.payloadLen = int(binary.BigEndian.Uint16(raw[6:8]))
	h.pathType = raw[8]
	h.dstType = raw[9] >> 4
	h.srcType = raw[9] & 0xf
	dl := (int(h.dstType&3) + 1) * 4
	sl := (int(h.srcType&3) + 1) * 4
	h.addrLen = 16 + dl + sl
	if len(raw) < 12+h.addrLen {
		return h, false
	}
	h.dstIA = binary.BigEndian.Uint64(raw[12:])
	h.srcIA = binary.BigEndian.Uint64(raw[20:])
	h.dstAddr = raw[28 : 28+dl]
	h.srcAddr = raw[28+dl : 28+dl+sl]
	return h, true
}

// pathRegion is the byte range the decoder hands to the path decoder: raw[12+addrLen : hdrBytes]
// (clipped to the data; "-" when empty or negative).
func (h rawHdr) pathRegion(raw []byte) []byte {
	off := 12 + h.addrLen
	end := h.hdrBytes
	if end > len(raw) {
		end = len(raw)
	}
	if end <= off {
		return nil
	}
	return raw[off:end]
}

// ---------------------------------------------------------------------------------------------
// topology of one AS as configured into a data plane

type ifc struct {
	id      uint16
	sibling bool
	linkTo  topology.LinkType
	nb      addr.IA
	bfd     bool
	remote  string
}

type asCfg struct {
	ia    addr.IA
	key   []byte
	ifs   []ifc
	reuse bool
	svcCS bool
	dp    *router.VerifR2DP
}

func (a *asCfg) ifByID(id uint16) *ifc {
	for i := range a.ifs {
		if a.ifs[i].id == id {
			return &a.ifs[i]
		}
	}
	return nil
}

// ingressOf is what Link.IfID() is documented to be for the link behind interface id via:
// the id for an owned external interface, 0 for the internal link and for sibling links.
func (a *asCfg) ingressOf(via uint16) uint16 {
	if i := a.ifByID(via); i != nil && !i.sibling {
		return via
	}
	return 0
}

func (a *asCfg) nbString() string {
	var xs []string
	for _, i := range a.ifs {
		xs = append(xs, fmt.Sprintf("%d:%d", i.id, uint64(i.nb)))
	}
	sort.Strings(xs)
	if len(xs) == 0 {
		return "-"
	}
	return strings.Join(xs, ",")
}

func (a *asCfg) build(detectMult uint8, tx, rx time.Duration) error {
	c := router.VerifR2Cfg{IA: a.ia, Key: a.key, ReuseLocal: a.reuse, PortStart: 1024, PortEnd: 65535,
		SvcCS: a.svcCS, DetectMult: detectMult, DesiredMinTxInterval: tx, RequiredMinRxInterval: rx}
	for _, i := range a.ifs {
		c.Ifs = append(c.Ifs, router.VerifR2If{ID: i.id, Sibling: i.sibling, LinkTo: i.linkTo,
			Neighbor: i.nb, BFD: i.bfd, Remote: i.remote})
	}
	dp, err := router.VerifR2New(c)
	if err != nil {
		return err
	}
	a.dp = dp
	return nil
}

func ia(isd int, as uint64) addr.IA { return addr.MustIAFrom(addr.ISD(isd), addr.AS(as)) }

// ---------------------------------------------------------------------------------------------
// packet construction with the repository's own serializers

type l4Kind int

const (
	l4UDP l4Kind = iota
	l4UDPShort
	l4SCMPEcho
	l4Other
)

func serializeSCION(s *slayers.SCION, k l4Kind, r *vlib.Rand) []byte {
	var ls []gopacket.SerializableLayer
	ls = append(ls, s)
	switch k {
	case l4UDP:
		s.NextHdr = slayers.L4UDP
		u := &slayers.UDP{SrcPort: uint16(r.Range(1, 65535)), DstPort: uint16(r.Range(1, 65535))}
		u.SetNetworkLayerForChecksum(s)
		ls = append(ls, u, gopacket.Payload(r.Bytes(r.Range(0, 24))))
	case l4UDPShort:
		s.NextHdr = slayers.L4UDP
		ls = append(ls, gopacket.Payload(r.Bytes(r.Range(0, 7))))
	case l4SCMPEcho:
		s.NextHdr = slayers.L4SCMP
		m := &slayers.SCMP{TypeCode: slayers.CreateSCMPTypeCode(slayers.SCMPTypeEchoRequest, 0)}
		m.SetNetworkLayerForChecksum(s)
		ls = append(ls, m, &slayers.SCMPEcho{Identifier: uint16(r.Intn(65536)), SeqNumber: 1},
			gopacket.Payload(r.Bytes(r.Range(0, 8))))
	default:
		s.NextHdr = slayers.L4ProtocolType(253)
		ls = append(ls, gopacket.Payload(r.Bytes(r.Range(0, 16))))
	}
	buf := gopacket.NewSerializeBuffer()
	if err := gopacket.SerializeLayers(buf, gopacket.SerializeOptions{FixLengths: true, ComputeChecksums: true}, ls...); err != nil {
		panic(err)
	}
	return append([]byte(nil), buf.Bytes()...)
}

func serializeLayers(s *slayers.SCION, u *slayers.UDP, pld []byte) []byte {
	buf := gopacket.NewSerializeBuffer()
	if err := gopacket.SerializeLayers(buf, gopacket.SerializeOptions{FixLengths: true, ComputeChecksums: true},
		s, u, gopacket.Payload(pld)); err != nil {
		panic(err)
	}
	return append([]byte(nil), buf.Bytes()...)
}

func hostIP(s string) addr.Host { return addr.HostIP(netip.MustParseAddr(s)) }

func randHost(r *vlib.Rand) addr.Host {
	if r.Chance(70) {
		return hostIP(fmt.Sprintf("10.%d.%d.%d", r.Intn(256), r.Intn(256), r.Range(1, 254)))
	}
	return hostIP(fmt.Sprintf("2001:db8::%x:%x", r.Range(1, 65535), r.Range(1, 65535)))
}

// withSlack inserts 4*k arbitrary bytes between the path and the payload and raises HdrLen.
func withSlack(raw []byte, k int, r *vlib.Rand) []byte {
	h, ok := parseRawHdr(raw)
	if !ok || h.hdrBytes > len(raw) || int(raw[5])+k > 255 {
		return raw
	}
	out := append([]byte(nil), raw[:h.hdrBytes]...)
	out = append(out, r.Bytes(4*k)...)
	out = append(out, raw[h.hdrBytes:]...)
	out[5] = byte(int(raw[5]) + k)
	return out
}

func decodeSCION(raw []byte) (*slayers.SCION, error) {
	var s slayers.SCION
	if err := s.DecodeFromBytes(raw, gopacket.NilDecodeFeedback); err != nil {
		return nil, err
	}
	return &s, nil
}

func nowSec() uint32 { return uint32(time.Now().Unix()) }

var _ = path.HopLen
