package main

// C13 — EPIC. Ops:
//   epic <localIA> <ingress> <srcIA> <dstIA> <srcLenBits> <srcAddr> <payloadLen> <pktTs> <pktCtr> <phvf> <lhvf>
//        <scionPath> <nowNs> <key> <inner: fwd|other>          -> inner | drop
//   ets <ts0> <pktTs> <nowNs>                                   -> ok | bad      (libepic.VerifyTimestamp)
//   emac <auth> <srcLenBits> <srcAddr> <srcIA> <payloadLen> <ts0> <pktTs> <pktCtr>  -> 4 bytes (libepic.CalcMac)

import (
	"bytes"
	"crypto/aes"
	"encoding/binary"
	"fmt"
	"time"

	"github.com/scionproto/scion/pkg/addr"
	libepic "github.com/scionproto/scion/pkg/experimental/epic"
	"github.com/scionproto/scion/pkg/slayers"
	"github.com/scionproto/scion/pkg/slayers/path/epic"
	"github.com/scionproto/scion/router"

	"verifharness/vlib"
)

// epicMacOwn: EPIC HVF written from the specification (AES-CBC-MAC with zero IV keyed with the hop
// field's full MAC over flags | info timestamp | packet id | source ISD-AS | source host | payload length).
func epicMacOwn(auth []byte, lenBits byte, ts0, pktTs, ctr uint32, srcIA uint64, srcAddr []byte, payloadLen uint16) []byte {
	in := []byte{lenBits & 3}
	in = binary.BigEndian.AppendUint32(in, ts0)
	in = binary.BigEndian.AppendUint32(in, pktTs)
	in = binary.BigEndian.AppendUint32(in, ctr)
	in = binary.BigEndian.AppendUint64(in, srcIA)
	in = append(in, srcAddr...)
	in = binary.BigEndian.AppendUint16(in, payloadLen)
	for len(in)%16 != 0 {
		in = append(in, 0)
	}
	blk, err := aes.NewCipher(auth)
	if err != nil {
		panic(err)
	}
	x := make([]byte, 16)
	for i := 0; i < len(in); i += 16 {
		for j := 0; j < 16; j++ {
			x[j] ^= in[i+j]
		}
		blk.Encrypt(x, x)
	}
	return append([]byte(nil), x[:4]...)
}

type c13 struct {
	e *vlib.Env
	r *vlib.Rand
}

type fwdView struct {
	disp, egress        int
	slowT, slowC, slowP int
	path                []byte // SCION path bytes of the output
	epicHdr             []byte
	rest                []byte // output without the path header region
	remote              string
}

func view(res router.VerifR2Result, isEpic bool) fwdView {
	v := fwdView{disp: res.Disp, egress: int(res.Egress), slowT: res.SlowType, slowC: res.SlowCode, slowP: res.SlowPtr, remote: res.Remote}
	h, ok := parseRawHdr(res.Out)
	if !ok || h.hdrBytes > len(res.Out) {
		return v
	}
	reg := h.pathRegion(res.Out)
	if isEpic {
		if len(reg) >= 16 {
			v.epicHdr, v.path = reg[:16], reg[16:]
		}
	} else {
		v.path = reg
	}
	v.rest = append(append([]byte(nil), res.Out[6:8]...), res.Out[12:12+h.addrLen]...)
	v.rest = append(v.rest, res.Out[h.hdrBytes:]...)
	return v
}

func (c *c13) run() {
	e, r := c.e, c.r
	e.Rule = "EPIC packets at a router with parent/child/core/sibling-owned interfaces: paths of 1-3 segments, the local hop as " +
		"transit / effective cross-over / peering hop / delivery / origin, biased so that the hop validated last is the penultimate, the last or another one; " +
		"timestamps fresh, future or expired (>= 0.5 s from the bounds against the router's own clock; exact bounds through VerifyTimestamp with an explicit now); " +
		"HVFs valid or with one mutation (bit flip, MAC of the arrival hop instead of the validated one, other key, stale source AS/host/packet id/info timestamp, PHVF/LHVF swapped); " +
		"each packet is also run as a plain SCION packet (twin) to supply the inner disposition; non-trivial = inner disposition forward"
	n := e.N(24000, 300000)
	var a *asCfg
	for k := 0; k < n; k++ {
		if k%1500 == 0 {
			a = stdAS(r, nil)
			if err := a.build(3, 0, 0); err != nil {
				panic(err)
			}
		}
		c.one(a, k)
	}
	c.direct()
	c.expiredHops("C13")
}

// expiredHops (statement C01 for EPIC paths, and C13's "processed exactly like its embedded SCION
// path"): EPIC packets whose current hop field - or the first hop field of the next segment at a
// cross-over - has a valid MAC but is expired. They are handled (i) by a packet processor that has not
// seen any packet yet, (ii) by a processor whose last SCION-path packet was handled before the hop field
// expired. The embedded SCION processing rejects them (twin run), so must the EPIC processing.
func (c *c13) expiredHops(prop string) {
	r, e := c.r, c.e
	a := stdAS(r, nil)
	if err := a.build(3, 0, 0); err != nil {
		panic(err)
	}
	type cs struct {
		sc         scenario
		rawE, rawS []byte
		mode       string
	}
	mk := func(expireAt uint32, mode string) cs {
		kind := []int{0, 0, 1, 1, 2, 3, 4}[r.Intn(7)]
		sc, hops := randScenario(a, r, kind, []int{-1, 1, 2}[r.Intn(3)])
		sc.expireSeg = sc.curSeg + 1
		if sc.xover && r.Bool() {
			sc.expireSeg = sc.curSeg + 2
		}
		sc.expireAt = expireAt
		rawE, rawS := a.validEpicTwin(r, sc, hops, time.Now().UnixNano())
		return cs{sc, rawE, rawS, mode}
	}
	check := func(x cs, proc *router.VerifR2Proc) {
		var twin, er router.VerifR2Result
		ans, ok := vlib.Safe(func() string {
			twin = a.dp.Process(x.rawS, x.sc.via)
			er = proc.Process(x.rawE, x.sc.via)
			vt, ve := view(twin, false), view(er, true)
			if vt.disp == ve.disp && vt.egress == ve.egress && vt.slowT == ve.slowT && vt.slowC == ve.slowC && bytes.Equal(vt.path, ve.path) {
				return "inner"
			}
			if er.Disp == router.VerifR2Discard {
				return "drop"
			}
			return fmt.Sprintf("diff disp=%d egress=%d slow=%d/%d", er.Disp, er.Egress, er.SlowType, er.SlowCode)
		})
		he, _ := parseRawHdr(x.rawE)
		reg := he.pathRegion(x.rawE)
		inner := "other"
		if twin.Disp == router.VerifR2Forward {
			inner = "fwd"
		}
		op := fmt.Sprintf("epic %d %d %d %d %d %s %d %d %d %s %s %s %d %s %s", uint64(a.ia), a.ingressOf(x.sc.via), he.srcIA, he.dstIA,
			he.srcType&3, vlib.Hex(he.srcAddr), he.payloadLen, binary.BigEndian.Uint32(reg[0:4]), binary.BigEndian.Uint32(reg[4:8]),
			vlib.Hex(reg[8:12]), vlib.Hex(reg[12:16]), vlib.Hex(reg[16:]), time.Now().UnixNano(), vlib.Hex(a.key), inner)
		tag := fmt.Sprintf("expired-hop/%s/seg%+d/%s", x.mode, x.sc.expireSeg-1-x.sc.curSeg, ans)
		if inner == "fwd" {
			e.Extra["generator-miss:expired:"+x.sc.name] = "twin forwards a packet with an expired hop"
			tag = "~" + tag
		}
		e.Op(op, ans, tag)
		rep := map[string]any{"op": op, "raw": vlib.Hex(x.rawE), "via": x.sc.via, "scenario": x.sc.name, "processor": x.mode,
			"expired_segment": x.sc.expireSeg - 1, "impl": ans, "scion_twin": fmt.Sprintf("disp=%d slow=%d/%d", twin.Disp, twin.SlowType, twin.SlowCode)}
		if !ok {
			e.Violate(prop+"/panic", ans, rep)
			return
		}
		if twin.Disp == router.VerifR2Slow && er.Disp == router.VerifR2Forward {
			e.Violate(prop+"/epic-expired-hop-forwarded", "EPIC-path packet with an expired hop field (valid MAC) is forwarded; the same packet with a SCION path is answered with SCMP path-expired", rep)
		} else if ans != "inner" {
			e.Violate(prop+"/epic-expired-hop-differs", "EPIC-path packet with an expired hop field is not treated like its embedded SCION path", rep)
		}
	}
	n := e.N(300, 3000)
	for k := 0; k < n; k++ {
		check(mk(0, "fresh-processor"), a.dp.NewProc())
	}
	// (ii) hop fields that expire about two seconds from now
	stale := a.dp.NewProc()
	t := nowSec()
	var late []cs
	for k := 0; k < n/3; k++ {
		late = append(late, mk(t+2, "stale-processor"))
	}
	scw, hw := randScenario(a, r, 0, -1)
	warm := a.buildPath(r, scw, hw, nowSec()-10).packet(r, nil, randHost(r), nil, 0, nil)
	if w := stale.Process(warm, scw.via); w.Disp != router.VerifR2Forward {
		e.Extra["generator-miss:warmup"] = fmt.Sprintf("disp=%d", w.Disp)
	}
	for time.Now().Unix() < int64(t)+3 {
		time.Sleep(50 * time.Millisecond)
	}
	time.Sleep(200 * time.Millisecond)
	for _, x := range late {
		check(x, stale)
	}
}

func (c *c13) one(a *asCfg, k int) {
	r := c.r
	kind := []int{0, 0, 1, 1, 1, 2, 2, 3, 4, 4}[r.Intn(10)]
	wantRel := []int{-1, 1, 1, 2}[r.Intn(4)]
	sc, hops := randScenario(a, r, kind, wantRel)
	// time class
	tclass := []string{"fresh", "fresh", "fresh", "future", "expired", "pktts-boundary"}[r.Intn(6)]
	nowNs := time.Now().UnixNano()
	var target int64
	switch tclass {
	case "fresh":
		target = nowNs - 2500e6 + int64(r.Intn(3000))*1e6
	case "future":
		target = nowNs + 1500e6 + int64(r.Intn(100000))*1e6
	default:
		target = nowNs - 3500e6 - int64(r.Intn(500000))*1e6
	}
	ts0 := uint32(target/1e9) - uint32(r.Range(1, 300))
	epicTS := uint32((target-int64(ts0)*1e9)/21000 - 1)
	if tclass == "pktts-boundary" {
		// a freshly created segment (1..2 s old) and the extreme values of the 32-bit packet timestamp:
		// small ones are fresh, large ones lie hours in the future (no 32-bit wrap of epicTS+1)
		ts0 = uint32(nowNs/1e9) - 1
		epicTS = []uint32{0, 1, 2, 1<<31 - 1, 1 << 31, 1<<31 + 1, 0xFFFFFFFE, 0xFFFFFFFF, 0xFFFFFFFF, 0xFFFFFFFF}[r.Intn(10)]
		tclass = fmt.Sprintf("pktts-%x", epicTS)
	}
	b := a.buildPathTs(r, sc, hops, ts0, true)
	// authenticator: full MAC of the hop validated last
	vIdx := sc.validated
	vSeg := sc.curSeg
	if sc.xover {
		vSeg++
	}
	vh := b.dec.HopFields[vIdx]
	vinf := b.dec.InfoFields[vSeg]
	beta := vinf.SegID
	if !sc.xover && !sc.peering && !vinf.ConsDir && a.ingressOf(sc.via) != 0 {
		beta ^= binary.BigEndian.Uint16(vh.Mac[:2])
	}
	auth := a.validatedAuth(b)
	// source host (any length the address header can carry)
	srcHost := randHost(r)
	var rawSrc []byte
	var srcType slayers.AddrType
	if !sc.srcLocal && r.Chance(25) {
		l := []int{8, 12}[r.Intn(2)]
		rawSrc, srcType = r.Bytes(l), slayers.AddrType(l/4-1)
	}
	pld := r.Bytes(r.Range(0, 40))
	ctr := uint32(r.U64())
	eh := &epic.Path{PktID: epic.PktID{Timestamp: epicTS, Counter: ctr}, PHVF: make([]byte, 4), LHVF: make([]byte, 4)}
	// provisional serialisation to learn the header fields that enter the MAC
	raw0 := b.packet(r, eh, srcHost, rawSrc, srcType, pld)
	h0, _ := parseRawHdr(raw0)
	good := epicMacOwn(auth, h0.srcType, ts0, epicTS, ctr, h0.srcIA, h0.srcAddr, uint16(h0.payloadLen))
	rel := b.total - 1 - vIdx // 0 last, 1 penultimate
	phvf, lhvf := r.Bytes(4), r.Bytes(4)
	if rel == 1 || r.Chance(50) {
		phvf = append([]byte(nil), good...)
	}
	if rel == 0 || r.Chance(50) {
		lhvf = append([]byte(nil), good...)
	}
	mut := "valid"
	if r.Chance(45) {
		tgt := &phvf
		if rel == 0 {
			tgt = &lhvf
		}
		switch m := r.Intn(9); m {
		case 0:
			mut = "hvf-bitflip"
			(*tgt)[r.Intn(4)] ^= byte(1 << r.Intn(8))
		case 1:
			mut = "hvf-arrival-hop-mac" // HVF derived from the hop the packet arrived at (matters on cross-over)
			ah := b.dec.HopFields[sc.curHop]
			ainf := b.dec.InfoFields[sc.curSeg]
			ab := ainf.SegID
			if !ainf.ConsDir && a.ingressOf(sc.via) != 0 && !sc.peering {
				ab ^= binary.BigEndian.Uint16(ah.Mac[:2])
			}
			copy(*tgt, epicMacOwn(hopMacFull(a.key, ab, ainf.Timestamp, ah.ExpTime, ah.ConsIngress, ah.ConsEgress),
				h0.srcType, ts0, epicTS, ctr, h0.srcIA, h0.srcAddr, uint16(h0.payloadLen)))
		case 2:
			mut = "hvf-other-key"
			copy(*tgt, epicMacOwn(hopMacFull(r.Bytes(16), beta, vinf.Timestamp, vh.ExpTime, vh.ConsIngress, vh.ConsEgress),
				h0.srcType, ts0, epicTS, ctr, h0.srcIA, h0.srcAddr, uint16(h0.payloadLen)))
		case 3:
			mut = "hvf-stale-srcia"
			copy(*tgt, epicMacOwn(auth, h0.srcType, ts0, epicTS, ctr, h0.srcIA^(1<<uint(r.Intn(64))), h0.srcAddr, uint16(h0.payloadLen)))
		case 4:
			mut = "hvf-stale-srchost"
			sa := append([]byte(nil), h0.srcAddr...)
			sa[r.Intn(len(sa))] ^= byte(1 << r.Intn(8))
			copy(*tgt, epicMacOwn(auth, h0.srcType, ts0, epicTS, ctr, h0.srcIA, sa, uint16(h0.payloadLen)))
		case 5:
			mut = "hvf-stale-pktid"
			if r.Bool() {
				copy(*tgt, epicMacOwn(auth, h0.srcType, ts0, epicTS^(1<<uint(r.Intn(8))), ctr, h0.srcIA, h0.srcAddr, uint16(h0.payloadLen)))
			} else {
				copy(*tgt, epicMacOwn(auth, h0.srcType, ts0, epicTS, ctr^(1<<uint(r.Intn(32))), h0.srcIA, h0.srcAddr, uint16(h0.payloadLen)))
			}
		case 6:
			mut = "hvf-stale-len-or-ts"
			if r.Bool() {
				copy(*tgt, epicMacOwn(auth, h0.srcType, ts0, epicTS, ctr, h0.srcIA, h0.srcAddr, uint16(h0.payloadLen)^(1<<uint(r.Intn(8)))))
			} else {
				copy(*tgt, epicMacOwn(auth, h0.srcType, ts0^(1<<uint(r.Intn(8))), epicTS, ctr, h0.srcIA, h0.srcAddr, uint16(h0.payloadLen)))
			}
		case 7:
			mut = "hvf-swapped"
			phvf, lhvf = lhvf, phvf
		case 8:
			mut = "hvf-zero"
			copy(*tgt, []byte{0, 0, 0, 0})
		}
	}
	eh.PHVF, eh.LHVF = phvf, lhvf
	rawE := b.packet(r, eh, srcHost, rawSrc, srcType, pld)
	rawS := b.packet(r, nil, srcHost, rawSrc, srcType, pld)
	if r.Chance(4) {
		// a broken embedded path: both runs must fail alike
		mut = "inner-broken"
		he, _ := parseRawHdr(rawE)
		hs, _ := parseRawHdr(rawS)
		off := r.Intn(len(hs.pathRegion(rawS)))
		bit := byte(1 << r.Intn(8))
		rawS[12+hs.addrLen+off] ^= bit
		rawE[12+he.addrLen+16+off] ^= bit
	}

	var twin, er router.VerifR2Result
	var t0, t1 time.Time
	ans, ok := vlib.Safe(func() string {
		for try := 0; ; try++ {
			twin = a.dp.Process(rawS, sc.via)
			t0 = time.Now()
			er = a.dp.Process(rawE, sc.via)
			t1 = time.Now()
			if t1.Sub(t0) < 100*time.Millisecond || try > 3 {
				break
			}
		}
		vt, ve := view(twin, false), view(er, true)
		he, _ := parseRawHdr(rawE)
		same := vt.disp == ve.disp && vt.egress == ve.egress && vt.slowT == ve.slowT && vt.slowC == ve.slowC &&
			vt.remote == ve.remote && bytes.Equal(vt.path, ve.path)
		if same && ve.disp == router.VerifR2Forward {
			same = bytes.Equal(ve.epicHdr, he.pathRegion(rawE)[:16]) && bytes.Equal(vt.rest, ve.rest)
		}
		switch {
		case same:
			return "inner"
		case er.Disp == router.VerifR2Discard:
			return "drop"
		}
		return fmt.Sprintf("diff disp=%d egress=%d slow=%d/%d", er.Disp, er.Egress, er.SlowType, er.SlowCode)
	})
	he, _ := parseRawHdr(rawE)
	reg := he.pathRegion(rawE)
	inner := "other"
	if twin.Disp == router.VerifR2Forward {
		inner = "fwd"
	}
	op := fmt.Sprintf("epic %d %d %d %d %d %s %d %d %d %s %s %s %d %s %s", uint64(a.ia), a.ingressOf(sc.via), he.srcIA, he.dstIA,
		he.srcType&3, vlib.Hex(he.srcAddr), he.payloadLen, epicTS, ctr, vlib.Hex(reg[8:12]), vlib.Hex(reg[12:16]),
		vlib.Hex(reg[16:]), t0.UnixNano(), vlib.Hex(a.key), inner)
	relName := "other"
	if rel == 0 {
		relName = "last"
	} else if rel == 1 {
		relName = "penult"
	}
	xs := ""
	if sc.xover {
		xs = "x"
	}
	if sc.peering {
		xs = "p"
	}
	tag := fmt.Sprintf("%s%s/%s/%s/%s", relName, xs, tclass, mut, ans)
	if inner != "fwd" {
		tag = "~inner-not-forwarded/" + mut
		if mut != "inner-broken" {
			c.e.Extra["generator-miss:"+sc.name] = fmt.Sprintf("twin disp=%d slow=%d/%d", twin.Disp, twin.SlowType, twin.SlowCode)
		}
	}
	c.e.Op(op, ans, tag)
	c.e.Sample(map[string]any{"op": op, "impl": ans, "scenario": sc.name})
	if !ok {
		c.e.Violate("C13/panic", ans, map[string]any{"op": op, "raw": vlib.Hex(rawE)})
		return
	}
	// ---- property predicate (independent of the model) ----
	bad := func(key, what string) {
		c.e.Violate("C13/"+key, what, map[string]any{"op": op, "raw": vlib.Hex(rawE), "via": sc.via, "scenario": sc.name,
			"validated_hop": vIdx, "num_hops": b.total, "time": tclass, "mutation": mut, "impl": ans})
	}
	if rel >= 2 {
		if ans != "inner" {
			bad("other-hop-differs", "EPIC packet at a hop that is neither penultimate nor last is not processed like its embedded SCION path")
		}
		return
	}
	if er.Disp != router.VerifR2Forward {
		return
	}
	if ans != "inner" {
		bad("accepted-differs", "accepted EPIC packet is not forwarded like its embedded SCION path")
	}
	sender := int64(ts0)*1e9 + (int64(epicTS)+1)*21000
	if sender > t1.UnixNano()+1e9 || t0.UnixNano() > sender+3e9 {
		bad("stale-accepted", fmt.Sprintf("accepted at the %s hop although the packet timestamp is outside lifetime+skew (sender-now = %d ms)",
			relName, (sender-t0.UnixNano())/1e6))
	}
	hvf := reg[8:12]
	if rel == 0 {
		hvf = reg[12:16]
	}
	want := epicMacOwn(auth, he.srcType, ts0, epicTS, ctr, he.srcIA, he.srcAddr, uint16(he.payloadLen))
	if !bytes.Equal(hvf, want) {
		k := "bad-hvf-accepted"
		if sc.xover && rel == 1 {
			k = "xover-penultimate-unchecked"
		}
		bad(k, fmt.Sprintf("accepted at the %s hop although the hop validation field %x is not the EPIC MAC %x of that hop", relName, hvf, want))
	}
}

// direct: the two library functions with explicit arguments (exact boundaries, all address lengths).
func (c *c13) direct() {
	r := c.r
	n := c.e.N(6000, 60000)
	for k := 0; k < n; k++ {
		ts0 := uint32(r.Range(1_600_000_000, 1_900_000_000))
		pktTs := uint32(r.U64())
		if r.Chance(50) {
			pktTs = uint32(r.Intn(200000))
		}
		if r.Chance(25) {
			pktTs = []uint32{0, 1, 2, 1<<31 - 1, 1 << 31, 1<<31 + 1, 0xFFFFFFFE, 0xFFFFFFFF}[r.Intn(8)]
		}
		sender := int64(ts0)*1e9 + (int64(pktTs)+1)*21000
		var now int64
		switch r.Intn(8) {
		case 6:
			now = int64(ts0)*1e9 + int64(r.Range(-1000, 3000))*1e6 // the segment was created just now
		case 7:
			now = int64(ts0)*1e9 + int64(r.Range(-3, 3)) + []int64{-1e9, 0, 3e9}[r.Intn(3)]
		case 0:
			now = sender - 1e9 + int64(r.Range(-3, 3)) // future bound: sender > now + skew
		case 1:
			now = sender + 3e9 + int64(r.Range(-3, 3)) // expiry bound
		case 2:
			now = sender + int64(r.Range(-1100, 3100))*1e6
		case 3:
			now = sender - 1e9 + int64(r.Range(-2, 2))*21000
		case 4:
			now = sender + 3e9 + int64(r.Range(-2, 2))*21000
		default:
			now = sender + int64(r.Range(-100000, 100000))*1e6
		}
		err := libepic.VerifyTimestamp(time.Unix(int64(ts0), 0), pktTs, time.Unix(0, now))
		ans := "ok"
		if err != nil {
			ans = "bad"
		}
		c.e.Op(fmt.Sprintf("ets %d %d %d", ts0, pktTs, now), ans, "ets/"+ans)
		// statement: accepted only within lifetime + skew of the current time
		if err == nil && (sender > now+1e9 || now > sender+3e9) {
			c.e.Violate("C13/verify-timestamp", "VerifyTimestamp accepts a timestamp outside lifetime+skew",
				map[string]any{"ts0": ts0, "pktTs": pktTs, "now": now})
		}
	}
	for k := 0; k < n; k++ {
		auth := r.Bytes(16)
		l := []int{4, 8, 12, 16}[r.Intn(4)]
		s := &slayers.SCION{SrcIA: addr.IA(r.U64()), PayloadLen: uint16(r.Intn(65536))}
		s.SrcAddrType = slayers.AddrType(r.Intn(4)<<2 | (l/4 - 1))
		s.RawSrcAddr = r.Bytes(l)
		id := epic.PktID{Timestamp: uint32(r.U64()), Counter: uint32(r.U64())}
		ts0 := uint32(r.U64())
		mac, err := libepic.CalcMac(auth, id, s, ts0, nil)
		ans := "err"
		if err == nil {
			ans = vlib.Hex(mac)
		}
		c.e.Op(fmt.Sprintf("emac %s %d %s %d %d %d %d %d", vlib.Hex(auth), int(s.SrcAddrType)&3, vlib.Hex(s.RawSrcAddr), uint64(s.SrcIA),
			s.PayloadLen, ts0, id.Timestamp, id.Counter), ans, fmt.Sprintf("emac/%d", l))
		own := epicMacOwn(auth, byte(s.SrcAddrType), ts0, id.Timestamp, id.Counter, uint64(s.SrcIA), s.RawSrcAddr, s.PayloadLen)
		if err != nil || !bytes.Equal(own, mac) {
			c.e.Violate("C13/calcmac", "CalcMac differs from the specified EPIC MAC", map[string]any{"auth": vlib.Hex(auth), "src": vlib.Hex(s.RawSrcAddr)})
		}
		// VerifyHVF accepts exactly that value
		if libepic.VerifyHVF(auth, id, s, ts0, own, nil) != nil {
			c.e.Violate("C13/verifyhvf-rejects", "VerifyHVF rejects the correct HVF", map[string]any{"auth": vlib.Hex(auth)})
		}
		wrong := append([]byte(nil), own...)
		wrong[r.Intn(4)] ^= byte(1 << r.Intn(8))
		if libepic.VerifyHVF(auth, id, s, ts0, wrong, nil) == nil {
			c.e.Violate("C13/verifyhvf-accepts", "VerifyHVF accepts a wrong HVF", map[string]any{"auth": vlib.Hex(auth)})
		}
	}
}
