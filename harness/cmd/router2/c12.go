package main

// C12 — one-hop paths. Ops: one line per packet handed to the real fast path
//   ohp <localIA> <if:nbIA,...> <ingress> <srcIA> <dstIA> <hdrBytes> <addrLen> <dataLen> <payloadLen> <region> <resolves> <key>
// answer: drop | fwd <egress> <32 path bytes>
// The property predicate (independent of the model) is evaluated on every packet.

import (
	"bytes"
	"encoding/binary"
	"fmt"
	"strings"
	"time"

	"github.com/gopacket/gopacket/layers"

	"github.com/scionproto/scion/pkg/addr"
	"github.com/scionproto/scion/pkg/slayers"
	"github.com/scionproto/scion/pkg/slayers/path"
	"github.com/scionproto/scion/pkg/slayers/path/onehop"
	"github.com/scionproto/scion/pkg/slayers/path/scion"
	"github.com/scionproto/scion/private/topology"
	"github.com/scionproto/scion/router"

	"verifharness/vlib"
)

type dstKind int

const (
	dIP4 dstKind = iota
	dIP6
	dSvcCS
	dSvcCSM
	dSvcDS
	dIP4in6
	dUnspec4
	dUnspec6
)

func (k dstKind) host(r *vlib.Rand) addr.Host {
	switch k {
	case dIP4:
		return hostIP(fmt.Sprintf("10.%d.%d.%d", r.Intn(256), r.Intn(256), r.Range(1, 254)))
	case dIP6:
		return hostIP(fmt.Sprintf("2001:db8::%x", r.Range(1, 65535)))
	case dSvcCS:
		return addr.HostSVC(addr.SvcCS)
	case dSvcCSM:
		return addr.HostSVC(addr.SvcCS.Multicast())
	case dSvcDS:
		return addr.HostSVC(addr.SvcDS)
	case dIP4in6:
		return hostIP("2001:db8::4") // placeholder; the raw bytes are overwritten with ::ffff:10.1.2.3
	case dUnspec4:
		return hostIP("0.0.0.0")
	default:
		return hostIP("::")
	}
}

// resolvesLocally says, from the way the packet was built, whether a destination inside the
// local AS can be turned into an underlay address (C11 owns the details).
func resolvesLocally(k dstKind, l4 l4Kind, svcCS bool) bool {
	switch k {
	case dIP4, dIP6:
		return l4 != l4UDPShort
	case dSvcCS, dSvcCSM:
		return svcCS
	case dSvcDS:
		return false
	case dIP4in6, dUnspec4, dUnspec6:
		return false
	}
	return false
}

type ohpParams struct {
	src, dst   addr.IA
	srcHost    addr.Host
	dk         dstKind
	p          onehop.Path
	l4         l4Kind
	slack      int
	ext        int  // extension headers between SCION header and L4: 1 HBH, 2 E2E, 3 HBH+E2E
	hdrDelta   int  // added to the HdrLen field (in 4-byte lines) without moving any bytes
	cutTo      int  // >0: the packet is cut to that many bytes beyond the address header
	pldDelta   int  // added to the PayloadLen field after serialisation
	trunc      int  // bytes cut off / appended at the end of the packet
	reserved   bool // set reserved bits of the info/hop fields in the raw bytes
	mut        string
	resolvesOK bool
}

func (q *ohpParams) raw(r *vlib.Rand) []byte {
	pp := q.p
	s := &slayers.SCION{TrafficClass: uint8(r.Intn(256)), FlowID: uint32(r.Intn(1 << 20)),
		PathType: onehop.PathType, Path: &pp, SrcIA: q.src, DstIA: q.dst}
	if err := s.SetSrcAddr(q.srcHost); err != nil {
		panic(err)
	}
	if err := s.SetDstAddr(q.dk.host(r)); err != nil {
		panic(err)
	}
	if q.dk == dIP4in6 {
		s.RawDstAddr = []byte{0, 0, 0, 0, 0, 0, 0, 0, 0, 0, 0xff, 0xff, 10, 1, 2, 3}
	}
	raw := serializeSCION(s, q.l4, r)
	if q.ext != 0 {
		raw = withExtensions(raw, q.ext, r)
	}
	if q.reserved {
		h, _ := parseRawHdr(raw)
		off := 12 + h.addrLen
		raw[off] |= byte(r.Intn(64)) << 2 // info reserved flag bits
		raw[off+1] = byte(r.Intn(256))    // info RSV byte
		raw[off+8] |= byte(r.Intn(64)) << 2
		raw[off+20] |= byte(r.Intn(64)) << 2
	}
	if q.slack > 0 {
		raw = withSlack(raw, q.slack, r)
	}
	if q.hdrDelta != 0 {
		if v := int(raw[5]) + q.hdrDelta; v >= 0 && v <= 255 {
			raw[5] = byte(v)
		}
	}
	if q.cutTo > 0 {
		h, _ := parseRawHdr(raw)
		if n := 12 + h.addrLen + q.cutTo; n < len(raw) {
			raw = raw[:n]
		}
	}
	if q.pldDelta != 0 {
		v := int(binary.BigEndian.Uint16(raw[6:8])) + q.pldDelta
		if v < 0 {
			v = 65535
		}
		binary.BigEndian.PutUint16(raw[6:8], uint16(v))
	}
	if q.trunc < 0 {
		h, _ := parseRawHdr(raw)
		if n := len(raw) + q.trunc; n >= h.hdrBytes {
			raw = raw[:n]
		} else {
			raw = raw[:h.hdrBytes]
		}
	} else if q.trunc > 0 {
		raw = append(raw, r.Bytes(q.trunc)...)
	}
	return raw
}

// withExtensions inserts a hop-by-hop and/or end-to-end extension header (one PadN option filled with
// random bytes each) between the SCION header and the L4 header.
func withExtensions(raw []byte, ext int, r *vlib.Rand) []byte {
	h, ok := parseRawHdr(raw)
	if !ok || h.hdrBytes > len(raw) {
		return raw
	}
	mk := func(next byte) []byte {
		lines := r.Range(1, 3) // total length (lines+1)*4
		n := (lines + 1) * 4
		b := make([]byte, n)
		b[0], b[1] = next, byte(lines)
		b[2], b[3] = 1, byte(n-4) // PadN covering the rest
		copy(b[4:], r.Bytes(n-4))
		return b
	}
	l4 := raw[4]
	var extBytes []byte
	switch ext {
	case 1:
		extBytes = mk(l4)
		raw[4] = 200
	case 2:
		extBytes = mk(l4)
		raw[4] = 201
	default:
		e2e := mk(l4)
		extBytes = append(mk(201), e2e...)
		raw[4] = 200
	}
	out := append([]byte(nil), raw[:h.hdrBytes]...)
	out = append(out, extBytes...)
	out = append(out, raw[h.hdrBytes:]...)
	binary.BigEndian.PutUint16(out[6:8], uint16(h.payloadLen+len(extBytes)))
	return out
}

// changedBytes lists what a one-hop packet may differ in after processing (statement C07 for one-hop
// packets): leaving - the SegID; entering - the second hop field's 12 bytes; in both cases the reserved
// bits of the info/hop flag bytes and the info field's reserved byte are cleared by re-serialisation.
// It returns the offset of the first byte that changed although it must not (-1: none).
func changedBytes(in, out []byte, pathOff int, leaving bool) int {
	if len(in) != len(out) {
		return len(out)
	}
	for i := range in {
		if in[i] == out[i] {
			continue
		}
		o := i - pathOff
		switch {
		case o == 0 && out[i] == in[i]&0x03, o == 1 && out[i] == 0, o == 8 && out[i] == in[i]&0x03:
		case leaving && (o == 2 || o == 3):
		case leaving && o == 20 && out[i] == in[i]&0x03:
		case !leaving && o >= 20 && o < 32:
		default:
			return i
		}
	}
	return -1
}

type c12 struct {
	e *vlib.Env
	r *vlib.Rand
	// c03: serve property C03 - only the acceptance of reversed one-hop paths is judged
	c03 bool
	// c07: serve property C07 - only the byte-level statement for one-hop packets is judged
	c07 bool
}

// c07Classify compares a forwarded one-hop packet with the received one for statement C07: it returns
// "" (only SegID resp. second hop field changed), "length", "reserved" (in addition only reserved bits of
// the info/hop flag bytes or the info field's reserved byte were cleared) or "bytes", and the first
// offending offset.
func c07Classify(in, out []byte, pathOff int, leaving bool) (string, int) {
	if len(in) != len(out) {
		return "length", len(out)
	}
	reserved := -1
	for i := range in {
		if in[i] == out[i] {
			continue
		}
		o := i - pathOff
		switch {
		case leaving && (o == 2 || o == 3):
		case !leaving && o >= 20 && o < 32:
		case (o == 0 || o == 8 || (leaving && o == 20)) && out[i] == in[i]&0x03, o == 1 && out[i] == 0:
			if reserved < 0 {
				reserved = i
			}
		default:
			return "bytes", i
		}
	}
	if reserved >= 0 {
		return "reserved", reserved
	}
	return "", -1
}

func ohpOp(a *asCfg, via uint16, raw []byte, resolves bool) string {
	h, ok := parseRawHdr(raw)
	if !ok {
		panic("c12: generator produced a packet without full address header")
	}
	res := 0
	if resolves {
		res = 1
	}
	return fmt.Sprintf("ohp %d %s %d %d %d %d %d %d %d %s %d %s", uint64(a.ia), a.nbString(), a.ingressOf(via),
		h.srcIA, h.dstIA, h.hdrBytes, h.addrLen, len(raw), h.payloadLen, vlib.Hex(h.pathRegion(raw)), res, vlib.Hex(a.key))
}

func ohpAnswer(res router.VerifR2Result, in []byte) string {
	switch res.Disp {
	case router.VerifR2Discard:
		return "drop"
	case router.VerifR2Forward:
		h, ok := parseRawHdr(res.Out)
		if !ok || len(res.Out) < 12+h.addrLen+32 {
			return fmt.Sprintf("fwd %d short", res.Egress)
		}
		return fmt.Sprintf("fwd %d %s", res.Egress, vlib.Hex(res.Out[12+h.addrLen:12+h.addrLen+32]))
	}
	return fmt.Sprintf("disp%d", res.Disp)
}

// step runs one packet through the real router, writes the correspondence line and evaluates the
// property predicate. It returns the router's result.
func (c *c12) step(a *asCfg, via uint16, raw []byte, resolves bool, tag string) router.VerifR2Result {
	var res router.VerifR2Result
	ans, ok := vlib.Safe(func() string {
		res = a.dp.Process(raw, via)
		return ohpAnswer(res, raw)
	})
	op := ohpOp(a, via, raw, resolves)
	full := tag
	if ok {
		if res.Disp == router.VerifR2Forward {
			full = tag + "/fwd"
		} else {
			full = tag + "/drop"
		}
	}
	trivial := ""
	if !ok {
		c.e.Violate("C12/panic", ans, map[string]any{"op": op, "raw": vlib.Hex(raw), "via": via})
	}
	c.e.Op(op, ans, trivial+full)
	c.e.Sample(map[string]any{"op": op, "impl": ans})
	if ok {
		c.predicate(a, via, raw, res, op)
	}
	return res
}

// predicate: the statement of C12 evaluated on what the implementation did with this packet.
func (c *c12) predicate(a *asCfg, via uint16, raw []byte, res router.VerifR2Result, op string) {
	if res.Disp != router.VerifR2Forward {
		return
	}
	bad := func(key, what string) {
		if c.c07 || c.c03 {
			return // C12's clauses are judged by ./check C12
		}
		c.e.Violate("C12/"+key, what, map[string]any{"op": op, "raw": vlib.Hex(raw), "via": via,
			"local": a.ia.String(), "out": vlib.Hex(res.Out), "egress": res.Egress})
	}
	h, _ := parseRawHdr(raw)
	if c.c07 {
		leaving := a.ingressOf(via) == 0
		kind, off := c07Classify(raw, res.Out, 12+h.addrLen, leaving)
		rep := map[string]any{"op": op, "raw": vlib.Hex(raw), "via": via, "local": a.ia.String(), "out": vlib.Hex(res.Out),
			"egress": res.Egress, "leaving": leaving, "offset": off, "path_offset": 12 + h.addrLen}
		switch kind {
		case "length":
			c.e.Violate("C07/ohp-length-changed", fmt.Sprintf("one-hop packet forwarded with another length (%d -> %d)", len(raw), len(res.Out)), rep)
		case "bytes":
			c.e.Violate("C07/ohp-bytes-changed", fmt.Sprintf("forwarded one-hop packet differs from the received one at offset %d, outside the segment identifier / second hop field", off), rep)
		case "reserved":
			c.e.Violate("C07/reserved-bits-cleared", fmt.Sprintf("byte %d: reserved bits of the one-hop path's info / hop field cleared by re-serialisation (%02x -> %02x)", off, raw[off], res.Out[off]), rep)
		}
		return
	}
	reg := h.pathRegion(raw)
	if len(reg) < 32 {
		bad("short-path", "forwarded a packet whose header leaves less than 32 bytes for the one-hop path")
		return
	}
	segID := binary.BigEndian.Uint16(reg[2:4])
	ts := binary.BigEndian.Uint32(reg[4:8])
	exp1 := reg[9]
	ci1, ce1 := binary.BigEndian.Uint16(reg[10:12]), binary.BigEndian.Uint16(reg[12:14])
	mac1 := reg[14:20]
	// the output must still be a one-hop packet between the same end points
	out, err := decodeSCION(res.Out)
	if err != nil {
		bad("out-undecodable", "forwarded packet no longer decodes: "+err.Error())
		return
	}
	oh, ok := out.Path.(*onehop.Path)
	if !ok || uint64(out.SrcIA) != h.srcIA || uint64(out.DstIA) != h.dstIA ||
		!bytes.Equal(out.RawSrcAddr, h.srcAddr) || !bytes.Equal(out.RawDstAddr, h.dstAddr) ||
		!bytes.Equal(out.Payload, raw[h.hdrBytes:]) {
		bad("out-garbled", "forwarded packet differs from the received one outside the path")
		return
	}
	if i := changedBytes(raw, res.Out, 12+h.addrLen, a.ingressOf(via) == 0); i >= 0 {
		bad("bytes-changed", fmt.Sprintf("forwarded one-hop packet differs from the received one at offset %d (length %d -> %d), outside SegID / second hop field", i, len(raw), len(res.Out)))
	}
	if h.payloadLen != len(raw)-h.hdrBytes {
		bad("payloadlen", "forwarded although PayloadLen disagrees with the bytes after the header")
	}
	internalSide := a.ingressOf(via) == 0
	if internalSide {
		// leaves the AS: source local, first hop MAC valid for this router, destination is the
		// neighbour behind the first hop's egress interface
		if res.Egress == 0 {
			bad("out-egress0", "one-hop packet from the internal side forwarded to the internal interface")
		}
		if h.srcIA != uint64(a.ia) {
			bad("out-src", "sent out although the source is not the local AS")
		}
		want := hopMacFull(a.key, segID, ts, exp1, ci1, ce1)[:6]
		if !bytes.Equal(want, mac1) {
			bad("out-mac", "sent out although the first hop field's MAC is not valid for this router")
		}
		nb := a.ifByID(ce1)
		if nb == nil || uint64(nb.nb) != h.dstIA {
			bad("out-dst", "sent out although the destination is not the neighbour behind the first hop's egress interface")
		}
		if res.Egress != ce1 {
			bad("out-egress", "sent out of an interface that is not the first hop's egress interface")
		}
		// the path continues to verify downstream: SegID accumulates the first hop's MAC
		if oh.Info.SegID != segID^binary.BigEndian.Uint16(mac1[:2]) || oh.Info.Timestamp != ts ||
			oh.FirstHop.Mac != [6]byte(mac1) || oh.FirstHop.ConsEgress != ce1 || oh.FirstHop.ConsIngress != ci1 {
			bad("out-path", "first hop / info field not carried over as specified")
		}
		return
	}
	// enters the AS over an external link
	if res.Egress != 0 {
		bad("in-egress", "incoming one-hop packet forwarded to a non-internal interface")
	}
	if h.dstIA != uint64(a.ia) {
		bad("in-dst", "accepted although the destination is not the local AS")
	}
	nb := a.ifByID(via)
	if nb == nil || uint64(nb.nb) != h.srcIA {
		bad("in-src", "accepted although the source is not the neighbour on the receiving interface")
	}
	// second hop field: valid for this router on the interface it came in
	sh := oh.SecondHop
	want := hopMacFull(a.key, oh.Info.SegID, oh.Info.Timestamp, sh.ExpTime, sh.ConsIngress, sh.ConsEgress)[:6]
	if sh.ConsIngress != via || sh.ConsEgress != 0 || !bytes.Equal(want, sh.Mac[:]) || sh.ExpTime != exp1 {
		bad("in-second-hop", "second hop field filled in is not valid (interface, expiry or MAC)")
	}
	if oh.Info.SegID != segID || oh.Info.Timestamp != ts || oh.FirstHop.Mac != [6]byte(mac1) ||
		oh.FirstHop.ConsEgress != ce1 {
		bad("in-path", "info field / first hop changed by the receiving router")
	}
}

// reversal: the completed one-hop path, reversed by the destination, is accepted by the local
// router (B, from the internal side) and by the neighbour (A, over the external link).
func (c *c12) reversal(a, b *asCfg, aIf, bIf uint16, completed []byte, op string) {
	if c.c07 {
		return
	}
	if c.c03 && !strings.HasPrefix(op, "own-completion") && !strings.HasPrefix(op, "chain") && !strings.HasPrefix(op, "built") {
		return
	}
	bad := func(key, what string, extra map[string]any) {
		m := map[string]any{"op": op, "completed": vlib.Hex(completed), "A": a.ia.String(), "B": b.ia.String()}
		for k, v := range extra {
			m[k] = v
		}
		if c.c03 {
			m["stage"] = key
			c.e.Violate("C03/ohp-reverse-rejected", what, m)
			return
		}
		c.e.Violate("C12/"+key, what, m)
	}
	s, err := decodeSCION(completed)
	if err != nil {
		return // reported by predicate
	}
	oh := s.Path.(*onehop.Path)
	// only paths that A really issued and that are still unexpired must be accepted on the way back
	orig := oh.Info.SegID ^ binary.BigEndian.Uint16(oh.FirstHop.Mac[:2])
	wantA := hopMacFull(a.key, orig, oh.Info.Timestamp, oh.FirstHop.ExpTime, oh.FirstHop.ConsIngress, oh.FirstHop.ConsEgress)
	expiry := int64(oh.Info.Timestamp) + (int64(oh.FirstHop.ExpTime)+1)*86400/256
	if !bytes.Equal(wantA[:6], oh.FirstHop.Mac[:]) || oh.FirstHop.ConsEgress != aIf || expiry < int64(nowSec())+5 ||
		oh.FirstHop.IngressRouterAlert || oh.FirstHop.EgressRouterAlert { // alerts divert to the traceroute slow path
		return
	}
	rp, err := oh.Reverse()
	if err != nil {
		bad("reverse", "completed one-hop path cannot be reversed: "+err.Error(), nil)
		return
	}
	dec := rp.(*scion.Decoded)
	reply := &slayers.SCION{PathType: scion.PathType, Path: dec, SrcIA: s.DstIA, DstIA: s.SrcIA}
	_ = reply.SetSrcAddr(hostIP("10.9.9.9"))
	_ = reply.SetDstAddr(hostIP("10.8.8.8"))
	raw := serializeSCION(reply, l4UDP, c.r)
	r1 := b.dp.Process(raw, 0)
	c.e.Case("rev-b:"+vlib.Hex(raw), "reverse/at-B", false)
	if r1.Disp != router.VerifR2Forward || r1.Egress != bIf {
		bad("reverse-b", fmt.Sprintf("reversed one-hop path not forwarded by the completing router: disp=%d egress=%d slow=%d/%d", r1.Disp, r1.Egress, r1.SlowType, r1.SlowCode),
			map[string]any{"reply": vlib.Hex(raw)})
		return
	}
	r2 := a.dp.Process(r1.Out, aIf)
	c.e.Case("rev-a:"+vlib.Hex(r1.Out), "reverse/at-A", false)
	if r2.Disp != router.VerifR2Forward || r2.Egress != 0 {
		bad("reverse-a", fmt.Sprintf("reversed one-hop path not accepted by the issuing router: disp=%d egress=%d slow=%d/%d", r2.Disp, r2.Egress, r2.SlowType, r2.SlowCode),
			map[string]any{"reply": vlib.Hex(r1.Out)})
	}
}

// concurrent: several packet processors of one data plane (one per goroutine, as in the router) handle
// valid one-hop packets at the same time; every packet must be treated exactly as by a single processor.
func (c *c12) concurrent(A, B *asCfg, aIf, bIf uint16, per int) {
	r := c.r
	const G = 4
	mkLists := func(x *asCfg, leaving bool) [][]router.VerifR2LoopPacket {
		lists := make([][]router.VerifR2LoopPacket, G)
		for g := 0; g < G; g++ {
			for k := 0; k < per; k++ {
				ts := nowSec() - uint32(r.Intn(600))
				first := path.HopField{ConsEgress: aIf, ExpTime: uint8(r.Range(1, 255))}
				info := path.InfoField{ConsDir: true, SegID: uint16(r.Intn(65536)), Timestamp: ts}
				copy(first.Mac[:], hopMacFull(A.key, info.SegID, ts, first.ExpTime, 0, aIf)[:6])
				q := ohpParams{src: A.ia, dst: B.ia, srcHost: randHost(r), dk: dIP4, p: onehop.Path{Info: info, FirstHop: first}, l4: l4UDP}
				via := uint16(0)
				if !leaving {
					q.p.Info.SegID ^= binary.BigEndian.Uint16(first.Mac[:2])
					via = bIf
				}
				lists[g] = append(lists[g], router.VerifR2LoopPacket{Raw: q.raw(r), Via: via})
			}
		}
		return lists
	}
	for _, side := range []struct {
		x       *asCfg
		leaving bool
	}{{A, true}, {B, false}} {
		lists := mkLists(side.x, side.leaving)
		seq := make([][]router.VerifR2Result, G)
		for g := range lists {
			for _, lp := range lists[g] {
				seq[g] = append(seq[g], side.x.dp.Process(lp.Raw, lp.Via))
			}
		}
		var conc [][]router.VerifR2Result
		if msg, ok := vlib.Safe(func() string { conc = side.x.dp.ProcessConcurrent(lists); return "" }); !ok {
			c.e.Violate("C12/concurrent-panic", msg, map[string]any{"local": side.x.ia.String()})
			continue
		}
		for g := range lists {
			for k := range lists[g] {
				s, cc := seq[g][k], conc[g][k]
				c.e.Case("conc:"+vlib.Hex(lists[g][k].Raw), fmt.Sprintf("concurrent/leaving=%v/disp%d", side.leaving, cc.Disp), false)
				if s.Disp != router.VerifR2Forward {
					c.e.Extra["generator-miss:concurrent"] = fmt.Sprintf("sequential disp=%d", s.Disp)
					continue
				}
				if cc.Disp != s.Disp || cc.Egress != s.Egress || !bytes.Equal(cc.Out, s.Out) {
					what := "valid one-hop packet rejected"
					if cc.Disp == router.VerifR2Forward {
						what = "one-hop packet forwarded with different bytes (second hop MAC / SegID)"
					}
					c.e.Violate("C12/concurrent-differs", fmt.Sprintf("%d packet processors working concurrently: %s although a single processor accepts it (disp %d, panic/info %q)", G, what, cc.Disp, cc.Remote),
						map[string]any{"raw": vlib.Hex(lists[g][k].Raw), "via": lists[g][k].Via, "local": side.x.ia.String(), "key": vlib.Hex(side.x.key),
							"sequential_out": vlib.Hex(s.Out), "concurrent_out": vlib.Hex(cc.Out), "goroutine": g, "index": k})
				}
			}
		}
	}
}

// reversalOwnCompletion: the one-hop path completed not by B's router (which copies the first hop's
// expiry) but the way B's control service extends it: a second hop field of B's own with ANOTHER expiry,
// MAC under B's key over the accumulated SegID. The reversed path must still pass both routers.
func (c *c12) reversalOwnCompletion(a, b *asCfg, aIf, bIf uint16, issued []byte, tag string) {
	s, err := decodeSCION(issued)
	if err != nil {
		return
	}
	oh, ok := s.Path.(*onehop.Path)
	if !ok {
		return
	}
	exp2 := uint8(c.r.Range(30, 255))
	if exp2 == oh.FirstHop.ExpTime {
		exp2--
	}
	sh := path.HopField{ConsIngress: bIf, ExpTime: exp2}
	copy(sh.Mac[:], hopMacFull(b.key, oh.Info.SegID, oh.Info.Timestamp, exp2, bIf, 0)[:6])
	oh.SecondHop = sh
	hdr, _ := parseRawHdr(issued)
	completed := append([]byte(nil), issued...)
	if err := oh.SerializeTo(completed[12+hdr.addrLen:]); err != nil {
		return
	}
	c.reversal(a, b, aIf, bIf, completed, "own-completion:"+tag)
}

func (c *c12) mkPair(i int) (*asCfg, *asCfg, uint16, uint16) {
	r := c.r
	A := &asCfg{ia: ia(1, 0xff0000000110+uint64(i%3)), key: r.Bytes(16), reuse: r.Bool(), svcCS: r.Chance(80)}
	B := &asCfg{ia: ia(1+i%2, 0xff0000000210+uint64(i%5)), key: r.Bytes(16), reuse: r.Bool(), svcCS: r.Chance(80)}
	aIf, bIf := uint16(r.Range(1, 40)), uint16(r.Range(1, 40))
	lt := []topology.LinkType{topology.Core, topology.Parent, topology.Child, topology.Peer}
	A.ifs = []ifc{
		{id: aIf, linkTo: lt[r.Intn(4)], nb: B.ia, remote: "203.0.113.1:3333"},
		{id: aIf + 1, linkTo: lt[r.Intn(4)], nb: ia(1, 0xff0000000300), remote: "203.0.113.2:3333"},
		{id: aIf + 2, sibling: true, linkTo: lt[r.Intn(4)], nb: ia(2, 0xff0000000400), remote: "198.51.100.2:3333"},
		{id: aIf + 3, sibling: true, linkTo: lt[r.Intn(4)], nb: B.ia, remote: "198.51.100.2:3333"},
	}
	B.ifs = []ifc{
		{id: bIf, linkTo: lt[r.Intn(4)], nb: A.ia, remote: "203.0.113.1:3333"},
		{id: bIf + 1, linkTo: lt[r.Intn(4)], nb: ia(1, 0xff0000000300), remote: "203.0.113.2:3333"},
		{id: bIf + 2, sibling: true, linkTo: lt[r.Intn(4)], nb: ia(2, 0xff0000000400), remote: "198.51.100.2:3333"},
	}
	for _, x := range []*asCfg{A, B} {
		if err := x.build(3, 0, 0); err != nil {
			panic(err)
		}
	}
	return A, B, aIf, bIf
}

// bfdSendCases: the one-hop packets the router's own BFD sender emits (bfdSend.Send) meet the rule for
// issuing one-hop packets; and a one-hop packet carrying BFD that is received is consumed, never forwarded.
func (c *c12) bfdSendCases(n int) {
	r := c.r
	for k := 0; k < n; k++ {
		a := stdAS(r, map[uint16]bool{ifP: true, ifC: true, ifK: true, ifK2: r.Bool(), ifSC: true, ifSK: true})
		if err := a.build(3, time.Second, time.Second); err != nil {
			panic(err)
		}
		for _, id := range []uint16{ifP, ifC, ifK, ifK2, ifSC, ifSK} {
			if !a.linkHasBFD(id) {
				continue
			}
			m := &layers.BFD{Version: 1, State: layers.BFDState(r.Intn(4)), DetectMultiplier: 3, MyDiscriminator: layers.BFDDiscriminator(r.Range(1, 1<<30)),
				DesiredMinTxInterval: 1000000, RequiredMinRxInterval: 1000000}
			raw, err := a.dp.BFDSend(id, m)
			if err != nil {
				c.e.Violate("C12/bfdsend-failed", err.Error(), map[string]any{"if": id})
				continue
			}
			h, ok := parseRawHdr(raw)
			rep := map[string]any{"if": id, "raw": vlib.Hex(raw), "local": a.ia.String()}
			if !ok {
				c.e.Violate("C12/bfdsend-garbled", "BFD packet without address header", rep)
				continue
			}
			ifc := a.ifByID(id)
			if ifc.sibling {
				// between sibling routers: empty path, stays inside the AS
				c.e.Case("bfdsend-sib:"+vlib.Hex(raw), "bfdsend/sibling", false)
				if h.pathType != 0 || h.srcIA != uint64(a.ia) || h.dstIA != uint64(a.ia) {
					c.e.Violate("C12/bfdsend-sibling", "BFD packet to a sibling router is not an intra-AS empty-path packet", rep)
				}
				continue
			}
			reg := h.pathRegion(raw)
			if h.pathType != 2 || len(reg) != 32 || h.nextHdr != 203 {
				c.e.Violate("C12/bfdsend-shape", "BFD packet on an external link is not a one-hop packet carrying BFD", rep)
				continue
			}
			segID := binary.BigEndian.Uint16(reg[2:4])
			ts := binary.BigEndian.Uint32(reg[4:8])
			ce := binary.BigEndian.Uint16(reg[12:14])
			want := hopMacFull(a.key, segID, ts, reg[9], binary.BigEndian.Uint16(reg[10:12]), ce)[:6]
			if h.srcIA != uint64(a.ia) || h.dstIA != uint64(ifc.nb) || ce != id || reg[0]&1 != 1 || !bytes.Equal(want, reg[14:20]) {
				c.e.Violate("C12/bfdsend-rule", "the router's own one-hop BFD packet does not meet the issuing rule (source local, destination = neighbour of the egress interface, MAC valid)", rep)
			}
			// the same packet with next header UDP must pass the real processOHP and the model
			asUDP := append([]byte(nil), raw...)
			asUDP[4] = 17
			c.step(a, 0, asUDP, false, "bfdsend")
			// received back on an external link it is consumed by the BFD session, never forwarded
			res := a.dp.Process(raw, id)
			c.e.Case("bfdrecv:"+vlib.Hex(raw), fmt.Sprintf("bfd-over-onehop/disp%d", res.Disp), false)
			if res.Disp == router.VerifR2Forward || res.Disp == router.VerifR2Slow {
				c.e.Violate("C12/bfd-onehop-forwarded", "a one-hop packet carrying BFD was not consumed", rep)
			}
		}
	}
}

func (c *c12) run() {
	e, r := c.e, c.r
	e.Rule = "pairs of neighbouring ASes (random keys, interface ids, link types, one sibling-owned interface each); " +
		"one-hop packets built with the repository's serializer: valid issue at A -> completion at B -> reversed path through B and A, " +
		"plus one named mutation per packet (source/destination AS, egress interface, MAC byte, other key, ConsDir, SegID, " +
		"second hop prefilled, reserved bits, HdrLen slack, destination host kind, L4 kind, wrong receiving interface), 30% with HBH / E2E / HBH+E2E extension headers; " +
		"4 packet processors of one data plane handling valid one-hop packets concurrently vs. one processor; " +
		"non-trivial = every packet (all reach processOHP or the header decoder's length check); distinct by op line"
	if !c.c07 && !c.c03 {
		c.bfdSendCases(e.N(12, 120))
	}
	npairs := e.N(24, 200)
	per := e.N(500, 4000)
	other := ia(3, 0xff0000000999)
	for pi := 0; pi < npairs; pi++ {
		A, B, aIf, bIf := c.mkPair(pi)
		if pi < e.N(3, 12) && !c.c07 && !c.c03 {
			c.concurrent(A, B, aIf, bIf, e.N(800, 4000))
		}
		for k := 0; k < per; k++ {
			now := nowSec()
			ts := now - uint32(r.Intn(600))
			first := path.HopField{ConsIngress: 0, ConsEgress: aIf, ExpTime: uint8(r.Range(1, 255))}
			if r.Chance(10) {
				first.ConsIngress = uint16(r.Intn(65536)) // not checked by anyone, part of the MAC
			}
			info := path.InfoField{ConsDir: true, SegID: uint16(r.Intn(65536)), Timestamp: ts}
			full := hopMacFull(A.key, info.SegID, ts, first.ExpTime, first.ConsIngress, first.ConsEgress)
			copy(first.Mac[:], full[:6])
			q := ohpParams{src: A.ia, dst: B.ia, srcHost: randHost(r), dk: dstKind(r.Intn(2)),
				p: onehop.Path{Info: info, FirstHop: first}, l4: l4UDP}
			if r.Chance(25) {
				q.dk = dstKind(r.Intn(8))
			}
			if r.Chance(20) {
				q.l4 = l4Kind(r.Intn(4))
			}
			if r.Chance(30) {
				q.ext = r.Range(1, 3)
			}
			viaA := uint16(0)
			if r.Chance(25) {
				viaA = aIf + 2 // arrives over the sibling link
			}
			mut := "valid"
			remac := func() {
				f := hopMacFull(A.key, q.p.Info.SegID, q.p.Info.Timestamp, q.p.FirstHop.ExpTime, q.p.FirstHop.ConsIngress, q.p.FirstHop.ConsEgress)
				copy(q.p.FirstHop.Mac[:], f[:6])
			}
			inOnly := false
			if r.Chance(55) {
				switch m := r.Intn(23); m {
				case 0:
					mut, q.src = "src-other", other
				case 1:
					mut, q.src = "src-neighbour", B.ia
				case 2:
					mut, q.dst = "dst-other", other
				case 3:
					mut, q.dst = "dst-local", A.ia
				case 4:
					mut = "egress-other-neighbour"
					q.p.FirstHop.ConsEgress = aIf + 1
					remac()
				case 5:
					mut = "egress-unknown"
					q.p.FirstHop.ConsEgress = aIf + 7
					remac()
				case 6:
					mut = "egress-zero"
					q.p.FirstHop.ConsEgress = 0
					remac()
				case 7:
					mut = "egress-sibling-owned"
					q.p.FirstHop.ConsEgress = aIf + 3
					remac()
				case 8:
					mut = "mac-flip"
					q.p.FirstHop.Mac[r.Intn(6)] ^= byte(1 << r.Intn(8))
				case 9:
					mut = "mac-other-key"
					f := hopMacFull(B.key, info.SegID, ts, first.ExpTime, first.ConsIngress, first.ConsEgress)
					copy(q.p.FirstHop.Mac[:], f[:6])
				case 10:
					mut = "mac-stale-segid"
					q.p.Info.SegID ^= uint16(1 << r.Intn(16))
				case 11:
					mut = "mac-stale-field"
					switch r.Intn(3) {
					case 0:
						q.p.Info.Timestamp ^= 1 << r.Intn(32)
					case 1:
						q.p.FirstHop.ExpTime ^= byte(1 << r.Intn(8))
					default:
						q.p.FirstHop.ConsIngress ^= uint16(1 << r.Intn(16))
					}
				case 12:
					mut = "consdir-false"
					q.p.Info.ConsDir = false
				case 13:
					mut = "flags"
					q.p.Info.Peer = r.Bool()
					q.p.FirstHop.EgressRouterAlert = r.Bool()
					q.p.FirstHop.IngressRouterAlert = r.Bool()
					q.reserved = r.Bool()
				case 14:
					mut = "second-prefilled"
					q.p.SecondHop = path.HopField{ConsIngress: uint16(r.Intn(65536)), ConsEgress: uint16(r.Intn(65536)), ExpTime: uint8(r.Intn(256)), IngressRouterAlert: r.Bool()}
					copy(q.p.SecondHop.Mac[:], r.Bytes(6))
				case 15:
					mut = "slack"
					q.slack = r.Range(1, 3)
				case 16:
					mut = "expired"
					q.p.Info.Timestamp = now - uint32(r.Range(100000, 10000000))
					remac()
				case 21:
					mut = "hdrlen-field"
					q.hdrDelta = []int{-1, -2, -8, -9, -12, -17, 1}[r.Intn(7)]
				case 22:
					mut = "cut-in-header"
					q.cutTo = r.Range(1, 31)
				case 19:
					mut = "payloadlen-field"
					q.pldDelta = []int{-1, 1, -8, 8, 255}[r.Intn(5)]
				case 20:
					mut = "payload-bytes"
					q.trunc = []int{-1, 1, -8, 4}[r.Intn(4)]
				case 17:
					mut, inOnly = "in-wrong-interface", true
				case 18:
					mut, inOnly = "in-mutated", true
				}
			}
			q.mut = mut
			rawA := q.raw(r)
			var resA router.VerifR2Result
			if !inOnly {
				resA = c.step(A, viaA, rawA, false, "out/"+mut)
			}
			// second step: the packet as it arrives at B
			switch {
			case inOnly || r.Chance(30):
				// built directly (A's egress SegID update applied by hand), possibly mutated
				q2 := q
				q2.p.Info.SegID = q.p.Info.SegID ^ binary.BigEndian.Uint16(q.p.FirstHop.Mac[:2])
				viaB := bIf
				tag := "in/" + mut
				if mut == "in-wrong-interface" {
					viaB = bIf + 1
				}
				if mut == "in-mutated" {
					switch r.Intn(10) {
					case 8:
						q2.hdrDelta, tag = []int{-1, -3, -9, -20, 2}[r.Intn(5)], "in/hdrlen-field"
					case 9:
						q2.cutTo, tag = r.Range(1, 31), "in/cut-in-header"
					case 6:
						q2.pldDelta, tag = []int{-1, 1, 8}[r.Intn(3)], "in/payloadlen-field"
					case 7:
						q2.trunc, tag = []int{-1, 1, 4}[r.Intn(3)], "in/payload-bytes"
					case 0:
						q2.dst, tag = other, "in/dst-other"
					case 1:
						q2.src, tag = other, "in/src-other"
					case 2:
						q2.src, tag = B.ia, "in/src-local"
					case 3:
						q2.slack, tag = r.Range(1, 3), "in/slack"
					case 4:
						q2.p.Info.ConsDir, tag = false, "in/consdir-false"
					case 5:
						q2.src, q2.dst, tag = B.ia, A.ia, "in/swapped"
					}
				}
				raw2 := q2.raw(r)
				res2 := c.step(B, viaB, raw2, resolvesLocally(q2.dk, q2.l4, B.svcCS), tag)
				if res2.Disp == router.VerifR2Forward && viaB == bIf && q2.p.FirstHop.ConsEgress == aIf && tag != "in/slack" {
					c.reversal(A, B, aIf, bIf, res2.Out, "built:"+tag)
				}
			case resA.Disp == router.VerifR2Forward && resA.Egress == aIf:
				res2 := c.step(B, bIf, resA.Out, resolvesLocally(q.dk, q.l4, B.svcCS), "chain/"+mut)
				if res2.Disp == router.VerifR2Forward {
					c.reversal(A, B, aIf, bIf, res2.Out, "chain:"+mut)
				}
				if q.slack == 0 && q.ext == 0 && q.pldDelta == 0 && q.trunc == 0 && q.hdrDelta == 0 && q.cutTo == 0 {
					c.reversalOwnCompletion(A, B, aIf, bIf, resA.Out, mut)
				}
			}
		}
	}
}
