package main

// Generator of SCION paths that the real process() of a given AS forwards (or delivers), written
// from the protocol rules: which interface pairs may be combined, how the SegID chains.

import (
	"encoding/binary"
	"fmt"

	"github.com/scionproto/scion/pkg/addr"
	"github.com/scionproto/scion/pkg/slayers"
	"github.com/scionproto/scion/pkg/slayers/path"
	"github.com/scionproto/scion/pkg/slayers/path/epic"
	"github.com/scionproto/scion/pkg/slayers/path/scion"
	"github.com/scionproto/scion/private/topology"

	"verifharness/vlib"
)

// interface ids of the standard test AS
const (
	ifP  = 1 // parent, owned
	ifC  = 2 // child, owned
	ifC2 = 3 // child, owned
	ifK  = 4 // core, owned
	ifK2 = 5 // core, owned
	ifPE = 6 // peer, owned
	ifSC = 7 // child, owned by sibling router S1
	ifSP = 8 // parent, owned by sibling router S1
	ifSK = 9 // core, owned by sibling router S2
)

func stdAS(r *vlib.Rand, bfd map[uint16]bool) *asCfg {
	a := &asCfg{ia: ia(1, 0xff0000000110), key: r.Bytes(16), reuse: r.Bool(), svcCS: true}
	mk := func(id uint16, sib bool, lt topology.LinkType, nb uint64, remote string) {
		a.ifs = append(a.ifs, ifc{id: id, sibling: sib, linkTo: lt, nb: ia(1, nb), bfd: bfd[id], remote: remote})
	}
	mk(ifP, false, topology.Parent, 0xff0000000001, "203.0.113.1:3333")
	mk(ifC, false, topology.Child, 0xff0000000002, "203.0.113.2:3333")
	mk(ifC2, false, topology.Child, 0xff0000000003, "203.0.113.3:3333")
	mk(ifK, false, topology.Core, 0xff0000000004, "203.0.113.4:3333")
	mk(ifK2, false, topology.Core, 0xff0000000005, "203.0.113.5:3333")
	mk(ifPE, false, topology.Peer, 0xff0000000006, "203.0.113.6:3333")
	mk(ifSC, true, topology.Child, 0xff0000000007, "198.51.100.7:3333")
	mk(ifSP, true, topology.Parent, 0xff0000000008, "198.51.100.7:3333")
	mk(ifSK, true, topology.Core, 0xff0000000009, "198.51.100.9:3333")
	return a
}

func (a *asCfg) linkType(id uint16) topology.LinkType {
	if i := a.ifByID(id); i != nil {
		return i.linkTo
	}
	return topology.Unset
}

// scenario is one packet position at the local AS.
type scenario struct {
	name      string
	via       uint16 // interface whose link delivers the packet (0 internal)
	egress    uint16 // interface the packet must leave through (0: delivered locally)
	xover     bool   // effective cross-over inside this AS
	segLens   []int
	curSeg    int
	curHop    int // absolute index of the arrival hop
	consDir   []bool
	srcLocal  bool
	dstLocal  bool
	peering   bool   // both info fields carry the Peer flag; the local hop is one of the two peering hops
	expireSeg int    // 1+index of the segment whose local hop is expired although its MAC is valid (0: none)
	expireAt  uint32 // if non-zero: that hop expires at this Unix time (else: long ago)
	validated int    // absolute index of the hop validated last in this AS
}

type builtPath struct {
	sc    scenario
	dec   *scion.Decoded
	src   addr.IA
	dst   addr.IA
	total int
}

// ifPairs: (ConsIngress, ConsEgress) pairs of a transit hop at the local AS within one segment
var transitPairs = [][2]uint16{{ifP, ifC}, {ifP, ifC2}, {ifK, ifK2}, {ifK2, ifK}, {ifP, ifSC}, {ifSP, ifC}, {ifK, ifSK}, {ifSK, ifK2}}

// randScenario picks a position/shape. kind: 0 transit, 1 xover, 2 deliver, 3 originate
func randScenario(a *asCfg, r *vlib.Rand, kind int, wantRel int) (scenario, [2]path.HopField) {
	// wantRel: desired distance of the validated hop from the end: 0 last, 1 penultimate, >=2 other, -1 any
	var sc scenario
	var hops [2]path.HopField
	isSib := func(id uint16) bool { i := a.ifByID(id); return i != nil && i.sibling }
	switch kind {
	case 0: // transit without segment change
		pr := transitPairs[r.Intn(len(transitPairs))]
		cd := r.Bool()
		in, out := pr[0], pr[1]
		if !cd {
			in, out = pr[1], pr[0]
		}
		sc.name = fmt.Sprintf("transit/%d-%d", in, out)
		sc.via, sc.egress = in, out
		hops[0] = path.HopField{ConsIngress: pr[0], ConsEgress: pr[1]}
		nseg := r.Range(1, 3)
		sc.curSeg = r.Intn(nseg)
		for s := 0; s < nseg; s++ {
			sc.segLens = append(sc.segLens, r.Range(2, 4))
			sc.consDir = append(sc.consDir, r.Bool())
		}
		sc.consDir[sc.curSeg] = cd
		if sc.segLens[sc.curSeg] < 3 {
			sc.segLens[sc.curSeg] = 3
		}
		// inside the segment: neither its first nor its last hop
		start := 0
		for s := 0; s < sc.curSeg; s++ {
			start += sc.segLens[s]
		}
		sc.curHop = start + r.Range(1, sc.segLens[sc.curSeg]-2)
		if wantRel >= 0 {
			// shape the tail so that the validated hop is wantRel from the end, if possible
			tot := 0
			for _, l := range sc.segLens {
				tot += l
			}
			if wantRel == 1 {
				sc.segLens = sc.segLens[:sc.curSeg+1]
				sc.consDir = sc.consDir[:sc.curSeg+1]
				sc.curHop = start + sc.segLens[sc.curSeg] - 2
			}
		}
		sc.validated = sc.curHop
		if isSib(in) {
			// arrives over the sibling link (ingress 0); it leaves through an owned interface
		}
	case 1: // effective cross-over: last hop of segment s, first hop of segment s+1
		type xo struct {
			in, out uint16
		}
		opts := []xo{{ifK, ifC}, {ifK2, ifC2}, {ifC, ifK}, {ifC2, ifK2}, {ifC, ifC2}, {ifC2, ifC}, {ifK, ifSC}, {ifC, ifSK}, {ifC, ifSC}}
		o := opts[r.Intn(len(opts))]
		sc.name = fmt.Sprintf("xover/%d-%d", o.in, o.out)
		sc.via, sc.egress, sc.xover = o.in, o.out, true
		nseg := 2
		sc.curSeg = 0
		if r.Chance(30) {
			nseg = 3
			sc.curSeg = r.Intn(2)
		}
		for s := 0; s < nseg; s++ {
			sc.segLens = append(sc.segLens, r.Range(2, 4))
			sc.consDir = append(sc.consDir, r.Bool())
		}
		if wantRel == 1 {
			// up[k] + down[2]: the first hop of the last segment is the path's penultimate hop
			sc.segLens = sc.segLens[:sc.curSeg+2]
			sc.consDir = sc.consDir[:sc.curSeg+2]
			sc.segLens[sc.curSeg+1] = 2
		} else if wantRel >= 2 && sc.curSeg+2 == len(sc.segLens) && sc.segLens[sc.curSeg+1] == 2 {
			sc.segLens[sc.curSeg+1] = 3
		}
		start := 0
		for s := 0; s <= sc.curSeg; s++ {
			start += sc.segLens[s]
		}
		sc.curHop = start - 1
		sc.validated = start
		// link types decide the directions: a child link is the ConsEgress side of a hop
		lin, lout := a.linkType(o.in), a.linkType(o.out)
		// arrival hop (end of segment curSeg as traversed)
		switch lin {
		case topology.Child: // coming up: against construction direction, hop is first in cons order
			sc.consDir[sc.curSeg] = false
			hops[0] = path.HopField{ConsIngress: 0, ConsEgress: o.in}
		default: // core: either direction
			if sc.consDir[sc.curSeg] {
				hops[0] = path.HopField{ConsIngress: o.in, ConsEgress: 0}
			} else {
				hops[0] = path.HopField{ConsIngress: 0, ConsEgress: o.in}
			}
		}
		switch lout {
		case topology.Child: // going down: construction direction
			sc.consDir[sc.curSeg+1] = true
			hops[1] = path.HopField{ConsIngress: 0, ConsEgress: o.out}
		default:
			if sc.consDir[sc.curSeg+1] {
				hops[1] = path.HopField{ConsIngress: 0, ConsEgress: o.out}
			} else {
				hops[1] = path.HopField{ConsIngress: o.out, ConsEgress: 0}
			}
		}
	case 2: // delivery: last hop, destination local
		ins := []uint16{ifP, ifC, ifK, ifK2, ifC2}
		in := ins[r.Intn(len(ins))]
		sc.name = fmt.Sprintf("deliver/%d", in)
		sc.via, sc.egress, sc.dstLocal = in, 0, true
		nseg := r.Range(1, 3)
		for s := 0; s < nseg; s++ {
			sc.segLens = append(sc.segLens, r.Range(2, 4))
			sc.consDir = append(sc.consDir, r.Bool())
		}
		sc.curSeg = nseg - 1
		tot := 0
		for _, l := range sc.segLens {
			tot += l
		}
		sc.curHop = tot - 1
		sc.validated = sc.curHop
		if a.linkType(in) == topology.Child {
			sc.consDir[sc.curSeg] = false
		}
		if a.linkType(in) == topology.Parent {
			sc.consDir[sc.curSeg] = true
		}
		if sc.consDir[sc.curSeg] {
			hops[0] = path.HopField{ConsIngress: in, ConsEgress: 0}
		} else {
			hops[0] = path.HopField{ConsIngress: 0, ConsEgress: in}
		}
	case 4: // peering: child -> peer (last hop of segment 0, against construction direction) or
		// peer -> child (first hop of segment 1, in construction direction); no effective cross-over
		sc.peering = true
		child := []uint16{ifC, ifC2, ifSC}[r.Intn(3)]
		sc.segLens = []int{r.Range(2, 4), r.Range(2, 4)}
		if wantRel == 1 {
			sc.segLens[1] = 2
		}
		sc.consDir = []bool{false, true}
		hops[0] = path.HopField{ConsIngress: ifPE, ConsEgress: child}
		if r.Bool() || a.ifByID(child).sibling {
			// up segment, leaving over the peering link (the child interface may be a sibling's)
			sc.name = fmt.Sprintf("peering/%d-%d", child, ifPE)
			sc.via, sc.egress = child, ifPE
			sc.curSeg, sc.curHop = 0, sc.segLens[0]-1
		} else {
			sc.name = fmt.Sprintf("peering/%d-%d", ifPE, child)
			sc.via, sc.egress = ifPE, child
			sc.curSeg, sc.curHop = 1, sc.segLens[0]
		}
		sc.validated = sc.curHop
	default: // originate: first hop, source local, from the internal network
		outs := []uint16{ifP, ifC, ifK, ifC2, ifK2}
		out := outs[r.Intn(len(outs))]
		sc.name = fmt.Sprintf("originate/%d", out)
		sc.via, sc.egress, sc.srcLocal = 0, out, true
		nseg := r.Range(1, 3)
		for s := 0; s < nseg; s++ {
			sc.segLens = append(sc.segLens, r.Range(2, 4))
			sc.consDir = append(sc.consDir, r.Bool())
		}
		if wantRel == 1 {
			sc.segLens, sc.consDir = []int{2}, sc.consDir[:1]
		}
		sc.curSeg, sc.curHop, sc.validated = 0, 0, 0
		if a.linkType(out) == topology.Child {
			sc.consDir[0] = true
		}
		if a.linkType(out) == topology.Parent {
			sc.consDir[0] = false
		}
		if sc.consDir[0] {
			hops[0] = path.HopField{ConsIngress: 0, ConsEgress: out}
		} else {
			hops[0] = path.HopField{ConsIngress: out, ConsEgress: 0}
		}
	}
	return sc, hops
}

// build fills in a complete decoded path for the scenario: random foreign hops, valid MACs (under the
// local key) for the local hop(s), SegIDs as carried on arrival.
func (a *asCfg) buildPath(r *vlib.Rand, sc scenario, local [2]path.HopField, ts uint32) *builtPath {
	return a.buildPathTs(r, sc, local, ts, false)
}

type path2 = path.HopField

// buildPathTs: with fixTs0 the first info field carries exactly ts.
func (a *asCfg) buildPathTs(r *vlib.Rand, sc scenario, local [2]path.HopField, ts uint32, fixTs0 bool) *builtPath {
	tot := 0
	for _, l := range sc.segLens {
		tot += l
	}
	dec := &scion.Decoded{}
	dec.NumINF = len(sc.segLens)
	dec.NumHops = tot
	for s, l := range sc.segLens {
		dec.PathMeta.SegLen[s] = uint8(l)
		dec.InfoFields = append(dec.InfoFields, path.InfoField{ConsDir: sc.consDir[s], Peer: sc.peering, SegID: uint16(r.Intn(65536)),
			Timestamp: ts - uint32(r.Intn(3))})
	}
	if fixTs0 {
		dec.InfoFields[0].Timestamp = ts
	}
	expExp := uint8(r.Range(0, 5))
	if sc.expireSeg > 0 {
		// (exp+1)*337.5 s after the info timestamp; by default the timestamp is 3000 s old
		old := nowSec() - 3000
		if sc.expireAt != 0 {
			expExp = 3
			old = sc.expireAt - 1350
		}
		dec.InfoFields[sc.expireSeg-1].Timestamp = old
	}
	dec.PathMeta.CurrINF = uint8(sc.curSeg)
	dec.PathMeta.CurrHF = uint8(sc.curHop)
	for i := 0; i < tot; i++ {
		h := path.HopField{ConsIngress: uint16(r.Range(1, 60)), ConsEgress: uint16(r.Range(1, 60)), ExpTime: uint8(r.Range(20, 255))}
		copy(h.Mac[:], r.Bytes(6))
		dec.HopFields = append(dec.HopFields, h)
	}
	ingress := a.ingressOf(sc.via)
	setLocal := func(idx, seg int, h path.HopField, arrival bool) {
		h.ExpTime = uint8(r.Range(20, 255))
		if sc.expireSeg == seg+1 {
			h.ExpTime = expExp
		}
		inf := &dec.InfoFields[seg]
		beta := inf.SegID // the SegID the MAC is verified with
		full := hopMacFull(a.key, beta, inf.Timestamp, h.ExpTime, h.ConsIngress, h.ConsEgress)
		copy(h.Mac[:], full[:6])
		if arrival && !inf.ConsDir && ingress != 0 && !sc.peering {
			// the ingress router XORs the hop's MAC into the SegID before verifying
			inf.SegID = beta ^ binary.BigEndian.Uint16(h.Mac[:2])
		}
		dec.HopFields[idx] = h
	}
	setLocal(sc.curHop, sc.curSeg, local[0], true)
	if sc.xover {
		setLocal(sc.curHop+1, sc.curSeg+1, local[1], false)
	}
	b := &builtPath{sc: sc, dec: dec, total: tot}
	b.src, b.dst = ia(2, 0xff0000000777), ia(3, 0xff0000000888)
	if sc.srcLocal {
		b.src = a.ia
	}
	if sc.dstLocal {
		b.dst = a.ia
	}
	return b
}

// validatedAuth: full MAC of the hop validated last in this AS (the EPIC authenticator), computed
// from the path as built: the SegID the router verifies that hop with.
func (a *asCfg) validatedAuth(b *builtPath) []byte {
	sc := b.sc
	vSeg := sc.curSeg
	if sc.xover {
		vSeg++
	}
	vh := b.dec.HopFields[sc.validated]
	vinf := b.dec.InfoFields[vSeg]
	beta := vinf.SegID
	if !sc.xover && !sc.peering && !vinf.ConsDir && a.ingressOf(sc.via) != 0 {
		beta ^= binary.BigEndian.Uint16(vh.Mac[:2])
	}
	return hopMacFull(a.key, beta, vinf.Timestamp, vh.ExpTime, vh.ConsIngress, vh.ConsEgress)
}

// validEpic builds a fresh EPIC packet with both hop validation fields valid for the hop validated last.
func (a *asCfg) validEpic(r *vlib.Rand, sc scenario, hops [2]path.HopField, nowNs int64) []byte {
	e, _ := a.validEpicTwin(r, sc, hops, nowNs)
	return e
}

// validEpicTwin returns the EPIC packet and the same packet with a plain SCION path.
func (a *asCfg) validEpicTwin(r *vlib.Rand, sc scenario, hops [2]path.HopField, nowNs int64) ([]byte, []byte) {
	target := nowNs - 1e9
	ts0 := uint32(target/1e9) - uint32(r.Range(1, 100))
	if sc.expireSeg == 1 {
		ts0 = nowSec() - 3000
		if sc.expireAt != 0 {
			ts0 = sc.expireAt - 1350
		}
	}
	epicTS := uint32((target-int64(ts0)*1e9)/21000 - 1)
	b := a.buildPathTs(r, sc, hops, ts0, true)
	if sc.expireSeg == 1 {
		ts0 = b.dec.InfoFields[0].Timestamp
		epicTS = uint32((target-int64(ts0)*1e9)/21000 - 1)
	}
	auth := a.validatedAuth(b)
	srcHost := randHost(r)
	pld := r.Bytes(r.Range(0, 20))
	ctr := uint32(r.U64())
	eh := &epic.Path{PktID: epic.PktID{Timestamp: epicTS, Counter: ctr}, PHVF: make([]byte, 4), LHVF: make([]byte, 4)}
	raw0 := b.packet(r, eh, srcHost, nil, 0, pld)
	h0, _ := parseRawHdr(raw0)
	good := epicMacOwn(auth, h0.srcType, ts0, epicTS, ctr, h0.srcIA, h0.srcAddr, uint16(h0.payloadLen))
	eh.PHVF, eh.LHVF = good, append([]byte(nil), good...)
	return b.packet(r, eh, srcHost, nil, 0, pld), b.packet(r, nil, srcHost, nil, 0, pld)
}

// packet serialises the path as a SCION-path packet (epicHdr nil) or as an EPIC packet.
func (b *builtPath) packet(r *vlib.Rand, eh *epic.Path, srcHost addr.Host, rawSrc []byte, srcType slayers.AddrType, pld []byte) []byte {
	raw, err := b.dec.ToRaw()
	if err != nil {
		panic(err)
	}
	s := &slayers.SCION{FlowID: 7, SrcIA: b.src, DstIA: b.dst}
	if err := s.SetSrcAddr(srcHost); err != nil {
		panic(err)
	}
	if rawSrc != nil {
		s.SrcAddrType, s.RawSrcAddr = srcType, rawSrc
	}
	if err := s.SetDstAddr(hostIP("10.0.0.8")); err != nil {
		panic(err)
	}
	if eh == nil {
		s.PathType, s.Path = scion.PathType, raw
	} else {
		e := *eh
		e.ScionPath = raw
		s.PathType, s.Path = epic.PathType, &e
	}
	s.NextHdr = slayers.L4UDP
	u := &slayers.UDP{SrcPort: 4000, DstPort: 5000}
	u.SetNetworkLayerForChecksum(s)
	return serializeLayers(s, u, pld)
}
