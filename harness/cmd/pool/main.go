// Engine "pool" (C14): runs the REAL router pipeline (dataPlane.Run: udpConnection receive/send
// loops, runProcessor, runSlowPathProcessor, internal-link processor, BFD senders) on scripted
// sockets and checks the buffer-ownership protocol from the outside:
//
//   - every buffer registered by a receiver for ReadBatch, and every buffer presented by a
//     sender to WriteBatch, is identified (verif hook: address -> pool slot) and the sequence of
//     these observations is (a) checked by an independent Go predicate written from the
//     statement (no buffer with two holders; the pool never hands out a buffer that is still
//     held) and (b) emitted as a trace for the Lean acceptor `Pool.obsStep` (T2);
//   - every packet written out carries the tag/payload of exactly one injected packet
//     (a buffer reused while still owned shows as corruption or duplication);
//   - at quiescence the pool channel is audited through the hook: no buffer twice in the pool,
//     and pool + buffers registered by the blocked receivers = all buffers (no leak);
//   - the scripted sockets inject read errors, short and failed writes, slow writes (full
//     queues), garbage, valid transit packets, packets answered by SCMP, and the run ends with
//     a Shutdown.
package main

import (
	"bufio"
	"encoding/binary"
	"encoding/json"
	"errors"
	"flag"
	"fmt"
	"net"
	"net/netip"
	"os"
	"os/exec"
	"path/filepath"
	"sort"
	"strings"
	"sync"
	"sync/atomic"
	"time"

	"github.com/gopacket/gopacket"

	"github.com/scionproto/scion/pkg/addr"
	"github.com/scionproto/scion/pkg/log"
	"github.com/scionproto/scion/pkg/scrypto"
	"github.com/scionproto/scion/pkg/slayers"
	"github.com/scionproto/scion/pkg/slayers/path"
	"github.com/scionproto/scion/pkg/slayers/path/scion"
	"github.com/scionproto/scion/private/topology"
	"github.com/scionproto/scion/private/underlay/conn"
	"github.com/scionproto/scion/router"
	_ "github.com/scionproto/scion/router/underlayproviders/udpip"

	"verifharness/vlib"
)

// ---------------------------------------------------------------------------------------------
// observer

type holder struct {
	kind byte // 'f' flight, 'r' receiver, 't' sender
	c    int
}

type observer struct {
	mu       sync.Mutex
	e        *vlib.Env
	dp       *router.VerifConcDP
	base     uintptr
	ready    chan struct{}
	ids      map[uintptr]int
	st       map[int]holder
	trace    []string
	viol     string
	violK    string
	tags     map[uint64]int // tag -> times written out
	inj      map[uint64]bool
	events   int
	bad      int
	last     atomic.Int64 // unix nano of the last socket activity
	counts   map[string]int
	poolSize int
}

func (o *observer) id(b []byte) int {
	a := o.dp.BufferOf(b, o.base)
	if v, ok := o.ids[a]; ok {
		return v
	}
	v := len(o.ids)
	o.ids[a] = v
	return v
}

// ev records one observation: the op for the Lean acceptor and the Go predicate.
func (o *observer) ev(kind string, c, b int) {
	o.events++
	o.counts[kind]++
	line := fmt.Sprintf("%s %d %d", kind, c, b)
	if len(o.trace) < 4000 {
		o.trace = append(o.trace, line)
	}
	cur, ok := o.st[b]
	if !ok {
		cur = holder{kind: 'f'}
	}
	why := ""
	switch kind {
	case "hold":
		switch cur.kind {
		case 'r':
			why = fmt.Sprintf("the pool handed buffer %d to the receiver of connection %d while the receiver of connection %d holds it", b, c, cur.c)
		case 't':
			why = fmt.Sprintf("the pool handed buffer %d to the receiver of connection %d while the sender of connection %d holds it", b, c, cur.c)
		}
		o.st[b] = holder{'r', c}
	case "keep":
		if cur.kind != 'r' || cur.c != c {
			why = fmt.Sprintf("receiver %d re-registers buffer %d which it does not hold", c, b)
		}
	case "fill":
		if cur.kind != 'r' || cur.c != c {
			why = fmt.Sprintf("receiver %d hands over buffer %d which it does not hold", c, b)
		}
		o.st[b] = holder{kind: 'f'}
	case "present":
		switch {
		case cur.kind == 'r':
			why = fmt.Sprintf("sender %d writes buffer %d while the receiver of connection %d holds it", c, b, cur.c)
		case cur.kind == 't' && cur.c != c:
			why = fmt.Sprintf("senders %d and %d both hold buffer %d", cur.c, c, b)
		}
		o.st[b] = holder{'t', c}
	case "done":
		if cur.kind != 't' || cur.c != c {
			why = fmt.Sprintf("sender %d returns buffer %d which it does not hold", c, b)
		}
		o.st[b] = holder{kind: 'f'}
	case "release":
		o.st[b] = holder{kind: 'f'}
	}
	// pool-level accounting: the buffers in the pool channel, those registered by receivers and
	// those held by senders are pairwise disjoint, so together they never exceed the number of
	// buffers that exist (a buffer returned while still held, or returned twice, breaks this)
	if why == "" && o.poolSize > 0 {
		held := 0
		for _, h := range o.st {
			if h.kind != 'f' {
				held++
			}
		}
		if pl := o.dp.PoolLen(); pl+held > o.poolSize && o.viol == "" {
			o.viol = fmt.Sprintf("accounting: %d buffers in the pool + %d held at the sockets > %d buffers that exist", pl, held, o.poolSize)
			o.violK = "accounting"
		}
		o.counts["accounting-check"]++
	}
	tag := kind
	if why != "" {
		tag = "violation/" + kind
	}
	o.e.Op(line, "ok", tag)
	if why != "" {
		o.bad++
		if o.viol == "" {
			o.viol, o.violK = why, "two-owners"
		}
	}
}

// ---------------------------------------------------------------------------------------------
// scripted sockets

type inject struct {
	pkts [][]byte
	err  bool
}

type wpol struct {
	mode  int // 0 all, 1 partial, 2 zero, 3 error(-1)
	k     int
	sleep time.Duration
}

type sconn struct {
	o       *observer
	idx     int
	feed    chan inject
	closed  chan struct{}
	once    sync.Once
	inRead  atomic.Bool
	batch   atomic.Int64 // number of buffers registered in the pending ReadBatch
	prev    int          // slots refilled since the previous call (= packets delivered by it); -1 first
	prevIDs []int
	wmu     sync.Mutex
	wpols   []wpol
	remote  *net.UDPAddr
	nWrites atomic.Int64
	stall   atomic.Int64 // unix nano until which WriteBatch does not return (stalled writer)
	dead    bool         // set under o.mu by Close: no further observations on this connection
}

func (c *sconn) ReadBatch(msgs conn.Messages) (int, error) {
	select {
	case <-c.o.ready:
	case <-c.closed:
		return 0, errors.New("closed")
	}
	o := c.o
	o.mu.Lock()
	if c.dead {
		o.mu.Unlock()
		return 0, errors.New("closed")
	}
	ids := make([]int, len(msgs))
	for i := range msgs {
		ids[i] = o.id(msgs[i].Buffers[0])
	}
	for i, b := range ids {
		if c.prev < 0 || i < c.prev {
			o.ev("hold", c.idx, b)
		} else {
			if c.prevIDs != nil && i < len(c.prevIDs) && c.prevIDs[i] != b && o.viol == "" {
				o.viol = fmt.Sprintf("receiver %d: reusable slot %d changed from buffer %d to %d", c.idx, i, c.prevIDs[i], b)
				o.violK = "reuse-slot"
			}
			o.ev("keep", c.idx, b)
		}
	}
	c.prevIDs = ids
	o.mu.Unlock()
	c.batch.Store(int64(len(msgs)))
	c.inRead.Store(true)
	defer c.inRead.Store(false)
	select {
	case <-c.closed:
		c.prev = 0
		return 0, errors.New("closed")
	case in := <-c.feed:
		o.last.Store(time.Now().UnixNano())
		if in.err {
			c.prev = 0
			return 0, errors.New("scripted read error")
		}
		k := min(len(in.pkts), len(msgs))
		for i := 0; i < k; i++ {
			n := copy(msgs[i].Buffers[0], in.pkts[i])
			msgs[i].N = n
			msgs[i].Addr = c.remote
		}
		o.mu.Lock()
		if c.dead {
			o.mu.Unlock()
			return 0, errors.New("closed")
		}
		for i := 0; i < k; i++ {
			o.ev("fill", c.idx, ids[i])
		}
		o.mu.Unlock()
		c.prev = k
		return k, nil
	}
}

func (c *sconn) WriteBatch(msgs conn.Messages, flags int) (int, error) {
	select {
	case <-c.closed:
		return -1, errors.New("closed")
	default:
	}
	o := c.o
	c.nWrites.Add(1)
	o.last.Store(time.Now().UnixNano())
	c.wmu.Lock()
	p := wpol{}
	if len(c.wpols) > 0 {
		p = c.wpols[0]
		c.wpols = c.wpols[1:]
	}
	c.wmu.Unlock()
	o.mu.Lock()
	if c.dead {
		o.mu.Unlock()
		return -1, errors.New("closed")
	}
	ids := make([]int, len(msgs))
	for i := range msgs {
		ids[i] = o.id(msgs[i].Buffers[0])
		o.ev("present", c.idx, ids[i])
	}
	o.mu.Unlock()
	if p.sleep > 0 {
		time.Sleep(p.sleep)
	}
	for time.Now().UnixNano() < c.stall.Load() {
		select {
		case <-c.closed:
			return -1, errors.New("closed")
		case <-time.After(2 * time.Millisecond):
		}
	}
	written := len(msgs)
	var err error
	switch p.mode {
	case 1:
		written = min(p.k, len(msgs))
	case 2:
		written = 0
	case 3:
		written, err = -1, errors.New("scripted write error")
	}
	o.mu.Lock()
	if c.dead {
		o.mu.Unlock()
		return -1, errors.New("closed")
	}
	w := max(written, 0)
	if len(msgs) >= 2 {
		o.counts["write/batch>=2"]++
	}
	if w+1 < len(msgs) {
		o.counts["write/partial-with-leftover"]++
	} else if w < len(msgs) {
		o.counts["write/partial-last-dropped"]++
	}
	for i := 0; i < w; i++ {
		c.checkWritten(msgs[i].Buffers[0])
		o.ev("done", c.idx, ids[i])
	}
	if w != len(msgs) {
		o.ev("done", c.idx, ids[w]) // the packet that send() drops
	}
	o.mu.Unlock()
	o.last.Store(time.Now().UnixNano())
	return written, err
}

// checkWritten: the bytes written out must carry one injected tag and the payload derived from it
// (BFD packets made by the router itself carry no tag).
func (c *sconn) checkWritten(b []byte) {
	o := c.o
	if len(b) < 40 {
		o.counts["written/short"]++
		return
	}
	pl := b[len(b)-32:]
	tag := binary.BigEndian.Uint64(pl[:8])
	if !o.inj[tag] {
		o.counts["written/untagged"]++ // BFD, or an SCMP reply that truncated the quote
		return
	}
	want := payload(tag)
	for i := range want {
		if pl[i] != want[i] {
			if o.viol == "" {
				o.viol = fmt.Sprintf("packet with tag %x written on connection %d has a corrupted payload (buffer reused while owned)", tag, c.idx)
				o.violK = "corrupted"
			}
			return
		}
	}
	o.tags[tag]++
	o.counts[fmt.Sprintf("written/conn%d", c.idx)]++
	if o.tags[tag] > 1 && o.viol == "" {
		o.viol = fmt.Sprintf("packet with tag %x was written out %d times", tag, o.tags[tag])
		o.violK = "duplicated"
	}
}

// Close: from here on the receiver returns what it has registered and the sender stops; the
// buffers this connection holds are released in the observer's book-keeping.
func (c *sconn) Close() error {
	c.once.Do(func() {
		o := c.o
		o.mu.Lock()
		c.dead = true
		var bs []int
		for b, h := range o.st {
			if (h.kind == 'r' || h.kind == 't') && h.c == c.idx {
				bs = append(bs, b)
			}
		}
		sort.Ints(bs)
		for _, b := range bs {
			o.ev("release", c.idx, b)
		}
		o.mu.Unlock()
		close(c.closed)
	})
	return nil
}

type opener struct {
	o     *observer
	mu    sync.Mutex
	conns []*sconn
}

func (op *opener) Open(l netip.AddrPort, r netip.AddrPort, cfg *conn.Config) (router.BatchConn, error) {
	op.mu.Lock()
	defer op.mu.Unlock()
	ra := net.UDPAddrFromAddrPort(netip.MustParseAddrPort("192.0.2.99:40000"))
	if r.IsValid() {
		ra = net.UDPAddrFromAddrPort(r)
	}
	c := &sconn{o: op.o, idx: len(op.conns), feed: make(chan inject, 1024), closed: make(chan struct{}), prev: -1, remote: ra}
	op.conns = append(op.conns, c)
	return c, nil
}
func (op *opener) UDPCanReuseLocal() bool { return true }

// ---------------------------------------------------------------------------------------------
// packets

var (
	localIA = addr.MustParseIA("1-ff00:0:110")
	iaA     = addr.MustParseIA("1-ff00:0:111")
	iaB     = addr.MustParseIA("1-ff00:0:112")
	hfKey   = []byte("verif-conc-key-0")
)

func payload(tag uint64) []byte {
	b := make([]byte, 32)
	binary.BigEndian.PutUint64(b, tag)
	x := tag*0x9E3779B97F4A7C15 + 1
	for i := 8; i < 32; i++ {
		x ^= x << 13
		x ^= x >> 7
		x ^= x << 17
		b[i] = byte(x)
	}
	return b
}

// transit builds a packet crossing the local AS from interface 1 to interface 2 on a
// three-hop segment in construction direction; goodMAC=false corrupts the hop MAC (the router
// answers with an SCMP error on the slow path).
func transit(tag uint64, goodMAC bool, extra int) []byte {
	mac, err := scrypto.InitMac(hfKey)
	if err != nil {
		panic(err)
	}
	now := uint32(time.Now().Unix()) - 10
	info := path.InfoField{ConsDir: true, SegID: uint16(tag), Timestamp: now}
	hops := []path.HopField{
		{ConsIngress: 0, ConsEgress: 7, ExpTime: 63},
		{ConsIngress: 1, ConsEgress: 2, ExpTime: 63},
		{ConsIngress: 9, ConsEgress: 0, ExpTime: 63},
	}
	hops[1].Mac = path.MAC(mac, info, hops[1], nil)
	if !goodMAC {
		hops[1].Mac[0] ^= 0x55
	}
	p := &scion.Decoded{
		Base: scion.Base{PathMeta: scion.MetaHdr{CurrINF: 0, CurrHF: 1, SegLen: [3]uint8{3, 0, 0}},
			NumINF: 1, NumHops: 3},
		InfoFields: []path.InfoField{info},
		HopFields:  hops,
	}
	scn := &slayers.SCION{
		Version: 0, FlowID: uint32(tag) & 0xfffff, NextHdr: slayers.L4UDP, PathType: scion.PathType,
		SrcIA: iaA, DstIA: iaB, Path: p,
	}
	if err := scn.SetSrcAddr(addr.HostIP(netip.MustParseAddr("10.0.0.7"))); err != nil {
		panic(err)
	}
	if err := scn.SetDstAddr(addr.HostIP(netip.MustParseAddr("10.0.0.8"))); err != nil {
		panic(err)
	}
	udp := make([]byte, 8+extra)
	binary.BigEndian.PutUint16(udp[0:], 40001)
	binary.BigEndian.PutUint16(udp[2:], 40002)
	binary.BigEndian.PutUint16(udp[4:], uint16(8+extra+32))
	pl := append(udp, payload(tag)...)
	buf := gopacket.NewSerializeBuffer()
	if err := gopacket.SerializeLayers(buf, gopacket.SerializeOptions{FixLengths: true}, scn, gopacket.Payload(pl)); err != nil {
		panic(err)
	}
	return append([]byte(nil), buf.Bytes()...)
}

// ---------------------------------------------------------------------------------------------

type scenario struct {
	idx                    int
	procs, slows, batch    int
	bfd                    bool
	rounds                 int
	audits, auditRetries   int
	forwarded, scmpReplies int
}

// runScenario returns false when the pipeline wedged (goroutines abandoned) or a violation was
// recorded: the caller then stops (a broken pipeline would cost a full timeout per scenario).
func runScenario(e *vlib.Env, idx int, r *vlib.Rand) bool {
	o := &observer{e: e, ready: make(chan struct{}), ids: map[uintptr]int{}, st: map[int]holder{},
		tags: map[uint64]int{}, inj: map[uint64]bool{}, counts: map[string]int{}}
	op := &opener{o: o}
	cfg := router.VerifConcCfg{
		IA: localIA, Key: hfKey, Internal: "198.51.100.1:30042",
		NumProcessors: r.Range(1, 3), NumSlowPathProcessors: r.Range(1, 2), BatchSize: r.Range(1, 4),
		Opener: op, DetectMult: 3, DesiredMinTxInterval: 20 * time.Millisecond, RequiredMinRxInterval: 20 * time.Millisecond,
	}
	bfdOn := r.Chance(35)
	// every 8th scenario: a BFD sender meets a FULL egress queue (stalled writer on its link)
	stallBFD := idx%8 == 0
	if stallBFD {
		bfdOn = true
	}
	cfg.Ifs = []router.VerifConcIf{
		{ID: 1, LinkTo: topology.Parent, Neighbor: iaA, BFD: false, Local: "203.0.113.1:50001", Remote: "203.0.113.2:50001"},
		{ID: 2, LinkTo: topology.Child, Neighbor: iaB, BFD: bfdOn, Local: "203.0.113.5:50002", Remote: "203.0.113.6:50002"},
	}
	rep := map[string]any{"scenario": idx, "seed": e.Seed, "processors": cfg.NumProcessors, "slow_path_processors": cfg.NumSlowPathProcessors,
		"batch_size": cfg.BatchSize, "bfd_on_if2": bfdOn}
	e.Op("reset", "ok", "~reset")
	dp, err := router.VerifConcNewDP(cfg)
	if err != nil {
		panic(err)
	}
	o.dp = dp
	if err := dp.Start(); err != nil {
		panic(err)
	}
	first := dp.PoolAudit()
	if len(first) == 0 {
		// every buffer is out already (tiny pool): wait a little, the receivers only take a batch each
		time.Sleep(10 * time.Millisecond)
		first = dp.PoolAudit()
	}
	if len(first) == 0 {
		panic("cannot learn a buffer address: pool empty")
	}
	o.base = first[0]
	close(o.ready)
	poolSize := dp.PoolSize()
	o.mu.Lock()
	o.poolSize = poolSize
	o.mu.Unlock()
	conns := op.conns // internal first, then if1, if2 (creation order)
	rep["connections"] = len(conns)
	rep["pool_size"] = poolSize

	fail := func(key, what string) {
		o.mu.Lock()
		tr := o.trace
		if len(tr) > 120 {
			tr = tr[len(tr)-120:]
		}
		e.Violate("C14/"+key, what, map[string]any{"case": rep, "socket_trace_tail": append([]string(nil), tr...)})
		o.mu.Unlock()
	}

	// write policies
	congested := r.Chance(60)
	rep["congested_writes"] = congested
	for _, c := range conns {
		n := r.Range(20, 200)
		for k := 0; k < n; k++ {
			p := wpol{}
			switch {
			case r.Chance(20):
				p.mode, p.k = 1, r.Intn(cfg.BatchSize+1)
			case r.Chance(8):
				p.mode = 2
			case r.Chance(10):
				p.mode = 3
			}
			if r.Chance(15) {
				p.sleep = time.Duration(r.Range(100, 3000)) * time.Microsecond
			} else if congested && r.Chance(70) {
				p.sleep = time.Duration(r.Range(100, 900)) * time.Microsecond
			}
			c.wpols = append(c.wpols, p)
		}
	}
	// audit of the pool channel while traffic is flowing: what is in the pool must be there once
	// and must not be held at a socket (checked while the packets are out of the pool, so that
	// nobody can take them meanwhile)
	midAudit := func() {
		dp.PoolAuditWith(func(bufs []uintptr) {
			o.mu.Lock()
			defer o.mu.Unlock()
			o.counts["mid-audit"]++
			seen := map[uintptr]bool{}
			for _, a := range bufs {
				if seen[a] && o.viol == "" {
					o.viol, o.violK = fmt.Sprintf("buffer %#x is in the pool twice (audit during traffic)", a), "double-put"
				}
				seen[a] = true
				if id, ok := o.ids[a]; ok && o.st[id].kind != 'f' && o.viol == "" {
					o.viol = fmt.Sprintf("buffer %d is in the pool while it is held at a socket (%c %d)", id, o.st[id].kind, o.st[id].c)
					o.violK = "in-pool-while-held"
				}
			}
		})
	}
	// traffic
	tag := uint64(idx+1) << 32
	rounds := r.Range(30, 250)
	nInj := 0
	for k := 0; k < rounds; k++ {
		ci := r.Intn(len(conns))
		if r.Chance(50) && len(conns) > 1 {
			ci = 1 // most valid traffic enters on interface 1
		}
		in := inject{err: r.Chance(6)}
		nb := r.Range(1, cfg.BatchSize)
		if r.Chance(30) {
			nb = cfg.BatchSize
		}
		for j := 0; j < nb; j++ {
			tag++
			var pkt []byte
			switch {
			case ci == 1 && r.Chance(55):
				pkt = transit(tag, true, r.Intn(200))
				o.mu.Lock()
				o.inj[tag] = true
				o.mu.Unlock()
			case ci == 1 && r.Chance(50):
				pkt = transit(tag, false, r.Intn(40))
				o.mu.Lock()
				o.inj[tag] = true
				o.mu.Unlock()
			case r.Chance(30):
				pkt = r.Bytes(r.Range(1, 11)) // too short for a SCION header
			case r.Chance(50):
				pkt = transit(tag, true, r.Intn(50)) // valid bytes on the wrong interface
				o.mu.Lock()
				o.inj[tag] = true
				o.mu.Unlock()
			default:
				pkt = r.Bytes(r.Range(12, 300))
			}
			in.pkts = append(in.pkts, pkt)
			nInj++
		}
		conns[ci].feed <- in
		if k%16 == 15 {
			midAudit()
		}
		if r.Chance(30) {
			time.Sleep(time.Duration(r.Range(0, 400)) * time.Microsecond)
		}
	}
	// BFD sender against a full egress queue: the writer of interface 2 stalls, SCMP replies to
	// packets arriving on interface 2 fill its batch and its queue (the slow path sends on the
	// ingress link whatever the BFD state), and the BFD session of interface 2 (Down: one packet
	// per 0.75-1 s) finds the queue full at least once. The pool is audited meanwhile.
	if stallBFD && len(conns) > 2 {
		rep["bfd_send_on_full_queue"] = true
		end := time.Now().Add(1400 * time.Millisecond)
		conns[2].stall.Store(end.UnixNano())
		for time.Now().Before(end) {
			in := inject{}
			for j := 0; j < cfg.BatchSize; j++ {
				tag++
				in.pkts = append(in.pkts, transit(tag, false, r.Intn(40)))
				o.mu.Lock()
				o.inj[tag] = true
				o.mu.Unlock()
			}
			select {
			case conns[2].feed <- in:
			default:
			}
			time.Sleep(70 * time.Millisecond)
			midAudit()
			o.mu.Lock()
			o.counts["stall-audit"]++
			o.mu.Unlock()
		}
	}
	// quiescence + audit
	quiet := func() bool {
		for _, c := range conns {
			if len(c.feed) > 0 || !c.inRead.Load() {
				return false
			}
		}
		if time.Since(time.Unix(0, o.last.Load())) < 3*time.Millisecond {
			return false
		}
		o.mu.Lock()
		defer o.mu.Unlock()
		for _, h := range o.st {
			if h.kind == 't' {
				return false
			}
		}
		return true
	}
	audit := func(afterShutdown bool) (string, string) {
		seen := dp.PoolAudit()
		dup := map[uintptr]int{}
		for _, a := range seen {
			dup[a]++
		}
		for a, n := range dup {
			if n > 1 {
				return "double-put", fmt.Sprintf("buffer %#x is in the pool %d times", a, n)
			}
		}
		held := 0
		if !afterShutdown {
			for _, c := range conns {
				held += int(c.batch.Load())
			}
			o.mu.Lock()
			for a := range dup {
				if id, ok := o.ids[a]; ok && o.st[id].kind == 'r' {
					o.mu.Unlock()
					return "in-pool-while-held", fmt.Sprintf("buffer %d is in the pool while a receiver has it registered for reading", id)
				}
			}
			o.mu.Unlock()
		}
		if len(seen)+held > poolSize {
			return "double-put", fmt.Sprintf("pool holds %d buffers and the receivers %d, but only %d exist", len(seen), held, poolSize)
		}
		if len(seen)+held < poolSize {
			return "leak", fmt.Sprintf("pipeline idle: pool holds %d buffers and the receivers %d of %d: %d buffers were never returned",
				len(seen), held, poolSize, poolSize-len(seen)-held)
		}
		return "", ""
	}
	confirm := func(afterShutdown bool) {
		// retry with growing patience: quiescence detection may be premature on a loaded machine
		waits := []time.Duration{2 * time.Millisecond, 20 * time.Millisecond, 200 * time.Millisecond, time.Second, 3 * time.Second, 8 * time.Second}
		var key, what string
		for _, w := range waits {
			dl := time.Now().Add(w + 2*time.Second)
			for !afterShutdown && !quiet() && time.Now().Before(dl) {
				time.Sleep(200 * time.Microsecond)
			}
			time.Sleep(w)
			key, what = audit(afterShutdown)
			if key == "" {
				return
			}
			o.counts["audit-retry"]++
		}
		fail(key, what)
	}
	nv := len(e.Violations)
	if !*stressShutdown {
		confirm(false)
		o.counts["audit"]++
	}
	// shutdown (with a watchdog: receivers starved of buffers never see the stop)
	if *childFrom >= 0 {
		shutdownsStarted++
		writeCurrent(e.Out, map[string]any{"scenario": idx, "seed": e.Seed, "phase": "shutdown", "shutdowns": shutdownsStarted})
	}
	sd := make(chan struct{})
	go func() { dp.Shutdown(); close(sd) }()
	wedged := false
	t1, t2 := 30*time.Second, 60*time.Second
	if len(e.Violations) > nv { // already failed: do not spend the long confirmation time
		t1, t2 = 3*time.Second, 3*time.Second
	}
	select {
	case <-sd:
	case <-time.After(t1):
		select {
		case <-sd:
		case <-time.After(t2):
			wedged = true
		}
	}
	if wedged {
		if len(e.Violations) == nv {
			fail("pipeline-wedged", fmt.Sprintf("Shutdown does not return after 90 s: a stage is blocked (pool holds %d of %d buffers)", len(dp.PoolAudit()), poolSize))
		}
	} else if !bfdOn && !*stressShutdown {
		confirm(true)
	} else if k, w := audit(true); k == "double-put" {
		fail(k, w)
	}
	o.mu.Lock()
	if o.viol != "" {
		v, k := o.viol, o.violK
		o.mu.Unlock()
		fail(k, v)
		o.mu.Lock()
	}
	for k, v := range o.counts {
		e.Branches[k] += v
	}
	o.mu.Unlock()
	_, _ = rounds, nInj
	return !wedged && len(e.Violations) == nv
}

// The pipeline goroutines run under `defer log.HandlePanic()`, which ends the process with exit
// code 255 on a panic. The scenarios therefore run in child processes (this binary re-executed
// with -child-from/-child-to); the parent merges their line files and statistics and turns a
// dead child into a violation naming the scenario that was running.
var (
	childFrom = flag.Int("child-from", -1, "internal: first scenario of a child run")
	childTo   = flag.Int("child-to", -1, "internal: end of the scenario range of a child run")
	// manual experiment only (not used by ./check): shut down while traffic is still flowing
	stressShutdown = flag.Bool("stress-shutdown", false, "experiment: Shutdown without waiting for quiescence")
)

// number of dataPlane.Shutdown calls started in this process (a goroutine of an earlier, already
// shut down data plane can still hit the closed egress queue a moment later)
var shutdownsStarted int

// writeCurrent records (atomically) which scenario the child is running and in which phase.
func writeCurrent(dir string, v map[string]any) {
	b, _ := json.Marshal(v)
	tmp := filepath.Join(dir, "current.json.tmp")
	if os.WriteFile(tmp, b, 0o644) == nil {
		_ = os.Rename(tmp, filepath.Join(dir, "current.json"))
	}
}

func readLines(p string) []string {
	f, err := os.Open(p)
	if err != nil {
		return nil
	}
	defer f.Close()
	var out []string
	sc := bufio.NewScanner(f)
	sc.Buffer(make([]byte, 1<<20), 1<<24)
	for sc.Scan() {
		out = append(out, sc.Text())
	}
	return out
}

func main() {
	e := vlib.Init()
	e.Rule = "scenarios: a real data plane (1-3 processors, 1-2 slow-path processors, batch 1-4 => queues of 1-4 and pools of tens of buffers, " +
		"BFD on or off) on scripted sockets; 30-250 read batches per scenario mixing valid transit packets, bad-MAC packets (SCMP via slow path), " +
		"garbage, short packets, read errors; write side: full, partial, zero, failed and slow writes; then quiescence audit and Shutdown; " +
		"non-trivial = an ownership observation at a socket; distinct by op line and by scenario"
	if *childFrom >= 0 {
		// make a panic caught by log.HandlePanic visible on stderr before the process exits
		_ = log.Setup(log.Config{Console: log.ConsoleConfig{Level: "error"}})
		ran := 0
		for i := *childFrom; i < *childTo; i++ {
			writeCurrent(e.Out, map[string]any{"scenario": i, "seed": e.Seed, "phase": "run", "shutdowns": shutdownsStarted})
			ran++
			if !runScenario(e, i, vlib.CaseRand(e.Seed, i)) {
				break
			}
		}
		e.Extra["scenarios"] = ran
		e.Finish()
		return
	}
	n := e.N(32, 300)
	self, err := os.Executable()
	if err != nil {
		panic(err)
	}
	const chunk = 10
	ran, dead, benign := 0, false, 0
	from := 0
	for from < n && !dead {
		to := min((from/chunk+1)*chunk, n)
		sub := filepath.Join(e.Out, fmt.Sprintf("child-%d", from))
		cmd := exec.Command(self, "-prop", e.Prop, "-tier", e.Tier, "-seed", fmt.Sprint(e.Seed), "-out", sub,
			"-child-from", fmt.Sprint(from), "-child-to", fmt.Sprint(to))
		if *stressShutdown {
			cmd.Args = append(cmd.Args, "-stress-shutdown")
		}
		out, cerr := cmd.CombinedOutput()
		ops, impl, tags := readLines(filepath.Join(sub, "ops.txt")), readLines(filepath.Join(sub, "impl.txt")), readLines(filepath.Join(sub, "tags.txt"))
		var st struct {
			Violations []vlib.Violation `json:"violations"`
			Branches   map[string]int   `json:"branches"`
			Extra      map[string]any   `json:"extra"`
		}
		okStats := false
		if b, rerr := os.ReadFile(filepath.Join(sub, "stats.json")); rerr == nil && json.Unmarshal(b, &st) == nil {
			okStats = true
		}
		if ee, ok := cerr.(*exec.ExitError); cerr != nil && (!ok || ee.ExitCode() != 255) {
			fmt.Fprintf(os.Stderr, "child failed (not a pipeline panic): %v\n%s\n", cerr, out)
			os.Exit(3)
		}
		if cerr != nil || !okStats {
			var cur map[string]any
			if b, rerr := os.ReadFile(filepath.Join(sub, "current.json")); rerr == nil {
				_ = json.Unmarshal(b, &cur)
			}
			tail := string(out)
			if len(tail) > 1500 {
				tail = tail[len(tail)-1500:]
			}
			// Known and accepted (registry level_note): dataPlane.Shutdown closes the egress queues
			// before the processors and the BFD sessions have stopped, so a Send during Shutdown can
			// panic with "send on closed channel". Not an ownership error: skip the scenario.
			if nsd, _ := cur["shutdowns"].(float64); nsd >= 1 && strings.Contains(tail, "send on closed channel") &&
				strings.Contains(tail, "Link).Send") {
				benign++
				if sc, ok := cur["scenario"].(float64); ok && int(sc) >= from {
					from = int(sc) + 1
				} else {
					from = to
				}
				continue
			}
			dead = true
			e.Violate("C14/pipeline-crashed", fmt.Sprintf("the process running the pipeline died (%v): a pipeline goroutine panicked (log.HandlePanic exits with 255)", cerr),
				map[string]any{"case": cur, "how": "re-run the engine with -child-from <scenario> -child-to <scenario+1>", "output_tail": tail})
			continue
		}
		if len(ops) == len(impl) && len(ops) == len(tags) {
			for k := range ops {
				e.Op(ops[k], impl[k], tags[k])
			}
		}
		for _, v := range st.Violations {
			e.Violate(v.Key, v.What, v.Replay)
			dead = true
		}
		for k, v := range st.Branches {
			if k != "scenario" {
				e.Branches[k] += v
			}
		}
		done := to - from
		if f, ok := st.Extra["scenarios"].(float64); ok {
			done = int(f)
		}
		for k := 0; k < done; k++ {
			e.Case(fmt.Sprint("scenario ", e.Seed, from+k), "scenario", false)
		}
		ran += done
		from = to
	}
	e.Extra["shutdown_race_exits_skipped"] = benign
	e.Extra["scenarios"] = ran
	e.Finish()
}
