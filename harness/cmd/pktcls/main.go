// Engine "pktcls" (C43): ties lean/Scion/Model/Pktcls.lean + PktclsSyntax.lean to the real
// gateway/pktcls (BuildClassTree with the ANTLR lexer/parser, Cond.Eval, String()) and
// evaluates the C43 property predicate directly on the implementation.  Expressions are
// generated AS TEXT and go through the real parser first.
package main

import (
	"encoding/binary"
	"encoding/hex"
	"fmt"
	"net"
	"strings"

	"github.com/gopacket/gopacket"
	"github.com/gopacket/gopacket/layers"

	"github.com/scionproto/scion/gateway/pktcls"

	"verifharness/gwcond"
	"verifharness/vlib"
)

// ---------------------------------------------------------------------------------------
// packets

type pkt struct {
	layer gopacket.Layer
	enc   string
	// what the statement talks about (known by construction; only for defect-free packets)
	clean    bool
	v4       bool
	src, dst uint32
	tos      uint8
	proto    uint8
	hasPorts bool
	sport    uint16
	dport    uint16
}

func mkV4(r *vlib.Rand, src, dst uint32, tos, proto uint8, frag bool, sport, dport uint16, defects bool) pkt {
	spec := gwcond.V4Spec{Src: src, Dst: dst, TOS: tos, Proto: proto}
	if frag {
		if r.Bool() {
			spec.MF = true
		} else {
			spec.FragOff = uint16(r.Range(1, 50))
		}
	}
	kind := 2
	if proto == 17 {
		kind = 0
	} else if proto == 6 {
		kind = 1
	}
	spec.Payload = gwcond.L4(r, kind, sport, dport, defects)
	ip, _ := gwcond.DecodeV4(spec.Raw())
	if ip == nil {
		panic("IPv4 header does not decode")
	}
	return pkt{layer: ip, enc: gwcond.EncV4(ip), clean: !defects, v4: true, src: src, dst: dst, tos: tos, proto: proto,
		hasPorts: !frag && (proto == 6 || proto == 17), sport: sport, dport: dport}
}

func mkV6() pkt {
	raw := make([]byte, 48)
	raw[0] = 0x60
	binary.BigEndian.PutUint16(raw[4:], 8)
	raw[6] = 17
	copy(raw[8:], net.ParseIP("2001:db8::1").To16())
	copy(raw[24:], net.ParseIP("2001:db8::2").To16())
	binary.BigEndian.PutUint16(raw[40:], 80)
	binary.BigEndian.PutUint16(raw[42:], 53)
	binary.BigEndian.PutUint16(raw[44:], 8)
	p := gopacket.NewPacket(raw, layers.LayerTypeIPv6, gwcond.DecodeOptions)
	return pkt{layer: p.NetworkLayer(), enc: "x", clean: true}
}

var srcPool = []uint32{0x0a000001, 0x0a010203, 0x0a01ffff, 0x0a020000, 0x0b000000, 0xc0a80101, 0xc0a80201, 0x09ffffff, 0}
var tosPool = []uint8{0, 0xb8, 0xb9, 0xbb, 0x10, 0x40, 0x28, 0xfc, 0xff, 0x2e}
var portPool = []uint16{0, 5, 53, 79, 80, 81, 443, 1000, 1023, 1024, 2000, 2001, 65535}
var protoPool = []uint8{6, 17, 6, 17, 2, 47, 59, 1, 0}

func randPkt(r *vlib.Rand) pkt {
	if r.Chance(6) {
		return mkV6()
	}
	return mkV4(r, srcPool[r.Intn(len(srcPool))], srcPool[r.Intn(len(srcPool))], tosPool[r.Intn(len(tosPool))],
		protoPool[r.Intn(len(protoPool))], r.Chance(10), portPool[r.Intn(len(portPool))], portPool[r.Intn(len(portPool))], r.Chance(10))
}

func encPkts(ps []pkt) string {
	var sb strings.Builder
	fmt.Fprintf(&sb, "%d", len(ps))
	for _, p := range ps {
		sb.WriteString(" " + p.enc)
	}
	return sb.String()
}

// ---------------------------------------------------------------------------------------
// generated expressions: text + the boolean value the statement assigns to it

type gnode struct {
	text  string
	valid bool // expected to be in the language (informational; the real parser decides)
	eval  func(p *pkt) bool
}

func ip4(s string) uint32 { return binary.BigEndian.Uint32(net.ParseIP(s).To4()) }

func netPred(addr string, m int, src bool) func(p *pkt) bool {
	a := ip4(addr)
	return func(p *pkt) bool {
		if !p.v4 {
			return false
		}
		x := p.dst
		if src {
			x = p.src
		}
		if m == 0 {
			return true
		}
		return x>>(32-uint(m)) == a>>(32-uint(m))
	}
}

func portPred(lo, hi uint16, src bool) func(p *pkt) bool {
	return func(p *pkt) bool {
		if !p.v4 || !p.hasPorts {
			return false
		}
		x := p.dport
		if src {
			x = p.sport
		}
		return lo <= x && x <= hi
	}
}

func v4only(f func(p *pkt) bool) func(p *pkt) bool {
	return func(p *pkt) bool { return p.v4 && f(p) }
}

func constPred(b bool) func(*pkt) bool { return func(*pkt) bool { return b } }

var leaves = []gnode{
	{"BOOL=true", true, constPred(true)},
	{"bool=false", true, constPred(false)},
	{"src=10.0.0.0/8", true, netPred("10.0.0.0", 8, true)},
	{"SRC=10.1.2.3/16", true, netPred("10.1.2.3", 16, true)},
	{"src=10.1.0.0/15", true, netPred("10.1.0.0", 15, true)},
	{"dst=192.168.1.0/24", true, netPred("192.168.1.0", 24, false)},
	{"dst=0.0.0.0/0", true, netPred("0.0.0.0", 0, false)},
	{"DST=10.1.2.3/32", true, netPred("10.1.2.3", 32, false)},
	{"dst=10.0.0.0/8", true, netPred("10.0.0.0", 8, false)},
	{"dscp=0x2e", true, v4only(func(p *pkt) bool { return p.tos>>2 == 0x2e })},
	{"DSCP=0x0", true, v4only(func(p *pkt) bool { return p.tos>>2 == 0 })},
	{"dscp=0x10", true, v4only(func(p *pkt) bool { return p.tos>>2 == 0x10 })},
	{"dscp=0x0a", true, v4only(func(p *pkt) bool { return p.tos>>2 == 0x0a })},
	{"dscp=0x3F", true, v4only(func(p *pkt) bool { return p.tos>>2 == 0x3f })},
	{"dscp=0xff", true, constPred(false)},
	{"tos=0xb8", true, v4only(func(p *pkt) bool { return p.tos == 0xb8 })},
	{"TOS=0x0", true, v4only(func(p *pkt) bool { return p.tos == 0 })},
	{"tos=0x10", true, v4only(func(p *pkt) bool { return p.tos == 0x10 })},
	{"tos=0xB9", true, v4only(func(p *pkt) bool { return p.tos == 0xb9 })},
	{"tos=0xff", true, v4only(func(p *pkt) bool { return p.tos == 0xff })},
	{"protocol=TCP", true, v4only(func(p *pkt) bool { return p.proto == 6 })},
	{"protocol=udp", true, v4only(func(p *pkt) bool { return p.proto == 17 })},
	{"PROTOCOL=Igmp", true, v4only(func(p *pkt) bool { return p.proto == 2 })},
	{"protocol=GRE", true, v4only(func(p *pkt) bool { return p.proto == 47 })},
	{"protocol=NoNextHeader", true, v4only(func(p *pkt) bool { return p.proto == 59 })},
	{"srcport=80", true, portPred(80, 80, true)},
	{"srcport=0-1023", true, portPred(0, 1023, true)},
	{"SRCPORT=5-3", true, portPred(5, 3, true)},
	{"srcport=65535", true, portPred(65535, 65535, true)},
	{"dstport=53", true, portPred(53, 53, false)},
	{"dstport=1000-2000", true, portPred(1000, 2000, false)},
	{"DSTPORT=0-65535", true, portPred(0, 65535, false)},
	{"dstport=80-80", true, portPred(80, 80, false)},
	{"cls=5", true, constPred(false)},
	{"cls=0", true, constPred(false)},
}

// a small alphabet for the exhaustive part
var smallAlphabet = []int{0, 8, 9, 25, 20, 30}

var badLeaves = []string{
	"src=300.0.0.0/8", "dst=10.0.0.0/33", "dscp=0x100", "tos=0x1ff", "tos=0xg", "protocol=ICMPv4", "protocol=foo",
	"protocol=ab", "protocol=", "srcport=65536", "dstport=1-70000", "srcport=07", "cls=x", "BOOL=maybe", "dst=10.0.0/8",
	"dscp=2e", "dscp= 0x2e", "src=10.0.0.0", "dstport=5-", "srcport=-5", "tos=0x", "bool=TRUE", "Bool=true", "cls=07",
	"dscp=0x999", "dst=010.0.0.0/8", "src=1.2.3.4/08", "protocol=TCP6", "any", "dscp=0xabc", "tos=0x00ff",
}

func pickLeaf(r *vlib.Rand) gnode {
	if r.Chance(6) {
		return gnode{badLeaves[r.Intn(len(badLeaves))], false, constPred(false)}
	}
	g := leaves[r.Intn(len(leaves))]
	if r.Chance(10) { // whitespace around '=' where the grammar allows it ('=0x' and 'cls=' are single tokens)
		if !strings.Contains(g.text, "=0x") && !strings.HasPrefix(g.text, "cls=") {
			g.text = strings.Replace(g.text, "=", " = ", 1)
		} else if strings.Contains(g.text, "=0x") {
			g.text = strings.Replace(g.text, "=0x", " =0x", 1)
		}
	}
	return g
}

func join(op string, kids []gnode, r *vlib.Rand) gnode {
	parts := make([]string, len(kids))
	valid := len(kids) > 0
	for i, k := range kids {
		parts[i] = k.text
		valid = valid && k.valid
	}
	name := op
	sep, open, cl := ",", "(", ")"
	if r != nil {
		if r.Chance(15) {
			name = strings.ToUpper(op)
		}
		if r.Chance(15) {
			sep = ", "
		}
		if r.Chance(5) {
			open = " ( "
		}
		if r.Chance(5) {
			cl = " )"
		}
	}
	g := gnode{text: name + open + strings.Join(parts, sep) + cl, valid: valid}
	ks := append([]gnode(nil), kids...)
	switch op {
	case "all":
		g.eval = func(p *pkt) bool {
			for _, k := range ks {
				if !k.eval(p) {
					return false
				}
			}
			return true
		}
	case "any":
		g.eval = func(p *pkt) bool {
			for _, k := range ks {
				if k.eval(p) {
					return true
				}
			}
			return false
		}
	default: // not
		g.valid = valid && len(kids) == 1
		g.eval = func(p *pkt) bool { return len(ks) > 0 && !ks[0].eval(p) }
	}
	return g
}

func randTree(r *vlib.Rand, depth int) gnode {
	if depth == 0 || r.Chance(25) {
		return pickLeaf(r)
	}
	switch r.Intn(5) {
	case 0:
		n := 1
		if r.Chance(3) {
			n = r.Intn(3) // not() / not(a,b): syntax errors
		}
		ks := make([]gnode, n)
		for i := range ks {
			ks[i] = randTree(r, depth-1)
		}
		return join("not", ks, r)
	case 1, 2:
		n := r.Range(1, 3)
		if r.Chance(3) {
			n = 0
		}
		ks := make([]gnode, n)
		for i := range ks {
			ks[i] = randTree(r, depth-1)
		}
		return join("all", ks, r)
	default:
		n := r.Range(1, 3)
		if r.Chance(3) {
			n = 0
		}
		ks := make([]gnode, n)
		for i := range ks {
			ks[i] = randTree(r, depth-1)
		}
		return join("any", ks, r)
	}
}

// textual damage for the malformed stream
func damage(r *vlib.Rand, s string) string {
	if len(s) == 0 {
		return s
	}
	switch r.Intn(7) {
	case 0:
		i := r.Intn(len(s))
		return s[:i] + s[i+1:]
	case 1:
		i := r.Intn(len(s) + 1)
		return s[:i] + string("(),=-x0 a$;.#/"[r.Intn(14)]) + s[i:]
	case 2:
		return s + ")"
	case 3:
		return s + "," + s
	case 4:
		return strings.Replace(s, "(", "", 1)
	case 5:
		return strings.TrimSuffix(s, ")")
	default:
		i := r.Intn(len(s))
		j := i + r.Intn(len(s)-i)
		return s[:i] + s[j:]
	}
}

// ---------------------------------------------------------------------------------------

func evalBits(c pktcls.Cond, ps []pkt) (string, []bool) {
	bits := make([]bool, len(ps))
	var sb strings.Builder
	for i, p := range ps {
		bits[i] = c.Eval(p.layer)
		if bits[i] {
			sb.WriteByte('1')
		} else {
			sb.WriteByte('0')
		}
	}
	return sb.String() + ".", bits
}

func runText(e *vlib.Env, g gnode, ps []pkt, tag string) {
	op := fmt.Sprintf("tx %s %s", hex.EncodeToString([]byte(g.text)), encPkts(ps))
	if g.text == "" {
		op = fmt.Sprintf("tx - %s", encPkts(ps))
	}
	var c pktcls.Cond
	// BuildClassTree walks the parse tree with its listener BEFORE it looks at the syntax errors;
	// on malformed text the listener can panic (e.g. "not()": popCond on an empty stack).  That is
	// outside C43 (the statement is about parsed expressions): a panic of the parser on text that
	// is not generated as valid counts as a rejection and is reported in the evidence extras.
	parsePanic := false
	func() {
		defer func() {
			if rec := recover(); rec != nil {
				parsePanic = true
				c = nil
			}
		}()
		var err error
		c, err = pktcls.BuildClassTree(g.text)
		if err != nil {
			c = nil
		}
	}()
	ans, ok := "err", true
	if c != nil {
		ans, ok = vlib.Safe(func() string {
			enc, ok := gwcond.EncCond(c)
			if !ok {
				return "unencodable " + c.String()
			}
			printed := c.String()
			again := "none"
			if c2, err := pktcls.BuildClassTree(printed); err == nil {
				if s, ok := gwcond.EncCond(c2); ok {
					again = s
				}
			}
			bits, _ := evalBits(c, ps)
			return fmt.Sprintf("ok [%s] %s [%s] %s", enc, hex.EncodeToString([]byte(printed)), again, bits)
		})
	}
	t := tag
	if c == nil {
		t = "~" + tag + "-rejected"
		if parsePanic {
			t = "~" + tag + "-parser-panic"
			n, _ := e.Extra["parser_panics_on_malformed_text"].(int)
			e.Extra["parser_panics_on_malformed_text"] = n + 1
			if n < 3 {
				e.Extra[fmt.Sprintf("parser_panic_example_%d", n)] = g.text
			}
		}
		if g.valid {
			t = tag + "-valid-rejected"
		}
	}
	e.Op(op, ans, t)
	if !ok || (parsePanic && g.valid) {
		e.Violate("C43/panic", "BuildClassTree/Eval/String panicked on a valid expression: "+ans, map[string]any{"text": g.text})
		return
	}
	if c == nil {
		return
	}
	// the statement, evaluated on the implementation
	_, bits := evalBits(c, ps)
	if g.valid {
		for i := range ps {
			if ps[i].clean && bits[i] != g.eval(&ps[i]) {
				e.Violate("C43/eval", fmt.Sprintf("expression evaluates to %v, its boolean value is %v", bits[i], !bits[i]),
					map[string]any{"text": g.text, "packet": ps[i].enc})
				break
			}
		}
	}
	printed := c.String()
	c2, err := pktcls.BuildClassTree(printed)
	if err != nil {
		e.Violate("C43/reparse", "the printed form of a parsed expression does not parse: "+err.Error(),
			map[string]any{"text": g.text, "printed": printed})
		return
	}
	_, bits2 := evalBits(c2, ps)
	for i := range ps {
		if bits[i] != bits2[i] {
			e.Violate("C43/reparse-value", "printing and re-parsing changes the value of the expression",
				map[string]any{"text": g.text, "printed": printed, "packet": ps[i].enc})
			break
		}
	}
}

// enumerate all trees up to the given depth over the small alphabet, arity <= 2
func enumerate(depth int, alphabet []gnode) []gnode {
	cur := append([]gnode(nil), alphabet...)
	for d := 0; d < depth; d++ {
		next := append([]gnode(nil), alphabet...)
		for _, a := range cur {
			next = append(next, join("not", []gnode{a}, nil))
		}
		for _, op := range []string{"all", "any"} {
			for _, a := range cur {
				next = append(next, join(op, []gnode{a}, nil))
				for _, b := range cur {
					next = append(next, join(op, []gnode{a, b}, nil))
				}
			}
		}
		cur = next
	}
	return cur
}

func randCondAST(r *vlib.Rand, depth int) pktcls.Cond {
	if depth > 0 && r.Chance(40) {
		switch r.Intn(3) {
		case 0:
			return pktcls.NewCondNot(randCondAST(r, depth-1))
		case 1:
			n := r.Intn(4) // all() included
			cs := make([]pktcls.Cond, n)
			for i := range cs {
				cs[i] = randCondAST(r, depth-1)
			}
			return pktcls.NewCondAllOf(cs...)
		default:
			n := r.Intn(4) // any() = true convention
			cs := make([]pktcls.Cond, n)
			for i := range cs {
				cs[i] = randCondAST(r, depth-1)
			}
			return pktcls.NewCondAnyOf(cs...)
		}
	}
	mkNet := func() *net.IPNet {
		a := srcPool[r.Intn(len(srcPool))]
		l := []int{0, 1, 7, 8, 15, 16, 24, 31, 32}[r.Intn(9)]
		ip := make(net.IP, 4)
		binary.BigEndian.PutUint32(ip, a)
		return &net.IPNet{IP: ip, Mask: net.CIDRMask(l, 32)} // possibly unmasked
	}
	switch r.Intn(9) {
	case 0:
		return pktcls.CondBool(r.Bool())
	case 1:
		return pktcls.NewCondIPv4(&pktcls.IPv4MatchDestination{Net: mkNet()})
	case 2:
		return pktcls.NewCondIPv4(&pktcls.IPv4MatchSource{Net: mkNet()})
	case 3:
		return pktcls.NewCondIPv4(&pktcls.IPv4MatchDSCP{DSCP: tosPool[r.Intn(len(tosPool))] >> uint(2*r.Intn(2))})
	case 4:
		return pktcls.NewCondIPv4(&pktcls.IPv4MatchToS{TOS: tosPool[r.Intn(len(tosPool))]})
	case 5:
		return pktcls.NewCondIPv4(&pktcls.IPv4MatchProtocol{Protocol: protoPool[r.Intn(len(protoPool))]})
	case 6:
		return pktcls.NewCondPorts(&pktcls.PortMatchSource{MinPort: portPool[r.Intn(len(portPool))], MaxPort: portPool[r.Intn(len(portPool))]})
	case 7:
		return pktcls.NewCondPorts(&pktcls.PortMatchDestination{MinPort: portPool[r.Intn(len(portPool))], MaxPort: portPool[r.Intn(len(portPool))]})
	default:
		return pktcls.CondClass{TrafficClass: fmt.Sprint(r.Intn(20))}
	}
}

func main() {
	e := vlib.Init()
	r := vlib.NewRand(uint64(e.Seed))
	e.Rule = "expressions generated as TEXT (35 valid leaf spellings incl. case/whitespace/hex-vs-decimal lexemes, 31 malformed leaves, " +
		"all/any/not with arity 0-3, textual damage) and parsed by the real BuildClassTree first; all trees of depth <= 2 over a " +
		"6-leaf alphabet (arity <= 2) + random trees to depth 4; each on crafted + random IPv4 packets (UDP/TCP with/without options, " +
		"fragments, defective L4 headers, other protocols) and an IPv6 layer; plus AST-level trees (empty all/any, unmasked nets) for " +
		"Eval only and the complete protocol-name table. non-trivial = accepted by the real parser; distinct by op line"
	// the complete protocol-name table
	for p := 0; p < 256; p++ {
		n := layers.IPProtocolMetadata[p].Name
		t := "pname"
		if n == "" {
			n = "-"
			t = "~pname-empty"
		}
		e.Op(fmt.Sprintf("pn %d", p), n, t)
	}
	lettersOnly := func(n string) bool {
		if n == "" {
			return false
		}
		for _, ch := range n {
			if !(ch >= 'a' && ch <= 'z' || ch >= 'A' && ch <= 'Z') {
				return false
			}
		}
		return true
	}
	// crafted packets
	var crafted []pkt
	for _, tos := range []uint8{0xb8, 0xb9, 0x00, 0x10, 0x40} {
		crafted = append(crafted, mkV4(r, 0x0a010203, 0xc0a80101, tos, 17, false, 80, 53, false))
	}
	crafted = append(crafted,
		mkV4(r, 0x0a000001, 0x0a010203, 0xb8, 6, false, 1023, 1000, false),
		mkV4(r, 0x0b000000, 0x0a010204, 0xff, 6, false, 1024, 2001, false),
		mkV4(r, 0x0a01ffff, 0x0b000001, 0x28, 17, true, 80, 53, false),
		mkV4(r, 0x0a020000, 0xc0a80201, 0, 2, false, 0, 0, false),
		mkV4(r, 0x09ffffff, 0x0a000000, 0xb8, 59, false, 0, 0, false),
		mkV6())
	pkts := func(n int) []pkt {
		ps := append([]pkt(nil), crafted...)
		for i := 0; i < n; i++ {
			ps = append(ps, randPkt(r))
		}
		return ps
	}
	// protocol predicates over the COMPLETE protocol table: by number (the printed canonical name
	// must parse back to the same predicate - names the grammar cannot spell, i.e. with digits or
	// empty, are outside, DESIGN 7a) and by name in several spellings (whatever the real parser
	// accepts must survive printing).
	for p := 0; p < 256; p++ {
		name := layers.IPProtocolMetadata[p].Name
		if !lettersOnly(name) {
			continue
		}
		pn := uint8(p)
		byNum := pktcls.NewCondIPv4(&pktcls.IPv4MatchProtocol{Protocol: pn})
		printed := byNum.String()
		want, _ := gwcond.EncCond(byNum)
		c2, err := pktcls.BuildClassTree(printed)
		got := "err"
		if err == nil {
			got, _ = gwcond.EncCond(c2)
		}
		e.Case("proto-by-number/"+printed, "proto-by-number", false)
		if got != want {
			e.Violate("C43/print-reparse-protocol", fmt.Sprintf("the protocol predicate for %d prints as %q, which parses to %q instead of itself", p, printed, got),
				map[string]any{"protocol": p, "text": printed})
		}
		ev := v4only(func(q *pkt) bool { return q.proto == pn })
		ps := append(pkts(2), mkV4(r, 0x0a010203, 0xc0a80101, 0, pn, false, 80, 53, false))
		for _, sp := range []string{name, strings.ToLower(name), strings.ToUpper(name)} {
			// valid=false: only the canonical spelling is demanded above; other spellings are
			// checked (evaluation, print/re-parse) when the real parser accepts them
			g := gnode{text: "protocol=" + sp, valid: false, eval: ev}
			runText(e, g, ps, "proto-name")
			if c, err := pktcls.BuildClassTree(g.text); err == nil {
				_, bits := evalBits(c, ps)
				for i := range ps {
					if ps[i].clean && bits[i] != ev(&ps[i]) {
						e.Violate("C43/eval", fmt.Sprintf("expression evaluates to %v, its boolean value is %v", bits[i], !bits[i]),
							map[string]any{"text": g.text, "packet": ps[i].enc})
						break
					}
				}
			}
		}
	}
	// exhaustive part
	var alpha []gnode
	for _, i := range smallAlphabet {
		alpha = append(alpha, leaves[i])
	}
	na := e.N(4, 6)
	for _, g := range enumerate(2, alpha[:na]) {
		runText(e, g, pkts(2), "enum")
	}
	// random trees
	n := e.N(7000, 60000)
	for i := 0; i < n; i++ {
		g := randTree(r, r.Range(1, 4))
		tag := "rand"
		if r.Chance(12) {
			g.text = damage(r, g.text)
			g.valid = false
			tag = "damaged"
		}
		runText(e, g, pkts(4), tag)
		if i < 3 {
			e.Sample(map[string]any{"text": g.text})
		}
	}
	// AST-level evaluation
	n = e.N(5000, 40000)
	for i := 0; i < n; i++ {
		c := randCondAST(r, 3)
		enc, ok := gwcond.EncCond(c)
		if !ok {
			continue
		}
		ps := pkts(4)
		bits, _ := evalBits(c, ps)
		t := "ev"
		if !strings.Contains(bits, "1") {
			t = "ev-allfalse"
		}
		e.Op(fmt.Sprintf("ev %s %s", encPkts(ps), enc), bits, t)
	}
	e.Finish()
}
