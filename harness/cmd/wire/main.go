// Engine "wire" (C18): ties lean/Scion/Model/Wire.lean (+WireExt.lean) to pkg/slayers and
// evaluates the C18 property predicate — value→bytes→value, bytes→value→bytes modulo reserved
// bits, rejection without panic — directly on the real codecs.
package main

import (
	"bytes"
	"encoding/binary"
	"fmt"
	"strings"

	"github.com/scionproto/scion/pkg/slayers/path/epic"

	"verifharness/vlib"
	"verifharness/wiregen"
)

func decAnswer(data []byte) string {
	s, trunc, err, pn := wiregen.RealDecode(data)
	if pn != "" {
		return pn
	}
	if err != nil {
		return "err " + wiregen.B2s(trunc)
	}
	return fmt.Sprintf("ok %s pld=%d", wiregen.ScionStr(s), len(s.Payload))
}

func rtAnswer(data []byte) string {
	s, trunc, err, pn := wiregen.RealDecode(data)
	if pn != "" {
		return pn
	}
	if err != nil {
		return "err " + wiregen.B2s(trunc)
	}
	out, err, pn := wiregen.RealSerialize(s, s.Payload, false)
	if pn != "" {
		return pn
	}
	if err != nil {
		return "ser-err"
	}
	return vlib.Hex(out)
}

// ---- the statement's reserved bits, written from doc/protocols/scion-header.rst ------------------

// maskReserved zeroes, in a copy of an accepted packet, the bits the specification marks as
// reserved: RSV of the common header, RSV of the path meta header, the reserved flag bits and RSV
// byte of one-hop info/hop fields.
func maskReserved(x []byte) []byte {
	m := append([]byte(nil), x...)
	if len(m) < 12 {
		return m
	}
	m[10], m[11] = 0, 0
	off := 12 + 16 + 4*(1+int(m[9]>>4&3)) + 4*(1+int(m[9]&3))
	and := func(i int, k byte) {
		if i < len(m) {
			m[i] &= k
		}
	}
	switch m[8] {
	case 1:
		and(off+1, 0x03)
	case 2:
		and(off, 0x03)
		and(off+1, 0)
		and(off+8, 0x03)
		and(off+20, 0x03)
	case 3:
		and(off+17, 0x03)
	}
	return m
}

// ---- checks -----------------------------------------------------------------------------------

type ctx struct {
	e *vlib.Env
	r *vlib.Rand
}

// checkBytes sends one byte string through the real decoder (and, when accepted, back through the
// real serializer), records the two correspondence lines and evaluates the property predicate.
func (c *ctx) checkBytes(x []byte, tag string) {
	e := c.e
	dec := decAnswer(x)
	acc := strings.HasPrefix(dec, "ok ")
	t := tag
	if !acc {
		t = tag + "/" + strings.ReplaceAll(dec, " ", "")
		if strings.HasPrefix(dec, "PANIC") {
			t = tag + "/PANIC"
		}
	}
	e.Op("dec "+vlib.Hex(x), dec, t)
	rep := map[string]any{"bytes": vlib.Hex(x), "kind": tag}
	if strings.HasPrefix(dec, "PANIC") {
		e.Violate("C18/decoder-panic", "SCION.DecodeFromBytes panicked: "+dec, rep)
		return
	}
	if !acc {
		return
	}
	if len(x) >= 12 && int(x[5])*4 > len(x) {
		e.Violate("C18/overlong-hdrlen-accepted", "decoder accepted a HdrLen that exceeds the data", rep)
	}
	rt := rtAnswer(x)
	e.Op("rt "+vlib.Hex(x), rt, t+"/rt")
	want := vlib.Hex(maskReserved(x))
	if rt != want {
		rep["reserialized"] = rt
		rep["expected"] = want
		e.Violate("C18/reserialize-differs",
			"re-serializing an accepted byte string does not reproduce it on the non-reserved bits", rep)
		return
	}
	// the re-serialized bytes decode to the same field values
	if d2 := decAnswer(maskReserved(x)); d2 != dec {
		rep["decoded"] = dec
		rep["decoded_again"] = d2
		e.Violate("C18/redecode-differs", "decode(serialize(decode x)) differs from decode x", rep)
	}
}

func (c *ctx) mutate(b []byte, hdrLen int) ([]byte, string) {
	r := c.r
	x := append([]byte(nil), b...)
	if hdrLen > len(x) {
		hdrLen = len(x)
	}
	off := 12
	if len(x) >= 12 {
		off = 12 + 16 + 4*(1+int(x[9]>>4&3)) + 4*(1+int(x[9]&3))
	}
	switch r.Intn(12) {
	case 0, 1:
		if hdrLen > 0 {
			x[r.Intn(hdrLen)] ^= 1 << uint(r.Intn(8))
		}
		return x, "bitflip"
	case 2:
		if len(x) > 5 {
			x[5] = byte(int(x[5]) + []int{1, 1, 2, 3, 4, -1, -2, -3, 8, 100}[r.Intn(10)])
		}
		return x, "hdrlen"
	case 3:
		if len(x) > 5 {
			x[5] = []byte{0, 1, 2, 7, 8, 9, 255, byte(r.U64())}[r.Intn(8)]
		}
		return x, "hdrlen-abs"
	case 4:
		if len(x) > 8 {
			x[8] = []byte{0, 1, 2, 3, 4, 5, 255, byte(r.U64())}[r.Intn(8)]
		}
		return x, "pathtype"
	case 5:
		if len(x) > 9 {
			x[9] = byte(r.U64())
		}
		return x, "addrtype"
	case 6:
		if len(x) > 11 {
			x[10], x[11] = byte(r.U64()), byte(r.U64())
		}
		for _, p := range []int{off, off + 1, off + 8, off + 17, off + 20} {
			if p < len(x) && r.Bool() {
				x[p] |= byte(r.U64()) & 0xfc
			}
		}
		return x, "reserved"
	case 7:
		// meta line / first path bytes
		for _, o := range []int{off, off + 16} {
			if o+4 <= len(x) && r.Bool() {
				switch r.Intn(4) {
				case 0:
					copy(x[o:], r.Bytes(4))
				case 1:
					w := binary.BigEndian.Uint32(x[o:])
					w &^= 63 << uint(6*r.Intn(3)) // zero one SegLen: gap or shorter path
					binary.BigEndian.PutUint32(x[o:], w)
				case 2:
					w := binary.BigEndian.Uint32(x[o:])
					w += 1 << uint(6*r.Intn(3)) // one more hop than the header has room for
					binary.BigEndian.PutUint32(x[o:], w)
				case 3:
					w := binary.BigEndian.Uint32(x[o:])
					w |= 63 << uint(6*r.Intn(3))
					binary.BigEndian.PutUint32(x[o:], w)
				}
			}
		}
		return x, "metaline"
	case 8:
		return x[:r.Intn(len(x)+1)], "truncate"
	case 9:
		return append(x, r.Bytes(1+r.Intn(40))...), "extend"
	case 10:
		// HdrLen slack: declare 1..4 more lines and insert that many bytes after the header
		if len(x) > 5 && hdrLen <= len(x) {
			k := 1 + r.Intn(4)
			if int(x[5])+k <= 255 {
				x[5] += byte(k)
				y := append([]byte(nil), x[:hdrLen]...)
				y = append(y, r.Bytes(4*k)...)
				y = append(y, x[hdrLen:]...)
				return y, "hdrlen-slack"
			}
		}
		return x, "hdrlen-slack"
	default:
		n := r.Intn(hdrLen + 1)
		copy(x[n:], r.Bytes(r.Intn(8)))
		return x, "scribble"
	}
}

func main() {
	e := vlib.Init()
	r := vlib.NewRand(uint64(e.Seed))
	c := &ctx{e: e, r: r}
	e.Rule = "random SCION header values (16x16 address types; empty/SCION(raw+decoded)/one-hop/EPIC paths, " +
		"1-3 segments, up to 64 hops, any pointers) -> real SerializeTo(FixLengths) -> real DecodeFromBytes " +
		"-> real SerializeTo; plus per value ~10 mutations (bit flips, HdrLen +-, HdrLen slack, path type, " +
		"address types, reserved bits, meta line, truncation, extension, scribble), every truncation offset of " +
		"a subset, random bytes; distinct = distinct op lines accepted or rejected past the common header"

	nvals := e.N(1500, 30000)
	allTrunc := e.N(25, 400)
	for i := 0; i < nvals; i++ {
		s, tag := wiregen.GenSCION(r)
		payload := r.Bytes(r.Intn(24))
		// value -> bytes with the real serializer (FixLengths), and with the model (`ser`)
		valDump := wiregen.ScionStr(s)
		hdr, err, pn := wiregen.RealSerialize(s, payload, true)
		if pn != "" {
			e.Violate("C18/serializer-panic", pn, map[string]any{"value": valDump})
			continue
		}
		if err != nil {
			e.Violate("C18/serialize-error", "well-formed value does not serialize: "+err.Error(),
				map[string]any{"value": valDump})
			continue
		}
		hdrOnly := hdr[:len(hdr)-len(payload)]
		e.Op(fmt.Sprintf("ser 1 %d %s", len(payload), valDump), vlib.Hex(hdrOnly), "ser/"+tag)
		// value -> bytes -> value: same field values (with the lengths the serializer fixed)
		fixedDump := wiregen.ScionStr(s) // SerializeTo updated HdrLen/PayloadLen in s
		got := decAnswer(hdr)
		want := fmt.Sprintf("ok %s pld=%d", fixedDump, len(payload))
		if got != want {
			e.Violate("C18/value-roundtrip", "decode(serialize(v)) differs from v",
				map[string]any{"value": fixedDump, "bytes": vlib.Hex(hdr), "decoded": got})
		}
		if i < 6 {
			e.Sample(map[string]any{"value": fixedDump, "bytes": vlib.Hex(hdr)})
		}
		c.checkBytes(hdr, tag)
		// mutations
		for k := 0; k < 10; k++ {
			x, mt := c.mutate(hdr, len(hdrOnly))
			if r.Chance(15) {
				x, _ = c.mutate(x, len(hdrOnly))
				mt += "+"
			}
			c.checkBytes(x, tag+"/"+mt)
		}
		if i < allTrunc {
			for n := 0; n <= len(hdr); n++ {
				c.checkBytes(hdr[:n], tag+"/trunc-all")
			}
		}
	}
	// serializer error branch: EPIC with a PHVF/LHVF of the wrong length
	for i := 0; i < e.N(20, 200); i++ {
		raw, _ := wiregen.GenScionPath(r).ToRaw()
		ep := &epic.Path{PHVF: r.Bytes([]int{0, 3, 5, 4}[r.Intn(4)]), LHVF: r.Bytes([]int{4, 3, 5, 0}[r.Intn(4)]), ScionPath: raw}
		s, _ := wiregen.GenSCION(r)
		s.Path, s.PathType = ep, ep.Type()
		dump := wiregen.ScionStr(s)
		out, err, pn := wiregen.RealSerialize(s, nil, true)
		ans := vlib.Hex(out)
		if pn != "" {
			ans = pn
		} else if err != nil {
			ans = "ser-err"
		}
		e.Op("ser 1 0 "+dump, ans, "ser/epic-hvf-len")
	}
	// random bytes
	for i := 0; i < e.N(1500, 30000); i++ {
		x := r.Bytes(r.Intn(120))
		if len(x) > 9 && r.Chance(70) {
			x[8] = byte(r.Intn(4))
			x[5] = byte(r.Intn(40))
		}
		c.checkBytes(x, "random")
	}
	_ = bytes.Equal
	e.Finish()
}
