// Engine "wire" (C18): ties lean/Scion/Model/Wire.lean (+WireExt.lean) to pkg/slayers and
// evaluates the C18 property predicate — value→bytes→value, bytes→value→bytes modulo reserved
// bits, rejection without panic — directly on the real codecs.
package main

import (
	"bytes"
	"encoding/binary"
	"fmt"
	"strings"

	"github.com/gopacket/gopacket"

	"github.com/scionproto/scion/pkg/addr"
	"github.com/scionproto/scion/pkg/slayers"
	"github.com/scionproto/scion/pkg/slayers/path"
	"github.com/scionproto/scion/pkg/slayers/path/empty"
	"github.com/scionproto/scion/pkg/slayers/path/epic"
	"github.com/scionproto/scion/pkg/slayers/path/onehop"
	"github.com/scionproto/scion/pkg/slayers/path/scion"

	"verifharness/vlib"
)

type feedback struct{ trunc bool }

func (f *feedback) SetTruncated() { f.trunc = true }

func b2s(b bool) string {
	if b {
		return "1"
	}
	return "0"
}

// ---- canonical dumps of real layer values -----------------------------------------------------

func infoStr(i path.InfoField) string {
	return fmt.Sprintf("%s.%s.%d.%d", b2s(i.Peer), b2s(i.ConsDir), i.SegID, i.Timestamp)
}

func hopStr(h path.HopField) string {
	return fmt.Sprintf("%s.%s.%d.%d.%d.%s", b2s(h.IngressRouterAlert), b2s(h.EgressRouterAlert),
		h.ExpTime, h.ConsIngress, h.ConsEgress, vlib.Hex(h.Mac[:]))
}

func metaWord(m scion.MetaHdr) uint32 {
	return uint32(m.CurrINF&3)<<30 | uint32(m.CurrHF&63)<<24 | uint32(m.SegLen[0]&63)<<12 |
		uint32(m.SegLen[1]&63)<<6 | uint32(m.SegLen[2]&63)
}

func rawStr(r *scion.Raw) string {
	body := []byte{}
	if len(r.Raw) >= 4 {
		body = r.Raw[4:]
	}
	return fmt.Sprintf("%d %s", metaWord(r.PathMeta), vlib.Hex(body))
}

func pathStr(p path.Path) string {
	switch v := p.(type) {
	case empty.Path:
		return "empty"
	case *scion.Raw:
		return "scion " + rawStr(v)
	case *scion.Decoded:
		b := make([]byte, v.Len())
		if err := v.SerializeTo(b); err != nil {
			return "scion-decoded-unserializable"
		}
		return fmt.Sprintf("scion %d %s", metaWord(v.PathMeta), vlib.Hex(b[4:]))
	case *onehop.Path:
		return fmt.Sprintf("onehop %s %s %s", infoStr(v.Info), hopStr(v.FirstHop), hopStr(v.SecondHop))
	case *epic.Path:
		return fmt.Sprintf("epic %d %d %s %s %s", v.PktID.Timestamp, v.PktID.Counter,
			vlib.Hex(v.PHVF), vlib.Hex(v.LHVF), rawStr(v.ScionPath))
	}
	return fmt.Sprintf("unknown-path-%T", p)
}

func scionStr(s *slayers.SCION) string {
	return fmt.Sprintf("%d %d %d %d %d %d %d %d %d %d %d %s %s %s", s.Version, s.TrafficClass, s.FlowID,
		uint8(s.NextHdr), s.HdrLen, s.PayloadLen, uint8(s.PathType), uint8(s.DstAddrType),
		uint8(s.SrcAddrType), uint64(s.DstIA), uint64(s.SrcIA), vlib.Hex(s.RawDstAddr),
		vlib.Hex(s.RawSrcAddr), pathStr(s.Path))
}

// ---- real codec calls ---------------------------------------------------------------------------

// realDecode runs SCION.DecodeFromBytes on a private copy of data.
func realDecode(data []byte) (s *slayers.SCION, trunc bool, err error, panicked string) {
	cp := append([]byte(nil), data...)
	fb := &feedback{}
	s = &slayers.SCION{}
	res, ok := vlib.Safe(func() string {
		err = s.DecodeFromBytes(cp, fb)
		return ""
	})
	if !ok {
		return nil, false, nil, res
	}
	return s, fb.trunc, err, ""
}

// realSerialize runs SCION.SerializeTo in front of payload.
func realSerialize(s *slayers.SCION, payload []byte, fix bool) (out []byte, err error, panicked string) {
	res, ok := vlib.Safe(func() string {
		buf := gopacket.NewSerializeBuffer()
		if len(payload) > 0 {
			b, _ := buf.PrependBytes(len(payload))
			copy(b, payload)
		}
		err = s.SerializeTo(buf, gopacket.SerializeOptions{FixLengths: fix})
		if err == nil {
			out = append([]byte(nil), buf.Bytes()...)
		}
		return ""
	})
	if !ok {
		return nil, nil, res
	}
	return out, err, ""
}

func decAnswer(data []byte) string {
	s, trunc, err, pn := realDecode(data)
	if pn != "" {
		return pn
	}
	if err != nil {
		return "err " + b2s(trunc)
	}
	return fmt.Sprintf("ok %s pld=%d", scionStr(s), len(s.Payload))
}

func rtAnswer(data []byte) string {
	s, trunc, err, pn := realDecode(data)
	if pn != "" {
		return pn
	}
	if err != nil {
		return "err " + b2s(trunc)
	}
	out, err, pn := realSerialize(s, s.Payload, false)
	if pn != "" {
		return pn
	}
	if err != nil {
		return "ser-err"
	}
	return vlib.Hex(out)
}

// ---- the statement's reserved bits, written from doc/protocols/scion-header.rst ------------------

// maskReserved zeroes, in a copy of an accepted packet, the bits the specification marks as
// reserved: RSV of the common header, RSV of the path meta header, the reserved flag bits and RSV
// byte of one-hop info/hop fields.
func maskReserved(x []byte) []byte {
	m := append([]byte(nil), x...)
	if len(m) < 12 {
		return m
	}
	m[10], m[11] = 0, 0
	off := 12 + 16 + 4*(1+int(m[9]>>4&3)) + 4*(1+int(m[9]&3))
	and := func(i int, k byte) {
		if i < len(m) {
			m[i] &= k
		}
	}
	switch m[8] {
	case 1:
		and(off+1, 0x03)
	case 2:
		and(off, 0x03)
		and(off+1, 0)
		and(off+8, 0x03)
		and(off+20, 0x03)
	case 3:
		and(off+17, 0x03)
	}
	return m
}

// ---- value generation -------------------------------------------------------------------------

var nextHdrs = []uint8{17, 202, 200, 201, 203, 6, 0, 253}

func genInfo(r *vlib.Rand) path.InfoField {
	return path.InfoField{Peer: r.Bool(), ConsDir: r.Bool(), SegID: uint16(r.U64()), Timestamp: uint32(r.U64())}
}

func genHop(r *vlib.Rand) path.HopField {
	h := path.HopField{IngressRouterAlert: r.Bool(), EgressRouterAlert: r.Bool(), ExpTime: uint8(r.U64()),
		ConsIngress: uint16(r.U64()), ConsEgress: uint16(r.U64())}
	copy(h.Mac[:], r.Bytes(6))
	return h
}

var segChoices = []int{1, 1, 2, 2, 3, 4, 5, 8, 20, 31, 61, 62, 63} // SegLen is a 6-bit field

// genScionPath builds a scion.Decoded with a shape Base.DecodeFromBytes accepts.
func genScionPath(r *vlib.Rand) *scion.Decoded {
	d := &scion.Decoded{}
	ninf := 1 + r.Intn(3)
	tot := 0
	for i := 0; i < ninf; i++ {
		l := segChoices[r.Intn(len(segChoices))]
		if tot+l+(ninf-1-i) > 64 {
			l = 1 + r.Intn(min(63, 64-tot-(ninf-1-i)))
		}
		d.PathMeta.SegLen[i] = uint8(l)
		tot += l
		d.InfoFields = append(d.InfoFields, genInfo(r))
	}
	d.NumINF, d.NumHops = ninf, tot
	for i := 0; i < tot; i++ {
		d.HopFields = append(d.HopFields, genHop(r))
	}
	if r.Chance(70) {
		d.PathMeta.CurrHF = uint8(r.Intn(tot))
		d.PathMeta.CurrINF = uint8(r.Intn(ninf))
	} else { // any pointer values decode
		d.PathMeta.CurrHF = uint8(r.Intn(64))
		d.PathMeta.CurrINF = uint8(r.Intn(4))
	}
	return d
}

func genPath(r *vlib.Rand) (path.Path, string) {
	switch r.Intn(10) {
	case 0:
		return empty.Path{}, "empty"
	case 1, 2:
		return &onehop.Path{Info: genInfo(r), FirstHop: genHop(r), SecondHop: genHop(r)}, "onehop"
	case 3, 4:
		raw, err := genScionPath(r).ToRaw()
		if err != nil {
			panic(err)
		}
		return &epic.Path{PktID: epic.PktID{Timestamp: uint32(r.U64()), Counter: uint32(r.U64())},
			PHVF: r.Bytes(4), LHVF: r.Bytes(4), ScionPath: raw}, "epic"
	case 5, 6:
		raw, err := genScionPath(r).ToRaw()
		if err != nil {
			panic(err)
		}
		return raw, "scion"
	default:
		return genScionPath(r), "scion"
	}
}

func genSCION(r *vlib.Rand) (*slayers.SCION, string) {
	p, tag := genPath(r)
	s := &slayers.SCION{
		Version: uint8(r.Intn(16)), TrafficClass: uint8(r.U64()), FlowID: uint32(r.U64()) & 0xfffff,
		NextHdr: slayers.L4ProtocolType(nextHdrs[r.Intn(len(nextHdrs))]), PathType: p.Type(), Path: p,
		DstAddrType: slayers.AddrType(r.Intn(16)), SrcAddrType: slayers.AddrType(r.Intn(16)),
		DstIA: addr.IA(r.U64()), SrcIA: addr.IA(r.U64()),
	}
	if r.Chance(30) {
		s.Version = 0
	}
	if r.Chance(10) {
		s.NextHdr = slayers.L4ProtocolType(r.U64())
	}
	s.RawDstAddr = r.Bytes(s.DstAddrType.Length())
	s.RawSrcAddr = r.Bytes(s.SrcAddrType.Length())
	return s, tag
}

// ---- checks -----------------------------------------------------------------------------------

type ctx struct {
	e *vlib.Env
	r *vlib.Rand
}

// checkBytes sends one byte string through the real decoder (and, when accepted, back through the
// real serializer), records the two correspondence lines and evaluates the property predicate.
func (c *ctx) checkBytes(x []byte, tag string) {
	e := c.e
	dec := decAnswer(x)
	acc := strings.HasPrefix(dec, "ok ")
	t := tag
	if !acc {
		t = tag + "/" + strings.ReplaceAll(dec, " ", "")
		if strings.HasPrefix(dec, "PANIC") {
			t = tag + "/PANIC"
		}
	}
	e.Op("dec "+vlib.Hex(x), dec, t)
	rep := map[string]any{"bytes": vlib.Hex(x), "kind": tag}
	if strings.HasPrefix(dec, "PANIC") {
		e.Violate("C18/decoder-panic", "SCION.DecodeFromBytes panicked: "+dec, rep)
		return
	}
	if !acc {
		return
	}
	if len(x) >= 12 && int(x[5])*4 > len(x) {
		e.Violate("C18/overlong-hdrlen-accepted", "decoder accepted a HdrLen that exceeds the data", rep)
	}
	rt := rtAnswer(x)
	e.Op("rt "+vlib.Hex(x), rt, t+"/rt")
	want := vlib.Hex(maskReserved(x))
	if rt != want {
		rep["reserialized"] = rt
		rep["expected"] = want
		e.Violate("C18/reserialize-differs",
			"re-serializing an accepted byte string does not reproduce it on the non-reserved bits", rep)
		return
	}
	// the re-serialized bytes decode to the same field values
	if d2 := decAnswer(maskReserved(x)); d2 != dec {
		rep["decoded"] = dec
		rep["decoded_again"] = d2
		e.Violate("C18/redecode-differs", "decode(serialize(decode x)) differs from decode x", rep)
	}
}

func (c *ctx) mutate(b []byte, hdrLen int) ([]byte, string) {
	r := c.r
	x := append([]byte(nil), b...)
	if hdrLen > len(x) {
		hdrLen = len(x)
	}
	off := 12
	if len(x) >= 12 {
		off = 12 + 16 + 4*(1+int(x[9]>>4&3)) + 4*(1+int(x[9]&3))
	}
	switch r.Intn(12) {
	case 0, 1:
		if hdrLen > 0 {
			x[r.Intn(hdrLen)] ^= 1 << uint(r.Intn(8))
		}
		return x, "bitflip"
	case 2:
		if len(x) > 5 {
			x[5] = byte(int(x[5]) + []int{1, 1, 2, 3, 4, -1, -2, -3, 8, 100}[r.Intn(10)])
		}
		return x, "hdrlen"
	case 3:
		if len(x) > 5 {
			x[5] = []byte{0, 1, 2, 7, 8, 9, 255, byte(r.U64())}[r.Intn(8)]
		}
		return x, "hdrlen-abs"
	case 4:
		if len(x) > 8 {
			x[8] = []byte{0, 1, 2, 3, 4, 5, 255, byte(r.U64())}[r.Intn(8)]
		}
		return x, "pathtype"
	case 5:
		if len(x) > 9 {
			x[9] = byte(r.U64())
		}
		return x, "addrtype"
	case 6:
		if len(x) > 11 {
			x[10], x[11] = byte(r.U64()), byte(r.U64())
		}
		for _, p := range []int{off, off + 1, off + 8, off + 17, off + 20} {
			if p < len(x) && r.Bool() {
				x[p] |= byte(r.U64()) & 0xfc
			}
		}
		return x, "reserved"
	case 7:
		// meta line / first path bytes
		for _, o := range []int{off, off + 16} {
			if o+4 <= len(x) && r.Bool() {
				switch r.Intn(4) {
				case 0:
					copy(x[o:], r.Bytes(4))
				case 1:
					w := binary.BigEndian.Uint32(x[o:])
					w &^= 63 << uint(6*r.Intn(3)) // zero one SegLen: gap or shorter path
					binary.BigEndian.PutUint32(x[o:], w)
				case 2:
					w := binary.BigEndian.Uint32(x[o:])
					w += 1 << uint(6*r.Intn(3)) // one more hop than the header has room for
					binary.BigEndian.PutUint32(x[o:], w)
				case 3:
					w := binary.BigEndian.Uint32(x[o:])
					w |= 63 << uint(6*r.Intn(3))
					binary.BigEndian.PutUint32(x[o:], w)
				}
			}
		}
		return x, "metaline"
	case 8:
		return x[:r.Intn(len(x)+1)], "truncate"
	case 9:
		return append(x, r.Bytes(1+r.Intn(40))...), "extend"
	case 10:
		// HdrLen slack: declare 1..4 more lines and insert that many bytes after the header
		if len(x) > 5 && hdrLen <= len(x) {
			k := 1 + r.Intn(4)
			if int(x[5])+k <= 255 {
				x[5] += byte(k)
				y := append([]byte(nil), x[:hdrLen]...)
				y = append(y, r.Bytes(4*k)...)
				y = append(y, x[hdrLen:]...)
				return y, "hdrlen-slack"
			}
		}
		return x, "hdrlen-slack"
	default:
		n := r.Intn(hdrLen + 1)
		copy(x[n:], r.Bytes(r.Intn(8)))
		return x, "scribble"
	}
}

func main() {
	e := vlib.Init()
	r := vlib.NewRand(uint64(e.Seed))
	c := &ctx{e: e, r: r}
	e.Rule = "random SCION header values (16x16 address types; empty/SCION(raw+decoded)/one-hop/EPIC paths, " +
		"1-3 segments, up to 64 hops, any pointers) -> real SerializeTo(FixLengths) -> real DecodeFromBytes " +
		"-> real SerializeTo; plus per value ~10 mutations (bit flips, HdrLen +-, HdrLen slack, path type, " +
		"address types, reserved bits, meta line, truncation, extension, scribble), every truncation offset of " +
		"a subset, random bytes; distinct = distinct op lines accepted or rejected past the common header"

	nvals := e.N(1500, 30000)
	allTrunc := e.N(25, 400)
	for i := 0; i < nvals; i++ {
		s, tag := genSCION(r)
		payload := r.Bytes(r.Intn(24))
		// value -> bytes with the real serializer (FixLengths), and with the model (`ser`)
		valDump := scionStr(s)
		hdr, err, pn := realSerialize(s, payload, true)
		if pn != "" {
			e.Violate("C18/serializer-panic", pn, map[string]any{"value": valDump})
			continue
		}
		if err != nil {
			e.Violate("C18/serialize-error", "well-formed value does not serialize: "+err.Error(),
				map[string]any{"value": valDump})
			continue
		}
		hdrOnly := hdr[:len(hdr)-len(payload)]
		e.Op(fmt.Sprintf("ser 1 %d %s", len(payload), valDump), vlib.Hex(hdrOnly), "ser/"+tag)
		// value -> bytes -> value: same field values (with the lengths the serializer fixed)
		fixedDump := scionStr(s) // SerializeTo updated HdrLen/PayloadLen in s
		got := decAnswer(hdr)
		want := fmt.Sprintf("ok %s pld=%d", fixedDump, len(payload))
		if got != want {
			e.Violate("C18/value-roundtrip", "decode(serialize(v)) differs from v",
				map[string]any{"value": fixedDump, "bytes": vlib.Hex(hdr), "decoded": got})
		}
		if i < 6 {
			e.Sample(map[string]any{"value": fixedDump, "bytes": vlib.Hex(hdr)})
		}
		c.checkBytes(hdr, tag)
		// mutations
		for k := 0; k < 10; k++ {
			x, mt := c.mutate(hdr, len(hdrOnly))
			if r.Chance(15) {
				x, _ = c.mutate(x, len(hdrOnly))
				mt += "+"
			}
			c.checkBytes(x, tag+"/"+mt)
		}
		if i < allTrunc {
			for n := 0; n <= len(hdr); n++ {
				c.checkBytes(hdr[:n], tag+"/trunc-all")
			}
		}
	}
	// serializer error branch: EPIC with a PHVF/LHVF of the wrong length
	for i := 0; i < e.N(20, 200); i++ {
		raw, _ := genScionPath(r).ToRaw()
		ep := &epic.Path{PHVF: r.Bytes([]int{0, 3, 5, 4}[r.Intn(4)]), LHVF: r.Bytes([]int{4, 3, 5, 0}[r.Intn(4)]), ScionPath: raw}
		s, _ := genSCION(r)
		s.Path, s.PathType = ep, ep.Type()
		dump := scionStr(s)
		out, err, pn := realSerialize(s, nil, true)
		ans := vlib.Hex(out)
		if pn != "" {
			ans = pn
		} else if err != nil {
			ans = "ser-err"
		}
		e.Op("ser 1 0 "+dump, ans, "ser/epic-hvf-len")
	}
	// random bytes
	for i := 0; i < e.N(1500, 30000); i++ {
		x := r.Bytes(r.Intn(120))
		if len(x) > 9 && r.Chance(70) {
			x[8] = byte(r.Intn(4))
			x[5] = byte(r.Intn(40))
		}
		c.checkBytes(x, "random")
	}
	_ = bytes.Equal
	e.Finish()
}
