// Engine "wire" (C18): ties lean/Scion/Model/Wire.lean (+WireExt.lean) to pkg/slayers and
// evaluates the C18 property predicate — value→bytes→value, bytes→value→bytes modulo reserved
// bits, rejection without panic — directly on the real codecs.
package main

import (
	"bytes"
	"encoding/binary"
	"fmt"
	"strings"

	"github.com/gopacket/gopacket"

	"github.com/scionproto/scion/pkg/slayers"

	"github.com/scionproto/scion/pkg/slayers/path/epic"

	"verifharness/vlib"
	"verifharness/wiregen"
)

func decAnswer(data []byte) string {
	s, trunc, err, pn := wiregen.RealDecode(data)
	if pn != "" {
		return pn
	}
	if err != nil {
		return "err " + wiregen.B2s(trunc)
	}
	return fmt.Sprintf("ok %s pld=%d", wiregen.ScionStr(s), len(s.Payload))
}

func rtAnswer(data []byte) string {
	s, trunc, err, pn := wiregen.RealDecode(data)
	if pn != "" {
		return pn
	}
	if err != nil {
		return "err " + wiregen.B2s(trunc)
	}
	out, err, pn := wiregen.RealSerialize(s, s.Payload, false)
	if pn != "" {
		return pn
	}
	if err != nil {
		return "ser-err"
	}
	return vlib.Hex(out)
}

// ---- the statement's reserved bits, written from doc/protocols/scion-header.rst ------------------

// maskReserved zeroes, in a copy of an accepted packet, the bits the specification marks as
// reserved: RSV of the common header, RSV of the path meta header, the reserved flag bits and RSV
// byte of one-hop info/hop fields.
func maskReserved(x []byte) []byte {
	m := append([]byte(nil), x...)
	if len(m) < 12 {
		return m
	}
	m[10], m[11] = 0, 0
	off := 12 + 16 + 4*(1+int(m[9]>>4&3)) + 4*(1+int(m[9]&3))
	and := func(i int, k byte) {
		if i < len(m) {
			m[i] &= k
		}
	}
	switch m[8] {
	case 1:
		and(off+1, 0x03)
	case 2:
		and(off, 0x03)
		and(off+1, 0)
		and(off+8, 0x03)
		and(off+20, 0x03)
	case 3:
		and(off+17, 0x03)
	}
	return m
}

// ---- checks -----------------------------------------------------------------------------------

type ctx struct {
	e *vlib.Env
	r *vlib.Rand
}

// checkBytes sends one byte string through the real decoder (and, when accepted, back through the
// real serializer), records the two correspondence lines and evaluates the property predicate.
func (c *ctx) checkBytes(x []byte, tag string) {
	e := c.e
	dec := decAnswer(x)
	acc := strings.HasPrefix(dec, "ok ")
	t := tag
	if !acc {
		t = tag + "/" + strings.ReplaceAll(dec, " ", "")
		if strings.HasPrefix(dec, "PANIC") {
			t = tag + "/PANIC"
		}
	}
	e.Op("dec "+vlib.Hex(x), dec, t)
	rep := map[string]any{"bytes": vlib.Hex(x), "kind": tag}
	if strings.HasPrefix(dec, "PANIC") {
		e.Violate("C18/decoder-panic", "SCION.DecodeFromBytes panicked: "+dec, rep)
		return
	}
	if !acc {
		return
	}
	if len(x) >= 12 && int(x[5])*4 > len(x) {
		e.Violate("C18/overlong-hdrlen-accepted", "decoder accepted a HdrLen that exceeds the data", rep)
	}
	rt := rtAnswer(x)
	e.Op("rt "+vlib.Hex(x), rt, t+"/rt")
	want := vlib.Hex(maskReserved(x))
	if rt != want {
		rep["reserialized"] = rt
		rep["expected"] = want
		e.Violate("C18/reserialize-differs",
			"re-serializing an accepted byte string does not reproduce it on the non-reserved bits", rep)
		return
	}
	// the re-serialized bytes decode to the same field values
	if d2 := decAnswer(maskReserved(x)); d2 != dec {
		rep["decoded"] = dec
		rep["decoded_again"] = d2
		e.Violate("C18/redecode-differs", "decode(serialize(decode x)) differs from decode x", rep)
	}
}

func (c *ctx) mutate(b []byte, hdrLen int) ([]byte, string) {
	r := c.r
	x := append([]byte(nil), b...)
	if hdrLen > len(x) {
		hdrLen = len(x)
	}
	off := 12
	if len(x) >= 12 {
		off = 12 + 16 + 4*(1+int(x[9]>>4&3)) + 4*(1+int(x[9]&3))
	}
	switch r.Intn(12) {
	case 0, 1:
		if hdrLen > 0 {
			x[r.Intn(hdrLen)] ^= 1 << uint(r.Intn(8))
		}
		return x, "bitflip"
	case 2:
		if len(x) > 5 {
			x[5] = byte(int(x[5]) + []int{1, 1, 2, 3, 4, -1, -2, -3, 8, 100}[r.Intn(10)])
		}
		return x, "hdrlen"
	case 3:
		if len(x) > 5 {
			x[5] = []byte{0, 1, 2, 7, 8, 9, 255, byte(r.U64())}[r.Intn(8)]
		}
		return x, "hdrlen-abs"
	case 4:
		if len(x) > 8 {
			x[8] = []byte{0, 1, 2, 3, 4, 5, 255, byte(r.U64())}[r.Intn(8)]
		}
		return x, "pathtype"
	case 5:
		if len(x) > 9 {
			x[9] = byte(r.U64())
		}
		return x, "addrtype"
	case 6:
		if len(x) > 11 {
			x[10], x[11] = byte(r.U64()), byte(r.U64())
		}
		for _, p := range []int{off, off + 1, off + 8, off + 17, off + 20} {
			if p < len(x) && r.Bool() {
				x[p] |= byte(r.U64()) & 0xfc
			}
		}
		return x, "reserved"
	case 7:
		// meta line / first path bytes
		for _, o := range []int{off, off + 16} {
			if o+4 <= len(x) && r.Bool() {
				switch r.Intn(4) {
				case 0:
					copy(x[o:], r.Bytes(4))
				case 1:
					w := binary.BigEndian.Uint32(x[o:])
					w &^= 63 << uint(6*r.Intn(3)) // zero one SegLen: gap or shorter path
					binary.BigEndian.PutUint32(x[o:], w)
				case 2:
					w := binary.BigEndian.Uint32(x[o:])
					w += 1 << uint(6*r.Intn(3)) // one more hop than the header has room for
					binary.BigEndian.PutUint32(x[o:], w)
				case 3:
					w := binary.BigEndian.Uint32(x[o:])
					w |= 63 << uint(6*r.Intn(3))
					binary.BigEndian.PutUint32(x[o:], w)
				}
			}
		}
		return x, "metaline"
	case 8:
		return x[:r.Intn(len(x)+1)], "truncate"
	case 9:
		return append(x, r.Bytes(1+r.Intn(40))...), "extend"
	case 10:
		// HdrLen slack: declare 1..4 more lines and insert that many bytes after the header
		if len(x) > 5 && hdrLen <= len(x) {
			k := 1 + r.Intn(4)
			if int(x[5])+k <= 255 {
				x[5] += byte(k)
				y := append([]byte(nil), x[:hdrLen]...)
				y = append(y, r.Bytes(4*k)...)
				y = append(y, x[hdrLen:]...)
				return y, "hdrlen-slack"
			}
		}
		return x, "hdrlen-slack"
	default:
		n := r.Intn(hdrLen + 1)
		copy(x[n:], r.Bytes(r.Intn(8)))
		return x, "scribble"
	}
}

// ---- extension headers and L4 headers -----------------------------------------------------------

type optIn struct {
	typ  uint8
	data []byte
	ax   uint8
	ay   uint8
}

func (c *ctx) genOpts() []optIn {
	r := c.r
	n := r.Intn(5)
	os := make([]optIn, 0, n)
	for i := 0; i < n; i++ {
		o := optIn{}
		switch r.Intn(6) {
		case 0:
			o.typ = 0 // an explicit Pad1
		case 1:
			o.typ = 1 // an explicit PadN
		case 2:
			o.typ = 2 // authenticator option number
		default:
			o.typ = uint8(r.U64())
		}
		if o.typ != 0 {
			switch r.Intn(8) {
			case 0:
				o.data = nil
			case 1:
				o.data = r.Bytes(100 + r.Intn(156)) // up to the 255-byte OptDataLen limit
			default:
				o.data = r.Bytes(r.Intn(30))
			}
		}
		if r.Chance(60) {
			x := []uint8{2, 4, 8, 4, 3, 16, 255}[r.Intn(7)]
			o.ax, o.ay = x, uint8(r.Intn(int(x)))
		}
		os = append(os, o)
	}
	return os
}

func optsInStr(os []optIn) string {
	if len(os) == 0 {
		return "-"
	}
	var w []string
	for _, o := range os {
		w = append(w, fmt.Sprintf("%d:%s:%d:%d", o.typ, vlib.Hex(o.data), o.ax, o.ay))
	}
	return strings.Join(w, ",")
}

type extLayer interface {
	DecodeFromBytes([]byte, gopacket.DecodeFeedback) error
	SerializeTo(gopacket.SerializeBuffer, gopacket.SerializeOptions) error
}

func mkExt(kind string, nh uint8, el uint8, os []optIn) extLayer {
	if kind == "hbh" {
		x := &slayers.HopByHopExtn{}
		x.NextHdr, x.ExtLen = slayers.L4ProtocolType(nh), el
		for _, o := range os {
			x.Options = append(x.Options, &slayers.HopByHopOption{OptType: slayers.OptionType(o.typ),
				OptData: o.data, OptAlign: [2]uint8{o.ax, o.ay}})
		}
		return x
	}
	x := &slayers.EndToEndExtn{}
	x.NextHdr, x.ExtLen = slayers.L4ProtocolType(nh), el
	for _, o := range os {
		x.Options = append(x.Options, &slayers.EndToEndOption{OptType: slayers.OptionType(o.typ),
			OptData: o.data, OptAlign: [2]uint8{o.ax, o.ay}})
	}
	return x
}

type optOut struct {
	typ, dlen uint8
	data      []byte
}

// extDump decodes with the real layer and renders the canonical dump.
func extDecode(kind string, data []byte) (ans string, x extLayer, nh uint8, opts []optOut, payload []byte) {
	cp := append([]byte(nil), data...)
	fb := &wiregen.Feedback{}
	var err error
	res, ok := vlib.Safe(func() string {
		if kind == "hbh" {
			h := &slayers.HopByHopExtn{}
			err = h.DecodeFromBytes(cp, fb)
			x = h
			if err == nil {
				nh, payload = uint8(h.NextHdr), h.Payload
				for _, o := range h.Options {
					opts = append(opts, optOut{uint8(o.OptType), o.OptDataLen, o.OptData})
				}
				return fmt.Sprintf("ok %d %d", uint8(h.NextHdr), h.ExtLen)
			}
		} else {
			h := &slayers.EndToEndExtn{}
			err = h.DecodeFromBytes(cp, fb)
			x = h
			if err == nil {
				nh, payload = uint8(h.NextHdr), h.Payload
				for _, o := range h.Options {
					opts = append(opts, optOut{uint8(o.OptType), o.OptDataLen, o.OptData})
				}
				return fmt.Sprintf("ok %d %d", uint8(h.NextHdr), h.ExtLen)
			}
		}
		return ""
	})
	if !ok {
		return res, nil, 0, nil, nil
	}
	if err != nil {
		return "err " + wiregen.B2s(fb.Trunc), nil, 0, nil, nil
	}
	var w []string
	for _, o := range opts {
		w = append(w, fmt.Sprintf("%d:%d:%s", o.typ, o.dlen, vlib.Hex(o.data)))
	}
	os := "-"
	if len(w) > 0 {
		os = strings.Join(w, ",")
	}
	return fmt.Sprintf("%s %s pld=%d", res, os, len(payload)), x, nh, opts, payload
}

func extSerialize(x extLayer, payload []byte, fix bool) (string, []byte) {
	var out []byte
	res, ok := vlib.Safe(func() string {
		buf := gopacket.NewSerializeBuffer()
		if len(payload) > 0 {
			b, _ := buf.PrependBytes(len(payload))
			copy(b, payload)
		}
		if err := x.SerializeTo(buf, gopacket.SerializeOptions{FixLengths: fix}); err != nil {
			return "ser-err"
		}
		out = append([]byte(nil), buf.Bytes()...)
		return vlib.Hex(out)
	})
	if !ok {
		return res, nil
	}
	return res, out
}

// content drops padding options and keeps (type, data): what an option list means.
func contentIn(os []optIn) string {
	var w []string
	for _, o := range os {
		if o.typ > 1 {
			w = append(w, fmt.Sprintf("%d:%s", o.typ, vlib.Hex(o.data)))
		}
	}
	return strings.Join(w, ",")
}

func contentOut(os []optOut) string {
	var w []string
	for _, o := range os {
		if o.typ > 1 {
			w = append(w, fmt.Sprintf("%d:%s", o.typ, vlib.Hex(o.data)))
		}
	}
	return strings.Join(w, ",")
}

// checkExtBytes: one byte string through the real extension decoder and back.
func (c *ctx) checkExtBytes(kind string, x []byte, tag string) {
	e := c.e
	ans, layer, _, _, payload := extDecode(kind, x)
	t := kind + "/" + tag
	acc := strings.HasPrefix(ans, "ok ")
	if !acc {
		t += "/" + strings.ReplaceAll(ans, " ", "")
		if strings.HasPrefix(ans, "PANIC") {
			t = kind + "/" + tag + "/PANIC"
		}
	}
	e.Op(fmt.Sprintf("ext %s %s", kind, vlib.Hex(x)), ans, t)
	rep := map[string]any{"layer": kind, "bytes": vlib.Hex(x), "kind": tag}
	if strings.HasPrefix(ans, "PANIC") {
		e.Violate("C18/ext-decoder-panic", "extension header decoder panicked: "+ans, rep)
		return
	}
	if !acc {
		return
	}
	if len(x) >= 2 && (int(x[1])+1)*4 > len(x) {
		e.Violate("C18/overlong-extlen-accepted", "decoder accepted an ExtLen that exceeds the data", rep)
	}
	rt, _ := extSerialize(layer, payload, false)
	e.Op(fmt.Sprintf("xrt %s %s", kind, vlib.Hex(x)), rt, t+"/rt")
	if rt != vlib.Hex(x) {
		rep["reserialized"] = rt
		e.Violate("C18/ext-reserialize-differs", "re-serializing an accepted extension header does not reproduce it", rep)
	}
}

func (c *ctx) extCases(n int) {
	e, r := c.e, c.r
	for i := 0; i < n; i++ {
		kind := []string{"hbh", "e2e"}[i%2]
		os := c.genOpts()
		nh := nextHdrsExt[r.Intn(len(nextHdrsExt))]
		payload := r.Bytes(r.Intn(12))
		x := mkExt(kind, nh, uint8(r.U64()), os)
		ans, bytesOut := extSerialize(x, payload, true)
		e.Op(fmt.Sprintf("sext %s 1 %d 0 %s", kind, nh, optsInStr(os)), func() string {
			if bytesOut == nil {
				return ans
			}
			return vlib.Hex(bytesOut[:len(bytesOut)-len(payload)])
		}(), "sext/"+kind)
		if bytesOut == nil {
			continue // NextHdr the layer refuses (HBH after HBH, ...): serializer error on both sides
		}
		rep := map[string]any{"layer": kind, "nextHdr": nh, "options": optsInStr(os), "bytes": vlib.Hex(bytesOut)}
		// value -> bytes -> value: same NextHdr, same options up to padding; length multiple of 4
		dec, _, dnh, dopts, dpl := extDecode(kind, bytesOut)
		hdrLen := len(bytesOut) - len(payload)
		if !strings.HasPrefix(dec, "ok ") || dnh != nh || contentOut(dopts) != contentIn(os) ||
			!bytes.Equal(dpl, payload) || hdrLen%4 != 0 {
			rep["decoded"] = dec
			e.Violate("C18/ext-value-roundtrip", "decode(serialize(extension header)) differs from the value", rep)
		}
		// alignment: every option with a request x*n+y starts at such an offset
		c.checkExtBytes(kind, bytesOut, "valid")
		for k := 0; k < 8; k++ {
			y := append([]byte(nil), bytesOut...)
			mt := ""
			switch r.Intn(7) {
			case 0:
				y[r.Intn(hdrLen)] ^= 1 << uint(r.Intn(8))
				mt = "bitflip"
			case 1:
				y[1] = byte(int(y[1]) + []int{1, 2, 3, 50, -1, 200}[r.Intn(6)])
				mt = "extlen"
			case 2:
				// an OptDataLen that runs past the header
				if hdrLen > 3 {
					y[3] = byte(hdrLen + r.Intn(200))
				}
				mt = "optdatalen"
			case 3:
				y = y[:r.Intn(len(y)+1)]
				mt = "truncate"
			case 4:
				y[0] = []byte{200, 201, 17, 202}[r.Intn(4)]
				mt = "nexthdr"
			case 5:
				copy(y[2+r.Intn(hdrLen-1):], r.Bytes(r.Intn(6)))
				mt = "scribble"
			default:
				y = append(y, r.Bytes(r.Intn(9))...)
				mt = "extend"
			}
			c.checkExtBytes(kind, y, mt)
		}
		if i < n/20 {
			for k := 0; k <= len(bytesOut); k++ {
				c.checkExtBytes(kind, bytesOut[:k], "trunc-all")
			}
		}
	}
	for i := 0; i < n; i++ {
		c.checkExtBytes([]string{"hbh", "e2e"}[i%2], r.Bytes(r.Intn(40)), "random")
	}
}

var nextHdrsExt = []uint8{17, 202, 201, 200, 6, 0, 203}

func (c *ctx) l4Cases(n int) {
	e, r := c.e, c.r
	for i := 0; i < n; i++ {
		// UDP
		u := &slayers.UDP{SrcPort: uint16(r.U64()), DstPort: uint16(r.U64()), Checksum: uint16(r.U64())}
		pl := r.Bytes(r.Intn(20))
		buf := gopacket.NewSerializeBuffer()
		_ = gopacket.SerializeLayers(buf, gopacket.SerializeOptions{FixLengths: true}, u, gopacket.Payload(pl))
		x := append([]byte(nil), buf.Bytes()...)
		switch r.Intn(6) {
		case 0:
			x = x[:r.Intn(len(x)+1)]
		case 1:
			binary.BigEndian.PutUint16(x[4:], uint16(r.Intn(12)))
		case 2:
			binary.BigEndian.PutUint16(x[4:], uint16(r.U64()))
		}
		fb := &wiregen.Feedback{}
		d := &slayers.UDP{}
		ans, _ := vlib.Safe(func() string {
			if err := d.DecodeFromBytes(append([]byte(nil), x...), fb); err != nil {
				return "err " + wiregen.B2s(fb.Trunc)
			}
			return fmt.Sprintf("ok %d %d %d %d pld=%d trunc=%s", d.SrcPort, d.DstPort, d.Length, d.Checksum,
				len(d.Payload), wiregen.B2s(fb.Trunc))
		})
		e.Op("udp "+vlib.Hex(x), ans, "udp/"+strings.SplitN(ans, " ", 2)[0])
		if strings.HasPrefix(ans, "PANIC") {
			e.Violate("C18/udp-decoder-panic", ans, map[string]any{"bytes": vlib.Hex(x)})
		}
		if strings.HasPrefix(ans, "ok") {
			// bytes -> value -> bytes on the header
			b2 := gopacket.NewSerializeBuffer()
			_ = d.SerializeTo(b2, gopacket.SerializeOptions{})
			if !bytes.Equal(b2.Bytes(), x[:8]) {
				e.Violate("C18/udp-reserialize-differs", "UDP header does not re-serialize to itself",
					map[string]any{"bytes": vlib.Hex(x)})
			}
		}
		// SCMP
		y := r.Bytes(r.Intn(16))
		s := &slayers.SCMP{}
		fb2 := &wiregen.Feedback{}
		ans2, _ := vlib.Safe(func() string {
			if err := s.DecodeFromBytes(append([]byte(nil), y...), fb2); err != nil {
				return "err " + wiregen.B2s(fb2.Trunc)
			}
			return fmt.Sprintf("ok %d %d %d pld=%d", s.TypeCode.Type(), s.TypeCode.Code(), s.Checksum, len(s.Payload))
		})
		e.Op("scmp "+vlib.Hex(y), ans2, "scmp/"+strings.SplitN(ans2, " ", 2)[0])
		if strings.HasPrefix(ans2, "ok") {
			b2 := gopacket.NewSerializeBuffer()
			pb, _ := b2.PrependBytes(len(s.Payload))
			copy(pb, s.Payload)
			_ = s.SerializeTo(b2, gopacket.SerializeOptions{})
			if !bytes.Equal(b2.Bytes(), y) {
				e.Violate("C18/scmp-reserialize-differs", "SCMP header does not re-serialize to itself",
					map[string]any{"bytes": vlib.Hex(y)})
			}
		}
	}
}

// ---- SCMP message layers ------------------------------------------------------------------------

type msgLayer interface {
	DecodeFromBytes([]byte, gopacket.DecodeFeedback) error
	SerializeTo(gopacket.SerializeBuffer, gopacket.SerializeOptions) error
	LayerPayload() []byte
}

// msgDecode decodes the message layer the real SCMP.NextLayerType selects for type t.
func msgDecode(t uint8, data []byte) (ans string, l msgLayer) {
	scmp := &slayers.SCMP{TypeCode: slayers.CreateSCMPTypeCode(slayers.SCMPType(t), 0)}
	var vals func() []uint64
	switch scmp.NextLayerType() {
	case slayers.LayerTypeSCMPDestinationUnreachable:
		m := &slayers.SCMPDestinationUnreachable{}
		l, vals = m, func() []uint64 { return nil }
	case slayers.LayerTypeSCMPPacketTooBig:
		m := &slayers.SCMPPacketTooBig{}
		l, vals = m, func() []uint64 { return []uint64{uint64(m.MTU)} }
	case slayers.LayerTypeSCMPParameterProblem:
		m := &slayers.SCMPParameterProblem{}
		l, vals = m, func() []uint64 { return []uint64{uint64(m.Pointer)} }
	case slayers.LayerTypeSCMPExternalInterfaceDown:
		m := &slayers.SCMPExternalInterfaceDown{}
		l, vals = m, func() []uint64 { return []uint64{uint64(m.IA), m.IfID} }
	case slayers.LayerTypeSCMPInternalConnectivityDown:
		m := &slayers.SCMPInternalConnectivityDown{}
		l, vals = m, func() []uint64 { return []uint64{uint64(m.IA), m.Ingress, m.Egress} }
	case slayers.LayerTypeSCMPEcho:
		m := &slayers.SCMPEcho{}
		l, vals = m, func() []uint64 { return []uint64{uint64(m.Identifier), uint64(m.SeqNumber)} }
	case slayers.LayerTypeSCMPTraceroute:
		m := &slayers.SCMPTraceroute{}
		l, vals = m, func() []uint64 {
			return []uint64{uint64(m.Identifier), uint64(m.Sequence), uint64(m.IA), m.Interface}
		}
	default:
		return "payload", nil
	}
	fb := &wiregen.Feedback{}
	res, ok := vlib.Safe(func() string {
		if err := l.DecodeFromBytes(append([]byte(nil), data...), fb); err != nil {
			return "err " + wiregen.B2s(fb.Trunc)
		}
		var w []string
		for _, v := range vals() {
			w = append(w, fmt.Sprintf("%d", v))
		}
		vs := "-"
		if len(w) > 0 {
			vs = strings.Join(w, ",")
		}
		return fmt.Sprintf("ok %s pld=%d", vs, len(l.LayerPayload()))
	})
	if !ok || !strings.HasPrefix(res, "ok") {
		return res, nil
	}
	return res, l
}

var msgLens = map[uint8]int{1: 4, 2: 4, 4: 4, 5: 16, 6: 24, 128: 4, 129: 4, 130: 20, 131: 20}

// msgReserved zeroes the reserved fields of a message (scmp_msg.go layouts / SCMP spec).
func msgReserved(t uint8, x []byte) []byte {
	m := append([]byte(nil), x...)
	switch t {
	case 1:
		copy(m[:4], []byte{0, 0, 0, 0})
	case 2, 4:
		m[0], m[1] = 0, 0
	}
	return m
}

func (c *ctx) msgCases(n int) {
	e, r := c.e, c.r
	types := []uint8{1, 2, 4, 5, 6, 128, 129, 130, 131, 0, 3, 7, 100, 132, 200, 255}
	for i := 0; i < n; i++ {
		t := types[i%len(types)]
		if r.Chance(5) {
			t = uint8(r.U64())
		}
		ln := msgLens[t] + r.Intn(12)
		switch r.Intn(5) {
		case 0:
			ln = r.Intn(msgLens[t] + 1) // around and below the minimum length
		case 1:
			ln = msgLens[t]
		}
		x := r.Bytes(ln)
		ans, l := msgDecode(t, x)
		tag := fmt.Sprintf("smsg/%d/%s", t, strings.SplitN(ans, " ", 2)[0])
		if _, known := msgLens[t]; !known {
			tag = "smsg/other/" + strings.SplitN(ans, " ", 2)[0]
		}
		e.Op(fmt.Sprintf("smsg %d %s", t, vlib.Hex(x)), ans, tag)
		rep := map[string]any{"scmp_type": t, "bytes": vlib.Hex(x)}
		if strings.HasPrefix(ans, "PANIC") {
			e.Violate("C18/scmp-msg-decoder-panic", ans, rep)
			continue
		}
		if l == nil {
			if want, known := msgLens[t]; known && len(x) >= want && ans != "payload" {
				e.Violate("C18/scmp-msg-rejected", "a complete SCMP message was rejected", rep)
			}
			continue
		}
		if len(x) < msgLens[t] {
			e.Violate("C18/scmp-msg-short-accepted", "an SCMP message shorter than its fixed fields was accepted", rep)
		}
		// bytes -> value -> bytes
		buf := gopacket.NewSerializeBuffer()
		pl := l.LayerPayload()
		if len(pl) > 0 {
			b, _ := buf.PrependBytes(len(pl))
			copy(b, pl)
		}
		_ = l.SerializeTo(buf, gopacket.SerializeOptions{})
		got := vlib.Hex(buf.Bytes())
		e.Op(fmt.Sprintf("smrt %d %s", t, vlib.Hex(x)), got, tag+"/rt")
		if got != vlib.Hex(msgReserved(t, x)) {
			rep["reserialized"] = got
			e.Violate("C18/scmp-msg-reserialize-differs", "SCMP message does not re-serialize to itself (modulo reserved fields)", rep)
		}
		// value -> bytes -> value
		ans2, _ := msgDecode(t, buf.Bytes())
		if ans2 != ans {
			rep["decoded_again"] = ans2
			e.Violate("C18/scmp-msg-value-roundtrip", "decode(serialize(message)) differs", rep)
		}
	}
}

// ---- SPAO option views (pkt_auth.go) ---------------------------------------------------------------

func (c *ctx) spaoOptCases(n int) {
	e, r := c.e, c.r
	for i := 0; i < n; i++ {
		// params -> option
		p := slayers.PacketAuthOptionParams{SPI: slayers.PacketAuthSPI(r.U64()), Algorithm: slayers.PacketAuthAlg(r.U64()),
			TimestampSN: r.U64() & (1<<48 - 1), Auth: r.Bytes([]int{0, 16, 16, 20, 36, 1 + r.Intn(60), 243}[r.Intn(7)])}
		if r.Chance(10) {
			p.TimestampSN = r.U64() // mostly >= 2^48: rejected
		}
		opt, err := slayers.NewPacketAuthOption(p)
		ans := "err"
		if err == nil {
			ans = fmt.Sprintf("ok %d %d %s %d %d", uint8(opt.OptType), opt.OptDataLen, vlib.Hex(opt.OptData),
				opt.OptAlign[0], opt.OptAlign[1])
		}
		e.Op(fmt.Sprintf("sopt %d %d %d %s", uint32(p.SPI), uint8(p.Algorithm), p.TimestampSN, vlib.Hex(p.Auth)), ans,
			"sopt/"+strings.SplitN(ans, " ", 2)[0])
		if err == nil {
			// params -> option -> params
			if opt.SPI() != p.SPI || opt.Algorithm() != p.Algorithm || opt.TimestampSN() != p.TimestampSN ||
				!bytes.Equal(opt.Authenticator(), p.Auth) {
				e.Violate("C18/spao-option-roundtrip", "SPAO option views differ from the parameters it was built from",
					map[string]any{"spi": uint32(p.SPI), "alg": uint8(p.Algorithm), "ts": p.TimestampSN, "auth": vlib.Hex(p.Auth)})
			}
		}
		// option bytes -> views -> option
		typ := uint8(2)
		if r.Chance(15) {
			typ = uint8(r.U64())
		}
		d := r.Bytes([]int{0, 5, 11, 12, 13, 28, 28, 32, r.Intn(80)}[r.Intn(9)])
		o := &slayers.EndToEndOption{OptType: slayers.OptionType(typ), OptData: append([]byte(nil), d...)}
		ans2, _ := vlib.Safe(func() string {
			a, err := slayers.ParsePacketAuthOption(o)
			if err != nil {
				return "err"
			}
			return fmt.Sprintf("ok %d %d %d %s", uint32(a.SPI()), uint8(a.Algorithm()), a.TimestampSN(), vlib.Hex(a.Authenticator()))
		})
		e.Op(fmt.Sprintf("aopt %d %s", typ, vlib.Hex(d)), ans2, "aopt/"+strings.SplitN(ans2, " ", 2)[0])
		rep := map[string]any{"type": typ, "data": vlib.Hex(d)}
		if strings.HasPrefix(ans2, "PANIC") {
			e.Violate("C18/spao-option-panic", ans2, rep)
		}
		if strings.HasPrefix(ans2, "ok") {
			if typ != 2 || len(d) < 12 {
				e.Violate("C18/spao-option-accepted", "an option that is not a complete authenticator option was accepted", rep)
			}
			a, _ := slayers.ParsePacketAuthOption(o)
			re, err := slayers.NewPacketAuthOption(slayers.PacketAuthOptionParams{SPI: a.SPI(), Algorithm: a.Algorithm(),
				TimestampSN: a.TimestampSN(), Auth: a.Authenticator()})
			want := append([]byte(nil), d...)
			want[5] = 0 // RSV
			if err != nil || !bytes.Equal(re.OptData, want) {
				e.Violate("C18/spao-option-reserialize-differs", "rebuilding the option from its views does not reproduce it (modulo RSV)", rep)
			}
		}
	}
}

func main() {
	e := vlib.Init()
	r := vlib.NewRand(uint64(e.Seed))
	c := &ctx{e: e, r: r}
	e.Rule = "random SCION header values (16x16 address types; empty/SCION(raw+decoded)/one-hop/EPIC paths, " +
		"1-3 segments, up to 64 hops, any pointers) -> real SerializeTo(FixLengths) -> real DecodeFromBytes " +
		"-> real SerializeTo; plus per value ~10 mutations (bit flips, HdrLen +-, HdrLen slack, path type, " +
		"address types, reserved bits, meta line, truncation, extension, scribble), every truncation offset of " +
		"a subset, random bytes; distinct = distinct op lines accepted or rejected past the common header"

	nvals := e.N(1500, 30000)
	allTrunc := e.N(25, 400)
	for i := 0; i < nvals; i++ {
		s, tag := wiregen.GenSCION(r)
		payload := r.Bytes(r.Intn(24))
		// value -> bytes with the real serializer (FixLengths), and with the model (`ser`)
		valDump := wiregen.ScionStr(s)
		hdr, err, pn := wiregen.RealSerialize(s, payload, true)
		if pn != "" {
			e.Violate("C18/serializer-panic", pn, map[string]any{"value": valDump})
			continue
		}
		if err != nil {
			e.Violate("C18/serialize-error", "well-formed value does not serialize: "+err.Error(),
				map[string]any{"value": valDump})
			continue
		}
		hdrOnly := hdr[:len(hdr)-len(payload)]
		e.Op(fmt.Sprintf("ser 1 %d %s", len(payload), valDump), vlib.Hex(hdrOnly), "ser/"+tag)
		// value -> bytes -> value: same field values (with the lengths the serializer fixed)
		fixedDump := wiregen.ScionStr(s) // SerializeTo updated HdrLen/PayloadLen in s
		got := decAnswer(hdr)
		want := fmt.Sprintf("ok %s pld=%d", fixedDump, len(payload))
		if got != want {
			e.Violate("C18/value-roundtrip", "decode(serialize(v)) differs from v",
				map[string]any{"value": fixedDump, "bytes": vlib.Hex(hdr), "decoded": got})
		}
		if i < 6 {
			e.Sample(map[string]any{"value": fixedDump, "bytes": vlib.Hex(hdr)})
		}
		c.checkBytes(hdr, tag)
		// mutations
		for k := 0; k < 10; k++ {
			x, mt := c.mutate(hdr, len(hdrOnly))
			if r.Chance(15) {
				x, _ = c.mutate(x, len(hdrOnly))
				mt += "+"
			}
			c.checkBytes(x, tag+"/"+mt)
		}
		if i < allTrunc {
			for n := 0; n <= len(hdr); n++ {
				c.checkBytes(hdr[:n], tag+"/trunc-all")
			}
		}
	}
	// serializer error branch: EPIC with a PHVF/LHVF of the wrong length
	for i := 0; i < e.N(20, 200); i++ {
		raw, _ := wiregen.GenScionPath(r).ToRaw()
		ep := &epic.Path{PHVF: r.Bytes([]int{0, 3, 5, 4}[r.Intn(4)]), LHVF: r.Bytes([]int{4, 3, 5, 0}[r.Intn(4)]), ScionPath: raw}
		s, _ := wiregen.GenSCION(r)
		s.Path, s.PathType = ep, ep.Type()
		dump := wiregen.ScionStr(s)
		out, err, pn := wiregen.RealSerialize(s, nil, true)
		ans := vlib.Hex(out)
		if pn != "" {
			ans = pn
		} else if err != nil {
			ans = "ser-err"
		}
		e.Op("ser 1 0 "+dump, ans, "ser/epic-hvf-len")
	}
	// random bytes
	for i := 0; i < e.N(1500, 30000); i++ {
		x := r.Bytes(r.Intn(120))
		if len(x) > 9 && r.Chance(70) {
			x[8] = byte(r.Intn(4))
			x[5] = byte(r.Intn(40))
		}
		c.checkBytes(x, "random")
	}
	c.extCases(e.N(600, 12000))
	c.l4Cases(e.N(600, 12000))
	c.msgCases(e.N(1600, 32000))
	c.spaoOptCases(e.N(500, 10000))
	e.Finish()
}
