// Package pki2 is shared by the engines chain (C34), signer (C36) and renewal (C37):
// in-process generation of real keys / X.509 certificates in the SCION profile (and of every
// deviation from it), the mechanical abstraction of a parsed certificate to the facts consumed
// by lean/Scion/Model/Chain.lean, the x509 oracles, and an in-memory trust DB / key ring.
//
// Nothing here decides a property: the abstraction is field copies, the oracles are direct
// calls of crypto/x509.
package pki2

import (
	"bytes"
	"context"
	"crypto"
	"crypto/ecdsa"
	"crypto/ed25519"
	"crypto/elliptic"
	"crypto/rand"
	"crypto/sha256"
	"crypto/x509"
	"crypto/x509/pkix"
	"encoding/asn1"
	"errors"
	"fmt"
	"math/big"
	"strings"
	"sync"
	"time"

	"github.com/scionproto/scion/pkg/addr"
	"github.com/scionproto/scion/pkg/scrypto"
	"github.com/scionproto/scion/pkg/scrypto/cppki"
	"github.com/scionproto/scion/private/trust"

	"verifharness/vlib"
)

// Rand returns the engine's PRNG for a seed.  vlib.NewRand(seed) starts SplitMix64 at
// seed*golden+c, so consecutive seeds are the same stream shifted by one draw; the seed is
// therefore scrambled first so that different seeds give unrelated streams.
func Rand(seed int64) *vlib.Rand {
	z := uint64(seed) + 0x9E3779B97F4A7C15
	z = (z ^ (z >> 30)) * 0xBF58476D1CE4E5B9
	z = (z ^ (z >> 27)) * 0x94D049BB133111EB
	z ^= z >> 31
	return vlib.NewRand(z)
}

// ---------------------------------------------------------------------------------------
// keys

type Key struct {
	ID   int
	Priv crypto.Signer
	SKID []byte
}

var (
	keyMu   sync.Mutex
	keyIDs  = map[string]int{}
	nextKey = 1
)

// KeyID numbers public keys (sha256 of the PKIX encoding) in order of first appearance.
func KeyID(pub crypto.PublicKey) int {
	der, err := x509.MarshalPKIXPublicKey(pub)
	if err != nil {
		return 0
	}
	h := sha256.Sum256(der)
	keyMu.Lock()
	defer keyMu.Unlock()
	if id, ok := keyIDs[string(h[:])]; ok {
		return id
	}
	id := nextKey
	nextKey++
	keyIDs[string(h[:])] = id
	return id
}

func NewKey() *Key {
	p, err := ecdsa.GenerateKey(elliptic.P256(), rand.Reader)
	if err != nil {
		panic(err)
	}
	skid, _ := cppki.SubjectKeyID(p.Public())
	return &Key{ID: KeyID(p.Public()), Priv: p, SKID: skid}
}

func NewKeyCurve(c elliptic.Curve) *Key {
	p, err := ecdsa.GenerateKey(c, rand.Reader)
	if err != nil {
		panic(err)
	}
	skid, _ := cppki.SubjectKeyID(p.Public())
	return &Key{ID: KeyID(p.Public()), Priv: p, SKID: skid}
}

// NewEdKey returns an Ed25519 key (certificates signed with it carry a signature algorithm
// outside the SCION profile; SubjectKeyID of the repo does not support it).
func NewEdKey() *Key {
	pub, priv, err := ed25519.GenerateKey(rand.Reader)
	if err != nil {
		panic(err)
	}
	h := sha256.Sum256(pub)
	return &Key{ID: KeyID(pub), Priv: priv, SKID: h[:20]}
}

// ---------------------------------------------------------------------------------------
// templates

var serialCtr int64 = 1000

func nextSerial() *big.Int {
	keyMu.Lock()
	defer keyMu.Unlock()
	serialCtr++
	return big.NewInt(serialCtr)
}

// Name builds a distinguished name; iaText "" = no ISD-AS attribute.
func Name(cn string, iaText string) pkix.Name {
	n := pkix.Name{CommonName: cn}
	if iaText != "" {
		n.ExtraNames = []pkix.AttributeTypeAndValue{{Type: cppki.OIDNameIA, Value: iaText}}
	}
	return n
}

// NameRawIA builds a name whose ISD-AS attribute has an arbitrary ASN.1 value.
func NameRawIA(cn string, v any) pkix.Name {
	return pkix.Name{CommonName: cn, ExtraNames: []pkix.AttributeTypeAndValue{{Type: cppki.OIDNameIA, Value: v}}}
}

func RootTmpl(cn, ia string, nb, na time.Time, k *Key) *x509.Certificate {
	return &x509.Certificate{
		SerialNumber: nextSerial(), Subject: Name(cn, ia), NotBefore: nb, NotAfter: na,
		KeyUsage:              x509.KeyUsageCertSign | x509.KeyUsageCRLSign,
		ExtKeyUsage:           []x509.ExtKeyUsage{x509.ExtKeyUsageTimeStamping},
		UnknownExtKeyUsage:    []asn1.ObjectIdentifier{cppki.OIDExtKeyUsageRoot},
		BasicConstraintsValid: true, IsCA: true, MaxPathLen: 1,
		SubjectKeyId: k.SKID,
	}
}

func CATmpl(cn, ia string, nb, na time.Time, k *Key) *x509.Certificate {
	return &x509.Certificate{
		SerialNumber: nextSerial(), Subject: Name(cn, ia), NotBefore: nb, NotAfter: na,
		KeyUsage:              x509.KeyUsageCertSign | x509.KeyUsageCRLSign,
		BasicConstraintsValid: true, IsCA: true, MaxPathLen: 0, MaxPathLenZero: true,
		SubjectKeyId: k.SKID,
	}
}

func ASTmpl(cn, ia string, nb, na time.Time, k *Key) *x509.Certificate {
	return &x509.Certificate{
		SerialNumber: nextSerial(), Subject: Name(cn, ia), NotBefore: nb, NotAfter: na,
		KeyUsage: x509.KeyUsageDigitalSignature,
		ExtKeyUsage: []x509.ExtKeyUsage{x509.ExtKeyUsageServerAuth, x509.ExtKeyUsageClientAuth,
			x509.ExtKeyUsageTimeStamping},
		SubjectKeyId: k.SKID,
	}
}

// VotingTmpl: kind 1 = sensitive, 2 = regular.
func VotingTmpl(cn, ia string, nb, na time.Time, k *Key, kind int) *x509.Certificate {
	oid := cppki.OIDExtKeyUsageSensitive
	if kind == 2 {
		oid = cppki.OIDExtKeyUsageRegular
	}
	return &x509.Certificate{
		SerialNumber: nextSerial(), Subject: Name(cn, ia), NotBefore: nb, NotAfter: na,
		ExtKeyUsage:        []x509.ExtKeyUsage{x509.ExtKeyUsageTimeStamping},
		UnknownExtKeyUsage: []asn1.ObjectIdentifier{oid},
		SubjectKeyId:       k.SKID,
	}
}

// Issue signs tmpl (subject key sub) with the parent certificate/key; parent == nil means
// self-signed.  Returns the parsed certificate, or an error when crypto/x509 refuses.
func Issue(tmpl *x509.Certificate, sub *Key, parent *x509.Certificate, parentKey *Key) (*x509.Certificate, error) {
	p := parent
	if p == nil {
		p = tmpl
		parentKey = sub
	}
	raw, err := x509.CreateCertificate(rand.Reader, tmpl, p, sub.Priv.Public(), parentKey.Priv)
	if err != nil {
		return nil, err
	}
	return x509.ParseCertificate(raw)
}

func MustIssue(tmpl *x509.Certificate, sub *Key, parent *x509.Certificate, parentKey *Key) *x509.Certificate {
	c, err := Issue(tmpl, sub, parent, parentKey)
	if err != nil {
		panic(fmt.Sprintf("issue %s: %v", tmpl.Subject.CommonName, err))
	}
	return c
}

// Extension helpers for ExtraExtensions (override criticality).
func SKIDExt(skid []byte, critical bool) pkix.Extension {
	v, _ := asn1.Marshal(skid)
	return pkix.Extension{Id: cppki.OIDExtensionSubjectKeyID, Critical: critical, Value: v}
}

func AKIDExt(akid []byte, critical bool) pkix.Extension {
	type authKeyID struct {
		ID []byte `asn1:"optional,tag:0"`
	}
	v, _ := asn1.Marshal(authKeyID{ID: akid})
	return pkix.Extension{Id: cppki.OIDExtensionAuthorityKeyID, Critical: critical, Value: v}
}

func BCExt(isCA bool, maxPathLen int, critical bool) pkix.Extension {
	type bc struct {
		IsCA       bool `asn1:"optional"`
		MaxPathLen int  `asn1:"optional,default:-1"`
	}
	v, _ := asn1.Marshal(bc{IsCA: isCA, MaxPathLen: maxPathLen})
	return pkix.Extension{Id: cppki.OIDExtensionBasicConstraints, Critical: critical, Value: v}
}

// Clone returns a shallow copy of a parsed certificate whose fields may then be edited
// (the validation code only reads the parsed fields).
func Clone(c *x509.Certificate) *x509.Certificate {
	d := *c
	d.ExtKeyUsage = append([]x509.ExtKeyUsage(nil), c.ExtKeyUsage...)
	d.UnknownExtKeyUsage = append([]asn1.ObjectIdentifier(nil), c.UnknownExtKeyUsage...)
	d.Extensions = append([]pkix.Extension(nil), c.Extensions...)
	d.Subject.Names = append([]pkix.AttributeTypeAndValue(nil), c.Subject.Names...)
	d.Issuer.Names = append([]pkix.AttributeTypeAndValue(nil), c.Issuer.Names...)
	return &d
}

// ---------------------------------------------------------------------------------------
// abstraction: parsed certificate -> fact word (parsed by lean/Scion/Model/ChainParse.lean)

// IAFact: "n" = attribute absent, "e" = present but unusable, else the decimal ISD-AS.
func IAFact(dn pkix.Name) string {
	for _, n := range dn.Names {
		if !n.Type.Equal(cppki.OIDNameIA) {
			continue
		}
		s, ok := n.Value.(string)
		if !ok {
			return "e"
		}
		ia, err := addr.ParseIA(s)
		if err != nil || ia.IsWildcard() || ia.String() != s {
			return "e"
		}
		return fmt.Sprintf("%d", uint64(ia))
	}
	return "n"
}

func extFact(c *x509.Certificate, oid asn1.ObjectIdentifier) string {
	for _, e := range c.Extensions {
		if e.Id.Equal(oid) {
			if e.Critical {
				return "1"
			}
			return "0"
		}
	}
	return "n"
}

// B renders a Boolean fact.
func B(v bool) string { return b(v) }

func b(v bool) string {
	if v {
		return "1"
	}
	return "0"
}

func joinInts(xs []int) string {
	if len(xs) == 0 {
		return "-"
	}
	s := make([]string, len(xs))
	for i, x := range xs {
		s[i] = fmt.Sprintf("%d", x)
	}
	return strings.Join(s, ",")
}

// Rel is t relative to ref in nanoseconds.
func Rel(t, ref time.Time) int64 { return t.Sub(ref).Nanoseconds() }

// Facts renders the fields of c that the SCION validation code reads.  nil => "nil".
func Facts(c *x509.Certificate, ref time.Time) string {
	if c == nil {
		return "nil"
	}
	akid := 0
	if len(c.AuthorityKeyId) != 0 {
		akid = 1
		if bytes.Equal(c.AuthorityKeyId, c.SubjectKeyId) {
			akid = 2
		}
	}
	var eku, ueku []int
	for _, u := range c.ExtKeyUsage {
		eku = append(eku, int(u))
	}
	for _, o := range c.UnknownExtKeyUsage {
		switch {
		case o.Equal(cppki.OIDExtKeyUsageSensitive):
			ueku = append(ueku, 1)
		case o.Equal(cppki.OIDExtKeyUsageRegular):
			ueku = append(ueku, 2)
		case o.Equal(cppki.OIDExtKeyUsageRoot):
			ueku = append(ueku, 3)
		default:
			ueku = append(ueku, 0)
		}
	}
	kid := 0
	if c.PublicKey != nil {
		kid = KeyID(c.PublicKey)
	}
	f := []string{
		"c",
		fmt.Sprintf("%d", c.Version),
		b(c.SerialNumber != nil),
		fmt.Sprintf("%d", int(c.SignatureAlgorithm)),
		b(len(c.SubjectKeyId) == 0),
		fmt.Sprintf("%d", akid),
		extFact(c, cppki.OIDExtensionSubjectKeyID),
		extFact(c, cppki.OIDExtensionAuthorityKeyID),
		extFact(c, cppki.OIDExtensionBasicConstraints),
		fmt.Sprintf("%d", int(c.KeyUsage)),
		joinInts(eku),
		joinInts(ueku),
		b(c.BasicConstraintsValid),
		b(c.IsCA),
		fmt.Sprintf("%d", c.MaxPathLen),
		IAFact(c.Issuer),
		IAFact(c.Subject),
		fmt.Sprintf("%d", Rel(c.NotBefore, ref)),
		fmt.Sprintf("%d", Rel(c.NotAfter, ref)),
		fmt.Sprintf("%d", kid),
	}
	return strings.Join(f, ":")
}

func FactsList(cs []*x509.Certificate, ref time.Time) string {
	w := []string{fmt.Sprintf("%d", len(cs))}
	for _, c := range cs {
		w = append(w, Facts(c, ref))
	}
	return strings.Join(w, " ")
}

// ---------------------------------------------------------------------------------------
// oracles (direct calls of crypto/x509)

// firstScionOID is the independent reading of "this TRC certificate is a root certificate".
func IsRootByOID(c *x509.Certificate) bool {
	if c == nil {
		return false
	}
	for _, o := range c.UnknownExtKeyUsage {
		switch {
		case o.Equal(cppki.OIDExtKeyUsageSensitive), o.Equal(cppki.OIDExtKeyUsageRegular):
			return false
		case o.Equal(cppki.OIDExtKeyUsageRoot):
			return true
		}
	}
	return false
}

func RootsOf(trcCerts []*x509.Certificate) []*x509.Certificate {
	var rs []*x509.Certificate
	for _, c := range trcCerts {
		if IsRootByOID(c) {
			rs = append(rs, c)
		}
	}
	return rs
}

// X509OK: does leaf verify through inter to one of roots at time t (Go's path validation)?
func X509OK(leaf, inter *x509.Certificate, roots []*x509.Certificate, t time.Time) (ok bool) {
	if leaf == nil || inter == nil || len(roots) == 0 {
		return false
	}
	defer func() {
		if recover() != nil {
			ok = false
		}
	}()
	ip, rp := x509.NewCertPool(), x509.NewCertPool()
	ip.AddCert(inter)
	for _, r := range roots {
		rp.AddCert(r)
	}
	_, err := leaf.Verify(x509.VerifyOptions{Intermediates: ip, Roots: rp,
		KeyUsages: leaf.ExtKeyUsage, CurrentTime: t})
	return err == nil
}

// SigBy: child carries a valid signature of parent's key (and parent may sign certificates).
func SigBy(child, parent *x509.Certificate) (ok bool) {
	if child == nil || parent == nil {
		return false
	}
	defer func() {
		if recover() != nil {
			ok = false
		}
	}()
	return child.CheckSignatureFrom(parent) == nil
}

// X509FactsWord renders the finer facts the model uses to cross-check the oracle:
// "<nroots> (<caByRoot>:<nb>:<na>)*".
func X509FactsWord(inter *x509.Certificate, roots []*x509.Certificate, ref time.Time) string {
	w := []string{fmt.Sprintf("%d", len(roots))}
	for _, r := range roots {
		w = append(w, fmt.Sprintf("%s:%d:%d", b(SigBy(inter, r)), Rel(r.NotBefore, ref), Rel(r.NotAfter, ref)))
	}
	return strings.Join(w, " ")
}

// ---------------------------------------------------------------------------------------
// TRCs as the trust code consumes them

// MkTRC builds the in-memory TRC object (ID, validity, grace period, certificates); the code
// under test reads exactly these fields (signatures on TRCs are C32/C35's business).
func MkTRC(isd addr.ISD, base, serial uint64, nb, na time.Time, grace time.Duration,
	certs []*x509.Certificate) cppki.SignedTRC {
	return cppki.SignedTRC{
		Raw: []byte{0x30},
		TRC: cppki.TRC{
			Raw:     []byte{0x30},
			Version: 1,
			ID:      cppki.TRCID{ISD: isd, Base: scrypto.Version(base), Serial: scrypto.Version(serial)},
			Validity: cppki.Validity{
				NotBefore: nb,
				NotAfter:  na,
			},
			GracePeriod:       grace,
			Quorum:            1,
			CoreASes:          []addr.AS{0xff0000000110},
			AuthoritativeASes: []addr.AS{0xff0000000110},
			Description:       "verif",
			Certificates:      certs,
		},
	}
}

// TrcInfoWord: "<base>:<serial>:<nb>:<na>:<grace>".
func TrcInfoWord(t cppki.SignedTRC, ref time.Time) string {
	return fmt.Sprintf("%d:%d:%d:%d:%d", uint64(t.TRC.ID.Base), uint64(t.TRC.ID.Serial),
		Rel(t.TRC.Validity.NotBefore, ref), Rel(t.TRC.Validity.NotAfter, ref), int64(t.TRC.GracePeriod))
}

// ---------------------------------------------------------------------------------------
// in-memory trust DB (contract of private/trust.DB as implemented by storage/trust/sqlite)

var ErrDB = errors.New("injected db error")

type MemDB struct {
	TRCs   []cppki.SignedTRC
	ChainL [][]*x509.Certificate
	// failure injection: the n-th SignedTRC call (1-based) fails; Chains / InsertChain fail
	FailTRCCall  map[int]bool
	FailAllTRC   bool
	FailChains   bool
	FailInsert   bool
	trcCalls     int
	Inserted     [][]*x509.Certificate
	ChainQueries []trust.ChainQuery
	ChainsResult [][][]*x509.Certificate
}

func trcNewer(a, b cppki.TRCID) bool {
	return a.Base > b.Base || (a.Base == b.Base && a.Serial > b.Serial)
}

func (d *MemDB) SignedTRC(_ context.Context, id cppki.TRCID) (cppki.SignedTRC, error) {
	d.trcCalls++
	if d.FailAllTRC || d.FailTRCCall[d.trcCalls] {
		return cppki.SignedTRC{}, ErrDB
	}
	if id.Base.IsLatest() != id.Serial.IsLatest() {
		return cppki.SignedTRC{}, errors.New("unsupported TRC ID for query")
	}
	var best *cppki.SignedTRC
	for i := range d.TRCs {
		t := &d.TRCs[i]
		if t.TRC.ID.ISD != id.ISD {
			continue
		}
		if id.Base.IsLatest() {
			if best == nil || trcNewer(t.TRC.ID, best.TRC.ID) {
				best = t
			}
		} else if t.TRC.ID.Base == id.Base && t.TRC.ID.Serial == id.Serial {
			return *t, nil
		}
	}
	if best == nil {
		return cppki.SignedTRC{}, nil
	}
	return *best, nil
}

func (d *MemDB) InsertTRC(_ context.Context, t cppki.SignedTRC) (bool, error) {
	d.TRCs = append(d.TRCs, t)
	return true, nil
}

func (d *MemDB) Chains(_ context.Context, q trust.ChainQuery) ([][]*x509.Certificate, error) {
	d.ChainQueries = append(d.ChainQueries, q)
	if d.FailChains {
		return nil, ErrDB
	}
	var out [][]*x509.Certificate
	for _, ch := range d.ChainL {
		if len(ch) == 0 || ch[0] == nil {
			continue
		}
		ia, err := cppki.ExtractIA(ch[0].Subject)
		if err != nil {
			continue
		}
		if len(q.SubjectKeyID) != 0 && !bytes.Equal(q.SubjectKeyID, ch[0].SubjectKeyId) {
			continue
		}
		if !q.Validity.IsZero() && !(!ch[0].NotBefore.After(q.Validity.NotBefore) &&
			!ch[0].NotAfter.Before(q.Validity.NotAfter)) {
			continue
		}
		if q.IA.ISD() != 0 && ia.ISD() != q.IA.ISD() {
			continue
		}
		if q.IA.AS() != 0 && ia.AS() != q.IA.AS() {
			continue
		}
		out = append(out, ch)
	}
	d.ChainsResult = append(d.ChainsResult, out)
	return out, nil
}

func (d *MemDB) InsertChain(_ context.Context, ch []*x509.Certificate) (bool, error) {
	if d.FailInsert {
		return false, ErrDB
	}
	for _, have := range d.ChainL { // same chain already stored: not inserted again
		if len(have) == len(ch) && len(ch) == 2 && have[0] != nil && ch[0] != nil && have[1] != nil && ch[1] != nil &&
			bytes.Equal(have[0].Raw, ch[0].Raw) && bytes.Equal(have[1].Raw, ch[1].Raw) {
			return false, nil
		}
	}
	d.Inserted = append(d.Inserted, ch)
	d.ChainL = append(d.ChainL, ch)
	return true, nil
}

// KeyRing is a fixed list of private keys.
type KeyRing struct {
	Keys []crypto.Signer
	Err  error
}

func (k KeyRing) PrivateKeys(context.Context) ([]crypto.Signer, error) { return k.Keys, k.Err }
