// Package gwcond is shared by the gateway engines (gwrouting, pktcls): it renders real
// pktcls.Cond trees and decoded IPv4 layers in the word notation of
// lean/Scion/Util/GwCodec.lean and builds raw IP packets.  Field copies only, no logic.
package gwcond

import (
	"encoding/binary"
	"fmt"
	"net"
	"strings"

	"github.com/gopacket/gopacket"
	"github.com/gopacket/gopacket/layers"

	"github.com/scionproto/scion/gateway/pktcls"

	"verifharness/vlib"
)

func encNet(n *net.IPNet) (string, bool) {
	if n == nil {
		return "", false
	}
	ip := n.IP.To4()
	ones, bits := n.Mask.Size()
	if ip == nil || bits != 32 {
		return "", false
	}
	return fmt.Sprintf("%d %d", binary.BigEndian.Uint32(ip), ones), true
}

// EncCond renders a condition tree; ok=false for shapes outside the model (nil operands,
// non-IPv4 networks).
func EncCond(c pktcls.Cond) (string, bool) {
	switch v := c.(type) {
	case pktcls.CondAllOf:
		return encList("A", []pktcls.Cond(v))
	case pktcls.CondAnyOf:
		return encList("O", []pktcls.Cond(v))
	case pktcls.CondNot:
		if v.Operand == nil {
			return "", false
		}
		s, ok := EncCond(v.Operand)
		return "N " + s, ok
	case pktcls.CondBool:
		if bool(v) {
			return "T", true
		}
		return "F", true
	case pktcls.CondClass:
		var n uint64
		if _, err := fmt.Sscanf(v.TrafficClass, "%d", &n); err != nil || fmt.Sprint(n) != v.TrafficClass {
			return "", false
		}
		return fmt.Sprintf("c %d", n), true
	case *pktcls.CondIPv4:
		switch p := v.Predicate.(type) {
		case *pktcls.IPv4MatchSource:
			s, ok := encNet(p.Net)
			return "s " + s, ok
		case *pktcls.IPv4MatchDestination:
			s, ok := encNet(p.Net)
			return "d " + s, ok
		case *pktcls.IPv4MatchDSCP:
			return fmt.Sprintf("q %d", p.DSCP), true
		case *pktcls.IPv4MatchToS:
			return fmt.Sprintf("o %d", p.TOS), true
		case *pktcls.IPv4MatchProtocol:
			return fmt.Sprintf("p %d", p.Protocol), true
		}
	case *pktcls.CondPorts:
		switch p := v.Predicate.(type) {
		case *pktcls.PortMatchSource:
			return fmt.Sprintf("sp %d %d", p.MinPort, p.MaxPort), true
		case *pktcls.PortMatchDestination:
			return fmt.Sprintf("dp %d %d", p.MinPort, p.MaxPort), true
		}
	}
	return "", false
}

func encList(tag string, cs []pktcls.Cond) (string, bool) {
	parts := []string{tag, fmt.Sprint(len(cs))}
	for _, c := range cs {
		s, ok := EncCond(c)
		if !ok {
			return "", false
		}
		parts = append(parts, s)
	}
	return strings.Join(parts, " "), true
}

// V4Spec describes an IPv4 packet to build.
type V4Spec struct {
	Src, Dst uint32
	TOS      uint8
	Proto    uint8
	MF       bool
	FragOff  uint16
	Payload  []byte
}

// Raw serialises the packet (IHL 5, correct total length; checksum left zero — gopacket does
// not verify it).
func (s V4Spec) Raw() []byte {
	b := make([]byte, 20+len(s.Payload))
	b[0] = 0x45
	b[1] = s.TOS
	binary.BigEndian.PutUint16(b[2:], uint16(len(b)))
	ff := s.FragOff & 0x1fff
	if s.MF {
		ff |= 0x2000
	}
	binary.BigEndian.PutUint16(b[6:], ff)
	b[8] = 64
	b[9] = s.Proto
	binary.BigEndian.PutUint32(b[12:], s.Src)
	binary.BigEndian.PutUint32(b[16:], s.Dst)
	copy(b[20:], s.Payload)
	return b
}

var DecodeOptions = gopacket.DecodeOptions{NoCopy: true, Lazy: true}

// DecodeV4 decodes the IPv4 header alone (nil if that fails) and reports whether the packet as a
// whole is accepted by IPForwarder.Run's decoding (lazy decode, then ErrorLayer() which decodes
// all remaining layers: a malformed L4 header makes the packet invalid).
func DecodeV4(raw []byte) (*layers.IPv4, bool) {
	ip := &layers.IPv4{}
	if err := ip.DecodeFromBytes(raw, gopacket.NilDecodeFeedback); err != nil {
		return nil, false
	}
	p := gopacket.NewPacket(raw, layers.LayerTypeIPv4, DecodeOptions)
	return ip, p.ErrorLayer() == nil
}

// EncV4 renders the decoded layer: "4 src dst tos proto frag payload".
func EncV4(ip *layers.IPv4) string {
	frag := 0
	if ip.Flags&layers.IPv4MoreFragments != 0 || ip.FragOffset != 0 {
		frag = 1
	}
	return fmt.Sprintf("4 %d %d %d %d %d %s", binary.BigEndian.Uint32(ip.SrcIP.To4()),
		binary.BigEndian.Uint32(ip.DstIP.To4()), ip.TOS, uint8(ip.Protocol), frag, vlib.Hex(ip.LayerPayload()))
}

// L4 builds an L4 payload: kind 0 = UDP, 1 = TCP, 2 = random bytes; mostly well-formed with
// boundary defects (short header, bad UDP length, TCP data offset below 5 / beyond the data,
// TCP options: NOP, end-of-list, generic TLVs with good and bad lengths).  Never emits the
// multipath-TCP option kind 30.
func L4(r *vlib.Rand, kind int, sport, dport uint16, defects bool) []byte {
	dfl := func(n int) int { // n-way choice whose low values are the defects
		if !defects {
			return n - 1
		}
		return r.Intn(n)
	}
	switch kind {
	case 0:
		n := 8 + r.Intn(6)
		b := r.Bytes(n)
		binary.BigEndian.PutUint16(b[0:], sport)
		binary.BigEndian.PutUint16(b[2:], dport)
		switch dfl(10) {
		case 0:
			binary.BigEndian.PutUint16(b[4:], uint16(r.Intn(8))) // 0 = jumbo (ok), 1..7 bad
		case 1:
			binary.BigEndian.PutUint16(b[4:], uint16(n+r.Intn(50)))
		case 2:
			return b[:r.Intn(8)] // truncated header
		default:
			binary.BigEndian.PutUint16(b[4:], uint16(n))
		}
		return b
	case 1:
		nopt := 0
		if r.Chance(40) {
			nopt = r.Range(1, 4)
		}
		hl := 20 + 4*nopt
		b := make([]byte, hl+r.Intn(5))
		copy(b, r.Bytes(len(b)))
		binary.BigEndian.PutUint16(b[0:], sport)
		binary.BigEndian.PutUint16(b[2:], dport)
		b[12] = byte(hl/4)<<4 | b[12]&1
		// options
		o := b[20:hl]
		for i := 0; i < len(o); {
			switch c := r.Intn(10); {
			case c < 4:
				o[i] = 1
				i++
			case c == 4:
				o[i] = 0
				i++
			default:
				k := byte(r.Range(2, 29))
				if r.Chance(20) {
					k = byte(r.Range(31, 255))
				}
				o[i] = k
				if i+1 < len(o) {
					l := r.Range(2, len(o)-i)
					if defects && r.Chance(15) {
						l = r.Intn(len(o) + 3) // possibly 0, 1 or too long
					}
					o[i+1] = byte(l)
					if l < 2 {
						l = 2
					}
					for j := i + 2; j < i+l && j < len(o); j++ {
						o[j] = byte(r.Intn(256))
					}
					i += l
				} else {
					if !defects {
						o[i] = 1 // no room for a length byte: NOP instead
					}
					i++
				}
			}
		}
		switch dfl(12) {
		case 0:
			b[12] = byte(r.Intn(5)) << 4
		case 1:
			b[12] = byte(r.Range(hl/4+2, 15)) << 4 // beyond the data (len(b) <= hl+4)
		case 2:
			return b[:r.Intn(20)]
		}
		return b
	default:
		return r.Bytes(r.Intn(30))
	}
}
