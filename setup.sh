#!/bin/sh
# Builds the framework from files on disk only (offline): Lean project (all property theorems,
# model driver exe), fact extractor, and warms the Go build cache for the harness engines.
set -e
cd "$(dirname "$0")"
export GOFLAGS=-mod=mod GOPROXY=off
unset GOSUMDB GOTOOLCHAIN || true
mkdir -p .work evidence replays
python3 tools/gen_main.py
(cd tools/genfacts && go build -o ../../.work/genfacts .)
for g in $(.work/genfacts); do .work/genfacts -repo /repo -out lean/Scion/Gen -group "$g" || echo "genfacts group $g failed (reported by the checks that need it)"; done
(cd lean && lake build Scion $(grep -o 'sm_[a-z0-9_]*' lakefile.toml | sort -u))
cp /repo/go.sum harness/go.sum 2>/dev/null || true
for d in harness/cmd/*/; do n=$(basename "$d"); (cd harness && go build -tags verif -o ../.work/vh_$n ./cmd/$n) || echo "engine $n does not build (reported by its checks)"; done
echo setup done
