-- Root of the `Scion` library: every property module (kept in sync by tools/gen_root.py).
import Scion.Props.C19
