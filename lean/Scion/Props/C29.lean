import Scion.Proofs.CombGraph
import Scion.Gen.Comb
/-!
# C29 — Path combination finds every valid segment combination

`allJoins` is the specification: a direct enumeration of every way to join at most one up, one
core and one down segment (in that order) at common ASes, at shortcuts inside an up and a down
segment, or over a peering link announced by both — it does not mention the graph of graph.go.
`newDMG`/`getPaths` model the graph and the search of graph.go.  Real `Combine` is compared with
`allJoins → pathOf → filters` by `harness/cmd/comb` on every generated segment set (and the Lean
driver cross-checks `getPaths` against `allJoins` on the same inputs).
-/
namespace Scion.C29
open Scion.Combinator

/-- `allJoins` enumerates exactly the joins of the declarative definition `IsJoin`: nothing is
missed by the enumeration, and nothing else is produced -/
theorem allJoins_iff (ups cores downs : List Seg) (src dst : Nat) (es : List Edge) :
    es ∈ allJoins ups cores downs src dst ↔ IsJoin ups cores downs src dst es :=
  Scion.Combinator.allJoins_iff ups cores downs src dst es

/-- every join of the specification is returned by `Combine` (with `findAllIdentical`) unless its
path passes an AS more than twice (or `Path` would panic on it, which `pathOf_ok_of_join` excludes) -/
theorem join_returned (ups cores downs : List Seg) (src dst : Nat) (es : List Edge) (p : Path)
    (hj : IsJoin ups cores downs src dst es) (hp : pathOf es = .ok p)
    (h2 : ∀ ia, (p.intfs.map (·.ia)).count ia ≤ 2) :
    p ∈ combineSpec ups cores downs src dst true := by
  unfold combineSpec
  simp only [if_true]
  unfold filterLongPaths
  rw [List.mem_filter]
  refine ⟨(sortByWeight_perm _).mem_iff.2 ?_, ?_⟩
  · unfold pathsOf
    rw [List.mem_filterMap]
    exact ⟨es, (allJoins_iff ..).2 hj, by simp [hp]⟩
  · have : isLong p.intfs = false := by
      unfold isLong
      rw [List.any_eq_false]
      intro i _
      have := h2 i.ia
      simp; exact this
    simp [this]

/-! ### the graph search of graph.go against the specification

`IsJoinStrict` is `IsJoin` with the side condition that no intermediate join point is the
destination vertex: `GetPaths` does not extend a solution that has reached the destination.
(Such a join enters the destination AS, leaves it and comes back: with non-zero interface ids it
has three interface entries of the destination AS and is removed by `filterLongPaths` anyway.)
`NoCollision`: no segment produces two edges between the same two vertices (holds for loop-free
segments whose AS entries announce each peering interface once); otherwise `AddEdge` overwrites. -/

/-- soundness: everything the search finds is a join of the specification (no hypothesis on the
segments beyond non-emptiness, which `newDMG = some g` expresses) -/
theorem getPaths_sound {ups cores downs : List Seg} {g : DMG} {src dst : Nat} {es : List Edge}
    (hg : newDMG ups cores downs = some g) (h : es ∈ getPaths g src dst) :
    IsJoinStrict ups cores downs src dst es ∧ es ∈ allJoins ups cores downs src dst := by
  obtain ⟨c, hc, rfl⟩ := getPaths_iff_chain.1 h
  have := chain_to_join (fun x hx => dmg_sound hg hx) hc
  exact ⟨this, (allJoins_iff ..).2 this.isJoin⟩

/-- completeness: every join of the specification (not passing through the destination vertex) is
found by the search -/
theorem getPaths_complete {ups cores downs : List Seg} {g : DMG} {src dst : Nat} {es : List Edge}
    (hg : newDMG ups cores downs = some g) (hn : NoCollision (allTuples ups cores downs))
    (h : IsJoinStrict ups cores downs src dst es) : es ∈ getPaths g src dst := by
  have hall : ∀ x ∈ allTuples ups cores downs, x ∈ g := by
    intro x hx; rw [dmg_complete hg hn]; exact hx
  obtain ⟨c, hc, rfl⟩ := join_to_chain hall h
  exact getPaths_iff_chain.2 ⟨c, hc, rfl⟩

/-- the hypothesis `NoCollision` holds for segments as beaconing produces them (`SegWF`: no AS twice
in a segment, no zero IA, every peering interface announced once per AS entry) -/
theorem noCollision_of_wf {ups cores downs : List Seg}
    (hw : ∀ s ∈ ups ++ cores ++ downs, SegWF s) : NoCollision (allTuples ups cores downs) :=
  Scion.Combinator.noCollision_of_wf hw

/-- completeness for well-formed segment sets: the search finds every join of the specification
(whose intermediate join points are not the destination vertex) -/
theorem getPaths_complete_wf {ups cores downs : List Seg} {g : DMG} {src dst : Nat} {es : List Edge}
    (hg : newDMG ups cores downs = some g) (hw : ∀ s ∈ ups ++ cores ++ downs, SegWF s)
    (h : IsJoinStrict ups cores downs src dst es) : es ∈ getPaths g src dst :=
  getPaths_complete hg (noCollision_of_wf hw) h

/-- for well-formed segment sets the search finds exactly the strict joins -/
theorem getPaths_iff_wf {ups cores downs : List Seg} {g : DMG} {src dst : Nat} {es : List Edge}
    (hg : newDMG ups cores downs = some g) (hw : ∀ s ∈ ups ++ cores ++ downs, SegWF s) :
    es ∈ getPaths g src dst ↔ IsJoinStrict ups cores downs src dst es :=
  ⟨fun h => (getPaths_sound hg h).1, getPaths_complete_wf hg hw⟩

/-- the search needs no more than four rounds of the queue loop -/
theorem bfs_fuel {g : DMG} {src dst : Nat} (n : Nat) (es : List Edge) :
    es ∈ bfs g (vIA dst) (4 + n) [⟨[], vIA src, none⟩] ↔ es ∈ getPaths g src dst :=
  Scion.Combinator.bfs_fuel n es

/-- the graph is built without a panic exactly when no segment is empty -/
theorem newDMG_total (ups cores downs : List Seg)
    (h : ∀ s ∈ ups ++ cores ++ downs, s.ents ≠ []) : ∃ g, newDMG ups cores downs = some g := by
  have hall : ∀ (kind : Kind) (ss : List Seg) (g : DMG) (i : Nat), (∀ s ∈ ss, s.ents ≠ []) →
      ∃ g', traverseAll kind g i ss = some g' := by
    intro kind ss
    induction ss with
    | nil => intro g i _; exact ⟨g, rfl⟩
    | cons s ss ih =>
      intro g i hs
      obtain ⟨l, hl⟩ := lastIA_some_iff.2 (hs s List.mem_cons_self)
      obtain ⟨f, hf⟩ := firstIA_some_iff.2 (hs s List.mem_cons_self)
      have hts : ∃ g1, traverseSegment g s kind i = some g1 := by
        unfold traverseSegment
        simp only [hl, hf]
        split <;> exact ⟨_, rfl⟩
      obtain ⟨g1, hg1⟩ := hts
      unfold traverseAll
      simp only [hg1]
      exact ih _ _ (fun t ht => hs t (List.mem_cons_of_mem _ ht))
  unfold newDMG
  obtain ⟨g1, h1⟩ := hall .up ups [] 0 (fun s hs => h s (by simp [hs]))
  obtain ⟨g2, h2⟩ := hall .core cores g1 ups.length (fun s hs => h s (by simp [hs]))
  obtain ⟨g3, h3⟩ := hall .down downs g2 (ups.length + cores.length) (fun s hs => h s (by simp [hs]))
  exact ⟨g3, by simp [h1, h2, h3]⟩

/-! ### closing the gap: joins THROUGH the destination vertex are long

`IfWF`: interface ids are non-zero where a link exists (the last entry of a segment has an ingress,
every other entry an egress, a segment has at least two entries).  `SegWF` as above. -/

/-- a join either avoids the destination vertex at its intermediate join points (then the search
finds it), or its path has at least three interface entries of the destination AS — it enters the
destination, leaves it and comes back — and `filterLongPaths` removes it -/
theorem join_strict_or_long {ups cores downs : List Seg} {src dst : Nat} {es : List Edge} {p : Path}
    (hdst : dst ≠ 0) (hw : ∀ s ∈ ups ++ cores ++ downs, SegWF s ∧ IfWF s)
    (hj : IsJoin ups cores downs src dst es) (hp : pathOf es = .ok p) :
    IsJoinStrict ups cores downs src dst es ∨ isLong p.intfs = true :=
  Scion.Combinator.join_strict_or_long hdst hw hj hp

/-- COMPLETENESS, every join of the specification: for well-formed segment sets, the path of every
join of `allJoins` is found by the graph search unless it passes some AS more than twice -/
theorem getPaths_complete_all {ups cores downs : List Seg} {g : DMG} {src dst : Nat}
    {es : List Edge} {p : Path}
    (hdst : dst ≠ 0) (hw : ∀ s ∈ ups ++ cores ++ downs, SegWF s ∧ IfWF s)
    (hg : newDMG ups cores downs = some g)
    (hj : es ∈ allJoins ups cores downs src dst) (hp : pathOf es = .ok p)
    (h2 : isLong p.intfs = false) : es ∈ getPaths g src dst := by
  rcases join_strict_or_long hdst hw ((allJoins_iff ..).1 hj) hp with h | h
  · exact getPaths_complete_wf hg (fun s hs => (hw s hs).1) h
  · rw [h] at h2; cases h2

/-- `Combine` over the graph = `Combine` over the specification (findAllIdentical): the graph is
built without panic and the two results contain exactly the same paths -/
theorem combineDMG_complete_all (ups cores downs : List Seg) (src dst : Nat)
    (hdst : dst ≠ 0) (hw : ∀ s ∈ ups ++ cores ++ downs, SegWF s ∧ IfWF s) :
    ∃ ps, combineDMG ups cores downs src dst true = some ps ∧
      ∀ p, p ∈ ps ↔ p ∈ combineSpec ups cores downs src dst true := by
  obtain ⟨g, hg⟩ := newDMG_total ups cores downs (fun s hs => by
    have := (hw s hs).2.1; intro h; rw [h] at this; simp at this)
  refine ⟨filterLongPaths (sortByWeight (pathsOf (getPaths g src dst))),
    by simp [combineDMG, hg], ?_⟩
  intro p
  unfold combineSpec
  simp only [if_true]
  unfold filterLongPaths
  simp only [List.mem_filter, (sortByWeight_perm _).mem_iff]
  unfold pathsOf
  simp only [List.mem_filterMap]
  constructor
  · rintro ⟨⟨es, hes, hpo⟩, hl⟩
    exact ⟨⟨es, (getPaths_sound hg hes).2, hpo⟩, hl⟩
  · rintro ⟨⟨es, hes, hpo⟩, hl⟩
    refine ⟨⟨es, ?_, hpo⟩, hl⟩
    have hp : pathOf es = .ok p := by
      split at hpo
      · next q hq => cases hpo; exact hq
      · cases hpo
    exact getPaths_complete_all hdst hw hg hes hp (by simpa using hl)

/-- … and without `findAllIdentical` both keep, for every interface sequence, a path with the same
(latest) expiry: which of several equally late constructions is kept depends on the order in which
the solutions were found, which the statement leaves open -/
theorem combineDMG_complete_all_uniq (ups cores downs : List Seg) (src dst : Nat)
    (hdst : dst ≠ 0) (hw : ∀ s ∈ ups ++ cores ++ downs, SegWF s ∧ IfWF s) :
    ∃ ps, combineDMG ups cores downs src dst false = some ps ∧
      (∀ p ∈ ps, ∃ q ∈ combineSpec ups cores downs src dst false,
        q.intfs = p.intfs ∧ q.expiry = p.expiry) ∧
      (∀ q ∈ combineSpec ups cores downs src dst false, ∃ p ∈ ps,
        p.intfs = q.intfs ∧ p.expiry = q.expiry) := by
  obtain ⟨psA, hA, hiff⟩ := combineDMG_complete_all ups cores downs src dst hdst hw
  -- both results are `filterDuplicates` of lists with the same members
  have key : ∀ (A B : List Path), (∀ p, p ∈ A ↔ p ∈ B) → ∀ p ∈ filterDuplicates A,
      ∃ q ∈ filterDuplicates B, q.intfs = p.intfs ∧ q.expiry = p.expiry := by
    intro A B hAB p hp
    have hpA := (filterDuplicates_sublist A).subset hp
    obtain ⟨q, hq, hqi, hle⟩ := filterDuplicates_covers B p ((hAB p).1 hpA)
    have hqA := (hAB q).2 ((filterDuplicates_sublist B).subset hq)
    have := filterDuplicates_latest A p hp q hqA hqi
    exact ⟨q, hq, hqi, by omega⟩
  unfold combineDMG at hA ⊢
  cases hg : newDMG ups cores downs with
  | none => simp [hg] at hA
  | some g =>
    simp only [hg, if_true, Option.some.injEq] at hA
    subst hA
    refine ⟨_, rfl, ?_, ?_⟩
    · intro p hp
      simp only [Bool.false_eq_true, if_false] at hp
      have := key _ _ hiff p hp
      simpa [combineSpec] using this
    · intro q hq
      simp only [combineSpec, Bool.false_eq_true, if_false] at hq
      have := key _ _ (fun p => (hiff p).symm) q (by simpa [combineSpec] using hq)
      simpa using this

/-- `Path` does not panic on a join: the `Path` of every join exists -/
theorem pathOf_ok_of_join {ups cores downs : List Seg} {src dst : Nat} {es : List Edge}
    (h : IsJoin ups cores downs src dst es) : ∃ p, pathOf es = .ok p :=
  Scion.Combinator.pathOf_ok_of_join h

/-- full statement on the model: with the graph built from non-empty, collision-free segments,
`Combine` (graph version, `findAllIdentical`) returns the path of every strict join that passes no
AS more than twice -/
theorem combineDMG_complete {ups cores downs : List Seg} {src dst : Nat} {es : List Edge}
    (hne : ∀ s ∈ ups ++ cores ++ downs, s.ents ≠ [])
    (hn : NoCollision (allTuples ups cores downs))
    (h : IsJoinStrict ups cores downs src dst es) :
    ∃ p ps, pathOf es = .ok p ∧ combineDMG ups cores downs src dst true = some ps ∧
      ((∀ ia, (p.intfs.map (·.ia)).count ia ≤ 2) → p ∈ ps) := by
  obtain ⟨g, hg⟩ := newDMG_total ups cores downs hne
  obtain ⟨p, hp⟩ := pathOf_ok_of_join h.isJoin
  refine ⟨p, filterLongPaths (sortByWeight (pathsOf (getPaths g src dst))), hp,
    by simp [combineDMG, hg], ?_⟩
  intro h2
  unfold filterLongPaths
  rw [List.mem_filter]
  refine ⟨(sortByWeight_perm _).mem_iff.2 ?_, ?_⟩
  · unfold pathsOf
    rw [List.mem_filterMap]
    exact ⟨es, getPaths_complete hg hn h, by simp [hp]⟩
  · have : isLong p.intfs = false := by
      unfold isLong
      rw [List.any_eq_false]
      intro i _
      have := h2 i.ia
      simp; exact this
    simp [this]

/-! ### fact regenerated from the source (T3) -/

/-- the `validNextSeg` used by the search model is the table read off the `switch` in graph.go:
after an up segment a core or down segment, after a core segment a down segment, nothing after a
down segment, anything first -/
theorem gen_validNext :
    Scion.Gen.Comb.validNext = [("up", ["core", "down"]), ("core", ["down"]), ("down", [])] ∧
    Scion.Gen.Comb.firstSegAny = "true" ∧
    (∀ b, validNextSeg none b = true) ∧
    (∀ b, validNextSeg (some .up) b = (b == .core || b == .down)) ∧
    (∀ b, validNextSeg (some .core) b = (b == .down)) ∧
    (∀ b, validNextSeg (some .down) b = false) := by
  refine ⟨by decide, by decide, ?_, ?_, ?_, ?_⟩ <;> intro b <;> cases b <;> rfl

/-! ### non-vacuity -/
def exUp : Seg := ⟨100, 7, [⟨1, ⟨0, 1, 63, 5⟩, 0, 1500, []⟩, ⟨2, ⟨1, 2, 63, 6⟩, 1400, 1500, []⟩,
  ⟨3, ⟨1, 0, 10, 5⟩, 1300, 1500, [⟨⟨9, 0, 63, 6⟩, 4, 8, 1200⟩]⟩]⟩
def exDown : Seg := ⟨200, 9, [⟨1, ⟨0, 1, 63, 1⟩, 0, 1500, []⟩, ⟨2, ⟨1, 3, 63, 2⟩, 1400, 1500, []⟩,
  ⟨4, ⟨1, 0, 63, 3⟩, 1350, 1500, [⟨⟨8, 0, 20, 4⟩, 3, 9, 1200⟩]⟩]⟩

example : NoCollision (allTuples [exUp] [] [exDown]) := by
  unfold NoCollision
  decide

/-- the graph search and the specification agree on the example: join at the core, shortcut at AS
2, and the peering link 3#9 — 4#8 -/
example : (newDMG [exUp] [] [exDown]).map (fun g => (getPaths g 3 4).map fun es => es.map fun e => (e.kind, e.sc, e.peer)) =
    some [[(.up, 2, 1), (.down, 2, 1)], [(.up, 1, 0), (.down, 1, 0)], [(.up, 0, 0), (.down, 0, 0)]] := by
  decide

/-- the example segments satisfy the well-formedness hypotheses of the completeness theorems -/
example : ∀ s ∈ [exUp] ++ [] ++ [exDown], SegWF s ∧ IfWF s := by
  intro s hs
  simp only [List.append_nil, List.cons_append, List.nil_append, List.mem_cons, List.not_mem_nil,
    or_false] at hs
  rcases hs with rfl | rfl
  · refine ⟨⟨by decide, by decide⟩, by decide, by decide, ?_⟩
    intro i ent h hne
    match i, h, hne with
    | 0, h, _ => simp [exUp] at h; subst h; decide
    | 1, h, _ => simp [exUp] at h; subst h; decide
    | 2, _, hne => exact absurd rfl hne
    | n + 3, h, _ => simp [exUp] at h
  · refine ⟨⟨by decide, by decide⟩, by decide, by decide, ?_⟩
    intro i ent h hne
    match i, h, hne with
    | 0, h, _ => simp [exDown] at h; subst h; decide
    | 1, h, _ => simp [exDown] at h; subst h; decide
    | 2, _, hne => exact absurd rfl hne
    | n + 3, h, _ => simp [exDown] at h

end Scion.C29
