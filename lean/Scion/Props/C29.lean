import Scion.Proofs.CombGraph
import Scion.Gen.Comb
/-!
# C29 — Path combination finds every valid segment combination

`allJoins` is the specification: a direct enumeration of every way to join at most one up, one
core and one down segment (in that order) at common ASes, at shortcuts inside an up and a down
segment, or over a peering link announced by both — it does not mention the graph of graph.go.
`newDMG`/`getPaths` model the graph and the search of graph.go.  Real `Combine` is compared with
`allJoins → pathOf → filters` by `harness/cmd/comb` on every generated segment set (and the Lean
driver cross-checks `getPaths` against `allJoins` on the same inputs).
-/
namespace Scion.C29
open Scion.Combinator

/-- `allJoins` enumerates exactly the joins of the declarative definition `IsJoin`: nothing is
missed by the enumeration, and nothing else is produced -/
theorem allJoins_iff (ups cores downs : List Seg) (src dst : Nat) (es : List Edge) :
    es ∈ allJoins ups cores downs src dst ↔ IsJoin ups cores downs src dst es :=
  Scion.Combinator.allJoins_iff ups cores downs src dst es

/-- every join of the specification is returned by `Combine` (with `findAllIdentical`) unless its
path passes an AS more than twice (or `Path` would panic on it, which `pathOf_ok_of_join` excludes) -/
theorem join_returned (ups cores downs : List Seg) (src dst : Nat) (es : List Edge) (p : Path)
    (hj : IsJoin ups cores downs src dst es) (hp : pathOf es = .ok p)
    (h2 : ∀ ia, (p.intfs.map (·.ia)).count ia ≤ 2) :
    p ∈ combineSpec ups cores downs src dst true := by
  unfold combineSpec
  simp only [if_true]
  unfold filterLongPaths
  rw [List.mem_filter]
  refine ⟨(sortByWeight_perm _).mem_iff.2 ?_, ?_⟩
  · unfold pathsOf
    rw [List.mem_filterMap]
    exact ⟨es, (allJoins_iff ..).2 hj, by simp [hp]⟩
  · have : isLong p.intfs = false := by
      unfold isLong
      rw [List.any_eq_false]
      intro i _
      have := h2 i.ia
      simp; exact this
    simp [this]

/-! ### the graph search of graph.go against the specification

`IsJoinStrict` is `IsJoin` with the side condition that no intermediate join point is the
destination vertex: `GetPaths` does not extend a solution that has reached the destination.
(Such a join enters the destination AS, leaves it and comes back: with non-zero interface ids it
has three interface entries of the destination AS and is removed by `filterLongPaths` anyway.)
`NoCollision`: no segment produces two edges between the same two vertices (holds for loop-free
segments whose AS entries announce each peering interface once); otherwise `AddEdge` overwrites. -/

/-- soundness: everything the search finds is a join of the specification (no hypothesis on the
segments beyond non-emptiness, which `newDMG = some g` expresses) -/
theorem getPaths_sound {ups cores downs : List Seg} {g : DMG} {src dst : Nat} {es : List Edge}
    (hg : newDMG ups cores downs = some g) (h : es ∈ getPaths g src dst) :
    IsJoinStrict ups cores downs src dst es ∧ es ∈ allJoins ups cores downs src dst := by
  obtain ⟨c, hc, rfl⟩ := getPaths_iff_chain.1 h
  have := chain_to_join (fun x hx => dmg_sound hg hx) hc
  exact ⟨this, (allJoins_iff ..).2 this.isJoin⟩

/-- completeness: every join of the specification (not passing through the destination vertex) is
found by the search -/
theorem getPaths_complete {ups cores downs : List Seg} {g : DMG} {src dst : Nat} {es : List Edge}
    (hg : newDMG ups cores downs = some g) (hn : NoCollision (allTuples ups cores downs))
    (h : IsJoinStrict ups cores downs src dst es) : es ∈ getPaths g src dst := by
  have hall : ∀ x ∈ allTuples ups cores downs, x ∈ g := by
    intro x hx; rw [dmg_complete hg hn]; exact hx
  obtain ⟨c, hc, rfl⟩ := join_to_chain hall h
  exact getPaths_iff_chain.2 ⟨c, hc, rfl⟩

/-- the hypothesis `NoCollision` holds for segments as beaconing produces them (`SegWF`: no AS twice
in a segment, no zero IA, every peering interface announced once per AS entry) -/
theorem noCollision_of_wf {ups cores downs : List Seg}
    (hw : ∀ s ∈ ups ++ cores ++ downs, SegWF s) : NoCollision (allTuples ups cores downs) :=
  Scion.Combinator.noCollision_of_wf hw

/-- completeness for well-formed segment sets: the search finds every join of the specification
(whose intermediate join points are not the destination vertex) -/
theorem getPaths_complete_wf {ups cores downs : List Seg} {g : DMG} {src dst : Nat} {es : List Edge}
    (hg : newDMG ups cores downs = some g) (hw : ∀ s ∈ ups ++ cores ++ downs, SegWF s)
    (h : IsJoinStrict ups cores downs src dst es) : es ∈ getPaths g src dst :=
  getPaths_complete hg (noCollision_of_wf hw) h

/-- for well-formed segment sets the search finds exactly the strict joins -/
theorem getPaths_iff_wf {ups cores downs : List Seg} {g : DMG} {src dst : Nat} {es : List Edge}
    (hg : newDMG ups cores downs = some g) (hw : ∀ s ∈ ups ++ cores ++ downs, SegWF s) :
    es ∈ getPaths g src dst ↔ IsJoinStrict ups cores downs src dst es :=
  ⟨fun h => (getPaths_sound hg h).1, getPaths_complete_wf hg hw⟩

/-- the search needs no more than four rounds of the queue loop -/
theorem bfs_fuel {g : DMG} {src dst : Nat} (n : Nat) (es : List Edge) :
    es ∈ bfs g (vIA dst) (4 + n) [⟨[], vIA src, none⟩] ↔ es ∈ getPaths g src dst :=
  Scion.Combinator.bfs_fuel n es

/-- the graph is built without a panic exactly when no segment is empty -/
theorem newDMG_total (ups cores downs : List Seg)
    (h : ∀ s ∈ ups ++ cores ++ downs, s.ents ≠ []) : ∃ g, newDMG ups cores downs = some g := by
  have hall : ∀ (kind : Kind) (ss : List Seg) (g : DMG) (i : Nat), (∀ s ∈ ss, s.ents ≠ []) →
      ∃ g', traverseAll kind g i ss = some g' := by
    intro kind ss
    induction ss with
    | nil => intro g i _; exact ⟨g, rfl⟩
    | cons s ss ih =>
      intro g i hs
      obtain ⟨l, hl⟩ := lastIA_some_iff.2 (hs s List.mem_cons_self)
      obtain ⟨f, hf⟩ := firstIA_some_iff.2 (hs s List.mem_cons_self)
      have hts : ∃ g1, traverseSegment g s kind i = some g1 := by
        unfold traverseSegment
        simp only [hl, hf]
        split <;> exact ⟨_, rfl⟩
      obtain ⟨g1, hg1⟩ := hts
      unfold traverseAll
      simp only [hg1]
      exact ih _ _ (fun t ht => hs t (List.mem_cons_of_mem _ ht))
  unfold newDMG
  obtain ⟨g1, h1⟩ := hall .up ups [] 0 (fun s hs => h s (by simp [hs]))
  obtain ⟨g2, h2⟩ := hall .core cores g1 ups.length (fun s hs => h s (by simp [hs]))
  obtain ⟨g3, h3⟩ := hall .down downs g2 (ups.length + cores.length) (fun s hs => h s (by simp [hs]))
  exact ⟨g3, by simp [h1, h2, h3]⟩

/-- `Path` does not panic on a join: the `Path` of every join exists -/
theorem pathOf_ok_of_join {ups cores downs : List Seg} {src dst : Nat} {es : List Edge}
    (h : IsJoin ups cores downs src dst es) : ∃ p, pathOf es = .ok p :=
  Scion.Combinator.pathOf_ok_of_join h

/-- full statement on the model: with the graph built from non-empty, collision-free segments,
`Combine` (graph version, `findAllIdentical`) returns the path of every strict join that passes no
AS more than twice -/
theorem combineDMG_complete {ups cores downs : List Seg} {src dst : Nat} {es : List Edge}
    (hne : ∀ s ∈ ups ++ cores ++ downs, s.ents ≠ [])
    (hn : NoCollision (allTuples ups cores downs))
    (h : IsJoinStrict ups cores downs src dst es) :
    ∃ p ps, pathOf es = .ok p ∧ combineDMG ups cores downs src dst true = some ps ∧
      ((∀ ia, (p.intfs.map (·.ia)).count ia ≤ 2) → p ∈ ps) := by
  obtain ⟨g, hg⟩ := newDMG_total ups cores downs hne
  obtain ⟨p, hp⟩ := pathOf_ok_of_join h.isJoin
  refine ⟨p, filterLongPaths (sortByWeight (pathsOf (getPaths g src dst))), hp,
    by simp [combineDMG, hg], ?_⟩
  intro h2
  unfold filterLongPaths
  rw [List.mem_filter]
  refine ⟨(sortByWeight_perm _).mem_iff.2 ?_, ?_⟩
  · unfold pathsOf
    rw [List.mem_filterMap]
    exact ⟨es, getPaths_complete hg hn h, by simp [hp]⟩
  · have : isLong p.intfs = false := by
      unfold isLong
      rw [List.any_eq_false]
      intro i _
      have := h2 i.ia
      simp; exact this
    simp [this]

/-! ### fact regenerated from the source (T3) -/

/-- the `validNextSeg` used by the search model is the table read off the `switch` in graph.go:
after an up segment a core or down segment, after a core segment a down segment, nothing after a
down segment, anything first -/
theorem gen_validNext :
    Scion.Gen.Comb.validNext = [("up", ["core", "down"]), ("core", ["down"]), ("down", [])] ∧
    Scion.Gen.Comb.firstSegAny = "true" ∧
    (∀ b, validNextSeg none b = true) ∧
    (∀ b, validNextSeg (some .up) b = (b == .core || b == .down)) ∧
    (∀ b, validNextSeg (some .core) b = (b == .down)) ∧
    (∀ b, validNextSeg (some .down) b = false) := by
  refine ⟨by decide, by decide, ?_, ?_, ?_, ?_⟩ <;> intro b <;> cases b <;> rfl

/-! ### non-vacuity -/
def exUp : Seg := ⟨100, 7, [⟨1, ⟨0, 1, 63, 5⟩, 0, 1500, []⟩, ⟨2, ⟨1, 2, 63, 6⟩, 1400, 1500, []⟩,
  ⟨3, ⟨1, 0, 10, 5⟩, 1300, 1500, [⟨⟨9, 0, 63, 6⟩, 4, 8, 1200⟩]⟩]⟩
def exDown : Seg := ⟨200, 9, [⟨1, ⟨0, 1, 63, 1⟩, 0, 1500, []⟩, ⟨2, ⟨1, 3, 63, 2⟩, 1400, 1500, []⟩,
  ⟨4, ⟨1, 0, 63, 3⟩, 1350, 1500, [⟨⟨8, 0, 20, 4⟩, 3, 9, 1200⟩]⟩]⟩

example : NoCollision (allTuples [exUp] [] [exDown]) := by
  unfold NoCollision
  decide

/-- the graph search and the specification agree on the example: join at the core, shortcut at AS
2, and the peering link 3#9 — 4#8 -/
example : (newDMG [exUp] [] [exDown]).map (fun g => (getPaths g 3 4).map fun es => es.map fun e => (e.kind, e.sc, e.peer)) =
    some [[(.up, 2, 1), (.down, 2, 1)], [(.up, 1, 0), (.down, 1, 0)], [(.up, 0, 0), (.down, 0, 0)]] := by
  decide

end Scion.C29
