import Scion.Proofs.Combinator
/-!
# C29 — Path combination finds every valid segment combination

`allJoins` is the specification: a direct enumeration of every way to join at most one up, one
core and one down segment (in that order) at common ASes, at shortcuts inside an up and a down
segment, or over a peering link announced by both — it does not mention the graph of graph.go.
`newDMG`/`getPaths` model the graph and the search of graph.go.  Real `Combine` is compared with
`allJoins → pathOf → filters` by `harness/cmd/comb` on every generated segment set (and the Lean
driver cross-checks `getPaths` against `allJoins` on the same inputs).
-/
namespace Scion.C29
open Scion.Combinator

/-- `allJoins` enumerates exactly the joins of the declarative definition `IsJoin`: nothing is
missed by the enumeration, and nothing else is produced -/
theorem allJoins_iff (ups cores downs : List Seg) (src dst : Nat) (es : List Edge) :
    es ∈ allJoins ups cores downs src dst ↔ IsJoin ups cores downs src dst es :=
  Scion.Combinator.allJoins_iff ups cores downs src dst es

/-- every join of the specification is returned by `Combine` (with `findAllIdentical`) unless its
path passes an AS more than twice (or `Path` would panic on it, which `pathOf_ok_of_join` excludes) -/
theorem join_returned (ups cores downs : List Seg) (src dst : Nat) (es : List Edge) (p : Path)
    (hj : IsJoin ups cores downs src dst es) (hp : pathOf es = .ok p)
    (h2 : ∀ ia, (p.intfs.map (·.ia)).count ia ≤ 2) :
    p ∈ combineSpec ups cores downs src dst true := by
  unfold combineSpec
  simp only [if_true]
  unfold filterLongPaths
  rw [List.mem_filter]
  refine ⟨(sortByWeight_perm _).mem_iff.2 ?_, ?_⟩
  · unfold pathsOf
    rw [List.mem_filterMap]
    exact ⟨es, (allJoins_iff ..).2 hj, by simp [hp]⟩
  · have : isLong p.intfs = false := by
      unfold isLong
      rw [List.any_eq_false]
      intro i _
      have := h2 i.ia
      simp; exact this
    simp [this]

end Scion.C29
