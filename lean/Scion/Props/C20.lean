import Scion.Model.Checksum
import Scion.Proofs.Checksum
import Scion.Gen.Wire
/-!
# C20 — UDP and SCMP checksums verify and detect corruption

Property theorems only.  Model: `Scion.Model.Checksum` (transcription of
`SCION.{computeChecksum,pseudoHeaderChecksum,upperLayerChecksum,foldChecksum}`), tied to
`pkg/slayers` by `harness/cmd/csum` (real `UDP/SCMP.SerializeTo` with `ComputeChecksums`, every
address-type pair, lengths 0..9000, real recomputation after single-bit flips).

All theorems hold for **every** byte string / header (no length bound except where the Go
accumulator's 32 bits matter: upper layer ≤ 65535 bytes, which is all a 16-bit `PayloadLen` can
carry; the property's own quantifier stops at 9000).
-/
namespace Scion.C20
open Scion.Checksum Scion.Util

/-- host addresses of a SCION address header: 4, 8, 12 or 16 bytes (`AddrType.Length`) -/
def AddrLen (n : Nat) : Prop := n = 4 ∨ n = 8 ∨ n = 12 ∨ n = 16

def WFHdr (h : PHdr) : Prop := AddrLen h.src.length ∧ AddrLen h.dst.length

instance (h : PHdr) : Decidable (WFHdr h) := by unfold WFHdr AddrLen; exact inferInstance

/-- the fold loop preserves the value modulo 2^16 − 1 … -/
theorem fold_congr (c : Nat) : fold c % 65535 = c % 65535 := fold_mod c

/-- … ends with a 16-bit value … -/
theorem fold_lt (c : Nat) : fold c < 65536 := by have := fold_le c; omega

/-- … and yields 0 only for 0 (so a non-empty sum folds into 1..0xFFFF) -/
theorem fold_zero_iff (c : Nat) : fold c = 0 ↔ c = 0 := fold_eq_zero c

/-- the `uint32` accumulator of the Go code cannot wrap: for every address header and every
upper layer a SCION packet can carry the exact total is below 2^32 -/
theorem no_overflow (h : PHdr) (hw : WFHdr h) (length protocol : Nat) (upper : Bytes)
    (hl : upper.length ≤ 65535) : totalRaw h length protocol upper < 2 ^ 32 := by
  obtain ⟨hs, hd⟩ := hw
  have h1 := sum16_le (natBE 8 h.srcIA)
  have h2 := sum16_le (natBE 8 h.dstIA)
  have h3 := sum16_le h.src
  have h4 := sum16_le h.dst
  have h5 := sum16_le upper
  rw [length_natBE] at h1 h2
  unfold totalRaw pseudoRaw iaSum lenSum
  unfold AddrLen at hs hd
  omega

/-- hence `computeChecksum` is the complement of the folded exact total -/
theorem computeChecksum_eq (h : PHdr) (hw : WFHdr h) (upper : Bytes) (protocol : Nat)
    (hl : upper.length ≤ 65535) :
    computeChecksum h upper protocol =
      .ok (0xffff - fold (totalRaw h upper.length protocol upper)) := by
  have hno := no_overflow h hw upper.length protocol upper hl
  obtain ⟨hs, hd⟩ := hw
  unfold AddrLen at hs hd
  unfold computeChecksum pseudoHeaderChecksum
  have c1 : ¬ h.dst.length = 0 := by omega
  have c2 : ¬ h.src.length = 0 := by omega
  have c3 : ¬ (h.src.length % 2 = 1 ∨ h.dst.length % 2 = 1) := by omega
  simp only [c1, c2, c3, if_false]
  unfold foldChecksum upperLayerChecksum
  unfold totalRaw at hno ⊢
  have : (pseudoRaw h upper.length protocol % 2 ^ 32 + sum16 upper) % 2 ^ 32 =
      pseudoRaw h upper.length protocol + sum16 upper := by omega
  rw [this]

/-- **Verification.**  Take any upper layer `u` whose checksum field (an even offset `off`: 6 in
SCION/UDP, 2 in SCMP) is zero, compute the checksum as the serializer does and store it: the
one's-complement sum the receiver forms over pseudo header and upper layer folds to `0xFFFF`,
its 32-bit accumulator is exact, and recomputing the checksum over the stored bytes yields 0. -/
theorem checksum_verifies (h : PHdr) (hw : WFHdr h) (u : Bytes) (protocol off c : Nat)
    (hl : u.length ≤ 65535) (he : off % 2 = 0) (ho : off + 1 < u.length)
    (hz : getWord u off = 0) (hc : computeChecksum h u protocol = .ok c) :
    (setWord u off c).length = u.length ∧
    totalRaw h (setWord u off c).length protocol (setWord u off c) < 2 ^ 32 ∧
    fold (totalRaw h (setWord u off c).length protocol (setWord u off c)) = 0xffff ∧
    computeChecksum h (setWord u off c) protocol = .ok 0 := by
  rw [computeChecksum_eq h hw u protocol hl] at hc
  have hc' : c = 0xffff - fold (totalRaw h u.length protocol u) := by cases hc; rfl
  have hlen := length_setWord u off c
  have hfl := fold_le (totalRaw h u.length protocol u)
  have hsw := sum16_setWord u off c he ho (by omega)
  rw [hz] at hsw
  have htot : totalRaw h (setWord u off c).length protocol (setWord u off c) =
      totalRaw h u.length protocol u + c := by
    unfold totalRaw; rw [hlen]; omega
  have hno := no_overflow h hw (setWord u off c).length protocol (setWord u off c) (by omega)
  have hfold : fold (totalRaw h (setWord u off c).length protocol (setWord u off c)) = 0xffff := by
    rw [htot, hc']
    generalize totalRaw h u.length protocol u = S at *
    have h2 := fold_mod S
    have h3 := fold_le (S + (0xffff - fold S))
    have h4 := fold_mod (S + (0xffff - fold S))
    have h5 := fold_eq_zero (S + (0xffff - fold S))
    have h6 := fold_eq_zero S
    omega
  refine ⟨hlen, hno, hfold, ?_⟩
  rw [computeChecksum_eq h hw _ protocol (by omega), hfold]

/-- **Single-bit-flip detection, all covered data at once.**  The covered data is the pseudo
header (DstIA, SrcIA, DstHost, SrcHost, upper-layer length, zero, next header) followed by the
upper layer.  Whenever the covered bytes of a second packet are those of the first with bit `b`
of byte `i` flipped — wherever `i` lies: ISD-AS, host address, length, protocol, upper-layer
header, payload, the checksum field itself — the folded one's-complement sums differ. -/
theorem single_bit_flip_detected
    (h h' : PHdr) (length length' protocol protocol' : Nat) (upper upper' : Bytes)
    (hs : h.src.length % 2 = 0) (hd : h.dst.length % 2 = 0)
    (hs' : h'.src.length % 2 = 0) (hd' : h'.dst.length % 2 = 0)
    (i b : Nat) (hi : i < (pseudoBytes h length protocol ++ upper).length) (hb : b < 8)
    (hflip : pseudoBytes h' length' protocol' ++ upper' =
      flipBit (pseudoBytes h length protocol ++ upper) i b) :
    fold (totalRaw h' length' protocol' upper') ≠ fold (totalRaw h length protocol upper) := by
  rw [totalRaw_eq_sum16 h length protocol upper hs hd,
    totalRaw_eq_sum16 h' length' protocol' upper' hs' hd', hflip]
  obtain ⟨k, hk, hdiff⟩ := sum16_flipBit _ i b hi hb
  exact fold_ne_of_diff _ _ k hk hdiff

/-- bytes-only form: for *every* byte string, flipping any single bit changes the folded sum -/
theorem flip_changes_fold (l : Bytes) (i b : Nat) (hi : i < l.length) (hb : b < 8) :
    fold (sum16 (flipBit l i b)) ≠ fold (sum16 l) := by
  obtain ⟨k, hk, hdiff⟩ := sum16_flipBit l i b hi hb
  exact fold_ne_of_diff _ _ k hk hdiff

/-- consequence for the serializer/receiver pair: a flip anywhere in the upper layer (header,
payload or the stored checksum) makes the recomputed checksum differ — in particular a packet
that verified (`.ok 0`, theorem `checksum_verifies`) no longer does -/
theorem upper_flip_changes_checksum (h : PHdr) (hw : WFHdr h) (u : Bytes) (protocol : Nat)
    (hl : u.length ≤ 65535) (i b : Nat) (hi : i < u.length) (hb : b < 8) :
    computeChecksum h (flipBit u i b) protocol ≠ computeChecksum h u protocol := by
  have hlen := length_flipBit u i b
  rw [computeChecksum_eq h hw u protocol hl, computeChecksum_eq h hw _ protocol (by omega), hlen]
  have hs : h.src.length % 2 = 0 := by obtain ⟨hs, _⟩ := hw; unfold AddrLen at hs; omega
  have hd : h.dst.length % 2 = 0 := by obtain ⟨_, hd⟩ := hw; unfold AddrLen at hd; omega
  have hne := single_bit_flip_detected h h u.length u.length protocol protocol u (flipBit u i b)
    hs hd hs hd ((pseudoBytes h u.length protocol).length + i) b
    (by simp only [List.length_append]; omega) hb
    (by rw [flipBit_append_right])
  have l1 := fold_le (totalRaw h u.length protocol u)
  have l2 := fold_le (totalRaw h u.length protocol (flipBit u i b))
  intro e
  injection e with e
  omega

/-- the protocol numbers the two serializers pass to `computeChecksum` and the layout constants
the statement relies on, re-extracted from the source on every run -/
theorem gen_consts :
    Scion.Gen.Wire.L4UDP = 17 ∧ Scion.Gen.Wire.L4SCMP = 202 ∧ Scion.Gen.Wire.LineLen = 4 ∧
    Scion.Gen.Wire.IABytes = 8 := by decide

/-! Non-vacuity: a concrete SCION/UDP datagram (IPv4 → IPv6 hosts, odd payload length) meets
the hypotheses of `checksum_verifies`, and a concrete flip meets those of the detection theorem. -/
def exHdr : PHdr :=
  { srcIA := 0x0001ff0000000110, dstIA := 0x0002ff0000000220,
    src := [10, 0, 0, 1], dst := [0x20, 1, 0xd, 0xb8, 0, 0, 0, 0, 0, 0, 0, 0, 0, 0, 0, 1] }
def exUdp : Bytes := [0x1f, 0x90, 0, 53, 0, 11, 0, 0, 0xde, 0xad, 0xbe]

example : WFHdr exHdr ∧ exUdp.length ≤ 65535 ∧ 6 % 2 = 0 ∧ 6 + 1 < exUdp.length ∧
    getWord exUdp 6 = 0 := by decide
example : ∃ c, computeChecksum exHdr exUdp 17 = .ok c :=
  ⟨_, computeChecksum_eq exHdr (by decide) exUdp 17 (by decide)⟩
example : flipBit exUdp 10 7 = [0x1f, 0x90, 0, 53, 0, 11, 0, 0, 0xde, 0xad, 0x3e] := by decide

end Scion.C20
