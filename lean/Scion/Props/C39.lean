import Scion.Model.Drkey
import Scion.Proofs.Drkey
import Scion.Gen.Drkey
/-!
# C39 — DRKey keys are derived consistently and with domain separation

Property theorems only.  The model (`Scion.Model.Drkey`) is tied to `pkg/drkey`,
`control/drkey` and `private/drkey/drkeyutil` by `harness/cmd/drkey`, which runs the real
derivers, the real `ServiceEngine` and the real `FakeProvider` and compares real key bytes with
the model instantiated with an executable AES-CBC-MAC (`Scion.Util.AesDrkey`).

Every theorem is for **all** `prf`: the pseudo-random function is a parameter.
-/
namespace Scion.C39
open Scion.Util Scion.Drkey

/-! ## 1. The service's key is the key a host derives itself -/

/-- protocol of the secret value at the root of protocol `p`'s hierarchy: its own for protocols
    with a protocol-specific derivation, `Generic` otherwise (doc: "Generic-protocol derivation") -/
def svProto (p : Nat) : Nat := if isPredefined p then p else genericProto

/-- host side, AS-host key: a node holding the secret value `svKey` of the source AS runs the
    level-1 derivation and then its protocol's deriver (`specific` or `generic{p}`) -/
def hostASHost (prf : Key → Bytes → Key) (svKey : Key) (p dst : Nat) (h : Option Host) :
    Except DErr Key :=
  if isPredefined p then Specific.deriveASHost prf h (Specific.deriveLevel1 prf dst svKey)
  else Generic.deriveASHost prf p h (Specific.deriveLevel1 prf dst svKey)

def hostHostAS (prf : Key → Bytes → Key) (svKey : Key) (p dst : Nat) (h : Option Host) :
    Except DErr Key :=
  if isPredefined p then Specific.deriveHostAS prf h (Specific.deriveLevel1 prf dst svKey)
  else Generic.deriveHostAS prf p h (Specific.deriveLevel1 prf dst svKey)

def hostHostHost (prf : Key → Bytes → Key) (svKey : Key) (p dst : Nat) (hs hd : Option Host) :
    Except DErr Key :=
  match hostHostAS prf svKey p dst hs with
  | .error e => .error e
  | .ok ha =>
    if isPredefined p then Specific.deriveHostHost prf hd ha else Generic.deriveHostHost prf hd ha

/-- The control service of `loc`, asked for an AS-host key with `loc` as an endpoint, returns
    exactly what the host-side derivers give from the *source* AS's secret value of the
    matching protocol — whether the service is the source AS itself (fast side) or obtained the
    level-1 key from the source AS (slow side). -/
theorem service_eq_host_ashost (prf : Key → Bytes → Key) (sv : Nat → Nat → Key)
    (loc p src dst : Nat) (h : Option Host) (hep : src = loc ∨ dst = loc) :
    svcASHost prf sv loc p src dst h = liftD (hostASHost prf (sv src (svProto p)) p dst h) := by
  unfold svcASHost obtainLevel1Key getLevel1Key hostASHost svProto
  by_cases h1 : src = loc
  · subst h1; simp only [if_true]; split <;> rfl
  · have h2 : dst = loc := by cases hep <;> simp_all
    subst h2; simp only [h1, if_false, ne_eq, not_true_eq_false]; split <;> rfl

theorem service_eq_host_hostas (prf : Key → Bytes → Key) (sv : Nat → Nat → Key)
    (loc p src dst : Nat) (h : Option Host) (hep : src = loc ∨ dst = loc) :
    svcHostAS prf sv loc p src dst h = liftD (hostHostAS prf (sv src (svProto p)) p dst h) := by
  unfold svcHostAS obtainLevel1Key getLevel1Key hostHostAS svProto
  by_cases h1 : src = loc
  · subst h1; simp only [if_true]; split <;> rfl
  · have h2 : dst = loc := by cases hep <;> simp_all
    subst h2; simp only [h1, if_false, ne_eq, not_true_eq_false]; split <;> rfl

theorem service_eq_host_hosthost (prf : Key → Bytes → Key) (sv : Nat → Nat → Key)
    (loc p src dst : Nat) (hs hd : Option Host) (hep : src = loc ∨ dst = loc) :
    svcHostHost prf sv loc p src dst hs hd =
      liftD (hostHostHost prf (sv src (svProto p)) p dst hs hd) := by
  unfold svcHostHost hostHostHost
  rw [service_eq_host_hostas prf sv loc p src dst hs hep]
  cases hostHostAS prf (sv src (svProto p)) p dst hs with
  | error e => cases e <;> rfl
  | ok k => simp only [liftD]; split <;> rfl

/-- a service that is neither the source nor the destination AS serves nothing -/
theorem service_only_endpoint (prf : Key → Bytes → Key) (sv : Nat → Nat → Key)
    (loc p src dst : Nat) (hs hd : Option Host) (h1 : src ≠ loc) (h2 : dst ≠ loc) :
    svcASHost prf sv loc p src dst hd = .error .notEndpoint ∧
    svcHostAS prf sv loc p src dst hs = .error .notEndpoint ∧
    svcHostHost prf sv loc p src dst hs hd = .error .notEndpoint := by
  simp [svcASHost, svcHostAS, svcHostHost, obtainLevel1Key, getLevel1Key, h1, h2]

/-- the clause of the statement, all three key types -/
theorem service_eq_host (prf : Key → Bytes → Key) (sv : Nat → Nat → Key)
    (loc p src dst : Nat) (hs hd : Option Host) (hep : src = loc ∨ dst = loc) :
    svcASHost prf sv loc p src dst hd = liftD (hostASHost prf (sv src (svProto p)) p dst hd) ∧
    svcHostAS prf sv loc p src dst hs = liftD (hostHostAS prf (sv src (svProto p)) p dst hs) ∧
    svcHostHost prf sv loc p src dst hs hd =
      liftD (hostHostHost prf (sv src (svProto p)) p dst hs hd) :=
  ⟨service_eq_host_ashost prf sv loc p src dst hd hep,
   service_eq_host_hostas prf sv loc p src dst hs hep,
   service_eq_host_hosthost prf sv loc p src dst hs hd hep⟩

/-! ## 2. The documented derivation: explicit input layouts -/

/-- level 1: `type ‖ B`, zero padded to one block -/
theorem level1_layout (dst : Nat) :
    level1Input dst = (0 :: natBE 8 dst) ++ List.replicate 7 0 := by
  simp [level1Input, zeroPad, ktAsAs, natBE_length]

/-- level 2/3, protocol-specific, 4-byte host (IPv4 or service): `type ‖ len/type(H) ‖ H`, one block -/
theorem specific_layout_4 (kt : Nat) (h : Host) (hl : h.raw.length = 4) :
    specificInput kt h =
      some ((UInt8.ofNat kt :: UInt8.ofNat (h.typ % 16) :: h.raw) ++ List.replicate 10 0) := by
  simp [specificInput, inputLen, l2BufLen, zeroPad, hl]

/-- … 16-byte host (IPv6): two blocks -/
theorem specific_layout_16 (kt : Nat) (h : Host) (hl : h.raw.length = 16) :
    specificInput kt h =
      some ((UInt8.ofNat kt :: UInt8.ofNat (h.typ % 16) :: h.raw) ++ List.replicate 14 0) := by
  simp [specificInput, inputLen, l2BufLen, zeroPad, hl]

/-- level 2, generic: `type ‖ protocol ‖ len/type(H) ‖ H` -/
theorem generic_layout_4 (kt p : Nat) (h : Host) (hl : h.raw.length = 4) :
    genericInput kt p h =
      some ((UInt8.ofNat kt :: UInt8.ofNat (p / 256 % 256) :: UInt8.ofNat (p % 256) ::
             UInt8.ofNat (h.typ % 16) :: h.raw) ++ List.replicate 8 0) := by
  simp [genericInput, inputLen, l2BufLen, zeroPad, hl]

theorem generic_layout_16 (kt p : Nat) (h : Host) (hl : h.raw.length = 16) :
    genericInput kt p h =
      some ((UInt8.ofNat kt :: UInt8.ofNat (p / 256 % 256) :: UInt8.ofNat (p % 256) ::
             UInt8.ofNat (h.typ % 16) :: h.raw) ++ List.replicate 12 0) := by
  simp [genericInput, inputLen, l2BufLen, zeroPad, hl]

/-- the derivers never hit the bounds check for well-formed host addresses -/
theorem inputs_defined (kt p : Nat) (h : Host) (hw : h.WF) :
    (specificInput kt h).isSome ∧ (genericInput kt p h).isSome ∧ (hostHostInput h).isSome := by
  obtain ⟨h1, h2⟩ := hw
  simp only [hostHostInput, specificInput, genericInput, inputLen, l2BufLen, h2]
  refine ⟨?_, ?_, ?_⟩ <;> (split <;> simp_all <;> omega)

/-! ## 3. Domain separation -/

/-- each input builder is injective in what it encodes … -/
theorem level1Input_injective (a b : Nat) (ha : a < 2 ^ 64) (hb : b < 2 ^ 64)
    (h : level1Input a = level1Input b) : a = b := by
  unfold level1Input at h
  have h' := zeroPad_inj (by simp [natBE_length]) h
  simp only [List.cons.injEq, true_and] at h'
  exact natBE_inj (by simpa using ha) (by simpa using hb) h'

theorem specificInput_injective (kt1 kt2 : Nat) (h1 h2 : Host) (x : Bytes)
    (hk1 : kt1 < 256) (hk2 : kt2 < 256) (hw1 : h1.WF) (hw2 : h2.WF)
    (e1 : specificInput kt1 h1 = some x) (e2 : specificInput kt2 h2 = some x) :
    kt1 = kt2 ∧ h1 = h2 := by
  obtain ⟨t1, r1⟩ := h1
  obtain ⟨t2, r2⟩ := h2
  obtain ⟨ht1, hl1⟩ := hw1
  obtain ⟨ht2, hl2⟩ := hw2
  unfold specificInput at e1 e2
  split at e1
  · cases e1
  split at e2
  · cases e2
  simp only [Option.some.injEq] at e1 e2
  have e := e1.trans e2.symm
  simp only [zeroPad, List.cons_append, List.cons.injEq] at e
  obtain ⟨ek, et, er⟩ := e
  have hk := u8_ofNat_inj hk1 hk2 ek
  have ht : t1 = t2 := by
    have := u8_ofNat_inj (by omega) (by omega) et
    simp only at ht1 ht2; omega
  subst ht
  have hr := (List.append_inj er (by simp only at hl1 hl2; omega)).1
  subst hr
  exact ⟨hk, rfl⟩

theorem genericInput_injective (kt1 kt2 p1 p2 : Nat) (h1 h2 : Host) (x : Bytes)
    (hk1 : kt1 < 256) (hk2 : kt2 < 256) (hp1 : p1 < 65536) (hp2 : p2 < 65536)
    (hw1 : h1.WF) (hw2 : h2.WF)
    (e1 : genericInput kt1 p1 h1 = some x) (e2 : genericInput kt2 p2 h2 = some x) :
    kt1 = kt2 ∧ p1 = p2 ∧ h1 = h2 := by
  obtain ⟨t1, r1⟩ := h1
  obtain ⟨t2, r2⟩ := h2
  obtain ⟨ht1, hl1⟩ := hw1
  obtain ⟨ht2, hl2⟩ := hw2
  unfold genericInput at e1 e2
  split at e1
  · cases e1
  split at e2
  · cases e2
  simp only [Option.some.injEq] at e1 e2
  have e := e1.trans e2.symm
  simp only [zeroPad, List.cons_append, List.cons.injEq] at e
  obtain ⟨ek, eph, epl, et, er⟩ := e
  have hk := u8_ofNat_inj hk1 hk2 ek
  have hph := u8_ofNat_inj (Nat.mod_lt _ (by decide)) (Nat.mod_lt _ (by decide)) eph
  have hpl := u8_ofNat_inj (Nat.mod_lt _ (by decide)) (Nat.mod_lt _ (by decide)) epl
  have hp : p1 = p2 := by omega
  have ht : t1 = t2 := by
    have := u8_ofNat_inj (by omega) (by omega) et
    simp only at ht1 ht2; omega
  subst ht
  have hr := (List.append_inj er (by simp only at hl1 hl2; omega)).1
  subst hr
  exact ⟨hk, hp, rfl⟩

/-- … and every input starts with its key-type byte, so inputs of different key types differ -/
theorem level1Input_head (dst : Nat) : (level1Input dst).head? = some (UInt8.ofNat ktAsAs) := by
  simp [level1Input, zeroPad]

theorem specificInput_head (kt : Nat) (h : Host) (x : Bytes) (e : specificInput kt h = some x) :
    x.head? = some (UInt8.ofNat kt) := by
  unfold specificInput at e
  split at e
  · cases e
  · cases e; simp [zeroPad]

theorem genericInput_head (kt p : Nat) (h : Host) (x : Bytes) (e : genericInput kt p h = some x) :
    x.head? = some (UInt8.ofNat kt) := by
  unfold genericInput at e
  split at e
  · cases e
  · cases e; simp [zeroPad]

theorem keytype_bytes_distinct :
    [UInt8.ofNat ktAsAs, UInt8.ofNat ktAsHost, UInt8.ofNat ktHostAS, UInt8.ofNat ktHostHost].Nodup := by
  decide

/-- a key request as the control service serves it -/
inductive Req
  | asHost (p src dst : Nat) (h : Host)
  | hostAS (p src dst : Nat) (h : Host)
  | hostHost (p src dst : Nat) (hs hd : Host)
deriving DecidableEq

/-- level-2 input chosen by the service: protocol-specific deriver for predefined protocols -/
def l2Input (kt p : Nat) (h : Host) : Option Bytes :=
  if isPredefined p then specificInput kt h else genericInput kt p h

/-- The derivation path of a request: the secret value at its root (source AS, protocol) and the
    PRF inputs from the top down. -/
def Req.path : Req → Option (Nat × Nat × List Bytes)
  | .asHost p src dst h =>
    match l2Input ktAsHost p h with
    | some i2 => some (src, svProto p, [level1Input dst, i2])
    | none => none
  | .hostAS p src dst h =>
    match l2Input ktHostAS p h with
    | some i2 => some (src, svProto p, [level1Input dst, i2])
    | none => none
  | .hostHost p src dst hs hd =>
    match l2Input ktHostAS p hs, hostHostInput hd with
    | some i2, some i3 => some (src, svProto p, [level1Input dst, i2, i3])
    | _, _ => none

/-- what the service computes for a request -/
def Req.serve (prf : Key → Bytes → Key) (sv : Nat → Nat → Key) (loc : Nat) : Req → Except SvcErr Key
  | .asHost p src dst h => svcASHost prf sv loc p src dst (some h)
  | .hostAS p src dst h => svcHostAS prf sv loc p src dst (some h)
  | .hostHost p src dst hs hd => svcHostHost prf sv loc p src dst (some hs) (some hd)

/-- The key served for a request is the PRF chained along the request's path, starting from the
    secret value at the path's root. -/
theorem served_key_along_path (prf : Key → Bytes → Key) (sv : Nat → Nat → Key) (loc : Nat)
    (r : Req) (k : Key) (h : r.serve prf sv loc = .ok k) :
    ∃ a q ins, r.path = some (a, q, ins) ∧ k = ins.foldl prf (sv a q) := by
  cases r with
  | asHost p src dst hh =>
    have hep : src = loc ∨ dst = loc := by
      by_cases h1 : src = loc
      · exact .inl h1
      · by_cases h2 : dst = loc
        · exact .inr h2
        · have := (service_only_endpoint prf sv loc p src dst none (some hh) h1 h2).1
          simp only [Req.serve] at h; rw [this] at h; cases h
    simp only [Req.serve] at h
    rw [service_eq_host_ashost prf sv loc p src dst _ hep] at h
    unfold hostASHost Specific.deriveASHost Generic.deriveASHost deriveWith at h
    simp only [Req.path, l2Input]
    by_cases hp : isPredefined p = true
    · simp only [hp, if_true] at h ⊢
      cases h2 : specificInput ktAsHost hh with
      | none => simp only [h2] at h; cases h
      | some i2 =>
        simp only [h2, liftD] at h; cases h
        exact ⟨src, svProto p, _, rfl, by simp [Specific.deriveLevel1]⟩
    · simp only [hp] at h ⊢
      cases h2 : genericInput ktAsHost p hh with
      | none => simp only [h2] at h; cases h
      | some i2 =>
        simp only [h2, liftD] at h; cases h
        exact ⟨src, svProto p, _, rfl, by simp [Specific.deriveLevel1]⟩
  | hostAS p src dst hh =>
    have hep : src = loc ∨ dst = loc := by
      by_cases h1 : src = loc
      · exact .inl h1
      · by_cases h2 : dst = loc
        · exact .inr h2
        · have := (service_only_endpoint prf sv loc p src dst (some hh) none h1 h2).2.1
          simp only [Req.serve] at h; rw [this] at h; cases h
    simp only [Req.serve] at h
    rw [service_eq_host_hostas prf sv loc p src dst _ hep] at h
    unfold hostHostAS Specific.deriveHostAS Generic.deriveHostAS deriveWith at h
    simp only [Req.path, l2Input]
    by_cases hp : isPredefined p = true
    · simp only [hp, if_true] at h ⊢
      cases h2 : specificInput ktHostAS hh with
      | none => simp only [h2] at h; cases h
      | some i2 =>
        simp only [h2, liftD] at h; cases h
        exact ⟨src, svProto p, _, rfl, by simp [Specific.deriveLevel1]⟩
    · simp only [hp] at h ⊢
      cases h2 : genericInput ktHostAS p hh with
      | none => simp only [h2] at h; cases h
      | some i2 =>
        simp only [h2, liftD] at h; cases h
        exact ⟨src, svProto p, _, rfl, by simp [Specific.deriveLevel1]⟩
  | hostHost p src dst hs hd =>
    have hep : src = loc ∨ dst = loc := by
      by_cases h1 : src = loc
      · exact .inl h1
      · by_cases h2 : dst = loc
        · exact .inr h2
        · have := (service_only_endpoint prf sv loc p src dst (some hs) (some hd) h1 h2).2.2
          simp only [Req.serve] at h; rw [this] at h; cases h
    simp only [Req.serve] at h
    rw [service_eq_host_hosthost prf sv loc p src dst _ _ hep] at h
    unfold hostHostHost hostHostAS Specific.deriveHostAS Generic.deriveHostAS
      Specific.deriveHostHost Generic.deriveHostHost deriveWith at h
    simp only [Req.path, l2Input]
    by_cases hp : isPredefined p = true
    · simp only [hp, if_true] at h ⊢
      cases h2 : specificInput ktHostAS hs with
      | none => simp only [h2] at h; cases h
      | some i2 =>
        cases h3 : hostHostInput hd with
        | none => simp only [h2, h3] at h; cases h
        | some i3 =>
          simp only [h2, h3, liftD] at h; cases h
          exact ⟨src, svProto p, _, rfl, by simp [Specific.deriveLevel1]⟩
    · simp only [hp] at h ⊢
      cases h2 : genericInput ktHostAS p hs with
      | none => simp only [h2] at h; cases h
      | some i2 =>
        cases h3 : hostHostInput hd with
        | none => simp only [h2, h3] at h; cases h
        | some i3 =>
          simp only [h2, h3, liftD] at h; cases h
          exact ⟨src, svProto p, _, rfl, by simp [Specific.deriveLevel1]⟩

/-- requests the service can be asked: 16-bit protocol that is **not** `Generic` (C40
    `never_generic`: level-2/3 keys are never served for protocol 0), 64-bit ISD-AS numbers,
    well-formed host addresses -/
def Req.Valid : Req → Prop
  | .asHost p src dst h => p ≠ genericProto ∧ p < 65536 ∧ src < 2 ^ 64 ∧ dst < 2 ^ 64 ∧ h.WF
  | .hostAS p src dst h => p ≠ genericProto ∧ p < 65536 ∧ src < 2 ^ 64 ∧ dst < 2 ^ 64 ∧ h.WF
  | .hostHost p src dst hs hd =>
    p ≠ genericProto ∧ p < 65536 ∧ src < 2 ^ 64 ∧ dst < 2 ^ 64 ∧ hs.WF ∧ hd.WF

theorem l2Input_head (kt p : Nat) (h : Host) (x : Bytes) (e : l2Input kt p h = some x) :
    x.head? = some (UInt8.ofNat kt) := by
  unfold l2Input at e
  split at e
  · exact specificInput_head kt h x e
  · exact genericInput_head kt p h x e

/-- level-2 inputs under the same root determine protocol and host -/
theorem l2Input_injective (kt p1 p2 : Nat) (h1 h2 : Host) (x : Bytes) (hk : kt < 256)
    (hp1 : p1 < 65536) (hp2 : p2 < 65536) (hn1 : p1 ≠ genericProto) (hn2 : p2 ≠ genericProto)
    (hw1 : h1.WF) (hw2 : h2.WF) (hs : svProto p1 = svProto p2)
    (e1 : l2Input kt p1 h1 = some x) (e2 : l2Input kt p2 h2 = some x) : p1 = p2 ∧ h1 = h2 := by
  unfold l2Input at e1 e2
  unfold svProto at hs
  by_cases c1 : isPredefined p1 = true <;> by_cases c2 : isPredefined p2 = true <;>
    simp only [c1, c2, if_true] at e1 e2 hs
  · exact ⟨hs, (specificInput_injective kt kt h1 h2 x hk hk hw1 hw2 e1 e2).2⟩
  · exact absurd hs hn1
  · exact absurd hs.symm hn2
  · exact (genericInput_injective kt kt p1 p2 h1 h2 x hk hk hp1 hp2 hw1 hw2 e1 e2).2

/-- **Domain separation.**  Two valid requests with the same derivation path (same secret value
    at the root and the same sequence of PRF inputs) are the same request: key type, protocol,
    both ISD-ASes and every host address are determined by the path.  Hence keys for different key
    types, protocols or host addresses are never computed from coinciding inputs. -/
theorem domain_separation (r1 r2 : Req) (v1 : r1.Valid) (v2 : r2.Valid)
    (x : Nat × Nat × List Bytes) (e1 : r1.path = some x) (e2 : r2.path = some x) : r1 = r2 := by
  have kAH : ktAsHost < 256 := by decide
  have kHA : ktHostAS < 256 := by decide
  have kHH : ktHostHost < 256 := by decide
  cases r1 with
  | asHost p1 s1 d1 h1 =>
    obtain ⟨n1, q1, _, b1, w1⟩ := v1
    simp only [Req.path] at e1
    split at e1
    · rename_i i1 hi1
      cases e1
      cases r2 with
      | asHost p2 s2 d2 h2 =>
        obtain ⟨n2, q2, _, b2, w2⟩ := v2
        simp only [Req.path] at e2
        split at e2
        · rename_i i2 hi2
          simp only [Option.some.injEq, Prod.mk.injEq, List.cons.injEq, and_true] at e2
          obtain ⟨es, ep, ed, ei⟩ := e2
          subst ei
          have := l2Input_injective ktAsHost p1 p2 h1 h2 _ kAH q1 q2 n1 n2 w1 w2 ep.symm hi1 hi2
          have hd := level1Input_injective d2 d1 b2 b1 ed
          simp [this.1, this.2, es, hd]
        · cases e2
      | hostAS p2 s2 d2 h2 =>
        simp only [Req.path] at e2
        split at e2
        · rename_i i2 hi2
          simp only [Option.some.injEq, Prod.mk.injEq, List.cons.injEq, and_true] at e2
          obtain ⟨_, _, _, ei⟩ := e2
          subst ei
          have a := l2Input_head _ _ _ _ hi1
          have b := l2Input_head _ _ _ _ hi2
          rw [a] at b
          exact absurd b (by decide)
        · cases e2
      | hostHost p2 s2 d2 hs2 hd2 =>
        simp only [Req.path] at e2
        split at e2
        · simp at e2
        · cases e2
    · cases e1
  | hostAS p1 s1 d1 h1 =>
    obtain ⟨n1, q1, _, b1, w1⟩ := v1
    simp only [Req.path] at e1
    split at e1
    · rename_i i1 hi1
      cases e1
      cases r2 with
      | asHost p2 s2 d2 h2 =>
        simp only [Req.path] at e2
        split at e2
        · rename_i i2 hi2
          simp only [Option.some.injEq, Prod.mk.injEq, List.cons.injEq, and_true] at e2
          obtain ⟨_, _, _, ei⟩ := e2
          subst ei
          have a := l2Input_head _ _ _ _ hi1
          have b := l2Input_head _ _ _ _ hi2
          rw [a] at b
          exact absurd b (by decide)
        · cases e2
      | hostAS p2 s2 d2 h2 =>
        obtain ⟨n2, q2, _, b2, w2⟩ := v2
        simp only [Req.path] at e2
        split at e2
        · rename_i i2 hi2
          simp only [Option.some.injEq, Prod.mk.injEq, List.cons.injEq, and_true] at e2
          obtain ⟨es, ep, ed, ei⟩ := e2
          subst ei
          have := l2Input_injective ktHostAS p1 p2 h1 h2 _ kHA q1 q2 n1 n2 w1 w2 ep.symm hi1 hi2
          have hd := level1Input_injective d2 d1 b2 b1 ed
          simp [this.1, this.2, es, hd]
        · cases e2
      | hostHost p2 s2 d2 hs2 hd2 =>
        simp only [Req.path] at e2
        split at e2
        · simp at e2
        · cases e2
    · cases e1
  | hostHost p1 s1 d1 hs1 hd1 =>
    obtain ⟨n1, q1, _, b1, ws1, wd1⟩ := v1
    simp only [Req.path] at e1
    split at e1
    · rename_i i1 j1 hi1 hj1
      cases e1
      cases r2 with
      | asHost p2 s2 d2 h2 =>
        simp only [Req.path] at e2
        split at e2
        · simp at e2
        · cases e2
      | hostAS p2 s2 d2 h2 =>
        simp only [Req.path] at e2
        split at e2
        · simp at e2
        · cases e2
      | hostHost p2 s2 d2 hs2 hd2 =>
        obtain ⟨n2, q2, _, b2, ws2, wd2⟩ := v2
        simp only [Req.path] at e2
        split at e2
        · rename_i i2 j2 hi2 hj2
          simp only [Option.some.injEq, Prod.mk.injEq, List.cons.injEq, and_true] at e2
          obtain ⟨es, ep, ed, ei, ej⟩ := e2
          subst ei; subst ej
          have := l2Input_injective ktHostAS p1 p2 hs1 hs2 _ kHA q1 q2 n1 n2 ws1 ws2 ep.symm hi1 hi2
          have hh := (specificInput_injective ktHostHost ktHostHost hd1 hd2 _ kHH kHH wd1 wd2 hj1 hj2).2
          have hd := level1Input_injective d2 d1 b2 b1 ed
          simp [this.1, this.2, es, hd, hh]
        · cases e2
    · cases e1

/-- Why the `Generic` protocol must never be served at level 2 (C40): if it were, the
    protocol-specific AS-host input of protocol 0 for host 7.0.1.2 would coincide with the generic
    AS-host input of niche protocol 7 for host 1.2.0.0 — under the same level-1 key. -/
example :
    svProto 0 = svProto 7 ∧
    l2Input ktAsHost 0 ⟨T4Ip, [7, 0, 1, 2]⟩ = l2Input ktAsHost 7 ⟨T4Ip, [1, 2, 0, 0]⟩ := by decide

/-! ## 4. Secret values -/

/-- the KDF input determines the AS secret, the protocol and the epoch (length prefix) -/
theorem svInput_injective (s1 s2 : Bytes) (p1 p2 b1 b2 e1 e2 : Nat) (x : Bytes)
    (hs1 : s1.length < 2 ^ 64) (hs2 : s2.length < 2 ^ 64) (hp1 : p1 < 2 ^ 16) (hp2 : p2 < 2 ^ 16)
    (hb1 : b1 < 2 ^ 32) (hb2 : b2 < 2 ^ 32) (he1 : e1 < 2 ^ 32) (he2 : e2 < 2 ^ 32)
    (h1 : svInput s1 p1 b1 e1 = some x) (h2 : svInput s2 p2 b2 e2 = some x) :
    s1 = s2 ∧ p1 = p2 ∧ b1 = b2 ∧ e1 = e2 := by
  unfold svInput at h1 h2
  split at h1
  · cases h1
  split at h2
  · cases h2
  simp only [Option.some.injEq] at h1 h2
  have e := h1.trans h2.symm
  simp only [List.append_assoc] at e
  obtain ⟨el, e⟩ := List.append_inj e (by simp [natBE_length])
  have hl : s1.length = s2.length := natBE_inj (by simpa using hs1) (by simpa using hs2) el
  obtain ⟨es, e⟩ := List.append_inj e hl
  obtain ⟨ep, e⟩ := List.append_inj e (by simp [natBE_length])
  obtain ⟨eb, ee⟩ := List.append_inj e (by simp [natBE_length])
  exact ⟨es, natBE_inj (by simpa using hp1) (by simpa using hp2) ep,
    natBE_inj (by simpa using hb1) (by simpa using hb2) eb,
    natBE_inj (by simpa using he1) (by simpa using he2) ee⟩

/-- away from the 2106 wrap-around, an epoch computed from index `v / d` is the aligned interval
    of length `d` that contains `v` -/
theorem newEpoch_contains (v d : Int) (hd : 0 < d) (hv : 0 ≤ v) (hb : v + d < 4294967296) :
    ((newEpoch (Int.tdiv v d) d).1 : Int) ≤ v ∧ v < (newEpoch (Int.tdiv v d) d).2 ∧
    ((newEpoch (Int.tdiv v d) d).2 : Int) = (newEpoch (Int.tdiv v d) d).1 + d ∧
    ((newEpoch (Int.tdiv v d) d).1 : Int) = (v / d) * d := by
  have h0 : Int.tdiv v d = v / d := Int.tdiv_eq_ediv_of_nonneg hv
  have h1 : v / d * d ≤ v := Int.ediv_mul_le v (by omega)
  have h2 : v < (v / d + 1) * d := Int.lt_ediv_add_one_mul_self v hd
  have h3 : 0 ≤ v / d := Int.ediv_nonneg hv (by omega)
  have h4 : 0 ≤ v / d * d := Int.mul_nonneg h3 (by omega)
  have h5 : (v / d + 1) * d = v / d * d + d := by rw [Int.add_mul, Int.one_mul]
  simp only [newEpoch, u32, h0]
  generalize v / d * d = m at *
  omega

/-- the epoch of the secret value served for validity time `v` contains `v` -/
theorem sv_epoch_contains (v d : Int) (b e : Nat) (hd : 0 < d) (hv : 0 ≤ v)
    (hb : v + d < 4294967296) (h : svEpoch v d = some (b, e)) :
    (b : Int) ≤ v ∧ v < e ∧ (e : Int) = b + d := by
  unfold svEpoch at h
  split at h
  · omega
  · simp only [Option.some.injEq] at h
    have := newEpoch_contains v d hd hv hb
    rw [h] at this
    exact ⟨this.1, this.2.1, this.2.2.1⟩

/-- the secret value served for `(p, v)` is the KDF of the documented input
    `len(secret) ‖ secret ‖ p ‖ epoch_begin ‖ epoch_end` for the epoch computed from `v` (for every
    KDF) -/
theorem getSecretValue_spec (kdf : Bytes → Key) (secret : Bytes) (d v : Int) (p : Nat)
    (ep : Nat × Nat) (k : Key) (h : getSecretValue kdf secret d v p = .sv ep k) :
    svEpoch v d = some ep ∧ secret ≠ [] ∧
    k = kdf (natBE 8 secret.length ++ secret ++ natBE 2 p ++ natBE 4 ep.1 ++ natBE 4 ep.2) := by
  unfold getSecretValue deriveSV svInput at h
  split at h
  · cases h
  · rename_i ep' he
    split at h
    · cases h
    · rename_i k' hk
      cases h
      refine ⟨he, ?_⟩
      split at hk
      · cases hk
      · rename_i hne
        simp only [Option.map_some, Option.some.injEq] at hk
        exact ⟨by intro hs; simp [hs] at hne, hk.symm⟩

/-! ## 5. Acceptance window -/

/-- **Window clause.**  A key selected for timestamp `ts` received at `t` belongs to one of the
    three epochs around `t`, and that epoch's validity extended by the grace period contains the
    timestamp's absolute time, which lies inside the acceptance window. -/
theorem window_key_epoch (i : WinIn) (e : Nat × Nat) (h : selectKey i = .key e) :
    (e = i.epoch 0 ∨ e = i.epoch (-1) ∨ e = i.epoch 1) ∧
    (e.1 : Int) * nsPerSec ≤ absTime e.1 i.ts ∧
    absTime e.1 i.ts ≤ (e.2 : Int) * nsPerSec + gracePeriodNs ∧
    i.awBegin ≤ absTime e.1 i.ts ∧ absTime e.1 i.ts ≤ i.awEnd := by
  have key : ∀ e', i.ok e' = true →
      (e'.1 : Int) * nsPerSec ≤ absTime e'.1 i.ts ∧
      absTime e'.1 i.ts ≤ (e'.2 : Int) * nsPerSec + gracePeriodNs ∧
      i.awBegin ≤ absTime e'.1 i.ts ∧ absTime e'.1 i.ts ≤ i.awEnd := by
    intro e' h'
    simp only [WinIn.ok, contains, withinGrace, Bool.and_eq_true, decide_eq_true_eq] at h'
    exact ⟨h'.2.1, h'.2.2, h'.1.1, h'.1.2⟩
  unfold selectKey at h
  split at h
  · cases h
  split at h
  · rename_i hk; cases h; exact ⟨.inl rfl, key _ hk⟩
  split at h
  · rename_i hk; cases h; exact ⟨.inr (.inl rfl), key _ hk⟩
  split at h
  · rename_i hk; cases h; exact ⟨.inr (.inr rfl), key _ hk⟩
  · cases h

/-- the selection refuses only when none of the three epochs qualifies, and prefers the current
    epoch, then the previous one -/
theorem window_selection_order (i : WinIn) (hd : i.duration ≠ 0) :
    selectKey i =
      if i.ok (i.epoch 0) then .key (i.epoch 0)
      else if i.ok (i.epoch (-1)) then .key (i.epoch (-1))
      else if i.ok (i.epoch 1) then .key (i.epoch 1) else .noKey := by
  simp [selectKey, hd]

/-- `int64(ts)` is non-negative for every timestamp that fits the 48-bit header field, so the
    left inequality of the window clause is then the trivial one -/
theorem absTime_ge_begin (b ts : Nat) (h : ts < 2 ^ 48) : (b : Int) * nsPerSec ≤ absTime b ts := by
  unfold absTime toInt64
  split <;> omega

/-- for a sane provider configuration the current candidate epoch contains the reception time -/
theorem current_epoch_contains_now (i : WinIn) (hd : 0 < i.duration) (ht : 0 ≤ i.unix)
    (hb : i.unix + i.duration < 4294967296) :
    ((i.epoch 0).1 : Int) ≤ i.unix ∧ i.unix < (i.epoch 0).2 := by
  have := newEpoch_contains i.unix i.duration hd ht hb
  simp only [WinIn.epoch, WinIn.idx, Int.add_zero]
  exact ⟨this.1, this.2.1⟩

/-- sender and receiver agree on the absolute time: what `AbsoluteTimestamp` reconstructs from a
    `RelativeTimestamp` is the original instant -/
theorem abs_of_rel (b : Nat) (t : Int) (ts : Nat) (hr : -9223372036854775808 ≤ t - (b : Int) * nsPerSec)
    (h : relTimestamp b t = some ts) : absTime b ts = t := by
  unfold relTimestamp at h
  unfold absTime toInt64
  generalize (b : Int) * nsPerSec = m at *
  simp only at h
  split at h
  · cases h
  · simp only [Option.some.injEq] at h
    subst h
    split <;> omega

/-- a timestamp taken less than 2^48 ns ≈ 3.26 days after the epoch's begin fits the 48-bit
    field -/
theorem rel_fits (b : Nat) (t : Int) (h0 : (b : Int) * nsPerSec ≤ t)
    (h1 : t < (b : Int) * nsPerSec + 281474976710656) :
    ∃ ts, relTimestamp b t = some ts ∧ ts < 2 ^ 48 := by
  unfold relTimestamp
  generalize (b : Int) * nsPerSec = m at *
  simp only
  have : ¬ t - m ≥ 281474976710656 := by omega
  simp only [this, if_false]
  refine ⟨_, rfl, ?_⟩
  omega

/-- **Sender and receiver pick the same epoch.**  A packet stamped at instant `s` relative to the
    epoch valid at `s` (one of the three epochs around the receiver's clock), received while the
    receiver's clock is within half the acceptance window of `s`, makes the receiver select exactly
    the sender's epoch — provided the acceptance window is shorter than an epoch. -/
theorem receiver_selects_sender_epoch (i : WinIn) (k : Int) (hk : k = -1 ∨ k = 0 ∨ k = 1) (s : Int)
    (hD : 0 < i.duration) (hidx : 1 ≤ i.idx) (hwrap : (i.idx + 2) * i.duration < 4294967296)
    (haw : 0 ≤ i.accWinNs) (hawD : i.accWinNs < i.duration * nsPerSec)
    (hs0 : ((i.epoch k).1 : Int) * nsPerSec ≤ s) (hs1 : s < ((i.epoch k).2 : Int) * nsPerSec)
    (hts : relTimestamp (i.epoch k).1 s = some i.ts)
    (hw0 : i.awBegin ≤ s) (hw1 : s ≤ i.awEnd) :
    selectKey i = .key (i.epoch k) := by
  obtain ⟨P, hP0, hP1, em, e0, e1⟩ := epochs_nowrap i hD hidx hwrap
  rw [window_selection_order i (by omega)]
  simp only [ok_iff]
  have hh : Int.tdiv i.accWinNs 2 = i.accWinNs / 2 := Int.tdiv_eq_ediv_of_nonneg haw
  simp only [WinIn.awBegin, WinIn.awEnd, hh] at hw0 hw1 ⊢
  unfold relTimestamp at hts
  simp only at hts
  unfold absTime toInt64 nsPerSec gracePeriodNs at *
  rw [em, e0, e1]
  simp only
  generalize i.duration = D at *
  generalize i.accWinNs = A at *
  generalize i.tNs = T at *
  generalize i.ts = ts at *
  rcases hk with rfl | rfl | rfl
  · rw [em] at hs0 hs1 hts ⊢
    simp only at hs0 hs1 hts
    split at hts
    · cases hts
    · simp only [Option.some.injEq] at hts
      rw [if_neg, if_pos]
      · refine ⟨⟨?_, ?_⟩, ⟨?_, ?_⟩⟩ <;> (split <;> omega)
      · rintro ⟨⟨a1, a2⟩, ⟨a3, a4⟩⟩
        split at a1 <;> omega
  · rw [e0] at hs0 hs1 hts ⊢
    simp only at hs0 hs1 hts
    split at hts
    · cases hts
    · simp only [Option.some.injEq] at hts
      rw [if_pos]
      refine ⟨⟨?_, ?_⟩, ⟨?_, ?_⟩⟩ <;> (split <;> omega)
  · rw [e1] at hs0 hs1 hts ⊢
    simp only at hs0 hs1 hts
    split at hts
    · cases hts
    · simp only [Option.some.injEq] at hts
      rw [if_neg, if_neg, if_pos]
      · refine ⟨⟨?_, ?_⟩, ⟨?_, ?_⟩⟩ <;> (split <;> omega)
      · rintro ⟨⟨a1, a2⟩, ⟨a3, a4⟩⟩
        split at a1 <;> omega
      · rintro ⟨⟨a1, a2⟩, ⟨a3, a4⟩⟩
        split at a1 <;> omega

/-! ## 6. Constants the model fixes, re-checked against the source (T3) -/

theorem gen_consts :
    ktAsAs = Scion.Gen.Drkey.AsAs ∧ ktAsHost = Scion.Gen.Drkey.AsHost ∧
    ktHostAS = Scion.Gen.Drkey.HostAS ∧ ktHostHost = Scion.Gen.Drkey.HostHost ∧
    predefinedProtos = Scion.Gen.Drkey.predefinedProtocols ∧
    genericProto = Scion.Gen.Drkey.Generic ∧
    gracePeriodNs = Scion.Gen.Drkey.gracePeriodNs ∧
    T4Ip = Scion.Gen.Drkey.T4Ip ∧ T4Svc = Scion.Gen.Drkey.T4Svc ∧ T16Ip = Scion.Gen.Drkey.T16Ip ∧
    l2BufLen = Scion.Gen.Drkey.level2BufLen := by
  decide

/-! ## Non-vacuity -/

/-- a toy PRF (not a secure one — the theorems hold for every function) -/
def toyPrf (k inp : Bytes) : Bytes := k ++ inp.take 4

/-- the service (source side, SCMP, IPv4 host) returns a key and it is the host-side key -/
example :
    svcASHost toyPrf (fun _ p => [UInt8.ofNat p]) 5 1 5 9 (some ⟨T4Ip, [10, 0, 0, 1]⟩) =
      .ok [1, 0, 0, 0, 0, 1, 0, 10, 0] := by rfl

/-- a valid host-host request with a defined path -/
example : (Req.hostHost 1 5 9 ⟨T4Ip, [10, 0, 0, 1]⟩ ⟨T4Svc, [0, 2, 0, 0]⟩).Valid ∧
    ((Req.hostHost 1 5 9 ⟨T4Ip, [10, 0, 0, 1]⟩ ⟨T4Svc, [0, 2, 0, 0]⟩).path).isSome :=
  ⟨by simp [Req.Valid, Host.WF, genericProto, T4Ip, T4Svc], by rfl⟩

/-- a timestamp 2 s into the *previous* epoch's grace period, received 1 s after the epoch change,
    selects the previous epoch -/
example : selectKey ⟨7201000000000, 3600000000000, 10000000000, 3602000000000⟩ = .key (3600, 7200) := by
  decide

/-- the hypotheses of `receiver_selects_sender_epoch` are satisfiable: sender stamps 1 s before the
    epoch change, receiver's clock is 2 s later (already in the next epoch), window ±5 s -/
example : selectKey ⟨7201000000000, 3600000000000, 10000000000, 3599000000000⟩ = .key (3600, 7200) :=
  receiver_selects_sender_epoch ⟨7201000000000, 3600000000000, 10000000000, 3599000000000⟩ (-1)
    (.inl rfl) 7199000000000 (by decide) (by decide) (by decide) (by decide) (by decide) (by decide)
    (by decide) (by decide) (by decide) (by decide)

end Scion.C39
