import Scion.Model.PathMeta
import Scion.Gen.Path
/-!
# C19 — Path pointer arithmetic is correct for every path shape

Property theorems only.  The model (`Scion.Model.PathMeta`) is tied to
`pkg/slayers/path/scion` by `harness/cmd/meta` (exhaustive over the 2^26 meta headers in the
thorough tier).
-/
namespace Scion.C19
open Scion.PathMeta

/-- re-encoding a decoded line reproduces it except for the six reserved bits 18..23 -/
theorem meta_encode_decode (w : Nat) (_h : w < 2^32) :
    encode (decode w) = w - (w / 2^18 % 64) * 2^18 := by
  simp only [encode, decode]
  omega

theorem meta_decode_encode (m : Hdr) (h : m.InRange) : decode (encode m) = m := by
  obtain ⟨h1, h2, h3, h4, h5⟩ := h
  cases m
  simp only [encode, decode, Hdr.mk.injEq] at *
  refine ⟨?_, ?_, ?_, ?_, ?_⟩ <;> omega

theorem decode_inRange (w : Nat) : (decode w).InRange := by
  simp only [decode, Hdr.InRange]
  omega

/-- the shapes the statement allows: contiguous non-empty segments, at most 64 hops -/
def Shape (m : Hdr) : Prop :=
  (m.s0 = 0 → m.s1 = 0) ∧ (m.s1 = 0 → m.s2 = 0) ∧ m.s0 + m.s1 + m.s2 ≤ 64

def nonEmptySegs (m : Hdr) : Nat :=
  (if m.s0 > 0 then 1 else 0) + (if m.s1 > 0 then 1 else 0) + (if m.s2 > 0 then 1 else 0)

/-- closed form of the loop in `Base.DecodeFromBytes` -/
theorem baseDecode_closed (m : Hdr) :
    baseDecode m =
      if (m.s0 = 0 → m.s1 = 0) ∧ (m.s1 = 0 → m.s2 = 0) ∧ m.s0 + m.s1 + m.s2 ≤ 64
      then some ⟨m, nonEmptySegs m, sumHops m⟩ else none := by
  obtain ⟨ci, ch, s0, s1, s2⟩ := m
  cases s0 <;> cases s1 <;> cases s2 <;>
    simp [baseDecode, List.foldl, baseStep, segLen, maxHops, nonEmptySegs, sumHops] <;>
    (try split) <;> (try simp) <;> (try omega)

/-- decoding accepts exactly the allowed shapes … -/
theorem accept_iff (m : Hdr) : (∃ b, baseDecode m = some b) ↔ Shape m := by
  rw [baseDecode_closed]
  unfold Shape
  split <;> simp_all

/-- … and then reports the number of non-empty segments and the total number of hops -/
theorem accept_values (m : Hdr) (b : Base) (h : baseDecode m = some b) :
    b.pm = m ∧ b.numINF = nonEmptySegs m ∧ b.numHops = sumHops m := by
  rw [baseDecode_closed] at h
  split at h
  · cases h; exact ⟨rfl, rfl, rfl⟩
  · cases h

/-- the info index computed for a hop is the segment that contains the hop -/
theorem infIdx_spec (m : Hdr) (hf : Nat) (h : hf < sumHops m) :
    segStart m (infIdx m hf) ≤ hf ∧ hf < segStart m (infIdx m hf) + segLen m (infIdx m hf) := by
  unfold infIdx sumHops at *
  split
  · simp [segStart, segLen]; omega
  · split
    · simp [segStart, segLen]; omega
    · simp [segStart, segLen]; omega

/-- … and it is the only such segment -/
theorem infIdx_unique (m : Hdr) (hf i : Nat) (hi : i < 3)
    (h : segStart m i ≤ hf ∧ hf < segStart m i + segLen m i) : infIdx m hf = i := by
  unfold infIdx
  match i, hi with
  | 0, _ => simp [segStart, segLen] at h; simp [h]
  | 1, _ => simp [segStart, segLen] at h; split <;> (try omega); split <;> omega
  | 2, _ => simp [segStart, segLen] at h; split <;> (try omega); split <;> omega

theorem currINFMatches_iff (b : Base) :
    currINFMatchesCurrHF b = true ↔ b.pm.currINF = infIdx b.pm b.pm.currHF := by
  simp [currINFMatchesCurrHF]

/-- cross-over is reported exactly when the current hop is the last hop of its segment and not
the last hop of the path -/
theorem isXover_iff (b : Base) (hn : b.numHops = sumHops b.pm) (_hc : b.pm.currHF < b.numHops)
    (hm : b.pm.currINF = infIdx b.pm b.pm.currHF) :
    isXover b = true ↔
      (b.pm.currHF + 1 = segStart b.pm b.pm.currINF + segLen b.pm b.pm.currINF
        ∧ b.pm.currHF + 1 < b.numHops) := by
  unfold isXover
  rw [hm, hn] at *
  generalize b.pm = m at *
  unfold infIdx sumHops at *
  by_cases h1 : m.currHF < m.s0 <;> by_cases h2 : m.currHF < m.s0 + m.s1 <;>
  by_cases h3 : m.currHF + 1 < m.s0 <;> by_cases h4 : m.currHF + 1 < m.s0 + m.s1 <;>
  simp [h1, h2, h3, h4, segStart, segLen] <;> omega

/-- whatever the pointers: a reported cross-over has a following hop (in particular a path
without hops never reports one) -/
theorem isXover_imp_next_hop (b : Base) (h : isXover b = true) :
    b.pm.currHF + 1 < b.numHops := by
  unfold isXover at h
  simp at h
  exact h.1

/-- whatever the pointers: first-hop-after-cross-over needs a previous hop and segment -/
theorem isFirstHopAfterXover_imp_prev (b : Base) (h : isFirstHopAfterXover b = true) :
    b.pm.currINF > 0 ∧ b.pm.currHF > 0 := by
  unfold isFirstHopAfterXover at h
  simp at h
  exact ⟨h.1.1, h.1.2⟩

/-- first-hop-after-cross-over is reported exactly when the current hop is the first hop of a
segment that is not the first segment (pointers consistent, segments non-empty) -/
theorem isFirstHopAfterXover_iff (b : Base) (hs : Shape b.pm) (hn : b.numHops = sumHops b.pm)
    (hc : b.pm.currHF < b.numHops) (hm : b.pm.currINF = infIdx b.pm b.pm.currHF) :
    isFirstHopAfterXover b = true ↔
      (b.pm.currINF > 0 ∧ b.pm.currHF = segStart b.pm b.pm.currINF) := by
  unfold isFirstHopAfterXover
  rw [hm, hn] at *
  generalize b.pm = m at *
  unfold infIdx sumHops Shape at *
  by_cases h1 : m.currHF < m.s0 <;> by_cases h2 : m.currHF < m.s0 + m.s1 <;>
  by_cases h3 : m.currHF - 1 < m.s0 <;> by_cases h4 : m.currHF - 1 < m.s0 + m.s1 <;>
  simp [h1, h2, h3, h4, segStart] <;> omega

/-- advancing: before the last hop it moves to the next hop and to that hop's segment, leaving
the pointers consistent; nothing else changes -/
theorem incPath_spec (b : Base) (hinf : b.numINF > 0) (h : b.pm.currHF + 1 < b.numHops) :
    ∃ b', incPath b = .ok b' ∧ b'.pm.currHF = b.pm.currHF + 1 ∧
      currINFMatchesCurrHF b' = true ∧ b'.numHops = b.numHops ∧ b'.numINF = b.numINF ∧
      b'.pm.s0 = b.pm.s0 ∧ b'.pm.s1 = b.pm.s1 ∧ b'.pm.s2 = b.pm.s2 := by
  unfold incPath
  have h1 : ¬ b.numINF = 0 := by omega
  have h2 : ¬ b.pm.currHF + 1 ≥ b.numHops := by omega
  simp only [h1, h2, if_false]
  refine ⟨_, rfl, rfl, ?_, rfl, rfl, rfl, rfl, rfl⟩
  simp [currINFMatchesCurrHF, infIdx]

/-- … and at (or past) the last hop it refuses -/
theorem incPath_at_end (b : Base) (h : b.pm.currHF + 1 ≥ b.numHops) :
    ∃ e, incPath b = .error e := by
  unfold incPath
  by_cases h1 : b.numINF = 0 <;> simp [h1, h]

def iterInc : Nat → Base → Except Base Base
  | 0, b => .ok b
  | n+1, b => match incPath b with
    | .ok b' => iterInc n b'
    | .error e => .error e

/-- starting at hop 0, `k` advances reach hop `k` (for every `k` up to the last hop), with the
info pointer on the segment containing hop `k`: the walk visits every hop and segment -/
theorem iterate_incPath_visits (b : Base) (hinf : b.numINF > 0) (j k : Nat)
    (hj : b.pm.currHF = j) (hk : j + k < b.numHops) :
    ∃ b', iterInc k b = .ok b' ∧ b'.pm.currHF = j + k ∧ b'.numHops = b.numHops ∧
      (k > 0 → b'.pm.currINF = infIdx b.pm (j + k)) := by
  induction k generalizing b j with
  | zero => exact ⟨b, rfl, by simpa using hj, rfl, by simp⟩
  | succ k ih =>
    obtain ⟨b1, hb1, hhf, hmatch, hnh, hni, e0, e1, e2⟩ :=
      incPath_spec b hinf (by omega)
    obtain ⟨b2, hb2, hhf2, hnh2, hinf2⟩ :=
      ih b1 (by omega) (j + 1) (by omega) (by omega)
    refine ⟨b2, ?_, by omega, by omega, ?_⟩
    · simp [iterInc, hb1, hb2]
    · intro _
      have hidx : ∀ x, infIdx b1.pm x = infIdx b.pm x := by
        intro x; simp [infIdx, e0, e1]
      by_cases hk0 : k = 0
      · subst hk0
        simp [iterInc] at hb2
        subst hb2
        have := (currINFMatches_iff b1).1 hmatch
        rw [this, hidx, hhf, hj]
      · have := hinf2 (by omega)
        rw [this, hidx]
        congr 1; omega

/-- reversing twice restores pointers and segment lengths (pointers in range) -/
theorem reverse_involutive (b : Base) (hs : Shape b.pm) (hv : b.numINF = nonEmptySegs b.pm)
    (hn : b.numHops = sumHops b.pm) (hi : b.pm.currINF < b.numINF) (hc : b.pm.currHF < b.numHops) :
    ∃ b1, reverseMeta b = some b1 ∧ reverseMeta b1 = some b := by
  obtain ⟨m, ninf, nh⟩ := b
  obtain ⟨ci, ch, s0, s1, s2⟩ := m
  simp only [Shape, nonEmptySegs, sumHops] at *
  subst hn
  cases s0 <;> cases s1 <;> cases s2 <;>
    simp [reverseMeta] at hv hi hc hs ⊢ <;> subst hv <;> simp <;> omega

theorem swapEnds_eq_reverse {α} (l : List α) (h : l.length ≤ 3) : swapEnds l = l.reverse := by
  match l, h with
  | [], _ => rfl
  | [_], _ => rfl
  | [_, _], _ => rfl
  | [_, _, _], _ => rfl
  | _ :: _ :: _ :: _ :: _, h => simp at h

theorem reverseInfos_involutive (l : List Info) (h : l.length ≤ 3) :
    reverseInfos (reverseInfos l) = l := by
  match l, h with
  | [], _ => rfl
  | [a], _ => cases a; simp [reverseInfos, swapEnds]
  | [a, b], _ => cases a; cases b; simp [reverseInfos, swapEnds]
  | [a, b, c], _ => cases a; cases b; cases c; simp [reverseInfos, swapEnds]
  | _ :: _ :: _ :: _ :: _, h => simp at h

/-! Non-vacuity: a 3-segment path (2+3+2 hops) at hop 1 meets every hypothesis above. -/
example :
    let m : Hdr := ⟨0, 1, 2, 3, 2⟩
    Shape m ∧ baseDecode m = some ⟨m, 3, 7⟩ ∧ isXover ⟨m, 3, 7⟩ = true ∧
    (∃ b', incPath ⟨m, 3, 7⟩ = .ok b' ∧ isFirstHopAfterXover b' = true) := by
  refine ⟨by simp [Shape], by decide, by decide, ?_⟩
  exact ⟨_, rfl, by decide⟩

end Scion.C19

/-! Constants regenerated from the source (T3) agree with the ones the model was written for. -/
namespace Scion.C19
theorem gen_consts :
    Scion.Gen.Path.MaxHops = Scion.PathMeta.maxHops ∧ Scion.Gen.Path.MetaLen = 4 := by decide
end Scion.C19
