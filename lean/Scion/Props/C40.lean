import Scion.Model.DrkeySrv
import Scion.Proofs.DrkeySrv
import Scion.Gen.Drkey
/-!
# C40 — DRKey keys are only handed to the entities they are bound to

Property theorems only.  The model (`Scion.Model.DrkeySrv`) is tied to
`control/drkey/grpc.Server` by `harness/cmd/drkeysrv`, which calls the six real handlers with
fabricated peers / TLS states / requests and a recording engine.

"The engine is called with meta `m`" (`handler … = some m`) is "a key for `m` is returned to the
requester": the handlers return the engine's answer unchanged.
-/
namespace Scion.C40
open Scion.Util Scion.DrkeySrv

/-! Host identity (`IsIP`, `unmap`, `SameHost`) and `ipEqual_iff_sameHost` (`net.IP.Equal` on a real
requester address decides host identity) are in `Scion.Proofs.DrkeySrv`. -/

/-! ## AS-host, host-AS, host-host -/

/-- **AS-host.** The engine is asked for an AS-host key exactly when: there is a TCP requester,
    the timestamp is valid, the protocol is not `Generic`, the request's destination AS is the
    local AS and the requester's address equals the destination host; the meta is the request. -/
theorem ashost_iff (s : Srv) (peer : Option Peer) (r : HostReq) (m : HostMeta) :
    asHost s peer r = some m ↔
      ∃ p t ip, peer = some p ∧ p.addr = .tcp ip ∧ r.ts = some t ∧ tsValid r.ts = true ∧
        protoOf r.proto ≠ Scion.Drkey.genericProto ∧ r.dst = s.localIA ∧ ipEqual ip r.dstIP = true ∧
        m = ⟨protoOf r.proto, t, r.src, r.dst, [], r.dstHost⟩ := by
  unfold asHost
  refine Iff.trans (hostHandler_iff peer r.ts
    (fun p => validateASHost (protoOf r.proto) r.dst r.dstIP s.localIA p.addr)
    (fun t => ⟨protoOf r.proto, t, r.src, r.dst, [], r.dstHost⟩) m) ?_
  simp only [validateASHost_iff]
  constructor
  · rintro ⟨p, t, hp, ht, hv, ⟨hg, ip, ha, hd, he⟩, hm⟩
    exact ⟨p, t, ip, hp, ha, ht, hv, hg, hd, he, hm⟩
  · rintro ⟨p, t, ip, hp, ha, ht, hv, hg, hd, he, hm⟩
    exact ⟨p, t, hp, ht, hv, ⟨hg, ip, ha, hd, he⟩, hm⟩

/-- **Host-AS**, symmetric: source AS local, requester = source host. -/
theorem hostas_iff (s : Srv) (peer : Option Peer) (r : HostReq) (m : HostMeta) :
    hostAS s peer r = some m ↔
      ∃ p t ip, peer = some p ∧ p.addr = .tcp ip ∧ r.ts = some t ∧ tsValid r.ts = true ∧
        protoOf r.proto ≠ Scion.Drkey.genericProto ∧ r.src = s.localIA ∧ ipEqual ip r.srcIP = true ∧
        m = ⟨protoOf r.proto, t, r.src, r.dst, r.srcHost, []⟩ := by
  unfold hostAS
  refine Iff.trans (hostHandler_iff peer r.ts
    (fun p => validateHostAS (protoOf r.proto) r.src r.srcIP s.localIA p.addr)
    (fun t => ⟨protoOf r.proto, t, r.src, r.dst, r.srcHost, []⟩) m) ?_
  simp only [validateHostAS_iff]
  constructor
  · rintro ⟨p, t, hp, ht, hv, ⟨hg, ip, ha, hd, he⟩, hm⟩
    exact ⟨p, t, ip, hp, ha, ht, hv, hg, hd, he, hm⟩
  · rintro ⟨p, t, ip, hp, ha, ht, hv, hg, hd, he, hm⟩
    exact ⟨p, t, hp, ht, hv, ⟨hg, ip, ha, hd, he⟩, hm⟩

/-- **Host-host**: the requester is the source host and the source AS is local, or the requester
    is the destination host and the destination AS is local. -/
theorem hosthost_iff (s : Srv) (peer : Option Peer) (r : HostReq) (m : HostMeta) :
    hostHost s peer r = some m ↔
      ∃ p t ip, peer = some p ∧ p.addr = .tcp ip ∧ r.ts = some t ∧ tsValid r.ts = true ∧
        protoOf r.proto ≠ Scion.Drkey.genericProto ∧
        ((r.src = s.localIA ∧ ipEqual ip r.srcIP = true) ∨
         (r.dst = s.localIA ∧ ipEqual ip r.dstIP = true)) ∧
        m = ⟨protoOf r.proto, t, r.src, r.dst, r.srcHost, r.dstHost⟩ := by
  unfold hostHost
  refine Iff.trans (hostHandler_iff peer r.ts
    (fun p => validateHostHost (protoOf r.proto) r.src r.dst r.srcIP r.dstIP s.localIA p.addr)
    (fun t => ⟨protoOf r.proto, t, r.src, r.dst, r.srcHost, r.dstHost⟩) m) ?_
  simp only [validateHostHost_iff]
  constructor
  · rintro ⟨p, t, hp, ht, hv, ⟨hg, ip, ha, hside⟩, hm⟩
    exact ⟨p, t, ip, hp, ha, ht, hv, hg, hside, hm⟩
  · rintro ⟨p, t, ip, hp, ha, ht, hv, hg, hside, hm⟩
    exact ⟨p, t, hp, ht, hv, ⟨hg, ip, ha, hside⟩, hm⟩

/-- the clause in the statement's words: an AS-host key goes only to the host named as destination
    of a request whose destination is the local AS -/
theorem ashost_only_named_host (s : Srv) (p : Peer) (ip : Bytes) (r : HostReq) (m : HostMeta)
    (ha : p.addr = .tcp ip) (hip : IsIP ip) (h : asHost s (some p) r = some m) :
    m.dst = s.localIA ∧ m.dstHost = r.dstHost ∧ SameHost ip r.dstIP := by
  obtain ⟨p', t, ip', hp, ha', _, _, _, hd, he, rfl⟩ := (ashost_iff s (some p) r m).1 h
  cases hp
  rw [ha] at ha'; cases ha'
  exact ⟨hd, rfl, (ipEqual_iff_sameHost ip r.dstIP hip).1 he⟩

theorem hostas_only_named_host (s : Srv) (p : Peer) (ip : Bytes) (r : HostReq) (m : HostMeta)
    (ha : p.addr = .tcp ip) (hip : IsIP ip) (h : hostAS s (some p) r = some m) :
    m.src = s.localIA ∧ m.srcHost = r.srcHost ∧ SameHost ip r.srcIP := by
  obtain ⟨p', t, ip', hp, ha', _, _, _, hd, he, rfl⟩ := (hostas_iff s (some p) r m).1 h
  cases hp
  rw [ha] at ha'; cases ha'
  exact ⟨hd, rfl, (ipEqual_iff_sameHost ip r.srcIP hip).1 he⟩

theorem hosthost_only_named_host (s : Srv) (p : Peer) (ip : Bytes) (r : HostReq) (m : HostMeta)
    (ha : p.addr = .tcp ip) (hip : IsIP ip) (h : hostHost s (some p) r = some m) :
    m.srcHost = r.srcHost ∧ m.dstHost = r.dstHost ∧
    ((m.src = s.localIA ∧ SameHost ip r.srcIP) ∨ (m.dst = s.localIA ∧ SameHost ip r.dstIP)) := by
  obtain ⟨p', t, ip', hp, ha', _, _, _, hside, rfl⟩ := (hosthost_iff s (some p) r m).1 h
  cases hp
  rw [ha] at ha'; cases ha'
  refine ⟨rfl, rfl, ?_⟩
  rcases hside with ⟨h1, h2⟩ | ⟨h1, h2⟩
  · exact .inl ⟨h1, (ipEqual_iff_sameHost ip r.srcIP hip).1 h2⟩
  · exact .inr ⟨h1, (ipEqual_iff_sameHost ip r.dstIP hip).1 h2⟩

/-- requesters that are not TCP peers never get a level-2/3 key -/
theorem host_keys_need_tcp_peer (s : Srv) (p : Peer) (r : HostReq) (hp : p.addr = .other) :
    asHost s (some p) r = none ∧ hostAS s (some p) r = none ∧ hostHost s (some p) r = none := by
  refine ⟨?_, ?_, ?_⟩
  · cases h : asHost s (some p) r with
    | none => rfl
    | some m =>
      obtain ⟨p', _, ip, hp', ha, _⟩ := (ashost_iff s (some p) r m).1 h
      cases hp'; rw [hp] at ha; cases ha
  · cases h : hostAS s (some p) r with
    | none => rfl
    | some m =>
      obtain ⟨p', _, ip, hp', ha, _⟩ := (hostas_iff s (some p) r m).1 h
      cases hp'; rw [hp] at ha; cases ha
  · cases h : hostHost s (some p) r with
    | none => rfl
    | some m =>
      obtain ⟨p', _, ip, hp', ha, _⟩ := (hosthost_iff s (some p) r m).1 h
      cases hp'; rw [hp] at ha; cases ha

/-- **Never generic.** No level-2/3 key is served for protocol 0 — also not for a protocol id
    that only becomes 0 by the `int32 → uint16` conversion. -/
theorem never_generic (s : Srv) (peer : Option Peer) (r : HostReq) (m : HostMeta)
    (h : asHost s peer r = some m ∨ hostAS s peer r = some m ∨ hostHost s peer r = some m) :
    m.proto ≠ Scion.Drkey.genericProto := by
  rcases h with h | h | h
  · obtain ⟨_, _, _, _, _, _, _, hg, _, _, rfl⟩ := (ashost_iff s peer r m).1 h; exact hg
  · obtain ⟨_, _, _, _, _, _, _, hg, _, _, rfl⟩ := (hostas_iff s peer r m).1 h; exact hg
  · obtain ⟨_, _, _, _, _, _, _, hg, _, rfl⟩ := (hosthost_iff s peer r m).1 h; exact hg

/-! ## level 1 -/

/-- **Level 1.** A level-1 key is derived only for the AS the client certificate authenticates,
    from the local AS's secret, for a predefined protocol — and for every such request. -/
theorem level1_iff (s : Srv) (peer : Option Peer) (proto : Int) (ts : Ts) (m : Level1Meta) :
    level1 s peer proto ts = some m ↔
      ∃ p ia t, peer = some p ∧ p.auth = .tlsCert ia ∧ ts = some t ∧ tsValid ts = true ∧
        Scion.Drkey.isPredefined (protoOf proto) = true ∧ m = ⟨protoOf proto, t, s.localIA, ia⟩ := by
  unfold level1
  cases peer with
  | none => simp
  | some p =>
    obtain ⟨a, auth⟩ := p
    cases auth with
    | tlsCert ia =>
      cases ts with
      | none => simp [clientCertIA]
      | some t =>
        cases hv : tsValid (some t) <;> cases hp : Scion.Drkey.isPredefined (protoOf proto) <;>
          simp [hv, hp, clientCertIA]
        exact eq_comm
    | _ => simp [clientCertIA]

theorem level1_only_cert_ia (s : Srv) (p : Peer) (proto : Int) (ts : Ts) (m : Level1Meta)
    (h : level1 s (some p) proto ts = some m) :
    p.auth = .tlsCert m.dst ∧ m.src = s.localIA ∧ Scion.Drkey.isPredefined m.proto = true := by
  obtain ⟨p', ia, t, hp, ha, _, _, hpre, rfl⟩ := (level1_iff s (some p) proto ts m).1 h
  cases hp
  exact ⟨ha, rfl, hpre⟩

/-! ## secret values and intra-AS level-1 keys -/

/-- the requester is on the allow-list for the protocol -/
def Allowed (s : Srv) (proto : Nat) (a : PeerAddr) : Prop :=
  ∃ ip h, a = .tcp ip ∧ fromStdIP ip = some h ∧ (h, proto) ∈ s.allowed

theorem allowedHost_iff (s : Srv) (proto : Nat) (a : PeerAddr) :
    allowedHost s proto a = true ↔ Allowed s proto a := by
  unfold allowedHost Allowed
  cases a with
  | other => simp
  | tcp ip =>
    cases hf : fromStdIP ip with
    | none => simp [hf]
    | some h => simp [hf]

/-- **Secret values** go exactly to allow-listed (host, protocol) pairs. -/
theorem sv_iff (s : Srv) (peer : Option Peer) (proto : Int) (ts : Ts) (m : SVMeta) :
    secretValue s peer proto ts = some m ↔
      ∃ p t, peer = some p ∧ ts = some t ∧ tsValid ts = true ∧
        Allowed s (protoOf proto) p.addr ∧ m = ⟨protoOf proto, t⟩ := by
  unfold secretValue
  simp only [← allowedHost_iff]
  cases peer with
  | none => simp
  | some p =>
    cases ts with
    | none => simp
    | some t =>
      cases hv : tsValid (some t) <;> cases ha : allowedHost s (protoOf proto) p.addr <;>
        simp [hv, ha]
      exact eq_comm

theorem sv_only_allowed (s : Srv) (p : Peer) (proto : Int) (ts : Ts) (m : SVMeta)
    (h : secretValue s (some p) proto ts = some m) : Allowed s m.proto p.addr := by
  obtain ⟨p', t, hp, _, _, ha, rfl⟩ := (sv_iff s (some p) proto ts m).1 h
  cases hp; exact ha

/-- **Intra-AS level-1 keys** go exactly to allow-listed hosts, and only when the local AS is the
    source or the destination of the key. -/
theorem intra_level1_iff (s : Srv) (peer : Option Peer) (proto : Int) (ts : Ts) (src dst : Nat)
    (m : Level1Meta) :
    intraLevel1 s peer proto ts src dst = some m ↔
      ∃ p t, peer = some p ∧ (s.localIA = src ∨ s.localIA = dst) ∧ ts = some t ∧ tsValid ts = true ∧
        Allowed s (protoOf proto) p.addr ∧ m = ⟨protoOf proto, t, src, dst⟩ := by
  unfold intraLevel1
  simp only [← allowedHost_iff]
  cases peer with
  | none => simp
  | some p =>
    by_cases c : s.localIA = src <;> by_cases d : s.localIA = dst <;>
      (cases ts with
       | none => simp [c, d]
       | some t =>
         cases hv : tsValid (some t) <;> cases ha : allowedHost s (protoOf proto) p.addr <;>
           simp [hv, ha, c, d] <;> exact eq_comm)

theorem intra_level1_requires_endpoint (s : Srv) (p : Peer) (proto : Int) (ts : Ts) (src dst : Nat)
    (m : Level1Meta) (h : intraLevel1 s (some p) proto ts src dst = some m) :
    (m.src = s.localIA ∨ m.dst = s.localIA) ∧ Allowed s m.proto p.addr := by
  obtain ⟨p', t, hp, hep, _, _, ha, rfl⟩ := (intra_level1_iff s (some p) proto ts src dst m).1 h
  cases hp
  exact ⟨by rcases hep with h | h <;> simp [h], ha⟩

/-- what an allow-list entry matches: the requester's address after unmapping, without zone —
    an entry written as IPv4-mapped literal or with a zone never matches (fail closed) -/
theorem allowed_entry_canonical (s : Srv) (proto : Nat) (a : PeerAddr) (h : Allowed s proto a) :
    ∃ ip e, a = .tcp ip ∧ (e, proto) ∈ s.allowed ∧ e.zone = "" ∧ e.bytes = unmap ip ∧ IsIP ip := by
  obtain ⟨ip, e, rfl, hf, hm⟩ := h
  refine ⟨ip, e, rfl, hm, ?_⟩
  unfold fromStdIP at hf
  unfold unmap IsIP
  split at hf
  · rename_i h4; cases hf; simp [h4]
  · split at hf
    · rename_i h16
      split at hf
      · rename_i hp; cases hf
        have : List.take 12 ip = v4InV6Prefix := by simpa using hp
        simp [h16, this]
      · rename_i hp; cases hf
        have : ¬ List.take 12 ip = v4InV6Prefix := by simpa using hp
        simp [h16, this]
    · cases hf

/-! ## no peer, no key -/

theorem no_peer_no_key (s : Srv) (proto : Int) (ts : Ts) (src dst : Nat) (r : HostReq) :
    level1 s none proto ts = none ∧ intraLevel1 s none proto ts src dst = none ∧
    secretValue s none proto ts = none ∧ asHost s none r = none ∧ hostAS s none r = none ∧
    hostHost s none r = none := ⟨rfl, rfl, rfl, rfl, rfl, rfl⟩

/-! ## histories on one server: no state -/

/-- **Statelessness.** On one server, the answer to a request does not depend on what was asked
    before or after: at every position of every history it is the answer to that request alone. -/
theorem handlers_stateless (s : Srv) (pre post : List Req) (r : Req) :
    (serve s (pre ++ r :: post))[pre.length]? = some (handle s r) := by
  simp [serve]

/-- … in particular for level-1 requests: whatever certificates were verified before, the decision
    is `level1` of the current request, which looks only at the verifier's answer for the chain
    presented now (`Peer.auth`), the protocol id and the timestamp — not even at the address. -/
theorem level1_stateless (s : Srv) (pre post : List Req) (peer : Option Peer) (proto : Int) (ts : Ts) :
    (serve s (pre ++ Req.l1 peer proto ts :: post))[pre.length]? =
      some (.level1 (level1 s peer proto ts)) :=
  handlers_stateless s pre post _

theorem level1_depends_only_on_auth (s : Srv) (a1 a2 : PeerAddr) (auth : Auth) (proto : Int) (ts : Ts) :
    level1 s (some ⟨a1, auth⟩) proto ts = level1 s (some ⟨a2, auth⟩) proto ts := rfl

/-- a chain that does not verify now yields no key, whatever happened earlier on this server -/
theorem level1_unverified_never_served (s : Srv) (pre post : List Req) (a : PeerAddr) (auth : Auth)
    (proto : Int) (ts : Ts) (h : ∀ ia, auth ≠ .tlsCert ia) :
    (serve s (pre ++ Req.l1 (some ⟨a, auth⟩) proto ts :: post))[pre.length]? = some (.level1 none) := by
  rw [level1_stateless]
  cases auth with
  | tlsCert ia => exact absurd rfl (h ia)
  | _ => rfl

/-- a level-1 key handed out anywhere in a history is for the AS named by the certificate chain
    that verified for *that* request -/
theorem level1_history_only_cert_ia (s : Srv) (hist : List Req) (i : Nat) (m : Level1Meta)
    (h : (serve s hist)[i]? = some (.level1 (some m))) :
    ∃ p proto ts, hist[i]? = some (Req.l1 (some p) proto ts) ∧ p.auth = .tlsCert m.dst ∧
      m.src = s.localIA := by
  simp only [serve, List.getElem?_map, Option.map_eq_some_iff] at h
  obtain ⟨r, hr, hh⟩ := h
  cases r with
  | l1 peer proto ts =>
    simp only [handle, Ans.level1.injEq] at hh
    cases peer with
    | none => simp [level1] at hh
    | some p =>
      have := level1_only_cert_ia s p proto ts m hh
      exact ⟨p, proto, ts, hr, this.1, this.2.1⟩
  | _ => simp [handle] at hh

/-! ## T3: the handlers validate before they ask the engine, and the validators' conditions are
    the ones modelled -/

theorem handlers_validate_first :
    Scion.Gen.Drkey.handlerDRKeyLevel1Calls =
      ["FromContext", "New", "validateClientCertificate", "Wrap", "getMeta", "Wrap", "IsPredefined",
       "New", "DeriveLevel1", "Wrap", "keyToLevel1Resp"] ∧
    Scion.Gen.Drkey.handlerDRKeyIntraLevel1Calls =
      ["FromContext", "New", "IA", "IA", "New", "getMeta", "IA", "IA", "Wrap", "validateAllowedHost",
       "Wrap", "GetLevel1Key", "Wrap", "keyToASASResp"] ∧
    Scion.Gen.Drkey.handlerDRKeyASHostCalls =
      ["FromContext", "New", "requestToASHostMeta", "Wrap", "validateASHostReq", "Wrap", "DeriveASHost",
       "Wrap", "keyToASHostResp"] ∧
    Scion.Gen.Drkey.handlerDRKeyHostASCalls =
      ["FromContext", "New", "requestToHostASMeta", "Wrap", "validateHostASReq", "Wrap", "DeriveHostAS",
       "Wrap", "keyToHostASResp"] ∧
    Scion.Gen.Drkey.handlerDRKeyHostHostCalls =
      ["FromContext", "New", "requestToHostHostMeta", "Wrap", "validateHostHostReq", "Wrap",
       "DeriveHostHost", "Wrap", "keyToHostHostResp"] ∧
    Scion.Gen.Drkey.handlerDRKeySecretValueCalls =
      ["FromContext", "New", "secretRequestToMeta", "Wrap", "validateAllowedHost", "Wrap",
       "GetSecretValue", "Wrap", "secretToProtoResp"] := by
  refine ⟨rfl, rfl, rfl, rfl, rfl, rfl⟩

theorem validators_as_modelled :
    Scion.Gen.Drkey.validateASHostReqConds =
      ["meta.ProtoId == drkey.Generic", "err != nil", "!meta.DstIA.Equal(localIA)",
       "!hostAddr.Equal(dstHost)"] ∧
    Scion.Gen.Drkey.validateHostASReqConds =
      ["meta.ProtoId == drkey.Generic", "err != nil", "!meta.SrcIA.Equal(localIA)",
       "!hostAddr.Equal(srcHost)"] ∧
    Scion.Gen.Drkey.validateHostHostReqConds =
      ["meta.ProtoId == drkey.Generic", "err != nil",
       "(!meta.SrcIA.Equal(localIA) || !hostAddr.Equal(srcHost)) && (!meta.DstIA.Equal(localIA) || !hostAddr.Equal(dstHost))"] ∧
    Scion.Gen.Drkey.validateAllowedHostConds = ["!ok", "!ok", "foundSet"] ∧
    Scion.Gen.Drkey.validateClientCertificateConds =
      ["peer.AuthInfo == nil", "!ok", "len(chain) == 0", "err != nil"] ∧
    Scion.Gen.Drkey.hostAddrFromPeerConds = ["!ok"] ∧
    Scion.Drkey.genericProto = Scion.Gen.Drkey.Generic ∧
    Scion.Drkey.predefinedProtos = Scion.Gen.Drkey.predefinedProtocols := by
  refine ⟨rfl, rfl, rfl, rfl, rfl, rfl, rfl, rfl⟩

/-! ## Non-vacuity -/

def exSrv : Srv := ⟨42, [(⟨true, [10, 0, 0, 7], ""⟩, 1)]⟩
def exPeer : Peer := ⟨.tcp [10, 0, 0, 7], .tlsCert 99⟩
def exIP16 : Bytes := [0, 0, 0, 0, 0, 0, 0, 0, 0, 0, 0xff, 0xff, 10, 0, 0, 7]

/-- the host 10.0.0.7 of AS 42 obtains its AS-host key for SCMP … -/
example : asHost exSrv (some exPeer) ⟨1, some (1700000000, 0), 7, 42, [], [1], [], exIP16⟩ =
    some ⟨1, (1700000000, 0), 7, 42, [], [1]⟩ := by decide
/-- … another host does not, nor does anybody for the generic protocol (also not via 65536) -/
example : asHost exSrv (some ⟨.tcp [10, 0, 0, 8], .none⟩) ⟨1, some (1700000000, 0), 7, 42, [], [1], [], exIP16⟩ = none := by decide
example : asHost exSrv (some exPeer) ⟨65536, some (1700000000, 0), 7, 42, [], [1], [], exIP16⟩ = none := by decide
example : SameHost [10, 0, 0, 7] exIP16 := by decide
/-- AS 99's certificate yields a level-1 key for (42 → 99) -/
example : level1 exSrv (some exPeer) 1 (some (1700000000, 0)) = some ⟨1, (1700000000, 0), 42, 99⟩ := by decide
/-- the allow-listed host gets the SCMP secret value, not the one of protocol 7 -/
example : secretValue exSrv (some exPeer) 1 (some (1700000000, 0)) = some ⟨1, (1700000000, 0)⟩ := by decide
example : secretValue exSrv (some exPeer) 7 (some (1700000000, 0)) = none := by decide

/-- genuine level-1 request of AS 99, then an unverifiable certificate on the same server: the
    first is served for 99, the second gets nothing -/
example : serve exSrv [.l1 (some exPeer) 1 (some (1700000000, 0)),
                       .l1 (some ⟨.tcp [10, 0, 0, 9], .tlsBadCert⟩) 1 (some (1700000001, 0))] =
    [.level1 (some ⟨1, (1700000000, 0), 42, 99⟩), .level1 none] := by decide

end Scion.C40
