import Scion.Model.GwFrames
import Scion.Proofs.GwFramesMain
import Scion.Gen.Gateway
/-!
# C41 — Gateway encapsulation reproduces the IP packet stream

Property theorems only; the proof development is in `Scion.Proofs.GwFrames*` (shape of the
sender's frames, the receiver's reassembly list in sync with the packet in progress).  The model
(`Scion.Model.GwFrames`) is tied to `gateway/dataplane` (`encoder`, `worker`, `reassemblyList`,
`frameBuf`) by `harness/cmd/gwframes`.

`encode mtu pkts sched`: all frames the sender produces for the packets `pkts` written to it;
`sched` is the oracle "the ring is momentarily empty" for the non-blocking reads, so frames may be
cut early wherever `encoder.Read` allows.  `decode fs`: everything the receiving worker writes to
the local network for the frame sequence `fs`.
-/
namespace Scion.C41
open Scion.GwFrames Scion.Util
open Scion.Proofs.GwFrames

/-- the sender's frames for one stream with the given epoch (stream id) -/
def encodeE (mtu ep : Nat) (pkts : List Bytes) (sched : List Bool) : List Frame :=
  encodeF mtu ep (totalLen pkts + 1) ⟨0, []⟩ pkts sched

theorem encode_eq (mtu : Nat) (pkts : List Bytes) (sched : List Bool) :
    encode mtu pkts sched = encodeE mtu 0 pkts sched := rfl

/-- the trace behind a stream -/
private theorem stream_trace (mtu ep : Nat) (pkts : List Bytes) (sched : List Bool)
    (hm : 57 ≤ mtu) (hM : mtu ≤ 65535) :
    ∃ tr : List Step, TraceOK mtu ep 0 none tr ∧ tr.map (·.f) = encodeE mtu ep pkts sched ∧
      (∀ s ∈ tr, ∀ x ∈ s.pre.pkt, x ∈ pkts.filter validPkt) ∧
      tr.flatMap Step.done = pkts.filter validPkt ∧ finalPost none tr = none := by
  obtain ⟨tr, h1, h2, h3, h4⟩ := encodeF_trace mtu ep (by omega) hM (totalLen pkts + 1) ⟨0, []⟩
    pkts sched none ⟨trivial, rfl⟩
  obtain ⟨h5, h6⟩ := h4 (by simp)
  exact ⟨tr, h1, h2, fun s hs x hx => by simpa [Pend.pkt] using h3 s hs x hx,
    by simpa [Pend.pkt] using h5, h6⟩

/-- **Loss-free clause of C41.**  For every frame size from the minimum (57) upward, every packet
sequence and every read schedule: the frames, delivered in order and without loss, are
decapsulated into exactly the valid packets, in order — provided no valid packet needs more
frames than the receiver's reassembly list holds (`reassemblyListCap` = 100 frames, i.e.
`|p| ≤ 99 · (mtu − 16)`; for packets up to 9000 bytes this is every `mtu ≥ 107`).  Without that
proviso the statement is false for the code and the model alike: the list is evicted when it is
full, so a packet spread over more than 100 frames is never delivered (DESIGN §7a). -/
theorem lossless_roundtrip (mtu : Nat) (pkts : List Bytes) (sched : List Bool)
    (hm : 57 ≤ mtu) (hM : mtu ≤ 65535)
    (hsz : ∀ p ∈ pkts, validPkt p = true → p.length ≤ 99 * (mtu - 16)) :
    decode (encode mtu pkts sched) = pkts.filter validPkt := by
  obtain ⟨tr, h1, h2, h3, h4, _⟩ := stream_trace mtu 0 pkts sched hm hM
  rw [encode_eq, ← h2, ← h4]
  apply decode_trace mtu 0 tr 0 none [] h1 rfl
  intro st hst p c hpre
  have hp : p ∈ pkts.filter validPkt := h3 st hst p (by rw [hpre]; simp [Pend.pkt])
  rw [List.mem_filter] at hp
  exact hsz p hp.1 hp.2

/-- the same for any stream id -/
theorem lossless_roundtrip_epoch (mtu ep : Nat) (pkts : List Bytes) (sched : List Bool)
    (hm : 57 ≤ mtu) (hM : mtu ≤ 65535)
    (hsz : ∀ p ∈ pkts, validPkt p = true → p.length ≤ 99 * (mtu - 16)) :
    decode (encodeE mtu ep pkts sched) = pkts.filter validPkt := by
  obtain ⟨tr, h1, h2, h3, h4, _⟩ := stream_trace mtu ep pkts sched hm hM
  rw [← h2, ← h4]
  apply decode_trace mtu ep tr 0 none [] h1 rfl
  intro st hst p c hpre
  have hp : p ∈ pkts.filter validPkt := h3 st hst p (by rw [hpre]; simp [Pend.pkt])
  rw [List.mem_filter] at hp
  exact hsz p hp.1 hp.2

/-- **Invalid packets are never encapsulated**: the frame payloads, concatenated, are exactly
the valid packets, concatenated (and every frame respects the frame size). -/
theorem invalid_never_encapsulated (mtu : Nat) (pkts : List Bytes) (sched : List Bool)
    (hm : 57 ≤ mtu) (hM : mtu ≤ 65535) :
    ((encode mtu pkts sched).map (·.payload)).flatten = (pkts.filter validPkt).flatten := by
  obtain ⟨tr, h1, h2, _, h4, h5⟩ := stream_trace mtu 0 pkts sched hm hM
  have := trace_bytes mtu 0 tr 0 none h1
  rw [h5, h4] at this
  simp only [carried, List.nil_append, List.append_nil] at this
  rw [encode_eq, ← h2, ← this]
  simp only [List.map_map]
  rfl

theorem frames_within_mtu (mtu : Nat) (pkts : List Bytes) (sched : List Bool) :
    ∀ f ∈ encode mtu pkts sched, hdrLen + f.payload.length ≤ max mtu hdrLen := by
  intro f hf
  have := encodeF_len mtu 0 _ _ _ _ f hf
  simp only [hdrLen] at *
  omega

/-- the sequence number of a frame is its position in the stream; hence the 64-bit counter of the
code (`e.seq++`, `lastFrame.seqNr+1`) cannot wrap unless one stream has 2^64 frames, and below
that bound the natural-number arithmetic of the model is the code's `uint64` arithmetic -/
theorem seq_is_position (mtu : Nat) (pkts : List Bytes) (sched : List Bool)
    (hm : 57 ≤ mtu) (hM : mtu ≤ 65535) (k : Nat) (f : Frame)
    (h : (encode mtu pkts sched)[k]? = some f) : f.seq = k := by
  obtain ⟨tr, h1, h2, _, _, _⟩ := stream_trace mtu 0 pkts sched hm hM
  rw [encode_eq, ← h2, List.getElem?_map] at h
  cases hk : tr[k]? with
  | none => rw [hk] at h; cases h
  | some st =>
    rw [hk] at h
    simp only [Option.map_some, Option.some.injEq] at h
    obtain ⟨hlt, hst⟩ := List.getElem?_eq_some_iff.1 hk
    have := (trace_get mtu 0 tr 0 none h1 k hlt).1
    rw [hst, h] at this
    omega

theorem seq_no_wrap (mtu : Nat) (pkts : List Bytes) (sched : List Bool)
    (hm : 57 ≤ mtu) (hM : mtu ≤ 65535) (hlen : (encode mtu pkts sched).length < 2 ^ 64) :
    ∀ f ∈ encode mtu pkts sched, f.seq + 1 < 2 ^ 64 := by
  intro f hf
  obtain ⟨k, hk, rfl⟩ := List.getElem_of_mem hf
  have := seq_is_position mtu pkts sched hm hM k _ (List.getElem?_eq_getElem hk)
  omega

/-- the validity test is the one of the statement: IPv4 (≥ 20 bytes, total length = length) or
IPv6 (≥ 40 bytes, payload length + 40 = length) -/
theorem validPkt_iff (p : Bytes) :
    validPkt p = true ↔
      ∃ b0, p[0]? = some b0 ∧
        ((b0.toNat / 16 = 4 ∧ 20 ≤ p.length ∧ ∃ x y, p[2]? = some x ∧ p[3]? = some y ∧
            be16 x y = p.length) ∨
         (b0.toNat / 16 = 6 ∧ 40 ≤ p.length ∧ ∃ x y, p[4]? = some x ∧ p[5]? = some y ∧
            40 + be16 x y = p.length)) := by
  unfold validPkt
  constructor
  · intro h
    split at h
    · cases h
    · rename_i b0 hb0
      refine ⟨b0, hb0, ?_⟩
      split at h
      · rename_i h4
        split at h
        · cases h
        · split at h
          · rename_i x y hx hy
            exact Or.inl ⟨h4, by omega, x, y, hx, hy, by simpa using h⟩
          · cases h
      · split at h
        · rename_i h6
          split at h
          · cases h
          · split at h
            · rename_i x y hx hy
              exact Or.inr ⟨h6, by omega, x, y, hx, hy, by simpa using h⟩
            · cases h
        · cases h
  · rintro ⟨b0, hb0, h⟩
    rw [hb0]
    rcases h with ⟨h4, hl, x, y, hx, hy, he⟩ | ⟨h6, hl, x, y, hx, hy, he⟩
    · simp only [h4, if_true]
      rw [if_neg (by omega), hx, hy]
      simpa using he
    · have h4 : ¬ b0.toNat / 16 = 4 := by omega
      simp only
      rw [if_neg h4, if_pos h6, if_neg (by omega), hx, hy]
      simpa using he

/-! ## Loss, duplication, reordering, several streams -/

/-- a stream as the sender produced it -/
structure Sent where
  mtu : Nat
  ep : Nat
  pkts : List Bytes
  sched : List Bool
  hm : 57 ≤ mtu
  hM : mtu ≤ 65535

def Sent.frames (s : Sent) : List Frame := encodeE s.mtu s.ep s.pkts s.sched

/-- **Fault clause of C41, full statement**: whatever frames of whatever streams (pairwise
distinct stream ids) arrive at a worker, in whatever order and multiplicity, every packet the
worker writes is byte-identical to a valid packet that was handed to one of the senders. -/
def EmittedSubsetSent : Prop :=
  ∀ (streams : List Sent), (∀ s ∈ streams, ∀ s' ∈ streams, s.ep = s'.ep → s = s') →
    ∀ ds : List Frame, (∀ d ∈ ds, ∃ s ∈ streams, d ∈ s.frames) →
      ∀ x ∈ decode ds, ∃ s ∈ streams, x ∈ s.pkts ∧ validPkt x = true

/-- the full fault clause holds for the model.  What the model leaves out (and the evidence
therefore lists as assumptions): sequence numbers are natural numbers (the 64-bit counter does
not wrap), the time-driven clean-up of idle reassembly lists is not modelled, and two streams
with the *same* stream id towards one worker are excluded by the hypothesis. -/
theorem emitted_subset_sent : EmittedSubsetSent := by
  intro streams hdist ds hds x hx
  -- one trace per stream
  have htr : ∀ s : Sent, ∃ tr : List Step, TraceOK s.mtu s.ep 0 none tr ∧
      tr.map (·.f) = s.frames ∧ tr.flatMap Step.done = s.pkts.filter validPkt := by
    intro s
    obtain ⟨tr, h1, h2, _, h4, _⟩ := stream_trace s.mtu s.ep s.pkts s.sched s.hm s.hM
    exact ⟨tr, h1, h2, h4⟩
  let mk : Sent → Stream := fun s =>
    ⟨s.mtu, s.ep, Classical.choose (htr s), (Classical.choose_spec (htr s)).1⟩
  have hmk_ep : ∀ s, (mk s).ep = s.ep := fun _ => rfl
  have hmk_frames : ∀ s, (mk s).tr.map (·.f) = s.frames := fun s =>
    (Classical.choose_spec (htr s)).2.1
  have hmk_done : ∀ s, (mk s).tr.flatMap Step.done = s.pkts.filter validPkt := fun s =>
    (Classical.choose_spec (htr s)).2.2
  have key := decode_subset_multi (streams.map mk)
    (by
      intro a ha b hb hab
      obtain ⟨s, hs, rfl⟩ := List.mem_map.1 ha
      obtain ⟨s', hs', rfl⟩ := List.mem_map.1 hb
      rw [hdist s hs s' hs' hab])
    ds [] (by intro s _; exact Or.inl rfl)
    (by
      intro d hd
      obtain ⟨s, hs, hdf⟩ := hds d hd
      rw [← hmk_frames s] at hdf
      obtain ⟨st, hst, rfl⟩ := List.mem_map.1 hdf
      obtain ⟨k, hk, rfl⟩ := List.getElem_of_mem hst
      exact ⟨mk s, List.mem_map.2 ⟨s, hs, rfl⟩, k, hk, rfl⟩)
    x hx
  obtain ⟨a, ha, hxa⟩ := key
  obtain ⟨s, hs, rfl⟩ := List.mem_map.1 ha
  rw [hmk_done s, List.mem_filter] at hxa
  exact ⟨s, hs, hxa.1, hxa.2⟩

/-- single-stream reading: any loss / duplication / reordering pattern of one stream's frames -/
theorem emitted_subset_sent_one_stream (mtu : Nat) (pkts : List Bytes) (sched : List Bool)
    (hm : 57 ≤ mtu) (hM : mtu ≤ 65535) (ds : List Frame)
    (hds : ∀ d ∈ ds, d ∈ encode mtu pkts sched) :
    ∀ x ∈ decode ds, x ∈ pkts ∧ validPkt x = true := by
  intro x hx
  have := emitted_subset_sent [⟨mtu, 0, pkts, sched, hm, hM⟩]
    (by intro s hs s' hs' _; simp at hs hs'; rw [hs, hs'])
    ds (by intro d hd; exact ⟨_, List.mem_singleton.2 rfl, hds d hd⟩) x hx
  obtain ⟨s, hs, h⟩ := this
  simp at hs
  subst hs
  exact h

/-! ## Facts regenerated from the source -/

/-- the constants of the model are those of the source -/
theorem gen_consts :
    Scion.Gen.Gateway.hdrLen = hdrLen ∧ Scion.Gen.Gateway.sigHdrSize = hdrLen ∧
    Scion.Gen.Gateway.reassemblyListCap = listCap ∧ Scion.Gen.Gateway.minMTU = 57 ∧
    Scion.Gen.Gateway.indexPos = 2 ∧ Scion.Gen.Gateway.streamPos = 4 ∧ Scion.Gen.Gateway.seqPos = 8 ∧
    Scion.Gen.Gateway.encoderRoomGuard = "cap(e.frame)-pos < 40" := by decide

/-! ## Non-vacuity -/

/-- a 24-byte IPv4 packet -/
private def p4 : Bytes :=
  [0x45, 0, 0, 24, 0, 0, 0, 0, 64, 17, 0, 0, 10, 0, 0, 1, 10, 0, 0, 2, 1, 2, 3, 4]

example : validPkt p4 = true := by decide
example : validPkt (p4 ++ [0]) = false := by decide
example : validPkt [] = false := by decide
example : ∀ p ∈ [p4, [0x75, 1, 2], p4], validPkt p = true → p.length ≤ 99 * (57 - 16) := by
  intro p hp _
  simp only [List.mem_cons, List.not_mem_nil, or_false] at hp
  rcases hp with rfl | rfl | rfl <;> decide

end Scion.C41
