import Scion.Model.LinkDown
import Scion.Gen.R2Bfd
/-! C15 — traffic is not sent over links that BFD declares down.
    Theorems about `Scion.LinkDown.step/run` for every configuration and every history of BFD messages,
    detection timeouts and packets, in any interleaving. -/
namespace Scion.C15
open Scion.LinkDown

/-- `IsUp` of a link: no session, or the session is in state Up. -/
theorem isUp_iff (l : Link) : l.isUp = true ↔ l.session = none ∨ l.session = some .up := by
  unfold Link.isUp
  cases l.session <;> simp

/-! ### one step -/

/-- the static part of the configuration: local AS, interface table, scope and interface id of each link -/
def Static (s : State) : Nat × List (Nat × Nat) × List (Scope × Nat) :=
  (s.localIA, s.ifaces, s.links.map fun l => (l.scope, l.ifID))

theorem setSession_static (ls : List Link) (i : Nat) (f : St → St) :
    (setSession ls i f).map (fun l => (l.scope, l.ifID)) = ls.map fun l => (l.scope, l.ifID) := by
  apply List.ext_getElem?
  intro j
  simp only [setSession, List.getElem?_map, List.getElem?_modify]
  cases ls[j]? with
  | none => rfl
  | some l => by_cases h : i = j <;> simp [h]

theorem step_static (s : State) (e : Event) : Static (step s e).1 = Static s := by
  cases e with
  | recv ifID r =>
    simp only [step]
    cases s.linkIdx ifID with
    | none => rfl
    | some i => simp [Static, setSession_static]
  | timeout ifID =>
    simp only [step]
    cases s.linkIdx ifID with
    | none => rfl
    | some i => simp [Static, setSession_static]
  | recvDisc ifID r yd =>
    simp only [step]
    cases s.linkIdx ifID with
    | none => rfl
    | some i => by_cases h : acceptsYourDisc yd r = true <;> simp [h, Static, setSession_static]
  | pkt a b => rfl
  | ohp b => rfl

/-- session of link `j` after modifying link `i` -/
theorem setSession_session (ls : List Link) (i j : Nat) (f : St → St) :
    ((setSession ls i f)[j]?).map (·.session) =
      if i = j then (ls[j]?).map (fun l => l.session.map f) else (ls[j]?).map (·.session) := by
  simp only [setSession, List.getElem?_modify]
  cases ls[j]? with
  | none => simp
  | some l => by_cases h : i = j <;> simp [h]

/-- **BFD messages drive exactly the session of the link they arrive on**: after an accepted message
    with remote state `r` on the link with index `i`, that link's session (if it has one) is
    `recvStep old r`; every other link is unchanged. -/
theorem recv_effect (s : State) (ifID i : Nat) (r : St) (hi : s.linkIdx ifID = some i) (j : Nat) :
    (((step s (.recv ifID r)).1.links)[j]?).map (·.session) =
      if i = j then (s.links[j]?).map (fun l => l.session.map fun st => recvStep st r)
      else (s.links[j]?).map (·.session) := by
  simp only [step, hi]
  exact setSession_session s.links i j _

/-- the same for the detection time elapsing -/
theorem timeout_effect (s : State) (ifID i : Nat) (hi : s.linkIdx ifID = some i) (j : Nat) :
    (((step s (.timeout ifID)).1.links)[j]?).map (·.session) =
      if i = j then (s.links[j]?).map (fun l => l.session.map timerStep)
      else (s.links[j]?).map (·.session) := by
  simp only [step, hi]
  exact setSession_session s.links i j _

/-- **A control message with Your Discriminator 0 and State Init or Up never reaches the session**: no
    state changes, so a Down link cannot be brought Up by a single unsolicited Init/Up packet -/
theorem zero_disc_init_up_discarded (s : State) (ifID : Nat) (r : St) (hr : r = .init ∨ r = .up) :
    (step s (.recvDisc ifID r 0)).1 = s := by
  rcases hr with rfl | rfl <;> simp only [step] <;> cases s.linkIdx ifID <;> simp [acceptsYourDisc]

/-- packets do not change any state -/
theorem pkt_no_effect (s : State) (a b : Nat) : (step s (.pkt a b)).1 = s := rfl

/-- **Decision for one packet**: a packet that would use interface `egress` is forwarded over it iff the
    link behind it is up; otherwise the answer is SCMP ExternalInterfaceDown {local IA, egress} on an
    external link and SCMP InternalConnectivityDown {local IA, ingress, egress} on a sibling link. -/
theorem pkt_decision (s : State) (ingress egress : Nat) (l : Link) (hl : s.link egress = some l) :
    (step s (.pkt ingress egress)).2 =
      if l.isUp = true then .fwd egress
      else if l.scope = .external then .extDown s.localIA egress
      else .intDown s.localIA ingress egress := by
  simp only [step, egressUp, hl]
  by_cases hu : l.isUp = true
  · simp [hu]
  · by_cases hs : l.scope = .external <;> simp [hu, hs]

/-! ### all histories -/

theorem run_static (s : State) (h : List Event) : ∀ t ∈ run s h, Static t.1 = Static s := by
  induction h generalizing s with
  | nil => intro t ht; cases ht
  | cons e es ih =>
    intro t ht
    simp only [run, List.mem_cons] at ht
    rcases ht with rfl | ht
    · rfl
    · rw [ih _ t ht, step_static]

/-- every entry of a trace is a step of the state recorded with it -/
theorem run_is_step (s : State) (h : List Event) : ∀ t ∈ run s h, t.2.2 = (step t.1 t.2.1).2 := by
  induction h generalizing s with
  | nil => intro t ht; cases ht
  | cons e es ih =>
    intro t ht
    simp only [run, List.mem_cons] at ht
    rcases ht with rfl | ht
    · rfl
    · exact ih _ t ht

/-- **The full statement**: in every history of BFD messages, timeouts and packets, in any interleaving,
    whenever a packet is forwarded over interface `e`, the link behind `e` has, at that moment, either no
    BFD session or a session in state Up. -/
def DownNeverForwarded : Prop :=
  ∀ (s0 : State) (h : List Event), ∀ t ∈ run s0 h, ∀ e, t.2.2 = .fwd e →
    ∃ l, t.1.link e = some l ∧ (l.session = none ∨ l.session = some .up)

def _root_.Scion.LinkDown.Event.isOhp : Event → Bool
  | .ohp _ => true
  | _ => false

/-- **Invariant, proved for SCION- and EPIC-path packets** (`_partial`: one-hop-path packets are excluded —
    `processOHP` forwards them without looking at the link state, see `ohp_forwarded_over_down_link`; this is
    the recorded known finding `C15/ohp-forwarded-over-down-link`). In every history, in any interleaving and
    whatever one-hop packets are interspersed, a SCION/EPIC packet is forwarded over interface `e` only in a
    state where the link behind `e` has no BFD session or its session is Up. -/
theorem down_never_forwarded_partial (s0 : State) (h : List Event) :
    ∀ t ∈ run s0 h, t.2.1.isOhp = false → ∀ e, t.2.2 = .fwd e →
      ∃ l, t.1.link e = some l ∧ (l.session = none ∨ l.session = some .up) := by
  intro t ht hno e hout
  have hs := run_is_step s0 h t ht
  rw [hout] at hs
  cases hev : t.2.1 with
  | recv ifID r =>
    rw [hev] at hs
    simp only [step] at hs
    cases hi : t.1.linkIdx ifID <;> simp [hi] at hs
  | timeout ifID =>
    rw [hev] at hs
    simp only [step] at hs
    cases hi : t.1.linkIdx ifID <;> simp [hi] at hs
  | ohp b => rw [hev] at hno; cases hno
  | recvDisc ifID r yd =>
    rw [hev] at hs
    simp only [step] at hs
    cases hi : t.1.linkIdx ifID with
    | none => simp [hi] at hs
    | some i => by_cases h : acceptsYourDisc yd r = true <;> simp [hi, h] at hs
  | pkt a b =>
    rw [hev] at hs
    simp only [step, egressUp] at hs
    cases hl : t.1.link b with
    | none => simp [hl] at hs
    | some l =>
      simp only [hl] at hs
      by_cases hu : l.isUp = true
      · simp only [hu, if_true] at hs
        injection hs with hs
        subst hs
        exact ⟨l, hl, (isUp_iff l).mp hu⟩
      · by_cases hsc : l.scope ≠ .external <;> simp [hu, hsc] at hs

/-- **Negation witness for the full statement**: a one-hop packet is forwarded over an external link
    whose session is Down (the model reproduces `processOHP`; reproduced on the real router by the
    engine, key `C15/ohp-forwarded-over-down-link`). -/
theorem ohp_forwarded_over_down_link : ¬ DownNeverForwarded := by
  intro h
  let s0 : State := { localIA := 5, links := [⟨.internal, 0, none⟩, ⟨.external, 1, some .down⟩],
                      ifaces := [(0, 0), (1, 1)] }
  obtain ⟨l, hl, hu⟩ := h s0 [.ohp 1] (s0, .ohp 1, .fwd 1) (by simp [run, step]) 1 rfl
  have : l = ⟨.external, 1, some .down⟩ := by
    have : s0.link 1 = some ⟨.external, 1, some .down⟩ := by decide
    rw [this] at hl; exact (Option.some.inj hl).symm
  subst this
  rcases hu with hu | hu <;> cases hu

/-- **The right SCMP answer**: in every history, a packet that would use interface `e` while the link
    behind it is not up is answered with ExternalInterfaceDown (external link) naming the local AS (the
    one configured at the start) and `e`, resp. InternalConnectivityDown (sibling link) naming the local
    AS, the ingress interface and `e`. -/
theorem down_answer (s0 : State) (h : List Event) :
    ∀ t ∈ run s0 h, ∀ i e l, t.2.1 = .pkt i e → t.1.link e = some l → l.isUp = false →
      t.2.2 = if l.scope = .external then .extDown s0.localIA e else .intDown s0.localIA i e := by
  intro t ht i e l hev hl hu
  have hs := run_is_step s0 h t ht
  have hst := run_static s0 h t ht
  have hia : t.1.localIA = s0.localIA := congrArg Prod.fst hst
  rw [hs, hev, pkt_decision t.1 i e l hl, hia]
  simp [hu]

/-- **Forwarding resumes once the session is up** and **links without BFD are always usable**: in every
    history, a packet that would use interface `e` is forwarded over `e` whenever the link has no session
    or its session is Up at that moment. -/
theorem up_forwards (s0 : State) (h : List Event) :
    ∀ t ∈ run s0 h, ∀ i e l, t.2.1 = .pkt i e → t.1.link e = some l →
      (l.session = none ∨ l.session = some .up) → t.2.2 = .fwd e := by
  intro t ht i e l hev hl hu
  rw [run_is_step s0 h t ht, hev, pkt_decision t.1 i e l hl, (isUp_iff l).mpr hu]
  rfl

/-- a link configured without BFD never gets a session, whatever happens -/
theorem no_bfd_stays (s : State) (e : Event) (j : Nat) (l : Link)
    (hl : s.links[j]? = some l) (hn : l.session = none) :
    ∃ l', (step s e).1.links[j]? = some l' ∧ l'.session = none ∧ l'.scope = l.scope := by
  cases e with
  | pkt a b => exact ⟨l, hl, hn, rfl⟩
  | ohp b => exact ⟨l, hl, hn, rfl⟩
  | recvDisc ifID r yd =>
    simp only [step]
    cases s.linkIdx ifID with
    | none => exact ⟨l, hl, hn, rfl⟩
    | some i =>
      by_cases h : acceptsYourDisc yd r = true
      · simp only [h, if_true, setSession, List.getElem?_modify, hl]
        by_cases h' : i = j <;> simp [h', hn]
      · simp only [h]; exact ⟨l, hl, hn, rfl⟩
  | recv ifID r =>
    simp only [step]
    cases s.linkIdx ifID with
    | none => exact ⟨l, hl, hn, rfl⟩
    | some i =>
      simp only [setSession, List.getElem?_modify, hl]
      by_cases h : i = j <;> simp [h, hn]
  | timeout ifID =>
    simp only [step]
    cases s.linkIdx ifID with
    | none => exact ⟨l, hl, hn, rfl⟩
    | some i =>
      simp only [setSession, List.getElem?_modify, hl]
      by_cases h : i = j <;> simp [h, hn]

theorem no_bfd_always (s : State) (h : List Event) (j : Nat) (l : Link)
    (hl : s.links[j]? = some l) (hn : l.session = none) :
    ∃ l', (final s h).links[j]? = some l' ∧ l'.session = none := by
  induction h generalizing s l with
  | nil => exact ⟨l, hl, hn⟩
  | cons e es ih =>
    obtain ⟨l', hl', hn', _⟩ := no_bfd_stays s e j l hl hn
    exact ih (step s e).1 l' hl' hn'

/-- **Bring-up from any state**: whatever state a session is in (including the never-started zero value),
    the peer reporting Down and then Init brings it to Up, so packets flow again. -/
theorem recv_down_init_reaches_up (st : St) : recvStep (recvStep st .down) .init = .up := by
  cases st <;> rfl

/-- a received AdminDown never wedges the session: it is Down afterwards (and can come up again) -/
theorem recv_adminDown_is_down (st : St) : recvStep st .adminDown = .down := by
  cases st <;> rfl

/-- the session only ever becomes Up by a message from the peer, never by a timeout -/
theorem timer_never_up (st : St) (h : timerStep st = .up) : False := by
  cases st <;> simp [timerStep, transition] at h

/-- a detection timeout takes an Up or Init session down -/
theorem timer_takes_down : timerStep .up = .down ∧ timerStep .init = .down ∧ timerStep .down = .down := by
  decide

/-! ### T3: facts regenerated from the source on every run -/

def stNum : St → Nat
  | .adminDown => 0 | .down => 1 | .init => 2 | .up => 3
def stOf : Nat → Option St
  | 0 => some .adminDown | 1 => some .down | 2 => some .init | 3 => some .up | _ => none
def evOfNat : Nat → Option Ev
  | 0 => some .adminDown | 1 => some .down | 2 => some .init | 3 => some .up | 4 => some .timer
  | 5 => some .adminUp | _ => none

def rowOk (row : Nat × Nat × Nat) : Bool :=
  match stOf row.1, evOfNat row.2.1 with
  | some s, some e => stNum (transition s e) == row.2.2
  | _, _ => false

/-- the model's `transition` is the function written in router/bfd/fsm.go: every row of the nested
    switch agrees, and the switch has a row for each of the 4 × 6 (state, event) pairs -/
theorem gen_transition_table :
    Scion.Gen.R2Bfd.transitionRows.all rowOk = true ∧
    (List.range 4).all (fun s => (List.range 6).all fun e =>
      Scion.Gen.R2Bfd.transitionRows.any fun r => r.1 == s && r.2.1 == e) = true := by decide

/-- `IsUp` of the session and of the three link kinds is what the model says: state Up; no session or
    session up; always true for the internal link -/
theorem gen_isUp :
    Scion.Gen.R2Bfd.isUp_Session = ["up := s.getLocalState() == stateUp", "return up"] ∧
    Scion.Gen.R2Bfd.isUp_connectedLink = ["return l.bfdSession == nil || l.bfdSession.IsUp()"] ∧
    Scion.Gen.R2Bfd.isUp_detachedLink = ["return l.bfdSession == nil || l.bfdSession.IsUp()"] ∧
    Scion.Gen.R2Bfd.isUp_internalLink = ["return true"] := by decide

/-- `validateEgressUp` is the last check of `process()` before the packet is committed to the egress
    link (only `processEgress` follows), it tests `IsUp` of the egress link and chooses the SCMP type by
    the link's scope; the SCMP type numbers are the ones the driver prints -/
theorem gen_egressUp_shape :
    (Scion.Gen.R2Bfd.processCallees.reverse.take 4).reverse =
      ["validateEgressID", "handleEgressRouterAlert", "validateEgressUp", "processEgress"] ∧
    Scion.Gen.R2Bfd.processCallees.count "validateEgressUp" = 1 ∧
    Scion.Gen.R2Bfd.egressUpConds = ["!egressLink.IsUp()", "egressLink.Scope() != External"] ∧
    Scion.Gen.R2Bfd.egressUpTypes = ["SCMPTypeInternalConnectivityDown", "SCMPTypeExternalInterfaceDown"] ∧
    Scion.Gen.R2Bfd.SCMPTypeExternalInterfaceDown = 5 ∧
    Scion.Gen.R2Bfd.SCMPTypeInternalConnectivityDown = 6 := by decide

/-- T3 / processing loop: in `dataPlane.runProcessor` every case of `switch disp` except `pForward` ends the
    loop iteration on EVERY path (each arm of the slow-path `select` included), so a packet that
    `validateEgressUp` put on the slow path never reaches the forwarding code after the switch
    (`fwLink.Send`) - also when the slow-path queue is full -/
theorem gen_runProcessor_only_forward_reaches_send :
    (∀ c ∈ Scion.Gen.R2Bfd.runProcessorCases, c.2 = false → c.1 = "pForward") ∧
    Scion.Gen.R2Bfd.runProcessorCases.lookup "pSlowPath" = some true ∧
    Scion.Gen.R2Bfd.runProcessorCases.lookup "pForward" = some false ∧
    Scion.Gen.R2Bfd.runProcessorAfterSwitch.count "fwLink.Send" = 1 := by decide

/-! Non-vacuity: external link (interface 1) and sibling link (interface 7), both with BFD. -/
def ex0 : State :=
  { localIA := 5, links := [⟨.internal, 0, none⟩, ⟨.external, 1, some .down⟩, ⟨.sibling, 0, some .down⟩],
    ifaces := [(0, 0), (1, 1), (7, 2)] }

example : (run ex0 [.pkt 0 1, .recv 1 .down, .recv 1 .init, .pkt 0 1, .pkt 1 7, .timeout 1, .pkt 2 1, .pkt 1 0]).map (·.2.2) =
    [.extDown 5 1, .bfd (some .init), .bfd (some .up), .fwd 1, .intDown 5 1 7, .bfd (some .down), .extDown 5 1, .fwd 0] := by
  decide

end Scion.C15
