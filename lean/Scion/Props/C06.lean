import Scion.Proofs.RouterProcess
import Scion.Proofs.RouterExamples
import Scion.Gen.Router1
/-!
# C06 — Forwarding respects the link-type rules of SCION paths

Property theorems only. Model: `Scion.Model.Router` (see C01 for the tie; for this property the
engine additionally drives the complete table link type × link type × segment change × ingress
scope × egress scope × direction through the real `validateEgressID` with validly MACed packets).
"Forwarded" is the fast-path disposition `forward egress`; what the slow path does with
router-alert packets is property C10's subject.
-/
namespace Scion.C06
open Scion.Util Scion.Router
open Scion.PathMeta hiding Info

/-- interface pairs admissible within a segment -/
def WithinPair (i e : LinkType) : Prop :=
  (i = .core ∧ e = .core) ∨ (i = .child ∧ e = .parent) ∨ (i = .parent ∧ e = .child) ∨
  (i = .child ∧ e = .peer) ∨ (i = .peer ∧ e = .child)

/-- interface pairs admissible at a segment change -/
def ChangePair (i e : LinkType) : Prop :=
  (i = .core ∧ e = .child) ∨ (i = .child ∧ e = .core) ∨ (i = .child ∧ e = .child)

instance (i e : LinkType) : Decidable (WithinPair i e) := by unfold WithinPair; infer_instance
instance (i e : LinkType) : Decidable (ChangePair i e) := by unfold ChangePair; infer_instance

/-- the decision table of `validateEgressID` is exactly the rule of the property: on a segment
change the three change pairs, otherwise the five within-segment pairs (or a packet from inside
the AS, whose pair was checked by the ingress router) -/
theorem pairCheck_none_iff (x : Bool) (ifid : Nat) (i e : LinkType) :
    pairCheck x ifid i e = none ↔ (if x then ChangePair i e else (ifid = 0 ∨ WithinPair i e)) := by
  cases x <;> cases i <;> cases e <;> by_cases h0 : ifid = 0 <;>
    simp [pairCheck, WithinPair, ChangePair, h0, cInvalidPath, cSegChange]

/-- every rejection by the table is InvalidPath (within a segment) or InvalidSegmentChange -/
theorem pairCheck_some (x : Bool) (ifid : Nat) (i e : LinkType) (c : Nat)
    (h : pairCheck x ifid i e = some c) : c = if x then cSegChange else cInvalidPath := by
  cases x <;> cases i <;> cases e <;> by_cases h0 : ifid = 0 <;>
    simp [pairCheck, h0] at h ⊢ <;> exact h.symm

/-- whether this router performs an effective segment change for the received packet -/
def segChange (h : Hd) (pm : Hdr) (peering : Bool) : Bool := isXover (base h pm) && !peering

/-- what forwarding on `eg` implies, in one place -/
theorem forward_inv (cfg mac resolve now ing h pm raw eg)
    (hf : (process cfg mac resolve now ing h pm raw).1 = .forward eg) :
    ∃ inf peering l, getInfo h raw pm.currINF = some inf ∧ determinePeer pm inf = some peering ∧
      cfg.ifaces eg = some l ∧ l.up = true ∧ (ing.ifID = 0 → l.scope = .external) ∧
      pairCheck (segChange h pm peering) ing.ifID (cfg.ltype ing.ifID) (cfg.ltype eg) = none := by
  have hacc : (process cfg mac resolve now ing h pm raw).1.accepting = true := by rw [hf]; rfl
  obtain ⟨s0, s1, p⟩ := process_accepting_inv hacc
  have a := stParse_ok p.parse
  have b := stSegID_ok p.segid
  rw [process_of_passed p] at hf hacc
  unfold tail at hf hacc
  by_cases hd : h.dstIA = cfg.localIA
  · simp only [hd, beq_self_eq_true, if_true] at hf
    have := inbound_not_forward (resolve cfg h) s1
    rw [hf] at this; simp [Disp.isForward] at this
  · have hb : (h.dstIA == cfg.localIA) = false := by simpa using hd
    simp only [hb, Bool.false_eq_true, if_false] at hf hacc
    obtain ⟨s5, l, o⟩ := outbound_accepting_inv hacc
    have x := stXover_ok o.xo
    have e := stEgressID_ok o.egid
    have u := stEgressAlertUp_ok o.up
    have heg : egressOf s5 = eg := by
      have := o.disp; rw [hf] at this; cases this; rfl
    rw [heg] at e
    refine ⟨s0.inf, s0.peering, l, a.inf, a.peer, e.1, u.2, e.2.1, ?_⟩
    have hx : s5.effXover = segChange h pm s0.peering := by
      unfold segChange
      cases hdx : doesXover h s1
      · rw [x.no hdx, b.eff, a.eff]
        unfold doesXover at hdx
        rw [b.hpm, a.hpm, b.peering] at hdx
        exact hdx.symm
      · obtain ⟨_, _, _, _, _, _, _, _, he⟩ := x.yes hdx
        rw [he]
        unfold doesXover at hdx
        rw [b.hpm, a.hpm, b.peering] at hdx
        exact hdx.symm
    rw [← hx]; exact e.2.2

/-- **(1)** a packet that came from another AS is forwarded only across an admissible pair:
within a segment one of the five pairs, at a segment change one of the three -/
theorem forward_pair_allowed (cfg mac resolve now ing h pm raw eg)
    (hf : (process cfg mac resolve now ing h pm raw).1 = .forward eg) (hext : ing.ifID ≠ 0) :
    ∃ inf peering, getInfo h raw pm.currINF = some inf ∧ determinePeer pm inf = some peering ∧
      (if segChange h pm peering then ChangePair (cfg.ltype ing.ifID) (cfg.ltype eg)
       else WithinPair (cfg.ltype ing.ifID) (cfg.ltype eg)) := by
  obtain ⟨inf, peering, l, hi, hp, _, _, _, hc⟩ := forward_inv cfg mac resolve now ing h pm raw eg hf
  refine ⟨inf, peering, hi, hp, ?_⟩
  have := (pairCheck_none_iff _ _ _ _).mp hc
  cases hs : segChange h pm peering <;> simp [hs] at this ⊢
  · rcases this with h0 | hw
    · exact absurd h0 hext
    · exact hw
  · exact this

/-- **(2)** a packet from inside the AS leaves through an external interface of this router -/
theorem internal_leaves_external (cfg mac resolve now ing h pm raw eg)
    (hf : (process cfg mac resolve now ing h pm raw).1 = .forward eg) (hint : ing.ifID = 0) :
    ∃ l, cfg.ifaces eg = some l ∧ l.scope = .external := by
  obtain ⟨_, _, l, _, _, hl, _, hs, _⟩ := forward_inv cfg mac resolve now ing h pm raw eg hf
  exact ⟨l, hl, hs hint⟩

/-- … and, even from inside the AS, never across a segment change with the wrong pair: the
segment-change table applies to every ingress -/
theorem segment_change_pair_always (cfg mac resolve now ing h pm raw eg)
    (hf : (process cfg mac resolve now ing h pm raw).1 = .forward eg) :
    ∃ inf peering, getInfo h raw pm.currINF = some inf ∧ determinePeer pm inf = some peering ∧
      (segChange h pm peering = true → ChangePair (cfg.ltype ing.ifID) (cfg.ltype eg)) := by
  obtain ⟨inf, peering, l, hi, hp, _, _, _, hc⟩ := forward_inv cfg mac resolve now ing h pm raw eg hf
  refine ⟨inf, peering, hi, hp, fun hs => ?_⟩
  have := (pairCheck_none_iff _ _ _ _).mp hc
  simpa [hs] using this

/-- **multi-router ASes.** `d.linkTypes[0]` is never configured (no interface has id 0), so a
packet that arrives from inside the AS — over the internal link or over a *sibling* link — is
never taken across a segment change by this router, whatever the link types: the cross-over (and
its link-type check) belongs to the router that received the packet from the other AS. In
particular no parent→parent (or other) valley can be forwarded by handing a packet over a
sibling link before the segment change. -/
theorem inside_never_crosses (cfg mac resolve now ing h pm raw eg)
    (hf : (process cfg mac resolve now ing h pm raw).1 = .forward eg) (hint : ing.ifID = 0)
    (h0 : cfg.ltype 0 = .unset) :
    ∃ inf peering, getInfo h raw pm.currINF = some inf ∧ determinePeer pm inf = some peering ∧
      segChange h pm peering = false := by
  obtain ⟨inf, peering, hi, hp, hc⟩ := segment_change_pair_always cfg mac resolve now ing h pm raw eg hf
  refine ⟨inf, peering, hi, hp, ?_⟩
  cases hs : segChange h pm peering
  · rfl
  · have := hc hs
    rw [hint, h0] at this
    simp [ChangePair] at this

/-- the pair of AS-level links a forwarded packet traverses at a segment change is admissible,
over whichever local link it arrived: the link by which it entered the AS is the travel-direction
ingress interface of its current hop (for an external ingress that *is* the receiving interface;
from inside the AS no segment change is performed at all) -/
theorem segment_change_entry_pair (cfg mac resolve now ing h pm raw eg)
    (hf : (process cfg mac resolve now ing h pm raw).1 = .forward eg) (h0 : cfg.ltype 0 = .unset) :
    ∃ hop inf peering, getHop h raw pm.currHF = some hop ∧ getInfo h raw pm.currINF = some inf ∧
      determinePeer pm inf = some peering ∧
      (segChange h pm peering = true →
        ChangePair (cfg.ltype (travelIn inf hop)) (cfg.ltype eg)) := by
  have hacc : (process cfg mac resolve now ing h pm raw).1.accepting = true := by rw [hf]; rfl
  obtain ⟨s0, s1, p⟩ := process_accepting_inv hacc
  have a := stParse_ok p.parse
  have b := stSegID_ok p.segid
  have c := stValidate1_ok p.val
  obtain ⟨inf, peering, hi, hp, hc⟩ := segment_change_pair_always cfg mac resolve now ing h pm raw eg hf
  have e1 : inf = s0.inf := by have := a.inf; rw [hi] at this; cases this; rfl
  subst e1
  have e2 : peering = s0.peering := by have := a.peer; rw [hp] at this; cases this; rfl
  subst e2
  refine ⟨s0.hop, s0.inf, s0.peering, a.hop, hi, hp, fun hs => ?_⟩
  have hpair := hc hs
  by_cases hint : ing.ifID = 0
  · rw [hint, h0] at hpair
    simp [ChangePair] at hpair
  · have hin := c.2.2.1 hint
    have ht : travelIn s1.inf s1.hop = travelIn s0.inf s0.hop := by
      rw [b.inf, b.hop]
      split
      · rfl
      · rfl
    rw [ht] at hin
    rw [← hin]; exact hpair

/-- forwarding always goes to a configured link that is up -/
theorem forward_link_up (cfg mac resolve now ing h pm raw eg)
    (hf : (process cfg mac resolve now ing h pm raw).1 = .forward eg) :
    ∃ l, cfg.ifaces eg = some l ∧ l.up = true := by
  obtain ⟨_, _, l, _, _, hl, hu, _, _⟩ := forward_inv cfg mac resolve now ing h pm raw eg hf
  exact ⟨l, hl, hu⟩

/-- **(3)** every other combination is answered with an SCMP ParameterProblem: the complete
case analysis of `validateEgressID` -/
theorem egress_check_spec (cfg : Cfg) (h : Hd) (ing : Ingress) (s : St) :
    (∃ l, stEgressID cfg h ing s = .ok l ∧ cfg.ifaces (egressOf s) = some l ∧
        (ing.ifID = 0 → l.scope = .external) ∧
        (if s.effXover then ChangePair (cfg.ltype ing.ifID) (cfg.ltype (egressOf s))
         else (ing.ifID = 0 ∨ WithinPair (cfg.ltype ing.ifID) (cfg.ltype (egressOf s))))) ∨
    (∃ code ptr, stEgressID cfg h ing s = .error (.slow PP code ptr, s.buf) ∧
        ((code = codeUnkEg s.inf ∧ ptr = hopPtr h s.pm) ∨
         (code = cInvalidPath ∧ ptr = hopPtr h s.pm ∧ s.effXover = false) ∨
         (code = cSegChange ∧ ptr = infoPtr h s.pm ∧ s.effXover = true))) := by
  unfold stEgressID
  cases hl : cfg.ifaces (egressOf s) with
  | none => right; exact ⟨_, _, rfl, Or.inl ⟨rfl, rfl⟩⟩
  | some l =>
    simp only
    by_cases hc : (ing.ifID == 0 && l.scope != .external) = true
    · right; simp only [hc, if_true]; exact ⟨_, _, rfl, Or.inl ⟨rfl, rfl⟩⟩
    · simp only [hc]
      cases hp : pairCheck s.effXover ing.ifID (cfg.ltype ing.ifID) (cfg.ltype (egressOf s)) with
      | none =>
        left
        refine ⟨l, rfl, rfl, ?_, (pairCheck_none_iff _ _ _ _).mp hp⟩
        intro h0; simp [h0] at hc; exact hc
      | some code =>
        right
        have hcode := pairCheck_some _ _ _ _ _ hp
        refine ⟨code, pairPtr h s, rfl, ?_⟩
        cases hx : s.effXover <;> simp [hx] at hcode <;> simp [hcode, pairPtr, hx]

/-- … and at the level of `process`: when every check up to the cross-over passes and the
interface pair (or the egress interface) is not admissible, the packet is answered with an SCMP
ParameterProblem — UnknownHopField{Ingress,Egress}, InvalidPath or InvalidSegmentChange — and
nothing else happens to it -/
theorem bad_pair_answer (cfg mac resolve now ing h pm raw) (s0 s1 s5 : St)
    (p : Passed cfg mac now ing h pm raw s0 s1) (hd : h.dstIA ≠ cfg.localIA)
    (hx : stXover cfg mac h now s1 = .ok s5) (hbad : ∀ l, stEgressID cfg h ing s5 ≠ .ok l) :
    ∃ code ptr, process cfg mac resolve now ing h pm raw = (.slow PP code ptr, s5.buf) ∧
      (code = codeUnkEg s5.inf ∨ code = cInvalidPath ∨ code = cSegChange) := by
  rw [process_of_passed p]
  unfold tail
  have hb : (h.dstIA == cfg.localIA) = false := by simpa using hd
  simp only [hb, Bool.false_eq_true, if_false]
  unfold outbound
  simp only [hx]
  rcases egress_check_spec cfg h ing s5 with ⟨l, hl, _⟩ | ⟨code, ptr, he, hc⟩
  · exact absurd hl (hbad l)
  · simp only [he]
    refine ⟨code, ptr, rfl, ?_⟩
    rcases hc with ⟨h1, _⟩ | ⟨h1, _⟩ | ⟨h1, _⟩
    · exact Or.inl h1
    · exact Or.inr (Or.inl h1)
    · exact Or.inr (Or.inr h1)

/-- the statements above hold of raw packets: `processPkt` forwards only through `process` -/
theorem processPkt_forward (cfg mac resolve now ing) (raw : Bytes) (eg : Nat)
    (hf : (processPkt cfg mac resolve now ing raw).1 = .forward eg) :
    ∃ h pm, parse raw = .ok h pm ∧ (process cfg mac resolve now ing h pm raw).1 = .forward eg := by
  unfold processPkt at hf
  cases hp : parse raw with
  | drop => simp [hp] at hf
  | other => simp [hp] at hf
  | ok h pm => simp only [hp] at hf; exact ⟨h, pm, rfl, hf⟩

/-! ### no state between packets

In the code a `scionPacketProcessor` is reused for every packet of its goroutine; `reset()` clears
the per-packet fields (`effectiveXover`, `peering`, hop and info field, path) first. In the model
this is by construction: `process` is a function of configuration, MAC, time, ingress link and
packet, and the per-packet state is created by `stParse`. -/

/-- a processor handling a sequence of packets: the model has nothing to carry over -/
def runSeq (cfg : Cfg) (mac : Mac) (resolve : Cfg → Hd → ResolveOut)
    (pkts : List (Nat × Ingress × Bytes)) : List (Disp × Bytes) :=
  pkts.map fun p => processPkt cfg mac resolve p.1 p.2.1 p.2.2

/-- **process_stateless.** The answer to a packet does not depend on the packets the same
processor handled before it: after any two histories the packet gets the same answer, namely
`processPkt` of that packet alone. (Tie: the engine's op stream reuses one real processor per
configuration and contains deterministic two-packet sequences — a cross-over or peering packet
followed by every within-segment link-type pair — compared line by line with this model.) -/
theorem process_stateless (cfg : Cfg) (mac : Mac) (resolve : Cfg → Hd → ResolveOut)
    (pre pre' : List (Nat × Ingress × Bytes)) (now : Nat) (ing : Ingress) (raw : Bytes) :
    (runSeq cfg mac resolve (pre ++ [(now, ing, raw)])).getLast? =
      some (processPkt cfg mac resolve now ing raw) ∧
    (runSeq cfg mac resolve (pre ++ [(now, ing, raw)])).getLast? =
      (runSeq cfg mac resolve (pre' ++ [(now, ing, raw)])).getLast? := by
  simp [runSeq]

/-- the per-packet flags start afresh with every packet: the cross-over flag is false and the
peering flag is what `determinePeer` says about THIS packet -/
theorem flags_fresh (h : Hd) (pm : Hdr) (raw : Bytes) (s : St) (e : stParse h pm raw = .ok s) :
    s.effXover = false ∧ determinePeer pm s.inf = some s.peering :=
  ⟨(stParse_ok e).eff, (stParse_ok e).peer⟩

/-- T3: `processPkt` starts with `reset()`, and `reset()` clears both flags -/
theorem reset_clears_flags :
    Scion.Gen.Router1.processPktFirst =
      "if err := p.reset(); err != nil { return errorDiscard(\"error\", err) }" ∧
    "p.effectiveXover = false" ∈ Scion.Gen.Router1.resetAssigns ∧
    "p.peering = false" ∈ Scion.Gen.Router1.resetAssigns ∧
    "p.hopField = path.HopField{}" ∈ Scion.Gen.Router1.resetAssigns ∧
    "p.infoField = path.InfoField{}" ∈ Scion.Gen.Router1.resetAssigns := by
  refine ⟨rfl, ?_, ?_, ?_, ?_⟩ <;> decide

/-! ### non-vacuity -/

/-- child → child across a segment change is forwarded -/
example : (processPkt Ex.cfg Ex.idMac resolveLocal Ex.now ⟨1, 10⟩ Ex.xover).1 = .forward 2 := by decide
/-- the same packet when interface 2 is a parent link: rejected with InvalidSegmentChange,
pointer at the info field of the new segment -/
example : (processPkt { Ex.cfg with ltype := fun id => if id = 1 then .child else .parent }
    Ex.idMac resolveLocal Ex.now ⟨1, 10⟩ Ex.xover).1 = .slow PP cSegChange 48 := by decide

/-! ### T3: the switch the model's `pairCheck` was written against -/

theorem table_cases :
    Scion.Gen.Router1.egressWithinCases =
      ["p.ingressFromLink == 0",
       "ingressLT == topology.Core && egressLT == topology.Core",
       "ingressLT == topology.Child && egressLT == topology.Parent",
       "ingressLT == topology.Parent && egressLT == topology.Child",
       "ingressLT == topology.Child && egressLT == topology.Peer",
       "ingressLT == topology.Peer && egressLT == topology.Child", "default"] ∧
    Scion.Gen.Router1.egressChangeCases =
      ["ingressLT == topology.Core && egressLT == topology.Child",
       "ingressLT == topology.Child && egressLT == topology.Core",
       "ingressLT == topology.Child && egressLT == topology.Child", "default"] ∧
    Scion.Gen.Router1.egressIfConds =
      ["egressLink == nil || (p.ingressFromLink == 0 && egressLink.Scope() != External)",
       "!p.infoField.ConsDir", "!p.effectiveXover"] :=
  ⟨rfl, rfl, rfl⟩

theorem scmp_requests :
    Scion.Gen.Router1.req_validateEgressID =
      ["slowPathType(slayers.SCMPTypeParameterProblem)|errCode|p.currentHopPointer()",
       "slowPathType(slayers.SCMPTypeParameterProblem)|slayers.SCMPCodeInvalidPath|p.currentHopPointer()",
       "slowPathType(slayers.SCMPTypeParameterProblem)|slayers.SCMPCodeInvalidSegmentChange|p.currentInfoPointer()"] ∧
    Router.cInvalidPath = Scion.Gen.Router1.SCMPCodeInvalidPath ∧
    Router.cSegChange = Scion.Gen.Router1.SCMPCodeInvalidSegmentChange ∧
    Router.cUnkIngress = Scion.Gen.Router1.SCMPCodeUnknownHopFieldIngress ∧
    Router.cUnkEgress = Scion.Gen.Router1.SCMPCodeUnknownHopFieldEgress ∧
    Router.PP = Scion.Gen.Router1.SCMPTypeParameterProblem :=
  ⟨rfl, rfl, rfl, rfl, rfl, rfl⟩

/-- the numbering of link types used by the driver is `topology.LinkType`'s -/
theorem link_type_values :
    Scion.Gen.Router1.LinkUnset = 0 ∧ Scion.Gen.Router1.LinkCore = 1 ∧ Scion.Gen.Router1.LinkParent = 2 ∧
    Scion.Gen.Router1.LinkChild = 3 ∧ Scion.Gen.Router1.LinkPeer = 4 := ⟨rfl, rfl, rfl, rfl, rfl⟩

theorem stage_order : Scion.Gen.Router1.processCalls = Router.processCallOrder := rfl

end Scion.C06
