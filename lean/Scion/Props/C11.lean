import Scion.Model.Resolve
import Scion.Proofs.Resolve
import Scion.Gen.RcfgPort
/-!
# C11 — local delivery uses the documented underlay destination port

*Statement.* The router in the destination AS sends a packet for an IP host to the layer-4 port
derived from the packet (UDP or TCP destination port, SCMP echo/traceroute reply identifier,
quoted UDP source port of an SCMP error) if that port lies in the AS's configured dispatched-port
range, and to the default end-host port 30041 otherwise.  Packets for a service address go to the
address and port of a registered instance of that service.  The configured range (from the
topology, possibly overridden by the router configuration) is honoured whatever the order in
which the router is configured.

Model: `Scion.Resolve` (tied to the running router by engine `rcfg`).  Helper lemmas:
`Scion.Proofs.Resolve`.  Facts regenerated from the source: `Scion.Gen.RcfgPort`.
-/
namespace Scion.C11
open Scion.Resolve Scion.Util

/-! ### 1. the port derived from the packet -/

/-- UDP: the destination port (bytes 2..3 of a header of at least 8 bytes). -/
theorem udp_port (src dst : Nat) (rest : Bytes) (q : Quote) (hd : dst < 65536)
    (hl : 4 ≤ rest.length) :
    dstScionPort l4UDP (be16 src ++ be16 dst ++ rest) q = .ok dst :=
  Proofs.udp_port src dst rest q hd hl

/-- TCP counts like UDP (header of at least 20 bytes). -/
theorem tcp_port (src dst : Nat) (rest : Bytes) (q : Quote) (hd : dst < 65536)
    (hl : 16 ≤ rest.length) :
    dstScionPort l4TCP (be16 src ++ be16 dst ++ rest) q = .ok dst :=
  Proofs.tcp_port src dst rest q hd hl

/-- SCMP echo reply: the identifier. -/
theorem echo_reply_port (code c1 c2 : UInt8) (id : Nat) (rest : Bytes) (q : Quote)
    (hd : id < 65536) (hl : 2 ≤ rest.length) :
    dstScionPort l4SCMP ([129, code, c1, c2] ++ be16 id ++ rest) q = .ok id :=
  Proofs.echo_reply_port code c1 c2 id rest q hd hl

/-- SCMP traceroute reply: the identifier. -/
theorem traceroute_reply_port (code c1 c2 : UInt8) (id : Nat) (rest : Bytes) (q : Quote)
    (hd : id < 65536) (hl : 18 ≤ rest.length) :
    dstScionPort l4SCMP ([131, code, c1, c2] ++ be16 id ++ rest) q = .ok id :=
  Proofs.traceroute_reply_port code c1 c2 id rest q hd hl

/-- SCMP error (any of the five known types, with its complete type-specific header and a
non-empty quote): the port named by the quoted packet. -/
theorem scmp_error_port (t code c1 c2 : UInt8) (hdr quote : Bytes) (q : Quote)
    (ht : scmpErrHdrLen t.toNat = some hdr.length) (hq : quote ≠ []) :
    dstScionPort l4SCMP ([t, code, c1, c2] ++ hdr ++ quote) q = quotePort q :=
  Proofs.scmp_error_port t code c1 c2 hdr quote q ht hq

/-- … which is the quoted UDP source port (0 counts as truncated: the packet is dropped), or the
identifier of a quoted echo / traceroute request. -/
theorem quote_port :
    (∀ src, src ≠ 0 → quotePort (.udp src) = .ok src) ∧
    quotePort (.udp 0) = .error .port ∧
    (∀ id, quotePort (.scmp 128 (some id)) = .ok id) ∧
    (∀ id, quotePort (.scmp 130 (some id)) = .ok id) := by
  refine ⟨fun src h => by simp [quotePort, h], rfl, fun _ => rfl, fun _ => rfl⟩

/-- echo / traceroute *requests* and every other layer-4 protocol carry no port to dispatch on:
the default end-host port. -/
theorem default_port :
    (∀ code c1 c2 rest q, dstScionPort l4SCMP ([128, code, c1, c2] ++ rest) q = .ok endhostPort) ∧
    (∀ code c1 c2 rest q, dstScionPort l4SCMP ([130, code, c1, c2] ++ rest) q = .ok endhostPort) ∧
    (∀ proto pld q, proto ≠ l4UDP → proto ≠ l4TCP → proto ≠ l4SCMP →
      dstScionPort proto pld q = .ok endhostPort) := by
  refine ⟨fun _ _ _ _ _ => rfl, fun _ _ _ _ _ => rfl, fun proto pld q h1 h2 h3 => ?_⟩
  simp [dstScionPort, h1, h2, h3]

/-- the length guards of the Go code are sufficient for its slice accesses: whenever a guard lets
a header through, the 16-bit read behind it is in range (the model's `none` branches, which stand
for an index-out-of-range panic, are dead) -/
theorem guards_suffice (bs : Bytes) :
    (8 ≤ bs.length → (u16At bs 2).isSome = true) ∧      -- UDP (and TCP with 20)
    (4 ≤ bs.length → (u16At bs 0).isSome = true) :=     -- echo (and traceroute with 20)
  ⟨fun h => Proofs.u16At_isSome bs 2 (by omega), fun h => Proofs.u16At_isSome bs 0 (by omega)⟩

/-! ### 2. from the derived port to the underlay destination -/

/-- the redirect step: in range ⇒ unchanged, otherwise the redirect port -/
theorem apply_spec (r : Range) (p : Nat) :
    r.apply p = if r.start ≤ p ∧ p ≤ r.stop then p else r.redirect := by
  unfold Range.apply
  by_cases h : p < r.start ∨ p > r.stop
  · have : ¬ (r.start ≤ p ∧ p ≤ r.stop) := by omega
    simp [h, this]
  · have : r.start ≤ p ∧ p ≤ r.stop := by omega
    simp [h, this]

/-- **resolve_port_spec.** On a router whose internal link applies the range `[s, e]` with
redirect port 30041, a packet for a routable IP host from which the port `p` is derived is sent
to that host, to port `p` if `s ≤ p ≤ e` and to port 30041 otherwise. -/
theorem resolve_port_spec (c : Cfg) (s e : Nat) (bs : Bytes) (proto : Nat) (pld : Bytes)
    (q : Quote) (p : Nat)
    (hlink : c.link = some ⟨s, e, endhostPort⟩)
    (h4 : is4In6 bs = false) (hz : allZero bs = false)
    (hp : dstScionPort proto pld q = .ok p) :
    resolveLocalDst c (.ip bs) proto pld q =
      .ok [(bs, if s ≤ p ∧ p ≤ e then p else 30041)] := by
  simp [resolveLocalDst, hlink, hp, linkResolve, h4, hz, apply_spec, endhostPort]

/-- a packet whose port cannot be derived (truncated header, unsupported SCMP, …) is dropped,
never sent to a guessed port -/
theorem resolve_port_error (c : Cfg) (r : Range) (bs : Bytes) (proto : Nat) (pld : Bytes)
    (q : Quote) (err : Err) (hlink : c.link = some r)
    (hp : dstScionPort proto pld q = .error err) :
    resolveLocalDst c (.ip bs) proto pld q = .error err := by
  simp [resolveLocalDst, hlink, hp]

/-- the whole-range and empty-range cases: with `"all"` = `(1, 65535)` every port except 0 is
delivered directly; with `"-"` = `(0, 0)` only port 0 is. -/
theorem all_and_empty_range (p : Nat) (hp : p < 65536) :
    (Range.apply ⟨1, 65535, endhostPort⟩ p = if p = 0 then 30041 else p) ∧
    (Range.apply ⟨0, 0, endhostPort⟩ p = if p = 0 then 0 else 30041) := by
  constructor
  · rw [apply_spec]; by_cases h : p = 0
    · subst h; simp [endhostPort]
    · have : 1 ≤ p ∧ p ≤ 65535 := by omega
      simp [h, this]
  · rw [apply_spec]; by_cases h : p = 0
    · subst h; simp
    · have : ¬ (0 ≤ p ∧ p ≤ 0) := by omega
      simp [h, endhostPort]

/-! ### 3. service addresses -/

/-- **svc_spec.** A packet for a service address goes to a registered instance of that service
(multicast flag ignored): every candidate destination is the IP of an instance registered under
the base service number, with that instance's port subject to the same range rule; the packet's
own layer-4 content plays no role; without an instance the answer is `ErrNoSVCBackend`. -/
theorem svc_spec (c : Cfg) (r : Range) (v proto : Nat) (pld : Bytes) (q : Quote)
    (hlink : c.link = some r) :
    (∀ as, resolveLocalDst c (.svc v) proto pld q = .ok as →
       as ≠ [] ∧ ∀ a ∈ as, ∃ ip port, (svcBase v, ip, port) ∈ c.svcs ∧ a = (ip, r.apply port)) ∧
    ((∀ ip port, (svcBase v, ip, port) ∉ c.svcs) →
       resolveLocalDst c (.svc v) proto pld q = .error .noSvc) ∧
    (∀ proto' pld' q', resolveLocalDst c (.svc v) proto' pld' q' =
       resolveLocalDst c (.svc v) proto pld q) :=
  Proofs.svc_spec c r v proto pld q hlink

/-- a registered instance is a candidate: completeness of the lookup -/
theorem svc_complete (c : Cfg) (r : Range) (v proto : Nat) (pld : Bytes) (q : Quote)
    (ip : Bytes) (port : Nat) (hlink : c.link = some r) (hm : (svcBase v, ip, port) ∈ c.svcs) :
    ∃ as, resolveLocalDst c (.svc v) proto pld q = .ok as ∧ (ip, r.apply port) ∈ as :=
  Proofs.svc_complete c r v proto pld q ip port hlink hm

/-- registration: after `AddSvc` the instance is registered, after `DelSvc` it is not, other
instances are untouched (the table is a set) -/
theorem svc_table (c : Cfg) (svc : Nat) (ip : Bytes) (port : Nat) (hv : validSvcAddr ip = true)
    (hnd : c.svcs.Nodup) :
    (svc, ip, port) ∈ (step c (.addSvc svc ip port)).svcs ∧
    (svc, ip, port) ∉ (step c (.delSvc svc ip port)).svcs ∧
    (∀ x, x ≠ (svc, ip, port) →
      ((x ∈ (step c (.addSvc svc ip port)).svcs ↔ x ∈ c.svcs) ∧
       (x ∈ (step c (.delSvc svc ip port)).svcs ↔ x ∈ c.svcs))) ∧
    (step c (.addSvc svc ip port)).svcs.Nodup ∧ (step c (.delSvc svc ip port)).svcs.Nodup :=
  Proofs.svc_table c svc ip port hv hnd

/-! ### 4. the configured range is honoured whatever the configuration order -/

/-- **effective_range.** After *any* sequence of configuration calls (any interleaving, repeated
`SetPortRange`, repeated `AddInternalInterface`, …) that creates the internal link and sets the
range at least once, the range the internal link applies is the one asked for by the *last*
`SetPortRange`, with redirect port 30041. -/
theorem effective_range (ovStart ovStop : Option Nat) (cs : List Call) (s e : Nat)
    (hI : Call.addInternal ∈ cs) (hP : lastSet cs = some (s, e)) :
    (run (Cfg.init ovStart ovStop) cs).link = some (wanted ovStart ovStop s e) :=
  Proofs.effective_range ovStart ovStop cs s e hI hP

/-- **config_order_irrelevant.** Take the calls `ConfigDataplane` issues (one `SetPortRange(s, e)`,
`AddInternalInterface`, any number of other calls): for *every permutation* of them the internal
link ends up with the configured range. -/
theorem config_order_irrelevant (ovStart ovStop : Option Nat) (cs cs' : List Call) (s e : Nat)
    (hperm : cs.Perm cs')
    (hI : Call.addInternal ∈ cs)
    (hP : cs.filter Call.isSetPortRange = [.setPortRange s e]) :
    (run (Cfg.init ovStart ovStop) cs').link = some (wanted ovStart ovStop s e) :=
  Proofs.config_order_irrelevant ovStart ovStop cs cs' s e hperm hI hP

/-- the same for the whole observable behaviour: two orders of the same calls resolve every
packet for an IP host identically -/
theorem resolve_order_irrelevant (ovStart ovStop : Option Nat) (cs cs' : List Call) (s e : Nat)
    (hperm : cs.Perm cs') (hI : Call.addInternal ∈ cs)
    (hP : cs.filter Call.isSetPortRange = [.setPortRange s e])
    (bs : Bytes) (proto : Nat) (pld : Bytes) (q : Quote) :
    resolveLocalDst (run (Cfg.init ovStart ovStop) cs') (.ip bs) proto pld q =
    resolveLocalDst (run (Cfg.init ovStart ovStop) cs) (.ip bs) proto pld q := by
  have h1 := config_order_irrelevant ovStart ovStop cs cs' s e hperm hI hP
  have h2 := config_order_irrelevant ovStart ovStop cs cs s e (List.Perm.refl _) hI hP
  simp [resolveLocalDst, h1, h2, linkResolve]

/-- statement-level corollary: configured in any order with topology range `[s, e]` (no
override), a UDP packet for a routable IP host goes to its destination port if `s ≤ port ≤ e`
and to 30041 otherwise -/
theorem udp_delivery_any_order (cs cs' : List Call) (s e : Nat) (hperm : cs.Perm cs')
    (hI : Call.addInternal ∈ cs)
    (hP : cs.filter Call.isSetPortRange = [.setPortRange s e])
    (bs : Bytes) (h4 : is4In6 bs = false) (hz : allZero bs = false)
    (src dst : Nat) (rest : Bytes) (q : Quote) (hd : dst < 65536) (hl : 4 ≤ rest.length) :
    resolveLocalDst (run (Cfg.init none none) cs') (.ip bs) l4UDP
        (be16 src ++ be16 dst ++ rest) q =
      .ok [(bs, if s ≤ dst ∧ dst ≤ e then dst else 30041)] := by
  have h := config_order_irrelevant none none cs cs' s e hperm hI hP
  exact resolve_port_spec _ s e bs _ _ q dst (by simpa [wanted, override] using h) h4 hz
    (udp_port src dst rest q hd hl)

/-! ### 5. the topology's text form of the range -/

/-- `"-"` (and nothing) is the empty range `(0, 0)`, `"all"` is `(1, 65535)` -/
theorem range_text_special :
    validatePortRange [] = some (0, 0) ∧ validatePortRange ['-'] = some (0, 0) ∧
    validatePortRange ['a', 'l', 'l'] = some (1, 65535) ∧
    validatePortRange ['A', 'L', 'L'] = some (1, 65535) := by
  decide

/-- `"<a>-<b>"` with decimal digit strings: accepted iff `1 ≤ a ≤ b ≤ 65535`, and then it means
`[a, b]` -/
theorem range_text_spec (da db : List Char) (ha : da ≠ []) (hb : db ≠ [])
    (hda : da.all isDigit = true) (hdb : db.all isDigit = true) :
    validatePortRange (da ++ '-' :: db) =
      if 1 ≤ decVal da ∧ decVal da ≤ decVal db ∧ decVal db ≤ 65535
      then some (decVal da, decVal db) else none :=
  Proofs.range_text_spec da db ha hb hda hdb

/-! ### 6. facts regenerated from the source (T3) -/

/-- the default end-host port of the model is the constant of the code, and `topology.EndhostPort`
is still defined as that constant -/
theorem gen_endhost_port :
    Scion.Gen.RcfgPort.EndhostPort = endhostPort ∧
    Scion.Gen.RcfgPort.topologyEndhostPort = "underlay.EndhostPort" := by
  decide

/-- the redirect condition in the text of `internalLink.Resolve` is the one of the model
(`port < start || port > end`), for all values -/
theorem gen_redirect_cond (r : Range) (p : Nat) :
    r.apply p = if Scion.Gen.RcfgPort.redirectCond p r.start r.stop then r.redirect else p := by
  unfold Range.apply Scion.Gen.RcfgPort.redirectCond
  by_cases h1 : p < r.start <;> by_cases h2 : p > r.stop <;> simp [h1, h2]

/-- the propagation chain in the text of the source is the one `step` models:
`ConfigDataplane` → `Connector.SetPortRange` (override) → `dataPlane.SetPortRange` → every
provider's `SetDispatchPorts(start, end, EndhostPort)` → provider fields **and** the live internal
link; `NewInternalLink` copies the provider fields; `Resolve` replaces the port by the redirect
port and writes it into the packet's address; `resolveLocalDst` hands the derived port on. -/
theorem gen_propagation :
    open Scion.Gen.RcfgPort in
    configDataplaneCalls = [["dp.SetPortRange", "cfg.Topo.PortRange()"]] ∧
    connectorSetPortRangeParams = ["start", "end"] ∧
    connectorOverrides = [("c.DispatchedPortStart != nil", "start = uint16(*c.DispatchedPortStart)"),
                          ("c.DispatchedPortEnd != nil", "end = uint16(*c.DispatchedPortEnd)")] ∧
    connectorCalls = [["c.DataPlane.SetPortRange", "start", "end"]] ∧
    setPortRangeParams = ["start", "end"] ∧
    setPortRangeAssigns = [("d.dispatchedPortStart", "start"), ("d.dispatchedPortEnd", "end")] ∧
    setPortRangeLoops = ["u in d.underlays"] ∧
    setPortRangeLoopCalls = [["u.SetDispatchPorts", "start", "end", "topology.EndhostPort"]] ∧
    setDispatchPortsParams = ["start", "end", "redirect"] ∧
    setDispatchPortsAssigns =
      [("u.dispatchStart", "start"), ("u.dispatchEnd", "end"), ("u.dispatchRedirect", "redirect"),
       ("c", "u.internalConnection"),
       ("il.dispatchStart", "start"), ("il.dispatchEnd", "end"), ("il.dispatchRedirect", "redirect")] ∧
    newInternalLinkInit =
      [("dispatchStart", "u.dispatchStart"), ("dispatchEnd", "u.dispatchEnd"),
       ("dispatchRedirect", "u.dispatchRedirect")] ∧
    redirectAssign = [("port", "l.dispatchRedirect")] ∧
    resolveUDPAddr = [("IP", "dstAddr.AsSlice()"), ("Zone", "dstAddr.Zone()"), ("Port", "int(port)")] ∧
    resolveLocalDstCalls = [["d.interfaces[packet.egress].Resolve", "packet", "a", "p"]] := by
  decide

/-! ### non-vacuity -/

/-- the hypotheses are satisfiable: the order the real start-up uses (range last) is a permutation
of the order the unit tests use (range first); with the recommended transition range, port 80
goes to 30041 and port 31500 is delivered directly -/
example :
    resolveLocalDst
      (run (Cfg.init none none)
        [Call.setKey, .addInternal, .addExternal, .addSibling, .setPortRange 31000 32767])
      (.ip [10, 0, 0, 7]) l4UDP (be16 4242 ++ be16 80 ++ [0, 8, 0, 0]) .other
      = .ok [([10, 0, 0, 7], 30041)] ∧
    resolveLocalDst
      (run (Cfg.init none none)
        [Call.setKey, .addInternal, .addExternal, .addSibling, .setPortRange 31000 32767])
      (.ip [10, 0, 0, 7]) l4UDP (be16 4242 ++ be16 31500 ++ [0, 8, 0, 0]) .other
      = .ok [([10, 0, 0, 7], 31500)] := by
  have hperm : [Call.setPortRange 31000 32767, .addInternal, .setKey, .addExternal, .addSibling].Perm
      [Call.setKey, .addInternal, .addExternal, .addSibling, .setPortRange 31000 32767] := by
    decide
  have h := fun dst hd => udp_delivery_any_order _ _ 31000 32767 hperm (by decide) (by decide)
    [10, 0, 0, 7] (by decide) (by decide) 4242 dst [0, 8, 0, 0] .other hd (by decide)
  exact ⟨by simpa using h 80 (by decide), by simpa using h 31500 (by decide)⟩

example : (run (Cfg.init none none) [.setPortRange 31000 32767, .addInternal]).link =
    (run (Cfg.init none none) [.addInternal, .setPortRange 31000 32767]).link := by decide

example : validatePortRange ['3', '1', '0', '0', '0', '-', '3', '2', '7', '6', '7'] =
    some (31000, 32767) := by decide

end Scion.C11
