import Scion.Proofs.RouterProcess
import Scion.Proofs.RouterExamples
import Scion.Gen.Router1
/-!
# C01 — Routers forward only along unexpired hop fields issued by their own AS

Property theorems only. Model: `Scion.Model.Router` (`processPkt` = decoder + `process`, tied to
`router/dataplane.go` by `harness/cmd/router`: real output bytes, disposition, SCMP type/code/
pointer compared on every generated packet, MACs by a real AES-CMAC). `mac` is a parameter:
every theorem holds for all keyed functions, all configurations, all packets, all times.
-/
namespace Scion.C01
open Scion.Util Scion.Router
open Scion.PathMeta hiding Info

/-- hop field `hop`, taken with info field `inf`, carries the MAC the AS key yields for
(SegID, timestamp, expiry, interface pair) and has not expired at `now` -/
def HopValid (mac : Mac) (key : Bytes) (now : Nat) (inf : Info) (hop : Hop) : Prop :=
  hop.mac = (mac key (macInput inf.segID inf.ts hop.exp hop.consIn hop.consEg)).take 6 ∧
  now ≤ inf.ts * 1000000000 + (hop.exp + 1) * expUnitNs

theorem hopValid_iff (mac : Mac) (key : Bytes) (now : Nat) (inf : Info) (hop : Hop) :
    HopValid mac key now inf hop ↔ (macOk mac key inf hop = true ∧ unexpired now inf hop = true) := by
  unfold HopValid macOk unexpired
  simp

/-- the segment-identifier accumulator the current hop is verified against: the SegID as
carried, except on an external ingress against construction direction off a peering hop, where
the ingress router first XORs in the first two MAC bytes -/
def accInfo (ing : Ingress) (inf : Info) (hop : Hop) (peering : Bool) : Info :=
  if ingressUpdates ing inf peering then updSegID inf hop else inf

/-- the current hop field and its info field, as they sit in the received packet -/
structure Current (h : Hd) (pm : Hdr) (raw : Bytes) (hop : Hop) (inf : Info) (peering : Bool) : Prop where
  hhop : getHop h raw pm.currHF = some hop
  hinf : getInfo h raw pm.currINF = some inf
  hpeer : determinePeer pm inf = some peering

/-- the effective cross-over condition of the received packet -/
def Crosses (cfg : Cfg) (h : Hd) (pm : Hdr) (peering : Bool) : Prop :=
  h.dstIA ≠ cfg.localIA ∧ isXover (base h pm) = true ∧ peering = false

/-- **C01 (current hop).** A packet is forwarded or delivered only if its current hop field is
valid under the AS key for the accumulator / timestamp / expiry / interfaces it carries, and
unexpired. -/
theorem current_hop_valid (cfg : Cfg) (mac : Mac) (resolve : Cfg → Hd → ResolveOut) (now : Nat)
    (ing : Ingress) (h : Hd) (pm : Hdr) (raw : Bytes)
    (hacc : (process cfg mac resolve now ing h pm raw).1.accepting = true) :
    ∃ hop inf peering, Current h pm raw hop inf peering ∧
      HopValid mac cfg.key now (accInfo ing inf hop peering) hop := by
  obtain ⟨s0, s1, p⟩ := process_accepting_inv hacc
  have a := stParse_ok p.parse
  have b := stSegID_ok p.segid
  have c := stValidate1_ok p.val
  have d := stMac_ok p.macst
  refine ⟨s0.hop, s0.inf, s0.peering, ⟨a.hop, a.inf, a.peer⟩, ?_⟩
  rw [hopValid_iff]
  unfold accInfo
  rw [← b.inf, ← b.hop]
  exact ⟨d.2, c.2.1⟩

/-- what `incPath` does when it succeeds -/
theorem incPath_ok {b b' : Base} (e : incPath b = .ok b') :
    b'.pm.currHF = b.pm.currHF + 1 ∧ b'.pm.currINF = infIdx b.pm (b.pm.currHF + 1) ∧
    b'.pm.s0 = b.pm.s0 ∧ b'.pm.s1 = b.pm.s1 ∧ b'.pm.s2 = b.pm.s2 := by
  unfold incPath at e
  split at e
  · cases e
  · split at e
    · cases e
    · cases e; exact ⟨rfl, rfl, rfl, rfl, rfl⟩

/-- **C01 (cross-over).** If the packet is forwarded across an effective segment cross-over,
the first hop field of the next segment — read from the received packet, with its own info
field — is valid and unexpired as well. -/
theorem xover_next_hop_valid (cfg : Cfg) (mac : Mac) (resolve : Cfg → Hd → ResolveOut) (now : Nat)
    (ing : Ingress) (h : Hd) (pm : Hdr) (raw : Bytes)
    (hacc : (process cfg mac resolve now ing h pm raw).1.accepting = true)
    (hop : Hop) (inf : Info) (peering : Bool) (cur : Current h pm raw hop inf peering)
    (hx : Crosses cfg h pm peering) :
    ∃ hop2 inf2, getHop h raw (pm.currHF + 1) = some hop2 ∧
      getInfo h raw (infIdx pm (pm.currHF + 1)) = some inf2 ∧
      HopValid mac cfg.key now inf2 hop2 := by
  obtain ⟨s0, s1, p⟩ := process_accepting_inv hacc
  have a := stParse_ok p.parse
  have b := stSegID_ok p.segid
  rw [process_of_passed p] at hacc
  obtain ⟨hdst, hxo, hpeer⟩ := hx
  have hpe : s0.peering = peering := by
    have h1 := a.peer; have h2 := cur.hpeer
    have : s0.inf = inf := by have := a.inf; rw [cur.hinf] at this; cases this; rfl
    rw [this, h2] at h1; cases h1; rfl
  unfold tail at hacc
  have hd : (h.dstIA == cfg.localIA) = false := by simpa using hdst
  simp only [hd] at hacc
  obtain ⟨s5, l, o⟩ := outbound_accepting_inv hacc
  have x := stXover_ok o.xo
  have hdx : doesXover h s1 = true := by
    unfold doesXover
    rw [b.hpm, a.hpm, b.peering, hpe, hpeer, hxo]; rfl
  obtain ⟨b', hinc, hpm', hbuf, hh2, hi2, hexp, hmac, _⟩ := x.yes hdx
  rw [b.hpm, a.hpm] at hinc
  obtain ⟨e1, e2, _, _, _⟩ := incPath_ok hinc
  simp only [base] at e1 e2
  -- bounds from the successful reads
  have bi := getInfo_some_bound a.inf
  have hlen : s1.buf.length = raw.length := by
    rw [b.buf, a.buf]
    split
    · rw [a.hpm]; exact length_setInfo h raw pm.currINF _ bi.2
    · rfl
  have hmeta : h.pathOff + 4 ≤ s1.buf.length := by
    have := pathOff_le_infoOff h pm.currINF; omega
  -- the cross-over condition says the next info field is another one
  have hne : infIdx pm (pm.currHF + 1) ≠ pm.currINF := by
    unfold isXover base at hxo
    simp at hxo
    intro hc
    exact hxo.2 hc.symm
  refine ⟨s5.hop, s5.inf, ?_, ?_, ?_⟩
  · rw [getHop_setMeta h s1.buf b'.pm hmeta, e1] at hh2
    rw [← hh2, b.buf, a.buf]
    split
    · rw [a.hpm]; exact (getHop_setInfo h raw pm.currINF _ bi.1 bi.2 _).symm
    · rfl
  · rw [getInfo_setMeta h s1.buf b'.pm hmeta, e2] at hi2
    rw [← hi2, b.buf, a.buf]
    split
    · rw [a.hpm]; exact (getInfo_setInfo_ne h raw pm.currINF _ bi.2 _ hne).symm
    · rfl
  · rw [hopValid_iff]; exact ⟨hmac, hexp⟩

/-- a stage that answers with an error never accepts: restated for the two checks of C01.
**Expired hop**: once the path header is well formed (`stParse` succeeds) an expired current
hop is answered with SCMP ParameterProblem / PathExpired whose pointer is the offset of that hop
field — whatever else is wrong with the packet. -/
theorem expired_answer (cfg : Cfg) (mac : Mac) (resolve : Cfg → Hd → ResolveOut) (now : Nat)
    (ing : Ingress) (h : Hd) (pm : Hdr) (raw : Bytes) (s0 : St)
    (hp : stParse h pm raw = .ok s0) (hx : unexpired now s0.inf s0.hop = false) :
    (process cfg mac resolve now ing h pm raw).1 = .slow PP cExpired (hopOff h pm.currHF) := by
  have a := stParse_ok hp
  have bi := getInfo_some_bound a.inf
  unfold process
  simp only [hp]
  cases e1 : stSegID h ing s0 with
  | error r =>
    exfalso
    unfold stSegID at e1
    rw [a.hpm, a.buf] at e1
    simp only [bi.1, if_true, wrInfo_of_le bi.2] at e1
    split at e1 <;> cases e1
  | ok s1 =>
    have b := stSegID_ok e1
    have hx1 : unexpired now s1.inf s1.hop = false := by
      rw [b.inf, b.hop]
      split
      · exact hx
      · exact hx
    simp only [stValidate1_expired hx1]
    rw [b.hpm, a.hpm]; rfl

/-- **Invalid MAC**: if every earlier check passes and the MAC of the current hop does not
verify, the answer is SCMP ParameterProblem / InvalidHopFieldMAC pointing at that hop field. -/
theorem bad_mac_answer (cfg : Cfg) (mac : Mac) (resolve : Cfg → Hd → ResolveOut) (now : Nat)
    (ing : Ingress) (h : Hd) (pm : Hdr) (raw : Bytes) (s0 s1 : St)
    (hp : stParse h pm raw = .ok s0) (hs : stSegID h ing s0 = .ok s1)
    (hv : stValidate1 h now ing s1 = .ok s1) (ht : stTransit cfg h ing s1 = .ok s1)
    (hd : stSrcDst cfg h ing s1 = .ok s1)
    (hbad : macOk mac cfg.key (accInfo ing s0.inf s0.hop s0.peering) s0.hop = false) :
    (process cfg mac resolve now ing h pm raw).1 = .slow PP cBadMac (hopOff h pm.currHF) := by
  have a := stParse_ok hp
  have b := stSegID_ok hs
  have hb : macOk mac cfg.key s1.inf s1.hop = false := by
    rw [b.inf, b.hop]; exact hbad
  unfold process
  simp only [hp, hs, hv, ht, hd, stMac_bad hb]
  rw [b.hpm, a.hpm]; rfl

/-- the second pair of checks, after the cross-over: an expired / wrongly MACed first hop of the
next segment is answered with PathExpired / InvalidHopFieldMAC pointing at *that* hop field -/
theorem xover_bad_answer (cfg : Cfg) (mac : Mac) (h : Hd) (now : Nat) (s : St) (b' : Base)
    (hop2 : Hop) (inf2 : Info)
    (hx : doesXover h s = true) (hinc : incPath (base h s.pm) = .ok b')
    (hb : h.pathOff + 4 ≤ s.buf.length)
    (hh : getHop h (setMeta h s.buf b'.pm) b'.pm.currHF = some hop2)
    (hi : getInfo h (setMeta h s.buf b'.pm) b'.pm.currINF = some inf2)
    (hbad : ¬ HopValid mac cfg.key now inf2 hop2) :
    ∃ code, (code = cExpired ∨ code = cBadMac) ∧
      (stXover cfg mac h now s) = .error (.slow PP code (hopOff h (s.pm.currHF + 1)), setMeta h s.buf b'.pm) := by
  have e := (incPath_ok hinc).1
  simp only [base] at e
  unfold stXover
  simp only [hx, if_true, hinc, wrMeta_of_le hb, readHop_of_get hh, readInfo_of_get hi]
  rw [hopValid_iff] at hbad
  cases he : unexpired now inf2 hop2
  · exact ⟨cExpired, Or.inl rfl, by simp [hopPtr, e]⟩
  · cases hm : macOk mac cfg.key inf2 hop2
    · exact ⟨cBadMac, Or.inr rfl, by simp [hopPtr, e]⟩
    · exact absurd ⟨hm, he⟩ hbad

/-- an invalid or expired current hop is never forwarded or delivered (contrapositive form) -/
theorem invalid_never_forwarded (cfg : Cfg) (mac : Mac) (resolve : Cfg → Hd → ResolveOut) (now : Nat)
    (ing : Ingress) (h : Hd) (pm : Hdr) (raw : Bytes) (hop : Hop) (inf : Info) (peering : Bool)
    (cur : Current h pm raw hop inf peering)
    (hbad : ¬ HopValid mac cfg.key now (accInfo ing inf hop peering) hop) :
    (process cfg mac resolve now ing h pm raw).1.accepting = false := by
  cases hacc : (process cfg mac resolve now ing h pm raw).1.accepting
  · rfl
  · obtain ⟨hop', inf', peering', cur', hv⟩ := current_hop_valid cfg mac resolve now ing h pm raw hacc
    have e1 : hop' = hop := by have := cur'.hhop; rw [cur.hhop] at this; cases this; rfl
    have e2 : inf' = inf := by have := cur'.hinf; rw [cur.hinf] at this; cases this; rfl
    subst e1 e2
    have e3 : peering' = peering := by have := cur'.hpeer; rw [cur.hpeer] at this; cases this; rfl
    subst e3
    exact absurd hv hbad

/-- **peering hops.** On either hop field of a peering link traversal (`determinePeer` = true:
the last hop of the first segment or the first hop of the second, Peer flag set) the router
performs no SegID update and no cross-over: an accepted packet's peering hop field verifies
under the AS key for the SegID exactly as carried, and is unexpired. -/
theorem peering_hop_valid (cfg : Cfg) (mac : Mac) (resolve : Cfg → Hd → ResolveOut) (now : Nat)
    (ing : Ingress) (h : Hd) (pm : Hdr) (raw : Bytes) (hop : Hop) (inf : Info)
    (cur : Current h pm raw hop inf true)
    (hacc : (process cfg mac resolve now ing h pm raw).1.accepting = true) :
    HopValid mac cfg.key now inf hop ∧ ¬ Crosses cfg h pm true := by
  obtain ⟨hop', inf', peering', cur', hv⟩ := current_hop_valid cfg mac resolve now ing h pm raw hacc
  have e1 : hop' = hop := by have := cur'.hhop; rw [cur.hhop] at this; cases this; rfl
  have e2 : inf' = inf := by have := cur'.hinf; rw [cur.hinf] at this; cases this; rfl
  subst e1 e2
  have e3 : peering' = true := by have := cur'.hpeer; rw [cur.hpeer] at this; cases this; rfl
  subst e3
  refine ⟨?_, fun hc => by simp [Crosses] at hc⟩
  have : accInfo ing inf' hop' true = inf' := by simp [accInfo, ingressUpdates]
  rw [this] at hv
  exact hv

/-- the regular (non-peering) hops of a path that carries the Peer flag are treated like any
other hop: accumulator rule as usual -/
theorem peering_path_regular_hop (cfg : Cfg) (mac : Mac) (resolve : Cfg → Hd → ResolveOut) (now : Nat)
    (ing : Ingress) (h : Hd) (pm : Hdr) (raw : Bytes) (hop : Hop) (inf : Info)
    (cur : Current h pm raw hop inf false) (_hpeer : inf.peer = true)
    (hacc : (process cfg mac resolve now ing h pm raw).1.accepting = true) :
    HopValid mac cfg.key now (accInfo ing inf hop false) hop := by
  obtain ⟨hop', inf', peering', cur', hv⟩ := current_hop_valid cfg mac resolve now ing h pm raw hacc
  have e1 : hop' = hop := by have := cur'.hhop; rw [cur.hhop] at this; cases this; rfl
  have e2 : inf' = inf := by have := cur'.hinf; rw [cur.hinf] at this; cases this; rfl
  subst e1 e2
  have e3 : peering' = false := by have := cur'.hpeer; rw [cur.hpeer] at this; cases this; rfl
  subst e3
  exact hv

/-- **delivery.** A packet is delivered to `(kind, host, port)` only if — besides the valid,
unexpired hop field — its destination is the local AS, it came from another AS at its last hop,
and the destination resolution (`resolveLocalDst`, property C11) returned exactly that
address. -/
theorem deliver_resolution (cfg : Cfg) (mac : Mac) (resolve : Cfg → Hd → ResolveOut) (now : Nat)
    (ing : Ingress) (h : Hd) (pm : Hdr) (raw : Bytes) (k : Nat) (host : Bytes) (port : Nat)
    (hd : (process cfg mac resolve now ing h pm raw).1 = .deliver k host port) :
    h.dstIA = cfg.localIA ∧ resolve cfg h = .ok k host port ∧ ing.ifID ≠ 0 ∧
    isLastHop (base h pm) = true := by
  have hacc : (process cfg mac resolve now ing h pm raw).1.accepting = true := by rw [hd]; rfl
  obtain ⟨s0, s1, p⟩ := process_accepting_inv hacc
  have a := stParse_ok p.parse
  have b := stSegID_ok p.segid
  have c := (stSrcDst_ok p.srcdst).2
  rw [process_of_passed p] at hd hacc
  unfold tail at hd hacc
  by_cases hdst : h.dstIA = cfg.localIA
  · simp only [hdst, beq_self_eq_true, if_true] at hd
    have hres : resolve cfg h = .ok k host port := by
      unfold inbound at hd
      cases hr : resolve cfg h <;> simp [hr] at hd
      obtain ⟨h1, h2, h3⟩ := hd
      subst h1 h2 h3; rfl
    have hext : ing.ifID ≠ 0 := fun h0 => c.intDst h0 hdst
    have hl := (c.extDst hext).mpr hdst
    rw [b.hpm, a.hpm] at hl
    exact ⟨hdst, hres, hext, hl⟩
  · have hb : (h.dstIA == cfg.localIA) = false := by simpa using hdst
    simp only [hb, Bool.false_eq_true, if_false] at hd hacc
    obtain ⟨s5, l, o⟩ := outbound_accepting_inv hacc
    have := o.disp
    rw [hd] at this
    cases this

/-- **C01 on raw packets**: whatever bytes arrive, on whatever link, under whatever
configuration and key: accepted ⇒ the packet decodes to a SCION-path packet whose current hop
field (and, at an effective cross-over, the next segment's first hop field) is valid and
unexpired. -/
theorem forward_or_deliver_mac_valid (cfg : Cfg) (mac : Mac) (resolve : Cfg → Hd → ResolveOut)
    (now : Nat) (ing : Ingress) (raw : Bytes)
    (hacc : (processPkt cfg mac resolve now ing raw).1.accepting = true) :
    ∃ h pm hop inf peering, parse raw = .ok h pm ∧ Current h pm raw hop inf peering ∧
      HopValid mac cfg.key now (accInfo ing inf hop peering) hop ∧
      (Crosses cfg h pm peering →
        ∃ hop2 inf2, getHop h raw (pm.currHF + 1) = some hop2 ∧
          getInfo h raw (infIdx pm (pm.currHF + 1)) = some inf2 ∧
          HopValid mac cfg.key now inf2 hop2) := by
  unfold processPkt at hacc
  split at hacc
  · simp [Disp.accepting] at hacc
  · simp [Disp.accepting] at hacc
  · rename_i h pm hp
    obtain ⟨hop, inf, peering, cur, hv⟩ := current_hop_valid cfg mac resolve now ing h pm raw hacc
    exact ⟨h, pm, hop, inf, peering, hp, cur, hv,
      fun hx => xover_next_hop_valid cfg mac resolve now ing h pm raw hacc hop inf peering cur hx⟩

/-! ### non-vacuity: concrete packets meet the hypotheses (toy MAC = identity on the input) -/

/-- a first-hop packet from a local host is forwarded … -/
example : (processPkt Ex.cfg Ex.idMac resolveLocal Ex.now ⟨0, 0⟩ Ex.firstHop).1 = .forward 2 := by decide

/-- … a packet at its last hop is delivered … -/
example : (processPkt Ex.cfg Ex.idMac resolveLocal Ex.now ⟨1, 10⟩ Ex.lastHop).1.accepting = true := by
  decide

/-- … and a packet is forwarded across an effective cross-over (`Crosses` holds of it) -/
example : (processPkt Ex.cfg Ex.idMac resolveLocal Ex.now ⟨1, 10⟩ Ex.xover).1 = .forward 2 ∧
    ∃ h pm, parse Ex.xover = .ok h pm ∧ Crosses Ex.cfg h pm false := by
  refine ⟨by decide, _, _, rfl, by decide, by decide, rfl⟩

/-- the same packet with one MAC bit flipped is answered with InvalidHopFieldMAC at hop 1 -/
example : (processPkt Ex.cfg Ex.idMac resolveLocal Ex.now ⟨1, 10⟩ (Ex.xover.set 76 1)).1 =
    .slow PP cBadMac 68 := by decide

/-! ### T3: the model was written against the code's current structure -/

/-- the stages of the model are the checks `process` calls, in the same order -/
theorem stage_order : Scion.Gen.Router1.processCalls = Router.processCallOrder := rfl

/-- the SCMP requests of the two checks of C01 -/
theorem scmp_requests :
    Scion.Gen.Router1.req_validateHopExpiry =
      ["slowPathType(slayers.SCMPTypeParameterProblem)|slayers.SCMPCodePathExpired|p.currentHopPointer()"] ∧
    Scion.Gen.Router1.req_verifyCurrentMAC =
      ["slowPathType(slayers.SCMPTypeParameterProblem)|slayers.SCMPCodeInvalidHopFieldMAC|p.currentHopPointer()"] ∧
    Scion.Gen.Router1.expr_currentHopPointer =
      "uint16(slayers.CmnHdrLen + p.scionLayer.AddrHdrLen() + p.epicHdrLen() + scion.MetaLen + path.InfoLen*p.path.NumINF + path.HopLen*int(p.path.PathMeta.CurrHF))" ∧
    Scion.Gen.Router1.expr_currentInfoPointer =
      "uint16(slayers.CmnHdrLen + p.scionLayer.AddrHdrLen() + p.epicHdrLen() + scion.MetaLen + path.InfoLen*int(p.path.PathMeta.CurrINF))" :=
  ⟨rfl, rfl, rfl, rfl⟩

/-- `epicHdrLen()` as the model has it: `epic.MetadataLen` iff the path type is EPIC, else 0 -/
theorem epic_hdr_len_fact :
    Scion.Gen.Router1.conds_epicHdrLen = ["p.scionLayer.PathType == epic.PathType"] ∧
    Scion.Gen.Router1.rets_epicHdrLen = ["epic.MetadataLen", "0"] ∧
    Router.epicPathType = Scion.Gen.Router1.EpicPathType ∧
    Router.scionPathType = Scion.Gen.Router1.ScionPathType ∧
    Router.epicHdrLen Router.epicPathType = Scion.Gen.Router1.EpicMetadataLen :=
  ⟨rfl, rfl, rfl, rfl, rfl⟩

/-- for the SCION path type — the only one this model accepts — the EPIC term of the pointer
expressions is 0 -/
theorem epic_term_zero : Router.epicHdrLen Router.scionPathType = 0 := rfl

/-- the model decodes a packet only if its path type byte is the SCION path type -/
theorem parse_ok_scion_path (raw : Bytes) (h : Hd) (pm : Hdr) (e : parse raw = .ok h pm) :
    ∃ pt, raw[8]? = some pt ∧ pt.toNat = Router.scionPathType := by
  unfold parse at e
  split at e
  · rename_i x0 x1 x2 x3 nh hl pl0 pl1 pt ty x10 x11 rest
    dsimp only at e
    split at e
    · cases e
    · rename_i c0
      exact ⟨pt, rfl, by simpa [Router.scionPathType] using c0⟩
  · cases e

/-- the constants of the model are the code's -/
theorem gen_consts :
    Router.PP = Scion.Gen.Router1.SCMPTypeParameterProblem ∧
    Router.cBadMac = Scion.Gen.Router1.SCMPCodeInvalidHopFieldMAC ∧
    Router.cExpired = Scion.Gen.Router1.SCMPCodePathExpired ∧
    Router.CmnHdrLen = Scion.Gen.Router1.CmnHdrLen ∧ Router.MetaLen = Scion.Gen.Router1.MetaLen ∧
    Router.InfoLen = Scion.Gen.Router1.InfoLen ∧ Router.HopLen = Scion.Gen.Router1.HopLen ∧
    Scion.Gen.Router1.MacLen = 6 ∧ Scion.Gen.Router1.MACBufferSize = 16 := by decide

/-- the SCMP pointer of both answers is the byte offset of the offending hop field:
`CmnHdrLen + AddrHdrLen + epicHdrLen + MetaLen + InfoLen·NumINF + HopLen·idx`, the EPIC term being
0 for the SCION path type (`h.pathOff = CmnHdrLen + AddrHdrLen`) -/
theorem pointer_formula (h : Hd) (idx : Nat) :
    hopOff h idx = h.pathOff + Router.epicHdrLen Router.scionPathType + Scion.Gen.Router1.MetaLen +
      Scion.Gen.Router1.InfoLen * h.numINF + Scion.Gen.Router1.HopLen * idx := by
  unfold hopOff epicHdrLen scionPathType epicPathType
  rfl

end Scion.C01
