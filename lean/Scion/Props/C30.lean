import Scion.Model.Pather
/-!
# C30 — Paths handed to applications are live, unrevoked and end at the destination

Property theorems only.  Model: `Scion.Model.Pather` (`Pather.GetPaths` with `buildAllPaths`,
`findDestinations`, `filterRevoked`, `translatePaths`; `MultiSegmentSplitter.Split`), tied to
`private/segment/segfetcher` by `harness/cmd/pather` (real pather, combinator, revocation cache
and splitter).  The combinator is a parameter of the model: the theorems hold for **every**
`combine`; the end-point clause uses the combinator's contract `CombineEnds` (C28's subject).
-/
namespace Scion.C30
open Scion.Pather

/-! ### the lookup -/

/-- **a lookup for the local AS yields exactly one empty path** (the result `localPath` stands
for the single path without interfaces that `GetPaths` builds), whatever the stores contain -/
theorem local_lookup (inp : Input) (h0 : inp.localIA.isd ≠ 0) (hl : inp.dst = inp.localIA) :
    getPaths inp = .localPath := by
  unfold getPaths
  rw [if_neg (by rw [hl]; exact h0), if_pos hl]

/-- … and only such a lookup does -/
theorem localPath_iff (inp : Input) :
    getPaths inp = .localPath ↔ inp.dst.isd ≠ 0 ∧ inp.dst = inp.localIA := by
  unfold getPaths
  constructor
  · intro h
    split at h
    · cases h
    · rename_i h0
      split at h
      · rename_i hl; exact ⟨h0, hl⟩
      · split at h
        · cases h
        · dsimp only at h
          split at h
          · split at h <;> cases h
          · split at h
            · cases h
            · split at h <;> cases h
  · rintro ⟨h0, hl⟩
    rw [if_neg h0, if_pos hl]

/-- inversion of a successful lookup: the result is the list of candidates (combinator paths to
the destinations that are live and unrevoked) whose first hop is routable -/
theorem paths_inv (inp : Input) (ps : List CPath) (h : getPaths inp = .paths ps) :
    inp.dst.isd ≠ 0 ∧ inp.dst ≠ inp.localIA ∧ inp.splitErr = false ∧
    ps = (candidates inp).filter (fun p => routable inp p == some true) ∧ ps ≠ [] := by
  unfold getPaths at h
  split at h
  · cases h
  rename_i h0
  split at h
  · cases h
  rename_i hl
  split at h
  · cases h
  rename_i hs
  dsimp only at h
  split at h
  · split at h <;> cases h
  split at h
  · cases h
  split at h
  · cases h
  · rename_i hne
    cases h
    exact ⟨h0, hl, by simpa using hs, rfl, fun he => hne he⟩

theorem mem_candidates (inp : Input) (p : CPath) :
    p ∈ candidates inp ↔
      (∃ d ∈ destinations inp, p ∈ inp.combine d) ∧ p.expiry > inp.now ∧
      ∀ i ∈ p.ifs, i ∉ inp.revoked := by
  unfold candidates isRevoked
  simp only [List.mem_filter, List.mem_flatMap, decide_eq_true_eq, Bool.not_eq_true',
    List.any_eq_false, List.contains_eq_mem, and_assoc]

/-- **has not expired**: every returned path expires strictly after `now` -/
theorem paths_live (inp : Input) (ps : List CPath) (h : getPaths inp = .paths ps) :
    ∀ p ∈ ps, p.expiry > inp.now := by
  obtain ⟨_, _, _, hps, _⟩ := paths_inv inp ps h
  intro p hp
  rw [hps, List.mem_filter] at hp
  exact ((mem_candidates inp p).1 hp.1).2.1

/-- **traverses no interface with an active revocation** -/
theorem paths_unrevoked (inp : Input) (ps : List CPath) (h : getPaths inp = .paths ps) :
    ∀ p ∈ ps, ∀ i ∈ p.ifs, i ∉ inp.revoked := by
  obtain ⟨_, _, _, hps, _⟩ := paths_inv inp ps h
  intro p hp
  rw [hps, List.mem_filter] at hp
  exact ((mem_candidates inp p).1 hp.1).2.2

/-- the destinations the combinator is asked for: the requested ISD-AS itself, or for an ISD
wildcard the first ASes of the core segments (plus, inside the own ISD, of the up segments) -/
theorem destinations_spec (inp : Input) (d : IA) :
    d ∈ destinations inp ↔
      (inp.dst.isWildcard = false ∧ d = inp.dst) ∨
      (inp.dst.isWildcard = true ∧
        (d ∈ inp.coreFirst ∨ (inp.dst.isd = inp.localIA.isd ∧ d ∈ inp.upFirst))) := by
  unfold destinations
  cases hw : inp.dst.isWildcard
  · simp
  · by_cases hi : inp.dst.isd = inp.localIA.isd <;> simp [hi, List.mem_eraseDups]

/-- contract of the path combinator (C28/C29): a path combined for `(src, d)` starts with an
interface of `src` and ends with an interface of `d` -/
def CombineEnds (inp : Input) : Prop :=
  ∀ d p, p ∈ inp.combine d →
    (p.ifs.head?.map (·.1)) = some inp.localIA ∧ (p.ifs.getLast?.map (·.1)) = some d

/-- **starts at the local AS, ends at the requested ISD-AS (for an ISD wildcard, at one of the
core-segment / up-segment origin ASes, i.e. a core AS of that ISD)**; every returned path is one
the combinator produced for such a destination -/
theorem paths_endpoints (inp : Input) (ps : List CPath) (hc : CombineEnds inp)
    (h : getPaths inp = .paths ps) :
    ∀ p ∈ ps, ∃ d ∈ destinations inp, p ∈ inp.combine d ∧
      (p.ifs.head?.map (·.1)) = some inp.localIA ∧ (p.ifs.getLast?.map (·.1)) = some d ∧
      (inp.dst.isWildcard = false → d = inp.dst) := by
  obtain ⟨_, _, _, hps, _⟩ := paths_inv inp ps h
  intro p hp
  rw [hps, List.mem_filter] at hp
  obtain ⟨⟨d, hd, hpd⟩, _, _⟩ := (mem_candidates inp p).1 hp.1
  obtain ⟨h1, h2⟩ := hc d p hpd
  refine ⟨d, hd, hpd, h1, h2, ?_⟩
  intro hw
  rcases (destinations_spec inp d).1 hd with ⟨_, he⟩ | ⟨hw', _⟩
  · exact he
  · rw [hw] at hw'; cases hw'

/-- nothing else is dropped: every combinator path to a destination that is live, unrevoked and
whose first hop is routable is returned -/
theorem paths_complete (inp : Input) (ps : List CPath) (h : getPaths inp = .paths ps)
    (d : IA) (hd : d ∈ destinations inp) (p : CPath) (hp : p ∈ inp.combine d)
    (hlive : p.expiry > inp.now) (hrev : ∀ i ∈ p.ifs, i ∉ inp.revoked)
    (hr : routable inp p = some true) : p ∈ ps := by
  obtain ⟨_, _, _, hps, _⟩ := paths_inv inp ps h
  rw [hps, List.mem_filter]
  exact ⟨(mem_candidates inp p).2 ⟨⟨d, hd, hp⟩, hlive, hrev⟩, by simp [hr]⟩

/-! ### the splitter -/

/-- the requests form a chain from `src` to `dst` -/
def Chain (src dst : IA) : List Request → Prop
  | [] => False
  | [r] => r.src = src ∧ r.dst = dst
  | r :: r' :: rest => r.src = src ∧ Chain r.dst dst (r' :: rest)

/-- **The segment requests issued for a lookup are the up/core/down combination required for the
kinds of source and destination** (inspector available): they form a chain local AS → … → dst,
of types up·core·down restricted to what the kinds need — an up segment iff the source is not
core, a down segment iff the destination is not core (`dstCore` as `inspect` reports it: a core
AS of the own ISD, a wildcard, or a core AS of another ISD), a core segment unless a single core
AS or the destination itself joins the two. -/
theorem split_chain (src dst : IA) (srcCore : Bool) (insp : Inspector) (rs : List Request)
    (h : split src srcCore (some insp) dst = some rs) :
    ∃ single dstCore, inspect insp src dst = some (single, dstCore) ∧
      Chain src dst rs ∧
      (rs.map (·.ty) = [.up, .down] ∨ rs.map (·.ty) = [.up, .core, .down] ∨
       rs.map (·.ty) = [.up] ∨ rs.map (·.ty) = [.up, .core] ∨ rs.map (·.ty) = [.down] ∨
       rs.map (·.ty) = [.core, .down] ∨ rs.map (·.ty) = [.core]) ∧
      ((∃ r ∈ rs, r.ty = .up) ↔ srcCore = false) ∧
      ((∃ r ∈ rs, r.ty = .down) ↔ dstCore = false) := by
  unfold split at h
  dsimp only at h
  split at h
  · cases h
  · rename_i single dstCore hi
    refine ⟨single, dstCore, hi, ?_⟩
    cases srcCore <;> cases dstCore <;> dsimp only at h
    · split at h <;> cases h <;> simp [Chain]
    · split at h <;> cases h <;> simp [Chain]
    · split at h <;> cases h <;> simp [Chain]
    · cases h; simp [Chain]

/-- the single-core shortcut is taken only when that AS really is the only core AS reported for
the common ISD -/
theorem inspect_single (insp : Inspector) (src dst single : IA) (dc : Bool)
    (h : inspect insp src dst = some (single, dc)) (hs : single ≠ (0, 0)) :
    src.isd = dst.isd ∧ insp.cores = some [single] := by
  unfold inspect at h
  split at h
  · split at h
    · cases h; exact absurd rfl hs
    · split at h
      · cases h
      · cases h; exact absurd rfl hs
  · rename_i hisd
    split at h
    · cases h
    · rename_i cores hc
      have hisd' : src.isd = dst.isd := by simpa using hisd
      rcases cores with _ | ⟨c, _ | ⟨c2, t⟩⟩ <;> dsimp only at h <;> split at h <;> cases h
      all_goals first | exact absurd rfl hs | exact ⟨hisd', hc⟩

/-! ### non-vacuity -/

def exInput : Input :=
  { localIA := (1, 111), dst := (1, 0), now := 1000,
    upFirst := [(1, 110)], coreFirst := [(1, 120)],
    combine := fun d =>
      if d = (1, 110) then [⟨1, 2000, [((1, 111), 1), ((1, 110), 7)]⟩, ⟨2, 900, [((1, 111), 2), ((1, 110), 8)]⟩]
      else if d = (1, 120) then [⟨3, 5000, [((1, 111), 1), ((1, 110), 7), ((1, 110), 3), ((1, 120), 4)]⟩]
      else [],
    revoked := [((1, 110), 3)], hasNextHop := fun _ => true, splitErr := false, fetchErr := false }

/-- ISD-wildcard lookup: path 2 has expired, path 3 crosses the revoked interface `1-110#3`;
exactly path 1 is returned -/
example : getPaths exInput = .paths [⟨1, 2000, [((1, 111), 1), ((1, 110), 7)]⟩] := by decide

example : split (1, 111) false (some ⟨some [(1, 110), (1, 120)], some false⟩) (2, 211)
    = some [⟨.up, (1, 111), (1, 0)⟩, ⟨.core, (1, 0), (2, 0)⟩, ⟨.down, (2, 0), (2, 211)⟩] := by decide

end Scion.C30
