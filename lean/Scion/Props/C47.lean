import Scion.Model.Seq
import Scion.Proofs.Rx
import Scion.Proofs.SeqCompile
import Scion.Gen.PathSeq
/-!
# C47 — Path-policy sequences match exactly the paths their expression describes

Property theorems only.  The model (`Scion.Model.Seq`) is tied to `private/path/pathpol` by
`harness/cmd/pathseq` (T1): the real `NewSequence(expr).Eval(paths)` (ANTLR parser, listener,
Go regexp) against `seqAccept` (meaning over the hop list) and against `seqAcceptRe` (model of
the compiled regular expression on the textual hop list), `ACL.Eval` and `Policy.Filter`.
-/
namespace Scion.C47
open Scion.Seq Scion.Seq.Rx

/-! ## Hop predicates: wildcards and numeric comparison -/

theorem numPred_ok (p : NumPred) (v : Nat) :
    p.ok v = true ↔ p = .wild ∨ p = .lit v := by
  cases p <;> simp [NumPred.ok]

theorem asPred_ok (p : ASPred) (v : Nat) :
    p.ok v = true ↔ p = .wild ∨ p = .lit v := by
  cases p <;> simp [ASPred.ok]

/-- `isd`, `isd-as`: interfaces unconstrained; `isd-as#if`: the interface in either direction;
    `isd-as#in,out`: both positions; wildcards match anything -/
theorem ifPred_ok (p : IfPred) (i o : Nat) :
    p.ok i o = true ↔
      match p with
      | .any => True
      | .either q => q.ok i = true ∨ q.ok o = true
      | .both qi qo => qi.ok i = true ∧ qo.ok o = true := by
  cases p <;> simp [IfPred.ok, or_comm]

theorem hopPred_ok (p : HopPred) (h : Hop) :
    p.ok h = true ↔ p.isd.ok h.isd = true ∧ p.as.ok h.as = true ∧ p.ifs.ok h.inIf h.outIf = true := by
  simp [HopPred.ok, and_assoc]

/-- an AS literal means its number, whatever its spelling: every text `addr.ParseAS` accepts
    yields the predicate "AS = parsed value" -/
theorem asPredOfText_numeric (t : Scion.Addr.Str) (v : Nat)
    (h : Scion.Addr.parseAS [':'] t = .ok v) : asPredOfText t = .lit v := by
  simp [asPredOfText, h]

theorem asPredOfText_spelling (t₁ t₂ : Scion.Addr.Str)
    (h : Scion.Addr.parseAS [':'] t₁ = Scion.Addr.parseAS [':'] t₂) :
    asPredOfText t₁ = asPredOfText t₂ := by
  simp [asPredOfText, h]

/-! ## Regular-expression meaning of `?`, `+`, `*`, `|` and juxtaposition -/

/-- a hop predicate matches exactly the one-hop lists whose hop satisfies it -/
theorem accepts_hop (p : HopPred) (hs : List Hop) :
    Expr.accepts (.atom p) hs = true ↔ ∃ h, hs = [h] ∧ p.ok h = true :=
  accepts_atom HopPred.ok p hs

/-- alternation = or -/
theorem accepts_alt (a b : Expr) (hs : List Hop) :
    Expr.accepts (.alt a b) hs = (a.accepts hs || b.accepts hs) :=
  Rx.accepts_alt HopPred.ok a b hs

/-- juxtaposition = some split of the hop list -/
theorem accepts_cat (a b : Expr) (hs : List Hop) :
    Expr.accepts (.cat a b) hs = true ↔
      ∃ u v, hs = u ++ v ∧ a.accepts u = true ∧ b.accepts v = true :=
  Rx.accepts_cat HopPred.ok a b hs

theorem accepts_opt (a : Expr) (hs : List Hop) :
    Expr.accepts (.opt a) hs = (hs.isEmpty || a.accepts hs) :=
  Rx.accepts_opt HopPred.ok a hs

/-- star unfolding -/
theorem accepts_star_unfold (a : Expr) (hs : List Hop) :
    Expr.accepts (.star a) hs = true ↔
      hs = [] ∨ ∃ u v, u ≠ [] ∧ hs = u ++ v ∧ a.accepts u = true ∧
        Expr.accepts (.star a) v = true := by
  cases hs with
  | nil => simp [Expr.accepts, Rx.accepts_nil, Rx.nullable]
  | cons x xs =>
    simp only [Expr.accepts, reduceCtorEq, false_or]
    rw [Rx.accepts_star_cons]
    constructor
    · rintro ⟨u, v, h, hu, hv⟩
      exact ⟨x :: u, v, by simp, by simp [h], hu, hv⟩
    · rintro ⟨u, v, hne, h, hu, hv⟩
      cases u with
      | nil => exact absurd rfl hne
      | cons y ys =>
        simp only [List.cons_append, List.cons.injEq] at h
        obtain ⟨rfl, rfl⟩ := h
        exact ⟨ys, v, rfl, hu, hv⟩

theorem accepts_star (a : Expr) (hs : List Hop) :
    Expr.accepts (.star a) hs = true ↔
      ∃ ws : List (List Hop), hs = ws.flatten ∧ ∀ u ∈ ws, a.accepts u = true :=
  Rx.accepts_star_iff HopPred.ok a hs

theorem accepts_plus (a : Expr) (hs : List Hop) :
    Expr.accepts (.plus a) hs = true ↔
      ∃ ws : List (List Hop), ws ≠ [] ∧ hs = ws.flatten ∧ ∀ u ∈ ws, a.accepts u = true :=
  Rx.accepts_plus_iff HopPred.ok a hs

/-- **the sequence matcher decides membership of the hop list in the language of the
    expression** (the usual denotation `Rx.Lang`) -/
theorem accepts_iff_lang (e : Expr) (hs : List Hop) :
    e.accepts hs = true ↔ Lang HopPred.ok e hs :=
  Rx.accepts_iff_lang HopPred.ok e hs

/-! ## `GetSequence`: the hop list of a path -/

theorem midHops_none_iff : ∀ p : List PIf, midHops p = none ↔ p.length % 2 = 0
  | [] => by simp [midHops]
  | [_] => by simp [midHops]
  | a :: b :: rest => by
    have ih := midHops_none_iff rest
    simp only [midHops, List.length_cons]
    cases h : midHops rest with
    | none => simp only [h, true_iff] at ih; simp; omega
    | some hs => simp only [h, reduceCtorEq, false_iff] at ih; simp; omega

/-- paths with an odd number of interfaces have no hop list (and are skipped by `Eval`) -/
theorem hopsOf_none_iff (p : Path) : hopsOf p = none ↔ p.length % 2 = 1 := by
  cases p with
  | nil => simp [hopsOf]
  | cons f rest =>
    have := midHops_none_iff rest
    simp only [hopsOf, List.length_cons]
    cases h : midHops rest with
    | none => simp only [h, true_iff] at this; simp; omega
    | some hs => simp only [h, reduceCtorEq, false_iff] at this; simp; omega

/-- the source AS has ingress 0, the destination AS egress 0, a transit AS its interface pair -/
theorem hopsOf_two (a b : PIf) :
    hopsOf [a, b] = some [⟨a.isd, a.as, 0, a.id⟩, ⟨b.isd, b.as, b.id, 0⟩] := rfl

theorem hopsOf_four (a b c d : PIf) :
    hopsOf [a, b, c, d] =
      some [⟨a.isd, a.as, 0, a.id⟩, ⟨b.isd, b.as, b.id, c.id⟩, ⟨d.isd, d.as, d.id, 0⟩] := rfl

/-! ## Filters return, in input order, exactly the input paths they accept -/

/-- `Sequence.Eval` -/
theorem seqEval_spec (s : Option Expr) (paths : List Path) :
    seqEval s paths = paths.filter (seqAccept s) ∧
    (seqEval s paths).Sublist paths ∧
    ∀ p, p ∈ seqEval s paths ↔ p ∈ paths ∧ seqAccept s p = true := by
  refine ⟨rfl, List.filter_sublist, ?_⟩
  intro p; simp [seqEval, List.mem_filter]

/-- a path is kept by a sequence iff it has a hop list and that list is in the language -/
theorem seqAccept_iff (e : Expr) (p : Path) :
    seqAccept (some e) p = true ↔ ∃ hs, hopsOf p = some hs ∧ Lang HopPred.ok e hs := by
  simp only [seqAccept]
  cases h : hopsOf p with
  | none => simp
  | some hs => simp [accepts_iff_lang]

/-- invariant established by `HopPredicateFromString`: a wildcard AS has only zero interfaces -/
def AclPred.WF (r : AclPred) : Prop := r.as = 0 → r.if0 = 0 ∧ (r.if1 = none ∨ r.if1 = some 0)

def ACLWF (a : ACL) : Prop := ∀ e ∈ a, ∀ r, e.rule = some r → AclPred.WF r

/-- what `ACL.Eval` decides for one path -/
def aclAccept (a : ACL) (p : Path) : Bool := a.isEmpty || evalPath a p == some true

theorem matchesAll_ifMatch (e : AclEntry) (r : AclPred) (hr : e.rule = some r) (hw : AclPred.WF r)
    (hm : e.matchesAll = true) (pi : PIf) (ing : Bool) : r.ifMatch pi ing = true := by
  simp only [AclEntry.matchesAll, hr, Bool.and_eq_true, beq_iff_eq] at hm
  obtain ⟨h0, h1⟩ := hw hm.2
  unfold AclPred.ifMatch
  rcases h1 with h1 | h1 <;> simp [hm.1, hm.2, h0, h1]

theorem evalInterface_cons (e : AclEntry) (es : ACL) (pi : PIf) (ing : Bool) :
    evalInterface (e :: es) pi ing =
      match e.rule with
      | none => some e.allow
      | some r => if r.ifMatch pi ing then some e.allow else evalInterface es pi ing := rfl

/-- a validated ACL decides every interface (the Go code does not panic) -/
theorem evalInterface_total : ∀ (a : ACL), validACL a = true → ACLWF a →
    ∀ pi ing, ∃ b, evalInterface a pi ing = some b
  | [], hv, _, _, _ => by simp [validACL] at hv
  | [e], hv, hw, pi, ing => by
    simp only [validACL] at hv
    simp only [evalInterface]
    cases hr : e.rule with
    | none => exact ⟨_, rfl⟩
    | some r =>
      have := matchesAll_ifMatch e r hr (hw e (by simp) r hr) hv pi ing
      exact ⟨e.allow, by simp [this]⟩
  | e :: e' :: es, hv, hw, pi, ing => by
    simp only [validACL, Bool.and_eq_true] at hv
    have ih := evalInterface_total (e' :: es) hv.2
      (fun x hx r hr => hw x (by simp [hx]) r hr) pi ing
    rw [evalInterface_cons]
    cases hr : e.rule with
    | none => exact ⟨_, rfl⟩
    | some r =>
      by_cases hm : r.ifMatch pi ing = true
      · exact ⟨e.allow, by simp [hm]⟩
      · simp only [hm, Bool.false_eq_true, if_false]; exact ih

theorem evalPathFrom_total (a : ACL) (hv : validACL a = true) (hw : ACLWF a) :
    ∀ (p : Path) (i : Nat), ∃ b, evalPathFrom a i p = some b
  | [], _ => ⟨true, rfl⟩
  | pi :: rest, i => by
    obtain ⟨b, hb⟩ := evalInterface_total a hv hw pi (i % 2 != 0)
    simp only [evalPathFrom, hb]
    cases b with
    | false => exact ⟨false, rfl⟩
    | true => exact evalPathFrom_total a hv hw rest (i + 1)

theorem aclEvalGo_spec (a : ACL) (hv : validACL a = true) (hw : ACLWF a) :
    ∀ paths : List Path, aclEvalGo a paths = some (paths.filter (fun p => evalPath a p == some true))
  | [] => rfl
  | p :: ps => by
    obtain ⟨b, hb⟩ := evalPathFrom_total a hv hw p 0
    have hb' : evalPath a p = some b := hb
    simp only [aclEvalGo, hb', aclEvalGo_spec a hv hw ps, List.filter_cons]
    cases b <;> simp

/-- `ACL.Eval` (`filter_spec`): for a validated ACL the result is, in input order, exactly the
    input paths every interface of which is allowed by its first matching entry; the empty ACL
    keeps everything -/
theorem aclEval_spec (a : ACL) (hv : a = [] ∨ validACL a = true) (hw : ACLWF a)
    (paths : List Path) :
    aclEval a paths = some (paths.filter (aclAccept a)) := by
  cases a with
  | nil =>
    have : aclAccept [] = fun _ => true := by funext p; simp [aclAccept]
    simp only [aclEval, this]
    congr 1
    induction paths with
    | nil => rfl
    | cons p ps ih => simp only [List.filter_cons, if_true]; rw [← ih]
  | cons e es =>
    have hv' : validACL (e :: es) = true := by
      rcases hv with h | h
      · cases h
      · exact h
    have : aclAccept (e :: es) = fun p => evalPath (e :: es) p == some true := by
      funext p; simp [aclAccept]
    simp only [aclEval, aclEvalGo_spec (e :: es) hv' hw paths, this]

/-- the first matching entry decides an interface -/
theorem evalInterface_first_match (pre : ACL) (e : AclEntry) (post : ACL) (pi : PIf) (ing : Bool)
    (hpre : ∀ x ∈ pre, ∃ r, x.rule = some r ∧ r.ifMatch pi ing = false)
    (he : e.rule = none ∨ ∃ r, e.rule = some r ∧ r.ifMatch pi ing = true) :
    evalInterface (pre ++ e :: post) pi ing = some e.allow := by
  induction pre with
  | nil =>
    rcases he with h | ⟨r, h, hm⟩ <;> simp [evalInterface, *]
  | cons x xs ih =>
    obtain ⟨r, hr, hm⟩ := hpre x (by simp)
    simp only [List.cons_append, evalInterface, hr, hm, Bool.false_eq_true, if_false]
    exact ih (fun y hy => hpre y (by simp [hy]))

/-- `Policy.Filter` (`filter_spec`): ACL, then sequence; in input order exactly the accepted
    paths -/
theorem policyFilter_spec (a : ACL) (hv : a = [] ∨ validACL a = true) (hw : ACLWF a)
    (s : Option Expr) (paths : List Path) :
    policyFilter a s paths = some (paths.filter (fun p => aclAccept a p && seqAccept s p)) ∧
    ∀ r, policyFilter a s paths = some r →
      r.Sublist paths ∧ ∀ p, p ∈ r ↔ p ∈ paths ∧ aclAccept a p = true ∧ seqAccept s p = true := by
  have h1 : policyFilter a s paths =
      some (paths.filter (fun p => aclAccept a p && seqAccept s p)) := by
    simp only [policyFilter, aclEval_spec a hv hw paths, seqEval, List.filter_filter]
    congr 2
    funext p
    exact Bool.and_comm _ _
  refine ⟨h1, ?_⟩
  intro r hr
  rw [h1] at hr
  cases hr
  refine ⟨List.filter_sublist, ?_⟩
  intro p
  simp [List.mem_filter]

/-! ## The compiled regular expression

The listener compiles the expression to a regular expression over characters which `Eval`
matches against the textual hop list.  `compile`/`render` model both (the engine compares the
real answers with `seqAcceptRe` on every case). -/

/-- what the parser's output satisfies: AS literals are AS numbers -/
theorem asPredOfText_WF (t : Scion.Addr.Str) : (asPredOfText t).WF := by
  unfold asPredOfText
  cases h : Scion.Addr.parseAS [':'] t with
  | ok v => exact Scion.Addr.parseAS_lt _ _ _ h
  | error e => trivial

/-- **compile_correct**: on every hop list (AS numbers below 2^48) the compiled regular
    expression accepts the text `isd-as#in,out isd-as#in,out … ` iff the expression accepts the
    hop list.  Hypothesis on the expression: its AS literals are AS numbers (`asPredOfText_WF`:
    always the case for literals normalised by `addr.ParseAS`; a literal that `ParseAS` rejects
    is `ASPred.bad`, which the model compiles to the empty language). -/
theorem compile_correct (e : Expr) (he : ExprWF e) (hs : List Hop)
    (hh : ∀ h ∈ hs, h.as < 2 ^ 48) :
    (compile e).accepts (render hs) = e.accepts hs := by
  apply Bool.eq_iff_iff.2
  unfold Re.accepts Expr.accepts
  rw [Rx.accepts_iff_lang, Rx.accepts_iff_lang]
  exact compile_correct_lang e he hs hh

theorem midHops_as : ∀ (p : List PIf) (hs : List Hop), midHops p = some hs →
    ∀ h ∈ hs, ∃ i ∈ p, h.as = i.as
  | [], hs, h => by simp [midHops] at h
  | [l], hs, h => by
    simp only [midHops, Option.some.injEq] at h
    subst h
    intro x hx
    simp only [List.mem_singleton] at hx
    subst hx
    exact ⟨l, by simp, rfl⟩
  | a :: b :: rest, hs, h => by
    simp only [midHops] at h
    cases hr : midHops rest with
    | none => simp [hr] at h
    | some hs' =>
      simp only [hr, Option.some.injEq] at h
      subst h
      intro x hx
      simp only [List.mem_cons] at hx
      rcases hx with rfl | hx
      · exact ⟨a, by simp, rfl⟩
      · obtain ⟨i, hi, e⟩ := midHops_as rest hs' hr x hx
        exact ⟨i, by simp [hi], e⟩

theorem hopsOf_as (p : Path) (hs : List Hop) (h : hopsOf p = some hs) :
    ∀ x ∈ hs, ∃ i ∈ p, x.as = i.as := by
  cases p with
  | nil =>
    simp only [hopsOf, Option.some.injEq] at h
    subst h; simp
  | cons f rest =>
    simp only [hopsOf] at h
    cases hr : midHops rest with
    | none => simp [hr] at h
    | some hs' =>
      simp only [hr, Option.some.injEq] at h
      subst h
      intro x hx
      simp only [List.mem_cons] at hx
      rcases hx with rfl | hx
      · exact ⟨f, by simp, rfl⟩
      · obtain ⟨i, hi, e⟩ := midHops_as rest hs' hr x hx
        exact ⟨i, by simp [hi], e⟩

/-- `Sequence.Eval` as the code computes it (regular expression against text) keeps exactly the
    paths whose hop list is in the language of the expression -/
theorem seqAcceptRe_eq (s : Option Expr) (hs : ∀ e, s = some e → ExprWF e) (p : Path)
    (hp : ∀ i ∈ p, i.as < 2 ^ 48) : seqAcceptRe s p = seqAccept s p := by
  cases s with
  | none => rfl
  | some e =>
    simp only [seqAcceptRe, seqAccept]
    cases h : hopsOf p with
    | none => rfl
    | some hl =>
      simp only
      apply compile_correct e (hs e rfl) hl
      intro x hx
      obtain ⟨i, hi, e'⟩ := hopsOf_as p hl h x hx
      rw [e']; exact hp i hi

/-! ## Non-vacuity -/

section Examples
def ia110 : Nat := 0xff0000000110
-- the repaired defect: upper-case and colon spellings denote the same AS
example : asPredOfText "FF00:0:110".toList = .lit ia110 ∧ asPredOfText "ff00:0:110".toList = .lit ia110 ∧
    asPredOfText "0:0:5".toList = .lit 5 ∧ asPredOfText "5".toList = .lit 5 ∧
    asPredOfText "4294967296".toList = .bad := by decide

def hop1 : HopPred := ⟨.lit 1, .lit ia110, .either (.lit 2)⟩
def anyHop : HopPred := ⟨.wild, .wild, .any⟩
def e1 : Expr := .cat (.star (.atom anyHop)) (.cat (.atom hop1) (.opt (.atom anyHop)))
def pth : Path := [⟨1, 5, 7⟩, ⟨1, ia110, 2⟩, ⟨1, ia110, 3⟩, ⟨2, 9, 4⟩]
example : hopsOf pth = some [⟨1, 5, 0, 7⟩, ⟨1, ia110, 2, 3⟩, ⟨2, 9, 4, 0⟩] := by decide
example : seqAccept (some e1) pth = true ∧ seqAcceptRe (some e1) pth = true := by decide
example : seqAccept (some (.atom hop1)) pth = false ∧ seqAcceptRe (some (.atom hop1)) pth = false := by
  decide
example : ExprWF e1 := by
  intro p hp
  simp only [e1, Rx.atoms, List.mem_append, List.mem_singleton] at hp
  rcases hp with rfl | rfl | rfl <;> simp [HopPred.WF, ASPred.WF, anyHop, hop1, ia110]
example : render [⟨1, ia110, 2, 3⟩] = "1-ff00:0:110#2,3 ".toList := by decide
def acl1 : ACL := [⟨false, some ⟨1, 5, 7, none⟩⟩, ⟨true, some ⟨0, 0, 0, none⟩⟩]
example : validACL acl1 = true ∧ aclAccept acl1 pth = false ∧ aclAccept acl1 (pth.drop 1) = true := by
  decide
example : ACLWF acl1 := by
  intro e he r hr
  simp only [acl1, List.mem_cons, List.not_mem_nil, or_false] at he
  rcases he with rfl | rfl <;> (cases hr; simp [AclPred.WF])
end Examples

end Scion.C47

/-! The shapes the listener pastes together, regenerated from `sequence.go` (T3), are the ones
`Scion.Seq.compile`, `hopRe`, `asRe`, `hopText` were written for: `?`, `+`, `*` wrap the operand in
a group; `|` and juxtaposition are grouped as a whole; a hop is `isd-as#in,out` followed by
` +`; `#if` is `(any,if)|(if,any)`; the three wildcards; the whole expression is anchored; AS
literals go through `normalizeAS` (the repaired defect). -/
namespace Scion.C47
open Scion.Gen.PathSeq in
theorem gen_listener :
    isdWildcard = "([0-9]+)" ∧ ifWildcard = "([0-9]+)" ∧
    asWildcard = "(([0-9]+)|([0-9a-fA-F]+:[0-9a-fA-F]+:[0-9a-fA-F]+))" ∧
    sequenceListener_ExitQuestionMark = ["(%s)?|l.pop()"] ∧
    sequenceListener_ExitPlus = ["(%s)+|l.pop()"] ∧
    sequenceListener_ExitAsterisk = ["(%s)*|l.pop()"] ∧
    sequenceListener_ExitOr = ["(%s|%s)|left,right"] ∧
    sequenceListener_ExitConcatenation = ["(%s%s)|left,right"] ∧
    sequenceListener_ExitParentheses = [] ∧
    sequenceListener_ExitHop = ["(%s +)|l.pop()"] ∧
    sequenceListener_ExitISDHop = ["(%s-%s#%s,%s)|isd,asWildcard,ifWildcard,ifWildcard"] ∧
    sequenceListener_ExitISDASHop = ["(%s-%s#%s,%s)|isd,as,ifWildcard,ifWildcard"] ∧
    sequenceListener_ExitISDASIFHop =
      ["(%s-%s#((%s,%s)|(%s,%s)))|isd,as,ifWildcard,iface,iface,ifWildcard"] ∧
    sequenceListener_ExitISDASIFIFHop = ["(%s-%s#%s,%s)|isd,as,ifin,ifout"] ∧
    NewSequence = ["^%s$|listener.stack[0]"] ∧ hop = ["%s#%d,%d|ia,ingress,egress"] ∧
    ExitAS_normalizes = true ∧ ExitLegacyAS_normalizes = true := by decide
end Scion.C47

