import Scion.Model.Stores
import Scion.Proofs.Stores
import Scion.Gen.StoresFacts
/-!
# C27 — Beacon and path databases behave like their abstract stores

Property theorems only.  `Scion.Model.Stores` is the abstract store of the statement (a list of
records with distinct segment ids + a next-query map); the theorems below are facts about it for
**all** states / histories.  The SQLite implementations (`private/storage/path/sqlite`,
`private/storage/beacon/sqlite`) are tied to it by differential histories only
(`harness/cmd/stores`): SQL itself is not proved — the property is labelled *partial*.
-/
namespace Scion.C27
open Scion.Stores

/-! ## Path-segment store: reachable states -/

/-- every path store a history can produce, from the empty store, at any logical time -/
def PReachable (s : PathStore) : Prop := ∃ ops tick, s = (prun PathStore.empty tick ops).1

theorem pwf_step (s : PathStore) (tick : Nat) (op : POp) (h : PWF s.segs) :
    PWF (pstep s tick op).1.segs := by
  cases op with
  | insert x t g => exact pwf_insert s.segs x t g tick h
  | get p => exact h
  | delExpired now => exact pwf_filter s.segs _ h
  | delSeg pre => exact pwf_filter s.segs _ h
  | insertNQ k t => exact h
  | getNQ k => exact h

theorem pwf_run (ops : List POp) (s : PathStore) (tick : Nat) (h : PWF s.segs) :
    PWF (prun s tick ops).1.segs := by
  induction ops generalizing s tick with
  | nil => exact h
  | cons op rest ih => exact ih _ _ (pwf_step s tick op h)

/-- **the store is a map**: in every reachable state segment ids are pairwise distinct and
    every record carries at least one type and one group (so it is visible to queries) -/
theorem reachable_is_map {s : PathStore} (h : PReachable s) : PWF s.segs := by
  obtain ⟨ops, tick, rfl⟩ := h
  exact pwf_run ops _ tick ⟨List.Pairwise.nil, fun _ hr => nomatch hr⟩

/-! ## Insertion -/

/-- an unknown segment id is inserted with exactly its type and groups (group 0 when none) -/
theorem insert_new (segs : List SegRec) (x : SegIn) (type : Nat) (groups : List Nat) (tick : Nat)
    (h : findSeg segs x.id = none) :
    (insertSeg segs x type groups tick).2 = ⟨1, 0⟩ ∧
    findSeg (insertSeg segs x type groups tick).1 x.id = some (newRec x type groups tick) ∧
    (∀ id, id ≠ x.id → findSeg (insertSeg segs x type groups tick).1 id = findSeg segs id) ∧
    (∀ g, g ∈ (newRec x type groups tick).groups ↔ (if groups = [] then g = 0 else g ∈ groups)) := by
  unfold insertSeg
  simp only [h]
  refine ⟨trivial, ?_, ?_, ?_⟩
  · rw [findSeg_append, h]; simp [findSeg, newRec]
  · intro id hid
    rw [findSeg_append]
    have : ¬ x.id = id := fun e => hid e.symm
    simp [findSeg, newRec, this]
  · intro g
    simp only [newRec, mem_addAll]
    cases groups <;> simp

/-- **a strictly newer version replaces the stored one and adds its type and groups**; every
    other segment is untouched -/
theorem newer_replaces_and_accumulates (segs : List SegRec) (x : SegIn) (type : Nat)
    (groups : List Nat) (tick : Nat) (old : SegRec)
    (h : findSeg segs x.id = some old) (hnew : old.ver < x.ver) :
    (insertSeg segs x type groups tick).2 = ⟨0, 1⟩ ∧
    (∃ r, findSeg (insertSeg segs x type groups tick).1 x.id = some r ∧
      r.id = x.id ∧ r.full = x.full ∧ r.ver = x.ver ∧ r.maxExp = x.maxExp ∧ r.lu = tick ∧
      r.first = old.first ∧ r.last = old.last ∧
      r.intfs = (if x.full = old.full then old.intfs else x.intfs) ∧
      (∀ t, t ∈ r.types ↔ t ∈ old.types ∨ t = type) ∧
      (∀ g, g ∈ r.groups ↔ g ∈ old.groups ∨ g ∈ groups)) ∧
    (∀ id, id ≠ x.id → findSeg (insertSeg segs x type groups tick).1 id = findSeg segs id) := by
  unfold insertSeg
  have hnle : ¬ x.ver ≤ old.ver := by omega
  simp only [h, hnle, if_false]
  have hf : ∀ r : SegRec, (if r.id = x.id then updRec r x type groups tick else r).id = r.id := by
    intro r; split <;> simp [updRec]
  have hid : old.id = x.id := (findSeg_mem segs x.id old h).2
  refine ⟨trivial, ?_, ?_⟩
  · refine ⟨updRec old x type groups tick, ?_, ?_⟩
    · rw [findSeg_map segs _ hf, h]; simp [hid]
    · exact ⟨hid, rfl, rfl, rfl, rfl, rfl, rfl, rfl, fun t => mem_addOne _ _ _,
        fun g => mem_addAll _ _ _⟩
  · intro id hne
    rw [findSeg_map segs _ hf]
    cases hs : findSeg segs id with
    | none => rfl
    | some r =>
      have : r.id = id := (findSeg_mem segs id r hs).2
      have hne' : ¬ r.id = x.id := by rw [this]; exact hne
      simp [hne']

/-- **an equal or older version is ignored**: nothing changes, not even types or groups -/
theorem older_ignored (segs : List SegRec) (x : SegIn) (type : Nat) (groups : List Nat)
    (tick : Nat) (old : SegRec) (h : findSeg segs x.id = some old) (hold : x.ver ≤ old.ver) :
    insertSeg segs x type groups tick = (segs, ⟨0, 0⟩) := by
  unfold insertSeg
  simp [h, hold]

/-! ## Queries -/

theorem mem_selTypes (p : Params) (r : SegRec) (t : Nat) :
    t ∈ selTypes p r ↔ t ∈ r.types ∧ (p.segTypes = [] ∨ t ∈ p.segTypes) := by
  unfold selTypes
  cases hp : p.segTypes with
  | nil => simp
  | cons a l => simp

theorem mem_selGroups (p : Params) (r : SegRec) (g : Nat) :
    g ∈ selGroups p r ↔ g ∈ r.groups ∧ (p.groups = [] ∨ g ∈ p.groups) := by
  unfold selGroups
  cases hp : p.groups with
  | nil => simp
  | cons a l => simp

/-- the row-level filters, spelled out: each non-empty filter list must have a matching
    element (ids exactly, interfaces among the segment's interfaces, start/end ISD-AS with a
    zero AS acting as ISD wildcard) -/
theorem rowMatches_iff (p : Params) (r : SegRec) :
    rowMatches p r = true ↔
      (p.segIDs = [] ∨ r.id ∈ p.segIDs) ∧
      (p.intfs = [] ∨ ∃ i ∈ p.intfs, i ∈ r.intfs) ∧
      (p.startsAt = [] ∨ ∃ q ∈ p.startsAt, matchIA q r.first = true) ∧
      (p.endsAt = [] ∨ ∃ q ∈ p.endsAt, matchIA q r.last = true) := by
  simp [rowMatches, List.isEmpty_iff, List.any_eq_true, List.contains_iff_mem, and_assoc]

theorem matchIA_iff (q a : IA) :
    matchIA q a = true ↔ (if q.as = 0 then q.isd = a.isd else q = a) := by
  unfold matchIA
  split <;> simp

/-- **queries return exactly the stored entries matching all filters**: an entry is returned
    iff it is the image of a stored record that passes the row filters, has at least one group
    passing the group filter, and of one of its types passing the type filter; the entry carries
    the record's current version and exactly the passing groups -/
theorem query_exact (segs : List SegRec) (p : Params) (e : Entry) :
    e ∈ getSegs segs p ↔
      ∃ r ∈ segs, rowMatches p r = true ∧ selGroups p r ≠ [] ∧ e.type ∈ selTypes p r ∧
        e = ⟨r.id, r.full, r.ver, r.maxExp, e.type, selGroups p r, r.lu⟩ := by
  unfold getSegs
  rw [List.mem_flatMap]
  constructor
  · rintro ⟨r, hr, he⟩
    unfold entriesOf at he
    split at he
    · rename_i hc
      simp only [Bool.and_eq_true, Bool.not_eq_true', List.isEmpty_eq_false_iff] at hc
      obtain ⟨t, ht, rfl⟩ := List.mem_map.mp he
      exact ⟨r, hr, hc.1, hc.2, ht, rfl⟩
    · cases he
  · rintro ⟨r, hr, hm, hg, ht, he⟩
    refine ⟨r, hr, ?_⟩
    unfold entriesOf
    have : (rowMatches p r && !(selGroups p r).isEmpty) = true := by
      simp [hm, List.isEmpty_iff, hg]
    rw [if_pos this, he]
    exact List.mem_map.mpr ⟨e.type, ht, rfl⟩

/-- in a reachable store nothing is hidden from the unfiltered query: every stored record is
    returned once per type -/
theorem getAll_complete {s : PathStore} (h : PReachable s) (r : SegRec) (hr : r ∈ s.segs)
    (t : Nat) (ht : t ∈ r.types) :
    ⟨r.id, r.full, r.ver, r.maxExp, t, r.groups, r.lu⟩ ∈ getSegs s.segs Params.all := by
  rw [query_exact]
  have hwf := (reachable_is_map h).2 r hr
  refine ⟨r, hr, by simp [rowMatches, Params.all], ?_, ?_, ?_⟩
  · simpa [selGroups, Params.all] using hwf.2
  · simpa [selTypes, Params.all] using ht
  · simp [selGroups, Params.all]

/-! ## Clean-up and deletion -/

/-- **clean-up removes exactly the expired entries** (`MaxExpiry < now`) and reports their
    number -/
theorem cleanup_exact (segs : List SegRec) (now : Nat) :
    (∀ r, r ∈ (deleteExpiredSegs segs now).1 ↔ r ∈ segs ∧ now ≤ r.maxExp) ∧
    (deleteExpiredSegs segs now).2 = (segs.filter (fun r => decide (r.maxExp < now))).length ∧
    (deleteExpiredSegs segs now).2 + (deleteExpiredSegs segs now).1.length = segs.length := by
  refine ⟨?_, ?_, ?_⟩
  · intro r
    simp [deleteExpiredSegs, List.mem_filter]
  · simp [deleteExpiredSegs, List.countP_eq_length_filter]
  · simp only [deleteExpiredSegs, List.countP_eq_length_filter]
    induction segs with
    | nil => rfl
    | cons a rest ih =>
      by_cases ha : a.maxExp < now <;> simp [List.filter, ha] <;> omega

theorem delete_exact (segs : List SegRec) (pre : ID) (r : SegRec) :
    r ∈ deleteSegs segs pre ↔ r ∈ segs ∧ hasPrefix pre r.id = false := by
  simp [deleteSegs, List.mem_filter]

/-! ## Next-query map -/

theorem insertNQ_spec (nq : List (NQKey × Nat)) (k : NQKey) (t : Nat) :
    ((insertNQ nq k t).2 = true ↔ (findNQ nq k = none ∨ ∃ old, findNQ nq k = some old ∧ old < t)) ∧
    findNQ (insertNQ nq k t).1 k = (if (insertNQ nq k t).2 then some t else findNQ nq k) ∧
    (∀ k', k' ≠ k → findNQ (insertNQ nq k t).1 k' = findNQ nq k') := by
  unfold insertNQ
  cases h : findNQ nq k with
  | none =>
    refine ⟨by simp, by simp [findNQ], ?_⟩
    intro k' hk
    have : ¬ k = k' := fun e => hk e.symm
    simp [findNQ, this]
  | some old =>
    by_cases hlt : old < t
    · simp only [hlt, if_true]
      refine ⟨by simp [hlt], by simp [findNQ], ?_⟩
      intro k' hk
      have : ¬ k = k' := fun e => hk e.symm
      simp [findNQ, this, findNQ_filter_ne nq k k' hk]
    · simp only [hlt, if_false]
      refine ⟨by simp [hlt], by simp [h], by simp⟩

/-- one operation never lowers (or forgets) a stored next-query time -/
theorem nextquery_step (s : PathStore) (tick : Nat) (op : POp) (k : NQKey) (t : Nat)
    (h : findNQ s.nq k = some t) : ∃ t', findNQ (pstep s tick op).1.nq k = some t' ∧ t ≤ t' := by
  cases op with
  | insert x ty g => exact ⟨t, h, Nat.le_refl _⟩
  | get p => exact ⟨t, h, Nat.le_refl _⟩
  | delExpired now => exact ⟨t, h, Nat.le_refl _⟩
  | delSeg pre => exact ⟨t, h, Nat.le_refl _⟩
  | getNQ k' => exact ⟨t, h, Nat.le_refl _⟩
  | insertNQ k' t' =>
    simp only [pstep]
    obtain ⟨hacc, hself, hother⟩ := insertNQ_spec s.nq k' t'
    by_cases hk : k = k'
    · subst hk
      rw [hself]
      by_cases hb : (insertNQ s.nq k t').2 = true
      · rcases hacc.mp hb with hn | ⟨old, ho, hlt⟩
        · rw [h] at hn; cases hn
        · rw [h] at ho; cases ho
          exact ⟨t', by simp [hb], by omega⟩
      · exact ⟨t, by simp [hb, h], Nat.le_refl _⟩
    · exact ⟨t, by rw [hother k hk]; exact h, Nat.le_refl _⟩

/-- **a stored next-query time never decreases**, whatever history follows -/
theorem nextquery_monotone (ops : List POp) (s : PathStore) (tick : Nat) (k : NQKey) (t : Nat)
    (h : findNQ s.nq k = some t) :
    ∃ t', findNQ (prun s tick ops).1.nq k = some t' ∧ t ≤ t' := by
  induction ops generalizing s tick t with
  | nil => exact ⟨t, h, Nat.le_refl _⟩
  | cons op rest ih =>
    obtain ⟨t1, h1, hle1⟩ := nextquery_step s tick op k t h
    obtain ⟨t2, h2, hle2⟩ := ih _ (tick + 1) t1 h1
    exact ⟨t2, h2, Nat.le_trans hle1 hle2⟩

/-! ## Versions along histories -/

def isDelete : POp → Bool
  | .delExpired _ => true
  | .delSeg _ => true
  | _ => false

theorem version_step (s : PathStore) (tick : Nat) (op : POp) (hop : isDelete op = false)
    (r : SegRec) (h : findSeg s.segs r.id = some r) :
    ∃ r', findSeg (pstep s tick op).1.segs r.id = some r' ∧ r.ver ≤ r'.ver ∧
      (∀ t ∈ r.types, t ∈ r'.types) ∧ (∀ g ∈ r.groups, g ∈ r'.groups) := by
  have keep : ∃ r', findSeg s.segs r.id = some r' ∧ r.ver ≤ r'.ver ∧
      (∀ t ∈ r.types, t ∈ r'.types) ∧ (∀ g ∈ r.groups, g ∈ r'.groups) :=
    ⟨r, h, Nat.le_refl _, fun _ ht => ht, fun _ hg => hg⟩
  cases op with
  | get p => exact keep
  | insertNQ k t => exact keep
  | getNQ k => exact keep
  | delExpired now => cases hop
  | delSeg pre => cases hop
  | insert x ty g =>
    simp only [pstep]
    by_cases hid : r.id = x.id
    · rw [hid] at h ⊢
      by_cases hv : x.ver ≤ r.ver
      · rw [older_ignored s.segs x ty g tick r h hv]
        exact ⟨r, h, Nat.le_refl _, fun _ ht => ht, fun _ hg => hg⟩
      · obtain ⟨_, ⟨r', hr', _, _, hver, _, _, _, _, _, hty, hgr⟩, _⟩ :=
          newer_replaces_and_accumulates s.segs x ty g tick r h (by omega)
        exact ⟨r', hr', by omega, fun t ht => (hty t).mpr (Or.inl ht),
          fun g' hg' => (hgr g').mpr (Or.inl hg')⟩
    · cases hx : findSeg s.segs x.id with
      | none =>
        rw [(insert_new s.segs x ty g tick hx).2.2.1 r.id hid]
        exact keep
      | some old =>
        by_cases hv : x.ver ≤ old.ver
        · rw [older_ignored s.segs x ty g tick old hx hv]
          exact keep
        · rw [(newer_replaces_and_accumulates s.segs x ty g tick old hx (by omega)).2.2 r.id hid]
          exact keep

/-- **versions, types and groups only grow**: along any history without deletions the stored
    version of a segment never decreases and none of its types or groups is lost -/
theorem version_monotone (ops : List POp) (hops : ∀ op ∈ ops, isDelete op = false)
    (s : PathStore) (tick : Nat) (r : SegRec) (h : findSeg s.segs r.id = some r) :
    ∃ r', findSeg (prun s tick ops).1.segs r.id = some r' ∧ r.ver ≤ r'.ver ∧
      (∀ t ∈ r.types, t ∈ r'.types) ∧ (∀ g ∈ r.groups, g ∈ r'.groups) := by
  induction ops generalizing s tick r with
  | nil => exact ⟨r, h, Nat.le_refl _, fun _ ht => ht, fun _ hg => hg⟩
  | cons op rest ih =>
    obtain ⟨r1, h1, hv1, ht1, hg1⟩ :=
      version_step s tick op (hops op (by simp)) r h
    have hid : r1.id = r.id := (findSeg_mem _ _ _ h1).2
    rw [← hid] at h1
    obtain ⟨r2, h2, hv2, ht2, hg2⟩ :=
      ih (fun o ho => hops o (by simp [ho])) _ (tick + 1) r1 h1
    rw [hid] at h2
    exact ⟨r2, h2, Nat.le_trans hv1 hv2, fun t ht => ht2 t (ht1 t ht), fun g hg => hg2 g (hg1 g hg)⟩

/-! ## Beacon store -/

def BReachable (s : BeaconStore) : Prop := ∃ ops tick, s = (brun [] tick ops).1

theorem bdistinct_step (s : BeaconStore) (tick : Nat) (op : BOp) (h : BDistinct s) :
    BDistinct (bstep s tick op).1 := by
  cases op with
  | insert b i u => exact bdistinct_insert s b i u tick h
  | candidates k u src => exact h
  | get p => exact h
  | delExpired now => exact List.Pairwise.filter _ h
  | del pre => exact List.Pairwise.filter _ h
  | sources => exact h

/-- the beacon store is a map as well: ids are distinct in every reachable state -/
theorem beacon_reachable_is_map {s : BeaconStore} (h : BReachable s) : BDistinct s := by
  obtain ⟨ops, tick, rfl⟩ := h
  have : ∀ (ops : List BOp) (s : BeaconStore) (tick : Nat), BDistinct s →
      BDistinct (brun s tick ops).1 := by
    intro ops
    induction ops with
    | nil => intro s _ h; exact h
    | cons op rest ih => intro s tick h; exact ih _ _ (bdistinct_step s tick op h)
  exact this ops [] tick List.Pairwise.nil

theorem beacon_insert_new (s : BeaconStore) (b : BIn) (i u tick : Nat) (h : findB s b.id = none) :
    (insertBeacon s b i u tick).2 = ⟨1, 0⟩ ∧
    findB (insertBeacon s b i u tick).1 b.id = some (mkB b i u tick) ∧
    (∀ id, id ≠ b.id → findB (insertBeacon s b i u tick).1 id = findB s id) := by
  unfold insertBeacon
  simp only [h]
  refine ⟨trivial, ?_, ?_⟩
  · rw [findB_append, h]; simp [findB, mkB]
  · intro id hid
    rw [findB_append]
    have : ¬ b.id = id := fun e => hid e.symm
    simp [findB, mkB, this]

/-- a beacon with a strictly newer segment timestamp replaces the stored one (all columns:
    payload, ingress interface, length, expiry, usage) -/
theorem beacon_newer_replaces (s : BeaconStore) (b : BIn) (i u tick : Nat) (old : BRec)
    (h : findB s b.id = some old) (hnew : old.info < b.info) :
    (insertBeacon s b i u tick).2 = ⟨0, 1⟩ ∧
    findB (insertBeacon s b i u tick).1 b.id = some { mkB b i u tick with first := old.first } ∧
    (∀ id, id ≠ b.id → findB (insertBeacon s b i u tick).1 id = findB s id) := by
  unfold insertBeacon
  simp only [h, hnew, if_true]
  have hf : ∀ r : BRec,
      (if r.id = b.id then { mkB b i u tick with first := r.first } else r).id = r.id := by
    intro r; split
    · rename_i e; simp [mkB, e]
    · rfl
  have hid : old.id = b.id := (findB_mem s b.id old h).2
  refine ⟨trivial, ?_, ?_⟩
  · rw [findB_map s _ hf, h]; simp [hid]
  · intro id hne
    rw [findB_map s _ hf]
    cases hs : findB s id with
    | none => rfl
    | some r =>
      have : r.id = id := (findB_mem s id r hs).2
      have hne' : ¬ r.id = b.id := by rw [this]; exact hne
      simp [hne']

/-- an equal or older beacon is ignored -/
theorem beacon_older_ignored (s : BeaconStore) (b : BIn) (i u tick : Nat) (old : BRec)
    (h : findB s b.id = some old) (hold : b.info ≤ old.info) :
    insertBeacon s b i u tick = (s, ⟨0, 0⟩) := by
  unfold insertBeacon
  have : ¬ old.info < b.info := by omega
  simp [h, this]

/-- **candidate beacons come in non-decreasing length order, up to the requested count**, are
    stored beacons allowed for the usage (and source), as many as possible, and no matching
    beacon left out is shorter than one returned -/
theorem candidates_sorted_and_bounded (s : BeaconStore) (k usage : Nat) (src : IA) :
    (candidates s k usage src).Pairwise (fun a b => a.hops ≤ b.hops) ∧
    (candidates s k usage src).length = min k (s.filter (candMatches usage src)).length ∧
    (∀ r ∈ candidates s k usage src, r ∈ s ∧ candMatches usage src r = true) ∧
    (∀ x ∈ s, candMatches usage src x = true → x ∉ candidates s k usage src →
      ∀ r ∈ candidates s k usage src, r.hops ≤ x.hops) := by
  unfold candidates
  have hsorted := List.pairwise_mergeSort hopsLe_trans hopsLe_total (s.filter (candMatches usage src))
  have hperm := List.mergeSort_perm (s.filter (candMatches usage src)) hopsLe
  have hle : ∀ a b : BRec, hopsLe a b = true → a.hops ≤ b.hops := by
    intro a b h; simpa [hopsLe] using h
  refine ⟨?_, ?_, ?_, ?_⟩
  · exact (List.Pairwise.sublist (List.take_sublist _ _) hsorted).imp (hle _ _)
  · rw [List.length_take, hperm.length_eq]
  · intro r hr
    have := hperm.mem_iff.mp (List.mem_of_mem_take hr)
    exact List.mem_filter.mp this
  · intro x hx hm hnot r hr
    have hxs : x ∈ (s.filter (candMatches usage src)).mergeSort hopsLe :=
      hperm.mem_iff.mpr (List.mem_filter.mpr ⟨hx, hm⟩)
    rw [← List.take_append_drop k ((s.filter (candMatches usage src)).mergeSort hopsLe)] at hxs hsorted
    rcases List.mem_append.mp hxs with h1 | h2
    · exact absurd h1 hnot
    · exact hle _ _ ((List.pairwise_append.mp hsorted).2.2 r hr x h2)

theorem beacon_query_exact (s : BeaconStore) (p : BParams) (r : BRec) :
    r ∈ getBeacons s p ↔ r ∈ s ∧ bMatches p r = true := by
  simp [getBeacons, List.mem_filter]

/-- the beacon filters, spelled out -/
theorem bMatches_iff (p : BParams) (r : BRec) :
    bMatches p r = true ↔
      (p.segIDs = [] ∨ ∃ pre ∈ p.segIDs, hasPrefix pre r.id = true) ∧
      ((∀ q ∈ p.startsAt, q.isZero = true) ∨
        ∃ q ∈ p.startsAt, q.isZero = false ∧ matchStart q r.first = true) ∧
      (p.inIfs = [] ∨ r.inIf ∈ p.inIfs) ∧
      ((∀ u ∈ p.usages, u = 0) ∨ ∃ u ∈ p.usages, 0 < u ∧ usageHas r.usage u = true) ∧
      (∀ t, p.validAt = some t → r.info ≤ t ∧ t ≤ r.exp) := by
  unfold bMatches
  cases hv : p.validAt with
  | none =>
    simp [List.isEmpty_iff, List.any_eq_true, List.filter_eq_nil_iff, List.mem_filter]
    intros; constructor <;> (intro h; simpa [Nat.pos_iff_ne_zero, and_assoc] using h)
  | some t =>
    simp [List.isEmpty_iff, List.any_eq_true, List.filter_eq_nil_iff, List.mem_filter]
    intros; constructor <;> (intro h; simpa [Nat.pos_iff_ne_zero, and_assoc] using h)

theorem beacon_cleanup_exact (s : BeaconStore) (now : Nat) :
    (∀ r, r ∈ (deleteExpiredBeacons s now).1 ↔ r ∈ s ∧ now ≤ r.exp) ∧
    (deleteExpiredBeacons s now).2 = (s.filter (fun r => decide (r.exp < now))).length := by
  refine ⟨?_, ?_⟩
  · intro r; simp [deleteExpiredBeacons, List.mem_filter]
  · simp [deleteExpiredBeacons, List.countP_eq_length_filter]

/-! ## T3: the decisive comparisons as they stand in the source (regenerated on every run) -/

private def expectedNextQuerySQL : String :=
  "INSERT OR REPLACE INTO NextQuery (SrcIsdID, SrcAsID, DstIsdID, DstAsID, NextQuery) SELECT data.* FROM (SELECT ? AS SrcIsdID, ? AS SrcAsID, ? AS DstIsdID, ? AS DstAsID, ? AS lq) AS data LEFT JOIN NextQuery USING (SrcIsdID, SrcAsID, DstIsdID, DstAsID) WHERE data.lq > NextQuery.NextQuery OR NextQuery.DstIsdID IS NULL;"

private def expectedCandidatesSQL : String :=
  "SELECT b.Beacon, b.InIntfID FROM Beacons b WHERE ( b.Usage & ?1 ) == ?1 %s ORDER BY b.HopsLength ASC LIMIT ?2"

/-- version rule, interface refresh rule, expiry and next-query comparisons, candidate order:
    the operators the model transcribes are the ones in the source -/
theorem gen_store_decisions :
    Scion.Gen.StoresFacts.pathInsertConds = ["meta == nil", "newLastHopVersion <= oldLastHopVersion"] ∧
    Scion.Gen.StoresFacts.pathUpdateConds = ["!bytes.Equal(newFullID, meta.FullID)"] ∧
    Scion.Gen.StoresFacts.pathDeleteExpiredSQL = ["DELETE FROM Segments WHERE MaxExpiry < ?"] ∧
    Scion.Gen.StoresFacts.pathDeleteSegmentSQL = ["DELETE FROM Segments WHERE hex(SegID) LIKE ?"] ∧
    Scion.Gen.StoresFacts.pathInsertNextQuerySQL = [expectedNextQuerySQL] ∧
    Scion.Gen.StoresFacts.beaconInsertConds =
      ["meta != nil", "b.Segment.Info.Timestamp.After(meta.InfoTime)"] ∧
    Scion.Gen.StoresFacts.beaconCandidatesSQL =
      ["AND StartIsd == ?4 AND StartAs == ?5", expectedCandidatesSQL] ∧
    Scion.Gen.StoresFacts.beaconDeleteExpiredSQL = ["DELETE FROM Beacons WHERE ExpirationTime < ?"] := by
  refine ⟨by decide, by decide, by decide, by decide, by decide +kernel, by decide,
    by decide +kernel, by decide⟩

/-! ## Non-vacuity -/

private def iaA : IA := ⟨1, 0xff0000000110⟩
private def iaB : IA := ⟨1, 0xff0000000112⟩
private def sx (ver : Nat) (full : String) : SegIn :=
  ⟨"aa11".toList, full.toList, ver, 2000, iaA, iaB, [⟨iaA, 1⟩, ⟨iaB, 4⟩]⟩

/-- insert (up, group 7), older ignored, newer adds type down and group 9, group filter -/
example :
    (prun PathStore.empty 0
      [.insert (sx 10 "f1") 0 [7], .insert (sx 9 "f2") 1 [8], .insert (sx 11 "f3") 1 [9],
       .get ⟨[], [1], [9], [], [], [⟨1, 0⟩]⟩, .delExpired 2001, .get Params.all]).2 =
      [.stats ⟨1, 0⟩, .stats ⟨0, 0⟩, .stats ⟨0, 1⟩,
       .entries [⟨"aa11".toList, "f3".toList, 11, 2000, 1, [9], 2⟩], .count 1, .entries []] := by
  decide +kernel

example : PReachable (prun PathStore.empty 0 [.insert (sx 10 "f1") 0 [7]]).1 := ⟨_, 0, rfl⟩

end Scion.C27
