import Scion.Model.Dispatcher
import Scion.Gen.Wire
import Scion.Gen.Disp
/-!
# C44 — The shim dispatcher never reflects traffic to unintended hosts

Property theorems only.  Model: `Scion.Model.Dispatcher.process` — the decision of
`Server.processMsgNextHop` as a function of the received bytes, the outer IP destination
(`underlay`) and the configuration — tied to `dispatcher/dispatcher.go` by
`harness/cmd/dispatcher` through the `verif` hook.  `Out.reply` is by construction sent to
`prevHop` (the Go code assigns `dstAddrPort = prevHop` in that branch and nowhere else), `Out.fwd`
carries the received bytes unchanged.
-/
namespace Scion.C44
open Scion.Dispatcher Scion.Wire Scion.WireExt Scion.Util Scion

/-- the header the decision is based on is the decoded SCION header of the datagram (decoded as
the dispatcher's recycled layer does: unknown path types are carried as an opaque path) -/
theorem parsed_hdr_is_decoded (data : Bytes) (p : Parsed) (h : parseLayers data = some p) :
    ∃ payload, decodeSCIONRecycle data = .ok (p.hdr, payload, p.rawPath) := by
  unfold parseLayers at h
  split at h
  · cases h
  · rename_i hdr pl rp hd
    have key : ∀ n prev e2e nh d q, parseL4 hdr rp n prev e2e nh d = some q →
        q.hdr = hdr ∧ q.rawPath = rp := by
      intro n prev e2e nh d q hq
      unfold parseL4 at hq
      repeat' split at hq
      all_goals first | (cases hq; exact ⟨rfl, rfl⟩) | cases hq
    have key2 : ∀ n prev nh d q, parseE2E hdr rp n prev nh d = some q →
        q.hdr = hdr ∧ q.rawPath = rp := by
      intro n prev nh d q hq
      unfold parseE2E at hq
      repeat' split at hq
      all_goals first | (cases hq; exact ⟨rfl, rfl⟩) | cases hq | exact key _ _ _ _ _ _ hq
    refine ⟨pl, ?_⟩
    have : p.hdr = hdr ∧ p.rawPath = rp := by
      repeat' split at h
      all_goals first | (cases h; exact ⟨rfl, rfl⟩) | cases h | exact key2 _ _ _ _ _ h
    rw [this.1, this.2]
    exact hd

/-- for the four known path types the recycled layer decodes exactly as `Wire.decodeSCION` -/
theorem recycle_known_path (data : Bytes) (h : Hdr) (payload : Bytes)
    (hd : decodeSCIONRecycle data = .ok (h, payload, false)) :
    decodeSCION data = .ok (h, payload) := by
  unfold decodeSCIONRecycle at hd
  split at hd
  · cases hd
  · split at hd
    · split at hd
      · cases hd
      · rename_i h' p' he
        cases hd
        exact he
    · repeat' split at hd
      all_goals cases hd

theorem mkReply_ne_fwd (hdr : Hdr) (typ : Nat) (e : Option Nat) (n : Nat) (ip : Bytes) (port : Nat) :
    mkReply hdr typ e n ≠ .fwd ip port := by
  unfold mkReply
  split
  · simp
  · split <;> simp

theorem mkReply_eq_reply {hdr : Hdr} {typ : Nat} {e : Option Nat} {n : Nat} {rh : Hdr} {t : Nat}
    {b : Bool} (h : mkReply hdr typ e n = .reply rh t b) :
    ∃ h0, replyHdr hdr = some h0 ∧ rh = fixLengths h0 (replyPayloadLen e n) ∧ t = typ + 1 := by
  unfold mkReply at h
  split at h
  · cases h
  · rename_i h0 hh
    split at h
    · cases h
    · cases h
      exact ⟨h0, hh, rfl, rfl⟩

/-- **Forwarding.**  A datagram is forwarded (unchanged) only with the dispatcher function
enabled, only to an IP address equal to the outer IP destination of the datagram, and that address
is the packet's own SCION destination host — or, for a SCION/UDP packet to a service address, the
address registered for exactly that (ISD-AS, service). -/
theorem forward_only_to_own_dst (cfg : Cfg) (data underlay ip : Bytes) (port : Nat)
    (h : process cfg data underlay = .fwd ip port) :
    cfg.isDispatcher = true ∧ unmap ip = unmap underlay ∧
    ∃ p, parseLayers data = some p ∧
      ((ip = p.hdr.rawDst ∧ (ip.length = 4 ∨ ip.length = 16)) ∨
       (p.hdr.cmn.dstType = 4 ∧ ∃ e ∈ cfg.svcs, e.ia = p.hdr.dstIA ∧ e.ip = ip ∧ e.port = port ∧
          ∃ a b rest, p.hdr.rawDst = a :: b :: rest ∧ e.svc = beNat [a, b])) := by
  unfold process at h
  split at h
  · cases h
  · rename_i p hp
    split at h
    · cases h
    · split at h
      · -- SCMP
        rename_i sh pl hl
        split at h
        · split at h
          · cases h
          · exact absurd h (mkReply_ne_fwd _ _ _ _ _ _)
        · split at h
          · cases h
          · rename_i hdisp
            split at h
            · cases h
            · rename_i ip' port' hg
              split at h
              · rename_i hu
                cases h
                refine ⟨by simpa using hdisp, hu, p, hp, Or.inl ?_⟩
                -- getDstSCMP always answers with RawDstAddr of 4 or 16 bytes
                unfold getDstSCMP at hg
                have apb : ∀ raw pt r, addrPortFromBytes raw pt = some r →
                    r.1 = raw ∧ (raw.length = 4 ∨ raw.length = 16) := by
                  intro raw pt r hr
                  unfold addrPortFromBytes at hr
                  split at hr
                  · cases hr; exact ⟨rfl, by assumption⟩
                  · cases hr
                repeat' split at hg
                all_goals first
                  | cases hg
                  | (obtain ⟨e1, e2⟩ := apb _ _ _ hg; simp only at e1; subst e1; exact ⟨rfl, e2⟩)
              · cases h
      · -- UDP
        rename_i u hl
        split at h
        · cases h
        · rename_i hdisp
          split at h
          · cases h
          · rename_i ip' port' hg
            split at h
            · rename_i hu
              cases h
              refine ⟨by simpa using hdisp, hu, p, hp, ?_⟩
              unfold getDstSCIONUDP at hg
              split at hg
              · rename_i hsvc
                split at hg
                · rename_i a b rest hraw
                  unfold lookupSvc at hg
                  split at hg
                  · rename_i e he
                    cases hg
                    have hm := List.find?_some he
                    have hin := List.mem_of_find?_eq_some he
                    simp only [Bool.and_eq_true, beq_iff_eq] at hm
                    exact Or.inr ⟨hsvc, e, hin, hm.1, rfl, rfl, a, b, rest, hraw, hm.2⟩
                  · cases hg
                · cases hg
              · split at hg
                · unfold addrPortFromBytes at hg
                  split at hg
                  · cases hg; exact Or.inl ⟨rfl, by assumption⟩
                  · cases hg
                · cases hg
            · cases h
      · cases h

/-- **The forwarding port** is the SCION/UDP destination port for a UDP packet to an IP host, and
what `getDstSCMP` derives (identifier of an echo/traceroute reply, quoted UDP source port or quoted
echo/traceroute identifier) for an SCMP message that is not an echo/traceroute request. -/
theorem forward_port (cfg : Cfg) (data underlay ip : Bytes) (port : Nat)
    (h : process cfg data underlay = .fwd ip port) :
    ∃ p, parseLayers data = some p ∧ 2 ≤ p.nLayers ∧
      ((∃ u, p.last = .udp u ∧ (p.hdr.cmn.dstType = 4 ∨ port = u.dstPort)) ∨
       (∃ sh pl, p.last = .scmp sh pl ∧ sh.typ ≠ 128 ∧ sh.typ ≠ 130 ∧
          getDstSCMP p.hdr sh pl = some (ip, port))) := by
  unfold process at h
  split at h
  · cases h
  · rename_i p hp
    split at h
    · cases h
    · rename_i hn
      refine ⟨p, hp, by omega, ?_⟩
      split at h
      · rename_i sh pl hl
        split at h
        · split at h
          · cases h
          · exact absurd h (mkReply_ne_fwd _ _ _ _ _ _)
        · rename_i hreq
          split at h
          · cases h
          · split at h
            · cases h
            · rename_i ip' port' hg
              split at h
              · cases h
                exact Or.inr ⟨sh, pl, hl, by omega, by omega, hg⟩
              · cases h
      · rename_i u hl
        split at h
        · cases h
        · split at h
          · cases h
          · rename_i ip' port' hg
            split at h
            · cases h
              refine Or.inl ⟨u, hl, ?_⟩
              unfold getDstSCIONUDP at hg
              split at hg
              · left; assumption
              · split at hg
                · unfold addrPortFromBytes at hg
                  split at hg
                  · cases hg; right; rfl
                  · cases hg
                · cases hg
            · cases h
      · cases h

/-- **Echo / traceroute requests** are the only datagrams answered; the answer (sent to
`prevHop`) has ISD-ASes swapped, host addresses swapped (`repack` = `PackAddr ∘ ParseAddr`), the
path reversed, the reply type with code 0, and `NextHdr` = SCMP.  This holds with the dispatcher
function on or off. -/
theorem info_request_reply_to_prev_hop (cfg : Cfg) (data underlay : Bytes) (rh : Hdr) (t : Nat)
    (e : Bool) (h : process cfg data underlay = .reply rh t e) :
    ∃ p sh pl, parseLayers data = some p ∧ p.last = .scmp sh pl ∧ (sh.typ = 128 ∨ sh.typ = 130) ∧
      p.rawPath = false ∧ t = sh.typ + 1 ∧ rh.dstIA = p.hdr.srcIA ∧ rh.srcIA = p.hdr.dstIA ∧
      repack p.hdr.cmn.srcType p.hdr.rawSrc = some (rh.cmn.dstType, rh.rawDst) ∧
      repack p.hdr.cmn.dstType p.hdr.rawDst = some (rh.cmn.srcType, rh.rawSrc) ∧
      reversePath p.hdr.cmn.pathType p.hdr.path = some (rh.cmn.pathType, rh.path) ∧
      rh.cmn.nextHdr = 202 := by
  unfold process at h
  split at h
  · cases h
  · rename_i p hp
    split at h
    · cases h
    · split at h
      · rename_i sh pl hl
        split at h
        · rename_i hreq
          split at h
          · cases h
          rename_i hraw
          refine ⟨p, sh, pl, hp, hl, hreq, by simpa using hraw, ?_⟩
          obtain ⟨h0, hh, rfl, rfl⟩ := mkReply_eq_reply h
          unfold replyHdr at hh
          split at hh
          · rename_i nst nsrc ndt ndst hs hd
            split at hh
            · cases hh
            · rename_i pt rp hrev
              cases hh
              exact ⟨rfl, rfl, rfl, hs, hd, hrev, rfl⟩
          · cases hh
        · repeat' split at h
          all_goals cases h
      · repeat' split at h
        all_goals cases h
      · cases h

/-- **Everything else is dropped**: a datagram that does not parse, has fewer than two layers, or
whose last decoded layer is neither SCION/UDP nor SCMP. -/
theorem everything_else_dropped (cfg : Cfg) (data underlay : Bytes)
    (h : match parseLayers data with
         | none => True
         | some p => p.nLayers < 2 ∨ p.last = .scion ∨ p.last = .hbh ∨ p.last = .e2e) :
    process cfg data underlay = .drop := by
  unfold process
  split
  · rfl
  · rename_i p hp
    rw [hp] at h
    simp only at h
    split
    · rfl
    · rename_i hn
      rcases h with h | h | h | h
      · omega
      all_goals (rw [h])

/-- **Dispatcher function disabled**: nothing is ever forwarded; only echo/traceroute requests
are handled. -/
theorem disabled_only_info_requests (cfg : Cfg) (data underlay : Bytes)
    (hd : cfg.isDispatcher = false) :
    process cfg data underlay = .drop ∨ ∃ rh t e, process cfg data underlay = .reply rh t e := by
  cases hp : process cfg data underlay with
  | drop => exact Or.inl rfl
  | reply rh t e => exact Or.inr ⟨rh, t, e, rfl⟩
  | fwd ip port =>
    have := (forward_only_to_own_dst cfg data underlay ip port hp).1
    rw [hd] at this
    cases this

/-- swapping keeps the host: an IPv4 or IPv6 address comes back as the same address up to the
IPv4-in-IPv6 mapping (`PackAddr` unmaps), of a length `addrPortFromBytes` accepts -/
theorem repack_ip (t : Nat) (raw : Bytes) (nt : Nat) (nraw : Bytes) (ht : t = 0 ∨ t = 3)
    (hl : raw.length = addrLen t) (h : repack t raw = some (nt, nraw)) :
    unmap nraw = unmap raw ∧ (nt = 0 ∨ nt = 3) := by
  unfold repack at h
  rcases ht with rfl | rfl
  · simp only [if_true] at h
    cases h
    rw [fit_def4 raw hl]
    exact ⟨rfl, Or.inl rfl⟩
  · simp only [show ¬ (3 = 0) by decide, if_false, if_true] at h
    rw [fit_def16 raw hl] at h
    split at h
    · rename_i hu
      cases h
      refine ⟨?_, Or.inl rfl⟩
      -- unmap is idempotent on a 4-byte result
      exact unmap_len4 _ hu
    · cases h
      exact ⟨rfl, Or.inr rfl⟩
where
  unmap_len4 (x : Bytes) (h : x.length = 4) : unmap x = x := by
    match x, h with
    | [a, b, c, d], _ => simp [unmap]
  fit_def4 (raw : Bytes) (hl : raw.length = addrLen 0) : fit 4 raw = raw := by
    have : raw.length = 4 := by rw [hl]; rfl
    simp [fit, this]
  fit_def16 (raw : Bytes) (hl : raw.length = addrLen 3) : fit 16 raw = raw := by
    have : raw.length = 16 := by rw [hl]; rfl
    simp [fit, this]

/-- constants the decision depends on, re-extracted from the source on every run -/
theorem gen_consts :
    Scion.Gen.Wire.L4UDP = 17 ∧ Scion.Gen.Wire.L4SCMP = 202 ∧ Scion.Gen.Wire.HopByHopClass = 200 ∧
    Scion.Gen.Wire.End2EndClass = 201 ∧ Scion.Gen.Wire.T4Ip = 0 ∧ Scion.Gen.Wire.T4Svc = 4 ∧
    Scion.Gen.Wire.T16Ip = 3 ∧ Scion.Gen.Wire.EpicPathType = 3 ∧ Scion.Gen.Wire.ScionPathType = 1 ∧
    Scion.Gen.Disp.SCMPTypeEchoRequest = 128 ∧ Scion.Gen.Disp.SCMPTypeEchoReply = 129 ∧
    Scion.Gen.Disp.SCMPTypeTracerouteRequest = 130 ∧ Scion.Gen.Disp.SCMPTypeTracerouteReply = 131 ∧
    Scion.Gen.Disp.prevHopAssignments = 1 := by decide

/-! Non-vacuity: concrete datagrams exercise the three outcomes (checked by evaluation). -/
def exCfg : Cfg := ⟨true, []⟩
/-- SCION/UDP to 10.1.2.3:8080 over an empty path -/
def exUdp : Bytes :=
  [0, 0, 0, 1, 17, 9, 0, 9, 0, 0, 0, 0,
   0, 1, 0xff, 0, 0, 0, 1, 0x10, 0, 2, 0xff, 0, 0, 0, 2, 0x20, 10, 1, 2, 3, 10, 9, 9, 9,
   0x30, 0x39, 0x1f, 0x90, 0, 9, 0, 0, 0x55]
/-- the same header carrying an SCMP echo request -/
def exEcho : Bytes :=
  [0, 0, 0, 1, 202, 9, 0, 8, 0, 0, 0, 0,
   0, 1, 0xff, 0, 0, 0, 1, 0x10, 0, 2, 0xff, 0, 0, 0, 2, 0x20, 10, 1, 2, 3, 10, 9, 9, 9,
   128, 0, 0, 0, 0x12, 0x34, 0, 1]

example : process exCfg exUdp [10, 1, 2, 3] = .fwd [10, 1, 2, 3] 8080 := by decide
example : process exCfg exUdp [10, 1, 2, 4] = .drop := by decide
def replyInfo : Out → Option (Nat × Bool × Bytes × Bytes × Nat × Nat)
  | .reply rh t e => some (t, e, rh.rawDst, rh.rawSrc, rh.dstIA, rh.srcIA)
  | _ => none
example : replyInfo (process exCfg exEcho [10, 1, 2, 3]) =
    some (129, false, [10, 9, 9, 9], [10, 1, 2, 3], 0x0002ff0000000220, 0x0001ff0000000110) := by
  decide
example : replyInfo (process ⟨false, []⟩ exEcho []) =
    some (129, false, [10, 9, 9, 9], [10, 1, 2, 3], 0x0002ff0000000220, 0x0001ff0000000110) := by
  decide
example : process ⟨false, []⟩ exUdp [10, 1, 2, 3] = .drop := by decide

/-! ### two behaviours of the reply branch that the statement does not cover

Reading of the statement: it constrains *where traffic goes* (forward only to the packet's own
destination on this host; answer echo/traceroute only towards the previous hop, addresses swapped,
path reversed; drop the rest).  Both behaviours below keep all of that — the reply goes to
`prevHop` only, with swapped addresses and the reversed path content — but produce a reply the next
hop cannot use.  A reply that does not decode is discarded by the previous hop: nothing reaches an
unintended host, so neither is a violation of C44; they are recorded here (and in the registry
`level_note`) as facts about the code. -/

/-- (a) whatever extension headers the request had, the reply's SCION header announces SCMP as
next header — also when the E2E extension is serialized in front of the SCMP header (`e = true`) -/
theorem reply_nexthdr_is_scmp (cfg : Cfg) (data underlay : Bytes) (rh : Hdr) (t : Nat) (e : Bool)
    (h : process cfg data underlay = .reply rh t e) : rh.cmn.nextHdr = 202 := by
  obtain ⟨_, _, _, _, _, _, _, _, _, _, _, _, _, hn⟩ :=
    info_request_reply_to_prev_hop cfg data underlay rh t e h
  exact hn

/-- (b) reversing a one-hop path yields a SCION path but `reverseSCION` leaves the `PathType`
field as it was (only the EPIC case rewrites it) -/
theorem onehop_reply_keeps_pathtype (pt : Nat) (i : Info) (h1 h2 : Hop) (pt' : Nat) (p' : PathV)
    (h : reversePath pt (.onehop i h1 h2) = some (pt', p')) :
    pt' = pt ∧ ∃ body, p' = .scion ⟨0, 0, 2, 0, 0⟩ body ∧ body.length = 32 := by
  simp only [reversePath] at h
  split at h
  · cases h
  · cases h
    exact ⟨rfl, _, rfl, by simp [length_encInfo_c44, length_encHop_c44]⟩
where
  length_encInfo_c44 (i : Info) : (encInfo i).length = 8 := by simp [encInfo, natBE_len]
  length_encHop_c44 (h : Hop) : (encHop h).length = 12 := by simp [encHop, natBE_len, fit]
  natBE_len (k n : Nat) : (natBE k n).length = k := by
    induction k with
    | zero => simp [natBE]
    | succ k ih => simp [natBE, ih]

/-- … so such a reply (PathType one-hop, 36 path bytes) is rejected by `SCION.DecodeFromBytes`:
a concrete echo request over a one-hop path, its reply, and the decoder's answer -/
def exOhpReq : Hdr :=
  { cmn := ⟨0, 0, 1, 202, 17, 8, 2, 0, 0⟩, dstIA := 0x0001ff0000000110, srcIA := 0x0002ff0000000220,
    rawDst := [10, 1, 2, 3], rawSrc := [10, 9, 9, 9],
    path := .onehop ⟨false, true, 7, 1700000000⟩ ⟨false, false, 63, 0, 5, [1, 2, 3, 4, 5, 6]⟩
      ⟨false, false, 63, 9, 0, [6, 5, 4, 3, 2, 1]⟩ }

def replyDecodes (o : Out) : Option Bool :=
  match o with
  | .reply rh _ _ =>
    match encodeSCION rh with
    | .ok rb => (match decodeSCION (rb ++ [129, 0, 0, 0, 0x12, 0x34, 0, 1]) with
      | .ok _ => some true | .error _ => some false)
    | .error _ => none
  | _ => none

example : (match encodeSCION exOhpReq with
    | .ok b => replyDecodes (process exCfg (b ++ [128, 0, 0, 0, 0x12, 0x34, 0, 1]) [10, 1, 2, 3])
    | .error _ => none) = some false := by decide

/-- for comparison: the reply to the same request over an empty path decodes -/
example : replyDecodes (process exCfg exEcho [10, 1, 2, 3]) = some true := by decide

end Scion.C44
