import Scion.Model.Ohp
import Scion.Gen.R2Ohp
import Scion.Proofs.R2OhpCodec
/-! C12 — one-hop paths are issued and completed only between the right neighbours.
    Theorems about `Scion.Ohp.process` (model of `processOHP`), for every configuration, every MAC
    function, every packet. -/
namespace Scion.C12
open Scion.Ohp Scion.Util Scion.R2OhpCodec

/-- the path the issuing router sends on: SegID accumulated with the first hop's MAC -/
def issued (path : Path) : Path := { path with info := updateSegID path.info path.first.mac }

/-- the path the receiving router hands to the local destination -/
def completed (mac : Mac) (ingress : Nat) (path : Path) : Path :=
  { path with second := secondHop mac ingress path }

/-- **Leaving the AS** (packet from the internal network or a sibling router): forwarded exactly when
    the header decodes as a one-hop path in construction direction, the source is the local AS, the
    `PayloadLen` equals the number of bytes after the header, the
    first hop's egress interface has a neighbour and that neighbour is the destination AS, and the first
    hop's MAC is the router's MAC over (SegID, timestamp, expiry, interfaces); it then leaves through the
    first hop's egress interface with the SegID updated. -/
theorem ohp_out_iff (c : Cfg) (mac : Mac) (p : Pkt) (e : Nat) (q : Path) (h0 : p.ingress = 0) :
    process c mac p = .fwd e q ↔
      ∃ path, decodeStage p = some path ∧ path.info.consDir = true ∧
        p.payloadLen = p.dataLen - p.hdrBytes ∧ p.srcIA = c.localIA ∧
        c.nb path.first.consEgress ≠ 0 ∧ p.dstIA = c.nb path.first.consEgress ∧
        path.first.mac = hopMac mac path.info path.first ∧
        e = path.first.consEgress ∧ q = issued path := by
  unfold process
  cases hd : decodeStage p with
  | none => simp
  | some path =>
    cases hc : path.info.consDir with
    | false => simp [hc]
    | true =>
      by_cases hpl : p.payloadLen = p.dataLen - p.hdrBytes
      · simp only [hc, Bool.true_eq_false, if_false, hpl, ne_eq, not_true_eq_false, h0, if_true, outStage]
        constructor
        · intro h
          split at h
          · cases h
          · split at h
            · cases h
            · split at h
              · cases h
              · split at h
                · cases h
                · rename_i h1 h2 h3 h4
                  injection h with he hq
                  refine ⟨path, rfl, hc, trivial, ?_, h2, ?_, ?_, he.symm, hq.symm⟩
                  · exact (Decidable.not_not.mp h1).symm
                  · exact (Decidable.not_not.mp h3).symm
                  · exact Decidable.not_not.mp h4
        · rintro ⟨path', hp, _, _, hs, hn, hd', hm, he, hq⟩
          cases hp
          rw [if_neg (by simp [hs]), if_neg hn, if_neg (by simp [hd']), if_neg (by simp [← hm])]
          simp [he, hq, issued]
      · simp only [hc, Bool.true_eq_false, if_false, ne_eq, hpl, not_false_eq_true, if_true]
        constructor
        · intro h; cases h
        · rintro ⟨path', hp, _, hpl', _⟩
          exact hpl'.elim

/-- **Entering the AS** (packet received on an external interface): accepted exactly when the header
    decodes as a one-hop path in construction direction, the destination is the local AS, the source is
    the neighbour configured for the receiving interface and the local destination resolves; it is then
    handed to the internal network with the second hop field filled in. -/
theorem ohp_in_iff (c : Cfg) (mac : Mac) (p : Pkt) (e : Nat) (q : Path) (h0 : p.ingress ≠ 0) :
    process c mac p = .fwd e q ↔
      ∃ path, decodeStage p = some path ∧ path.info.consDir = true ∧
        p.payloadLen = p.dataLen - p.hdrBytes ∧ p.dstIA = c.localIA ∧
        p.srcIA = c.nb p.ingress ∧ p.resolves = true ∧ e = 0 ∧ q = completed mac p.ingress path := by
  unfold process
  cases hd : decodeStage p with
  | none => simp
  | some path =>
    cases hc : path.info.consDir with
    | false => simp [hc]
    | true =>
      by_cases hpl : p.payloadLen = p.dataLen - p.hdrBytes
      · simp only [hc, Bool.true_eq_false, if_false, hpl, ne_eq, not_true_eq_false, h0, inStage]
        constructor
        · intro h
          split at h
          · cases h
          · split at h
            · cases h
            · split at h
              · cases h
              · rename_i h1 h2 h3
                injection h with he hq
                refine ⟨path, rfl, hc, trivial, (Decidable.not_not.mp h1).symm, (Decidable.not_not.mp h2).symm, ?_, he.symm, hq.symm⟩
                cases hr : p.resolves <;> simp_all
        · rintro ⟨path', hp, _, _, hdst, hs, hr, he, hq⟩
          cases hp
          rw [if_neg (by simp [hdst]), if_neg (by simp [hs]), if_neg (by simp [hr])]
          simp [he, hq, completed]
      · simp only [hc, Bool.true_eq_false, if_false, ne_eq, hpl, not_false_eq_true, if_true]
        constructor
        · intro h; cases h
        · rintro ⟨path', hp, _, hpl', _⟩
          exact hpl'.elim

/-- No one-hop packet is forwarded unless `HdrLen` covers exactly common header + addresses + 32 path
    bytes (header slack is rejected; repaired defect, see seeded/fixrevert-C18-hdrlen-slack). -/
theorem ohp_hdrlen_exact (c : Cfg) (mac : Mac) (p : Pkt) (e : Nat) (q : Path)
    (h : process c mac p = .fwd e q) : p.hdrBytes = 12 + p.addrLen + 32 ∧ p.hdrBytes ≤ p.dataLen := by
  unfold process at h
  cases hd : decodeStage p with
  | none => simp [hd] at h
  | some path =>
    unfold decodeStage at hd
    split at hd
    · cases hd
    · split at hd
      · cases hd
      · split at hd
        · cases hd
        · split at hd
          · cases hd
          · rename_i h1 h2 _ _ _ h3
            simp only [PathLen] at h3
            omega

/-- A forwarded one-hop packet always was in construction direction. -/
theorem ohp_consdir (c : Cfg) (mac : Mac) (p : Pkt) (e : Nat) (q : Path)
    (h : process c mac p = .fwd e q) : q.info.consDir = true := by
  by_cases h0 : p.ingress = 0
  · obtain ⟨path, _, hc, _, _, _, _, _, _, hq⟩ := (ohp_out_iff c mac p e q h0).mp h
    simp [hq, issued, updateSegID, hc]
  · obtain ⟨path, _, hc, _, _, _, _, _, hq⟩ := (ohp_in_iff c mac p e q h0).mp h
    simp [hq, completed, hc]

/-- **The second hop field is valid**: it names the receiving interface as ingress, no egress, the
    first hop's expiry, and carries this router's MAC over the info field as received (i.e. with the
    SegID already accumulated by the issuing router). Info field and first hop are untouched. -/
theorem ohp_second_hop_valid (c : Cfg) (mac : Mac) (p : Pkt) (e : Nat) (q : Path) (h0 : p.ingress ≠ 0)
    (h : process c mac p = .fwd e q) :
    q.second.mac = hopMac mac q.info q.second ∧ q.second.consIngress = p.ingress ∧
      q.second.consEgress = 0 ∧ q.second.exp = q.first.exp ∧
      q.second.ingAlert = false ∧ q.second.egAlert = false ∧
      ∃ path, decodeStage p = some path ∧ q.info = path.info ∧ q.first = path.first := by
  obtain ⟨path, hd, _, _, _, _, _, _, hq⟩ := (ohp_in_iff c mac p e q h0).mp h
  subst hq
  refine ⟨?_, rfl, rfl, rfl, rfl, rfl, path, hd, rfl, rfl⟩
  simp [completed, secondHop, hopMac]

/-- XOR-ing the same 16-bit value twice restores the SegID. -/
theorem updateSegID_twice (i : Info) (m : Bytes) : updateSegID (updateSegID i m) m = i := by
  cases i
  simp [updateSegID, Nat.xor_assoc]

/-- What plain SCION processing checks of a hop field against construction direction
    (`validateIngressID`/`egressInterface`, `updateNonConsDirIngressSegID`, `verifyCurrentMAC`):
    `ingress` is the interface the packet arrives on (0: internal), `hop` the current hop, `info` the
    info field as carried. -/
def reverseHopOk (mac : Mac) (ingress : Nat) (info : Info) (hop : Hop) : Prop :=
  (ingress = 0 ∨ ingress = hop.consEgress) ∧
    hop.mac = hopMac mac (if ingress = 0 then info else updateSegID info hop.mac) hop

/-- **The reversed one-hop path is accepted by both routers.** If router A (configuration `cA`, MAC
    `macA`) issues a one-hop packet and neighbour B (`cB`, `macB`) completes what A sent on interface
    `pB.ingress`, then on the way back (segment against construction direction, hops in reverse order)
    * at B, coming from the internal network, the second hop verifies under B's MAC with the SegID as
      carried, and its egress is the interface the packet had come in on;
    * at A, arriving on A's interface `first.consEgress`, the first hop verifies under A's MAC after the
      ingress SegID update, which restores the SegID A had originally verified. -/
theorem ohp_reverse_accepted (cA cB : Cfg) (macA macB : Mac) (pA pB : Pkt) (eA eB : Nat) (q1 q2 : Path)
    (hA0 : pA.ingress = 0) (hB0 : pB.ingress ≠ 0)
    (hcfg : cA.nb 0 = 0)          -- no neighbour AS is configured behind the internal interface
    (hA : process cA macA pA = .fwd eA q1)
    (hB : process cB macB pB = .fwd eB q2)
    (hlink : decodeStage pB = some q1) :
    reverseHopOk macB 0 q2.info q2.second ∧ q2.second.consIngress = pB.ingress ∧
      reverseHopOk macA eA q2.info q2.first := by
  obtain ⟨path, _, _, _, _, hn, _, hm, he, hq1⟩ := (ohp_out_iff cA macA pA eA q1 hA0).mp hA
  obtain ⟨hm2, hi2, _, _, _, _, path2, hd2, hinfo, hfirst⟩ := ohp_second_hop_valid cB macB pB eB q2 hB0 hB
  rw [hlink] at hd2
  cases hd2
  refine ⟨⟨Or.inl rfl, by simpa using hm2⟩, hi2, ?_, ?_⟩
  · right
    rw [hfirst, hq1, he]; rfl
  · rw [hinfo, hfirst, hq1]
    simp only [issued]
    by_cases hz : eA = 0
    · rw [he] at hz; rw [hz] at hn; exact absurd hcfg hn
    · simp only [hz, if_false, updateSegID_twice]
      exact hm

/-- The one-hop packet the router's own BFD sender builds (`newBFDSend`/`bfdSend.Send`: construction
    direction, SegID 0, egress = the link's interface, expiry 63, MAC computed with the router's key). -/
def bfdSendPath (mac : Mac) (ifID ts : Nat) : Path :=
  let info : Info := { peer := false, consDir := true, segID := 0, ts := ts }
  let h : Hop := { ingAlert := false, egAlert := false, exp := 63, consIngress := 0, consEgress := ifID, mac := [] }
  let z : Hop := { ingAlert := false, egAlert := false, exp := 0, consIngress := 0, consEgress := 0, mac := [0, 0, 0, 0, 0, 0] }
  { info := info, first := { h with mac := hopMac mac info h }, second := z }

/-- `bfdSend.Send`'s packets are instances of the rule: with source = local AS and destination = the
    configured neighbour of the link's interface they meet every condition of `ohp_out_iff`. -/
theorem bfd_send_is_instance (c : Cfg) (mac : Mac) (p : Pkt) (ifID ts : Nat)
    (h0 : p.ingress = 0) (hd : decodeStage p = some (bfdSendPath mac ifID ts))
    (hpl : p.payloadLen = p.dataLen - p.hdrBytes)
    (hs : p.srcIA = c.localIA) (hn : c.nb ifID ≠ 0) (hdst : p.dstIA = c.nb ifID) :
    process c mac p = .fwd ifID (issued (bfdSendPath mac ifID ts)) :=
  (ohp_out_iff c mac p ifID _ h0).mpr ⟨_, hd, rfl, hpl, hs, hn, hdst, rfl, rfl, rfl⟩

/-- a forwarded packet decoded to some path, and every field of that path fits its wire width -/
theorem fwd_decoded (c : Cfg) (mac : Mac) (p : Pkt) (e : Nat) (q : Path) (h : process c mac p = .fwd e q) :
    ∃ path, decodeStage p = some path ∧ InfoWF path.info ∧ HopWF path.first ∧ HopWF path.second := by
  have : ∃ path, decodeStage p = some path := by
    by_cases h0 : p.ingress = 0
    · obtain ⟨path, hd, _⟩ := (ohp_out_iff c mac p e q h0).mp h; exact ⟨path, hd⟩
    · obtain ⟨path, hd, _⟩ := (ohp_in_iff c mac p e q h0).mp h; exact ⟨path, hd⟩
  obtain ⟨path, hd⟩ := this
  refine ⟨path, hd, ?_⟩
  unfold decodeStage at hd
  split at hd
  · cases hd
  · split at hd
    · cases hd
    · split at hd
      · cases hd
      · rename_i path' hdp
        split at hd
        · cases hd
        · injection hd with hd; subst hd
          exact decodePath_wf _ _ hdp

/-- the wire form of what the issuing router sends decodes, at the receiving router, to the same path -/
theorem decodeStage_of_wire (p : Pkt) (q : Path) (hi : InfoWF q.info) (h1 : HopWF q.first) (h2 : HopWF q.second)
    (hreg : p.region = encodePath q) (hh : p.hdrBytes = 12 + p.addrLen + 32) (hd : p.hdrBytes ≤ p.dataLen) :
    decodeStage p = some q := by
  have hl : (encodePath q).length = 32 := by simp [encodePath, encodeInfo_length, encodeHop_length]
  unfold decodeStage
  rw [if_neg (by omega), if_neg (by omega)]
  have h32 : p.hdrBytes - 12 - p.addrLen = 32 := by omega
  rw [h32, hreg, List.take_of_length_le (by omega), decodePath_encodePath q hi h1 h2]
  simp [PathLen]

/-- **The reversed one-hop path is accepted by both routers — on the wire.** As `ohp_reverse_accepted`, with
    the link between the two routers made explicit: the path bytes B receives are the serialisation of
    the path A forwarded. -/
theorem ohp_reverse_accepted_wire (cA cB : Cfg) (macA macB : Mac) (pA pB : Pkt) (eA eB : Nat) (q1 q2 : Path)
    (hA0 : pA.ingress = 0) (hB0 : pB.ingress ≠ 0) (hcfg : cA.nb 0 = 0)
    (hA : process cA macA pA = .fwd eA q1)
    (hB : process cB macB pB = .fwd eB q2)
    (hwire : pB.region = encodePath q1) :
    reverseHopOk macB 0 q2.info q2.second ∧ q2.second.consIngress = pB.ingress ∧
      reverseHopOk macA eA q2.info q2.first := by
  obtain ⟨path, hdA, hwi, hw1, hw2⟩ := fwd_decoded cA macA pA eA q1 hA
  obtain ⟨_, _, _, _, _, _, _, _, _, hq1⟩ := (ohp_out_iff cA macA pA eA q1 hA0).mp hA
  have hq1' : q1 = issued path := by
    obtain ⟨path', hd', _, _, _, _, _, _, _, hq⟩ := (ohp_out_iff cA macA pA eA q1 hA0).mp hA
    rw [hdA] at hd'; cases hd'; exact hq
  have hlen := ohp_hdrlen_exact cB macB pB eB q2 hB
  have hlink : decodeStage pB = some q1 := by
    apply decodeStage_of_wire pB q1 _ _ _ hwire hlen.1 hlen.2
    · rw [hq1']; exact updateSegID_wf _ _ hwi
    · rw [hq1']; exact hw1
    · rw [hq1']; exact hw2
  exact ohp_reverse_accepted cA cB macA macB pA pB eA eB q1 q2 hA0 hB0 hcfg hA hB hlink

/-- the BFD sender's packet as bytes: a packet whose path bytes are the serialisation of `bfdSendPath`
    (interface and timestamp within their wire width, MAC function returning at least six bytes) is
    forwarded by `processOHP` under the conditions of `bfd_send_is_instance` -/
theorem bfd_send_is_instance_wire (c : Cfg) (mac : Mac) (p : Pkt) (ifID ts : Nat)
    (hif : ifID < 65536) (hts : ts < 4294967296) (hmac : ∀ x, 6 ≤ (mac x).length)
    (h0 : p.ingress = 0) (hreg : p.region = encodePath (bfdSendPath mac ifID ts))
    (hh : p.hdrBytes = 12 + p.addrLen + 32) (hd : p.hdrBytes ≤ p.dataLen)
    (hpl : p.payloadLen = p.dataLen - p.hdrBytes)
    (hs : p.srcIA = c.localIA) (hn : c.nb ifID ≠ 0) (hdst : p.dstIA = c.nb ifID) :
    process c mac p = .fwd ifID (issued (bfdSendPath mac ifID ts)) := by
  apply bfd_send_is_instance c mac p ifID ts h0 _ hpl hs hn hdst
  apply decodeStage_of_wire p _ _ _ _ hreg hh hd
  · exact ⟨by simp [bfdSendPath], by simpa [bfdSendPath] using hts⟩
  · refine ⟨by simp [bfdSendPath], by simp [bfdSendPath], by simpa [bfdSendPath] using hif, ?_⟩
    have := hmac (macInput 0 ts 63 0 ifID)
    simp [bfdSendPath, hopMac, List.length_take]; omega
  · exact ⟨by simp [bfdSendPath], by simp [bfdSendPath], by simp [bfdSendPath], by simp [bfdSendPath]⟩

/-- T3: sizes the model uses are the ones in the source -/
theorem gen_consts :
    PathLen = Scion.Gen.R2Ohp.PathLen ∧ Scion.Gen.R2Ohp.CmnHdrLen = 12 ∧ Scion.Gen.R2Ohp.MacLen = 6 ∧
    Scion.Gen.R2Ohp.MACBufferSize = 16 ∧ (bfdSendPath id 1 0).first.exp = Scion.Gen.R2Ohp.hopFieldDefaultExpTime ∧
    (macInput 0 0 0 0 0).length = Scion.Gen.R2Ohp.MACBufferSize := by decide

/-- the checks of `processOHP` the stages of the model were written against, in source order: path type,
    ConsDir, PayloadLen; then, leaving: source AS, neighbour known, neighbour = destination, MAC; entering:
    destination AS, neighbour = source; re-serialisation and local resolution errors -/
def expectedProcessOHPConds : List String :=
  ["!ok", "!ohp.Info.ConsDir", "int(s.PayloadLen) != len(s.Payload)", "p.ingressFromLink == 0",
   "!p.d.localIA.Equal(s.SrcIA)", "neighborIA.IsZero()", "!neighborIA.Equal(s.DstIA)",
   "subtle.ConstantTimeCompare(ohp.FirstHop.Mac[:], mac[:]) == 0",
   "err := updateSCIONLayer(p.pkt.RawPacket, s); err != nil", "!p.d.localIA.Equal(s.DstIA)",
   "!neighborIA.Equal(s.SrcIA)", "err := updateSCIONLayer(p.pkt.RawPacket, s); err != nil", "err != nil"]

/-- T3: `processOHP` still has these checks in this order -/
theorem gen_processOHP_shape : Scion.Gen.R2Ohp.processOHPConds = expectedProcessOHPConds := by decide

/-! Non-vacuity: with the identity as "MAC", AS 1 (interface 5 towards AS 2) issues a one-hop packet and
    AS 2 (interface 9 towards AS 1) completes it. -/
def exRegion : Bytes := encodePath (bfdSendPath id 5 1000)
def exOut : Pkt := { ingress := 0, srcIA := 1, dstIA := 2, hdrBytes := 68, addrLen := 24, dataLen := 76, payloadLen := 8,
                     region := exRegion, resolves := false }
def exIn : Pkt := { ingress := 9, srcIA := 1, dstIA := 2, hdrBytes := 68, addrLen := 24, dataLen := 76, payloadLen := 8,
                    region := encodePath (issued (bfdSendPath id 5 1000)), resolves := true }

example : process { localIA := 1, nbs := [(5, 2)] } id exOut = .fwd 5 (issued (bfdSendPath id 5 1000)) := by decide
example : process { localIA := 2, nbs := [(9, 1)] } id exIn =
    .fwd 0 (completed id 9 (issued (bfdSendPath id 5 1000))) := by decide
-- a slack header (one line more than the path needs) is dropped
example : process { localIA := 1, nbs := [(5, 2)] } id { exOut with hdrBytes := 72, dataLen := 80 } = .drop := by decide
-- a PayloadLen that disagrees with the bytes after the header is dropped
example : process { localIA := 1, nbs := [(5, 2)] } id { exOut with payloadLen := 9 } = .drop := by decide

end Scion.C12
