import Scion.Model.Net
import Scion.Proofs.Net
/-!
# C04 — Tampered hop or info fields prevent delivery

Symbolic MAC: the theorems take the explicit hypothesis `MacInj` (the MAC primitive is injective in
its input for the key at hand; 48-bit truncation collisions are outside the model) and prove what
the *code* controls: the MAC input is an injective function of exactly the protected fields
(`macInput_injective`), every router recomputes it over the fields the packet carries
(`routerStep_accepting` in `Scion.Proofs.Net`), hence a packet whose current hop/info field was
altered in any protected value is not let through by the router that validates it.
The model `Scion.Net.routerStep` is tied to the real routers by engine `net`, whose C04 run flips
bits of every protected field of real paths and follows the packet through the real routers.
-/
namespace Scion.C04
open Scion.Net

/-- the MAC primitive does not collide under key `k` -/
def MacInj (mac : MacFn) (k : Bytes) : Prop := ∀ a b, mac k a = mac k b → a = b

theorem byte_inj (x y : Nat) (h : UInt8.ofNat x = UInt8.ofNat y) : x % 256 = y % 256 := by
  have := congrArg UInt8.toNat h
  simpa using this

/-- the values that fit the wire format -/
structure InRange (i : Info) (h : Hop) : Prop where
  seg : i.segID < 65536
  ts : i.ts < 4294967296
  exp : h.exp < 256
  cin : h.cIn < 65536
  ceg : h.cEg < 65536

/-- the MAC input determines every protected value (and nothing else enters it) -/
theorem macInput_injective (s1 t1 e1 i1 g1 s2 t2 e2 i2 g2 : Nat)
    (hs1 : s1 < 65536) (hs2 : s2 < 65536) (ht1 : t1 < 4294967296) (ht2 : t2 < 4294967296)
    (he1 : e1 < 256) (he2 : e2 < 256) (hi1 : i1 < 65536) (hi2 : i2 < 65536)
    (hg1 : g1 < 65536) (hg2 : g2 < 65536)
    (h : macInput s1 t1 e1 i1 g1 = macInput s2 t2 e2 i2 g2) :
    s1 = s2 ∧ t1 = t2 ∧ e1 = e2 ∧ i1 = i2 ∧ g1 = g2 := by
  simp only [macInput, be16, be32, List.cons_append, List.nil_append, List.cons.injEq, and_true,
    true_and] at h
  obtain ⟨a1, a2, b1, b2, b3, b4, c1, d1, d2, f1, f2⟩ := h
  have := byte_inj _ _ a1; have := byte_inj _ _ a2; have := byte_inj _ _ b1
  have := byte_inj _ _ b2; have := byte_inj _ _ b3; have := byte_inj _ _ b4
  have := byte_inj _ _ c1; have := byte_inj _ _ d1; have := byte_inj _ _ d2
  have := byte_inj _ _ f1; have := byte_inj _ _ f2
  refine ⟨?_, ?_, ?_, ?_, ?_⟩ <;> omega

/-- the protected values of a hop as validated: SegID and timestamp of its info field, its expiry,
    its two interfaces and its MAC -/
def protectedOf (i : Info) (h : Hop) : Nat × Nat × Nat × Nat × Nat × Nat :=
  (i.segID, i.ts, h.exp, h.cIn, h.cEg, h.mac)

/-- the values that enter the MAC computation -/
def inputOf (i : Info) (h : Hop) : Nat × Nat × Nat × Nat × Nat :=
  (i.segID, i.ts, h.exp, h.cIn, h.cEg)

/-- a hop/info pair that verifies no longer verifies after a change of a protected value —
    either one or several of the values entering the MAC with the MAC left alone, or the MAC
    itself with the other values left alone (a change of both at once is a forgery, which the
    model cannot exclude without assumptions about the secrecy of the key) -/
theorem tamper_hop_rejected (mac : MacFn) (k : Bytes) (hinj : MacInj mac k)
    (i i' : Info) (h h' : Hop) (r : InRange i h) (r' : InRange i' h')
    (hok : macOk mac k i h = true) (hne : protectedOf i' h' ≠ protectedOf i h)
    (hone : h'.mac = h.mac ∨ inputOf i' h' = inputOf i h) :
    macOk mac k i' h' = false := by
  simp only [macOk, beq_iff_eq] at hok
  apply Bool.eq_false_iff.2
  intro hok'
  simp only [macOk, beq_iff_eq] at hok'
  rcases hone with hm | hin
  · -- same tag: some input value differs, so the recomputed tag differs
    have heq : mac k (macInput i.segID i.ts h.exp h.cIn h.cEg) =
        mac k (macInput i'.segID i'.ts h'.exp h'.cIn h'.cEg) := by rw [hok, hok', hm]
    have := hinj _ _ heq
    obtain ⟨e1, e2, e3, e4, e5⟩ := macInput_injective _ _ _ _ _ _ _ _ _ _ r.seg r'.seg r.ts r'.ts
      r.exp r'.exp r.cin r'.cin r.ceg r'.ceg this
    apply hne
    simp [protectedOf, e1, e2, e3, e4, e5, hm]
  · -- same input: the tag was changed
    simp only [inputOf, Prod.mk.injEq] at hin
    obtain ⟨e1, e2, e3, e4, e5⟩ := hin
    apply hne
    simp only [protectedOf, e1, e2, e3, e4, e5, Prod.mk.injEq, true_and]
    rw [← hok', ← hok, e1, e2, e3, e4, e5]

/-- **per router**: if the hop field a router is about to validate (or its info field, as it
    stands after the ingress SegID update) carries an altered protected value, the router does not
    let the packet continue: neither forwarded nor delivered.  `c` is the genuine packet as it
    would have arrived, `c'` the tampered one; both are looked at after `updateNonConsDirIngressSegID`. -/
theorem tampered_current_hop_not_forwarded (mac : MacFn) (cfg : RCfg) (hinj : MacInj mac cfg.key)
    (now : Nat) (arr : Arrival) (sl dl : Bool) (c c' : Cursor) (p : Bool)
    (hp' : determinePeer c' = some p)
    (r : InRange (ingUpd c arr p).info (ingUpd c arr p).cur)
    (r' : InRange (ingUpd c' arr p).info (ingUpd c' arr p).cur)
    (hok : macOk mac cfg.key (ingUpd c arr p).info (ingUpd c arr p).cur = true)
    (hne : protectedOf (ingUpd c' arr p).info (ingUpd c' arr p).cur ≠
           protectedOf (ingUpd c arr p).info (ingUpd c arr p).cur)
    (hone : (ingUpd c' arr p).cur.mac = (ingUpd c arr p).cur.mac ∨
            inputOf (ingUpd c' arr p).info (ingUpd c' arr p).cur =
            inputOf (ingUpd c arr p).info (ingUpd c arr p).cur) :
    (routerStep mac cfg now arr sl dl c').accepting = false := by
  apply Bool.eq_false_iff.2
  intro hacc
  obtain ⟨q, hq, hm, _⟩ := routerStep_accepting mac cfg now arr sl dl c' hacc
  rw [hp'] at hq
  cases hq
  have := tamper_hop_rejected mac cfg.key hinj _ _ _ _ r r' hok hne hone
  rw [this] at hm
  cases hm

/-- the hypothesis is satisfiable: a MAC function that returns its input (as a number) never
    collides -/
def idMac : MacFn := fun _ inp => inp.foldl (fun acc b => acc * 256 + b.toNat) 0

end Scion.C04
