import Scion.Model.Net
import Scion.Proofs.Net
import Scion.Proofs.NetTamper
/-!
# C04 — Tampered hop or info fields prevent delivery

Symbolic MAC: the theorems take the explicit hypothesis `MacInj` (the MAC primitive is injective in
its input for the key at hand; 48-bit truncation collisions are outside the model) and prove what
the *code* controls: the MAC input is an injective function of exactly the protected fields
(`macInput_injective`), every router recomputes it over the fields the packet carries
(`routerStep_accepting` in `Scion.Proofs.Net`), hence a packet whose current hop/info field was
altered in any protected value is not let through by the router that validates it.
The model `Scion.Net.routerStep` is tied to the real routers by engine `net`, whose C04 run flips
bits of every protected field of real paths and follows the packet through the real routers.
-/
namespace Scion.C04
open Scion.Net

/-- the MAC primitive does not collide under key `k` -/
def MacInj (mac : MacFn) (k : Bytes) : Prop := ∀ a b, mac k a = mac k b → a = b

theorem byte_inj (x y : Nat) (h : UInt8.ofNat x = UInt8.ofNat y) : x % 256 = y % 256 := by
  have := congrArg UInt8.toNat h
  simpa using this

/-- the values that fit the wire format -/
structure InRange (i : Info) (h : Hop) : Prop where
  seg : i.segID < 65536
  ts : i.ts < 4294967296
  exp : h.exp < 256
  cin : h.cIn < 65536
  ceg : h.cEg < 65536

/-- the MAC input determines every protected value (and nothing else enters it) -/
theorem macInput_injective (s1 t1 e1 i1 g1 s2 t2 e2 i2 g2 : Nat)
    (hs1 : s1 < 65536) (hs2 : s2 < 65536) (ht1 : t1 < 4294967296) (ht2 : t2 < 4294967296)
    (he1 : e1 < 256) (he2 : e2 < 256) (hi1 : i1 < 65536) (hi2 : i2 < 65536)
    (hg1 : g1 < 65536) (hg2 : g2 < 65536)
    (h : macInput s1 t1 e1 i1 g1 = macInput s2 t2 e2 i2 g2) :
    s1 = s2 ∧ t1 = t2 ∧ e1 = e2 ∧ i1 = i2 ∧ g1 = g2 := by
  simp only [macInput, be16, be32, List.cons_append, List.nil_append, List.cons.injEq, and_true,
    true_and] at h
  obtain ⟨a1, a2, b1, b2, b3, b4, c1, d1, d2, f1, f2⟩ := h
  have := byte_inj _ _ a1; have := byte_inj _ _ a2; have := byte_inj _ _ b1
  have := byte_inj _ _ b2; have := byte_inj _ _ b3; have := byte_inj _ _ b4
  have := byte_inj _ _ c1; have := byte_inj _ _ d1; have := byte_inj _ _ d2
  have := byte_inj _ _ f1; have := byte_inj _ _ f2
  refine ⟨?_, ?_, ?_, ?_, ?_⟩ <;> omega

/-- the protected values of a hop as validated: SegID and timestamp of its info field, its expiry,
    its two interfaces and its MAC -/
def protectedOf (i : Info) (h : Hop) : Nat × Nat × Nat × Nat × Nat × Nat :=
  (i.segID, i.ts, h.exp, h.cIn, h.cEg, h.mac)

/-- the values that enter the MAC computation -/
def inputOf (i : Info) (h : Hop) : Nat × Nat × Nat × Nat × Nat :=
  (i.segID, i.ts, h.exp, h.cIn, h.cEg)

/-- a hop/info pair that verifies no longer verifies after a change of a protected value —
    either one or several of the values entering the MAC with the MAC left alone, or the MAC
    itself with the other values left alone (a change of both at once is a forgery, which the
    model cannot exclude without assumptions about the secrecy of the key) -/
theorem tamper_hop_rejected (mac : MacFn) (k : Bytes) (hinj : MacInj mac k)
    (i i' : Info) (h h' : Hop) (r : InRange i h) (r' : InRange i' h')
    (hok : macOk mac k i h = true) (hne : protectedOf i' h' ≠ protectedOf i h)
    (hone : h'.mac = h.mac ∨ inputOf i' h' = inputOf i h) :
    macOk mac k i' h' = false := by
  simp only [macOk, beq_iff_eq] at hok
  apply Bool.eq_false_iff.2
  intro hok'
  simp only [macOk, beq_iff_eq] at hok'
  rcases hone with hm | hin
  · -- same tag: some input value differs, so the recomputed tag differs
    have heq : mac k (macInput i.segID i.ts h.exp h.cIn h.cEg) =
        mac k (macInput i'.segID i'.ts h'.exp h'.cIn h'.cEg) := by rw [hok, hok', hm]
    have := hinj _ _ heq
    obtain ⟨e1, e2, e3, e4, e5⟩ := macInput_injective _ _ _ _ _ _ _ _ _ _ r.seg r'.seg r.ts r'.ts
      r.exp r'.exp r.cin r'.cin r.ceg r'.ceg this
    apply hne
    simp [protectedOf, e1, e2, e3, e4, e5, hm]
  · -- same input: the tag was changed
    simp only [inputOf, Prod.mk.injEq] at hin
    obtain ⟨e1, e2, e3, e4, e5⟩ := hin
    apply hne
    simp only [protectedOf, e1, e2, e3, e4, e5, Prod.mk.injEq, true_and]
    rw [← hok', ← hok, e1, e2, e3, e4, e5]

/-- **per router**: if the hop field a router is about to validate (or its info field, as it
    stands after the ingress SegID update) carries an altered protected value, the router does not
    let the packet continue: neither forwarded nor delivered.  `c` is the genuine packet as it
    would have arrived, `c'` the tampered one; both are looked at after `updateNonConsDirIngressSegID`. -/
theorem tampered_current_hop_not_forwarded (mac : MacFn) (cfg : RCfg) (hinj : MacInj mac cfg.key)
    (now : Nat) (arr : Arrival) (sl dl : Bool) (c c' : Cursor) (p : Bool)
    (hp' : determinePeer c' = some p)
    (r : InRange (ingUpd c arr p).info (ingUpd c arr p).cur)
    (r' : InRange (ingUpd c' arr p).info (ingUpd c' arr p).cur)
    (hok : macOk mac cfg.key (ingUpd c arr p).info (ingUpd c arr p).cur = true)
    (hne : protectedOf (ingUpd c' arr p).info (ingUpd c' arr p).cur ≠
           protectedOf (ingUpd c arr p).info (ingUpd c arr p).cur)
    (hone : (ingUpd c' arr p).cur.mac = (ingUpd c arr p).cur.mac ∨
            inputOf (ingUpd c' arr p).info (ingUpd c' arr p).cur =
            inputOf (ingUpd c arr p).info (ingUpd c arr p).cur) :
    (routerStep mac cfg now arr sl dl c').accepting = false := by
  apply Bool.eq_false_iff.2
  intro hacc
  obtain ⟨q, hq, hm, _⟩ := routerStep_accepting mac cfg now arr sl dl c' hacc
  rw [hp'] at hq
  cases hq
  have := tamper_hop_rejected mac cfg.key hinj _ _ _ _ r r' hok hne hone
  rw [this] at hm
  cases hm

/-- a router that does not let the packet continue ends the run -/
theorem run_stops (mac : MacFn) (net : Net) (now src dst fuel a r : Nat) (arr : Arrival)
    (c : Cursor) (tr : List (Nat × Nat))
    (h : (routerStep mac ⟨(net a).key, r, (net a).ifaces⟩ now arr (a == src) (a == dst) c).accepting = false) :
    ∃ o, run mac net now src dst (fuel + 1) a r arr c tr = .stopped a r arr o tr := by
  unfold run
  cases hs : routerStep mac ⟨(net a).key, r, (net a).ifaces⟩ now arr (a == src) (a == dst) c with
  | deliver c' => rw [hs] at h; cases h
  | forward e c' => rw [hs] at h; cases h
  | slow t k e c' => exact ⟨_, rfl⟩
  | alert s e c' => exact ⟨_, rfl⟩
  | drop => exact ⟨_, rfl⟩

/-- **C04 at full strength**: on a path as in C02, altering any single protected value of any hop
    or info field prevents delivery (and the packet is stopped no later than at the AS whose hop
    field's MAC input depends on the value). -/
def C04_full : Prop :=
  ∀ (mac : MacFn) (net : Net) (now : Nat) (edges : List Edge) (src dst : Nat) (c c' : Cursor),
    (∀ a, MacInj mac (net a).key) →
    WFNet net → AllUp net → Joinable mac net edges src dst → pathOf edges = some c →
    Unexpired now c →
    -- c' is c with exactly one protected value of one hop or info field changed
    (toFlat c').segLens = (toFlat c).segLens → (toFlat c').currHF = 0 →
    ((toFlat c').infos = (toFlat c).infos ∧
        ∃ k : Nat, (toFlat c').hops[k]? ≠ (toFlat c).hops[k]? ∧
          ∀ j : Nat, j ≠ k → (toFlat c').hops[j]? = (toFlat c).hops[j]?) ∨
      ((toFlat c').hops = (toFlat c).hops ∧
        ∃ k : Nat, (toFlat c').infos[k]? ≠ (toFlat c).infos[k]? ∧
          ∀ j : Nat, j ≠ k → (toFlat c').infos[j]? = (toFlat c).infos[j]?) →
    ∀ a tr cf, send mac net now src dst c' ≠ .delivered a tr cf

/-- **run level, first hop** (`_partial`: the altered value belongs to the first hop field of the
    path or to its info field): a packet that was delivered is no longer delivered — it does not
    even leave the first router, whichever router of the source AS the host hands it to. -/
theorem tamper_first_hop_not_delivered_partial (mac : MacFn) (net : Net) (now src dst : Nat)
    (hinj : MacInj mac (net src).key) (c c' : Cursor)
    (a : Nat) (tr : List (Nat × Nat)) (cf : Cursor)
    (hdel : send mac net now src dst c = .delivered a tr cf)
    (hdp : determinePeer c' = determinePeer c)
    (r : InRange c.info c.cur) (r' : InRange c'.info c'.cur)
    (hne : protectedOf c'.info c'.cur ≠ protectedOf c.info c.cur)
    (hone : c'.cur.mac = c.cur.mac ∨ inputOf c'.info c'.cur = inputOf c.info c.cur) :
    ∀ a' tr' cf', send mac net now src dst c' ≠ .delivered a' tr' cf' := by
  -- the genuine packet passed the first router
  have hacc : (routerStep mac ⟨(net src).key, entryRouter net src c, (net src).ifaces⟩ now .host
      (src == src) (src == dst) c).accepting = true := by
    cases hb : (routerStep mac ⟨(net src).key, entryRouter net src c, (net src).ifaces⟩ now .host
      (src == src) (src == dst) c).accepting with
    | true => rfl
    | false =>
      obtain ⟨o, ho⟩ := run_stops mac net now src dst (2 * (toFlat c).hops.length + 1) src
        (entryRouter net src c) .host c [] hb
      unfold send fuelFor at hdel
      rw [show 2 * (toFlat c).hops.length + 2 = 2 * (toFlat c).hops.length + 1 + 1 by omega, ho] at hdel
      cases hdel
  obtain ⟨p, hp, hm, _⟩ := routerStep_accepting mac _ now .host _ _ c hacc
  have hic : ∀ x : Cursor, ingUpd x .host p = x := by
    intro x; simp [ingUpd, Arrival.ifid]
  rw [hic] at hm
  -- the tampered one does not
  have hrej := tampered_current_hop_not_forwarded mac
    ⟨(net src).key, entryRouter net src c', (net src).ifaces⟩ hinj now .host (src == src) (src == dst)
    c c' p (by rw [hdp]; exact hp) (by rw [hic]; exact r) (by rw [hic]; exact r')
    (by rw [hic]; exact hm) (by rw [hic, hic]; exact hne) (by rw [hic, hic]; exact hone)
  obtain ⟨o, ho⟩ := run_stops mac net now src dst (2 * (toFlat c').hops.length + 1) src
    (entryRouter net src c') .host c' [] hrej
  intro a' tr' cf' h
  unfold send fuelFor at h
  rw [show 2 * (toFlat c').hops.length + 2 = 2 * (toFlat c').hops.length + 1 + 1 by omega, ho] at h
  cases h

/-- the ways a single hop field can be altered: one or several of ExpTime / ConsIngress /
    ConsEgress with the MAC left alone, or the MAC with the rest left alone.  In a segment traversed
    against construction direction the first two MAC bytes also enter the SegID under which the hop
    itself is validated, so a change of those two bytes changes tag *and* input at once — a forgery
    as far as a symbolic MAC can tell; there the MAC change is restricted to its last four bytes. -/
def HopTamper (cd : Bool) (h h' : Hop) : Prop :=
  (h'.mac = h.mac ∧ (h'.exp, h'.cIn, h'.cEg) ≠ (h.exp, h.cIn, h.cEg)) ∨
  (h'.mac ≠ h.mac ∧ h'.exp = h.exp ∧ h'.cIn = h.cIn ∧ h'.cEg = h.cEg ∧
    (cd = true ∨ pfx h'.mac = pfx h.mac))

/-- **run level, any hop of a segment** (`_partial`: single-segment paths — up, core or down, whole
    or shortcut, described by `FL` as every registered edge is (`edge_spec`) — and one border
    router per AS): if the hop field the packet carries for the `(|m1|+1)`-th AS after the source
    is altered (`HopTamper`), the packet travels exactly as the genuine one up to that AS and is
    stopped there — never delivered, and stopped "no later than at the first router that
    validates a hop field whose MAC input depends on the altered value". -/
theorem tamper_hop_stopped_partial (mac : MacFn) (net : Net) (now src dst : Nat) (core cd : Bool)
    (ts : Nat) (hUp : AllUp net) (hSR : SingleRouter net)
    (seg0 : Nat) (e0 : ASE) (m1 : List ASE) (ek : ASE) (h' : Hop) (tlh : List Hop)
    (hinj : MacInj mac (net ek.ia).key)
    (hFL : FL mac net core cd ts seg0 (e0 :: (m1 ++ [ek])))
    (hsrc : src = e0.ia) (hsd : src ≠ dst)
    (hmid : ∀ e ∈ m1, e.ia ≠ src ∧ e.ia ≠ dst ∧ expired now ts e.hop.exp = false)
    (hexp0 : expired now ts e0.hop.exp = false)
    (htam : HopTamper cd (hopOf ek.hop) h')
    (hr : InRange ⟨cd, false, usedSeg cd (Scion.SegID.extractBeta (Scion.SegID.updateSegID seg0 (pfx e0.hop.mac)) (sig m1))
            (hopOf ek.hop), ts⟩ (hopOf ek.hop))
    (hr' : InRange ⟨cd, false, usedSeg cd (Scion.SegID.extractBeta (Scion.SegID.updateSegID seg0 (pfx e0.hop.mac)) (sig m1))
            h', ts⟩ h')
    (fuel : Nat) :
    ∃ o tr, run mac net now src dst (fuel + 2 + m1.length) src 0 .host
        ⟨[], ⟨cd, false, usedAt cd seg0 e0, ts⟩, [], hopOf e0.hop,
          (m1.map fun e => hopOf e.hop) ++ h' :: tlh, []⟩ [] =
      .stopped ek.ia 0 (.ext (inF cd ek)) o tr := by
  have hpre := segment_prefix_run mac net now src dst core cd ts hUp hSR seg0 e0 m1 ek h' tlh hFL hsrc hsd
    hmid hexp0 (fuel + 1)
  rw [show fuel + 2 + m1.length = fuel + 1 + 1 + m1.length by omega, hpre]
  obtain ⟨hml, hin0, _⟩ := fl_last mac net core cd ts m1 e0 ek seg0 hFL
  -- the genuine packet at the AS of ek, and the tampered one
  have hing : ∀ h : Hop, ingUpd ⟨[], ⟨cd, false, Scion.SegID.extractBeta (Scion.SegID.updateSegID seg0 (pfx e0.hop.mac)) (sig m1), ts⟩,
        hopOf e0.hop :: m1.map (fun e => hopOf e.hop), h, tlh, []⟩ (.ext (inF cd ek)) false =
      ⟨[], ⟨cd, false, usedSeg cd (Scion.SegID.extractBeta (Scion.SegID.updateSegID seg0 (pfx e0.hop.mac)) (sig m1)) h, ts⟩,
        hopOf e0.hop :: m1.map (fun e => hopOf e.hop), h, tlh, []⟩ := by
    intro h
    cases cd <;> simp [ingUpd, usedSeg, Arrival.ifid, hin0]
  have hrej := tampered_current_hop_not_forwarded mac (cfgOf net ek.ia) hinj now (.ext (inF cd ek))
    (ek.ia == src) (ek.ia == dst)
    ⟨[], ⟨cd, false, Scion.SegID.extractBeta (Scion.SegID.updateSegID seg0 (pfx e0.hop.mac)) (sig m1), ts⟩,
      hopOf e0.hop :: m1.map (fun e => hopOf e.hop), hopOf ek.hop, tlh, []⟩
    ⟨[], ⟨cd, false, Scion.SegID.extractBeta (Scion.SegID.updateSegID seg0 (pfx e0.hop.mac)) (sig m1), ts⟩,
      hopOf e0.hop :: m1.map (fun e => hopOf e.hop), h', tlh, []⟩ false
    (by simp [determinePeer]) (by rw [hing]; exact hr) (by rw [hing]; exact hr')
    (by rw [hing, usedSeg_hopOf]; exact macOk_of_macAt mac net ts _ ek cd false hml)
    (by
      rw [hing, hing]
      rcases htam with ⟨hm, hne⟩ | ⟨hm, _, _, _, _⟩
      · intro heq
        simp only [protectedOf, Prod.mk.injEq] at heq
        exact hne (by simp [heq.2.2.1, heq.2.2.2.1, heq.2.2.2.2.1])
      · intro heq
        simp only [protectedOf, Prod.mk.injEq] at heq
        exact hm heq.2.2.2.2.2)
    (by
      rw [hing, hing]
      rcases htam with ⟨hm, _⟩ | ⟨_, h1, h2, h3, hp⟩
      · left; exact hm
      · right
        have hus : usedSeg cd (Scion.SegID.extractBeta (Scion.SegID.updateSegID seg0 (pfx e0.hop.mac)) (sig m1)) h' =
            usedSeg cd (Scion.SegID.extractBeta (Scion.SegID.updateSegID seg0 (pfx e0.hop.mac)) (sig m1)) (hopOf ek.hop) := by
          rcases hp with hcd | hp
          · subst hcd; rfl
          · cases cd <;> simp [usedSeg, hp]
        simp [inputOf, hus, h1, h2, h3])
  obtain ⟨o, ho⟩ := run_stops mac net now src dst fuel ek.ia 0 (.ext (inF cd ek)) _ _ hrej
  exact ⟨o, _, ho⟩

/-- an injective "MAC": the input itself, read as a number in base 257 with digits 1…256 -/
def encMac : MacFn := fun _ inp => inp.foldr (fun b acc => b.toNat + 1 + 257 * acc) 0

/-- the hypothesis `MacInj` is satisfiable -/
theorem encMac_inj (k : Bytes) : MacInj encMac k := by
  intro a
  induction a with
  | nil =>
    intro b h
    cases b with
    | nil => rfl
    | cons y ys =>
      simp only [encMac, List.foldr] at h
      omega
  | cons x xs ih =>
    intro b h
    cases b with
    | nil =>
      simp only [encMac, List.foldr] at h
      omega
    | cons y ys =>
      simp only [encMac, List.foldr] at h
      have hx : x.toNat < 256 := x.toNat_lt
      have hy : y.toNat < 256 := y.toNat_lt
      have h1 : x.toNat = y.toNat := by omega
      have h2 : List.foldr (fun b acc => b.toNat + 1 + 257 * acc) 0 xs =
          List.foldr (fun b acc => b.toNat + 1 + 257 * acc) 0 ys := by omega
      have := ih ys h2
      rw [this, UInt8.toNat_inj.1 h1]

end Scion.C04
