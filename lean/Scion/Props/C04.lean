import Scion.Model.Net
import Scion.Proofs.Net
import Scion.Proofs.NetTamper
import Scion.Proofs.NetTamper2
import Scion.Proofs.NetMulti2
/-!
# C04 — Tampered hop or info fields prevent delivery

Symbolic MAC: the theorems take the explicit hypothesis `MacInj` (the MAC primitive is injective in
its input for the key at hand; 48-bit truncation collisions are outside the model) and prove what
the *code* controls: the MAC input is an injective function of exactly the protected fields
(`macInput_injective`), every router recomputes it over the fields the packet carries
(`routerStep_accepting` in `Scion.Proofs.Net`), hence a packet whose current hop/info field was
altered in any protected value is not let through by the router that validates it.
The model `Scion.Net.routerStep` is tied to the real routers by engine `net`, whose C04 run flips
bits of every protected field of real paths and follows the packet through the real routers.
-/
namespace Scion.C04
open Scion.Net

/-- the MAC primitive does not collide under key `k` -/
def MacInj (mac : MacFn) (k : Bytes) : Prop := ∀ a b, mac k a = mac k b → a = b

theorem byte_inj (x y : Nat) (h : UInt8.ofNat x = UInt8.ofNat y) : x % 256 = y % 256 := by
  have := congrArg UInt8.toNat h
  simpa using this

/-- the values that fit the wire format -/
structure InRange (i : Info) (h : Hop) : Prop where
  seg : i.segID < 65536
  ts : i.ts < 4294967296
  exp : h.exp < 256
  cin : h.cIn < 65536
  ceg : h.cEg < 65536

/-- the MAC input determines every protected value (and nothing else enters it) -/
theorem macInput_injective (s1 t1 e1 i1 g1 s2 t2 e2 i2 g2 : Nat)
    (hs1 : s1 < 65536) (hs2 : s2 < 65536) (ht1 : t1 < 4294967296) (ht2 : t2 < 4294967296)
    (he1 : e1 < 256) (he2 : e2 < 256) (hi1 : i1 < 65536) (hi2 : i2 < 65536)
    (hg1 : g1 < 65536) (hg2 : g2 < 65536)
    (h : macInput s1 t1 e1 i1 g1 = macInput s2 t2 e2 i2 g2) :
    s1 = s2 ∧ t1 = t2 ∧ e1 = e2 ∧ i1 = i2 ∧ g1 = g2 := by
  simp only [macInput, be16, be32, List.cons_append, List.nil_append, List.cons.injEq, and_true,
    true_and] at h
  obtain ⟨a1, a2, b1, b2, b3, b4, c1, d1, d2, f1, f2⟩ := h
  have := byte_inj _ _ a1; have := byte_inj _ _ a2; have := byte_inj _ _ b1
  have := byte_inj _ _ b2; have := byte_inj _ _ b3; have := byte_inj _ _ b4
  have := byte_inj _ _ c1; have := byte_inj _ _ d1; have := byte_inj _ _ d2
  have := byte_inj _ _ f1; have := byte_inj _ _ f2
  refine ⟨?_, ?_, ?_, ?_, ?_⟩ <;> omega

/-- the protected values of a hop as validated: SegID and timestamp of its info field, its expiry,
    its two interfaces and its MAC -/
def protectedOf (i : Info) (h : Hop) : Nat × Nat × Nat × Nat × Nat × Nat :=
  (i.segID, i.ts, h.exp, h.cIn, h.cEg, h.mac)

/-- the values that enter the MAC computation -/
def inputOf (i : Info) (h : Hop) : Nat × Nat × Nat × Nat × Nat :=
  (i.segID, i.ts, h.exp, h.cIn, h.cEg)

/-- a hop/info pair that verifies no longer verifies after a change of a protected value —
    either one or several of the values entering the MAC with the MAC left alone, or the MAC
    itself with the other values left alone (a change of both at once is a forgery, which the
    model cannot exclude without assumptions about the secrecy of the key) -/
theorem tamper_hop_rejected (mac : MacFn) (k : Bytes) (hinj : MacInj mac k)
    (i i' : Info) (h h' : Hop) (r : InRange i h) (r' : InRange i' h')
    (hok : macOk mac k i h = true) (hne : protectedOf i' h' ≠ protectedOf i h)
    (hone : h'.mac = h.mac ∨ inputOf i' h' = inputOf i h) :
    macOk mac k i' h' = false := by
  simp only [macOk, beq_iff_eq] at hok
  apply Bool.eq_false_iff.2
  intro hok'
  simp only [macOk, beq_iff_eq] at hok'
  rcases hone with hm | hin
  · -- same tag: some input value differs, so the recomputed tag differs
    have heq : mac k (macInput i.segID i.ts h.exp h.cIn h.cEg) =
        mac k (macInput i'.segID i'.ts h'.exp h'.cIn h'.cEg) := by rw [hok, hok', hm]
    have := hinj _ _ heq
    obtain ⟨e1, e2, e3, e4, e5⟩ := macInput_injective _ _ _ _ _ _ _ _ _ _ r.seg r'.seg r.ts r'.ts
      r.exp r'.exp r.cin r'.cin r.ceg r'.ceg this
    apply hne
    simp [protectedOf, e1, e2, e3, e4, e5, hm]
  · -- same input: the tag was changed
    simp only [inputOf, Prod.mk.injEq] at hin
    obtain ⟨e1, e2, e3, e4, e5⟩ := hin
    apply hne
    simp only [protectedOf, e1, e2, e3, e4, e5, Prod.mk.injEq, true_and]
    rw [← hok', ← hok, e1, e2, e3, e4, e5]

/-- **per router**: if the hop field a router is about to validate (or its info field, as it
    stands after the ingress SegID update) carries an altered protected value, the router does not
    let the packet continue: neither forwarded nor delivered.  `c` is the genuine packet as it
    would have arrived, `c'` the tampered one; both are looked at after `updateNonConsDirIngressSegID`. -/
theorem tampered_current_hop_not_forwarded (mac : MacFn) (cfg : RCfg) (hinj : MacInj mac cfg.key)
    (now : Nat) (arr : Arrival) (sl dl : Bool) (c c' : Cursor) (p : Bool)
    (hp' : determinePeer c' = some p)
    (r : InRange (ingUpd c arr p).info (ingUpd c arr p).cur)
    (r' : InRange (ingUpd c' arr p).info (ingUpd c' arr p).cur)
    (hok : macOk mac cfg.key (ingUpd c arr p).info (ingUpd c arr p).cur = true)
    (hne : protectedOf (ingUpd c' arr p).info (ingUpd c' arr p).cur ≠
           protectedOf (ingUpd c arr p).info (ingUpd c arr p).cur)
    (hone : (ingUpd c' arr p).cur.mac = (ingUpd c arr p).cur.mac ∨
            inputOf (ingUpd c' arr p).info (ingUpd c' arr p).cur =
            inputOf (ingUpd c arr p).info (ingUpd c arr p).cur) :
    (routerStep mac cfg now arr sl dl c').accepting = false := by
  apply Bool.eq_false_iff.2
  intro hacc
  obtain ⟨q, hq, hm, _⟩ := routerStep_accepting mac cfg now arr sl dl c' hacc
  rw [hp'] at hq
  cases hq
  have := tamper_hop_rejected mac cfg.key hinj _ _ _ _ r r' hok hne hone
  rw [this] at hm
  cases hm

/-- a router that does not let the packet continue ends the run -/
theorem run_stops (mac : MacFn) (net : Net) (now src dst fuel a r : Nat) (arr : Arrival)
    (c : Cursor) (tr : List (Nat × Nat))
    (h : (routerStep mac ⟨(net a).key, r, (net a).ifaces⟩ now arr (a == src) (a == dst) c).accepting = false) :
    ∃ o, run mac net now src dst (fuel + 1) a r arr c tr = .stopped a r arr o tr := by
  unfold run
  cases hs : routerStep mac ⟨(net a).key, r, (net a).ifaces⟩ now arr (a == src) (a == dst) c with
  | deliver c' => rw [hs] at h; cases h
  | forward e c' => rw [hs] at h; cases h
  | slow t k e c' => exact ⟨_, rfl⟩
  | alert s e c' => exact ⟨_, rfl⟩
  | drop => exact ⟨_, rfl⟩

/-- **C04 at full strength**: on a path as in C02, altering any single protected value of any hop
    or info field prevents delivery (and the packet is stopped no later than at the AS whose hop
    field's MAC input depends on the value). -/
def C04_full : Prop :=
  ∀ (mac : MacFn) (net : Net) (now : Nat) (edges : List Edge) (src dst : Nat) (c c' : Cursor),
    (∀ a, MacInj mac (net a).key) →
    WFNet net → AllUp net → Joinable mac net edges src dst → pathOf edges = some c →
    Unexpired now c →
    -- c' is c with exactly one protected value of one hop or info field changed
    (toFlat c').segLens = (toFlat c).segLens → (toFlat c').currHF = 0 →
    ((toFlat c').infos = (toFlat c).infos ∧
        ∃ k : Nat, (toFlat c').hops[k]? ≠ (toFlat c).hops[k]? ∧
          ∀ j : Nat, j ≠ k → (toFlat c').hops[j]? = (toFlat c).hops[j]?) ∨
      ((toFlat c').hops = (toFlat c).hops ∧
        ∃ k : Nat, (toFlat c').infos[k]? ≠ (toFlat c).infos[k]? ∧
          ∀ j : Nat, j ≠ k → (toFlat c').infos[j]? = (toFlat c).infos[j]?) →
    ∀ a tr cf, send mac net now src dst c' ≠ .delivered a tr cf

/-- **run level, first hop** (`_partial`: the altered value belongs to the first hop field of the
    path or to its info field): a packet that was delivered is no longer delivered — it does not
    even leave the first router, whichever router of the source AS the host hands it to. -/
theorem tamper_first_hop_not_delivered_partial (mac : MacFn) (net : Net) (now src dst : Nat)
    (hinj : MacInj mac (net src).key) (c c' : Cursor)
    (a : Nat) (tr : List (Nat × Nat)) (cf : Cursor)
    (hdel : send mac net now src dst c = .delivered a tr cf)
    (hdp : determinePeer c' = determinePeer c)
    (r : InRange c.info c.cur) (r' : InRange c'.info c'.cur)
    (hne : protectedOf c'.info c'.cur ≠ protectedOf c.info c.cur)
    (hone : c'.cur.mac = c.cur.mac ∨ inputOf c'.info c'.cur = inputOf c.info c.cur) :
    ∀ a' tr' cf', send mac net now src dst c' ≠ .delivered a' tr' cf' := by
  -- the genuine packet passed the first router
  have hacc : (routerStep mac ⟨(net src).key, entryRouter net src c, (net src).ifaces⟩ now .host
      (src == src) (src == dst) c).accepting = true := by
    cases hb : (routerStep mac ⟨(net src).key, entryRouter net src c, (net src).ifaces⟩ now .host
      (src == src) (src == dst) c).accepting with
    | true => rfl
    | false =>
      obtain ⟨o, ho⟩ := run_stops mac net now src dst (2 * (toFlat c).hops.length + 1) src
        (entryRouter net src c) .host c [] hb
      unfold send fuelFor at hdel
      rw [show 2 * (toFlat c).hops.length + 2 = 2 * (toFlat c).hops.length + 1 + 1 by omega, ho] at hdel
      cases hdel
  obtain ⟨p, hp, hm, _⟩ := routerStep_accepting mac _ now .host _ _ c hacc
  have hic : ∀ x : Cursor, ingUpd x .host p = x := by
    intro x; simp [ingUpd, Arrival.ifid]
  rw [hic] at hm
  -- the tampered one does not
  have hrej := tampered_current_hop_not_forwarded mac
    ⟨(net src).key, entryRouter net src c', (net src).ifaces⟩ hinj now .host (src == src) (src == dst)
    c c' p (by rw [hdp]; exact hp) (by rw [hic]; exact r) (by rw [hic]; exact r')
    (by rw [hic]; exact hm) (by rw [hic, hic]; exact hne) (by rw [hic, hic]; exact hone)
  obtain ⟨o, ho⟩ := run_stops mac net now src dst (2 * (toFlat c').hops.length + 1) src
    (entryRouter net src c') .host c' [] hrej
  intro a' tr' cf' h
  unfold send fuelFor at h
  rw [show 2 * (toFlat c').hops.length + 2 = 2 * (toFlat c').hops.length + 1 + 1 by omega, ho] at h
  cases h

/-- the ways a single hop field can be altered: one or several of ExpTime / ConsIngress /
    ConsEgress with the MAC left alone, or the MAC with the rest left alone.  In a segment traversed
    against construction direction the first two MAC bytes also enter the SegID under which the hop
    itself is validated, so a change of those two bytes changes tag *and* input at once — a forgery
    as far as a symbolic MAC can tell; there the MAC change is restricted to its last four bytes. -/
def HopTamper (cd : Bool) (h h' : Hop) : Prop :=
  (h'.mac = h.mac ∧ (h'.exp, h'.cIn, h'.cEg) ≠ (h.exp, h.cIn, h.cEg)) ∨
  (h'.mac ≠ h.mac ∧ h'.exp = h.exp ∧ h'.cIn = h.cIn ∧ h'.cEg = h.cEg ∧
    (cd = true ∨ pfx h'.mac = pfx h.mac))

/-- **run level, any hop of a segment** (`_partial`: single-segment paths — up, core or down, whole
    or shortcut, described by `FL` as every registered edge is (`edge_spec`) — and one border
    router per AS): if the hop field the packet carries for the `(|m1|+1)`-th AS after the source
    is altered (`HopTamper`), the packet travels exactly as the genuine one up to that AS and is
    stopped there — never delivered, and stopped "no later than at the first router that
    validates a hop field whose MAC input depends on the altered value". -/
theorem tamper_hop_stopped_partial (mac : MacFn) (net : Net) (now src dst : Nat) (core cd : Bool)
    (ts : Nat) (hUp : AllUp net) (hSR : SingleRouter net)
    (seg0 : Nat) (e0 : ASE) (m1 : List ASE) (ek : ASE) (h' : Hop) (tlh : List Hop)
    (hinj : MacInj mac (net ek.ia).key)
    (hFL : FL mac net core cd ts seg0 (e0 :: (m1 ++ [ek])))
    (hsrc : src = e0.ia) (hsd : src ≠ dst)
    (hmid : ∀ e ∈ m1, e.ia ≠ src ∧ e.ia ≠ dst ∧ expired now ts e.hop.exp = false)
    (hexp0 : expired now ts e0.hop.exp = false)
    (htam : HopTamper cd (hopOf ek.hop) h')
    (hr : InRange ⟨cd, false, usedSeg cd (Scion.SegID.extractBeta (Scion.SegID.updateSegID seg0 (pfx e0.hop.mac)) (sig m1))
            (hopOf ek.hop), ts⟩ (hopOf ek.hop))
    (hr' : InRange ⟨cd, false, usedSeg cd (Scion.SegID.extractBeta (Scion.SegID.updateSegID seg0 (pfx e0.hop.mac)) (sig m1))
            h', ts⟩ h')
    (fuel : Nat) :
    ∃ o tr, run mac net now src dst (fuel + 2 + m1.length) src 0 .host
        ⟨[], ⟨cd, false, usedAt cd seg0 e0, ts⟩, [], hopOf e0.hop,
          (m1.map fun e => hopOf e.hop) ++ h' :: tlh, []⟩ [] =
      .stopped ek.ia 0 (.ext (inF cd ek)) o tr := by
  have hpre := segment_prefix_run mac net now src dst core cd ts hUp hSR seg0 e0 m1 ek h' tlh hFL hsrc hsd
    hmid hexp0 (fuel + 1)
  rw [show fuel + 2 + m1.length = fuel + 1 + 1 + m1.length by omega, hpre]
  obtain ⟨hml, hin0, _⟩ := fl_last mac net core cd ts m1 e0 ek seg0 hFL
  -- the genuine packet at the AS of ek, and the tampered one
  have hing : ∀ h : Hop, ingUpd ⟨[], ⟨cd, false, Scion.SegID.extractBeta (Scion.SegID.updateSegID seg0 (pfx e0.hop.mac)) (sig m1), ts⟩,
        hopOf e0.hop :: m1.map (fun e => hopOf e.hop), h, tlh, []⟩ (.ext (inF cd ek)) false =
      ⟨[], ⟨cd, false, usedSeg cd (Scion.SegID.extractBeta (Scion.SegID.updateSegID seg0 (pfx e0.hop.mac)) (sig m1)) h, ts⟩,
        hopOf e0.hop :: m1.map (fun e => hopOf e.hop), h, tlh, []⟩ := by
    intro h
    cases cd <;> simp [ingUpd, usedSeg, Arrival.ifid, hin0]
  have hrej := tampered_current_hop_not_forwarded mac (cfgOf net ek.ia) hinj now (.ext (inF cd ek))
    (ek.ia == src) (ek.ia == dst)
    ⟨[], ⟨cd, false, Scion.SegID.extractBeta (Scion.SegID.updateSegID seg0 (pfx e0.hop.mac)) (sig m1), ts⟩,
      hopOf e0.hop :: m1.map (fun e => hopOf e.hop), hopOf ek.hop, tlh, []⟩
    ⟨[], ⟨cd, false, Scion.SegID.extractBeta (Scion.SegID.updateSegID seg0 (pfx e0.hop.mac)) (sig m1), ts⟩,
      hopOf e0.hop :: m1.map (fun e => hopOf e.hop), h', tlh, []⟩ false
    (by simp [determinePeer]) (by rw [hing]; exact hr) (by rw [hing]; exact hr')
    (by rw [hing, usedSeg_hopOf]; exact macOk_of_macAt mac net ts _ ek cd false hml)
    (by
      rw [hing, hing]
      rcases htam with ⟨hm, hne⟩ | ⟨hm, _, _, _, _⟩
      · intro heq
        simp only [protectedOf, Prod.mk.injEq] at heq
        exact hne (by simp [heq.2.2.1, heq.2.2.2.1, heq.2.2.2.2.1])
      · intro heq
        simp only [protectedOf, Prod.mk.injEq] at heq
        exact hm heq.2.2.2.2.2)
    (by
      rw [hing, hing]
      rcases htam with ⟨hm, _⟩ | ⟨_, h1, h2, h3, hp⟩
      · left; exact hm
      · right
        have hus : usedSeg cd (Scion.SegID.extractBeta (Scion.SegID.updateSegID seg0 (pfx e0.hop.mac)) (sig m1)) h' =
            usedSeg cd (Scion.SegID.extractBeta (Scion.SegID.updateSegID seg0 (pfx e0.hop.mac)) (sig m1)) (hopOf ek.hop) := by
          rcases hp with hcd | hp
          · subst hcd; rfl
          · cases cd <;> simp [usedSeg, hp]
        simp [inputOf, hus, h1, h2, h3])
  obtain ⟨o, ho⟩ := run_stops mac net now src dst fuel ek.ia 0 (.ext (inF cd ek)) _ _ hrej
  exact ⟨o, _, ho⟩

/-- **the altered hop field reaches its AS**: a packet arriving over the ingress interface of the
    hop `ek` (segment traversed in direction `cd`, SegID `seg` on arrival) with the hop field
    altered (`HopTamper`) is stopped by that AS — wherever on the path the hop lies (`before`,
    `done`, `tlh`, `after` arbitrary) -/
theorem tamper_at_arrival_stopped (mac : MacFn) (net : Net) (now src dst : Nat) (cd : Bool) (ts seg : Nat)
    (ek : ASE) (h' : Hop) (before after : List Seg) (done tlh : List Hop)
    (hinj : MacInj mac (net ek.ia).key)
    (hin0 : inF cd ek ≠ 0) (hml : MacAt mac net ts (usedAt cd seg ek) ek)
    (htam : HopTamper cd (hopOf ek.hop) h')
    (hr : InRange ⟨cd, false, usedSeg cd seg (hopOf ek.hop), ts⟩ (hopOf ek.hop))
    (hr' : InRange ⟨cd, false, usedSeg cd seg h', ts⟩ h')
    (fuel : Nat) (tr0 : List (Nat × Nat)) :
    ∃ o, run mac net now src dst (fuel + 1) ek.ia 0 (.ext (inF cd ek))
        ⟨before, ⟨cd, false, seg, ts⟩, done, h', tlh, after⟩ tr0 =
      .stopped ek.ia 0 (.ext (inF cd ek)) o tr0 := by
  have hing : ∀ h : Hop, ingUpd ⟨before, ⟨cd, false, seg, ts⟩, done, h, tlh, after⟩ (.ext (inF cd ek)) false =
      ⟨before, ⟨cd, false, usedSeg cd seg h, ts⟩, done, h, tlh, after⟩ := by
    intro h
    cases cd <;> simp [ingUpd, usedSeg, Arrival.ifid, hin0]
  have hrej := tampered_current_hop_not_forwarded mac (cfgOf net ek.ia) hinj now (.ext (inF cd ek))
    (ek.ia == src) (ek.ia == dst)
    ⟨before, ⟨cd, false, seg, ts⟩, done, hopOf ek.hop, tlh, after⟩
    ⟨before, ⟨cd, false, seg, ts⟩, done, h', tlh, after⟩ false
    (by simp [determinePeer]) (by rw [hing]; exact hr) (by rw [hing]; exact hr')
    (by rw [hing, usedSeg_hopOf]; exact macOk_of_macAt mac net ts _ ek cd false hml)
    (by
      rw [hing, hing]
      rcases htam with ⟨hm, hne⟩ | ⟨hm, _, _, _, _⟩
      · intro heq
        simp only [protectedOf, Prod.mk.injEq] at heq
        exact hne (by simp [heq.2.2.1, heq.2.2.2.1, heq.2.2.2.2.1])
      · intro heq
        simp only [protectedOf, Prod.mk.injEq] at heq
        exact hm heq.2.2.2.2.2)
    (by
      rw [hing, hing]
      rcases htam with ⟨hm, _⟩ | ⟨_, h1, h2, h3, hp⟩
      · left; exact hm
      · right
        have hus : usedSeg cd seg h' = usedSeg cd seg (hopOf ek.hop) := by
          rcases hp with hcd | hp
          · subst hcd; rfl
          · cases cd <;> simp [usedSeg, hp]
        simp [inputOf, hus, h1, h2, h3])
  exact run_stops mac net now src dst fuel ek.ia 0 (.ext (inF cd ek)) _ _ hrej

/-- **run level, any hop after the first of the SECOND segment** (`_partial`: one border router
    per AS; the first two segments are described by `FL` as every registered edge is; whatever
    follows — the rest of the second segment, a third segment — is arbitrary).  The packet travels
    as the genuine one through the whole first segment, across the segment change and along the
    second segment up to the AS of `ek2`, whose hop field was altered, and is stopped there. -/
theorem tamper_second_segment_hop_stopped_partial (mac : MacFn) (net : Net) (now src dst : Nat)
    (hUp : AllUp net) (hSR : SingleRouter net)
    (core1 cd1 : Bool) (ts1 seg10 : Nat) (e10 : ASE) (mid1 : List ASE) (last1 : ASE)
    (core2 cd2 : Bool) (ts2 seg20 : Nat) (e20 : ASE) (m2 : List ASE) (ek2 : ASE) (h' : Hop)
    (tlh : List Hop) (aft : List Seg) (ha : ∀ s ∈ aft, s.hops.length ≠ 1)
    (hinj : MacInj mac (net ek2.ia).key)
    (hFL1 : FL mac net core1 cd1 ts1 seg10 (e10 :: (mid1 ++ [last1])))
    (hFL2 : FL mac net core2 cd2 ts2 seg20 (e20 :: (m2 ++ [ek2])))
    (hsrc : src = e10.ia) (hsd : src ≠ dst)
    (hmid1 : ∀ e ∈ mid1, e.ia ≠ src ∧ e.ia ≠ dst ∧ expired now ts1 e.hop.exp = false)
    (hexp0 : expired now ts1 e10.hop.exp = false)
    (hjoint : last1.ia = e20.ia) (hls : last1.ia ≠ src) (hld : last1.ia ≠ dst)
    (hexpl : expired now ts1 last1.hop.exp = false) (hexp2 : expired now ts2 e20.hop.exp = false)
    (hxlt : ∀ a b, InLT core1 cd1 a → EgLT core2 cd2 b → ltXover a b = true)
    (hmid2 : ∀ e ∈ m2, e.ia ≠ src ∧ e.ia ≠ dst ∧ expired now ts2 e.hop.exp = false)
    (htam : HopTamper cd2 (hopOf ek2.hop) h')
    (hr : InRange ⟨cd2, false, usedSeg cd2 (Scion.SegID.extractBeta (Scion.SegID.updateSegID seg20 (pfx e20.hop.mac)) (sig m2))
            (hopOf ek2.hop), ts2⟩ (hopOf ek2.hop))
    (hr' : InRange ⟨cd2, false, usedSeg cd2 (Scion.SegID.extractBeta (Scion.SegID.updateSegID seg20 (pfx e20.hop.mac)) (sig m2))
            h', ts2⟩ h')
    (fuel : Nat) :
    ∃ o tr, run mac net now src dst (fuel + 3 + mid1.length + m2.length) src 0 .host
        ⟨[], ⟨cd1, false, usedAt cd1 seg10 e10, ts1⟩, [], hopOf e10.hop,
          (mid1.map fun e => hopOf e.hop) ++ [hopOf last1.hop],
          ⟨⟨cd2, false, usedAt cd2 seg20 e20, ts2⟩,
            hopOf e20.hop :: ((m2.map fun e => hopOf e.hop) ++ h' :: tlh)⟩ :: aft⟩ [] =
      .stopped ek2.ia 0 (.ext (inF cd2 ek2)) o tr := by
  have ha' : ∀ s ∈ (⟨⟨cd2, false, usedAt cd2 seg20 e20, ts2⟩,
      hopOf e20.hop :: ((m2.map fun e => hopOf e.hop) ++ h' :: tlh)⟩ : Seg) :: aft, s.hops.length ≠ 1 := by
    intro s hs
    simp only [List.mem_cons] at hs
    rcases hs with rfl | hs
    · simp
    · exact ha s hs
  have hpre := segment_prefix_run_after mac net now src dst hUp hSR core1 cd1 ts1 seg10 e10 mid1 last1
    (hopOf last1.hop) [] _ ha' hFL1 hsrc hsd hmid1 hexp0 (fuel + 2 + m2.length)
  rw [show fuel + 3 + mid1.length + m2.length = fuel + 2 + m2.length + 1 + mid1.length by omega, hpre]
  have hcross := cross_prefix_run mac net now src dst hUp hSR core1 cd1 ts1 seg10 e10 mid1 last1
    core2 cd2 ts2 seg20 e20 m2 ek2 h' tlh [] aft (hopOf e10.hop :: mid1.map fun e => hopOf e.hop)
    (by simp) ha (by simp) hFL1 hFL2 hjoint hls hld hexpl hexp2 hxlt hmid2 (fuel + 1)
    ((e10.ia, outF cd1 e10) :: ((firstOf mid1 last1).ia, inF cd1 (firstOf mid1 last1)) :: fTrace cd1 mid1 last1)
  rw [show fuel + 2 + m2.length = fuel + 1 + 1 + m2.length by omega, hcross]
  obtain ⟨hml, hin0, _⟩ := fl_last mac net core2 cd2 ts2 m2 e20 ek2 seg20 hFL2
  obtain ⟨o, ho⟩ := tamper_at_arrival_stopped mac net now src dst cd2 ts2 _ ek2 h' _ aft _ tlh hinj hin0 hml
    htam hr hr' fuel _
  exact ⟨o, _, ho⟩

/-- a router that lets a packet continue across a segment change has validated the first hop
    field of the new segment under the new segment's info field as the packet carries it -/
theorem xover_next_checked (mac : MacFn) (cfg : RCfg) (now : Nat) (arr : Arrival) (sl : Bool) (c : Cursor)
    (hacc : (routerStep mac cfg now arr sl false c).accepting = true)
    (hp : determinePeer c = some false) (hx : (ingUpd c arr false).isXover = true) :
    ∃ c2, (ingUpd c arr false).incPath = some c2 ∧ macOk mac cfg.key c2.info c2.cur = true := by
  cases hstep : routerStep mac cfg now arr sl false c with
  | deliver cf =>
    obtain ⟨_, _, hdl, _⟩ := routerStep_deliver_inv _ _ _ _ _ _ _ _ hstep
    cases hdl
  | forward e c' =>
    obtain ⟨s, x, hs, _, hxo, _⟩ := routerStep_forward_inv _ _ _ _ _ _ _ _ _ hstep
    obtain ⟨hdp, hsc, _, _⟩ := stIngress_ok _ _ _ _ _ _ _ _ hs
    rw [hp] at hdp
    have hsp : s.peering = false := (Option.some.inj hdp).symm
    obtain ⟨_, hxc⟩ := stXover_ok _ _ _ _ _ hxo
    rw [hsc, hsp] at hxc
    rcases hxc with ⟨_, _, hno⟩ | ⟨_, _, hinc, _, hmac⟩
    · rw [hx] at hno; simp at hno
    · exact ⟨x.c, hinc, hmac⟩
  | slow t k e c' => rw [hstep] at hacc; cases hacc
  | alert b e c' => rw [hstep] at hacc; cases hacc
  | drop => rw [hstep] at hacc; cases hacc

/-- the router at a segment change does not let a packet continue whose next segment starts
    with an altered hop field -/
theorem xover_tampered_rejected (mac : MacFn) (cfg : RCfg) (now i : Nat) (sl : Bool)
    (hinj : MacInj mac cfg.key) (before : List Seg) (info1 : Info) (done : List Hop) (h1 : Hop)
    (i2 : Info) (h2 h2' : Hop) (t2 : List Hop) (aft : List Seg)
    (hpe : info1.peer = false) (hgen : macOk mac cfg.key i2 h2 = true)
    (hr : InRange i2 h2) (hr' : InRange i2 h2') (htam : HopTamper true h2 h2') :
    (routerStep mac cfg now (.ext i) sl false
      ⟨before, info1, done, h1, [], ⟨i2, h2' :: t2⟩ :: aft⟩).accepting = false := by
  apply Bool.eq_false_iff.2
  intro hacc
  obtain ⟨sid, hsid⟩ := ingUpd_setSeg ⟨before, info1, done, h1, [], ⟨i2, h2' :: t2⟩ :: aft⟩ (.ext i) false
  obtain ⟨c2, hinc, hmac⟩ := xover_next_checked mac cfg now _ sl _ hacc (by simp [determinePeer, hpe])
    (by rw [hsid]; rfl)
  rw [hsid] at hinc
  have hc2 : c2.info = i2 ∧ c2.cur = h2' := by
    simp only [setSeg, Cursor.incPath, Option.some.injEq] at hinc
    subst hinc; exact ⟨rfl, rfl⟩
  rw [hc2.1, hc2.2] at hmac
  have := tamper_hop_rejected mac cfg.key hinj i2 i2 h2 h2' hr hr' hgen
    (by
      rcases htam with ⟨hm, hne⟩ | ⟨hm, _, _, _, _⟩
      · intro heq
        simp only [protectedOf, Prod.mk.injEq] at heq
        exact hne (by simp [heq.2.2.1, heq.2.2.2.1, heq.2.2.2.2.1])
      · intro heq
        simp only [protectedOf, Prod.mk.injEq] at heq
        exact hm heq.2.2.2.2.2)
    (by
      rcases htam with ⟨hm, _⟩ | ⟨_, h1, h2, h3, _⟩
      · left; exact hm
      · right; simp [inputOf, h1, h2, h3])
  rw [this] at hmac
  cases hmac

/-- **run level, the first hop field of the SECOND segment** (the one validated at the segment
    change, by the last AS of the first segment; `_partial`: one border router per AS).  Its SegID
    is the info field's as the packet carries it, so any change of the hop field is covered
    (`HopTamper true`).  The packet is stopped at the joint AS. -/
theorem tamper_xover_hop_stopped_partial (mac : MacFn) (net : Net) (now src dst : Nat)
    (hUp : AllUp net) (hSR : SingleRouter net)
    (core1 cd1 : Bool) (ts1 seg10 : Nat) (e10 : ASE) (mid1 : List ASE) (last1 : ASE)
    (cd2 : Bool) (ts2 β2 : Nat) (e20 : ASE) (h2' : Hop) (t2 : List Hop) (aft : List Seg)
    (ha : ∀ s ∈ aft, s.hops.length ≠ 1) (ht2 : t2 ≠ [])
    (hinj : MacInj mac (net last1.ia).key)
    (hFL1 : FL mac net core1 cd1 ts1 seg10 (e10 :: (mid1 ++ [last1])))
    (hsrc : src = e10.ia) (hsd : src ≠ dst)
    (hmid1 : ∀ e ∈ mid1, e.ia ≠ src ∧ e.ia ≠ dst ∧ expired now ts1 e.hop.exp = false)
    (hexp0 : expired now ts1 e10.hop.exp = false)
    (hjoint : last1.ia = e20.ia) (hld : last1.ia ≠ dst)
    (hm2 : MacAt mac net ts2 β2 e20)
    (htam : HopTamper true (hopOf e20.hop) h2')
    (hr : InRange ⟨cd2, false, β2, ts2⟩ (hopOf e20.hop)) (hr' : InRange ⟨cd2, false, β2, ts2⟩ h2')
    (fuel : Nat) :
    ∃ o tr, run mac net now src dst (fuel + 2 + mid1.length) src 0 .host
        ⟨[], ⟨cd1, false, usedAt cd1 seg10 e10, ts1⟩, [], hopOf e10.hop,
          (mid1.map fun e => hopOf e.hop) ++ [hopOf last1.hop],
          ⟨⟨cd2, false, β2, ts2⟩, h2' :: t2⟩ :: aft⟩ [] =
      .stopped last1.ia 0 (.ext (inF cd1 last1)) o tr := by
  have ha' : ∀ s ∈ (⟨⟨cd2, false, β2, ts2⟩, h2' :: t2⟩ : Seg) :: aft, s.hops.length ≠ 1 := by
    intro s hs
    simp only [List.mem_cons] at hs
    rcases hs with rfl | hs
    · cases t2 <;> simp_all
    · exact ha s hs
  have hpre := segment_prefix_run_after mac net now src dst hUp hSR core1 cd1 ts1 seg10 e10 mid1 last1
    (hopOf last1.hop) [] _ ha' hFL1 hsrc hsd hmid1 hexp0 (fuel + 1)
  rw [show fuel + 2 + mid1.length = fuel + 1 + 1 + mid1.length by omega, hpre]
  obtain ⟨_, hin0, _⟩ := fl_last mac net core1 cd1 ts1 mid1 e10 last1 seg10 hFL1
  have hdl : (last1.ia == dst) = false := by simp [hld]
  have hrej : (routerStep mac ⟨(net last1.ia).key, 0, (net last1.ia).ifaces⟩ now (.ext (inF cd1 last1))
      (last1.ia == src) (last1.ia == dst)
      ⟨[], ⟨cd1, false, Scion.SegID.extractBeta (Scion.SegID.updateSegID seg10 (pfx e10.hop.mac)) (sig mid1), ts1⟩,
        hopOf e10.hop :: mid1.map (fun e => hopOf e.hop), hopOf last1.hop, [],
        ⟨⟨cd2, false, β2, ts2⟩, h2' :: t2⟩ :: aft⟩).accepting = false := by
    rw [hdl]
    exact xover_tampered_rejected mac ⟨(net last1.ia).key, 0, (net last1.ia).ifaces⟩ now _ _ hinj [] _ _ _
      ⟨cd2, false, β2, ts2⟩ (hopOf e20.hop) h2' t2 aft rfl
      (by rw [hjoint]; exact macOk_of_macAt mac net ts2 β2 e20 cd2 false hm2) hr hr' htam
  obtain ⟨o, ho⟩ := run_stops mac net now src dst fuel last1.ia 0 (.ext (inF cd1 last1)) _ _ hrej
  exact ⟨o, _, ho⟩

/-- **run level, any hop after the first of the THIRD segment** (`_partial`: one border router per
    AS; the three segments described by `FL`; the rest of the third segment is arbitrary) -/
theorem tamper_third_segment_hop_stopped_partial (mac : MacFn) (net : Net) (now src dst : Nat)
    (hUp : AllUp net) (hSR : SingleRouter net)
    (core1 cd1 : Bool) (ts1 seg10 : Nat) (e10 : ASE) (mid1 : List ASE) (last1 : ASE)
    (core2 cd2 : Bool) (ts2 seg20 : Nat) (e20 : ASE) (mid2 : List ASE) (last2 : ASE)
    (core3 cd3 : Bool) (ts3 seg30 : Nat) (e30 : ASE) (m3 : List ASE) (ek3 : ASE) (h' : Hop)
    (tlh : List Hop) (aft : List Seg) (ha : ∀ s ∈ aft, s.hops.length ≠ 1)
    (hinj : MacInj mac (net ek3.ia).key)
    (hFL1 : FL mac net core1 cd1 ts1 seg10 (e10 :: (mid1 ++ [last1])))
    (hFL2 : FL mac net core2 cd2 ts2 seg20 (e20 :: (mid2 ++ [last2])))
    (hFL3 : FL mac net core3 cd3 ts3 seg30 (e30 :: (m3 ++ [ek3])))
    (hsrc : src = e10.ia) (hsd : src ≠ dst)
    (hmid1 : ∀ e ∈ mid1, e.ia ≠ src ∧ e.ia ≠ dst ∧ expired now ts1 e.hop.exp = false)
    (hexp0 : expired now ts1 e10.hop.exp = false)
    (hjoint1 : last1.ia = e20.ia) (hls1 : last1.ia ≠ src) (hld1 : last1.ia ≠ dst)
    (hexpl1 : expired now ts1 last1.hop.exp = false) (hexp20 : expired now ts2 e20.hop.exp = false)
    (hxlt1 : ∀ a b, InLT core1 cd1 a → EgLT core2 cd2 b → ltXover a b = true)
    (hmid2 : ∀ e ∈ mid2, e.ia ≠ src ∧ e.ia ≠ dst ∧ expired now ts2 e.hop.exp = false)
    (hjoint2 : last2.ia = e30.ia) (hls2 : last2.ia ≠ src) (hld2 : last2.ia ≠ dst)
    (hexpl2 : expired now ts2 last2.hop.exp = false) (hexp30 : expired now ts3 e30.hop.exp = false)
    (hxlt2 : ∀ a b, InLT core2 cd2 a → EgLT core3 cd3 b → ltXover a b = true)
    (hmid3 : ∀ e ∈ m3, e.ia ≠ src ∧ e.ia ≠ dst ∧ expired now ts3 e.hop.exp = false)
    (htam : HopTamper cd3 (hopOf ek3.hop) h')
    (hr : InRange ⟨cd3, false, usedSeg cd3 (Scion.SegID.extractBeta (Scion.SegID.updateSegID seg30 (pfx e30.hop.mac)) (sig m3))
            (hopOf ek3.hop), ts3⟩ (hopOf ek3.hop))
    (hr' : InRange ⟨cd3, false, usedSeg cd3 (Scion.SegID.extractBeta (Scion.SegID.updateSegID seg30 (pfx e30.hop.mac)) (sig m3))
            h', ts3⟩ h')
    (fuel : Nat) :
    ∃ o tr, run mac net now src dst (fuel + 4 + mid1.length + mid2.length + m3.length) src 0 .host
        ⟨[], ⟨cd1, false, usedAt cd1 seg10 e10, ts1⟩, [], hopOf e10.hop,
          (mid1.map fun e => hopOf e.hop) ++ [hopOf last1.hop],
          ⟨⟨cd2, false, usedAt cd2 seg20 e20, ts2⟩,
            hopOf e20.hop :: ((mid2.map fun e => hopOf e.hop) ++ [hopOf last2.hop])⟩ ::
          ⟨⟨cd3, false, usedAt cd3 seg30 e30, ts3⟩,
            hopOf e30.hop :: ((m3.map fun e => hopOf e.hop) ++ h' :: tlh)⟩ :: aft⟩ [] =
      .stopped ek3.ia 0 (.ext (inF cd3 ek3)) o tr := by
  have ha3 : ∀ s ∈ (⟨⟨cd3, false, usedAt cd3 seg30 e30, ts3⟩,
      hopOf e30.hop :: ((m3.map fun e => hopOf e.hop) ++ h' :: tlh)⟩ : Seg) :: aft, s.hops.length ≠ 1 := by
    intro s hs
    simp only [List.mem_cons] at hs
    rcases hs with rfl | hs
    · simp
    · exact ha s hs
  have ha2 : ∀ s ∈ (⟨⟨cd2, false, usedAt cd2 seg20 e20, ts2⟩,
      hopOf e20.hop :: ((mid2.map fun e => hopOf e.hop) ++ [hopOf last2.hop])⟩ : Seg) ::
      ⟨⟨cd3, false, usedAt cd3 seg30 e30, ts3⟩,
        hopOf e30.hop :: ((m3.map fun e => hopOf e.hop) ++ h' :: tlh)⟩ :: aft, s.hops.length ≠ 1 := by
    intro s hs
    simp only [List.mem_cons] at hs
    rcases hs with rfl | hs
    · simp
    · exact ha3 s (by simpa using hs)
  have hpre := segment_prefix_run_after mac net now src dst hUp hSR core1 cd1 ts1 seg10 e10 mid1 last1
    (hopOf last1.hop) [] _ ha2 hFL1 hsrc hsd hmid1 hexp0 (fuel + 3 + mid2.length + m3.length)
  rw [show fuel + 4 + mid1.length + mid2.length + m3.length =
    fuel + 3 + mid2.length + m3.length + 1 + mid1.length by omega, hpre]
  have hcross1 := cross_prefix_run mac net now src dst hUp hSR core1 cd1 ts1 seg10 e10 mid1 last1
    core2 cd2 ts2 seg20 e20 mid2 last2 (hopOf last2.hop) [] [] _
    (hopOf e10.hop :: mid1.map fun e => hopOf e.hop)
    (by simp) ha3 (by simp) hFL1 hFL2 hjoint1 hls1 hld1 hexpl1 hexp20 hxlt1 hmid2 (fuel + 2 + m3.length)
    ((e10.ia, outF cd1 e10) :: ((firstOf mid1 last1).ia, inF cd1 (firstOf mid1 last1)) :: fTrace cd1 mid1 last1)
  rw [show fuel + 3 + mid2.length + m3.length = fuel + 2 + m3.length + 1 + mid2.length by omega, hcross1]
  have hcross2 := fun tr0 => cross_prefix_run mac net now src dst hUp hSR core2 cd2 ts2 seg20 e20 mid2 last2
    core3 cd3 ts3 seg30 e30 m3 ek3 h' tlh
    ([] ++ [⟨⟨cd1, false, usedSeg cd1 (Scion.SegID.extractBeta (Scion.SegID.updateSegID seg10 (pfx e10.hop.mac)) (sig mid1))
      (hopOf last1.hop), ts1⟩, (hopOf e10.hop :: mid1.map fun e => hopOf e.hop) ++ [hopOf last1.hop]⟩]) aft
    (hopOf e20.hop :: mid2.map fun e => hopOf e.hop)
    (by simp) ha (by simp) hFL2 hFL3 hjoint2 hls2 hld2 hexpl2 hexp30 hxlt2 hmid3 (fuel + 1) tr0
  rw [show fuel + 2 + m3.length = fuel + 1 + 1 + m3.length by omega, hcross2]
  obtain ⟨hml, hin0, _⟩ := fl_last mac net core3 cd3 ts3 m3 e30 ek3 seg30 hFL3
  obtain ⟨o, ho⟩ := tamper_at_arrival_stopped mac net now src dst cd3 ts3 _ ek3 h' _ aft _ tlh hinj hin0 hml
    htam hr hr' fuel _
  exact ⟨o, _, ho⟩

/-- `xover_tampered_rejected` for any alteration of the pair (info field of the new segment, its
    first hop field) that `tamper_hop_rejected` covers — in particular a changed SegID or timestamp
    of the new segment's info field with the hop field left alone -/
theorem xover_tampered_rejected_gen (mac : MacFn) (cfg : RCfg) (now i : Nat) (sl : Bool)
    (hinj : MacInj mac cfg.key) (before : List Seg) (info1 : Info) (done : List Hop) (h1 : Hop)
    (i2 i2' : Info) (h2 h2' : Hop) (t2 : List Hop) (aft : List Seg)
    (hpe : info1.peer = false) (hgen : macOk mac cfg.key i2 h2 = true)
    (hr : InRange i2 h2) (hr' : InRange i2' h2')
    (hne : protectedOf i2' h2' ≠ protectedOf i2 h2)
    (hone : h2'.mac = h2.mac ∨ inputOf i2' h2' = inputOf i2 h2) :
    (routerStep mac cfg now (.ext i) sl false
      ⟨before, info1, done, h1, [], ⟨i2', h2' :: t2⟩ :: aft⟩).accepting = false := by
  apply Bool.eq_false_iff.2
  intro hacc
  obtain ⟨sid, hsid⟩ := ingUpd_setSeg ⟨before, info1, done, h1, [], ⟨i2', h2' :: t2⟩ :: aft⟩ (.ext i) false
  obtain ⟨c2, hinc, hmac⟩ := xover_next_checked mac cfg now _ sl _ hacc (by simp [determinePeer, hpe])
    (by rw [hsid]; rfl)
  rw [hsid] at hinc
  have hc2 : c2.info = i2' ∧ c2.cur = h2' := by
    simp only [setSeg, Cursor.incPath, Option.some.injEq] at hinc
    subst hinc; exact ⟨rfl, rfl⟩
  rw [hc2.1, hc2.2] at hmac
  have := tamper_hop_rejected mac cfg.key hinj i2 i2' h2 h2' hr hr' hgen hne hone
  rw [this] at hmac
  cases hmac

/-- **run level, the INFO FIELD of the second segment** (SegID or timestamp altered, hop fields
    left alone; `_partial`: one border router per AS): the first hop field of the second segment
    is validated at the segment change under the info field as the packet carries it, so the
    packet is stopped at the joint AS. -/
theorem tamper_second_info_stopped_partial (mac : MacFn) (net : Net) (now src dst : Nat)
    (hUp : AllUp net) (hSR : SingleRouter net)
    (core1 cd1 : Bool) (ts1 seg10 : Nat) (e10 : ASE) (mid1 : List ASE) (last1 : ASE)
    (cd2 : Bool) (ts2 β2 ts2' β2' : Nat) (e20 : ASE) (t2 : List Hop) (aft : List Seg)
    (ha : ∀ s ∈ aft, s.hops.length ≠ 1) (ht2 : t2 ≠ [])
    (hinj : MacInj mac (net last1.ia).key)
    (hFL1 : FL mac net core1 cd1 ts1 seg10 (e10 :: (mid1 ++ [last1])))
    (hsrc : src = e10.ia) (hsd : src ≠ dst)
    (hmid1 : ∀ e ∈ mid1, e.ia ≠ src ∧ e.ia ≠ dst ∧ expired now ts1 e.hop.exp = false)
    (hexp0 : expired now ts1 e10.hop.exp = false)
    (hjoint : last1.ia = e20.ia) (hld : last1.ia ≠ dst)
    (hm2 : MacAt mac net ts2 β2 e20)
    (htam : (β2', ts2') ≠ (β2, ts2))
    (hr : InRange ⟨cd2, false, β2, ts2⟩ (hopOf e20.hop))
    (hr' : InRange ⟨cd2, false, β2', ts2'⟩ (hopOf e20.hop))
    (fuel : Nat) :
    ∃ o tr, run mac net now src dst (fuel + 2 + mid1.length) src 0 .host
        ⟨[], ⟨cd1, false, usedAt cd1 seg10 e10, ts1⟩, [], hopOf e10.hop,
          (mid1.map fun e => hopOf e.hop) ++ [hopOf last1.hop],
          ⟨⟨cd2, false, β2', ts2'⟩, hopOf e20.hop :: t2⟩ :: aft⟩ [] =
      .stopped last1.ia 0 (.ext (inF cd1 last1)) o tr := by
  have ha' : ∀ s ∈ (⟨⟨cd2, false, β2', ts2'⟩, hopOf e20.hop :: t2⟩ : Seg) :: aft, s.hops.length ≠ 1 := by
    intro s hs
    simp only [List.mem_cons] at hs
    rcases hs with rfl | hs
    · cases t2 <;> simp_all
    · exact ha s hs
  have hpre := segment_prefix_run_after mac net now src dst hUp hSR core1 cd1 ts1 seg10 e10 mid1 last1
    (hopOf last1.hop) [] _ ha' hFL1 hsrc hsd hmid1 hexp0 (fuel + 1)
  rw [show fuel + 2 + mid1.length = fuel + 1 + 1 + mid1.length by omega, hpre]
  have hdl : (last1.ia == dst) = false := by simp [hld]
  have hrej : (routerStep mac ⟨(net last1.ia).key, 0, (net last1.ia).ifaces⟩ now (.ext (inF cd1 last1))
      (last1.ia == src) (last1.ia == dst)
      ⟨[], ⟨cd1, false, Scion.SegID.extractBeta (Scion.SegID.updateSegID seg10 (pfx e10.hop.mac)) (sig mid1), ts1⟩,
        hopOf e10.hop :: mid1.map (fun e => hopOf e.hop), hopOf last1.hop, [],
        ⟨⟨cd2, false, β2', ts2'⟩, hopOf e20.hop :: t2⟩ :: aft⟩).accepting = false := by
    rw [hdl]
    exact xover_tampered_rejected_gen mac ⟨(net last1.ia).key, 0, (net last1.ia).ifaces⟩ now _ _ hinj [] _ _ _
      ⟨cd2, false, β2, ts2⟩ ⟨cd2, false, β2', ts2'⟩ (hopOf e20.hop) (hopOf e20.hop) t2 aft rfl
      (by rw [hjoint]; exact macOk_of_macAt mac net ts2 β2 e20 cd2 false hm2) hr hr'
      (by
        intro heq
        simp only [protectedOf, Prod.mk.injEq] at heq
        exact htam (by simp [heq.1, heq.2.1]))
      (Or.inl rfl)
  obtain ⟨o, ho⟩ := run_stops mac net now src dst fuel last1.ia 0 (.ext (inF cd1 last1)) _ _ hrej
  exact ⟨o, _, ho⟩

/-- **run level, the first hop field or the info field of the THIRD segment** (validated at the
    second segment change by the last AS of the second segment; `_partial`: one border router per
    AS).  `i3`/`h3` are the genuine info field and first hop field, `i3'`/`h3'` what the packet
    carries: any alteration covered by `tamper_hop_rejected` (hop field altered as in
    `HopTamper true`, or SegID / timestamp of the info field altered). -/
theorem tamper_third_xover_stopped_partial (mac : MacFn) (net : Net) (now src dst : Nat)
    (hUp : AllUp net) (hSR : SingleRouter net)
    (core1 cd1 : Bool) (ts1 seg10 : Nat) (e10 : ASE) (mid1 : List ASE) (last1 : ASE)
    (core2 cd2 : Bool) (ts2 seg20 : Nat) (e20 : ASE) (mid2 : List ASE) (last2 : ASE)
    (i3 i3' : Info) (e30 : ASE) (h3' : Hop) (t3 : List Hop) (aft : List Seg)
    (ha : ∀ s ∈ aft, s.hops.length ≠ 1) (ht3 : t3 ≠ [])
    (hinj : MacInj mac (net last2.ia).key)
    (hFL1 : FL mac net core1 cd1 ts1 seg10 (e10 :: (mid1 ++ [last1])))
    (hFL2 : FL mac net core2 cd2 ts2 seg20 (e20 :: (mid2 ++ [last2])))
    (hsrc : src = e10.ia) (hsd : src ≠ dst)
    (hmid1 : ∀ e ∈ mid1, e.ia ≠ src ∧ e.ia ≠ dst ∧ expired now ts1 e.hop.exp = false)
    (hexp0 : expired now ts1 e10.hop.exp = false)
    (hjoint1 : last1.ia = e20.ia) (hls1 : last1.ia ≠ src) (hld1 : last1.ia ≠ dst)
    (hexpl1 : expired now ts1 last1.hop.exp = false) (hexp20 : expired now ts2 e20.hop.exp = false)
    (hxlt1 : ∀ a b, InLT core1 cd1 a → EgLT core2 cd2 b → ltXover a b = true)
    (hmid2 : ∀ e ∈ mid2, e.ia ≠ src ∧ e.ia ≠ dst ∧ expired now ts2 e.hop.exp = false)
    (hjoint2 : last2.ia = e30.ia) (hld2 : last2.ia ≠ dst)
    (hgen : macOk mac (net e30.ia).key i3 (hopOf e30.hop) = true)
    (hr : InRange i3 (hopOf e30.hop)) (hr' : InRange i3' h3')
    (hne : protectedOf i3' h3' ≠ protectedOf i3 (hopOf e30.hop))
    (hone : h3'.mac = (hopOf e30.hop).mac ∨ inputOf i3' h3' = inputOf i3 (hopOf e30.hop))
    (fuel : Nat) :
    ∃ o tr, run mac net now src dst (fuel + 3 + mid1.length + mid2.length) src 0 .host
        ⟨[], ⟨cd1, false, usedAt cd1 seg10 e10, ts1⟩, [], hopOf e10.hop,
          (mid1.map fun e => hopOf e.hop) ++ [hopOf last1.hop],
          ⟨⟨cd2, false, usedAt cd2 seg20 e20, ts2⟩,
            hopOf e20.hop :: ((mid2.map fun e => hopOf e.hop) ++ [hopOf last2.hop])⟩ ::
          ⟨i3', h3' :: t3⟩ :: aft⟩ [] =
      .stopped last2.ia 0 (.ext (inF cd2 last2)) o tr := by
  have ha3 : ∀ s ∈ (⟨i3', h3' :: t3⟩ : Seg) :: aft, s.hops.length ≠ 1 := by
    intro s hs
    simp only [List.mem_cons] at hs
    rcases hs with rfl | hs
    · cases t3 <;> simp_all
    · exact ha s hs
  have ha2 : ∀ s ∈ (⟨⟨cd2, false, usedAt cd2 seg20 e20, ts2⟩,
      hopOf e20.hop :: ((mid2.map fun e => hopOf e.hop) ++ [hopOf last2.hop])⟩ : Seg) ::
      ⟨i3', h3' :: t3⟩ :: aft, s.hops.length ≠ 1 := by
    intro s hs
    simp only [List.mem_cons] at hs
    rcases hs with rfl | hs
    · simp
    · exact ha3 s (by simpa using hs)
  have hpre := segment_prefix_run_after mac net now src dst hUp hSR core1 cd1 ts1 seg10 e10 mid1 last1
    (hopOf last1.hop) [] _ ha2 hFL1 hsrc hsd hmid1 hexp0 (fuel + 2 + mid2.length)
  rw [show fuel + 3 + mid1.length + mid2.length = fuel + 2 + mid2.length + 1 + mid1.length by omega, hpre]
  have hcross1 := cross_prefix_run mac net now src dst hUp hSR core1 cd1 ts1 seg10 e10 mid1 last1
    core2 cd2 ts2 seg20 e20 mid2 last2 (hopOf last2.hop) [] [] _
    (hopOf e10.hop :: mid1.map fun e => hopOf e.hop)
    (by simp) ha3 (by simp) hFL1 hFL2 hjoint1 hls1 hld1 hexpl1 hexp20 hxlt1 hmid2 (fuel + 1)
    ((e10.ia, outF cd1 e10) :: ((firstOf mid1 last1).ia, inF cd1 (firstOf mid1 last1)) :: fTrace cd1 mid1 last1)
  rw [show fuel + 2 + mid2.length = fuel + 1 + 1 + mid2.length by omega, hcross1]
  have hdl : (last2.ia == dst) = false := by simp [hld2]
  have hrej : (routerStep mac ⟨(net last2.ia).key, 0, (net last2.ia).ifaces⟩ now (.ext (inF cd2 last2))
      (last2.ia == src) (last2.ia == dst)
      ⟨[] ++ [⟨⟨cd1, false, usedSeg cd1 (Scion.SegID.extractBeta (Scion.SegID.updateSegID seg10 (pfx e10.hop.mac)) (sig mid1))
          (hopOf last1.hop), ts1⟩, (hopOf e10.hop :: mid1.map fun e => hopOf e.hop) ++ [hopOf last1.hop]⟩],
        ⟨cd2, false, Scion.SegID.extractBeta (Scion.SegID.updateSegID seg20 (pfx e20.hop.mac)) (sig mid2), ts2⟩,
        hopOf e20.hop :: mid2.map (fun e => hopOf e.hop), hopOf last2.hop, [],
        ⟨i3', h3' :: t3⟩ :: aft⟩).accepting = false := by
    rw [hdl]
    exact xover_tampered_rejected_gen mac ⟨(net last2.ia).key, 0, (net last2.ia).ifaces⟩ now _ _ hinj _ _ _ _
      i3 i3' (hopOf e30.hop) h3' t3 aft rfl (by rw [hjoint2]; exact hgen) hr hr' hne hone
  obtain ⟨o, ho⟩ := run_stops mac net now src dst fuel last2.ia 0 (.ext (inF cd2 last2)) _ _ hrej
  exact ⟨o, _, ho⟩

/-- an injective "MAC": the input itself, read as a number in base 257 with digits 1…256 -/
def encMac : MacFn := fun _ inp => inp.foldr (fun b acc => b.toNat + 1 + 257 * acc) 0

/-- the hypothesis `MacInj` is satisfiable -/
theorem encMac_inj (k : Bytes) : MacInj encMac k := by
  intro a
  induction a with
  | nil =>
    intro b h
    cases b with
    | nil => rfl
    | cons y ys =>
      simp only [encMac, List.foldr] at h
      omega
  | cons x xs ih =>
    intro b h
    cases b with
    | nil =>
      simp only [encMac, List.foldr] at h
      omega
    | cons y ys =>
      simp only [encMac, List.foldr] at h
      have hx : x.toNat < 256 := x.toNat_lt
      have hy : y.toNat < 256 := y.toNat_lt
      have h1 : x.toNat = y.toNat := by omega
      have h2 : List.foldr (fun b acc => b.toNat + 1 + 257 * acc) 0 xs =
          List.foldr (fun b acc => b.toNat + 1 + 257 * acc) 0 ys := by omega
      have := ih ys h2
      rw [this, UInt8.toNat_inj.1 h1]

end Scion.C04
