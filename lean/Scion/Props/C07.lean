import Scion.Proofs.RouterFrame
import Scion.Proofs.RouterExamples
import Scion.Gen.Router1
/-!
# C07 — Forwarded packets change only in the path's mutable state

Property theorems only. Model: `Scion.Model.Router`, whose packet buffer is edited in place
exactly where `process` edits it; the tie (`harness/cmd/router`) compares the complete output
buffer of the real router with the model's on every packet and, independently, diffs it against
the input under the mask of this file. One-hop-path completion is property C12's file.

The statement at full strength (`ForwardFrame`) is **false** of the code: `MetaHdr.SerializeTo`
and `InfoField.SerializeTo` zero the reserved bits when the router rewrites the pointers / the
SegID (`forward_frame_fails`, known finding `C07/reserved-bits-cleared`). Proved instead:
`forward_frame_partial` (the exact statement for packets whose reserved bits are zero) and the
unconditional `forward_confined` (every byte outside the mutable fields is unchanged or has
only its reserved bits cleared).
-/
namespace Scion.C07
open Scion.Util Scion.Router
open Scion.PathMeta hiding Info

abbrev out (cfg : Cfg) (mac : Mac) (resolve : Cfg → Hd → ResolveOut) (now : Nat) (ing : Ingress)
    (raw : Bytes) : Bytes := (processPkt cfg mac resolve now ing raw).2

abbrev accepted (cfg : Cfg) (mac : Mac) (resolve : Cfg → Hd → ResolveOut) (now : Nat) (ing : Ingress)
    (raw : Bytes) : Prop := (processPkt cfg mac resolve now ing raw).1.accepting = true

/-- **C07 at full strength**: a forwarded (or delivered) packet is byte-identical to the
received one except for the byte holding CurrINF/CurrHF and the SegID of the current segment
(at a segment change also of the next one); the length is unchanged. (The router-alert flags
are consumed only on the slow path: a packet with a pending alert is never `forward`ed by the
fast path.) -/
def ForwardFrame : Prop :=
  ∀ (cfg : Cfg) (mac : Mac) (resolve : Cfg → Hd → ResolveOut) (now : Nat) (ing : Ingress) (raw : Bytes),
    accepted cfg mac resolve now ing raw →
    ∃ h pm, parse raw = .ok h pm ∧ (out cfg mac resolve now ing raw).length = raw.length ∧
      ∀ i, ¬ Mutable h pm i → (out cfg mac resolve now ing raw)[i]? = raw[i]?

/-- the code does not meet it: reserved bits of the meta header and of the info field are
cleared on the way (witness: `Ex.firstHopRsv`, byte 37 `fc` → `00`) -/
theorem forward_frame_fails : ¬ ForwardFrame := by
  intro hf
  obtain ⟨h, pm, hp, _, hframe⟩ :=
    hf Ex.cfg Ex.idMac resolveLocal Ex.now ⟨0, 0⟩ Ex.firstHopRsv (by decide)
  have hp' : parse Ex.firstHopRsv = .ok h pm := hp
  have hh : h.pathOff = 36 ∧ pm.currINF = 0 ∧ pm.currHF = 0 ∧ pm.s0 = 2 ∧ pm.s1 = 0 := by
    have : parse Ex.firstHopRsv = .ok _ _ := rfl
    rw [this] at hp'
    cases hp'
    decide
  have := hframe 37 (by
    unfold Mutable segIDPos infoOff MetaLen InfoLen isXover infIdx base
    simp [hh.1, hh.2.1, hh.2.2.1, hh.2.2.2.1])
  revert this
  decide

/-- the reserved bits of the received packet are zero where the router may rewrite them: the RSV
bits of the meta header (second byte of the line) and the reserved flag bits / reserved byte of
the current info field (at a segment change also of the next one) -/
def RsvZero (h : Hd) (pm : Hdr) (raw : Bytes) : Prop :=
  (∀ x, raw[h.pathOff + 1]? = some x → x.toNat / 4 = 0) ∧
  (∀ j x, Touched h pm j → raw[infoOff h j]? = some x → x.toNat / 4 = 0) ∧
  (∀ j x, Touched h pm j → raw[infoOff h j + 1]? = some x → x = 0)

/-- **unconditional frame.** For every accepted packet: same length, and every byte outside the
mutable fields is either unchanged or equals the received byte with the reserved bits of its
position cleared (`clr` is the identity except on the second byte of the meta line and the first
two bytes of the current — at a segment change also the next — info field). -/
theorem forward_confined (cfg : Cfg) (mac : Mac) (resolve : Cfg → Hd → ResolveOut) (now : Nat)
    (ing : Ingress) (raw : Bytes) (hacc : accepted cfg mac resolve now ing raw) :
    ∃ h pm, parse raw = .ok h pm ∧ (out cfg mac resolve now ing raw).length = raw.length ∧
      ∀ i, ¬ Mutable h pm i →
        ((out cfg mac resolve now ing raw)[i]? = raw[i]? ∨
         (out cfg mac resolve now ing raw)[i]? = (raw[i]?).map (clr h pm i)) := by
  unfold accepted out processPkt at *
  cases hp : parse raw with
  | drop => simp [hp, Disp.accepting] at hacc
  | other => simp [hp, Disp.accepting] at hacc
  | ok h pm =>
    simp only [hp] at hacc ⊢
    obtain ⟨⟨m0, m1, m2, m3, hm, hdec⟩, _⟩ := parse_ok_meta hp
    have hn := accept_near cfg mac resolve now ing h pm raw m0 m1 m2 m3 hm hdec hacc
    exact ⟨h, pm, rfl, hn.1, hn.2⟩

/-- addresses, flow ID, traffic class, hop fields, extension headers and payload are never
modified: every byte before the path header and every byte after the info fields is unchanged -/
theorem outside_meta_and_infos_unchanged (cfg : Cfg) (mac : Mac) (resolve : Cfg → Hd → ResolveOut)
    (now : Nat) (ing : Ingress) (raw : Bytes) (hacc : accepted cfg mac resolve now ing raw) :
    ∃ h pm, parse raw = .ok h pm ∧
      ∀ i, (i < h.pathOff ∨ h.pathOff + 4 + 8 * h.numINF ≤ i) →
        (out cfg mac resolve now ing raw)[i]? = raw[i]? := by
  obtain ⟨h, pm, hp, _, hfr⟩ := forward_confined cfg mac resolve now ing raw hacc
  have hcur : pm.currINF < h.numINF := by
    unfold accepted processPkt at hacc
    simp only [hp] at hacc
    exact accepting_currINF_lt hacc
  refine ⟨h, pm, hp, fun i hi => ?_⟩
  have hm : ¬ Mutable h pm i := by
    have hin : ∀ j, Touched h pm j → ¬ segIDPos h j i := by
      intro j ht
      have hj := touched_in_range hp hcur ht
      have := Nat.mul_le_mul_left 8 hj
      unfold segIDPos infoOff MetaLen InfoLen
      omega
    rintro (hc | hc | ⟨hx, hc⟩)
    · omega
    · exact hin _ (Or.inl rfl) hc
    · exact hin _ (Or.inr ⟨hx, rfl⟩) hc
  rcases hfr i hm with e | e
  · exact e
  · rw [e]
    cases hx : raw[i]? with
    | none => rfl
    | some x => simp [clr_id_outside hp hcur i hi x]

/-- **C07 for packets whose reserved bits are zero** (`…_partial`: the full statement minus the
known finding): byte-identical outside the pointer byte and the SegID(s). -/
theorem forward_frame_partial (cfg : Cfg) (mac : Mac) (resolve : Cfg → Hd → ResolveOut) (now : Nat)
    (ing : Ingress) (raw : Bytes) (hacc : accepted cfg mac resolve now ing raw) :
    ∃ h pm, parse raw = .ok h pm ∧ (out cfg mac resolve now ing raw).length = raw.length ∧
      (RsvZero h pm raw → ∀ i, ¬ Mutable h pm i → (out cfg mac resolve now ing raw)[i]? = raw[i]?) := by
  obtain ⟨h, pm, hp, hlen, hfr⟩ := forward_confined cfg mac resolve now ing raw hacc
  refine ⟨h, pm, hp, hlen, fun hz i hm => ?_⟩
  rcases hfr i hm with e | e
  · exact e
  · rw [e]
    cases hx : raw[i]? with
    | none => rfl
    | some x =>
      simp only [Option.map_some, Option.some.injEq]
      unfold clr
      split
      · rename_i h1
        subst h1
        have := hz.1 x hx
        apply ofNat_toNat_of_eq; omega
      · split
        · rename_i h1 h2
          have ht : ∃ j, Touched h pm j ∧ i = infoOff h j := by
            rcases h2 with h2 | ⟨hxo, h2⟩
            · exact ⟨_, Or.inl rfl, h2⟩
            · exact ⟨_, Or.inr ⟨hxo, rfl⟩, h2⟩
          obtain ⟨j, htj, rfl⟩ := ht
          have := hz.2.1 j x htj hx
          apply ofNat_toNat_of_eq; omega
        · split
          · rename_i h1 h2 h3
            have ht : ∃ j, Touched h pm j ∧ i = infoOff h j + 1 := by
              rcases h3 with h3 | ⟨hxo, h3⟩
              · exact ⟨_, Or.inl rfl, h3⟩
              · exact ⟨_, Or.inr ⟨hxo, rfl⟩, h3⟩
            obtain ⟨j, htj, rfl⟩ := ht
            exact (hz.2.2 j x htj hx).symm
          · rfl

/-! ### non-vacuity -/

/-- a forwarded first-hop packet: only byte 36 (CurrINF/CurrHF) changes (the toy MAC starts with
two zero bytes, so the SegID update is invisible here) -/
example : out Ex.cfg Ex.idMac resolveLocal Ex.now ⟨0, 0⟩ Ex.firstHop = Ex.firstHop.set 36 1 ∧
    accepted Ex.cfg Ex.idMac resolveLocal Ex.now ⟨0, 0⟩ Ex.firstHop := by decide

/-- across a segment change the pointer byte moves by two hops and one segment -/
example : out Ex.cfg Ex.idMac resolveLocal Ex.now ⟨1, 10⟩ Ex.xover = Ex.xover.set 36 0x43 := by decide

/-- with reserved bits set, bytes 37, 40 and 41 are cleared as well (the known finding) -/
example : out Ex.cfg Ex.idMac resolveLocal Ex.now ⟨0, 0⟩ Ex.firstHopRsv =
    (((Ex.firstHopRsv.set 36 1).set 37 0).set 40 1).set 41 0 := by decide

/-! ### T3 -/

/-- the conditions under which the two SegID updates happen, and the order of the stages -/
theorem update_conditions :
    Scion.Gen.Router1.conds_updateNonConsDirIngressSegID =
      ["!p.infoField.ConsDir && p.ingressFromLink != 0 && !p.peering", "err != nil"] ∧
    Scion.Gen.Router1.conds_processEgress =
      ["p.infoField.ConsDir && !p.peering", "err != nil", "err != nil"] ∧
    Scion.Gen.Router1.processCalls = Router.processCallOrder := ⟨rfl, rfl, rfl⟩

/-- field sizes used for the byte positions -/
theorem gen_consts :
    Router.CmnHdrLen = Scion.Gen.Router1.CmnHdrLen ∧ Router.MetaLen = Scion.Gen.Router1.MetaLen ∧
    Router.InfoLen = Scion.Gen.Router1.InfoLen ∧ Router.HopLen = Scion.Gen.Router1.HopLen ∧
    Scion.Gen.Router1.LineLen = 4 := ⟨rfl, rfl, rfl, rfl, rfl⟩

end Scion.C07
