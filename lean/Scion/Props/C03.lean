import Scion.Model.Net
import Scion.Proofs.Net
import Scion.Proofs.NetEdge
import Scion.Proofs.NetMirror
import Scion.Proofs.NetPeerEdge
import Scion.Proofs.NetMulti7
/-!
# C03 — Reversed paths carry replies back to the source

`reverseCursor` is `Decoded.Reverse` (tied by the `rev` lines of engine `net`: every delivered
packet is reversed by the real code and by the model).
-/
namespace Scion.C03
open Scion.Net

/-- **C03 at full strength** (SCION paths; EPIC replies use the embedded SCION path, one-hop
    paths are C12's): whenever a packet is delivered, the packet with the reversed path sent by the
    destination is delivered in the source AS and crosses the same interfaces in reverse order. -/
def C03_full : Prop :=
  ∀ (mac : MacFn) (net : Net) (now : Nat) (edges : List Edge) (src dst : Nat) (c cf : Cursor)
    (tr : List (Nat × Nat)),
    WFNet net → AllUp net → Joinable mac net edges src dst → pathOf edges = some c →
    Unexpired now c →
    send mac net now src dst c = .delivered dst tr cf →
    ∃ cr, send mac net now dst src (reverseCursor cf) = .delivered src tr.reverse cr

theorem revSeg_involutive (s : Seg) : revSeg (revSeg s) = s := by
  cases s with
  | mk i hs => cases i; simp [revSeg, flipInfo]

/-- reversing twice restores the path and the position on it -/
theorem reverse_involutive (c : Cursor) : reverseCursor (reverseCursor c) = c := by
  cases c with
  | mk b i d cur t a =>
    cases i
    simp [reverseCursor, flipInfo, List.map_reverse, Function.comp_def, revSeg_involutive]

/-- reversal keeps the current hop and mirrors the position: the hops behind become the hops
    ahead, the first hop becomes the last -/
theorem reverse_position (c : Cursor) :
    (reverseCursor c).cur = c.cur ∧ (reverseCursor c).isFirstHop = c.isLastHop ∧
    (reverseCursor c).isLastHop = c.isFirstHop ∧
    (reverseCursor c).info.consDir = !c.info.consDir ∧
    (reverseCursor c).info.segID = c.info.segID := by
  simp [reverseCursor, Cursor.isFirstHop, Cursor.isLastHop, flipInfo, Bool.and_comm]

/-- **C03 for single-segment paths** (up, core or down; whole or shortcut; one border router per AS
    — hence `_partial`): the packet delivered at the destination, with its path reversed there,
    is delivered back in the source AS and crosses the same interfaces in reverse order.
    The proof shows that the reversed delivered packet carries exactly the path that path
    combination would build from the same segment used in the opposite direction — the SegID the
    routers leave in the info field is the initial value for the way back (C22
    `down_final_is_up_start` / `up_final_is_down_start`) — and then applies C02. -/
theorem reverse_run_partial (mac : MacFn) (net : Net) (now : Nat)
    (hWF : WFNet net) (hUp : AllUp net) (hSR : SingleRouter net)
    (e : Edge) (src dst : Nat) (c cf : Cursor) (tr : List (Nat × Nat)) (hpeer : e.peer = none)
    (hJ : Joinable mac net [e] src dst) (hp : pathOf [e] = some c) (hexp : Unexpired now c)
    (hsend : send mac net now src dst c = .delivered dst tr cf) :
    ∃ cr, send mac net now dst src (reverseCursor cf) = .delivered src tr.reverse cr := by
  have hJ' := joinable_flip mac net e src dst hJ
  cases hd : e.down with
  | true =>
    obtain ⟨cf', h1, h2, h3⟩ := single_down_full mac net now src dst hWF hUp hSR e c hd hpeer hJ hp hexp
    rw [h1] at hsend
    cases hsend
    rw [hd] at hJ'
    simp only [Bool.not_true] at hJ'
    obtain ⟨cr, h4, _⟩ := single_up_full mac net now dst src hWF hUp hSR { e with down := false }
      (reverseCursor cf) rfl hpeer hJ' h2 h3
    have := pathIfaces_flip e
    rw [hd] at this
    simp only [Bool.not_true] at this
    exact ⟨cr, by rw [h4, this]⟩
  | false =>
    obtain ⟨cf', h1, h2, h3⟩ := single_up_full mac net now src dst hWF hUp hSR e c hd hpeer hJ hp hexp
    rw [h1] at hsend
    cases hsend
    rw [hd] at hJ'
    simp only [Bool.not_false] at hJ'
    obtain ⟨cr, h4, _⟩ := single_down_full mac net now dst src hWF hUp hSR { e with down := true }
      (reverseCursor cf) rfl hpeer hJ' h2 h3
    have := pathIfaces_flip e
    rw [hd] at this
    simp only [Bool.not_false] at this
    exact ⟨cr, by rw [h4, this]⟩

/-- **C03 for every path without peering**, any number and combination of segments, shortcuts
    included; one border router per AS.  The delivered packet, reversed, is exactly the packet that
    path combination would build over the mirrored segment list (`reverse_finalCur`: every SegID
    the routers left behind is the initial value for the way back — C22 — and `Decoded.Reverse`
    mirrors positions), the mirrored list is again well linked (`specsLink_rev`), so C02 applies
    to the way back; the interfaces are those of the way there in reverse order. -/
theorem reverse_run_nonpeering_partial (mac : MacFn) (net : Net) (now : Nat)
    (hWF : WFNet net) (hUp : AllUp net) (hSR : SingleRouter net)
    (edges : List Edge) (src dst : Nat) (c cf : Cursor) (tr : List (Nat × Nat))
    (hnp : ∀ e ∈ edges, e.peer = none)
    (hJ : Joinable mac net edges src dst) (hp : pathOf edges = some c) (hexp : Unexpired now c)
    (hsend : send mac net now src dst c = .delivered dst tr cf) :
    ∃ cr, send mac net now dst src (reverseCursor cf) = .delivered src tr.reverse cr :=
  reverse_run_nonpeer mac net now src dst hWF hUp hSR edges c cf tr hnp hJ hp hexp hsend

/-- **C03 over peering paths** (up segment ending in a peer entry, peering link, down segment
    starting with the matching peer entry; each side one or more ASes; one border router per AS).
    The delivered packet, reversed, is exactly the packet path combination builds from the same
    two segments used the other way round (`peering_accepted_full`: the down segment's routers leave
    in the info field the SegID an up segment over the same entries starts with, the peering hop
    leaves it untouched — C22), the mirrored pair of edges is again joinable
    (`joinable_flip_peering`), so C02 for peering paths applies to the way back. -/
theorem reverse_run_peering_partial (mac : MacFn) (net : Net) (now : Nat)
    (hWF : WFNet net) (hUp : AllUp net) (hSR : SingleRouter net)
    (eu ed : Edge) (src dst : Nat) (c cf : Cursor) (tr : List (Nat × Nat)) (ku kd : Nat)
    (hup : eu.peer = some ku) (hdp : ed.peer = some kd)
    (hJ : Joinable mac net [eu, ed] src dst) (hp : pathOf [eu, ed] = some c) (hexp : Unexpired now c)
    (hsend : send mac net now src dst c = .delivered dst tr cf) :
    ∃ cr, send mac net now dst src (reverseCursor cf) = .delivered src tr.reverse cr :=
  reverse_run_peering mac net now src dst hWF hUp hSR eu ed c cf tr ku kd hup hdp hJ hp hexp hsend

/-- **C03 for networks with one border router per AS**: `C03_full` with the additional hypothesis
    `SingleRouter` — every path path combination can build (all segment combinations, shortcuts,
    peering shortcuts). -/
theorem C03_single_router_partial (mac : MacFn) (net : Net) (now : Nat) (edges : List Edge)
    (src dst : Nat) (c cf : Cursor) (tr : List (Nat × Nat))
    (hWF : WFNet net) (hUp : AllUp net) (hSR : SingleRouter net)
    (hJ : Joinable mac net edges src dst) (hp : pathOf edges = some c) (hexp : Unexpired now c)
    (hsend : send mac net now src dst c = .delivered dst tr cf) :
    ∃ cr, send mac net now dst src (reverseCursor cf) = .delivered src tr.reverse cr := by
  rcases joinable_cases mac net edges src dst hJ with hnp | ⟨e1, e2, k1, k2, rfl, h1, h2⟩
  · exact reverse_run_nonpeering_partial mac net now hWF hUp hSR edges src dst c cf tr hnp hJ hp hexp hsend
  · exact reverse_run_peering_partial mac net now hWF hUp hSR e1 e2 src dst c cf tr k1 k2 h1 h2 hJ hp hexp
      hsend

/-- **C03 at full strength is a theorem**: any number of border routers per AS, all path shapes.
    The way there and the way back are delivered in the network with one router per AS
    (`C03_single_router_partial` on `collapse net`, whose hypotheses follow from those on `net`);
    both deliveries transfer to `net` with the same traces and final packets
    (`send_sim`: every AS crossing by one router is reproduced by the ingress router and, where
    another router owns the egress interface, its sibling); the delivered packet, reversed, is
    again a packet on its first hop with uniform Peer flags (`reverse_delivered`). -/
theorem C03_holds : C03_full := by
  intro mac net now edges src dst c cf tr hWF hUp hJ hp hexp hsend
  have hWF0 := wf_collapse net hWF
  have hUp0 := allUp_collapse net hUp
  have hSR0 := singleRouter_collapse net
  have hJ0 := joinable_collapse mac net edges src dst hJ
  obtain ⟨hU, hfirst⟩ := pathOf_uniform mac net edges src dst c hJ hp
  obtain ⟨cf0, h0⟩ := Scion.Net.C02_single_router mac (collapse net) now edges src dst c hWF0 hUp0 hSR0 hJ0 hp hexp
  have hreal := send_sim mac net now src dst hWF c hU hfirst dst _ cf0 h0
  rw [hreal] at hsend
  cases hsend
  obtain ⟨cr, hr⟩ := C03_single_router_partial mac (collapse net) now edges src dst c cf _ hWF0 hUp0 hSR0
    hJ0 hp hexp h0
  obtain ⟨hUr, hfr⟩ := reverse_delivered mac (collapse net) now src dst c cf dst _ hU h0
  exact ⟨cr, send_sim mac net now dst src hWF (reverseCursor cf) hUr hfr src _ cr hr⟩

end Scion.C03
