import Scion.Model.Net
import Scion.Proofs.Net
/-!
# C03 — Reversed paths carry replies back to the source

`reverseCursor` is `Decoded.Reverse` (tied by the `rev` lines of engine `net`: every delivered
packet is reversed by the real code and by the model).
-/
namespace Scion.C03
open Scion.Net

/-- **C03 at full strength** (SCION paths; EPIC replies use the embedded SCION path, one-hop
    paths are C12's): whenever a packet is delivered, the packet with the reversed path sent by the
    destination is delivered in the source AS and crosses the same interfaces in reverse order. -/
def C03_full : Prop :=
  ∀ (mac : MacFn) (net : Net) (now : Nat) (edges : List Edge) (src dst : Nat) (c cf : Cursor)
    (tr : List (Nat × Nat)),
    WFNet net → AllUp net → Joinable mac net edges src dst → pathOf edges = some c →
    Unexpired now c →
    send mac net now src dst c = .delivered dst tr cf →
    ∃ cr, send mac net now dst src (reverseCursor cf) = .delivered src tr.reverse cr

theorem revSeg_involutive (s : Seg) : revSeg (revSeg s) = s := by
  cases s with
  | mk i hs => cases i; simp [revSeg, flipInfo]

/-- reversing twice restores the path and the position on it -/
theorem reverse_involutive (c : Cursor) : reverseCursor (reverseCursor c) = c := by
  cases c with
  | mk b i d cur t a =>
    cases i
    simp [reverseCursor, flipInfo, List.map_reverse, Function.comp_def, revSeg_involutive]

/-- reversal keeps the current hop and mirrors the position: the hops behind become the hops
    ahead, the first hop becomes the last -/
theorem reverse_position (c : Cursor) :
    (reverseCursor c).cur = c.cur ∧ (reverseCursor c).isFirstHop = c.isLastHop ∧
    (reverseCursor c).isLastHop = c.isFirstHop ∧
    (reverseCursor c).info.consDir = !c.info.consDir ∧
    (reverseCursor c).info.segID = c.info.segID := by
  simp [reverseCursor, Cursor.isFirstHop, Cursor.isLastHop, flipInfo, Bool.and_comm]

end Scion.C03
