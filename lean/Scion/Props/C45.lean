import Scion.Model.Hidden
import Scion.Proofs.Stores
import Scion.Props.C27
import Scion.Gen.StoresFacts
/-!
# C45 — Hidden segments are registered only by writers and served only to members

Property theorems only.  `Scion.Model.Hidden` mirrors `RegistryServer.Register`,
`AuthoritativeServer.Segments`, `canRead`, `isAuthoritative` and `Storer.Get/Put` over the
abstract path-segment store of C27; it is tied to `pkg/experimental/hiddenpath` and the real
SQLite path DB by `harness/cmd/hidden`.
-/
namespace Scion.C45
open Scion.Stores Scion.Hidden

theorem registerCheck_ok_iff (groups : List Group) (localIA : IA) (reg : Registration) :
    registerCheck groups localIA reg = .ok () ↔
      ∃ g, findGroup groups reg.groupID = some g ∧ reg.peer ∈ g.writers ∧
        localIA ∈ g.registries ∧ (∀ s ∈ reg.segs, s.2 = typeDown) ∧ reg.verifies = true := by
  unfold registerCheck
  cases hg : findGroup groups reg.groupID with
  | none => simp
  | some g =>
    have hw' : reg.peer ∈ g.writers ↔ g.writers.contains reg.peer = true :=
      List.contains_iff_mem.symm
    have hr' : localIA ∈ g.registries ↔ g.registries.contains localIA = true :=
      List.contains_iff_mem.symm
    have ha' : (∀ s ∈ reg.segs, s.2 = typeDown) ↔
        (reg.segs.any fun s => s.2 != typeDown) = false := by
      constructor
      · intro h
        apply List.any_eq_false.mpr
        intro s hs
        simp [h s hs]
      · intro h s hs
        have := List.any_eq_false.mp h s hs
        simpa using this
    simp only [Option.some.injEq, exists_eq_left', hw', hr', ha']
    cases g.writers.contains reg.peer <;> cases g.registries.contains localIA <;>
      cases (reg.segs.any fun s => s.2 != typeDown) <;> cases reg.verifies <;> simp

/-- **registration is accepted iff** the group exists, the registering AS is one of its
    writers, this registry is one of its registries, all segments are down segments and they
    verify -/
theorem register_iff (groups : List Group) (localIA : IA) (segs : List SegRec)
    (reg : Registration) (tick : Nat) :
    (∃ s', register groups localIA segs reg tick = .ok s') ↔
      ∃ g, findGroup groups reg.groupID = some g ∧ reg.peer ∈ g.writers ∧
        localIA ∈ g.registries ∧ (∀ s ∈ reg.segs, s.2 = typeDown) ∧ reg.verifies = true := by
  rw [← registerCheck_ok_iff]
  unfold register
  cases h : registerCheck groups localIA reg with
  | error e => simp
  | ok u => cases u; simp

/-- an accepted registration stores exactly its segments under its group; a refused one leaves
    the store untouched -/
theorem register_effect (groups : List Group) (localIA : IA) (segs : List SegRec)
    (reg : Registration) (tick : Nat) :
    (step groups localIA segs tick (.register reg)).1 =
      (match registerCheck groups localIA reg with
       | .ok () => put segs reg.segs reg.groupID tick
       | .error _ => segs) := by
  simp only [step, register]
  cases h : registerCheck groups localIA reg with
  | error e => rfl
  | ok u => cases u; rfl

theorem canRead_iff (peer : IA) (g : Group) :
    canRead peer g = true ↔
      g.owner = peer ∨ peer ∈ g.registries ∨ peer ∈ g.writers ∨ peer ∈ g.readers := by
  simp [canRead, or_assoc]

theorem checkGroups_ok_iff (groups : List Group) (localIA peer : IA) (ids : List Nat) :
    checkGroups groups localIA peer ids = .ok () ↔
      ∀ id ∈ ids, ∃ g, findGroup groups id = some g ∧ canRead peer g = true ∧
        localIA ∈ g.registries := by
  induction ids with
  | nil => simp [checkGroups]
  | cons id rest ih =>
    unfold checkGroups
    cases hg : findGroup groups id with
    | none => simp [hg]
    | some g =>
      by_cases h1 : canRead peer g = true
      · by_cases h2 : localIA ∈ g.registries
        · simp [h1, h2, isAuthoritative, ih, hg]
        · simp [h1, h2, isAuthoritative, hg]
      · simp [h1, hg]

/-- **the server answers iff** at least one group is requested, every requested group exists,
    the requester is its owner, a registry, a writer or a reader, and this server is one of its
    registries -/
theorem serve_iff (groups : List Group) (localIA : IA) (segs : List SegRec) (req : Request) :
    (∃ es, segments groups localIA segs req = .ok es) ↔
      req.groupIDs ≠ [] ∧ ∀ id ∈ req.groupIDs, ∃ g, findGroup groups id = some g ∧
        (g.owner = req.peer ∨ req.peer ∈ g.registries ∨ req.peer ∈ g.writers ∨
          req.peer ∈ g.readers) ∧ localIA ∈ g.registries := by
  unfold segments
  by_cases he : req.groupIDs = []
  · simp [he]
  · have he' : req.groupIDs.isEmpty = false := by simpa [List.isEmpty_iff] using he
    simp only [he', Bool.false_eq_true, if_false, ne_eq, he, not_false_eq_true, true_and]
    have hk := checkGroups_ok_iff groups localIA req.peer req.groupIDs
    simp only [canRead_iff] at hk
    cases hc : checkGroups groups localIA req.peer req.groupIDs with
    | error e =>
      simp only [reduceCtorEq, exists_false, false_iff]
      intro h
      have := hk.mpr h
      rw [hc] at this
      cases this
    | ok u =>
      cases u
      simp only [Except.ok.injEq, exists_eq', true_iff]
      exact hk.mp hc

/-- **it then returns exactly the stored segments registered under a requested group that end
    at the requested destination**: one entry per type of every such stored record, carrying
    its current version -/
theorem served_exact (groups : List Group) (localIA : IA) (segs : List SegRec) (req : Request)
    (es : List Entry) (h : segments groups localIA segs req = .ok es) (e : Entry) :
    e ∈ es ↔
      ∃ r ∈ segs, matchIA req.dst r.last = true ∧ (∃ g ∈ r.groups, g ∈ req.groupIDs) ∧
        e.type ∈ r.types ∧
        e = ⟨r.id, r.full, r.ver, r.maxExp, e.type,
              r.groups.filter (fun g => req.groupIDs.contains g), r.lu⟩ := by
  unfold segments at h
  by_cases he : req.groupIDs = []
  · simp [he] at h
  · have he' : req.groupIDs.isEmpty = false := by simpa [List.isEmpty_iff] using he
    simp only [he', Bool.false_eq_true, if_false] at h
    cases hc : checkGroups groups localIA req.peer req.groupIDs with
    | error x => simp [hc] at h
    | ok u =>
      simp only [hc, Except.ok.injEq] at h
      subst h
      rw [C27.query_exact]
      have hsel : ∀ r : SegRec, selGroups (storerParams req) r =
          r.groups.filter (fun g => req.groupIDs.contains g) := by
        intro r; simp [selGroups, storerParams, he']
      have hty : ∀ r : SegRec, selTypes (storerParams req) r = r.types := by
        intro r; simp [selTypes, storerParams]
      have hrow : ∀ r : SegRec, rowMatches (storerParams req) r = matchIA req.dst r.last := by
        intro r; simp [rowMatches, storerParams]
      constructor
      · rintro ⟨r, hr, hm, hg, ht, heq⟩
        rw [hsel] at hg heq
        rw [hty] at ht
        rw [hrow] at hm
        refine ⟨r, hr, hm, ?_, ht, heq⟩
        obtain ⟨g, hgm⟩ := List.exists_mem_of_ne_nil _ hg
        have := List.mem_filter.mp hgm
        exact ⟨g, this.1, by simpa using this.2⟩
      · rintro ⟨r, hr, hm, ⟨g, hg1, hg2⟩, ht, heq⟩
        refine ⟨r, hr, by rw [hrow]; exact hm, ?_, by rw [hty]; exact ht, by rw [hsel]; exact heq⟩
        rw [hsel]
        intro hnil
        have : g ∈ r.groups.filter (fun g => req.groupIDs.contains g) :=
          List.mem_filter.mpr ⟨hg1, by simpa using hg2⟩
        rw [hnil] at this
        cases this

/-! ## Histories: nothing is stored or served that was not registered by a writer -/

theorem insertSeg_origin (s : List SegRec) (x : SegIn) (t g k : Nat) (r' : SegRec)
    (hr' : r' ∈ (insertSeg s x t [g] k).1) :
    (∀ g' ∈ r'.groups, (∃ r ∈ s, r.id = r'.id ∧ g' ∈ r.groups) ∨ (r'.id = x.id ∧ g' = g)) ∧
    (∀ t' ∈ r'.types, (∃ r ∈ s, r.id = r'.id ∧ t' ∈ r.types) ∨ (r'.id = x.id ∧ t' = t)) := by
  unfold insertSeg at hr'
  cases hf : findSeg s x.id with
  | none =>
    simp only [hf] at hr'
    rcases List.mem_append.mp hr' with h | h
    · exact ⟨fun g' hg' => Or.inl ⟨r', h, rfl, hg'⟩, fun t' ht' => Or.inl ⟨r', h, rfl, ht'⟩⟩
    · simp only [List.mem_singleton] at h
      subst h
      refine ⟨?_, ?_⟩
      · intro g' hg'
        simp only [newRec, mem_addAll] at hg'
        simp at hg'
        exact Or.inr ⟨rfl, hg'⟩
      · intro t' ht'
        simp only [newRec, List.mem_singleton] at ht'
        exact Or.inr ⟨rfl, ht'⟩
  | some old =>
    simp only [hf] at hr'
    split at hr'
    · exact ⟨fun g' hg' => Or.inl ⟨r', hr', rfl, hg'⟩, fun t' ht' => Or.inl ⟨r', hr', rfl, ht'⟩⟩
    · obtain ⟨a, ha, rfl⟩ := List.mem_map.mp hr'
      by_cases hid : a.id = x.id
      · simp only [hid, if_true]
        refine ⟨?_, ?_⟩
        · intro g' hg'
          simp only [updRec, mem_addAll, List.mem_singleton] at hg'
          rcases hg' with h | h
          · exact Or.inl ⟨a, ha, by simp [updRec], h⟩
          · exact Or.inr ⟨by simp [updRec, hid], h⟩
        · intro t' ht'
          simp only [updRec, mem_addOne] at ht'
          rcases ht' with h | h
          · exact Or.inl ⟨a, ha, by simp [updRec], h⟩
          · exact Or.inr ⟨by simp [updRec, hid], h⟩
      · simp only [hid, if_false]
        exact ⟨fun g' hg' => Or.inl ⟨a, ha, rfl, hg'⟩, fun t' ht' => Or.inl ⟨a, ha, rfl, ht'⟩⟩

theorem put_origin (items : List (SegIn × Nat)) (s : List SegRec) (g k : Nat) (r' : SegRec)
    (hr' : r' ∈ put s items g k) :
    (∀ g' ∈ r'.groups, (∃ r ∈ s, r.id = r'.id ∧ g' ∈ r.groups) ∨
      (g' = g ∧ ∃ it ∈ items, it.1.id = r'.id)) ∧
    (∀ t' ∈ r'.types, (∃ r ∈ s, r.id = r'.id ∧ t' ∈ r.types) ∨
      (∃ it ∈ items, it.1.id = r'.id ∧ t' = it.2)) := by
  induction items generalizing s with
  | nil =>
    exact ⟨fun g' hg' => Or.inl ⟨r', hr', rfl, hg'⟩, fun t' ht' => Or.inl ⟨r', hr', rfl, ht'⟩⟩
  | cons it rest ih =>
    simp only [put, List.foldl_cons] at hr'
    have := ih (insertSeg s it.1 it.2 [g] k).1 hr'
    refine ⟨?_, ?_⟩
    · intro g' hg'
      rcases this.1 g' hg' with ⟨r1, hr1, hid1, hg1⟩ | ⟨hgg, it', hit', hid'⟩
      · rcases (insertSeg_origin s it.1 it.2 g k r1 hr1).1 g' hg1 with ⟨r0, hr0, hid0, hg0⟩ | ⟨hx, hgg⟩
        · exact Or.inl ⟨r0, hr0, hid0.trans hid1, hg0⟩
        · exact Or.inr ⟨hgg, it, by simp, hx.symm.trans hid1⟩
      · exact Or.inr ⟨hgg, it', by simp [hit'], hid'⟩
    · intro t' ht'
      rcases this.2 t' ht' with ⟨r1, hr1, hid1, ht1⟩ | ⟨it', hit', hid', htt⟩
      · rcases (insertSeg_origin s it.1 it.2 g k r1 hr1).2 t' ht1 with ⟨r0, hr0, hid0, ht0⟩ | ⟨hx, htt⟩
        · exact Or.inl ⟨r0, hr0, hid0.trans hid1, ht0⟩
        · exact Or.inr ⟨it, by simp, hx.symm.trans hid1, htt⟩
      · exact Or.inr ⟨it', by simp [hit'], hid', htt⟩

/-- a registration of the history that passed all checks -/
def AcceptedIn (groups : List Group) (localIA : IA) (ops : List Op) (reg : Registration) : Prop :=
  Op.register reg ∈ ops ∧ registerCheck groups localIA reg = .ok ()

/-- every (segment, group) association and every type in the store stems from an accepted
    registration -/
def Justified (groups : List Group) (localIA : IA) (all : List Op) (segs : List SegRec) : Prop :=
  ∀ r ∈ segs,
    (∀ g ∈ r.groups, ∃ reg, AcceptedIn groups localIA all reg ∧ reg.groupID = g ∧
      ∃ it ∈ reg.segs, it.1.id = r.id) ∧
    (∀ t ∈ r.types, t = typeDown)

theorem registerCheck_ok_down (groups : List Group) (localIA : IA) (reg : Registration)
    (h : registerCheck groups localIA reg = .ok ()) : ∀ it ∈ reg.segs, it.2 = typeDown := by
  have := (register_iff groups localIA [] reg 0).mp (by simp [register, h])
  obtain ⟨_, _, _, _, h3, _⟩ := this
  exact h3

theorem justified_step (groups : List Group) (localIA : IA) (all : List Op) (segs : List SegRec)
    (tick : Nat) (op : Op) (hop : op ∈ all) (h : Justified groups localIA all segs) :
    Justified groups localIA all (step groups localIA segs tick op).1 := by
  cases op with
  | segments req => exact h
  | register reg =>
    rw [register_effect]
    cases hc : registerCheck groups localIA reg with
    | error e => exact h
    | ok u =>
      cases u
      intro r' hr'
      have ho := put_origin reg.segs segs reg.groupID tick r' hr'
      refine ⟨?_, ?_⟩
      · intro g hg
        rcases ho.1 g hg with ⟨r0, hr0, hid0, hg0⟩ | ⟨hgg, it, hit, hid⟩
        · obtain ⟨reg0, hacc, hgid, it0, hit0, hid00⟩ := (h r0 hr0).1 g hg0
          exact ⟨reg0, hacc, hgid, it0, hit0, hid00.trans hid0⟩
        · exact ⟨reg, ⟨hop, hc⟩, hgg.symm, it, hit, hid⟩
      · intro t ht
        rcases ho.2 t ht with ⟨r0, hr0, _, ht0⟩ | ⟨it, hit, _, htt⟩
        · exact (h r0 hr0).2 t ht0
        · rw [htt]; exact registerCheck_ok_down groups localIA reg hc it hit

theorem justified_run (groups : List Group) (localIA : IA) (all ops : List Op)
    (hsub : ∀ op ∈ ops, op ∈ all) (segs : List SegRec) (tick : Nat)
    (h : Justified groups localIA all segs) :
    Justified groups localIA all (run groups localIA segs tick ops).1 := by
  induction ops generalizing segs tick with
  | nil => exact h
  | cons op rest ih =>
    exact ih (fun o ho => hsub o (by simp [ho])) _ _
      (justified_step groups localIA all segs tick op (hsub op (by simp)) h)

/-- **only writers register**: after any history of registrations and requests (from the empty
    store) every group a stored segment is filed under was put there by a registration of that
    history which passed all checks — group known, sender a writer of it, this AS one of its
    registries, all segments down segments, verified — and every stored type is *down* -/
theorem stored_only_by_writers (groups : List Group) (localIA : IA) (ops : List Op) (tick : Nat)
    (r : SegRec) (hr : r ∈ (run groups localIA [] tick ops).1) (g : Nat) (hg : g ∈ r.groups) :
    (∃ reg grp, Op.register reg ∈ ops ∧ reg.groupID = g ∧ (∃ it ∈ reg.segs, it.1.id = r.id) ∧
      findGroup groups g = some grp ∧ reg.peer ∈ grp.writers ∧ localIA ∈ grp.registries ∧
      reg.verifies = true) ∧ ∀ t ∈ r.types, t = typeDown := by
  have hj := justified_run groups localIA ops ops (fun _ h => h) [] tick
    (fun _ hr => nomatch hr) r hr
  refine ⟨?_, hj.2⟩
  obtain ⟨reg, ⟨hin, hacc⟩, hgid, hit⟩ := hj.1 g hg
  obtain ⟨grp, hgrp, hw, hreg, _, hv⟩ :=
    (register_iff groups localIA [] reg 0).mp (by simp [register, hacc])
  rw [hgid] at hgrp
  exact ⟨reg, grp, hin, hgid, hit, hgrp, hw, hreg, hv⟩

/-- **only members are served**: whatever a request is answered with, after any history, is a
    stored down segment filed under a requested group of which the requester is owner,
    registry, writer or reader, and that association was registered by a writer of that group -/
theorem served_only_to_members (groups : List Group) (localIA : IA) (ops : List Op) (tick : Nat)
    (req : Request) (es : List Entry)
    (h : segments groups localIA (run groups localIA [] tick ops).1 req = .ok es)
    (e : Entry) (he : e ∈ es) :
    e.type = typeDown ∧
    ∃ g ∈ req.groupIDs, ∃ grp, findGroup groups g = some grp ∧
      (grp.owner = req.peer ∨ req.peer ∈ grp.registries ∨ req.peer ∈ grp.writers ∨
        req.peer ∈ grp.readers) ∧
      ∃ reg, Op.register reg ∈ ops ∧ reg.groupID = g ∧ reg.peer ∈ grp.writers ∧
        ∃ it ∈ reg.segs, it.1.id = e.id := by
  obtain ⟨r, hr, _, ⟨g, hg1, hg2⟩, ht, heq⟩ :=
    (served_exact groups localIA _ req es h e).mp he
  obtain ⟨⟨reg, grp, hin, hgid, hit, hgrp, hw, _, _⟩, hdown⟩ :=
    stored_only_by_writers groups localIA ops tick r hr g hg1
  obtain ⟨_, hall⟩ := (serve_iff groups localIA _ req).mp ⟨es, h⟩
  obtain ⟨grp', hgrp', hmem, _⟩ := hall g hg2
  rw [hgrp] at hgrp'
  cases hgrp'
  have hid : e.id = r.id := by rw [heq]
  refine ⟨hdown _ ht, g, hg2, grp, hgrp, hmem, reg, hin, hgid, hw, ?_⟩
  obtain ⟨it, hit1, hit2⟩ := hit
  exact ⟨it, hit1, hit2.trans hid.symm⟩

/-- T3: the checks of `Register` and `Segments`, `canRead`, `isAuthoritative` and the query /
    insertion of `Storer.Get` / `Storer.Put` as they stand in the source (regenerated on every
    run) are the ones the model transcribes, in this order -/
theorem gen_hidden_decisions :
    Scion.Gen.StoresFacts.registerConds =
      ["!ok", "_, ok := group.Writers[reg.Peer.IA]; !ok",
       "_, ok := group.Registries[h.LocalIA]; !ok", "s.Type != seg.TypeDown"] ∧
    Scion.Gen.StoresFacts.segmentsConds =
      ["len(req.GroupIDs) == 0", "!ok", "!canRead(req.Peer, group)",
       "!isAuthoritative(s.LocalIA, group)"] ∧
    Scion.Gen.StoresFacts.canReadReturns =
      ["owner := group.Owner.Equal(peer)", "_, registry := group.Registries[peer]",
       "_, writer := group.Writers[peer]", "_, reader := group.Readers[peer]",
       "return owner || registry || writer || reader"] ∧
    Scion.Gen.StoresFacts.isAuthoritativeReturns =
      ["_, auth := group.Registries[localIA]", "return auth"] ∧
    Scion.Gen.StoresFacts.storerGetParams = ["EndsAt=[]addr.IA{ia}", "HPGroupIDs=convert(groups)"] ∧
    Scion.Gen.StoresFacts.storerPutArgs = ["ctx", "seg", "convert([]GroupID{g})"] := by
  refine ⟨by decide, by decide, by decide, by decide, by decide, by decide⟩

/-! ## Non-vacuity -/

private def owner : IA := ⟨1, 0x110⟩
private def writer : IA := ⟨1, 0x111⟩
private def reader : IA := ⟨1, 0x112⟩
private def stranger : IA := ⟨1, 0x999⟩
private def reg1 : IA := ⟨1, 0x113⟩
private def grp : Group := ⟨0x1100001, owner, [writer], [reader], [reg1]⟩
private def sg : SegIn := ⟨"ab".toList, "cd".toList, 5, 100, owner, writer, []⟩

/-- a writer registers, a reader is served, a reader cannot register, a stranger is not served,
    another destination yields nothing -/
example :
    (run [grp] reg1 [] 0
      [.register ⟨0x1100001, reader, [(sg, 2)], true⟩,
       .register ⟨0x1100001, writer, [(sg, 2)], true⟩,
       .segments ⟨[0x1100001], writer, reader⟩,
       .segments ⟨[0x1100001], writer, stranger⟩,
       .segments ⟨[0x1100001], reader, reader⟩]).2.map
      (fun o => match o with
        | .registered (.ok _) => 1
        | .registered (.error _) => 0
        | .served (.ok es) => 10 + es.length
        | .served (.error _) => 0) = [0, 1, 11, 0, 10] := by decide +kernel

end Scion.C45
