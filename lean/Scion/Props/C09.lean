import Scion.Proofs.Scmp
import Scion.Proofs.ScmpBytes
import Scion.Props.C20
import Scion.Gen.Scmp
/-!
# C09 — SCMP errors are well-formed, addressed to the source, and bounded in size

Statement (properties.jsonl): every SCMP error message a router generates is addressed to the
offending packet's source ISD-AS and host, originates from the local ISD-AS and router address, has
a valid checksum, a type, code and pointer matching the detected problem, and quotes a prefix of the
offending packet while the whole message stays within 1232 bytes.  No SCMP error is ever generated
in response to an SCMP error message, and authenticated errors carry a valid authenticator.

Theorems are about `Scion.Scmp.processPacket`, the model of `slowPathPacketProcessor.processPacket`
(`packSCMP`, `prepareSCMP`, `handleSCMPTraceRouteRequest`), for **every** offending packet, request,
configuration, link scope and headroom.  Constants and the `ScmpHeaderSize` table are those of
`Scion.Gen.Scmp`, regenerated from /repo on every run.

Checksum and authenticator compose the models of C20 (`Scion.Checksum`) and C21 (`Scion.Spao`) with
the byte level of the emitted SCMP message (`Scion/Model/ScmpBytes.lean`):
`scmp_reply_checksum_verifies`, `auth_tag_valid`.  The MAC itself (AES-CMAC) is a parameter.
-/
namespace Scion.C09
open Scion.Scmp Scion.PathMeta Scion.Util

/-! ## the model's constants and tables are the code's (T3) -/

theorem gen_consts :
    cmnHdrLen = Scion.Gen.Scmp.CmnHdrLen ∧ maxHdrLen = Scion.Gen.Scmp.MaxHdrLen ∧
    maxSCMPPacketLen = Scion.Gen.Scmp.MaxSCMPPacketLen ∧ e2eAuthHdrLen = Scion.Gen.Scmp.e2eAuthHdrLen ∧
    hopLen = Scion.Gen.Scmp.HopLen ∧ infoLen = Scion.Gen.Scmp.InfoLen ∧ metaLen = Scion.Gen.Scmp.MetaLen ∧
    lineLen = Scion.Gen.Scmp.LineLen ∧ iaBytes = Scion.Gen.Scmp.IABytes ∧ bufSize = Scion.Gen.Scmp.bufSize ∧
    l4SCMP = Scion.Gen.Scmp.L4SCMP ∧ l4E2E = Scion.Gen.Scmp.End2EndClass ∧
    Scion.PathMeta.maxHops = Scion.Gen.Scmp.MaxHops := by decide

/-- `scmpHeaderSize` is the switch of `slayers.ScmpHeaderSize` as it stands in the source -/
theorem header_size_table (t : Nat) :
    scmpHeaderSize t =
      ((Scion.Gen.Scmp.scmpHeaderSizeCases.lookup t).getD Scion.Gen.Scmp.scmpHeaderSizeDefault) := by
  unfold scmpHeaderSize Scion.Gen.Scmp.scmpHeaderSizeCases Scion.Gen.Scmp.scmpHeaderSizeDefault
  simp only [List.lookup]
  by_cases h5 : t = 5
  · subst h5; rfl
  by_cases h6 : t = 6
  · subst h6; rfl
  by_cases h130 : t = 130
  · subst h130; rfl
  by_cases h131 : t = 131
  · subst h131; rfl
  have e5 : (t == 5) = false := by simpa using h5
  have e6 : (t == 6) = false := by simpa using h6
  have e130 : (t == 130) = false := by simpa using h130
  have e131 : (t == 131) = false := by simpa using h131
  simp [h5, h6, h130, h131, e5, e6, e130, e131]

/-- no SCMP header is larger than `MaxSCMPHeaderSize`, the constant `minHeadroom` is asserted against -/
theorem header_size_le_max (t : Nat) : scmpHeaderSize t ≤ Scion.Gen.Scmp.MaxSCMPHeaderSize :=
  (scmpHeaderSize_le t).1

/-- the expressions of `prepareSCMP` that the model transcribes are still the ones in the source -/
theorem prepare_expressions :
    Scion.Gen.Scmp.prepare_hdrLen =
      "|:= slayers.CmnHdrLen + scionL.AddrHdrLen() + scionL.Path.Len() + slayers.ScmpHeaderSize(scmpH.TypeCode.Type())|+= e2eAuthHdrLen" ∧
    Scion.Gen.Scmp.prepare_maxQuoteLen = "|:= slayers.MaxSCMPPacketLen - hdrLen" ∧
    Scion.Gen.Scmp.prepare_quoteLen = "|:= len(p.pkt.RawPacket)|= maxQuoteLen" ∧
    Scion.Gen.Scmp.prepare_headroom = "|:= len(p.pkt.buffer) - cap(p.pkt.RawPacket)" ∧
    Scion.Gen.Scmp.prepare_conds = ["quoteLen > maxQuoteLen", "hdrLen+p.d.underlayHeadroom > headroom"] :=
  ⟨rfl, rfl, rfl, rfl, rfl⟩

/-! ## size -/

/-- For every legal path (≤ 3 segments, ≤ 64 hops), every pair of address types, every SCMP type,
with or without authenticator, the headers leave room: `0 < 1232 − hdrLen`, so the quote slice
`RawPacket[:quoteLen]` never has a negative length. -/
theorem hdrLen_lt_max (dstT srcT ni nh t : Nat) (a : Bool) (hi : ni ≤ 3) (hh : nh ≤ 64) :
    hdrLen dstT srcT ni nh t a < maxSCMPPacketLen ∧ 0 < maxSCMPPacketLen - hdrLen dstT srcT ni nh t a := by
  have := hdrLen_le dstT srcT ni nh t a hi hh
  unfold maxSCMPPacketLen; omega

/-- the bound 916 is attained (IPv6 both ways, 3 segments, 64 hops, InternalConnectivityDown,
authenticated) -/
example : hdrLen 3 3 3 64 6 true = 916 := by decide

/-- **Every message the slow path emits is at most 1232 bytes long** (errors with their quote, and
traceroute replies). -/
theorem scmp_size_le_1232 (cfg : Cfg) (scope : Scope) (headroom : Nat) (o : Offender) (rq : Request)
    (r : Reply) (h : processPacket cfg scope headroom o rq = .emit r) :
    r.total ≤ maxSCMPPacketLen := by
  rcases processPacket_emit cfg scope headroom o rq r h with ⟨t, ht, _, _, hp⟩ | ⟨trIf, p, _, _, hp⟩
  · obtain ⟨rp0, peering, rp, sz, hrev, hext, hpl, hfin⟩ := prepare_emit _ _ _ _ _ _ _ _ _ _ hp
    obtain ⟨c1, c2⟩ := reversePath_counts o rp0 peering hrev
    obtain ⟨d1, d2⟩ := externalStep_counts scope rp0 rp peering hext
    obtain ⟨_, he, _⟩ := placement_ok _ _ _ _ _ _ _ _ _ _ _ hpl
    obtain ⟨hle, htot, _⟩ := he rfl
    have hact := actual_eq_predicted o.srcType cfg.hostType rp.b.numINF rp.b.numHops t
      (needsAuth cfg o t true) (by omega)
    have hq := quoteLen_le o.raw.length (hdrLen o.srcType cfg.hostType rp.b.numINF rp.b.numHops t (needsAuth cfg o t true))
    have hf := finish_emit _ _ _ _ _ _ _ _ _ _ _ hfin
    have : r.total = sz.total := hf.2.2.2.1
    omega
  · obtain ⟨rp0, peering, rp, sz, hrev, hext, hpl, hfin⟩ := prepare_emit _ _ _ _ _ _ _ _ _ _ hp
    obtain ⟨c1, c2⟩ := reversePath_counts o rp0 peering hrev
    obtain ⟨d1, d2⟩ := externalStep_counts scope rp0 rp peering hext
    obtain ⟨_, _, hne⟩ := placement_ok _ _ _ _ _ _ _ _ _ _ _ hpl
    obtain ⟨htot, _⟩ := hne rfl
    have hact := actual_eq_predicted o.srcType cfg.hostType rp.b.numINF rp.b.numHops 131
      (needsAuth cfg o 131 false) (by omega)
    have hb := hdrLen_le o.srcType cfg.hostType rp.b.numINF rp.b.numHops 131 (needsAuth cfg o 131 false)
      (by omega) (by omega)
    have hf := finish_emit _ _ _ _ _ _ _ _ _ _ _ hfin
    have : r.total = sz.total := hf.2.2.2.1
    unfold maxSCMPPacketLen; omega

/-- **The quote is a prefix of the offending packet, and it is as long as the bound allows**: the
message is `min(1232, headers + whole packet)` bytes long. -/
theorem quote_is_prefix (cfg : Cfg) (scope : Scope) (headroom : Nat) (o : Offender) (rq : Request)
    (r : Reply) (h : processPacket cfg scope headroom o rq = .emit r) (he : r.isError = true) :
    r.quote <+: o.raw ∧
    r.total = (r.total - r.quote.length) + r.quote.length ∧
    r.total = min maxSCMPPacketLen ((r.total - r.quote.length) + o.raw.length) := by
  rcases processPacket_emit cfg scope headroom o rq r h with ⟨t, ht, _, _, hp⟩ | ⟨trIf, p, _, _, hp⟩
  · obtain ⟨rp0, peering, rp, sz, hrev, hext, hpl, hfin⟩ := prepare_emit _ _ _ _ _ _ _ _ _ _ hp
    obtain ⟨_, hE, _⟩ := placement_ok _ _ _ _ _ _ _ _ _ _ _ hpl
    obtain ⟨hle, htot, hquo, _⟩ := hE rfl
    have hact := actual_eq_predicted o.srcType cfg.hostType rp.b.numINF rp.b.numHops t
      (needsAuth cfg o t true) (by omega)
    have hf := finish_emit _ _ _ _ _ _ _ _ _ _ _ hfin
    have h1 : r.total = sz.total := hf.2.2.2.1
    have h2 : r.quote = sz.quote := hf.2.2.2.2.1
    have hq := quoteLen_le o.raw.length (hdrLen o.srcType cfg.hostType rp.b.numINF rp.b.numHops t (needsAuth cfg o t true))
    have hlen : r.quote.length = quoteLen o.raw.length (hdrLen o.srcType cfg.hostType rp.b.numINF rp.b.numHops t (needsAuth cfg o t true)) := by
      rw [h2, hquo, List.length_take]; omega
    refine ⟨?_, by omega, ?_⟩
    · rw [h2, hquo]; exact List.take_prefix _ _
    · unfold quoteLen at hlen hq htot; omega
  · obtain ⟨rp0, peering, rp, sz, hrev, hext, hpl, hfin⟩ := prepare_emit _ _ _ _ _ _ _ _ _ _ hp
    have hf := finish_emit _ _ _ _ _ _ _ _ _ _ _ hfin
    have : r.isError = false := hf.2.2.2.2.2.2.2.2.2.2.2.2.2.2.2.2.1
    rw [this] at he; cases he

/-! ## addressing -/

/-- **Destination = the offending packet's source ISD-AS and host, source = the local ISD-AS and the
router's own address** — for everything the slow path emits. -/
theorem scmp_addressing (cfg : Cfg) (scope : Scope) (headroom : Nat) (o : Offender) (rq : Request)
    (r : Reply) (h : processPacket cfg scope headroom o rq = .emit r) :
    r.dstIA = o.srcIA ∧ r.dstType = o.srcType ∧ r.rawDst = o.rawSrc ∧
    r.srcIA = cfg.localIA ∧ r.srcType = cfg.hostType ∧ r.rawSrc = cfg.rawHost := by
  rcases processPacket_emit cfg scope headroom o rq r h with ⟨t, _, _, _, hp⟩ | ⟨trIf, p, _, _, hp⟩ <;>
  · obtain ⟨rp0, peering, rp, sz, _, _, _, hfin⟩ := prepare_emit _ _ _ _ _ _ _ _ _ _ hp
    have hf := finish_emit _ _ _ _ _ _ _ _ _ _ _ hfin
    obtain ⟨_, _, _, _, _, _, _, a1, a2, a3, a4, a5, a6, _⟩ := hf
    exact ⟨a1, a3, a2, a4, a6, a5⟩

/-! ## no error in response to an error -/

/-- **Whatever the fast path requests, a packet whose upper layer is an SCMP error message
(type < 128) never makes the slow path emit anything.** -/
theorem no_error_on_error (cfg : Cfg) (scope : Scope) (headroom : Nat) (o : Offender) (rq : Request)
    (t c p : Nat) (hl4 : o.l4 = .scmp t c p) (ht : t < 128) :
    ∀ r, processPacket cfg scope headroom o rq ≠ .emit r := by
  intro r h
  rcases processPacket_emit cfg scope headroom o rq r h with ⟨_, _, _, hinfo, _⟩ | ⟨_, p', _, hreq, _⟩
  · have := hinfo t c p hl4; omega
  · rw [hl4] at hreq; injection hreq with h1; omega

/-- an SCMP layer too short to tell its type is not answered either -/
theorem no_error_on_truncated_scmp (cfg : Cfg) (scope : Scope) (headroom : Nat) (o : Offender)
    (rq : Request) (hl4 : o.l4 = .scmpShort) : ∀ r, processPacket cfg scope headroom o rq ≠ .emit r := by
  intro r h
  unfold processPacket at h
  have tr : ∀ i, traceroute cfg scope headroom o rq i ≠ .emit r := by
    intro i; unfold traceroute; rw [hl4]; simp
  split at h
  · cases h
  · split at h
    · exact tr _ h
    · split at h
      · exact tr _ h
      · dsimp only at h
        split at h
        · unfold packSCMP at h; rw [hl4] at h; cases h
        · cases h

/-! ## type, code, pointer -/

/-- The table "detected problem ↦ (type, code)" is the one of `doc/protocols/scmp.rst`, spelled with
the code's own constants (regenerated): every problem is reported with an *error* type the slow path
accepts. -/
theorem type_code_spec (cd : Bool) :
    (causeTable .pathExpired cd).1 = Scion.Gen.Scmp.SCMPTypeParameterProblem ∧
    (causeTable .pathExpired cd).2.1 = Scion.Gen.Scmp.SCMPCodePathExpired ∧
    (causeTable .badMac cd).2.1 = Scion.Gen.Scmp.SCMPCodeInvalidHopFieldMAC ∧
    (causeTable .ingressMismatch true).2.1 = Scion.Gen.Scmp.SCMPCodeUnknownHopFieldIngress ∧
    (causeTable .ingressMismatch false).2.1 = Scion.Gen.Scmp.SCMPCodeUnknownHopFieldEgress ∧
    (causeTable .unknownEgress true).2.1 = Scion.Gen.Scmp.SCMPCodeUnknownHopFieldEgress ∧
    (causeTable .unknownEgress false).2.1 = Scion.Gen.Scmp.SCMPCodeUnknownHopFieldIngress ∧
    (causeTable .badPktLen cd).2.1 = Scion.Gen.Scmp.SCMPCodeInvalidPacketSize ∧
    (causeTable .invalidSrcIA cd).2.1 = Scion.Gen.Scmp.SCMPCodeInvalidSourceAddress ∧
    (causeTable .invalidSrcHost cd).2.1 = Scion.Gen.Scmp.SCMPCodeInvalidSourceAddress ∧
    (causeTable .invalidDstIA cd).2.1 = Scion.Gen.Scmp.SCMPCodeInvalidDestinationAddress ∧
    (causeTable .invalidDstHost cd).2.1 = Scion.Gen.Scmp.SCMPCodeInvalidDestinationAddress ∧
    (causeTable .invalidPath cd).2.1 = Scion.Gen.Scmp.SCMPCodeInvalidPath ∧
    (causeTable .invalidSegChange cd).2.1 = Scion.Gen.Scmp.SCMPCodeInvalidSegmentChange ∧
    (causeTable .noSvcBackend cd).1 = Scion.Gen.Scmp.SCMPTypeDestinationUnreachable ∧
    (causeTable .noSvcBackend cd).2.1 = Scion.Gen.Scmp.SCMPCodeNoRoute ∧
    (causeTable .extIfDown cd).1 = Scion.Gen.Scmp.SCMPTypeExternalInterfaceDown ∧
    (causeTable .intConnDown cd).1 = Scion.Gen.Scmp.SCMPTypeInternalConnectivityDown := by
  cases cd <;> decide

theorem cause_is_error (c : Cause) (cd : Bool) :
    (causeTable c cd).1 < 128 ∧
    ((causeTable c cd).1 = 1 ∨ (causeTable c cd).1 = 4 ∨ (causeTable c cd).1 = 5 ∨ (causeTable c cd).1 = 6) := by
  cases c <;> cases cd <;> decide

/-- Where the pointer is fixed it designates the field in question: the hop pointer is the byte
offset **in the offending packet** of the current hop field — behind the common header, the address
header, for EPIC packets the 16 bytes of EPIC metadata, the meta line and the info fields — and the
field lies inside the SCION header; likewise the info pointer; the two address pointers are the
offsets of the destination and source ISD-AS. -/
theorem pointer_spec (ah ni nh ci ch : Nat) (epic : Bool) (hh : ch < nh) (hi : ci < ni) :
    pointerOf .hop ah ni ci ch epic =
      cmnHdrLen + ah + (if epic then 16 else 0) + (metaLen + infoLen * ni + hopLen * ch) ∧
    pointerOf .hop ah ni ci ch epic + hopLen ≤ cmnHdrLen + ah + (if epic then 16 else 0) + pathLen ni nh ∧
    pointerOf .info ah ni ci ch epic = cmnHdrLen + ah + (if epic then 16 else 0) + (metaLen + infoLen * ci) ∧
    pointerOf .info ah ni ci ch epic + infoLen ≤ cmnHdrLen + ah + (if epic then 16 else 0) + metaLen + infoLen * ni ∧
    pointerOf .cmnHdr ah ni ci ch epic = Scion.Gen.Scmp.CmnHdrLen ∧
    pointerOf .srcIA ah ni ci ch epic = Scion.Gen.Scmp.CmnHdrLen + Scion.Gen.Scmp.IABytes ∧
    pointerOf .zero ah ni ci ch epic = 0 ∧ epicMetadataLen = Scion.Gen.Scmp.EpicMetadataLen := by
  have h1 : 12 * ch + 12 ≤ 12 * nh := by omega
  have h2 : 8 * ci + 8 ≤ 8 * ni := by omega
  cases epic <;>
  · simp only [pointerOf, hopPointer, infoPointer, pathOffset, epicMetadataLen, pathLen, cmnHdrLen, metaLen,
      infoLen, hopLen, iaBytes, Scion.Gen.Scmp.CmnHdrLen, Scion.Gen.Scmp.IABytes, Scion.Gen.Scmp.EpicMetadataLen]
    refine ⟨by simp; omega, by simp; omega, by simp; omega, by simp; omega, trivial, trivial, trivial, trivial⟩

/-- the emitted type and code are the requested ones; a ParameterProblem carries the requested
pointer -/
theorem emitted_type_code (cfg : Cfg) (scope : Scope) (headroom : Nat) (o : Offender) (rq : Request)
    (r : Reply) (h : processPacket cfg scope headroom o rq = .emit r) (he : r.isError = true) :
    (r.scmpType : Int) = rq.spType ∧ r.scmpCode = rq.code ∧ r.scmpType < 128 := by
  rcases processPacket_emit cfg scope headroom o rq r h with ⟨t, ht, hsp, _, hp⟩ | ⟨trIf, p, _, _, hp⟩
  · obtain ⟨rp0, peering, rp, sz, _, _, _, hfin⟩ := prepare_emit _ _ _ _ _ _ _ _ _ _ hp
    have hf := finish_emit _ _ _ _ _ _ _ _ _ _ _ hfin
    have h1 : r.scmpType = t := hf.2.2.2.2.2.2.2.2.2.2.2.2.2.2.2.2.2.2.1
    have h2 : r.scmpCode = rq.code := hf.2.2.2.2.2.2.2.2.2.2.2.2.2.2.2.2.2.2.2.1
    refine ⟨by omega, h2, by omega⟩
  · obtain ⟨rp0, peering, rp, sz, _, _, _, hfin⟩ := prepare_emit _ _ _ _ _ _ _ _ _ _ hp
    have hf := finish_emit _ _ _ _ _ _ _ _ _ _ _ hfin
    have : r.isError = false := hf.2.2.2.2.2.2.2.2.2.2.2.2.2.2.2.2.1
    rw [this] at he; cases he

/-! ## authenticator -/

/-- With SCMP authentication enabled every error carries the authenticator extension (NextHdr = E2E),
without it none does; the destination address was parsable (needed to derive the key). -/
theorem auth_iff (cfg : Cfg) (scope : Scope) (headroom : Nat) (o : Offender) (rq : Request)
    (r : Reply) (h : processPacket cfg scope headroom o rq = .emit r) (he : r.isError = true) :
    r.auth = cfg.auth ∧ r.nextHdr = (bif cfg.auth then l4E2E else l4SCMP) ∧
    (cfg.auth = true → addrParsable r.dstType = true) := by
  rcases processPacket_emit cfg scope headroom o rq r h with ⟨t, ht, hsp, _, hp⟩ | ⟨trIf, p, _, _, hp⟩
  · obtain ⟨rp0, peering, rp, sz, _, _, _, hfin⟩ := prepare_emit _ _ _ _ _ _ _ _ _ _ hp
    have hf := finish_emit _ _ _ _ _ _ _ _ _ _ _ hfin
    have hna : needsAuth cfg o t true = cfg.auth := by unfold needsAuth; simp
    have h1 : r.auth = needsAuth cfg o t true := hf.2.2.2.2.2.2.2.2.2.2.2.2.2.2.2.2.2.1
    have h2 := hf.2.2.2.2.2.2.2.2.2.2.2.2.2.2.2.2.2.2.2.2.2.1
    have h3 := hf.2.2.2.2.2.2.2.2.2.2.2.2.2.2.2.2.2.2.2.2.2.2
    have h4 : r.dstType = o.srcType := hf.2.2.2.2.2.2.2.2.2.1
    rw [hna] at h1 h2 h3
    exact ⟨h1, h2, fun ha => h4 ▸ h3 ha⟩
  · obtain ⟨rp0, peering, rp, sz, _, _, _, hfin⟩ := prepare_emit _ _ _ _ _ _ _ _ _ _ hp
    have hf := finish_emit _ _ _ _ _ _ _ _ _ _ _ hfin
    have : r.isError = false := hf.2.2.2.2.2.2.2.2.2.2.2.2.2.2.2.2.1
    rw [this] at he; cases he

/-! ## checksum (composition with C20) -/

/-- **The checksum of every emitted message verifies.**  The SCMP message the model serialises
(type, code, checksum field, info block, quote) gets the checksum `SCMP.SerializeTo` computes over
the pseudo header of the reply (destination = offender's source, source = router; upper-layer
length; protocol 202); the receiver's one's-complement sum over pseudo header and message then
folds to `0xFFFF` and recomputing the checksum yields 0 (C20 `checksum_verifies` at offset 2). -/
theorem scmp_reply_checksum_verifies (cfg : Cfg) (scope : Scope) (headroom : Nat) (o : Offender)
    (rq : Request) (b : Base) (hw : WellFormed o b) (hc : Consistent b)
    (hsrc : o.rawSrc.length = addrTypeLen o.srcType) (hhost : cfg.rawHost.length = addrTypeLen cfg.hostType)
    (r : Reply) (h : processPacket cfg scope headroom o rq = .emit r) :
    ∃ c, scmpChecksum r = .ok c ∧
      (scmpMsgWith r c).length = (scmpMsg0 r).length ∧
      Scion.Checksum.fold (Scion.Checksum.totalRaw (phdr r) (scmpMsgWith r c).length l4SCMP (scmpMsgWith r c)) = 0xffff ∧
      Scion.Checksum.computeChecksum (phdr r) (scmpMsgWith r c) l4SCMP = .ok 0 := by
  obtain ⟨_, _, _, _, _, _, hq, _, _, hdt, hrd, _, hst, hrs, _, _⟩ := emit_shape cfg scope headroom o rq b hw hc r h
  have hib := infoBytes_len r.scmpType r.info
  have hwf : Scion.C20.WFHdr (phdr r) := by
    have h1 := addrTypeLen_le o.srcType
    have h2 := addrTypeLen_le cfg.hostType
    unfold Scion.C20.WFHdr Scion.C20.AddrLen phdr
    dsimp only
    rw [hrs, hrd, hsrc, hhost]
    unfold addrTypeLen lineLen
    constructor <;> omega
  have hlen : (scmpMsg0 r).length = 4 + (infoBytes r.scmpType r.info).length + r.quote.length := by
    unfold scmpMsg0; simp [List.length_append]; omega
  have hl : (scmpMsg0 r).length ≤ 65535 := by unfold maxSCMPPacketLen at hq; omega
  have hz : Scion.Checksum.getWord (scmpMsg0 r) 2 = 0 := by
    unfold scmpMsg0
    simp [Scion.Checksum.getWord]
  have hc' := Scion.C20.computeChecksum_eq (phdr r) hwf (scmpMsg0 r) l4SCMP hl
  refine ⟨_, hc', ?_⟩
  have hv := Scion.C20.checksum_verifies (phdr r) hwf (scmpMsg0 r) l4SCMP 2 _ hl (by decide) (by omega) hz hc'
  exact ⟨hv.1, hv.2.2.1, hv.2.2.2⟩

/-! ## authenticator (composition with C21) -/

/-- field widths of the offending packet's header and of the configuration, as the decoder and the
router's configuration guarantee them -/
def Widths (cfg : Cfg) (o : Offender) : Prop :=
  o.tc < 256 ∧ o.flowID < 2^20 ∧ o.srcType < 16 ∧ cfg.hostType < 16 ∧ o.srcIA < 2^64 ∧
  cfg.localIA < 2^64 ∧ o.rawSrc.length = addrTypeLen o.srcType ∧
  cfg.rawHost.length = addrTypeLen cfg.hostType

/-- **The authenticator tag is the MAC of the reply's authenticated data.**  For every MAC
function `mac`, key, option timestamp and SCMP message: the input `spao.ComputeAuthCMAC` builds from
the reply header of the model is defined (never an error: header ≤ 1020 bytes, aligned, path
well-formed) and is exactly C21's `fixedPart ‖ addrPart ‖ zeroed path ‖ message`, where the address
part is the destination-less, source-only selection of a DRKey AS-host sender-side SPI; the model's
tag is `mac key` of it. -/
theorem auth_tag_valid (mac : Bytes → Bytes → Bytes) (key : Bytes)
    (cfg : Cfg) (scope : Scope) (headroom : Nat) (o : Offender) (rq : Request)
    (b : Base) (hw : WellFormed o b) (hc : Consistent b) (hwd : Widths cfg o)
    (r : Reply) (h : processPacket cfg scope headroom o rq = .emit r)
    (ts : Nat) (hts : ts < 2^48) (msg : Bytes) (hmsg : msg.length < 65536) :
    ∃ z, Scion.Spao.zeroPath (replyHdr r).path = some z ∧
      Scion.Spao.macInput (replyAuthIn r ts msg) =
        .ok (Scion.Spao.fixedPart (replyAuthIn r ts msg) ++ r.rawSrc ++ z ++ msg) ∧
      authTag mac key r ts msg =
        some (mac key (Scion.Spao.fixedPart (replyAuthIn r ts msg) ++ r.rawSrc ++ z ++ msg)) ∧
      r.rawSrc = cfg.rawHost ∧ r.dstIA = o.srcIA := by
  obtain ⟨hcons, hsegs, hil, hhl, h12, hmax, _, hpt, hdia, hdt, hrd, hsia, hst, hrs, htc, hfl⟩ :=
    emit_shape cfg scope headroom o rq b hw hc r h
  obtain ⟨w1, w2, w3, w4, w5, w6, w7, w8⟩ := hwd
  have hlt := consistent_currINF_lt _ hcons
  obtain ⟨hs, hni, hnh, hcur, hidx⟩ := hcons
  dsimp only at hs hni hnh hcur hidx hlt
  have hbd : baseDecode r.pm = some ⟨r.pm, Scion.C19.nonEmptySegs r.pm, sumHops r.pm⟩ := by
    rw [Scion.C19.baseDecode_closed]; unfold Scion.C19.Shape at hs; rw [if_pos hs]
  have hbody : (replyPathBody r).length = 8 * r.numINF + 12 * r.numHops := by
    unfold replyPathBody
    rw [List.length_append, length_encInfos, List.length_map, length_flatten12 _ h12, hil, hhl]
  have hwf : (replyAuthIn r ts msg).WF := by
    unfold Scion.Spao.AuthIn.WF replyAuthIn replyHdr
    dsimp only
    obtain ⟨s0, s1, s2⟩ := hsegs
    refine ⟨by omega, by omega, by omega, by omega, by omega, by omega, ?_, ?_, by unfold scmpSPI; omega,
      by omega, hts, by unfold l4SCMP; omega, hmsg, ?_⟩
    · unfold Scion.Wire.Addr.WF Scion.Wire.addrLen
      dsimp only
      rw [hdia, hsia, hrd, hrs, hdt, hst, w7, w8]
      unfold addrTypeLen lineLen
      exact ⟨w5, w6, rfl, rfl⟩
    · unfold Scion.Wire.PathWF Scion.Wire.RawWF
      refine ⟨⟨by omega, by omega, s0, s1, s2⟩, ?_⟩
      rw [hbd]
      unfold Scion.Wire.bodyLen
      dsimp only
      rw [hbody, ← hni, ← hnh]; omega
    · unfold Scion.Wire.addrHdrLen Scion.Wire.addrLen Scion.Wire.pathLen
      dsimp only
      rw [hbd]
      unfold Scion.Wire.bodyLen
      dsimp only
      unfold cmnHdrLen addrHdrLen addrTypeLen pathLen iaBytes lineLen metaLen infoLen hopLen maxHdrLen at hmax
      rw [← hni, ← hnh]; omega
  obtain ⟨z, hz, _, _, hmi⟩ := Scion.Spao.macInput_ok (replyAuthIn r ts msg) hwf
  have haddr : Scion.Spao.addrPart (replyAuthIn r ts msg) = r.rawSrc := by
    unfold Scion.Spao.addrPart replyAuthIn
    simp [Scion.Spao.inclIA, Scion.Spao.inclDst, Scion.Spao.inclSrc, Scion.Spao.isDRKey, Scion.Spao.spiType,
      Scion.Spao.spiDir, scmpSPI, replyHdr]
  rw [haddr] at hmi
  refine ⟨z, hz, hmi, ?_, hrs, hdia⟩
  unfold authTag
  rw [hmi]
  rfl

/-! ## non-vacuity: a concrete bad-MAC report on an external link -/

def exOffender : Offender :=
  { raw := List.replicate 2000 7, pathType := 1, flowID := 5, tc := 0, srcIA := 2, srcType := 0,
    rawSrc := [10, 0, 0, 7], pmWord := 1 * 2^24 + 2 * 2^12 + 2 * 2^6,
    infos := [⟨true, false, 273, 1000⟩, ⟨false, false, 546, 1000⟩],
    hops := [List.replicate 12 1, List.replicate 12 2, List.replicate 12 3, List.replicate 12 4],
    l4 := .other, trID := 0, trSeq := 0, reqAuthValid := false }

def exCfg : Cfg := ⟨1, 0, [198, 51, 100, 1], true, 0⟩

/-- the example meets the hypotheses of `scmp_reply_checksum_verifies` / `auth_tag_valid` -/
example : WellFormed exOffender ⟨⟨0, 1, 2, 2, 0⟩, 2, 4⟩ ∧ Consistent ⟨⟨0, 1, 2, 2, 0⟩, 2, 4⟩ ∧
    Widths exCfg exOffender := by
  refine ⟨⟨by decide, rfl, rfl, ?_⟩, by simp [Consistent, Scion.C19.Shape, Scion.C19.nonEmptySegs, sumHops, infIdx],
    by unfold Widths; decide⟩
  intro h hm
  have hh : exOffender.hops =
      [List.replicate 12 1, List.replicate 12 2, List.replicate 12 3, List.replicate 12 4] := rfl
  rw [hh] at hm
  simp only [List.mem_cons, List.not_mem_nil, or_false] at hm
  rcases hm with rfl | rfl | rfl | rfl <;> rfl

def summ : Outcome → List Nat
  | .emit r => [r.total, r.quote.length, r.hdrLenField, r.dstIA, r.srcIA, r.auth.toNat, r.pm.currHF,
      r.front.toNat]
  | .drop _ => [0]
  | .panic _ => [1]

/- 2000-byte offender, 4-hop path, authenticated: 144 bytes of headers + 1088 quoted = 1232 bytes,
sent to IA 2 from IA 1, reply path at hop 3, serialised in front of the quoted packet -/
set_option maxRecDepth 20000 in
example : summ (processPacket exCfg .ext 512 exOffender ⟨4, 51, 80, 1, 0⟩) =
    [1232, 1088, 26, 2, 1, 1, 3, 1] := by decide

/- the same packet carrying an SCMP error is not answered -/
set_option maxRecDepth 20000 in
example : summ (processPacket exCfg .ext 512 { exOffender with l4 := .scmp 4 51 100 } ⟨4, 51, 80, 1, 0⟩) =
    [0] := by decide

end Scion.C09
