import Scion.Proofs.Scmp
import Scion.Gen.Scmp
/-!
# C09 — SCMP errors are well-formed, addressed to the source, and bounded in size

Statement (properties.jsonl): every SCMP error message a router generates is addressed to the
offending packet's source ISD-AS and host, originates from the local ISD-AS and router address, has
a valid checksum, a type, code and pointer matching the detected problem, and quotes a prefix of the
offending packet while the whole message stays within 1232 bytes.  No SCMP error is ever generated
in response to an SCMP error message, and authenticated errors carry a valid authenticator.

Theorems are about `Scion.Scmp.processPacket`, the model of `slowPathPacketProcessor.processPacket`
(`packSCMP`, `prepareSCMP`, `handleSCMPTraceRouteRequest`), for **every** offending packet, request,
configuration, link scope and headroom.  Constants and the `ScmpHeaderSize` table are those of
`Scion.Gen.Scmp`, regenerated from /repo on every run.

Not theorems here (checked on the real bytes by the harness predicate of engine `scmp`, with the
real decoder / an independent one's-complement sum / the real SPAO verifier): the checksum value and
the authenticator tag — their inputs (pseudo header = the reply's address header; SPAO over the
reply header and SCMP message) are fixed by `scmp_addressing` and `auth_iff`.
-/
namespace Scion.C09
open Scion.Scmp Scion.PathMeta Scion.Util

/-! ## the model's constants and tables are the code's (T3) -/

theorem gen_consts :
    cmnHdrLen = Scion.Gen.Scmp.CmnHdrLen ∧ maxHdrLen = Scion.Gen.Scmp.MaxHdrLen ∧
    maxSCMPPacketLen = Scion.Gen.Scmp.MaxSCMPPacketLen ∧ e2eAuthHdrLen = Scion.Gen.Scmp.e2eAuthHdrLen ∧
    hopLen = Scion.Gen.Scmp.HopLen ∧ infoLen = Scion.Gen.Scmp.InfoLen ∧ metaLen = Scion.Gen.Scmp.MetaLen ∧
    lineLen = Scion.Gen.Scmp.LineLen ∧ iaBytes = Scion.Gen.Scmp.IABytes ∧ bufSize = Scion.Gen.Scmp.bufSize ∧
    l4SCMP = Scion.Gen.Scmp.L4SCMP ∧ l4E2E = Scion.Gen.Scmp.End2EndClass ∧
    Scion.PathMeta.maxHops = Scion.Gen.Scmp.MaxHops := by decide

/-- `scmpHeaderSize` is the switch of `slayers.ScmpHeaderSize` as it stands in the source -/
theorem header_size_table (t : Nat) :
    scmpHeaderSize t =
      ((Scion.Gen.Scmp.scmpHeaderSizeCases.lookup t).getD Scion.Gen.Scmp.scmpHeaderSizeDefault) := by
  unfold scmpHeaderSize Scion.Gen.Scmp.scmpHeaderSizeCases Scion.Gen.Scmp.scmpHeaderSizeDefault
  simp only [List.lookup]
  by_cases h5 : t = 5
  · subst h5; rfl
  by_cases h6 : t = 6
  · subst h6; rfl
  by_cases h130 : t = 130
  · subst h130; rfl
  by_cases h131 : t = 131
  · subst h131; rfl
  have e5 : (t == 5) = false := by simpa using h5
  have e6 : (t == 6) = false := by simpa using h6
  have e130 : (t == 130) = false := by simpa using h130
  have e131 : (t == 131) = false := by simpa using h131
  simp [h5, h6, h130, h131, e5, e6, e130, e131]

/-- no SCMP header is larger than `MaxSCMPHeaderSize`, the constant `minHeadroom` is asserted against -/
theorem header_size_le_max (t : Nat) : scmpHeaderSize t ≤ Scion.Gen.Scmp.MaxSCMPHeaderSize :=
  (scmpHeaderSize_le t).1

/-- the expressions of `prepareSCMP` that the model transcribes are still the ones in the source -/
theorem prepare_expressions :
    Scion.Gen.Scmp.prepare_hdrLen =
      "|:= slayers.CmnHdrLen + scionL.AddrHdrLen() + scionL.Path.Len() + slayers.ScmpHeaderSize(scmpH.TypeCode.Type())|+= e2eAuthHdrLen" ∧
    Scion.Gen.Scmp.prepare_maxQuoteLen = "|:= slayers.MaxSCMPPacketLen - hdrLen" ∧
    Scion.Gen.Scmp.prepare_quoteLen = "|:= len(p.pkt.RawPacket)|= maxQuoteLen" ∧
    Scion.Gen.Scmp.prepare_headroom = "|:= len(p.pkt.buffer) - cap(p.pkt.RawPacket)" ∧
    Scion.Gen.Scmp.prepare_conds = ["quoteLen > maxQuoteLen", "hdrLen+p.d.underlayHeadroom > headroom"] :=
  ⟨rfl, rfl, rfl, rfl, rfl⟩

/-! ## size -/

/-- For every legal path (≤ 3 segments, ≤ 64 hops), every pair of address types, every SCMP type,
with or without authenticator, the headers leave room: `0 < 1232 − hdrLen`, so the quote slice
`RawPacket[:quoteLen]` never has a negative length. -/
theorem hdrLen_lt_max (dstT srcT ni nh t : Nat) (a : Bool) (hi : ni ≤ 3) (hh : nh ≤ 64) :
    hdrLen dstT srcT ni nh t a < maxSCMPPacketLen ∧ 0 < maxSCMPPacketLen - hdrLen dstT srcT ni nh t a := by
  have := hdrLen_le dstT srcT ni nh t a hi hh
  unfold maxSCMPPacketLen; omega

/-- the bound 916 is attained (IPv6 both ways, 3 segments, 64 hops, InternalConnectivityDown,
authenticated) -/
example : hdrLen 3 3 3 64 6 true = 916 := by decide

/-- **Every message the slow path emits is at most 1232 bytes long** (errors with their quote, and
traceroute replies). -/
theorem scmp_size_le_1232 (cfg : Cfg) (scope : Scope) (headroom : Nat) (o : Offender) (rq : Request)
    (r : Reply) (h : processPacket cfg scope headroom o rq = .emit r) :
    r.total ≤ maxSCMPPacketLen := by
  rcases processPacket_emit cfg scope headroom o rq r h with ⟨t, ht, _, _, hp⟩ | ⟨trIf, p, _, _, hp⟩
  · obtain ⟨rp0, peering, rp, sz, hrev, hext, hpl, hfin⟩ := prepare_emit _ _ _ _ _ _ _ _ _ _ hp
    obtain ⟨c1, c2⟩ := reversePath_counts o rp0 peering hrev
    obtain ⟨d1, d2⟩ := externalStep_counts scope rp0 rp peering hext
    obtain ⟨_, he, _⟩ := placement_ok _ _ _ _ _ _ _ _ _ _ _ hpl
    obtain ⟨hle, htot, _⟩ := he rfl
    have hact := actual_eq_predicted o.srcType cfg.hostType rp.b.numINF rp.b.numHops t
      (needsAuth cfg o t true) (by omega)
    have hq := quoteLen_le o.raw.length (hdrLen o.srcType cfg.hostType rp.b.numINF rp.b.numHops t (needsAuth cfg o t true))
    have hf := finish_emit _ _ _ _ _ _ _ _ _ _ _ hfin
    have : r.total = sz.total := hf.2.2.2.1
    omega
  · obtain ⟨rp0, peering, rp, sz, hrev, hext, hpl, hfin⟩ := prepare_emit _ _ _ _ _ _ _ _ _ _ hp
    obtain ⟨c1, c2⟩ := reversePath_counts o rp0 peering hrev
    obtain ⟨d1, d2⟩ := externalStep_counts scope rp0 rp peering hext
    obtain ⟨_, _, hne⟩ := placement_ok _ _ _ _ _ _ _ _ _ _ _ hpl
    obtain ⟨htot, _⟩ := hne rfl
    have hact := actual_eq_predicted o.srcType cfg.hostType rp.b.numINF rp.b.numHops 131
      (needsAuth cfg o 131 false) (by omega)
    have hb := hdrLen_le o.srcType cfg.hostType rp.b.numINF rp.b.numHops 131 (needsAuth cfg o 131 false)
      (by omega) (by omega)
    have hf := finish_emit _ _ _ _ _ _ _ _ _ _ _ hfin
    have : r.total = sz.total := hf.2.2.2.1
    unfold maxSCMPPacketLen; omega

/-- **The quote is a prefix of the offending packet, and it is as long as the bound allows**: the
message is `min(1232, headers + whole packet)` bytes long. -/
theorem quote_is_prefix (cfg : Cfg) (scope : Scope) (headroom : Nat) (o : Offender) (rq : Request)
    (r : Reply) (h : processPacket cfg scope headroom o rq = .emit r) (he : r.isError = true) :
    r.quote <+: o.raw ∧
    r.total = (r.total - r.quote.length) + r.quote.length ∧
    r.total = min maxSCMPPacketLen ((r.total - r.quote.length) + o.raw.length) := by
  rcases processPacket_emit cfg scope headroom o rq r h with ⟨t, ht, _, _, hp⟩ | ⟨trIf, p, _, _, hp⟩
  · obtain ⟨rp0, peering, rp, sz, hrev, hext, hpl, hfin⟩ := prepare_emit _ _ _ _ _ _ _ _ _ _ hp
    obtain ⟨_, hE, _⟩ := placement_ok _ _ _ _ _ _ _ _ _ _ _ hpl
    obtain ⟨hle, htot, hquo, _⟩ := hE rfl
    have hact := actual_eq_predicted o.srcType cfg.hostType rp.b.numINF rp.b.numHops t
      (needsAuth cfg o t true) (by omega)
    have hf := finish_emit _ _ _ _ _ _ _ _ _ _ _ hfin
    have h1 : r.total = sz.total := hf.2.2.2.1
    have h2 : r.quote = sz.quote := hf.2.2.2.2.1
    have hq := quoteLen_le o.raw.length (hdrLen o.srcType cfg.hostType rp.b.numINF rp.b.numHops t (needsAuth cfg o t true))
    have hlen : r.quote.length = quoteLen o.raw.length (hdrLen o.srcType cfg.hostType rp.b.numINF rp.b.numHops t (needsAuth cfg o t true)) := by
      rw [h2, hquo, List.length_take]; omega
    refine ⟨?_, by omega, ?_⟩
    · rw [h2, hquo]; exact List.take_prefix _ _
    · unfold quoteLen at hlen hq htot; omega
  · obtain ⟨rp0, peering, rp, sz, hrev, hext, hpl, hfin⟩ := prepare_emit _ _ _ _ _ _ _ _ _ _ hp
    have hf := finish_emit _ _ _ _ _ _ _ _ _ _ _ hfin
    have : r.isError = false := hf.2.2.2.2.2.2.2.2.2.2.2.2.2.2.2.2.1
    rw [this] at he; cases he

/-! ## addressing -/

/-- **Destination = the offending packet's source ISD-AS and host, source = the local ISD-AS and the
router's own address** — for everything the slow path emits. -/
theorem scmp_addressing (cfg : Cfg) (scope : Scope) (headroom : Nat) (o : Offender) (rq : Request)
    (r : Reply) (h : processPacket cfg scope headroom o rq = .emit r) :
    r.dstIA = o.srcIA ∧ r.dstType = o.srcType ∧ r.rawDst = o.rawSrc ∧
    r.srcIA = cfg.localIA ∧ r.srcType = cfg.hostType ∧ r.rawSrc = cfg.rawHost := by
  rcases processPacket_emit cfg scope headroom o rq r h with ⟨t, _, _, _, hp⟩ | ⟨trIf, p, _, _, hp⟩ <;>
  · obtain ⟨rp0, peering, rp, sz, _, _, _, hfin⟩ := prepare_emit _ _ _ _ _ _ _ _ _ _ hp
    have hf := finish_emit _ _ _ _ _ _ _ _ _ _ _ hfin
    obtain ⟨_, _, _, _, _, _, _, a1, a2, a3, a4, a5, a6, _⟩ := hf
    exact ⟨a1, a3, a2, a4, a6, a5⟩

/-! ## no error in response to an error -/

/-- **Whatever the fast path requests, a packet whose upper layer is an SCMP error message
(type < 128) never makes the slow path emit anything.** -/
theorem no_error_on_error (cfg : Cfg) (scope : Scope) (headroom : Nat) (o : Offender) (rq : Request)
    (t c p : Nat) (hl4 : o.l4 = .scmp t c p) (ht : t < 128) :
    ∀ r, processPacket cfg scope headroom o rq ≠ .emit r := by
  intro r h
  rcases processPacket_emit cfg scope headroom o rq r h with ⟨_, _, _, hinfo, _⟩ | ⟨_, p', _, hreq, _⟩
  · have := hinfo t c p hl4; omega
  · rw [hl4] at hreq; injection hreq with h1; omega

/-- an SCMP layer too short to tell its type is not answered either -/
theorem no_error_on_truncated_scmp (cfg : Cfg) (scope : Scope) (headroom : Nat) (o : Offender)
    (rq : Request) (hl4 : o.l4 = .scmpShort) : ∀ r, processPacket cfg scope headroom o rq ≠ .emit r := by
  intro r h
  unfold processPacket at h
  have tr : ∀ i, traceroute cfg scope headroom o rq i ≠ .emit r := by
    intro i; unfold traceroute; rw [hl4]; simp
  split at h
  · cases h
  · split at h
    · exact tr _ h
    · split at h
      · exact tr _ h
      · dsimp only at h
        split at h
        · unfold packSCMP at h; rw [hl4] at h; cases h
        · cases h

/-! ## type, code, pointer -/

/-- The table "detected problem ↦ (type, code)" is the one of `doc/protocols/scmp.rst`, spelled with
the code's own constants (regenerated): every problem is reported with an *error* type the slow path
accepts. -/
theorem type_code_spec (cd : Bool) :
    (causeTable .pathExpired cd).1 = Scion.Gen.Scmp.SCMPTypeParameterProblem ∧
    (causeTable .pathExpired cd).2.1 = Scion.Gen.Scmp.SCMPCodePathExpired ∧
    (causeTable .badMac cd).2.1 = Scion.Gen.Scmp.SCMPCodeInvalidHopFieldMAC ∧
    (causeTable .ingressMismatch true).2.1 = Scion.Gen.Scmp.SCMPCodeUnknownHopFieldIngress ∧
    (causeTable .ingressMismatch false).2.1 = Scion.Gen.Scmp.SCMPCodeUnknownHopFieldEgress ∧
    (causeTable .unknownEgress true).2.1 = Scion.Gen.Scmp.SCMPCodeUnknownHopFieldEgress ∧
    (causeTable .unknownEgress false).2.1 = Scion.Gen.Scmp.SCMPCodeUnknownHopFieldIngress ∧
    (causeTable .badPktLen cd).2.1 = Scion.Gen.Scmp.SCMPCodeInvalidPacketSize ∧
    (causeTable .invalidSrcIA cd).2.1 = Scion.Gen.Scmp.SCMPCodeInvalidSourceAddress ∧
    (causeTable .invalidSrcHost cd).2.1 = Scion.Gen.Scmp.SCMPCodeInvalidSourceAddress ∧
    (causeTable .invalidDstIA cd).2.1 = Scion.Gen.Scmp.SCMPCodeInvalidDestinationAddress ∧
    (causeTable .invalidDstHost cd).2.1 = Scion.Gen.Scmp.SCMPCodeInvalidDestinationAddress ∧
    (causeTable .invalidPath cd).2.1 = Scion.Gen.Scmp.SCMPCodeInvalidPath ∧
    (causeTable .invalidSegChange cd).2.1 = Scion.Gen.Scmp.SCMPCodeInvalidSegmentChange ∧
    (causeTable .noSvcBackend cd).1 = Scion.Gen.Scmp.SCMPTypeDestinationUnreachable ∧
    (causeTable .noSvcBackend cd).2.1 = Scion.Gen.Scmp.SCMPCodeNoRoute ∧
    (causeTable .extIfDown cd).1 = Scion.Gen.Scmp.SCMPTypeExternalInterfaceDown ∧
    (causeTable .intConnDown cd).1 = Scion.Gen.Scmp.SCMPTypeInternalConnectivityDown := by
  cases cd <;> decide

theorem cause_is_error (c : Cause) (cd : Bool) :
    (causeTable c cd).1 < 128 ∧
    ((causeTable c cd).1 = 1 ∨ (causeTable c cd).1 = 4 ∨ (causeTable c cd).1 = 5 ∨ (causeTable c cd).1 = 6) := by
  cases c <;> cases cd <;> decide

/-- Where the pointer is fixed it designates the field in question: the hop pointer is the offset
of the current hop field, which lies inside the SCION header; likewise the info pointer; the two
address pointers are the offsets of the destination and source ISD-AS. -/
theorem pointer_spec (ah ni nh ci ch : Nat) (hh : ch < nh) (hi : ci < ni) :
    pointerOf .hop ah ni ci ch = cmnHdrLen + ah + (metaLen + infoLen * ni + hopLen * ch) ∧
    pointerOf .hop ah ni ci ch + hopLen ≤ cmnHdrLen + ah + pathLen ni nh ∧
    pointerOf .info ah ni ci ch = cmnHdrLen + ah + (metaLen + infoLen * ci) ∧
    pointerOf .info ah ni ci ch + infoLen ≤ cmnHdrLen + ah + metaLen + infoLen * ni ∧
    pointerOf .cmnHdr ah ni ci ch = Scion.Gen.Scmp.CmnHdrLen ∧
    pointerOf .srcIA ah ni ci ch = Scion.Gen.Scmp.CmnHdrLen + Scion.Gen.Scmp.IABytes ∧
    pointerOf .zero ah ni ci ch = 0 := by
  have h1 : 12 * ch + 12 ≤ 12 * nh := by omega
  have h2 : 8 * ci + 8 ≤ 8 * ni := by omega
  simp only [pointerOf, hopPointer, infoPointer, pathLen, cmnHdrLen, metaLen, infoLen, hopLen, iaBytes,
    Scion.Gen.Scmp.CmnHdrLen, Scion.Gen.Scmp.IABytes]
  exact ⟨by omega, by omega, by omega, by omega, trivial, trivial, trivial⟩

/-- the emitted type and code are the requested ones; a ParameterProblem carries the requested
pointer -/
theorem emitted_type_code (cfg : Cfg) (scope : Scope) (headroom : Nat) (o : Offender) (rq : Request)
    (r : Reply) (h : processPacket cfg scope headroom o rq = .emit r) (he : r.isError = true) :
    (r.scmpType : Int) = rq.spType ∧ r.scmpCode = rq.code ∧ r.scmpType < 128 := by
  rcases processPacket_emit cfg scope headroom o rq r h with ⟨t, ht, hsp, _, hp⟩ | ⟨trIf, p, _, _, hp⟩
  · obtain ⟨rp0, peering, rp, sz, _, _, _, hfin⟩ := prepare_emit _ _ _ _ _ _ _ _ _ _ hp
    have hf := finish_emit _ _ _ _ _ _ _ _ _ _ _ hfin
    have h1 : r.scmpType = t := hf.2.2.2.2.2.2.2.2.2.2.2.2.2.2.2.2.2.2.1
    have h2 : r.scmpCode = rq.code := hf.2.2.2.2.2.2.2.2.2.2.2.2.2.2.2.2.2.2.2.1
    refine ⟨by omega, h2, by omega⟩
  · obtain ⟨rp0, peering, rp, sz, _, _, _, hfin⟩ := prepare_emit _ _ _ _ _ _ _ _ _ _ hp
    have hf := finish_emit _ _ _ _ _ _ _ _ _ _ _ hfin
    have : r.isError = false := hf.2.2.2.2.2.2.2.2.2.2.2.2.2.2.2.2.1
    rw [this] at he; cases he

/-! ## authenticator -/

/-- With SCMP authentication enabled every error carries the authenticator extension (NextHdr = E2E),
without it none does; the destination address was parsable (needed to derive the key). -/
theorem auth_iff (cfg : Cfg) (scope : Scope) (headroom : Nat) (o : Offender) (rq : Request)
    (r : Reply) (h : processPacket cfg scope headroom o rq = .emit r) (he : r.isError = true) :
    r.auth = cfg.auth ∧ r.nextHdr = (bif cfg.auth then l4E2E else l4SCMP) ∧
    (cfg.auth = true → addrParsable r.dstType = true) := by
  rcases processPacket_emit cfg scope headroom o rq r h with ⟨t, ht, hsp, _, hp⟩ | ⟨trIf, p, _, _, hp⟩
  · obtain ⟨rp0, peering, rp, sz, _, _, _, hfin⟩ := prepare_emit _ _ _ _ _ _ _ _ _ _ hp
    have hf := finish_emit _ _ _ _ _ _ _ _ _ _ _ hfin
    have hna : needsAuth cfg o t true = cfg.auth := by unfold needsAuth; simp
    have h1 : r.auth = needsAuth cfg o t true := hf.2.2.2.2.2.2.2.2.2.2.2.2.2.2.2.2.2.1
    have h2 := hf.2.2.2.2.2.2.2.2.2.2.2.2.2.2.2.2.2.2.2.2.2.1
    have h3 := hf.2.2.2.2.2.2.2.2.2.2.2.2.2.2.2.2.2.2.2.2.2.2
    have h4 : r.dstType = o.srcType := hf.2.2.2.2.2.2.2.2.2.1
    rw [hna] at h1 h2 h3
    exact ⟨h1, h2, fun ha => h4 ▸ h3 ha⟩
  · obtain ⟨rp0, peering, rp, sz, _, _, _, hfin⟩ := prepare_emit _ _ _ _ _ _ _ _ _ _ hp
    have hf := finish_emit _ _ _ _ _ _ _ _ _ _ _ hfin
    have : r.isError = false := hf.2.2.2.2.2.2.2.2.2.2.2.2.2.2.2.2.1
    rw [this] at he; cases he

/-! ## non-vacuity: a concrete bad-MAC report on an external link -/

def exOffender : Offender :=
  { raw := List.replicate 2000 7, pathType := 1, flowID := 5, tc := 0, srcIA := 2, srcType := 0,
    rawSrc := [10, 0, 0, 7], pmWord := 1 * 2^24 + 2 * 2^12 + 2 * 2^6,
    infos := [⟨true, false, 273, 1000⟩, ⟨false, false, 546, 1000⟩],
    hops := [List.replicate 12 1, List.replicate 12 2, List.replicate 12 3, List.replicate 12 4],
    l4 := .other, trID := 0, trSeq := 0, reqAuthValid := false }

def exCfg : Cfg := ⟨1, 0, [198, 51, 100, 1], true, 0⟩

def summ : Outcome → List Nat
  | .emit r => [r.total, r.quote.length, r.hdrLenField, r.dstIA, r.srcIA, r.auth.toNat, r.pm.currHF,
      r.front.toNat]
  | .drop _ => [0]
  | .panic _ => [1]

/- 2000-byte offender, 4-hop path, authenticated: 144 bytes of headers + 1088 quoted = 1232 bytes,
sent to IA 2 from IA 1, reply path at hop 3, serialised in front of the quoted packet -/
set_option maxRecDepth 20000 in
example : summ (processPacket exCfg .ext 512 exOffender ⟨4, 51, 80, 1, 0⟩) =
    [1232, 1088, 26, 2, 1, 1, 3, 1] := by decide

/- the same packet carrying an SCMP error is not answered -/
set_option maxRecDepth 20000 in
example : summ (processPacket exCfg .ext 512 { exOffender with l4 := .scmp 4 51 100 } ⟨4, 51, 80, 1, 0⟩) =
    [0] := by decide

end Scion.C09
