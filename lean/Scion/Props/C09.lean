import Scion.Proofs.Scmp
import Scion.Gen.Scmp
/-! C09 (stub, being filled) -/
namespace Scion.C09
open Scion.Scmp
theorem gen_consts :
    cmnHdrLen = Scion.Gen.Scmp.CmnHdrLen ∧ maxHdrLen = Scion.Gen.Scmp.MaxHdrLen ∧
    maxSCMPPacketLen = Scion.Gen.Scmp.MaxSCMPPacketLen ∧ e2eAuthHdrLen = Scion.Gen.Scmp.e2eAuthHdrLen ∧
    hopLen = Scion.Gen.Scmp.HopLen ∧ infoLen = Scion.Gen.Scmp.InfoLen ∧ metaLen = Scion.Gen.Scmp.MetaLen ∧
    lineLen = Scion.Gen.Scmp.LineLen ∧ iaBytes = Scion.Gen.Scmp.IABytes ∧ bufSize = Scion.Gen.Scmp.bufSize ∧
    l4SCMP = Scion.Gen.Scmp.L4SCMP ∧ l4E2E = Scion.Gen.Scmp.End2EndClass := by decide
end Scion.C09
