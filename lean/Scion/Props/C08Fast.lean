import Scion.Proofs.RouterReparse
import Scion.Props.C07
/-!
# C08 (fast path) — the SCION-path fast path never crashes and emits well-formed packets

Theorems about `Scion.Model.Router` (byte-level model of `processPkt`/`process`, tied to
`router/dataplane.go` by the engine `router`, see C01). In the model every slice and index the Go
code performs is explicit: `Raw.GetInfoField/GetHopField` (`readInfo`/`readHop`: index error vs.
slice out of range), `Raw.SetInfoField/SetHopField`, `MetaHdr.SerializeTo` (`wrInfo`/`wrHop`/
`wrMeta`) and the explicit `panic` of `ingressInterface()`; an out-of-range access is the outcome
`Disp.crash`. These theorems show it is unreachable for ALL byte strings, and that whatever is
forwarded or delivered decodes again.
-/
namespace Scion.C08Fast
open Scion.Util Scion.Router
open Scion.PathMeta hiding Info

/-- the decoder's guarantee under which the fast path runs: the whole path header (meta line,
NumINF info fields, NumHops hop fields) lies inside the buffer -/
theorem decoder_guarantee (raw : Bytes) (h : Hd) (pm : Hdr) (e : parse raw = .ok h pm) :
    h.pathOff + 4 + 8 * h.numINF + 12 * h.numHops ≤ raw.length := by
  have := parse_inBuf e
  unfold InBuf hopOff MetaLen InfoLen HopLen at this
  exact this

/-- under that guarantee every field read of the fast path stays inside the buffer: a read either
reports an index error (as `Raw.Get…Field` does) or succeeds — it never slices out of range -/
theorem reads_in_range (h : Hd) (buf : Bytes) (hb : InBuf h buf) (idx : Nat) :
    (readHop h buf idx = .err ∨ ∃ x, readHop h buf idx = .ok x) ∧
    (readInfo h buf idx = .err ∨ ∃ x, readInfo h buf idx = .ok x) :=
  ⟨readHop_inBuf h buf hb idx, readInfo_inBuf h buf hb idx⟩

/-- … and every in-place write (info field, hop field, meta line) at an index on the path is in
range and keeps the length of the buffer, so the guarantee persists from stage to stage -/
theorem writes_in_range (h : Hd) (buf : Bytes) (hb : InBuf h buf) :
    (∀ j i, j < h.numINF → wrInfo h buf j i = some (setInfo h buf j i) ∧
        (setInfo h buf j i).length = buf.length) ∧
    (∀ j x, j < h.numHops → x.mac.length = 6 → wrHop h buf j x = some (setHop h buf j x) ∧
        (setHop h buf j x).length = buf.length) ∧
    (∀ p, wrMeta h buf p = some (setMeta h buf p) ∧ (setMeta h buf p).length = buf.length) := by
  refine ⟨fun j i hj => ?_, fun j x hj hm => ?_, fun p => ?_⟩
  · have := inBuf_info h buf hb j hj
    exact ⟨wrInfo_of_le this, length_setInfo h buf j i this⟩
  · have := inBuf_hop h buf hb j hj
    exact ⟨wrHop_of_le this, length_setHop h buf j x hm this⟩
  · have := inBuf_meta h buf hb
    exact ⟨wrMeta_of_le this, length_setMeta h buf p this⟩

/-- **process_total.** For ALL byte strings, configurations, keys, MAC functions, resolvers,
times and ingress links the fast path answers with one of the documented dispositions — drop,
forward, deliver, router-alert hand-over, or a slow-path request whose SCMP type/code is one of
the documented ones — and never with `crash`. -/
theorem process_total (cfg : Cfg) (mac : Mac) (resolve : Cfg → Hd → ResolveOut) (now : Nat)
    (ing : Ingress) (raw : Bytes) : Documented (processPkt cfg mac resolve now ing raw).1 := by
  unfold processPkt
  cases hp : parse raw with
  | drop => trivial
  | other => trivial
  | ok h pm => exact process_documented cfg mac resolve now ing h pm raw (parse_inBuf hp)

theorem never_crashes (cfg : Cfg) (mac : Mac) (resolve : Cfg → Hd → ResolveOut) (now : Nat)
    (ing : Ingress) (raw : Bytes) : (processPkt cfg mac resolve now ing raw).1 ≠ .crash := by
  intro hc
  have := process_total cfg mac resolve now ing raw
  rw [hc] at this
  exact this

theorem decode_inRange (w : Nat) : (decode w).InRange := by
  simp only [decode, Hdr.InRange]; omega

/-- **forward_output_wellformed.** Every packet the fast path forwards or delivers decodes again
(common header, address header, path, extension headers) to the SAME header — same HdrLen-derived
offsets, PayloadLen consistent with the actual payload, same addresses, NumINF, NumHops, same L4 —
with new pointers that designate a hop of the path and the info field of its segment, moved
forward by at most two hops; the length is unchanged. -/
theorem forward_output_wellformed (cfg : Cfg) (mac : Mac) (resolve : Cfg → Hd → ResolveOut)
    (now : Nat) (ing : Ingress) (raw : Bytes)
    (hacc : (processPkt cfg mac resolve now ing raw).1.accepting = true) :
    ∃ h pm pmF, parse raw = .ok h pm ∧
      parse (processPkt cfg mac resolve now ing raw).2 = .ok h pmF ∧
      FinalMeta h pm pmF ∧ h.pldLenOk = true ∧
      (processPkt cfg mac resolve now ing raw).2.length = raw.length := by
  obtain ⟨h, pm, hp, hlen, _⟩ := Scion.C07.forward_confined cfg mac resolve now ing raw hacc
  obtain ⟨h', pm', hp', hout⟩ := Scion.C07.outside_meta_and_infos_unchanged cfg mac resolve now ing raw hacc
  rw [hp] at hp'
  cases hp'
  obtain ⟨⟨m0, m1, m2, m3, hm, hdec⟩, b, hb, hn1, hn2⟩ := parse_ok_meta hp
  have hacc' : (process cfg mac resolve now ing h pm raw).1.accepting = true := by
    unfold processPkt at hacc; simp only [hp] at hacc; exact hacc
  have hout' : (processPkt cfg mac resolve now ing raw).2 = (process cfg mac resolve now ing h pm raw).2 := by
    unfold processPkt; simp only [hp]
  have hmd : MetaDec h raw pm := by unfold MetaDec; rw [hm]; exact hdec.symm
  have hin : pm.InRange := by rw [hdec]; exact decode_inRange _
  have hnh : h.numHops ≤ 64 := by rw [hn2]; exact baseDecode_numHops_le hb
  obtain ⟨pmF, hmF, fin⟩ := accept_meta cfg mac resolve now ing h pm raw hmd hin hnh hacc'
  have hpl : h.pldLenOk = true := by
    obtain ⟨s0, s1, p⟩ := process_accepting_inv hacc'
    exact (stValidate1_ok p.val).2.2.2
  refine ⟨h, pm, pmF, hp, ?_, fin, hpl, hlen⟩
  rw [← hout'] at hmF
  unfold MetaDec at hmF
  have := parse_congr hp hlen hout (by rw [hmF]; exact fin.s0) (by rw [hmF]; exact fin.s1)
    (by rw [hmF]; exact fin.s2)
  rw [hmF] at this
  exact this

/-! ### non-vacuity -/

example : (∃ h, parse (processPkt Ex.cfg Ex.idMac resolveLocal Ex.now ⟨1, 10⟩ Ex.xover).2 =
      .ok h ⟨1, 3, 2, 2, 0⟩) ∧
    (processPkt Ex.cfg Ex.idMac resolveLocal Ex.now ⟨1, 10⟩ Ex.xover).1 = .forward 2 := by
  refine ⟨⟨_, rfl⟩, by decide⟩

/-- a packet whose HdrLen promises more path than the buffer holds is dropped by the decoder -/
example : (processPkt Ex.cfg Ex.idMac resolveLocal Ex.now ⟨1, 10⟩ (Ex.xover.take 100)).1 = .discard := by
  decide

end Scion.C08Fast
