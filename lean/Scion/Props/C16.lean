import Scion.Proofs.BfdAsync
import Scion.Gen.Bfd
/-! # C16 — BFD sessions follow RFC 5880 and always recover

Model: `Scion.Model.Bfd` (`transition` = fsm.go, `recvStep` = what `Session.Run` does with an
accepted packet incl. the AdminDown normalisation, `timerStep` = detection-timer branch).
The model is tied to the code on every run by engine `bfd`: the complete table of the real
`transition` (T1, exhaustive) and the event logs of real `Session`s (T2). -/
namespace Scion.C16
open Scion.Bfd

/-- RFC 5880 §6.8.6, the state-update part of the reception procedure, written from the RFC text
for a session that is not administratively down:

    If received state is AdminDown
        If bfd.SessionState is not Down  → Down
    Else
        If bfd.SessionState is Down
            If received State is Down → Init
            Else if received State is Init → Up
        Else if bfd.SessionState is Init
            If received State is Init or Up → Up
        Else (bfd.SessionState is Up)
            If received State is Down → Down -/
def rfc (l r : St) : St :=
  if r = .adminDown then (if l ≠ .down then .down else l)
  else if l = .down then
    (if r = .down then .init else if r = .init then .up else l)
  else if l = .init then
    (if r = .init ∨ r = .up then .up else l)
  else
    (if r = .down then .down else l)

/-- **RFC 5880 §6.8.6.** For every local state in {Down, Init, Up} and every received state the
session's next state is the one the RFC prescribes; in particular a received AdminDown gives
Down. -/
theorem rfc5880_6_8_6 (l r : St) (hl : l ≠ .adminDown) : recvStep l r = rfc l r := by
  cases l <;> cases r <;> first | rfl | exact absurd rfl hl

/-- a received AdminDown moves the session to Down. -/
theorem recv_adminDown_goes_down (l : St) (hl : l ≠ .adminDown) : recvStep l .adminDown = .down := by
  cases l <;> first | rfl | exact absurd rfl hl

/-- RFC 5880 §6.8.4: expiry of the detection time in Init or Up sets the state to Down; a
session that is Down stays Down. -/
theorem rfc5880_detection_timer (l : St) (hl : l ≠ .adminDown) : timerStep l = .down := by
  cases l <;> first | rfl | exact absurd rfl hl

/-- The session never enters AdminDown ("never into a state it cannot leave"): {Down, Init, Up}
is closed under every input. -/
theorem step_ne_adminDown (l : St) (i : Input) (hl : l ≠ .adminDown) : step l i ≠ .adminDown := by
  cases i with
  | recv r => cases l <;> cases r <;> first | exact absurd rfl hl | (intro h; cases h)
  | timer => cases l <;> first | exact absurd rfl hl | (intro h; cases h)

theorem run_ne_adminDown (h : List Input) : ∀ l, l ≠ .adminDown → run l h ≠ .adminDown := by
  induction h with
  | nil => intro l hl; exact hl
  | cons i t ih => intro l hl; exact ih (step l i) (step_ne_adminDown l i hl)

/-- every state reachable from the initial state by any history of accepted packets (any
received state, AdminDown included) and timer expiries is one of Down, Init, Up. -/
theorem never_adminDown (h : List Input) : run initial h ≠ .adminDown :=
  run_ne_adminDown h initial (by decide)

/-- two packets of a peer that is coming up (Down, then Init) bring any session Up. -/
theorem down_init_brings_up (l : St) (hl : l ≠ .adminDown) :
    run l [.recv .down, .recv .init] = .up := by
  cases l <;> first | rfl | exact absurd rfl hl

/-- **No absorbing state.** After any history of received packets (any state) and timer
expiries, a finite sequence of packets of a well-behaved peer (one that never sends AdminDown;
here: Down followed by Init, what a peer that is itself coming up sends) leads to Up. -/
theorem no_absorbing_state (h : List Input) :
    ∃ rs : List St, (∀ r ∈ rs, r ≠ .adminDown) ∧
      run (run initial h) (rs.map Input.recv) = .up := by
  refine ⟨[.down, .init], ?_, ?_⟩
  · intro r hr
    simp only [List.mem_cons, List.mem_nil_iff, or_false] at hr
    rcases hr with rfl | rfl <;> decide
  · exact down_init_brings_up _ (never_adminDown h)

/-- the raw table alone does have an absorbing state (this is why the normalisation in
`Session.Run` is part of the model, and what the revert of 7c477ad re-exposes). -/
theorem raw_table_adminDown_absorbing (r : St) : transition .adminDown (eventOf r) = .adminDown := by
  cases r <;> rfl

/-! ### Two sessions over a link that keeps delivering -/

/-- every direction is scheduled again and again -/
def Fair (sched : Nat → Dir) : Prop := ∀ n d, ∃ m, n ≤ m ∧ sched m = d

/-- ranking function on the pair of states: 0 exactly at (Up, Up). -/
def rank : St × St → Nat
  | (.up, .up) => 0
  | (.up, .init) => 1 | (.init, .up) => 1
  | (.down, .init) => 2 | (.init, .down) => 2 | (.init, .init) => 2
  | (.down, .down) => 3
  | (.down, .up) => 4 | (.up, .down) => 4
  | _ => 5

def Good (p : St × St) : Prop := p.1 ≠ .adminDown ∧ p.2 ≠ .adminDown

theorem xstep_good (p : St × St) (d : Dir) (h : Good p) : Good (xstep p d) := by
  obtain ⟨a, b⟩ := p
  obtain ⟨ha, hb⟩ := h
  cases d <;> cases a <;> cases b <;>
    first | exact absurd rfl ha | exact absurd rfl hb | (constructor <;> intro h <;> cases h)

/-- a delivery either leaves the pair unchanged or strictly lowers the rank -/
theorem xstep_rank (p : St × St) (d : Dir) (h : Good p) :
    xstep p d = p ∨ rank (xstep p d) < rank p := by
  obtain ⟨a, b⟩ := p
  obtain ⟨ha, hb⟩ := h
  cases d <;> cases a <;> cases b <;>
    first | exact absurd rfl ha | exact absurd rfl hb | exact Or.inl rfl | (right; decide)

/-- as long as the pair is not (Up, Up) some direction strictly lowers the rank -/
theorem exists_progress (p : St × St) (h : Good p) (hr : rank p ≠ 0) :
    ∃ d, rank (xstep p d) < rank p := by
  obtain ⟨a, b⟩ := p
  obtain ⟨ha, hb⟩ := h
  cases a <;> cases b <;>
    first | exact absurd rfl ha | exact absurd rfl hb | exact absurd rfl hr
          | exact ⟨.ab, by decide⟩ | exact ⟨.ba, by decide⟩

theorem rank_zero_iff (p : St × St) : rank p = 0 ↔ p = (.up, .up) := by
  obtain ⟨a, b⟩ := p
  cases a <;> cases b <;> simp [rank]

theorem pairAt_good (sched : Nat → Dir) (p0 : St × St) (h : Good p0) :
    ∀ n, Good (pairAt sched p0 n) := by
  intro n
  induction n with
  | zero => exact h
  | succ n ih => exact xstep_good _ _ ih

theorem pairAt_rank_mono (sched : Nat → Dir) (p0 : St × St) (h : Good p0) (n k : Nat) :
    rank (pairAt sched p0 (n + k)) ≤ rank (pairAt sched p0 n) := by
  induction k with
  | zero => exact Nat.le_refl _
  | succ k ih =>
    have hg := pairAt_good sched p0 h (n + k)
    have : pairAt sched p0 (n + (k + 1)) = xstep (pairAt sched p0 (n + k)) (sched (n + k)) := rfl
    rw [this]
    rcases xstep_rank (pairAt sched p0 (n + k)) (sched (n + k)) hg with he | hlt
    · rw [he]; exact ih
    · omega

/-- if direction `d` lowers the rank now and is scheduled `k` steps from now, the rank is lower
by then at the latest -/
theorem progress_within (sched : Nat → Dir) (p0 : St × St) (h : Good p0) (d : Dir) :
    ∀ k n, sched (n + k) = d → rank (xstep (pairAt sched p0 n) d) < rank (pairAt sched p0 n) →
      rank (pairAt sched p0 (n + k + 1)) < rank (pairAt sched p0 n) := by
  intro k
  induction k with
  | zero =>
    intro n hs hlt
    have : pairAt sched p0 (n + 0 + 1) = xstep (pairAt sched p0 n) (sched n) := rfl
    rw [this]
    have hs' : sched n = d := hs
    rw [hs']; exact hlt
  | succ k ih =>
    intro n hs hlt
    have hg := pairAt_good sched p0 h n
    have hstep : pairAt sched p0 (n + 1) = xstep (pairAt sched p0 n) (sched n) := rfl
    have hidx : n + (k + 1) + 1 = (n + 1) + k + 1 := by omega
    rcases xstep_rank (pairAt sched p0 n) (sched n) hg with he | hl
    · -- unchanged: apply the induction hypothesis one step later
      have heq : pairAt sched p0 (n + 1) = pairAt sched p0 n := by rw [hstep, he]
      have hs2 : sched ((n + 1) + k) = d := by
        have : n + 1 + k = n + (k + 1) := by omega
        rw [this]; exact hs
      have := ih (n + 1) hs2 (by rw [heq]; exact hlt)
      rw [hidx]; rw [heq] at this; exact this
    · -- already lower after one step; monotone afterwards
      have hm := pairAt_rank_mono sched p0 h (n + 1) (k + 1)
      have hidx2 : n + (k + 1) + 1 = (n + 1) + (k + 1) := by omega
      rw [hidx2]
      rw [← hstep] at hl
      omega

/-- under a fair schedule the rank reaches 0 -/
theorem reaches_rank_zero (sched : Nat → Dir) (hf : Fair sched) (p0 : St × St) (h : Good p0) :
    ∀ r n, rank (pairAt sched p0 n) ≤ r → ∃ m, n ≤ m ∧ rank (pairAt sched p0 m) = 0 := by
  intro r
  induction r with
  | zero => intro n hn; exact ⟨n, Nat.le_refl _, by omega⟩
  | succ r ih =>
    intro n hn
    by_cases hz : rank (pairAt sched p0 n) = 0
    · exact ⟨n, Nat.le_refl _, hz⟩
    · obtain ⟨d, hd⟩ := exists_progress _ (pairAt_good sched p0 h n) hz
      obtain ⟨m, hnm, hsm⟩ := hf n d
      obtain ⟨k, rfl⟩ : ∃ k, m = n + k := ⟨m - n, by omega⟩
      have := progress_within sched p0 h d k n hsm hd
      obtain ⟨m', hm', hz'⟩ := ih (n + k + 1) (by omega)
      exact ⟨m', by omega, hz'⟩

/-- **Two sessions reach Up and stay Up.** Two sessions in arbitrary states (anything a history
of packets and losses can have left behind) that exchange their states over a link delivering in
both directions again and again (any fair order of deliveries, no detection-timer expiry) are
both Up from some point on, for ever. -/
theorem two_sessions_reach_up (sched : Nat → Dir) (hf : Fair sched) (p0 : St × St)
    (h : Good p0) : ∃ N, ∀ n, N ≤ n → pairAt sched p0 n = (.up, .up) := by
  obtain ⟨N, _, hN⟩ := reaches_rank_zero sched hf p0 h _ 0 (Nat.le_refl _)
  refine ⟨N, fun n hn => ?_⟩
  obtain ⟨k, rfl⟩ : ∃ k, n = N + k := ⟨n - N, by omega⟩
  have := pairAt_rank_mono sched p0 h N k
  exact (rank_zero_iff _).1 (by omega)

/-- the same from the states left by arbitrary histories on both sides -/
theorem two_sessions_recover (ha hb : List Input) (sched : Nat → Dir) (hf : Fair sched) :
    ∃ N, ∀ n, N ≤ n → pairAt sched (run initial ha, run initial hb) n = (.up, .up) :=
  two_sessions_reach_up sched hf _ ⟨never_adminDown ha, never_adminDown hb⟩

/-! ### Two sessions with packets in flight (asynchronous exchange) -/

/-- configurations that arise from a clean start (both sessions Down, nothing in flight) by
sends and lossless in-order deliveries -/
def ACleanReachable (c : ACfg) : Prop := ∃ acts : List Act, acts.foldl astep aInit = c

theorem cleanReachable_inv (c : ACfg) (h : ACleanReachable c) : AInv c := by
  obtain ⟨acts, rfl⟩ := h
  have : ∀ (l : List Act) (c0 : ACfg), AInv c0 → AInv (l.foldl astep c0) := by
    intro l
    induction l with
    | nil => intro c0 h0; exact h0
    | cons x xs ih => intro c0 h0; exact ih _ (ainv_step c0 x h0)
  exact this acts aInit ainv_init

/-- **Two sessions reach Up and stay Up, with packets in flight.** Two FIFO channels; every
delivered packet carries the state its sender had when it SENT it; both sessions keep sending
their current state and both channels keep delivering (any fair interleaving of the four
actions, any number of packets in flight). From every configuration that arises from a clean
start — more generally from every configuration satisfying `AInv` — both sessions are Up from
some point on, for ever. -/
theorem async_two_sessions_reach_up (sched : Nat → Act) (hf : AFair sched) (c0 : ACfg)
    (h0 : ACleanReachable c0) :
    ∃ N, ∀ n, N ≤ n → (acfgAt sched c0 n).a = .up ∧ (acfgAt sched c0 n).b = .up :=
  async_converges sched hf c0 (cleanReachable_inv c0 h0)

/-- The same claim for ARBITRARY starting configurations (what a history with losses and
detection-timer expiries can leave behind) — kept visible at full strength. It is FALSE for the
untimed model: see `async_livelock`. -/
def AsyncConvergesFromAnywhere : Prop :=
  ∀ (c0 : ACfg), c0.a ≠ .adminDown → c0.b ≠ .adminDown →
    (∀ x ∈ c0.qab, x ≠ .adminDown) → (∀ x ∈ c0.qba, x ≠ .adminDown) →
    ∀ sched, AFair sched →
      ∃ N, ∀ n, N ≤ n → (acfgAt sched c0 n).a = .up ∧ (acfgAt sched c0 n).b = .up

/-- A is Down with a Down packet in flight, B is Up with an Init packet (sent before it came Up)
still in flight: one packet per direction. -/
def llCfg : ACfg := ⟨.down, .up, [.down], [.init]⟩

/-- each side sends once between two receptions; the packet it sends is made stale by the
reception that follows -/
def llSched (n : Nat) : Act :=
  match n % 10 with
  | 0 => .recvB | 1 => .sendA | 2 => .recvA | 3 => .sendB | 4 => .recvB
  | 5 => .sendA | 6 => .recvA | 7 => .sendB | 8 => .recvB | _ => .sendA

theorem acfgAt_add (s : Nat → Act) (c : ACfg) (n m : Nat) :
    acfgAt s c (n + m) = acfgAt (fun i => s (n + i)) (acfgAt s c n) m := by
  induction m with
  | zero => rfl
  | succ m ih =>
    have e : acfgAt s c (n + (m + 1)) = astep (acfgAt s c (n + m)) (s (n + m)) := rfl
    rw [e, ih]; rfl

theorem llSched_shift (k : Nat) : (fun i => llSched (10 * k + i)) = llSched := by
  funext i
  unfold llSched
  have : (10 * k + i) % 10 = i % 10 := by omega
  rw [this]

theorem ll_period (k : Nat) : acfgAt llSched llCfg (10 * k) = llCfg := by
  induction k with
  | zero => rfl
  | succ k ih =>
    have e : 10 * (k + 1) = 10 * k + 10 := by omega
    rw [e, acfgAt_add, ih, llSched_shift]
    decide

theorem ll_fair : AFair llSched := by
  intro n x
  have h : ∀ p, p < 10 → llSched (10 * (n + 1) + p) = llSched p := by
    intro p _
    unfold llSched
    have : (10 * (n + 1) + p) % 10 = p % 10 := by omega
    rw [this]
  cases x
  · exact ⟨10 * (n + 1) + 1, by omega, by rw [h 1 (by omega)]; rfl⟩
  · exact ⟨10 * (n + 1) + 3, by omega, by rw [h 3 (by omega)]; rfl⟩
  · exact ⟨10 * (n + 1) + 2, by omega, by rw [h 2 (by omega)]; rfl⟩
  · exact ⟨10 * (n + 1) + 0, by omega, by rw [h 0 (by omega)]; rfl⟩

/-- **Livelock.** Under the fair, lossless, in-order schedule `llSched` (never more than one
packet in flight per direction) the two sessions started in `llCfg` go round a cycle of ten
actions for ever: A is Down again every ten actions. Fairness alone does not make two RFC 5880
state machines converge; real sessions rely on timing (packets arriving well within a
transmission interval, and the random jitter of RFC 5880 §6.8.7 breaking the phase lock). -/
theorem async_livelock : ¬ AsyncConvergesFromAnywhere := by
  intro h
  obtain ⟨N, hN⟩ := h llCfg (by decide) (by decide) (by decide) (by decide) llSched ll_fair
  have := (hN (10 * N) (by omega)).1
  rw [ll_period] at this
  exact absurd this (by decide)

/-- the livelock configuration arises from a clean start after ONE detection-timer expiry at A
(B's Init packet still in flight when B is already Up, A times out and sends Down) -/
theorem livelock_config_after_one_timeout :
    astep (atimerA ([Act.sendA, .sendB, .recvA, .recvB, .sendA, .sendB, .recvB].foldl astep aInit))
      .sendA = llCfg := by decide

/-! ### Detection timer -/

/-- **Silence goes Down.** Once the detection time armed by the last accepted packet has
elapsed without another packet, the session is Down. -/
theorem silence_goes_down (s : Timed) (now : Nat) (hs : s.st ≠ .adminDown)
    (hd : s.deadline ≤ now) : (s.tick now).st = .down := by
  unfold Timed.tick
  rw [if_pos hd]
  exact rfc5880_detection_timer s.st hs

/-- … and stays Down while nothing is received. -/
theorem silence_stays_down (ts : List Nat) : ∀ s : Timed, s.st = .down →
    (ts.foldl Timed.tick s).st = .down := by
  induction ts with
  | nil => intro s h; exact h
  | cons t ts ih =>
    intro s h
    apply ih
    unfold Timed.tick
    split
    · show timerStep s.st = .down
      rw [h]; rfl
    · exact h

/-- before the detection time has elapsed nothing happens (a session that is Up stays Up). -/
theorem no_early_down (s : Timed) (now : Nat) (hd : now < s.deadline) : s.tick now = s := by
  unfold Timed.tick
  rw [if_neg (by omega)]

/-- the detection time armed by a packet is `DetectMult × max(RequiredMinRx, remote
DesiredMinTx)` after its arrival. Times are unbounded naturals (µs): the product is the
mathematical product, it does NOT wrap at 2^32 µs. The code agrees because it forms the product
in `time.Duration` (int64 ns; 255 × (2^32−1) µs ≈ 1.1·10^15 ns < 2^63) — see
`gen_detection_product_in_duration` and the large-product scripts of engine `bfd`. -/
theorem detection_time (s : Timed) (now : Nat) (r : St) (mult reqRx remTx : Nat) :
    (s.recv now r mult reqRx remTx).deadline = now + mult * max reqRx remTx := rfl

/-- in particular a product of 2^32 µs or more arms a timer of at least 2^32 µs (≈ 71.6 min):
a session that is Up stays Up for that long after the packet -/
theorem detection_time_beyond_32_bits (s : Timed) (now t : Nat) (r : St) (mult reqRx remTx : Nat)
    (hbig : 2 ^ 32 ≤ mult * max reqRx remTx) (ht : t < now + 2 ^ 32) :
    (s.recv now r mult reqRx remTx).tick t = s.recv now r mult reqRx remTx := by
  apply no_early_down
  rw [detection_time]
  omega

/-- T3: `Session.Run` computes `detectionTime` once, as
`time.Duration(msg.DetectMultiplier) * max(s.RequiredMinRxInterval, bfdIntervalToDuration(…))`,
i.e. the multiplication is performed in `time.Duration`, not in the 32-bit `BFDTimeInterval`. -/
theorem gen_detection_product_in_duration :
    Scion.Gen.Bfd.detectionProductInDuration = true ∧ Scion.Gen.Bfd.detectionTimeAssignments = 1 := by
  decide

/-! ### Transmission interval (RFC 5880 §6.8.7) -/

/-- The interval to the next packet is the negotiated interval reduced by a jitter of 0–25 %
(10–25 % when the detect multiplier is 1), whatever the random generator returns: never longer
than the negotiated interval (≤ 90 % of it for multiplier 1), never shorter than 75 % (rounded
down to the nanosecond). So a running session sends at least once per negotiated interval, i.e.
at least `DetectMult` times per detection time of its peer. -/
theorem send_interval_bounds (iv mult pct d : Nat) (h : computeInterval iv mult pct = some d) :
    d ≤ iv ∧ 76 * iv ≤ 100 * d + 99 ∧ (mult = 1 → 100 * d ≤ 90 * iv) := by
  unfold computeInterval at h
  split at h
  · cases h
  · split at h
    · cases h
    · cases h
      generalize hc : clampPct pct (if mult = 1 then minJitterDetectMult1 else minJitter) maxJitter = c
      have hc24 : c ≤ 24 := by
        rw [← hc]; unfold clampPct maxJitter minJitterDetectMult1 minJitter
        repeat' split
        all_goals omega
      have hc10 : mult = 1 → 10 ≤ c := by
        intro hm
        rw [← hc, if_pos hm]; unfold clampPct maxJitter minJitterDetectMult1
        repeat' split
        all_goals omega
      have h1 : iv * (100 - c) ≤ iv * 100 := Nat.mul_le_mul_left iv (by omega)
      have h2 : iv * 76 ≤ iv * (100 - c) := Nat.mul_le_mul_left iv (by omega)
      have h3 : mult = 1 → iv * (100 - c) ≤ iv * 90 := fun hm =>
        Nat.mul_le_mul_left iv (by have := hc10 hm; omega)
      generalize iv * (100 - c) = m at *
      refine ⟨by omega, by omega, fun hm => ?_⟩
      have := h3 hm
      omega

/-- `computeInterval` is defined (does not panic) exactly for a positive interval and a non-zero
detect multiplier — which `validateParameters` guarantees before `Run` starts. -/
theorem send_interval_defined (iv mult pct : Nat) :
    (computeInterval iv mult pct).isSome = true ↔ (0 < iv ∧ mult ≠ 0) := by
  unfold computeInterval
  split
  · simp; omega
  · split
    · simp; omega
    · simp; omega

/-! ### Reception checks (RFC 5880 §6.8.6, first part) -/

/-- A packet reaches the state machine iff it passes the RFC's reception checks for a session
without authentication, echo, demand mode and poll sequences: version 1, plausible length, non-zero
detect multiplier, not multipoint, non-zero My Discriminator, and a zero Your Discriminator only
in states Down and AdminDown. -/
theorem accepted_iff (p : Pkt) :
    shouldDiscard p = false ↔
      (p.version = 1 ∧ 24 ≤ p.length ∧ p.detectMult ≠ 0 ∧ p.multipoint = false ∧ p.myDisc ≠ 0 ∧
       (p.yourDisc ≠ 0 ∨ p.state = .adminDown ∨ p.state = .down) ∧
       p.authPresent = false ∧ p.authHdrTyped = false ∧ p.poll = false ∧ p.final = false ∧
       p.echoRx = 0 ∧ p.demand = false) := by
  obtain ⟨ver, auth, len, mult, mp, my, your, st, aht, poll, fin, echo, dem⟩ := p
  unfold shouldDiscard
  dsimp only
  cases auth <;> cases mp <;> cases aht <;> cases poll <;> cases fin <;> cases dem <;> cases st <;>
    simp <;> omega

/-! ### Non-vacuity -/

example : recvStep .up .adminDown = .down := rfl
example : run initial [.recv .down, .recv .adminDown, .timer, .recv .up] = .down := rfl
example : run (run initial [.recv .init, .recv .adminDown]) [.recv .down, .recv .init] = .up := rfl
/-- an alternating schedule is fair -/
example : Fair (fun n => if n % 2 = 0 then .ab else .ba) := by
  intro n d
  cases d
  · refine ⟨2 * n, by omega, ?_⟩
    have : 2 * n % 2 = 0 := by omega
    simp [this]
  · refine ⟨2 * n + 1, by omega, ?_⟩
    have : (2 * n + 1) % 2 = 1 := by omega
    simp [this]
example : pairAt (fun n => if n % 2 = 0 then .ab else .ba) (.up, .down) 6 = (.up, .up) := by decide
example : ACleanReachable ⟨.init, .down, [.down, .init], []⟩ :=
  ⟨[.sendA, .sendB, .recvA, .sendA], by decide⟩
example : (({ st := .up, deadline := 0 } : Timed).recv 1000 .up 255 1000 17000000).deadline = 1000 + 4335000000 := rfl
example : ({ st := .up, deadline := 300 } : Timed).tick 300 = { st := .down, deadline := 300 + defaultDetect } := rfl

end Scion.C16
