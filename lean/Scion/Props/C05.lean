import Scion.Proofs.RouterProcess
import Scion.Proofs.RouterExamples
import Scion.Gen.Router1
/-!
# C05 — Routers reject impossible source or destination ISD-AS and transit spoofing

Property theorems only. Model: `Scion.Model.Router` (see C01 for the tie). "Entering from
another AS" is `ing.ifID ≠ 0` (external links carry their non-zero interface id; internal and
sibling links report 0, exactly the distinction `process` itself makes).
-/
namespace Scion.C05
open Scion.Util Scion.Router
open Scion.PathMeta hiding Info

abbrev run (cfg : Cfg) (mac : Mac) (resolve : Cfg → Hd → ResolveOut) (now : Nat) (ing : Ingress)
    (h : Hd) (pm : Hdr) (raw : Bytes) : Disp × Bytes := process cfg mac resolve now ing h pm raw

/-- **(1)** a packet entering from another AS that claims the local AS as source is rejected -/
theorem external_local_src_rejected (cfg mac resolve now ing h pm raw)
    (hext : ing.ifID ≠ 0) (hsrc : h.srcIA = cfg.localIA) :
    (run cfg mac resolve now ing h pm raw).1.accepting = false := by
  cases hacc : (run cfg mac resolve now ing h pm raw).1.accepting
  · rfl
  · obtain ⟨s0, s1, p⟩ := process_accepting_inv hacc
    exact absurd hsrc ((stSrcDst_ok p.srcdst).2.extSrc hext)

/-- an accepted packet ends up delivered exactly when its destination is the local AS -/
theorem accepted_deliver_iff_dst_local (cfg mac resolve now ing h pm raw)
    (hacc : (run cfg mac resolve now ing h pm raw).1.accepting = true) :
    (run cfg mac resolve now ing h pm raw).1.isDeliver = true ↔ h.dstIA = cfg.localIA := by
  obtain ⟨s0, s1, p⟩ := process_accepting_inv hacc
  have e : run cfg mac resolve now ing h pm raw = tail cfg mac resolve now ing h s1 := process_of_passed p
  rw [e] at hacc ⊢
  unfold tail at hacc ⊢
  by_cases hd : h.dstIA = cfg.localIA
  · simp only [hd, beq_self_eq_true, if_true] at hacc ⊢
    exact ⟨fun _ => trivial, fun _ => inbound_accepting_deliver _ _ hacc⟩
  · have hb : (h.dstIA == cfg.localIA) = false := by simpa using hd
    simp only [hb] at hacc ⊢
    obtain ⟨s5, l, o⟩ := outbound_accepting_inv hacc
    simp [o.disp, Disp.isDeliver, hd]

/-- **(2)** from another AS: delivered locally iff at the last hop and destined to the local AS;
and a packet for which exactly one of the two holds is never accepted -/
theorem external_deliver_iff_last_and_local (cfg mac resolve now ing h pm raw)
    (hext : ing.ifID ≠ 0)
    (hacc : (run cfg mac resolve now ing h pm raw).1.accepting = true) :
    ((run cfg mac resolve now ing h pm raw).1.isDeliver = true ↔
      (isLastHop (base h pm) = true ∧ h.dstIA = cfg.localIA)) ∧
    (isLastHop (base h pm) = true ↔ h.dstIA = cfg.localIA) := by
  obtain ⟨s0, s1, p⟩ := process_accepting_inv hacc
  have a := stParse_ok p.parse
  have b := stSegID_ok p.segid
  have c := (stSrcDst_ok p.srcdst).2.extDst hext
  rw [b.hpm, a.hpm] at c
  refine ⟨?_, c⟩
  rw [accepted_deliver_iff_dst_local cfg mac resolve now ing h pm raw hacc]
  constructor
  · intro hd; exact ⟨c.mpr hd, hd⟩
  · intro hd; exact hd.2

theorem external_last_xor_local_rejected (cfg mac resolve now ing h pm raw)
    (hext : ing.ifID ≠ 0)
    (hx : ¬ (isLastHop (base h pm) = true ↔ h.dstIA = cfg.localIA)) :
    (run cfg mac resolve now ing h pm raw).1.accepting = false := by
  cases hacc : (run cfg mac resolve now ing h pm raw).1.accepting
  · rfl
  · exact absurd (external_deliver_iff_last_and_local cfg mac resolve now ing h pm raw hext hacc).2 hx

/-- the "if" half: at the last hop, destination local, every check passing ⇒ the packet is
handed to local delivery (delivered, or answered by the destination resolution) -/
theorem last_local_handed_to_delivery (cfg mac resolve now ing h pm raw s0 s1)
    (p : Passed cfg mac now ing h pm raw s0 s1) (hd : h.dstIA = cfg.localIA) :
    run cfg mac resolve now ing h pm raw = inbound (resolve cfg h) s1 := by
  show process cfg mac resolve now ing h pm raw = _
  rw [process_of_passed p]
  unfold tail
  simp [hd]

/-- **(3)** from inside the AS: accepted ⇒ forwarded (never delivered), destination not local,
and on the first hop the source is the local AS (with a usable source host address) -/
theorem internal_accept (cfg mac resolve now ing h pm raw)
    (hint : ing.ifID = 0)
    (hacc : (run cfg mac resolve now ing h pm raw).1.accepting = true) :
    (run cfg mac resolve now ing h pm raw).1.isForward = true ∧
    h.dstIA ≠ cfg.localIA ∧ (pm.currHF = 0 → h.srcIA = cfg.localIA) ∧
    (h.srcIA = cfg.localIA → srcHostBad h = false) := by
  obtain ⟨s0, s1, p⟩ := process_accepting_inv hacc
  have a := stParse_ok p.parse
  have b := stSegID_ok p.segid
  have c := (stSrcDst_ok p.srcdst).2
  have hd := c.intDst hint
  refine ⟨?_, hd, ?_, c.srcHost⟩
  · have e : run cfg mac resolve now ing h pm raw = tail cfg mac resolve now ing h s1 := process_of_passed p
    rw [e] at hacc ⊢
    unfold tail at hacc ⊢
    have hb : (h.dstIA == cfg.localIA) = false := by simpa using hd
    simp only [hb] at hacc ⊢
    obtain ⟨s5, l, o⟩ := outbound_accepting_inv hacc
    simp [o.disp, Disp.isForward]
  · intro h0
    apply c.intFirst hint
    rw [b.hpm, a.hpm]; exact h0

/-- the interface by which the packet entered the AS, read from the received packet: the
travel-direction ingress of the current hop, or — right after a cross-over done by the ingress
router — of the previous hop with the previous info field -/
def entryInterface (h : Hd) (pm : Hdr) (raw : Bytes) (hop : Hop) (inf : Info) (peering : Bool) : Option Nat :=
  ingressInterface h ⟨raw, pm, hop, inf, peering, false⟩

/-- **(4)** from inside the AS and not on its first hop: accepted only if it came over the
*sibling* link that owns the interface by which it entered the AS -/
theorem transit_only_via_owning_sibling (cfg mac resolve now ing h pm raw)
    (hint : ing.ifID = 0) (hnf : pm.currHF ≠ 0)
    (hacc : (run cfg mac resolve now ing h pm raw).1.accepting = true) :
    ∃ hop inf peering id l,
      getHop h raw pm.currHF = some hop ∧ getInfo h raw pm.currINF = some inf ∧
      determinePeer pm inf = some peering ∧
      entryInterface h pm raw hop inf peering = some id ∧
      cfg.ifaces id = some l ∧ l.linkId = ing.linkId ∧ l.scope = .sibling := by
  obtain ⟨s0, s1, p⟩ := process_accepting_inv hacc
  have a := stParse_ok p.parse
  have b := stSegID_ok p.segid
  have hu : ingressUpdates ing s0.inf s0.peering = false := by simp [ingressUpdates, hint]
  have hs : s1 = s0 := by
    have b1 := b.hop; have b2 := b.hpm; have b3 := b.peering; have b4 := b.eff
    have b5 := b.inf; have b6 := b.buf
    simp only [hu] at b5 b6
    cases s0; cases s1; simp_all
  subst hs
  have t := (stTransit_ok p.transit).2 (by rw [a.hpm]; exact hnf) hint
  obtain ⟨id, l, hid, hl, h1, h2⟩ := t
  refine ⟨s1.hop, s1.inf, s1.peering, id, l, a.hop, a.inf, a.peer, ?_, hl, h1, h2⟩
  unfold entryInterface
  have : (⟨raw, pm, s1.hop, s1.inf, s1.peering, false⟩ : St) = s1 := by
    have := a.buf; have := a.hpm; have := a.eff
    cases s1; simp_all
  rw [this]; exact hid

/-- a packet is delivered only if it came from another AS -/
theorem deliver_only_from_external (cfg mac resolve now ing h pm raw)
    (hd : (run cfg mac resolve now ing h pm raw).1.isDeliver = true) : ing.ifID ≠ 0 := by
  intro hint
  have hacc : (run cfg mac resolve now ing h pm raw).1.accepting = true := by
    cases hx : (run cfg mac resolve now ing h pm raw).1 <;> simp_all [Disp.isDeliver, Disp.accepting]
  have := (internal_accept cfg mac resolve now ing h pm raw hint hacc).1
  cases hx : (run cfg mac resolve now ing h pm raw).1 <;> simp_all [Disp.isDeliver, Disp.isForward]

/-- the statements above hold of raw packets: `processPkt` accepts only through `process` -/
theorem processPkt_accepting (cfg mac resolve now ing) (raw : Bytes)
    (hacc : (processPkt cfg mac resolve now ing raw).1.accepting = true) :
    ∃ h pm, parse raw = .ok h pm ∧
      processPkt cfg mac resolve now ing raw = run cfg mac resolve now ing h pm raw := by
  unfold processPkt at hacc ⊢
  cases hp : parse raw with
  | drop => simp [hp, Disp.accepting] at hacc
  | other => simp [hp, Disp.accepting] at hacc
  | ok h pm => exact ⟨h, pm, rfl, rfl⟩

/-! ### non-vacuity -/

example : (processPkt Ex.cfg Ex.idMac resolveLocal Ex.now ⟨0, 0⟩ Ex.firstHop).1 = .forward 2 := by decide
example : (processPkt Ex.cfg Ex.idMac resolveLocal Ex.now ⟨1, 10⟩ Ex.lastHop).1 =
    .deliver 0 [10, 0, 0, 2] 80 := by decide
/-- the first-hop packet replayed with a foreign source AS is answered with InvalidSourceAddress -/
example : (processPkt Ex.cfg Ex.idMac resolveLocal Ex.now ⟨0, 0⟩ (Ex.firstHop.set 27 0x13)).1 =
    .slow PP cBadSrc 20 := by decide
/-- a transit packet injected over the internal link (not a sibling link) is dropped -/
example : (processPkt Ex.cfg Ex.idMac resolveLocal Ex.now ⟨0, 0⟩ Ex.xover).1 = .discard := by decide

/-! ### T3 -/

/-- the guards of the three checks the model was written against -/
theorem guards :
    Scion.Gen.Router1.conds_validateTransitUnderlaySrc =
      ["p.path.IsFirstHop() || p.ingressFromLink != 0",
       "ingressLink != p.pkt.Link || ingressLink.Scope() != Sibling"] ∧
    Scion.Gen.Router1.conds_validateSrcDstIA =
      ["p.ingressFromLink == 0", "p.path.IsFirstHop() && !srcIsLocal", "dstIsLocal", "srcIsLocal",
       "p.path.IsLastHop() != dstIsLocal"] ∧
    Scion.Gen.Router1.conds_validateSrcHost =
      ["p.scionLayer.SrcIA != p.d.localIA",
       "err == nil && src.Type() == addr.HostTypeIP && src.IP().Is4In6()", "err == nil"] :=
  ⟨rfl, rfl, rfl⟩

theorem stage_order : Scion.Gen.Router1.processCalls = Router.processCallOrder := rfl

theorem scmp_requests :
    Scion.Gen.Router1.req_respInvalidSrcIA =
      ["slowPathType(slayers.SCMPTypeParameterProblem)|slayers.SCMPCodeInvalidSourceAddress|uint16(slayers.CmnHdrLen + addr.IABytes)"] ∧
    Scion.Gen.Router1.req_respInvalidDstIA =
      ["slowPathType(slayers.SCMPTypeParameterProblem)|slayers.SCMPCodeInvalidDestinationAddress|uint16(slayers.CmnHdrLen)"] ∧
    Router.cBadSrc = Scion.Gen.Router1.SCMPCodeInvalidSourceAddress ∧
    Router.cBadDst = Scion.Gen.Router1.SCMPCodeInvalidDestinationAddress ∧
    Router.CmnHdrLen + 8 = Scion.Gen.Router1.CmnHdrLen + Scion.Gen.Router1.IABytes :=
  ⟨rfl, rfl, rfl, rfl, rfl⟩

end Scion.C05
