import Scion.Model.Signer
import Scion.Proofs.Signer
import Scion.Props.C34
import Scion.Gen.Pki2
/-!
# C36 — Signers are backed by a currently verifiable chain and expire in time

Property theorems only.  The model (`Scion.Model.Signer`) mirrors `SignerGen.Generate`,
`bestForKey`, `bestChain`, `Signer.validate`, `LastExpiring`; it is tied to the real functions by
`harness/cmd/signer` (real keys, freshly issued certificates, in-memory trust DB, wall clock with
>= 1 s margin).  "The chain verifies now against TRC i" is an oracle Boolean per chain
(`okLatest`, `okPred`), obtained by really calling `cppki.VerifyChain`; what it means is C34.

The clause "messages it signs verify with a verifier bound to its ISD-AS": the decisions
`Verifier.Verify` takes on the key id (bound ISD-AS, wildcard, engine, chains) are modelled
(`verifyMsg`, theorem `verifies_with_bound_ia`) with the ECDSA check as an oracle bit per chain;
that a message produced by the real `Signer.Sign` of a generated signer does verify with the
real `trust.Verifier` bound to its ISD-AS (and not with one bound elsewhere) is evaluated on the
real code for every generated signer by the harness predicate.
-/
namespace Scion.C36
open Scion.Chain Scion.Signer

/-- the chains `bestForKey` chooses from: the DB answer, filtered by the wanted key usage -/
def candidates (k : KeyIn) (want : Nat) : List ChainInfo :=
  match k.chains with
  | some cs => if want = 0 then cs else filterChains cs want
  | none => []

theorem candidates_sub (k : KeyIn) (want : Nat) (c : ChainInfo) (h : c ∈ candidates k want) :
    ∃ cs, k.chains = some cs ∧ c ∈ cs ∧ (want ≠ 0 → want ∈ c.eku) := by
  unfold candidates at h
  split at h
  · rename_i cs hcs
    split at h
    · rename_i hw; exact ⟨cs, hcs, h, fun hne => absurd hw hne⟩
    · simp only [filterChains, List.mem_filter, List.contains_iff_mem] at h
      exact ⟨cs, hcs, h.1, fun _ => h.2⟩
  · cases h

/-- **Choice of the chain.**  A signer produced for a key uses a chain of that key which
verifies against the latest (active) TRC — or, only if *no* candidate chain verifies against the
latest TRC and the predecessor is active (grace period), one that verifies against the
predecessor; and among the chains verifying against that TRC it is one with the greatest
`NotAfter` (with equal `NotAfter` any may be chosen). -/
theorem signer_choice (act : ActiveRes) (want : Nat) (z : Int) (k : KeyIn) (s : SignerOut)
    (h : bestForKey act want z k = .signer s) :
    s.chain ∈ candidates k want ∧
    ((s.inGrace = false ∧ s.chain.okLatest = true ∧
        (∀ c ∈ candidates k want, c.okLatest = true → c.notAfter ≤ s.chain.notAfter) ∧
        ∃ t, t ∈ act.trcs ∧ act.trcs.head? = some t ∧ s.trcBase = t.base ∧ s.trcSerial = t.serial) ∨
     (s.inGrace = true ∧ (∀ c ∈ candidates k want, c.okLatest = false) ∧
        s.chain.okPred = true ∧
        (∀ c ∈ candidates k want, c.okPred = true → c.notAfter ≤ s.chain.notAfter) ∧
        ∃ t g, act = .two t g ∧ s.trcBase = t.base ∧ s.trcSerial = t.serial)) := by
  unfold bestForKey at h
  split at h
  · cases h
  · split at h
    · cases h
    · split at h
      · cases h
      · rename_i cs hcs
        have hcand : candidates k want = if want = 0 then cs else filterChains cs want := by
          simp [candidates, hcs]
        rw [hcand]
        split at h
        · rename_i t
          unfold bestOne at h
          split at h
          · rename_i c hc
            injection h with h; subst h
            obtain ⟨h1, h2, h3⟩ := bestChain_some _ _ c hc
            exact ⟨h1, Or.inl ⟨rfl, h2, h3, t, by simp [ActiveRes.trcs], by simp [ActiveRes.trcs],
              rfl, rfl⟩⟩
          · cases h
        · rename_i t g
          unfold bestTwo at h
          split at h
          · rename_i c hc
            injection h with h; subst h
            obtain ⟨h1, h2, h3⟩ := bestChain_some _ _ c hc
            exact ⟨h1, Or.inl ⟨rfl, h2, h3, t, by simp [ActiveRes.trcs], by simp [ActiveRes.trcs],
              rfl, rfl⟩⟩
          · rename_i hnone
            have hno := (bestChain_none _ _).1 hnone
            split at h
            · rename_i c hc
              injection h with h; subst h
              obtain ⟨h1, h2, h3⟩ := bestChain_some _ _ c hc
              exact ⟨h1, Or.inr ⟨rfl, hno, h2, h3, t, g, rfl, rfl, rfl⟩⟩
            · cases h
        · cases h

/-- **No signer** for a (usable) key exactly when no candidate chain verifies against the latest
TRC and — in the grace period — none against the predecessor either. -/
theorem signer_none_iff (act : ActiveRes) (want : Nat) (z : Int) (k : KeyIn)
    (hk : k.skidOk = true) (ha : k.algoOk = true) (cs : List ChainInfo) (hc : k.chains = some cs) :
    bestForKey act want z k = .skip ↔
      ((∃ t, act = .one t) ∧ ∀ c ∈ candidates k want, c.okLatest = false) ∨
      ((∃ t g, act = .two t g) ∧ ∀ c ∈ candidates k want, c.okLatest = false ∧ c.okPred = false) := by
  have hcand : candidates k want = if want = 0 then cs else filterChains cs want := by
    simp [candidates, hc]
  rw [hcand]
  unfold bestForKey
  simp only [hk, ha, hc, Bool.not_true, Bool.false_eq_true, ↓reduceIte]
  cases act with
  | one t =>
    simp only [bestOne]
    split
    · rename_i c hb
      obtain ⟨h1, h2, _⟩ := bestChain_some _ _ c hb
      simp only [reduceCtorEq, ActiveRes.one.injEq, exists_eq', true_and, false_iff, not_or]
      refine ⟨fun hall => ?_, by simp⟩
      have := hall c h1; simp [h2] at this
    · rename_i hb
      have := (bestChain_none _ _).1 hb
      simp
      exact this
  | two t g =>
    simp only [bestTwo]
    split
    · rename_i c hb
      obtain ⟨h1, h2, _⟩ := bestChain_some _ _ c hb
      simp only [reduceCtorEq, false_iff, not_or]
      refine ⟨by simp, fun ⟨_, hall⟩ => ?_⟩
      have := (hall c h1).1; simp [h2] at this
    · rename_i hb
      have hl := (bestChain_none _ _).1 hb
      split
      · rename_i c hp
        obtain ⟨h1, h2, _⟩ := bestChain_some _ _ c hp
        simp only [reduceCtorEq, false_iff, not_or]
        refine ⟨by simp, fun ⟨_, hall⟩ => ?_⟩
        have := (hall c h1).2; simp [h2] at this
      · rename_i hp
        have hpn := (bestChain_none _ _).1 hp
        simp only [reduceCtorEq, exists_false, false_and, ActiveRes.two.injEq, exists_and_left,
          exists_eq', and_true, true_and, false_or, true_iff]
        exact fun c hc' => ⟨hl c hc', hpn c hc'⟩
  | dbErr => simp
  | notFound => simp
  | inactive => simp

/-- **Expiry.**  Not in grace: the earliest of the chain's expiry and the latest TRC's validity
end.  In grace: the earliest of the chain's expiry, the grace-period end of the latest TRC and
the predecessor TRC's validity end. -/
theorem signer_expiry (act : ActiveRes) (want : Nat) (z : Int) (k : KeyIn) (s : SignerOut)
    (h : bestForKey act want z k = .signer s) :
    (s.inGrace = false → ∃ t, act.trcs.head? = some t ∧
        s.expiration = minT s.chain.notAfter t.notAfter) ∧
    (s.inGrace = true → ∃ t g, act = .two t g ∧
        s.expiration = minT (minT s.chain.notAfter (t.graceEnd z)) g.notAfter) := by
  unfold bestForKey at h
  split at h
  · cases h
  · split at h
    · cases h
    · split at h
      · cases h
      · split at h
        · rename_i t
          unfold bestOne at h
          split at h
          · injection h with h; subst h
            exact ⟨fun _ => ⟨t, (by simp [ActiveRes.trcs]), rfl⟩, fun hg => (by cases hg)⟩
          · cases h
        · rename_i t g
          unfold bestTwo at h
          split at h
          · injection h with h; subst h
            exact ⟨fun _ => ⟨t, (by simp [ActiveRes.trcs]), rfl⟩, fun hg => (by cases hg)⟩
          · split at h
            · injection h with h; subst h
              exact ⟨fun hg => (by cases hg), fun _ => ⟨t, g, rfl, rfl⟩⟩
            · cases h
        · cases h

/-- the expiry is *the earliest* of its bounds: below each of them and equal to one of them -/
theorem expiry_is_earliest_active (a b : Int) :
    minT a b ≤ a ∧ minT a b ≤ b ∧ (minT a b = a ∨ minT a b = b) :=
  ⟨minT_le_left a b, minT_le_right a b, minT_eq a b⟩

theorem expiry_is_earliest_grace (a b c : Int) :
    let e := minT (minT a b) c
    e ≤ a ∧ e ≤ b ∧ e ≤ c ∧ (e = a ∨ e = b ∨ e = c) := by
  simp only [minT]
  split <;> split <;> omega

/-- in the grace period of a non-base TRC the grace-period end is `notBefore + grace` -/
theorem graceEnd_of_inGrace (t : TrcInfo) (z now : Int) (h : t.inGrace now = true) :
    t.graceEnd z = t.notBefore + t.grace := by
  unfold TrcInfo.inGrace at h
  unfold TrcInfo.graceEnd
  split at h
  · cases h
  · rename_i hb; simp [hb]

/-- **Signing fails once the signer has expired** (and only then). -/
theorem sign_fails_after_expiry (expiration now : Int) :
    signOk expiration now = false ↔ expiration < now := by
  simp only [signOk, Bool.not_eq_false', decide_eq_true_eq]
  omega

theorem sign_ok_iff (expiration now : Int) : signOk expiration now = true ↔ now ≤ expiration := by
  simp only [signOk, Bool.not_eq_true', decide_eq_false_iff_not]
  omega

/-- **`Generate`** returns only signers that are the `bestForKey` result of one of the ring's
keys, at least one of them, and only if `activeTRCs` succeeded. -/
theorem generate_signers (keys : Option (List KeyIn)) (act : ActiveRes) (want : Nat) (z : Int)
    (l : List SignerOut) (h : generate keys act want z = .ok l) :
    l ≠ [] ∧ act.trcs ≠ [] ∧
    ∃ ks, keys = some ks ∧ ∀ s ∈ l, ∃ k ∈ ks, bestForKey act want z k = .signer s := by
  unfold generate at h
  split at h
  · cases h
  · cases h
  · rename_i ks _
    split at h
    · cases h
    · cases h
    · cases h
    · rename_i a h1 h2 h3
      split at h
      · cases h
      · cases h
      · rename_i l' hne hl'
        injection h with h; subst h
        refine ⟨hne, ?_, ks, rfl, collect_mem _ _ _ _ _ hl'⟩
        cases act <;> simp_all [ActiveRes.trcs]

/-- Composition with C34: whenever a signer is generated, the ISD's latest TRC is valid now;
a grace signer exists only inside the latest TRC's grace period, and then its expiry is at most
the grace-period end `notBefore + grace`. -/
theorem signer_respects_trc_timeline (latest pred : Lookup) (now : Int) (want : Nat) (z : Int)
    (k : KeyIn) (s : SignerOut)
    (h : bestForKey (activeTRCs latest pred now) want z k = .signer s) :
    ∃ L, latest = .found L ∧ (L.notBefore ≤ now ∧ now ≤ L.notAfter) ∧
      s.trcBase = L.base ∧ s.trcSerial = L.serial ∧ s.expiration ≤ s.chain.notAfter ∧
      (s.inGrace = false → s.expiration ≤ L.notAfter) ∧
      (s.inGrace = true → ∃ g, pred = .found g ∧ L.base ≠ L.serial ∧ L.notBefore ≤ now ∧
          now ≤ L.notBefore + L.grace ∧ s.expiration ≤ L.notBefore + L.grace ∧
          s.expiration ≤ g.notAfter) := by
  obtain ⟨_, hch⟩ := signer_choice _ want z k s h
  obtain ⟨he1, he2⟩ := signer_expiry _ want z k s h
  cases hact : activeTRCs latest pred now with
  | dbErr => rw [hact] at hch; simp [ActiveRes.trcs] at hch
  | notFound => rw [hact] at hch; simp [ActiveRes.trcs] at hch
  | inactive => rw [hact] at hch; simp [ActiveRes.trcs] at hch
  | one t =>
    rw [hact] at hch he1 he2
    obtain ⟨L, hL, hv, hor⟩ := C34.provider_active_trc_rule latest pred now t
      (by simp [hact, ActiveRes.trcs])
    have htL : t = L := by
      rcases hor with h1 | ⟨hp, _⟩
      · exact h1
      · -- a single selected TRC is the latest one
        unfold activeTRCs at hact; rw [hL] at hact; simp only at hact
        split at hact
        · cases hact
        · split at hact
          · injection hact with hact; exact hact.symm
          · split at hact <;> cases hact
    subst htL
    rcases hch with ⟨hg, _, _, t', _, hh, hb, hs⟩ | ⟨hg, _, _, _, t', g', he, _⟩
    · simp only [ActiveRes.trcs, List.head?_cons, Option.some.injEq] at hh; subst hh
      obtain ⟨t'', hh'', hexp⟩ := he1 hg
      simp only [ActiveRes.trcs, List.head?_cons, Option.some.injEq] at hh''; subst hh''
      refine ⟨t, hL, hv, hb, hs, by rw [hexp]; exact minT_le_left _ _,
        fun _ => by rw [hexp]; exact minT_le_right _ _, fun hg' => by rw [hg] at hg'; cases hg'⟩
    · cases he
  | two t g =>
    rw [hact] at hch he1 he2
    obtain ⟨L, hL, hv, hor⟩ := C34.provider_active_trc_rule latest pred now g
      (by simp [hact, ActiveRes.trcs])
    have htg : t = L ∧ pred = .found g ∧ L.base ≠ L.serial ∧ L.notBefore ≤ now ∧
        now ≤ L.notBefore + L.grace := by
      unfold activeTRCs at hact; rw [hL] at hact; simp only at hact
      split at hact
      · cases hact
      · split at hact
        · cases hact
        · rename_i hgr
          have hg' := (C34.inGrace_iff L now).1 (by simpa using hgr)
          split at hact
          · cases hact
          · cases hact
          · injection hact with h1 h2; subst h1; subst h2; exact ⟨rfl, rfl, hg'⟩
    obtain ⟨rfl, hp, hgr⟩ := htg
    have hge : t.graceEnd z = t.notBefore + t.grace := by
      unfold TrcInfo.graceEnd TrcInfo.isBase
      have : (t.base == t.serial) = false := by simpa using hgr.1
      simp [this]
    rcases hch with ⟨hg, _, _, t', _, hh, hb, hs⟩ | ⟨hg, _, _, _, t', g', he, hb, hs⟩
    · simp only [ActiveRes.trcs, List.head?_cons, Option.some.injEq] at hh; subst hh
      obtain ⟨t'', hh'', hexp⟩ := he1 hg
      simp only [ActiveRes.trcs, List.head?_cons, Option.some.injEq] at hh''; subst hh''
      refine ⟨t, hL, hv, hb, hs, by rw [hexp]; exact minT_le_left _ _,
        fun _ => by rw [hexp]; exact minT_le_right _ _, fun hg' => by rw [hg] at hg'; cases hg'⟩
    · injection he with e1 e2; subst e1; subst e2
      obtain ⟨t'', g'', he', hexp⟩ := he2 hg
      injection he' with e1 e2; subst e1; subst e2
      have hb3 := expiry_is_earliest_grace s.chain.notAfter (t.graceEnd z) g.notAfter
      simp only at hb3
      rw [← hexp, hge] at hb3
      refine ⟨t, hL, hv, hb, hs, hb3.1, fun hg' => (by rw [hg] at hg'; cases hg'),
        fun _ => ⟨g, hp, hgr.1, hgr.2.1, hgr.2.2, hb3.2.1, hb3.2.2.1⟩⟩

/-- `LastExpiring` returns a signer whose validity covers the request and whose expiry is the
greatest among those that do -/
theorem lastExpiring_spec (signers : List (Int × Int)) (nb na : Int) (r : Int × Int)
    (h : lastExpiring signers nb na = some r) :
    r ∈ signers ∧ (r.1 ≤ nb ∧ na ≤ r.2) ∧
      ∀ s ∈ signers, (s.1 ≤ nb ∧ na ≤ s.2) → s.2 ≤ r.2 := by
  unfold lastExpiring at h
  split at h
  · cases h
  · rename_i c rest hf
    injection h with h; subst h
    obtain ⟨h1, h2, h3⟩ := foldl_lastStep rest c
    have hmemf : ∀ s, s ∈ c :: rest ↔ s ∈ signers ∧ covers s.1 s.2 nb na = true := by
      intro s; rw [← hf]; simp [List.mem_filter]
    have hr : rest.foldl lastStep c ∈ c :: rest := by
      rcases h1 with h1 | h1
      · rw [h1]; simp
      · exact List.mem_cons_of_mem _ h1
    have hr' := (hmemf _).1 hr
    refine ⟨hr'.1, by simpa [covers] using hr'.2, ?_⟩
    intro s hs hcov
    have : s ∈ c :: rest := (hmemf s).2 ⟨hs, by simpa [covers] using hcov⟩
    rcases List.mem_cons.1 this with rfl | hsr
    · exact h2
    · exact h3 s hsr

theorem lastExpiring_none_iff (signers : List (Int × Int)) (nb na : Int) :
    lastExpiring signers nb na = none ↔ ∀ s ∈ signers, ¬ (s.1 ≤ nb ∧ na ≤ s.2) := by
  unfold lastExpiring
  split
  · rename_i hf
    simp only [true_iff]
    intro s hs hc
    have : s ∈ signers.filter (fun s => covers s.1 s.2 nb na) := by
      simp [List.mem_filter, hs, covers, hc.1, hc.2]
    rw [hf] at this; cases this
  · rename_i c rest hf
    simp only [reduceCtorEq, false_iff]
    have : c ∈ signers.filter (fun s => covers s.1 s.2 nb na) := by rw [hf]; simp
    simp only [List.mem_filter, covers, Bool.and_eq_true, decide_eq_true_eq] at this
    exact fun hall => hall c this.1 this.2

/-! ## Verification with a verifier bound to an ISD-AS -/

/-- **`verifies_with_bound_ia`.**  `Verifier.Verify` accepts a signed message iff its header and
key id parse, the key id carries a subject key id, the verifier is unbound or bound to exactly
the ISD-AS named in the key id (which `Signer.Sign` sets to the signer's ISD-AS), that ISD-AS
is not a wildcard, the engine accepts the TRC notification and hands out at least one chain
whose AS key verifies the signature. -/
theorem verifies_with_bound_ia (v : VerifyIn) :
    verifyMsg v = true ↔
      v.hdrOk = true ∧ v.skidEmpty = false ∧ (v.boundIA = 0 ∨ v.boundIA = v.ia) ∧
      isWildcard v.ia = false ∧ v.engineNil = false ∧ v.notifyOk = true ∧
      ∃ cs, v.chains = some cs ∧ true ∈ cs := by
  unfold verifyMsg
  cases v.hdrOk <;> cases v.skidEmpty <;> cases isWildcard v.ia <;> cases v.engineNil <;>
    cases v.notifyOk <;> simp
  all_goals
    by_cases h0 : v.boundIA = 0
    · cases hc : v.chains <;> simp [h0]
    · by_cases h1 : v.boundIA = v.ia
      · cases hc : v.chains <;> simp [h1]
      · cases hc : v.chains <;> simp [h0, h1]

/-- a verifier bound to another ISD-AS never accepts -/
theorem bound_other_ia_rejected (v : VerifyIn) (hb : v.boundIA ≠ 0) (hne : v.boundIA ≠ v.ia) :
    verifyMsg v = false := by
  cases h : verifyMsg v
  · rfl
  · have := (verifies_with_bound_ia v).1 h
    rcases this.2.2.1 with h0 | h1
    · exact absurd h0 hb
    · exact absurd h1 hne

/-! ## Facts regenerated from the source (T3) -/

theorem gen_call_order :
    Gen.Pki2.bestForKeyCalls =
      ["SubjectKeyID", "SelectSignatureAlgorithm", "Chains", "filterChains", "bestChain", "bestChain",
       "minTime", "minTime", "minTime", "GracePeriodEnd"] ∧
    Gen.Pki2.bestChainCalls = ["VerifyChain"] := by
  decide

/-! ## Non-vacuity -/

def exChains : List ChainInfo :=
  [⟨1, -3600, 3600, [1, 2, 8], false, true⟩, ⟨2, -3600, 7200, [1, 2, 8], false, true⟩,
   ⟨3, -3600, 9000, [8], false, false⟩]

def exKey : KeyIn := ⟨true, true, some exChains⟩

def exLatest : TrcInfo := ⟨1, 2, -10, 100000, 60⟩
def exPred : TrcInfo := ⟨1, 1, -100000, 5000, 0⟩

/-- in the grace period, no chain under the latest TRC: chain 2 (latest expiring under the
predecessor) is used and the expiry is the grace-period end -/
example : bestForKey (.two exLatest exPred) 0 (-1000000) exKey =
    .signer ⟨⟨2, -3600, 7200, [1, 2, 8], false, true⟩, 50, true, 1, 2⟩ := by decide

example : bestForKey (.one exLatest) 0 (-1000000) exKey = .skip := by decide

example : bestForKey (.one exLatest) 0 0
    ⟨true, true, some [⟨1, -3600, 3600, [1, 2, 8], true, false⟩, ⟨2, -5, 200000, [8], true, false⟩]⟩ =
    .signer ⟨⟨2, -5, 200000, [8], true, false⟩, 100000, false, 1, 2⟩ := by decide

example : signOk 50 51 = false ∧ signOk 50 50 = true := by decide

end Scion.C36
