import Scion.Model.Select
import Scion.Proofs.Select
import Scion.Gen.Beacon
/-!
# C26 — Beacon selection returns the shortest beacons plus the most diverse one

Property theorems only.  Model: `Scion.Model.Select` (`baseAlgo.SelectBeacons`,
`selectMostDiverse`, `Beacon.Diversity`), tied to `control/beacon/selection_algo.go` by
`harness/cmd/bselect` (real `DefaultSelectionAlgorithm().SelectBeacons` on random candidate lists).

All theorems hold for *every* candidate list (ordered by length or not) and every `k`.
-/
namespace Scion.C26
open Scion.Select

/-- the selection never panics (for `k = 1 < n` this is the repair 8fabcd5; the revert makes the
model return `none` there and this theorem fails) -/
theorem select_total (k : Int) (bs : List Beacon) : ∃ r, select k bs = some r := by
  unfold select
  split
  · exact ⟨_, rfl⟩
  · split
    · exact ⟨_, rfl⟩
    · rename_i h1 h2
      unfold selectMain
      have hk : 1 ≤ (k - 1).toNat := by omega
      have hlt : (k - 1).toNat < bs.length := by omega
      generalize (k - 1).toNat = k1 at hk hlt
      cases htake : bs.take k1 with
      | nil =>
        have := congrArg List.length htake
        rw [List.length_take, List.length_nil] at this
        omega
      | cons r0 rs =>
        cases hdrop : bs.drop k1 with
        | nil =>
          have := congrArg List.length hdrop
          rw [List.length_drop, List.length_nil] at this
          omega
        | cons nx rest' =>
          dsimp only
          split <;> exact ⟨_, rfl⟩

/-- `n ≤ k`: all candidates are returned, in their order -/
theorem select_all (k : Int) (bs : List Beacon) (h : (bs.length : Int) ≤ k) :
    select k bs = some bs := by
  unfold select
  rw [if_pos h]

/-- The statement's rule for the last element: `x` is chosen from `rest` given the `k-1` first
ones `firsts`, with reference beacon `best` (the first candidate). -/
def IsChoice (best : Beacon) (firsts rest : List Beacon) (x : Beacon) : Prop :=
  ((∃ r ∈ rest, ∀ f ∈ firsts, diversity best r > diversity best f) →
      -- most diverse of the rest; among equally diverse the shortest; among those the first
      ∃ pre post, rest = pre ++ x :: post ∧
        (∀ p ∈ pre, Better best x p) ∧ (∀ q ∈ post, ¬ Better best q x)) ∧
  ((¬ ∃ r ∈ rest, ∀ f ∈ firsts, diversity best r > diversity best f) →
      rest.head? = some x)

/-- what `IsChoice`'s first branch means in the words of the statement -/
theorem choice_is_most_diverse_shortest (best x : Beacon) (pre post : List Beacon)
    (hpre : ∀ p ∈ pre, Better best x p) (hpost : ∀ q ∈ post, ¬ Better best q x) :
    ∀ r ∈ pre ++ x :: post,
      diversity best r ≤ diversity best x ∧ (diversity best r = diversity best x → x.len ≤ r.len) := by
  intro r hr
  rcases List.mem_append.1 hr with hp | hq
  · have := hpre r hp
    unfold Better at this
    omega
  · rcases List.mem_cons.1 hq with rfl | hq
    · omega
    · have := hpost r hq
      unfold Better at this
      omega

/-- `2 ≤ k < n`: the result is the `k-1` first candidates followed by exactly one further
candidate chosen by the statement's rule. -/
theorem select_shape (k : Nat) (hk : 2 ≤ k) (bs : List Beacon) (hn : k < bs.length) :
    ∃ b0 x, bs.head? = some b0 ∧
      select (k : Int) bs = some (bs.take (k - 1) ++ [x]) ∧
      IsChoice b0 (bs.take (k - 1)) (bs.drop (k - 1)) x := by
  unfold select
  have h1 : ¬ ((bs.length : Int) ≤ (k : Int)) := by omega
  have h2 : ¬ ((k : Int) ≤ 1) := by omega
  rw [if_neg h1, if_neg h2]
  have hk1 : ((k : Int) - 1).toNat = k - 1 := by omega
  rw [hk1]
  unfold selectMain
  have hk' : 1 ≤ k - 1 := by omega
  have hlt : k - 1 < bs.length := by omega
  generalize k - 1 = k1 at hk' hlt
  cases htake : bs.take k1 with
  | nil =>
    have := congrArg List.length htake
    rw [List.length_take, List.length_nil] at this
    omega
  | cons r0 rs =>
    cases hdrop : bs.drop k1 with
    | nil =>
      have := congrArg List.length hdrop
      rw [List.length_drop, List.length_nil] at this
      omega
    | cons nx rest' =>
      have hhead : bs.head? = some r0 := by
        cases bs with
        | nil => simp at hlt
        | cons b bs' =>
          cases k1 with
          | zero => omega
          | succ m => simp at htake; simp [htake.1]
      obtain ⟨pre1, x1, post1, hs1, he1, hpre1, hpost1⟩ :=
        selectMostDiverse_spec r0 (r0 :: rs) (by simp)
      obtain ⟨pre2, x2, post2, hs2, he2, hpre2, hpost2⟩ :=
        selectMostDiverse_spec r0 (nx :: rest') (by simp)
      have hmax1 := choice_is_most_diverse_shortest r0 x1 pre1 post1 hpre1 hpost1
      have hmax2 := choice_is_most_diverse_shortest r0 x2 pre2 post2 hpre2 hpost2
      rw [← hs1] at hmax1
      rw [← hs2] at hmax2
      have hx1 : x1 ∈ r0 :: rs := by rw [hs1]; simp
      have hx2 : x2 ∈ nx :: rest' := by rw [hs2]; simp
      dsimp only
      rw [he1, he2]
      dsimp only
      by_cases hgt : (diversity r0 x2 : Int) > (diversity r0 x1 : Int)
      · rw [if_pos hgt]
        refine ⟨r0, x2, hhead, rfl, ?_, ?_⟩
        · intro _
          exact ⟨pre2, post2, hs2, hpre2, hpost2⟩
        · intro hno
          exfalso
          apply hno
          refine ⟨x2, hx2, ?_⟩
          intro f hf
          have := (hmax1 f hf).1
          omega
      · rw [if_neg hgt]
        refine ⟨r0, nx, hhead, rfl, ?_, ?_⟩
        · intro ⟨r, hr, hall⟩
          exfalso
          have := hall x1 hx1
          have := (hmax2 r hr).1
          omega
        · intro _
          rfl

/-- `k = 1 < n`: exactly the first candidate (DESIGN §7a: only "one candidate from the list,
no panic" is demanded of the code) -/
theorem select_one (bs : List Beacon) (hn : 1 < bs.length) :
    select 1 bs = some (bs.take 1) := by
  unfold select
  have h1 : ¬ ((bs.length : Int) ≤ 1) := by omega
  rw [if_neg h1]
  rfl

/-- every result is a sub-list of the candidates (hence `result ⊆ bs`, order preserved, no
candidate invented or duplicated) -/
theorem select_sublist (k : Int) (bs r : List Beacon) (h : select k bs = some r) :
    r.Sublist bs := by
  unfold select at h
  split at h
  · cases h; exact List.Sublist.refl _
  · split at h
    · cases h; exact List.take_sublist _ _
    · rename_i h1 h2
      have hk : 2 ≤ k.toNat := by omega
      have hn : k.toNat < bs.length := by omega
      obtain ⟨b0, x, _, hsel, hch⟩ := select_shape k.toNat hk bs hn
      have hkk : ((k.toNat : Nat) : Int) = k := by omega
      rw [hkk] at hsel
      unfold select at hsel
      rw [if_neg h1, if_neg h2] at hsel
      rw [hsel] at h
      cases h
      have hx : x ∈ bs.drop (k.toNat - 1) := by
        by_cases hc : ∃ r ∈ bs.drop (k.toNat - 1), ∀ f ∈ bs.take (k.toNat - 1), diversity b0 r > diversity b0 f
        · obtain ⟨pre, post, hs, _, _⟩ := hch.1 hc
          rw [hs]; simp
        · have := hch.2 hc
          exact List.mem_of_mem_head? this
      have hsub : [x].Sublist (bs.drop (k.toNat - 1)) := List.singleton_sublist.2 hx
      have := List.Sublist.append (List.Sublist.refl (bs.take (k.toNat - 1))) hsub
      rwa [List.take_append_drop] at this

/-- exactly `min k n` candidates are returned (`0` for `k ≤ 0`) -/
theorem select_length (k : Int) (bs r : List Beacon) (h : select k bs = some r) :
    (r.length : Int) = min (max k 0) bs.length := by
  unfold select at h
  split at h
  · cases h; omega
  · split at h
    · cases h
      simp only [List.length_take]
      omega
    · rename_i h1 h2
      have hk : 2 ≤ k.toNat := by omega
      have hn : k.toNat < bs.length := by omega
      obtain ⟨b0, x, _, hsel, _⟩ := select_shape k.toNat hk bs hn
      have hkk : ((k.toNat : Nat) : Int) = k := by omega
      rw [hkk] at hsel
      unfold select at hsel
      rw [if_neg h1, if_neg h2] at hsel
      rw [hsel] at h
      cases h
      simp only [List.length_append, List.length_take, List.length_singleton]
      omega

/-- regenerated facts: with the default policy (`BestSetSize` 20 of up to `CandidateSetSize` 100
candidates) the selection runs in the `2 ≤ k` regime of `select_shape`, and the initial `minLen`
of `selectMostDiverse` is `math.MaxUint16` -/
theorem gen_consts :
    2 ≤ Scion.Gen.Beacon.DefaultBestSetSize ∧
    Scion.Gen.Beacon.DefaultBestSetSize ≤ Scion.Gen.Beacon.DefaultCandidateSetSize ∧
    maxUint16 = 2 ^ 16 - 1 := by decide

/-! ### non-vacuity -/

/-- three candidates, `k = 2`: the third shares no link with the first, the second shares one —
the most diverse one (id 3) is chosen instead of the shorter second. -/
example : select 2 [⟨1, [(1, 1), (2, 1)]⟩, ⟨2, [(1, 1), (3, 2)]⟩, ⟨3, [(4, 1), (5, 2), (6, 1)]⟩]
    = some [⟨1, [(1, 1), (2, 1)]⟩, ⟨3, [(4, 1), (5, 2), (6, 1)]⟩] := by decide

/-- equal diversity everywhere: fall back to the first remaining candidate -/
example : select 2 [⟨1, [(1, 1)]⟩, ⟨2, [(1, 1), (3, 2)]⟩, ⟨3, [(1, 1), (5, 2), (6, 1)]⟩]
    = some [⟨1, [(1, 1)]⟩, ⟨2, [(1, 1), (3, 2)]⟩] := by decide

example : ∃ bs : List Beacon, 2 < bs.length ∧
    (∃ r ∈ bs.drop 1, ∀ f ∈ bs.take 1, diversity ⟨1, [(1, 1), (2, 1)]⟩ r > diversity ⟨1, [(1, 1), (2, 1)]⟩ f) :=
  ⟨[⟨1, [(1, 1), (2, 1)]⟩, ⟨2, [(1, 1), (3, 2)]⟩, ⟨3, [(4, 1), (5, 2), (6, 1)]⟩], by decide, by decide⟩

end Scion.C26
