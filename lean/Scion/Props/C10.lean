import Scion.Model.Net
import Scion.Proofs.Net
/-!
# C10 — SCMP replies and traceroute answers travel back to the sender

`scmpPrepare` is the path part of `prepareSCMP` (tied by the `scmp` lines of engine `net`: every
slow-path answer of the real routers is rebuilt by the model).
-/
namespace Scion.C10
open Scion.Net

/-- what a router that stopped a packet sends back, and where: the reply path and the link it
    leaves on (the link the packet came in on) -/
def replyOf (o : Out) (arr : Arrival) : Option Cursor :=
  match o with
  | .slow _ _ _ c => scmpPrepare c (arr.ifid != 0)
  | .alert _ _ c => scmpPrepare c (arr.ifid != 0)
  | _ => none

/-- continue a run with the reply of the router that stopped the packet -/
def followReply (mac : MacFn) (net : Net) (now src : Nat) (a r : Nat) (arr : Arrival) (rc : Cursor) :
    Result :=
  match arr with
  | .host => .delivered a [] rc
  | .sibling k => run mac net now a src (fuelFor rc) a k (.sibling r) rc []
  | .ext i =>
    match (net a).iface i with
    | some f =>
      match (net f.nbr).iface f.nbrIf with
      | some g => run mac net now a src (fuelFor rc) f.nbr g.owner (.ext f.nbrIf) rc [(a, i), (f.nbr, f.nbrIf)]
      | none => .lost []
    | none => .lost []

/-- **C10 at full strength**: on a path as in C02, with any one interface down or unknown, any
    one later hop expired or carrying a wrong MAC, or a router-alert flag on any hop: whenever a
    router stops the packet and answers, the answer is delivered in the source AS. -/
def C10_full : Prop :=
  ∀ (mac : MacFn) (net net' : Net) (now : Nat) (edges : List Edge) (src dst : Nat) (c c' : Cursor)
    (a r : Nat) (arr : Arrival) (o : Out) (tr : List (Nat × Nat)) (rc : Cursor),
    WFNet net → AllUp net → Joinable mac net edges src dst → pathOf edges = some c →
    Unexpired now c →
    -- the fault: the network differs from `net` at most in interfaces being down or unknown, the
    -- packet differs from `c` at most in alert flags, expiry values or MACs of hop fields
    send mac net' now src dst c' = .stopped a r arr o tr → replyOf o arr = some rc →
    ∃ trr cr, followReply mac net' now src a r arr rc = .delivered src trr cr

/-- the reply keeps the SegID unless it leaves over an external link in construction direction,
    and it is built on the mirrored path: its current hop is the stopping router's hop or, after
    undoing a cross-over / moving on, a neighbouring one -/
theorem scmp_internal_is_reverse (c : Cursor) (p : Bool)
    (hp : determinePeer (reverseCursor c) = some p)
    (hx : ((reverseCursor c).isXover && !p) = false) :
    scmpPrepare c false = some (reverseCursor c) := by
  simp [scmpPrepare, hp, hx]

end Scion.C10
