import Scion.Model.Net
import Scion.Proofs.Net
import Scion.Proofs.NetScmp
import Scion.Proofs.NetScmp2
import Scion.Proofs.NetScmpPeer
import Scion.Proofs.NetScmpPeer2
import Scion.Proofs.NetAlert
import Scion.Proofs.NetMulti10
/-!
# C10 — SCMP replies and traceroute answers travel back to the sender

`scmpPrepare` is the path part of `prepareSCMP` (tied by the `scmp` lines of engine `net`: every
slow-path answer of the real routers is rebuilt by the model).
-/
namespace Scion.C10
open Scion.Net

/-- **C10 at full strength**: on a path as in C02, with any one interface down or unknown, any
    one later hop expired or carrying a wrong MAC, or a router-alert flag on any hop: whenever a
    router stops the packet and answers, the answer is delivered in the source AS. -/
def C10_full : Prop :=
  ∀ (mac : MacFn) (net net' : Net) (now : Nat) (edges : List Edge) (src dst : Nat) (c c' : Cursor)
    (a r : Nat) (arr : Arrival) (o : Out) (tr : List (Nat × Nat)) (rc : Cursor),
    WFNet net → AllUp net → Joinable mac net edges src dst → pathOf edges = some c →
    Unexpired now c →
    -- the fault: the network differs from `net` at most in interfaces being down or unknown, the
    -- packet differs from `c` at most in alert flags, expiry values or MACs of hop fields
    send mac net' now src dst c' = .stopped a r arr o tr → replyOf o arr = some rc →
    ∃ trr cr, followReply mac net' now src a r arr rc = .delivered src trr cr

/-- the reply keeps the SegID unless it leaves over an external link in construction direction,
    and it is built on the mirrored path: its current hop is the stopping router's hop or, after
    undoing a cross-over / moving on, a neighbouring one -/
theorem scmp_internal_is_reverse (c : Cursor) (p : Bool)
    (hp : determinePeer (reverseCursor c) = some p)
    (hx : ((reverseCursor c).isXover && !p) = false) :
    scmpPrepare c false = some (reverseCursor c) := by
  simp [scmpPrepare, hp, hx]

/-- **C10, expired later hop on a segment traversed against construction direction** (up or core
    segment; one border router per AS; single-segment path — hence `_partial`).
    Forwarding order of the segment part used: `top` (source AS), `r1`, `ej`, `r2`, `x`.  The two
    chain hypotheses are the two readings of the invariant every registered segment satisfies
    (`Scion.C02.registered_is_chain`, `chain_to_up`): `hcU` from the far end, `hcD` from `ej` on,
    `hβ` says they talk about the same accumulators.  If the hop field of `ej` carried by the
    packet has expired, the packet is stopped exactly by the AS of `ej` with SCMP 4/52, and the
    reply the slow path builds (`replyOf` = `prepareSCMP`) is delivered in the source AS.
    This is the situation of the repaired defect "SCMP replies for expired-hop errors on a segment
    traversed against construction direction were dropped by the next AS": the proof needs the
    packet handed to the slow path to carry the SegID *after* the ingress update (`expired_step`). -/
theorem scmp_reply_delivered_partial (mac : MacFn) (net : Net) (now src dst : Nat) (core : Bool)
    (ts : Nat) (hWF : WFNet net) (hUp : AllUp net) (hSR : SingleRouter net)
    (bU βj : Nat) (top : ASE) (r1 : List ASE) (ej : ASE) (r2 : List ASE) (x : ASE) (exp' : Nat)
    (hcU : ChainUp mac net core ts bU (top :: (r1 ++ ej :: (r2 ++ [x]))))
    (hcD : Chain mac net core ts βj (ej :: (r1.reverse ++ [top])))
    (hβ : Scion.SegID.updateSegID (Scion.SegID.extractBeta
            (Scion.SegID.updateSegID bU (pfx top.hop.mac)) (sig r1)) (pfx ej.hop.mac) = βj)
    (hsrc : src = top.ia) (hdst : dst = x.ia)
    (hnd : ((top :: (r1 ++ ej :: (r2 ++ [x]))).map (·.ia)).Nodup)
    (hexpU : ∀ e ∈ top :: r1, expired now ts e.hop.exp = false)
    (hexp' : expired now ts exp' = true) (fuel : Nat) :
    ∃ tr c1 rc trr cr,
      run mac net now src dst (fuel + 2 + r1.length) src 0 .host
        ⟨[], ⟨false, false, Scion.SegID.updateSegID bU (pfx top.hop.mac), ts⟩, [], hopOf top.hop,
          (r1.map fun e => hopOf e.hop) ++ { hopOf ej.hop with exp := exp' } ::
            ((r2 ++ [x]).map fun e => hopOf e.hop), []⟩ [] =
        .stopped ej.ia 0 (.ext ej.hop.cEg) (.slow 4 52 0 c1) tr ∧
      replyOf (.slow 4 52 0 c1) (.ext ej.hop.cEg) = some rc ∧
      followReply mac net now src ej.ia 0 (.ext ej.hop.cEg) rc = .delivered src trr cr :=
  up_expired_reply_run mac net now src dst core ts hWF hUp hSR bU βj top r1 ej r2 x exp' hcU hcD hβ
    hsrc hdst hnd hexpU hexp' fuel

/-- **C10, SCMP errors of the ingress stage on single-segment paths, either direction, any
    position** (one border router per AS — hence `_partial`).  The segment part used is described
    by `FL` (forwarding order `e0`, `m1`, `ek`, …) as every registered edge is (`edge_spec`); `h'`
    is the hop field the packet carries for the AS of `ek`.  Whenever that AS answers with an
    SCMP error built on the packet as updated at ingress, the reply — reversed path, SegID
    re-adjusted when the reversed segment runs in construction direction, pointer moved to the previous
    AS — is accepted by every AS on the way back and delivered in the source AS. -/
theorem scmp_error_reply_delivered_partial (mac : MacFn) (net : Net) (now src dst : Nat)
    (core cd : Bool) (ts : Nat) (hUp : AllUp net) (hSR : SingleRouter net)
    (seg0 : Nat) (e0 : ASE) (m1 : List ASE) (ek : ASE) (h' : Hop) (t k : Nat) (tlh : List Hop)
    (hFL : FL mac net core cd ts seg0 (e0 :: (m1 ++ [ek])))
    (hsrc : src = e0.ia) (hsd : src ≠ dst)
    (hnd : ((e0 :: (m1 ++ [ek])).map (·.ia)).Nodup)
    (hmidd : ∀ e ∈ m1, e.ia ≠ dst)
    (hexpU : ∀ e ∈ e0 :: m1, expired now ts e.hop.exp = false)
    (hstop : routerStep mac (cfgOf net ek.ia) now (.ext (inF cd ek)) (ek.ia == src) (ek.ia == dst)
        ⟨[], ⟨cd, false, Scion.SegID.extractBeta (Scion.SegID.updateSegID seg0 (pfx e0.hop.mac)) (sig m1), ts⟩,
          hopOf e0.hop :: m1.map (fun e => hopOf e.hop), h', tlh, []⟩ =
      .slow t k 0 ⟨[], ⟨cd, false, usedSeg cd (Scion.SegID.extractBeta
            (Scion.SegID.updateSegID seg0 (pfx e0.hop.mac)) (sig m1)) h', ts⟩,
          hopOf e0.hop :: m1.map (fun e => hopOf e.hop), h', tlh, []⟩) (fuel : Nat) :
    ∃ tr c1 rc trr cr,
      run mac net now src dst (fuel + 2 + m1.length) src 0 .host
        ⟨[], ⟨cd, false, usedAt cd seg0 e0, ts⟩, [], hopOf e0.hop,
          (m1.map fun e => hopOf e.hop) ++ h' :: tlh, []⟩ [] =
        .stopped ek.ia 0 (.ext (inF cd ek)) (.slow t k 0 c1) tr ∧
      replyOf (.slow t k 0 c1) (.ext (inF cd ek)) = some rc ∧
      followReply mac net now src ek.ia 0 (.ext (inF cd ek)) rc = .delivered src trr cr :=
  slow_reply_run mac net now src dst core cd ts hUp hSR seg0 e0 m1 ek h' t k tlh hFL hsrc hsd hnd hmidd
    hexpU hstop fuel

/-- instance: an expired hop field (the hypothesis `hstop` is discharged by `expired_step`) -/
theorem scmp_expired_reply_delivered_partial (mac : MacFn) (net : Net) (now src dst : Nat)
    (core cd : Bool) (ts : Nat) (hUp : AllUp net) (hSR : SingleRouter net)
    (seg0 : Nat) (e0 : ASE) (m1 : List ASE) (ek : ASE) (exp' : Nat) (tlh : List Hop)
    (hFL : FL mac net core cd ts seg0 (e0 :: (m1 ++ [ek])))
    (hsrc : src = e0.ia) (hsd : src ≠ dst)
    (hnd : ((e0 :: (m1 ++ [ek])).map (·.ia)).Nodup)
    (hmidd : ∀ e ∈ m1, e.ia ≠ dst)
    (hexpU : ∀ e ∈ e0 :: m1, expired now ts e.hop.exp = false)
    (hexp' : expired now ts exp' = true) (fuel : Nat) :
    ∃ tr c1 rc trr cr,
      run mac net now src dst (fuel + 2 + m1.length) src 0 .host
        ⟨[], ⟨cd, false, usedAt cd seg0 e0, ts⟩, [], hopOf e0.hop,
          (m1.map fun e => hopOf e.hop) ++ { hopOf ek.hop with exp := exp' } :: tlh, []⟩ [] =
        .stopped ek.ia 0 (.ext (inF cd ek)) (.slow 4 52 0 c1) tr ∧
      replyOf (.slow 4 52 0 c1) (.ext (inF cd ek)) = some rc ∧
      followReply mac net now src ek.ia 0 (.ext (inF cd ek)) rc = .delivered src trr cr :=
  expired_reply_run mac net now src dst core cd ts hUp hSR seg0 e0 m1 ek exp' tlh hFL hsrc hsd hnd hmidd
    hexpU hexp' fuel

/-- instance: a hop field whose MAC no longer verifies (`badmac_step`) -/
theorem scmp_badmac_reply_delivered_partial (mac : MacFn) (net : Net) (now src dst : Nat)
    (core cd : Bool) (ts : Nat) (hUp : AllUp net) (hSR : SingleRouter net)
    (seg0 : Nat) (e0 : ASE) (m1 : List ASE) (ek : ASE) (mac' : Nat) (tlh : List Hop)
    (hFL : FL mac net core cd ts seg0 (e0 :: (m1 ++ [ek])))
    (hsrc : src = e0.ia) (hsd : src ≠ dst)
    (hnd : ((e0 :: (m1 ++ [ek])).map (·.ia)).Nodup)
    (hmidd : ∀ e ∈ m1, e.ia ≠ dst)
    (hexpU : ∀ e ∈ e0 :: (m1 ++ [ek]), expired now ts e.hop.exp = false)
    (hdl : tlh.isEmpty = (ek.ia == dst))
    (hbad : macOk mac (net ek.ia).key
      ⟨cd, false, usedSeg cd (Scion.SegID.extractBeta (Scion.SegID.updateSegID seg0 (pfx e0.hop.mac)) (sig m1))
        { hopOf ek.hop with mac := mac' }, ts⟩ { hopOf ek.hop with mac := mac' } = false)
    (fuel : Nat) :
    ∃ tr c1 rc trr cr,
      run mac net now src dst (fuel + 2 + m1.length) src 0 .host
        ⟨[], ⟨cd, false, usedAt cd seg0 e0, ts⟩, [], hopOf e0.hop,
          (m1.map fun e => hopOf e.hop) ++ { hopOf ek.hop with mac := mac' } :: tlh, []⟩ [] =
        .stopped ek.ia 0 (.ext (inF cd ek)) (.slow 4 51 0 c1) tr ∧
      replyOf (.slow 4 51 0 c1) (.ext (inF cd ek)) = some rc ∧
      followReply mac net now src ek.ia 0 (.ext (inF cd ek)) rc = .delivered src trr cr :=
  badmac_reply_run mac net now src dst core cd ts hUp hSR seg0 e0 m1 ek mac' tlh hFL hsrc hsd hnd hmidd
    hexpU hdl hbad fuel

/-- **SCMP 4/51 and 4/52 with several border routers per AS, router level** (no restriction on the
    path): "bad MAC" and "expired hop" are decided by the ingress stage or at the cross-over, never
    by the egress stage, so the router that receives the packet from outside (the owner of the
    ingress interface) answers exactly as the single router of the collapsed AS would — whichever
    router owns the egress interface.  `collapse net` is `net` with all interfaces on router 0. -/
theorem scmp_mac_exp_decided_at_ingress_router (mac : MacFn) (net : Net) (now a r : Nat) (arr : Arrival)
    (sl dl : Bool) (c : Cursor) (k e : Nat) (c1 : Cursor) (harr : ∀ k', arr ≠ .sibling k')
    (hk : k = 51 ∨ k = 52)
    (h : routerStep mac (cfgOf (collapse net) a) now arr sl dl c = .slow 4 k e c1) :
    routerStep mac (cfgR net a r) now arr sl dl c = .slow 4 k e c1 :=
  step_sim_stopped mac net now a r arr sl dl c k e c1 harr hk h

/-- **C10, expired hop, ANY number of border routers per AS** (`_partial` only because the path is
    a single segment — up, core or down, whole or shortcut, either direction, any position after
    the source).  `send` hands the packet to the router owning the first egress interface; every
    AS may cross it through two routers; the AS of `ek` stops it at the router `r` owning the
    ingress interface with SCMP 4/52; the reply built by `prepareSCMP` is delivered in the source
    AS, again through ASes with several routers.  Proof: `scmp_expired_reply_delivered_partial`
    in the collapsed network, transferred by `run_sim_slow` / `send_sim_slow` (way there) and
    `followReply_sim` (way back). -/
theorem scmp_expired_reply_delivered_any_routers_partial (mac : MacFn) (net : Net) (now src dst : Nat)
    (core cd : Bool) (ts : Nat) (hWF : WFNet net) (hUp : AllUp net)
    (seg0 : Nat) (e0 : ASE) (m1 : List ASE) (ek : ASE) (exp' : Nat) (tlh : List Hop)
    (hFL : FL mac net core cd ts seg0 (e0 :: (m1 ++ [ek])))
    (hsrc : src = e0.ia) (hsd : src ≠ dst)
    (hnd : ((e0 :: (m1 ++ [ek])).map (·.ia)).Nodup)
    (hmidd : ∀ e ∈ m1, e.ia ≠ dst)
    (hexpU : ∀ e ∈ e0 :: m1, expired now ts e.hop.exp = false)
    (hexp' : expired now ts exp' = true) :
    ∃ r tr c1 rc trr cr,
      send mac net now src dst
        ⟨[], ⟨cd, false, usedAt cd seg0 e0, ts⟩, [], hopOf e0.hop,
          (m1.map fun e => hopOf e.hop) ++ { hopOf ek.hop with exp := exp' } :: tlh, []⟩ =
        .stopped ek.ia r (.ext (inF cd ek)) (.slow 4 52 0 c1) tr ∧
      replyOf (.slow 4 52 0 c1) (.ext (inF cd ek)) = some rc ∧
      followReply mac net now src ek.ia r (.ext (inF cd ek)) rc = .delivered src trr cr :=
  expired_reply_run_multi mac net now src dst core cd ts hWF hUp seg0 e0 m1 ek exp' tlh hFL hsrc hsd hnd
    hmidd hexpU hexp'

/-- **C10, hop field with a wrong MAC, ANY number of border routers per AS** (single-segment
    paths, any position; SCMP 4/51) -/
theorem scmp_badmac_reply_delivered_any_routers_partial (mac : MacFn) (net : Net) (now src dst : Nat)
    (core cd : Bool) (ts : Nat) (hWF : WFNet net) (hUp : AllUp net)
    (seg0 : Nat) (e0 : ASE) (m1 : List ASE) (ek : ASE) (mac' : Nat) (tlh : List Hop)
    (hFL : FL mac net core cd ts seg0 (e0 :: (m1 ++ [ek])))
    (hsrc : src = e0.ia) (hsd : src ≠ dst)
    (hnd : ((e0 :: (m1 ++ [ek])).map (·.ia)).Nodup)
    (hmidd : ∀ e ∈ m1, e.ia ≠ dst)
    (hexpU : ∀ e ∈ e0 :: (m1 ++ [ek]), expired now ts e.hop.exp = false)
    (hdl : tlh.isEmpty = (ek.ia == dst))
    (hbad : macOk mac (net ek.ia).key
      ⟨cd, false, usedSeg cd (Scion.SegID.extractBeta (Scion.SegID.updateSegID seg0 (pfx e0.hop.mac)) (sig m1))
        { hopOf ek.hop with mac := mac' }, ts⟩ { hopOf ek.hop with mac := mac' } = false) :
    ∃ r tr c1 rc trr cr,
      send mac net now src dst
        ⟨[], ⟨cd, false, usedAt cd seg0 e0, ts⟩, [], hopOf e0.hop,
          (m1.map fun e => hopOf e.hop) ++ { hopOf ek.hop with mac := mac' } :: tlh, []⟩ =
        .stopped ek.ia r (.ext (inF cd ek)) (.slow 4 51 0 c1) tr ∧
      replyOf (.slow 4 51 0 c1) (.ext (inF cd ek)) = some rc ∧
      followReply mac net now src ek.ia r (.ext (inF cd ek)) rc = .delivered src trr cr :=
  badmac_reply_run_multi mac net now src dst core cd ts hWF hUp seg0 e0 m1 ek mac' tlh hFL hsrc hsd hnd
    hmidd hexpU hdl hbad

/-- a stopped packet is only ever answered by the AS that stopped it, over the link it came in on:
    `followReply` starts at the neighbour on that link (definitional, recorded for the reader) -/
theorem reply_leaves_on_ingress_link (mac : MacFn) (net : Net) (now src a r i : Nat) (rc : Cursor)
    (f g : Iface) (hf : (net a).iface i = some f) (hg : (net f.nbr).iface f.nbrIf = some g) :
    followReply mac net now src a r (.ext i) rc =
      run mac net now a src (fuelFor rc) f.nbr g.owner (.ext f.nbrIf) rc [(a, i), (f.nbr, f.nbrIf)] := by
  simp [followReply, hf, hg]

/-- **Peering paths, intermediate AS of the up segment.**  On a Peer-flagged segment only the hop
    next to the peering link is a *peering hop*; an AS further from the peering link (neither source nor peering AS)
    that answers a packet received over an external link must still XOR its hop MAC into the SegID
    of the reversed (now construction-direction) segment before sending the answer back: the guard
    is `determinePeer` of the current hop, not the segment-wide `Peer` flag.  (A seeded change that
    used `infoField.Peer` instead is caught by the tie on exactly this shape: the engine's fixed
    peering world produces up segments of 3 hops in every run.) -/
theorem scmp_peer_segment_intermediate (seg ts : Nat) (done : List Hop) (h t0 : Hop)
    (todo : List Hop) (sD : Seg) :
    scmpPrepare ⟨[], ⟨false, true, seg, ts⟩, done, h, t0 :: todo, [sD]⟩ true =
      (⟨[revSeg sD], ⟨true, true, Scion.SegID.updateSegID seg (pfx h.mac), ts⟩,
        (t0 :: todo).reverse, h, done.reverse, []⟩ : Cursor).incPath := by
  simp [scmpPrepare, reverseCursor, determinePeer, flipInfo, Cursor.isXover, egUpd]

/-- **C10 on peering paths, SCMP errors of the ingress stage at an AS of the first segment other
    than the peering AS** (one border router per AS — hence `_partial`).  The first segment carries
    the Peer flag; forwarding order `e0` (source), `m1`, `ek`; at least one more hop field (`t0`,
    at the latest the peering hop) follows; `sD` is the second segment.  The reply is built with
    the SegID re-adjusted under the guard `determinePeer` (see
    `scmp_peer_segment_intermediate`), is accepted by every AS on the way back — which now runs on
    the *second* segment of the reversed path, behind `revSeg sD` — and is delivered in the source
    AS.  Either direction `cd` (the way there of a peering path has `cd = false`; a reversed
    peering path, as replies use it, `cd = true`). -/
theorem scmp_peer_error_reply_delivered_partial (mac : MacFn) (net : Net) (now src dst : Nat)
    (core cd : Bool) (ts : Nat) (hUp : AllUp net) (hSR : SingleRouter net)
    (seg0 : Nat) (e0 : ASE) (m1 : List ASE) (ek : ASE) (h' : Hop) (t k : Nat) (t0 : Hop)
    (tlh : List Hop) (sD : Seg)
    (hFL : FL mac net core cd ts seg0 (e0 :: (m1 ++ [ek])))
    (hsrc : src = e0.ia) (hsd : src ≠ dst)
    (hnd : ((e0 :: (m1 ++ [ek])).map (·.ia)).Nodup)
    (hmidd : ∀ e ∈ m1, e.ia ≠ dst)
    (hexpU : ∀ e ∈ e0 :: m1, expired now ts e.hop.exp = false)
    (hstop : routerStep mac (cfgOf net ek.ia) now (.ext (inF cd ek)) (ek.ia == src) (ek.ia == dst)
        ⟨[], ⟨cd, true, Scion.SegID.extractBeta (Scion.SegID.updateSegID seg0 (pfx e0.hop.mac)) (sig m1), ts⟩,
          hopOf e0.hop :: m1.map (fun e => hopOf e.hop), h', t0 :: tlh, [sD]⟩ =
      .slow t k 0 ⟨[], ⟨cd, true, usedSeg cd (Scion.SegID.extractBeta
            (Scion.SegID.updateSegID seg0 (pfx e0.hop.mac)) (sig m1)) h', ts⟩,
          hopOf e0.hop :: m1.map (fun e => hopOf e.hop), h', t0 :: tlh, [sD]⟩) (fuel : Nat) :
    ∃ tr c1 rc trr cr,
      run mac net now src dst (fuel + 2 + m1.length) src 0 .host
        ⟨[], ⟨cd, true, usedAt cd seg0 e0, ts⟩, [], hopOf e0.hop,
          (m1.map fun e => hopOf e.hop) ++ h' :: t0 :: tlh, [sD]⟩ [] =
        .stopped ek.ia 0 (.ext (inF cd ek)) (.slow t k 0 c1) tr ∧
      replyOf (.slow t k 0 c1) (.ext (inF cd ek)) = some rc ∧
      followReply mac net now src ek.ia 0 (.ext (inF cd ek)) rc = .delivered src trr cr :=
  peer_slow_reply_run mac net now src dst core cd ts hUp hSR seg0 e0 m1 ek h' t k t0 tlh sD hFL hsrc hsd
    hnd hmidd hexpU hstop fuel

/-- instance: an expired hop field at such an AS (`expired_step_pr` discharges `hstop`) — the
    shape of `seeded/mut1-C10` -/
theorem scmp_peer_expired_reply_delivered_partial (mac : MacFn) (net : Net) (now src dst : Nat)
    (core cd : Bool) (ts : Nat) (hUp : AllUp net) (hSR : SingleRouter net)
    (seg0 : Nat) (e0 : ASE) (m1 : List ASE) (ek : ASE) (exp' : Nat) (t0 : Hop)
    (tlh : List Hop) (sD : Seg)
    (hFL : FL mac net core cd ts seg0 (e0 :: (m1 ++ [ek])))
    (hsrc : src = e0.ia) (hsd : src ≠ dst)
    (hnd : ((e0 :: (m1 ++ [ek])).map (·.ia)).Nodup)
    (hmidd : ∀ e ∈ m1, e.ia ≠ dst)
    (hexpU : ∀ e ∈ e0 :: m1, expired now ts e.hop.exp = false)
    (hexp' : expired now ts exp' = true) (fuel : Nat) :
    ∃ tr c1 rc trr cr,
      run mac net now src dst (fuel + 2 + m1.length) src 0 .host
        ⟨[], ⟨cd, true, usedAt cd seg0 e0, ts⟩, [], hopOf e0.hop,
          (m1.map fun e => hopOf e.hop) ++ { hopOf ek.hop with exp := exp' } :: t0 :: tlh, [sD]⟩ [] =
        .stopped ek.ia 0 (.ext (inF cd ek)) (.slow 4 52 0 c1) tr ∧
      replyOf (.slow 4 52 0 c1) (.ext (inF cd ek)) = some rc ∧
      followReply mac net now src ek.ia 0 (.ext (inF cd ek)) rc = .delivered src trr cr :=
  peer_expired_reply_run mac net now src dst core cd ts hUp hSR seg0 e0 m1 ek exp' t0 tlh sD hFL hsrc hsd
    hnd hmidd hexpU hexp' fuel

/-- **Traceroute ownership on the model** (router level, no restriction on paths or the number of
    routers per AS).  A router consumes a router-alert flag — and hence is the one that answers the
    traceroute request — only
    * on the ingress side, when the packet came in over one of *its own* external links
      (`arr = .ext i`, `i ≠ 0`); a packet handed over by a sibling router or a local host never
      triggers the ingress alert;
    * on the egress side, when the egress interface of the hop is owned by *this* router.
    So of two sibling routers of an AS exactly the owner of the interface in question answers. -/
theorem alert_answered_by_owner (mac : MacFn) (cfg : RCfg) (now : Nat) (arr : Arrival) (sl dl : Bool)
    (c : Cursor) (b : Bool) (e : Nat) (c' : Cursor)
    (h : routerStep mac cfg now arr sl dl c = .alert b e c') :
    (b = true ∧ e = 0 ∧ ∃ i, arr = .ext i ∧ i ≠ 0) ∨
    (b = false ∧ ∃ eg, egressIface cfg e = some eg ∧ eg.owner = cfg.self) :=
  Scion.Net.alert_answered_by_owner mac cfg now arr sl dl c b e c' h

/-- the ingress alert is raised only after the hop field's MAC verified, on the packet as updated
    at ingress, with exactly the flag of the ingress side cleared -/
theorem ingress_alert_after_mac (mac : MacFn) (cfg : RCfg) (now : Nat) (arr : Arrival) (sl dl : Bool)
    (c1 : Cursor) (p b : Bool) (e : Nat) (c' : Cursor)
    (h : stChecks mac cfg now arr sl dl c1 p = .error (.alert b e c')) :
    b = true ∧ e = 0 ∧ arr.ifid ≠ 0 ∧ c' = clearInAlert c1 ∧
      (if c1.info.consDir then c1.cur.inAlert else c1.cur.egAlert) = true ∧
      macOk mac cfg.key c1.info c1.cur = true :=
  stChecks_alert mac cfg now arr sl dl c1 p b e c' h

/-- the peering case of `C10_full`, stated.  Proved so far: errors at the ASes of the first segment
    other than the peering AS (`scmp_peer_error_reply_delivered_partial`).  Not proved: errors at
    the two peering ASes and in the second segment (the reply then crosses the peering link
    backwards); tied and checked by the engine on every run.  On a peering path
    (up segment, peering link, down segment — each with any number of hops) with an expired hop at
    any AS other than the source, the SCMP answer is delivered in the source AS. -/
def scmp_reply_delivered_peering : Prop :=
  ∀ (mac : MacFn) (net : Net) (now : Nat) (eu ed : Edge) (src dst : Nat) (c c' : Cursor)
    (a r : Nat) (arr : Arrival) (o : Out) (tr : List (Nat × Nat)) (rc : Cursor),
    WFNet net → AllUp net → eu.peer.isSome → ed.peer.isSome →
    Joinable mac net [eu, ed] src dst → pathOf [eu, ed] = some c → Unexpired now c →
    -- c' is c with the expiry of one hop field changed to an expired value
    (toFlat c').infos = (toFlat c).infos → (toFlat c').segLens = (toFlat c).segLens →
    (toFlat c').currHF = 0 → (toFlat c').currINF = 0 →
    (∃ k : Nat, ∀ j : Nat, j ≠ k → (toFlat c').hops[j]? = (toFlat c).hops[j]?) →
    (∀ j : Nat, ∀ h h', (toFlat c').hops[j]? = some h' → (toFlat c).hops[j]? = some h →
        h' = { h with exp := h'.exp }) →
    send mac net now src dst c' = .stopped a r arr o tr → a ≠ src → replyOf o arr = some rc →
    ∃ trr cr, followReply mac net now src a r arr rc = .delivered src trr cr

end Scion.C10
