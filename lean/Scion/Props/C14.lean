import Scion.Proofs.PoolObs
import Scion.Gen.Pool
/-! # C14 — every packet buffer has exactly one owner at a time

Model: `Scion.Model.Pool` — the ownership protocol of the router pipeline as an interleaving
transition system (one event per `Get`/`Put`/hand-over site; full queues, write errors, partial
batch writes and stop are nondeterministic choices between events). Lemmas: `Scion.Proofs.Pool`.
Facts regenerated from the source: `Scion.Gen.Pool` (the hand-over sites of every stage in source
order and the batch bookkeeping statements). Engine `pool` runs the real pipeline with scripted
sockets and validates what is observable at the sockets against `Pool.obsStep`.

PARTIAL: data races in the sense of the Go memory model are outside the model; the model's
atomic steps are the channel operations of the code. -/
namespace Scion.C14
open Scion.Pool

/-- the states reachable from the initial pool of `n` buffers under any interleaving / fault
sequence -/
def Reachable (n : Nat) (s : State) : Prop := ∃ es, run (init n) es = some s

theorem reachable_perm (n : Nat) (s : State) (h : Reachable n s) :
    (bufs s.holdings).Perm (List.range n) := by
  obtain ⟨es, he⟩ := h
  have := run_perm es (init n) s he
  rw [bufs_init] at this
  exact this

/-- **One owner.** In every reachable state every buffer of the pool is at exactly one place:
in the pool, in one queue, or in the hands of one stage — never at two, never nowhere. -/
theorem one_owner (n : Nat) (s : State) (h : Reachable n s) (b : Buf) (hb : b < n) :
    ∃ loc, (loc, b) ∈ s.holdings ∧ ∀ loc', (loc', b) ∈ s.holdings → loc' = loc := by
  have hp := reachable_perm n s h
  have hmem : b ∈ bufs s.holdings := hp.mem_iff.mpr (List.mem_range.mpr hb)
  obtain ⟨p, hpin, hpb⟩ := List.mem_map.mp hmem
  have hnd : (bufs s.holdings).Nodup := hp.nodup_iff.mpr List.nodup_range
  refine ⟨p.1, ?_, ?_⟩
  · have : p = (p.1, b) := by rw [← hpb]
    rw [← this]; exact hpin
  · intro loc' hl
    have := eq_of_nodup_snd s.holdings hnd (loc', b) p hl hpin hpb.symm
    rw [← this]

/-- no buffer other than the `n` of the pool ever appears, and each appears once -/
theorem no_duplicates (n : Nat) (s : State) (h : Reachable n s) :
    (bufs s.holdings).Nodup ∧ ∀ b ∈ bufs s.holdings, b < n := by
  have hp := reachable_perm n s h
  exact ⟨hp.nodup_iff.mpr List.nodup_range, fun b hb => List.mem_range.mp (hp.mem_iff.mp hb)⟩

/-- **`Put` only by the current owner, `Get` only hands out buffers that are in the pool**: an
event is enabled only if every buffer it moves is at the event's source location. -/
theorem moves_only_owned (s s' : State) (e : Ev) (h : step s e = some s') :
    ∀ b ∈ e.move.2.2, (e.move.1, b) ∈ s.holdings ∨ ∃ b' ∈ e.move.2.2, b' ≠ b := by
  intro b hb
  have hm := step_moveAll s s' e h
  -- single-buffer events: the buffer itself must be at the source
  cases hl : e.move.2.2 with
  | nil => rw [hl] at hb; cases hb
  | cons b0 rest =>
    rw [hl] at hm hb
    simp only [moveAll] at hm
    cases h1 : moveOne s.holdings e.move.1 e.move.2.1 b0 with
    | none => rw [h1] at hm; cases hm
    | some h2 =>
      unfold moveOne at h1
      split at h1
      · rename_i hin
        rcases List.mem_cons.mp hb with rfl | hr
        · exact Or.inl hin
        · by_cases hbb : b0 = b
          · subst hbb; exact Or.inl hin
          · exact Or.inr ⟨b0, List.mem_cons_self, hbb⟩
      · cases h1

/-- a `Put` (any event whose destination is the pool) of a buffer that is already in the pool —
a double return — is never enabled in a reachable state -/
theorem no_double_put (n : Nat) (s : State) (h : Reachable n s) (e : Ev) (b : Buf)
    (hmv : e.move.2.2 = [b]) (hsrc : e.move.1 ≠ .pool) (hpool : (Loc.pool, b) ∈ s.holdings) :
    step s e = none := by
  cases hs : step s e with
  | none => rfl
  | some s' =>
    exfalso
    have hm := step_moveAll s s' e hs
    rw [hmv] at hm
    simp only [moveAll] at hm
    cases h1 : moveOne s.holdings e.move.1 e.move.2.1 b with
    | none => rw [h1] at hm; cases hm
    | some h2 =>
      unfold moveOne at h1
      split at h1
      · rename_i hin
        have hnd := (no_duplicates n s h).1
        have := eq_of_nodup_snd s.holdings hnd (e.move.1, b) (Loc.pool, b) hin hpool rfl
        exact hsrc (congrArg Prod.fst this)
      · cases h1

/-- all queues empty and no stage holding a buffer -/
def Quiescent (s : State) : Prop := ∀ p ∈ s.holdings, p.1 = Loc.pool ∨ p.1 = Loc.lost

/-- **No leak.** In a run in which `bfdSend.Send` never fails to serialise, whenever the pipeline
is quiescent all `n` buffers are back in the pool. -/
theorem no_leak_quiescent (n : Nat) (es : List Ev) (s : State)
    (hser : ∀ e ∈ es, e.isSerializeError = false)
    (hr : run (init n) es = some s) (hq : Quiescent s) :
    (holds s.holdings .pool).Perm (List.range n) := by
  have hn := run_noLost es (init n) s hser hr (noLost_init n)
  have hall : ∀ p ∈ s.holdings, p.1 = Loc.pool := fun p hp =>
    (hq p hp).resolve_right (hn p hp)
  have hf : s.holdings.filter (fun p => p.1 == Loc.pool) = s.holdings := by
    apply List.filter_eq_self.mpr
    intro p hp
    simp [hall p hp]
  have : holds s.holdings .pool = bufs s.holdings := by
    unfold holds bufs
    rw [hf]
  rw [this]
  exact reachable_perm n s ⟨es, hr⟩

/-- the full-strength statement without the serialisation hypothesis does not hold of the code
as written: `bfdSend.Send` returns on a serialisation error without returning the buffer. It is
kept visible here; it is reachable only if `gopacket.SerializeLayers` can fail for the fixed
SCION/BFD layers of a `bfdSend` (see registry level_note). -/
def NoLeakUnconditional : Prop :=
  ∀ n es s, run (init n) es = some s → Quiescent s → (holds s.holdings .pool).Perm (List.range n)

theorem no_leak_unconditional_fails : ¬ NoLeakUnconditional := by
  intro h
  have := h 1 [.bfdGet 0 0, .bfdSerializeError 0 0] ⟨[(Loc.lost, 0)]⟩ (by decide) (by
    intro p hp
    simp only [List.mem_cons, List.mem_nil_iff, or_false] at hp
    rw [hp]; exact Or.inr rfl)
  have hl := this.length_eq
  simp [holds] at hl

/-! ### What the sockets see (the acceptor used for trace validation) -/

/-- **The acceptor accepts every behaviour of the protocol.** For every run of the model the
sequence of socket-level observations it gives rise to (buffers registered for `ReadBatch`,
filled, presented to `WriteBatch`, written or dropped, released at stop) is accepted by
`obsStep`, and the acceptor's book-keeping agrees with the model state afterwards. So a rejected
trace of the real pipeline is not a behaviour of the protocol. -/
theorem socket_observations_accepted (n : Nat) (es : List Ev) (s : State)
    (h : run (init n) es = some s) :
    ∃ σ, obsRun [] (es.flatMap Ev.obs) = .ok σ ∧ Agree s.holdings σ := by
  apply run_obs es (init n) s [] _ _ h
  · rw [bufs_init]; exact List.nodup_range
  · intro p hp
    simp only [init, List.mem_map] at hp
    obtain ⟨b, _, rfl⟩ := hp
    rfl

/-- **… and rejects a second holder.** While a receiver has a buffer registered, the acceptor
rejects the pool handing it to any receiver and any sender presenting it; while a sender holds
it, the pool handing it out or another sender presenting it. -/
theorem acceptor_rejects_second_holder (σ : ObsState) (b : Buf) (c : Nat) :
    (seen σ b = .rx c → ∀ c', (obsStep σ (.hold c' b)).isOk = false ∧
        (obsStep σ (.present c' b)).isOk = false) ∧
    (seen σ b = .tx c → ∀ c', (obsStep σ (.hold c' b)).isOk = false ∧
        (c' ≠ c → (obsStep σ (.present c' b)).isOk = false)) := by
  constructor
  · intro h c'
    simp [obsStep, h, Except.isOk, Except.toBool]
  · intro h c'
    refine ⟨by simp [obsStep, h, Except.isOk, Except.toBool], fun hne => ?_⟩
    simp only [obsStep, h]
    rw [if_neg (fun e => hne e.symm)]
    rfl

/-! ### Batch bookkeeping of `udpConnection.send` and `receive` -/

theorem shiftLoop_spec (written : Nat) : ∀ (fuel i : Nat) (pkts : List Buf) (k : Nat),
    i + fuel + written + 1 ≤ pkts.length →
    (shiftLoop pkts written i fuel)[k]? =
      if i ≤ k ∧ k < i + fuel then pkts[k + written + 1]? else pkts[k]? := by
  intro fuel
  induction fuel with
  | zero => intro i pkts k _; simp [shiftLoop]; omega
  | succ f ih =>
    intro i pkts k hlen
    unfold shiftLoop
    have hi : i + written + 1 < pkts.length := by omega
    rw [List.getElem?_eq_getElem hi]
    dsimp only
    rw [ih (i + 1) _ k (by rw [List.length_set]; omega)]
    by_cases hk : k = i
    · subst hk
      rw [if_neg (by omega), if_pos (by omega)]
      rw [List.getElem?_set_self (by omega), List.getElem?_eq_getElem hi]
    · by_cases h2 : i + 1 ≤ k ∧ k < i + 1 + f
      · rw [if_pos h2, if_pos (by omega)]
        rw [List.getElem?_set_ne (by omega)]
      · rw [if_neg h2, if_neg (by omega)]
        rw [List.getElem?_set_ne (by omega)]

/-- after a partial write (`written < toWrite`) `send` returns exactly `pkts[:written+1]` to the
pool and keeps exactly `pkts[written+1:toWrite]`, in order: together they are the batch it held —
nothing is returned twice, kept twice or forgotten. -/
theorem send_partial_write (pkts : List Buf) (toWrite written : Nat)
    (hlen : toWrite ≤ pkts.length) (hw : written < toWrite) :
    (afterWrite pkts toWrite written).1 = pkts.take (written + 1) ∧
    (afterWrite pkts toWrite written).2 = (pkts.take toWrite).drop (written + 1) := by
  unfold afterWrite
  rw [if_pos (by omega)]
  dsimp only
  constructor
  · have hlt : written < pkts.length := by omega
    rw [List.getElem?_eq_getElem hlt, List.take_add_one, List.getElem?_eq_getElem hlt]
    rfl
  · apply List.ext_getElem?
    intro k
    by_cases hk : k < toWrite - (written + 1)
    · rw [List.getElem?_take_of_lt hk, shiftLoop_spec written _ 0 pkts k (by omega)]
      rw [if_pos (by omega), List.getElem?_drop, List.getElem?_take_of_lt (by omega)]
      congr 1; omega
    · rw [List.getElem?_eq_none (by rw [List.length_take]; omega),
        List.getElem?_eq_none (by rw [List.length_drop, List.length_take]; omega)]

theorem send_full_write (pkts : List Buf) (toWrite : Nat) :
    afterWrite pkts toWrite toWrite = (pkts.take toWrite, []) := by
  unfold afterWrite; rw [if_neg (by omega)]

/-- `receive`: delivered and reusable slots partition the batch -/
theorem receive_partition (packets : List Buf) (numPkts : Option Nat) :
    (afterRead packets numPkts).1 ++ (afterRead packets numPkts).2 = packets := by
  cases numPkts with
  | none => rfl
  | some k => exact List.take_append_drop k packets

/-! ### T3: the hand-over sites of the source are the ones the model was written for

Each list is the source-order list of pool `Get`/`Put` calls, `Link.Send` calls, channel sends and
receives of one function; the events of `Scion.Pool.Ev` correspond to them:
`runProcessor`: procTake; procToSlowQ | procPut (slow path busy); procPut ×4 (done, discard,
unknown disposition, no egress link); procToEgress | procPut (forwarder busy). -/
theorem gen_sites :
    Scion.Gen.Pool.runProcessor =
      ["recv q", "send slowQ <- p", "d.packetPool.Put(p)", "d.packetPool.Put(p)",
       "d.packetPool.Put(p)", "d.packetPool.Put(p)", "d.packetPool.Put(p)", "fwLink.Send(p)",
       "d.packetPool.Put(p)"] ∧
    Scion.Gen.Pool.runSlowPathProcessor =
      ["recv q", "d.packetPool.Put(p)", "d.packetPool.Put(p)", "egressLink.Send(p)",
       "d.packetPool.Put(p)"] ∧
    Scion.Gen.Pool.bfdSend =
      ["b.dataPlane.packetPool.Get()", "fwLink.Send(p)", "b.dataPlane.packetPool.Put(p)"] ∧
    Scion.Gen.Pool.poolGet = ["recv p.pool"] ∧
    Scion.Gen.Pool.poolPut = ["send p.pool <- pkt"] ∧
    Scion.Gen.Pool.connReceive =
      ["pool.Get()", "u.conn.ReadBatch(msgs)", "l.receive(size, msg.Addr.(*net.UDPAddr), p)",
       "u.link.receive(size, msg.Addr.(*net.UDPAddr), p)", "pool.Put(p)"] ∧
    Scion.Gen.Pool.connSend =
      ["readUpTo(queue, batchSize-toWrite, toWrite == 0, pkts[toWrite:])",
       "conn.WriteBatch(msgs[:toWrite], 0)", "pool.Put(p)", "pool.Put(pkts[written])"] ∧
    Scion.Gen.Pool.readUpTo = ["recv queue", "recv queue"] ∧
    Scion.Gen.Pool.connectedReceive =
      ["l.pool.Put(p)", "send l.procQs[procID] <- p", "l.pool.Put(p)"] ∧
    Scion.Gen.Pool.detachedReceive =
      ["l.pool.Put(p)", "send l.procQs[procID] <- p", "l.pool.Put(p)"] ∧
    Scion.Gen.Pool.internalReceive = ["send q <- p", "l.pool.Put(p)"] ∧
    Scion.Gen.Pool.connectedSend = ["send l.egressQ <- p"] ∧
    Scion.Gen.Pool.detachedSend = ["send l.egressQ <- p"] ∧
    Scion.Gen.Pool.internalSend = ["send l.egressQ <- p"] ∧
    Scion.Gen.Pool.internalRunProcessor =
      ["recv l.procQ", "l.pool.Put(p)", "l.pool.Put(p)", "egressLink.Send(p)", "l.pool.Put(p)",
       "recv l.procStop", "recv l.procQ", "l.pool.Put(p)"] := by decide

/-- T3: the batch bookkeeping of `send`/`receive` is what `afterWrite`/`afterRead` transcribe -/
theorem gen_bookkeeping :
    Scion.Gen.Pool.connSendBookkeeping =
      ["toWrite := 0",
       "toWrite += readUpTo(queue, batchSize-toWrite, toWrite == 0, pkts[toWrite:])",
       "range pkts[:toWrite]", "written, _ := conn.WriteBatch(msgs[:toWrite], 0)", "written = 0",
       "range pkts[:written]", "sc := router.ClassOfSize(len(pkts[written].RawPacket))",
       "toWrite -= (written + 1)", "range toWrite", "pkts[i] = pkts[i+written+1]",
       "toWrite = 0"] ∧
    Scion.Gen.Pool.connReceiveBookkeeping =
      ["numReusable := 0", "range batchSize - numReusable", "packets[i] = p",
       "numReusable = len(msgs)", "numReusable -= numPkts", "p := packets[i]",
       "range packets[batchSize-numReusable : batchSize]"] := by decide

/-! ### Non-vacuity -/

/-- a packet travels receiver → processor → slow path → sender → pool; another is dropped because
the forwarder is busy; a third one is the dropped packet of a partial write -/
example : (run (init 3)
    [.rxGet 0 0, .rxGet 0 1, .rxGet 0 2, .rxRead 0 [0, 1], .rxToProcQ 0 0 1, .rxPutBusy 0 1,
     .procTake 1 0, .procToSlowQ 1 0 0, .slowTake 0 0, .slowToEgress 0 0 5, .txTake 5 0,
     .txPut 5 0, .rxStopPut 0 2]).map (fun s => holds s.holdings .pool) = some [1, 0, 2] := by
  decide
/-- a second `Put` of the same buffer is rejected -/
example : run (init 2) [.bfdGet 0 1, .bfdPut 0 1, .bfdPut 0 1] = none := by decide
example : afterWrite [10, 11, 12, 13, 14] 5 1 = ([10, 11], [12, 13, 14]) := by decide

end Scion.C14
