import Scion.Model.Signed
/-!
# C38 — Signed control-plane messages verify only when untouched

Property theorems only.  Model: `Scion.Model.Signed` (tied to `pkg/scrypto/signed` by
`harness/cmd/signed`).  ECDSA and the hash are a parameter (`Scheme`); the theorems hold for every
scheme satisfying the stated ideal-signature hypotheses.
-/
namespace Scion.C38
open Scion.Signed Scion.Util

/-- well-formed headers: what `Sign` accepts and `Header` ↔ protobuf maps one to one -/
def WF (h : Header) : Prop := algoKnown h.algo = true

/-- assumptions on the `HeaderAndBody` framing (protobuf; tied by the engine, see registry) -/
structure Framing.Sound (F : Framing) : Prop where
  /-- `extractHeaderAndBody` inverts what `Sign` marshals -/
  roundtrip : ∀ h b, WF h → F.parse (F.enc h b) = some (h, b)
  /-- a marshalled `HeaderAndBody` that is a prefix of another one carries the same header -/
  prefixCoherent : ∀ h0 b0 h b, WF h0 → WF h → F.enc h0 b0 <+: F.enc h b → h0 = h

theorem adLenOf_eq_length_flatten (ad : List Bytes) : adLenOf ad = ad.flatten.length := by
  induction ad with
  | nil => rfl
  | cons a t ih => simp [adLenOf, List.flatten_cons] at *

/-- **The signature input is an injective function of (header, body, concatenated associated
data)** once the associated-data length recorded in the header is enforced (as `Sign` and `Verify`
both do): a shift of the boundary between message and associated data is detected. -/
theorem signatureInput_injective (F : Framing) (hF : Framing.Sound F)
    (h0 h : Header) (b0 b : Bytes) (A0 A : Bytes) (w0 : WF h0) (w : WF h)
    (l0 : (A0.length : Int) = h0.adLen) (l : (A.length : Int) = h.adLen)
    (e : F.enc h0 b0 ++ A0 = F.enc h b ++ A) : h0 = h ∧ b0 = b ∧ A0 = A := by
  have hh : h0 = h := by
    rcases List.append_eq_append_iff.mp e with ⟨x, hx, _⟩ | ⟨x, hx, _⟩
    · exact hF.prefixCoherent h0 b0 h b w0 w ⟨x, hx.symm⟩
    · exact (hF.prefixCoherent h b h0 b0 w w0 ⟨x, hx.symm⟩).symm
  subst hh
  have hl : A0.length = A.length := by omega
  have hlen : (F.enc h0 b0).length = (F.enc h0 b).length := by
    have := congrArg List.length e
    simp only [List.length_append] at this
    omega
  obtain ⟨e1, e2⟩ := List.append_inj e hlen
  refine ⟨rfl, ?_, e2⟩
  have r0 := hF.roundtrip h0 b0 w0
  rw [e1, hF.roundtrip h0 b w0] at r0
  cases r0; rfl

end Scion.C38
