import Scion.Model.Signed
import Scion.Proofs.Signed
import Scion.Gen.Signed
/-!
# C38 — Signed control-plane messages verify only when untouched

Property theorems only.  Model: `Scion.Model.Signed` (tied to `pkg/scrypto/signed` by
`harness/cmd/signed`).  ECDSA and the hash are a parameter (`Scheme`): the theorems hold for every
scheme satisfying the ideal-signature hypotheses `Ideal` / `Complete` stated below (satisfiable:
see the `example` at the end).  The protobuf *encoder* is concrete (`encHeader`, `encHdrAndBody`,
byte-exact against `proto.Marshal`), the protobuf *parser* is a parameter (`Framing`) about which
only round-trip facts for the messages that were really signed are assumed (`SoundFor`).
-/
namespace Scion.C38
open Scion.Signed Scion.Util

/-! ## Assumptions, spelled out -/

/-- the parser inverts the encoder on the message `(h, b)` (tied: every generated message is parsed
back by the real `proto.Unmarshal`s) -/
structure SoundFor (F : Framing) (h : Header) (b : Bytes) : Prop where
  outer : F.parseOuter (enc h b) = some (encHeader h, b, [])
  hdr : F.parseHdr (encHeader h) = some h

/-- an absent header field parses to the zero header, whose algorithm is unknown -/
def EmptyHdrUnknown (F : Framing) : Prop :=
  ∀ h, F.parseHdr [] = some h → algoKnown h.algo = false

/-- one call of `Sign` by the holder of a private key -/
structure Call (SK : Type) where
  sk : SK
  rnd : Nat
  h : Header
  body : Bytes
  ad : List Bytes

def Call.run {SK PK : Type} (S : Scheme SK PK) (c : Call SK) : Except Err SignedMessage :=
  signMsg S c.h c.body (some c.sk) c.rnd c.ad

/-- **Ideal signature scheme** (unforgeability, symbolically): whatever the primitive accepts under
`pk` for `(algo, pre-image)` was handed to the primitive by a successful `Sign` call of the holder of
the matching private key, `hist` being all such calls.  (This is where hash collisions and
forgeries are assumed away.) -/
def Ideal {SK PK : Type} (S : Scheme SK PK) (hist : List (Call SK)) : Prop :=
  ∀ pk algo m σ, S.verify pk algo m σ = true →
    ∃ c ∈ hist, ∃ msg, S.pub c.sk = pk ∧ c.h.algo = algo ∧ c.run S = .ok msg ∧
      m = preimage msg.hb c.ad

/-- signatures produced by the calls of the history are accepted by the primitive -/
def Complete {SK PK : Type} (S : Scheme SK PK) (hist : List (Call SK)) : Prop :=
  ∀ c ∈ hist, ∀ msg, c.run S = .ok msg →
    S.verify (S.pub c.sk) c.h.algo (preimage msg.hb c.ad) msg.sig = true

/-- "`(h, b, A)` was produced by the private key matching `pk`": some successful `Sign` call of the
key holder had exactly this header, body and concatenated associated data -/
def SignedBy {SK PK : Type} (S : Scheme SK PK) (hist : List (Call SK)) (pk : PK)
    (h : Header) (b : Bytes) (A : Bytes) : Prop :=
  ∃ c ∈ hist, ∃ msg, S.pub c.sk = pk ∧ c.h = h ∧ c.body = b ∧ c.ad.flatten = A ∧ c.run S = .ok msg

/-! ## Facts about `Sign` / `Verify` as coded -/

theorem adLenOf_eq_length_flatten (ad : List Bytes) : adLenOf ad = ad.flatten.length := by
  induction ad with
  | nil => rfl
  | cons a t ih => simp [adLenOf, List.flatten_cons] at *

/-- `checkPubKeyAlgo` accepts exactly: algorithm in the table ∧ ECDSA key -/
theorem checkPubKeyAlgo_ok_iff (a : Nat) (k : KeyKind) :
    checkPubKeyAlgo a k = .ok () ↔ algoKnown a = true ∧ k = .ecdsa := by
  unfold checkPubKeyAlgo
  cases hk : algoKnown a <;> cases k <;> simp

/-- what a successful `Sign` establishes -/
theorem signMsg_ok {SK PK : Type} (S : Scheme SK PK) (h : Header) (b : Bytes) (sk : SK) (rnd : Nat)
    (ad : List Bytes) (msg : SignedMessage) (hs : signMsg S h b (some sk) rnd ad = .ok msg) :
    msg.hb = enc h b ∧ msg.sig = S.sign sk rnd h.algo (preimage (enc h b) ad) ∧
    (adLenOf ad : Int) = h.adLen ∧ algoKnown h.algo = true ∧ S.kind (S.pub sk) = .ecdsa := by
  simp only [signMsg, signInput] at hs
  split at hs
  · cases hs
  · rename_i hb pre hin
    split at hin
    · cases hin
    · rename_i hlen
      split at hin
      · cases hin
      · rename_i hchk
        have hk := (checkPubKeyAlgo_ok_iff _ _).mp (by rw [hchk])
        cases hin; cases hs
        exact ⟨rfl, rfl, by simpa using hlen, hk.1, hk.2⟩

/-- what a successful `Verify` establishes (every guard of the code) -/
theorem verifyMsg_ok {SK PK : Type} (F : Framing) (S : Scheme SK PK) (m : SignedMessage) (pk : PK)
    (ad : List Bytes) (h : Header) (b : Bytes) (hv : verifyMsg F S m (some pk) ad = .ok (h, b)) :
    ∃ e u, F.parseOuter m.hb = some (e, b, u) ∧ F.parseHdr e = some h ∧
      encHdrAndBody e b ++ u = m.hb ∧ (adLenOf ad : Int) = h.adLen ∧ algoKnown h.algo = true ∧
      S.kind pk = .ecdsa ∧ S.verify pk h.algo (preimage m.hb ad) m.sig = true := by
  simp only [verifyMsg] at hv
  split at hv
  · cases hv
  · rename_i h' b' hex
    split at hv
    · cases hv
    · rename_i hcan
      split at hv
      · cases hv
      · rename_i hlen
        split at hv
        · cases hv
        · rename_i hchk
          split at hv
          · rename_i hsig
            cases hv
            have hk := (checkPubKeyAlgo_ok_iff _ _).mp (by rw [hchk])
            simp only [extract] at hex
            split at hex
            · cases hex
            · rename_i e b'' u hpo
              split at hex
              · cases hex
              · rename_i h'' hph
                cases hex
                refine ⟨e, u, hpo, hph, ?_, by simpa using hlen, hk.1, hk.2, hsig⟩
                simp only [canonical, hpo] at hcan
                simpa using hcan
          · cases hv

/-! ## The signature input determines header, body and associated data -/

/-- **`signatureInput_injective`.**  The byte string handed to the primitive, `HeaderAndBody ‖
associated data`, determines the header, the body and the concatenated associated data: if the
input of an honest `Sign` call `(h0, b0, A0)` equals the input `Verify` computes for a raw message
`hb` (any bytes that pass its parser, its canonical-encoding guard, and its length and algorithm
checks) with associated data `A`, then `hb` is the signed `HeaderAndBody`, and header, body and
associated data coincide.  The associated-data length inside the header is what makes a shift of
the `hb`/`A` boundary detectable. -/
theorem signatureInput_injective (F : Framing) (hE : EmptyHdrUnknown F)
    (h0 : Header) (b0 A0 : Bytes) (hs : SoundFor F h0 b0) (k0 : algoKnown h0.algo = true)
    (l0 : (A0.length : Int) = h0.adLen)
    (hb A e b u : Bytes) (h : Header)
    (po : F.parseOuter hb = some (e, b, u)) (ph : F.parseHdr e = some h)
    (can : encHdrAndBody e b ++ u = hb) (k : algoKnown h.algo = true)
    (l : (A.length : Int) = h.adLen)
    (eq : enc h0 b0 ++ A0 = hb ++ A) :
    hb = enc h0 b0 ∧ h = h0 ∧ b = b0 ∧ A = A0 := by
  have e0ne := encHeader_ne_nil h0 k0
  have ene : e ≠ [] := by
    intro he; subst he
    have := hE h ph
    rw [k] at this; cases this
  -- the two strings are prefix related and both start with a field-1 frame
  have hpr : PR (enc h0 b0) hb := PR.of_append_eq eq
  rw [← can] at hpr
  unfold enc encHdrAndBody at hpr
  rw [List.append_assoc] at hpr
  obtain ⟨ee, _⟩ := frame_PR e0ne ene hpr
  subst ee
  have hh : h = h0 := by
    have := hs.hdr; rw [ph] at this; cases this; rfl
  subst hh
  have hlen : (enc h b0).length = hb.length := by
    have := congrArg List.length eq
    simp only [List.length_append] at this
    omega
  obtain ⟨e1, e2⟩ := List.append_inj eq hlen
  subst e1
  have := hs.outer
  rw [po] at this
  cases this
  exact ⟨rfl, rfl, rfl, e2.symm⟩

/-! ## The property -/

/-- **Soundness of `Verify`** (`verify_returns_signed`): if a message verifies under `pk` and
returns `(h, b)`, then the holder of the private key matching `pk` signed exactly header `h`, body
`b` and the concatenated associated data, and the verified bytes are the signed `HeaderAndBody`. -/
theorem verify_returns_signed {SK PK : Type} (F : Framing) (S : Scheme SK PK) (hist : List (Call SK))
    (hE : EmptyHdrUnknown F) (hF : ∀ c ∈ hist, SoundFor F c.h c.body) (hI : Ideal S hist)
    (m : SignedMessage) (pk : PK) (ad : List Bytes) (h : Header) (b : Bytes)
    (hv : verifyMsg F S m (some pk) ad = .ok (h, b)) :
    SignedBy S hist pk h b ad.flatten ∧ m.hb = enc h b := by
  obtain ⟨e, u, po, ph, can, hl, hk, _, hsig⟩ := verifyMsg_ok F S m pk ad h b hv
  obtain ⟨c, hc, msg, hpk, _, hrun, hpre⟩ := hI pk h.algo _ m.sig hsig
  obtain ⟨hhb, _, hl0, hk0, _⟩ := signMsg_ok S c.h c.body c.sk c.rnd c.ad msg hrun
  rw [adLenOf_eq_length_flatten] at hl hl0
  unfold preimage at hpre
  rw [hhb] at hpre
  obtain ⟨e1, e2, e3, e4⟩ := signatureInput_injective F hE c.h c.body c.ad.flatten (hF c hc) hk0 hl0
    m.hb ad.flatten e b u h po ph can hk hl hpre.symm
  exact ⟨⟨c, hc, msg, hpk, e2.symm, e3.symm, e4.symm, hrun⟩, by rw [e1, e2, e3]⟩

/-- **Completeness**: what `Sign` produced verifies under the matching public key, returns exactly
the signed header and body, and depends on the associated data only through its concatenation
(`["ab","c"]` and `["a","bc"]` are the same data). -/
theorem sign_then_verify {SK PK : Type} (F : Framing) (S : Scheme SK PK) (hist : List (Call SK))
    (hC : Complete S hist) (c : Call SK) (hc : c ∈ hist) (hF : SoundFor F c.h c.body)
    (msg : SignedMessage) (hrun : c.run S = .ok msg) (ad' : List Bytes)
    (had : ad'.flatten = c.ad.flatten) :
    verifyMsg F S msg (some (S.pub c.sk)) ad' = .ok (c.h, c.body) := by
  obtain ⟨hhb, _, hl0, hk0, hkind⟩ := signMsg_ok S c.h c.body c.sk c.rnd c.ad msg hrun
  have hver := hC c hc msg hrun
  have hl : (adLenOf ad' : Int) = c.h.adLen := by
    rw [adLenOf_eq_length_flatten, had, ← adLenOf_eq_length_flatten]; exact hl0
  have hchk : checkPubKeyAlgo c.h.algo (S.kind (S.pub c.sk)) = .ok () :=
    (checkPubKeyAlgo_ok_iff _ _).mpr ⟨hk0, hkind⟩
  have hpre : preimage msg.hb ad' = preimage msg.hb c.ad := by simp [preimage, had]
  have hex : extract F msg.hb = some (c.h, c.body) := by
    simp [extract, hhb, hF.outer, hF.hdr]
  have hcan : canonical F msg.hb = true := by
    unfold canonical
    rw [hhb, hF.outer]
    simp [enc]
  simp [verifyMsg, hex, hcan, hl, hchk, hpre, hver]

/-- **`verify_iff_signed`** — the first sentence of the statement: a message (in the encoding
`Sign` produces) verifies under a public key, for some signature, iff it was produced by the
matching private key over the same header, body and concatenated associated data. -/
theorem verify_iff_signed {SK PK : Type} (F : Framing) (S : Scheme SK PK) (hist : List (Call SK))
    (hE : EmptyHdrUnknown F) (hF : ∀ c ∈ hist, SoundFor F c.h c.body) (hI : Ideal S hist)
    (hC : Complete S hist) (pk : PK) (h : Header) (b : Bytes) (ad : List Bytes) :
    (∃ σ, verifyMsg F S ⟨enc h b, σ⟩ (some pk) ad = .ok (h, b)) ↔ SignedBy S hist pk h b ad.flatten := by
  constructor
  · rintro ⟨σ, hv⟩
    exact (verify_returns_signed F S hist hE hF hI _ pk ad h b hv).1
  · rintro ⟨c, hc, msg, hpk, hh, hb, had, hrun⟩
    obtain ⟨hhb, _⟩ := signMsg_ok S c.h c.body c.sk c.rnd c.ad msg hrun
    refine ⟨msg.sig, ?_⟩
    have := sign_then_verify F S hist hC c hc (hF c hc) msg hrun ad had.symm
    rw [hpk, hh, hb] at this
    rw [hh, hb] at hhb
    rw [← hhb]
    exact this

/-- **Any change is rejected** (header, body, associated data, key): when the only signature the
key holders ever produced is `c`, then whatever verifies — any raw message bytes, any signature
bytes, any key, any associated data — has the signed `HeaderAndBody`, the signed concatenated
associated data, the matching public key, and returns the signed header and body. -/
theorem only_the_signed_message_verifies {SK PK : Type} (F : Framing) (S : Scheme SK PK)
    (c : Call SK) (hE : EmptyHdrUnknown F) (hF : SoundFor F c.h c.body) (hI : Ideal S [c])
    (m : SignedMessage) (pk : PK) (ad : List Bytes) (h : Header) (b : Bytes)
    (hv : verifyMsg F S m (some pk) ad = .ok (h, b)) :
    pk = S.pub c.sk ∧ m.hb = enc c.h c.body ∧ ad.flatten = c.ad.flatten ∧ h = c.h ∧ b = c.body := by
  obtain ⟨⟨c', hc', _, hpk, hh, hb, had, _⟩, hhb⟩ :=
    verify_returns_signed F S [c] hE (by simpa using hF) hI m pk ad h b hv
  simp only [List.mem_singleton] at hc'
  subst hc'
  exact ⟨hpk.symm, by rw [hhb, hh, hb], had.symm, hh.symm, hb.symm⟩

/-- **An algorithm inconsistent with the key makes both `Sign` and `Verify` fail** (unknown
algorithm, or a key that is not ECDSA). -/
theorem algo_key_mismatch_rejected {SK PK : Type} (F : Framing) (S : Scheme SK PK)
    (m : SignedMessage) (pk : PK) (ad : List Bytes) (h : Header) (b : Bytes)
    (hx : extract F m.hb = some (h, b)) (bad : ¬ (algoKnown h.algo = true ∧ S.kind pk = .ecdsa)) :
    ∃ e, verifyMsg F S m (some pk) ad = .error e := by
  have hne : checkPubKeyAlgo h.algo (S.kind pk) ≠ .ok () :=
    fun hok => bad ((checkPubKeyAlgo_ok_iff _ _).mp hok)
  simp only [verifyMsg, hx]
  split
  · exact ⟨_, rfl⟩
  · split
    · exact ⟨_, rfl⟩
    · split
      · exact ⟨_, rfl⟩
      · rename_i hok; exact absurd hok hne

theorem algo_key_mismatch_sign_rejected {SK PK : Type} (S : Scheme SK PK) (h : Header) (b : Bytes)
    (sk : SK) (rnd : Nat) (ad : List Bytes)
    (bad : ¬ (algoKnown h.algo = true ∧ S.kind (S.pub sk) = .ecdsa)) :
    ∃ e, signMsg S h b (some sk) rnd ad = .error e := by
  cases hs : signMsg S h b (some sk) rnd ad with
  | error e => exact ⟨e, rfl⟩
  | ok msg =>
    obtain ⟨_, _, _, hk, hkind⟩ := signMsg_ok S h b sk rnd ad msg hs
    exact absurd ⟨hk, hkind⟩ bad

/-- a header whose associated-data length differs from the data supplied is rejected by `Verify`
(and, `signMsg_ok`, never signed) -/
theorem ad_length_mismatch_rejected {SK PK : Type} (F : Framing) (S : Scheme SK PK)
    (m : SignedMessage) (pk : PK) (ad : List Bytes) (h : Header) (b : Bytes)
    (hx : extract F m.hb = some (h, b)) (bad : (ad.flatten.length : Int) ≠ h.adLen) :
    ∃ e, verifyMsg F S m (some pk) ad = .error e := by
  rw [← adLenOf_eq_length_flatten] at bad
  simp only [verifyMsg, hx]
  split
  · exact ⟨_, rfl⟩
  · exact ⟨_, rfl⟩

/-! ## The signature clause (KNOWN FINDING `C38/ecdsa-s-negation`)

The statement also demands that *any change to the signature* makes verification fail.  That is
a uniqueness property of the primitive and does not follow from unforgeability; for ECDSA as used
(`ecdsa.VerifyASN1`) it is false: `(r, n − s)` verifies whenever `(r, s)` does (reproduced by the
engine on every run, reported as KNOWN-FINDING).  The full statement is kept here; the proved part
is everything above (`only_the_signed_message_verifies` leaves exactly `m.sig` unconstrained). -/

/-- the full mutation clause of the statement, including the signature -/
def AnyChangeRejected {SK PK : Type} (F : Framing) (S : Scheme SK PK) (c : Call SK) : Prop :=
  ∀ msg, c.run S = .ok msg → ∀ m pk ad h b, verifyMsg F S m (some pk) ad = .ok (h, b) →
    pk = S.pub c.sk ∧ m.hb = msg.hb ∧ m.sig = msg.sig ∧ ad.flatten = c.ad.flatten ∧
    h = c.h ∧ b = c.body

/-- the part of `AnyChangeRejected` that holds: everything except `m.sig = msg.sig` -/
theorem anyChangeRejected_partial {SK PK : Type} (F : Framing) (S : Scheme SK PK) (c : Call SK)
    (hE : EmptyHdrUnknown F) (hF : SoundFor F c.h c.body) (hI : Ideal S [c]) :
    ∀ msg, c.run S = .ok msg → ∀ m pk ad h b, verifyMsg F S m (some pk) ad = .ok (h, b) →
      pk = S.pub c.sk ∧ m.hb = msg.hb ∧ ad.flatten = c.ad.flatten ∧ h = c.h ∧ b = c.body := by
  intro msg hrun m pk ad h b hv
  obtain ⟨h1, h2, h3, h4, h5⟩ := only_the_signed_message_verifies F S c hE hF hI m pk ad h b hv
  obtain ⟨hhb, _⟩ := signMsg_ok S c.h c.body c.sk c.rnd c.ad msg hrun
  exact ⟨h1, by rw [h2, hhb], h3, h4, h5⟩

/-! ## Non-vacuity: the hypotheses are satisfiable, and do not imply signature uniqueness -/

namespace Toy

def h0 : Header := ⟨1, [1, 2], 1700000000, 5, [9], 3⟩
def b0 : Bytes := [0xde, 0xad]
def ad0 : List Bytes := [[1], [2, 3]]
def c0 : Call Nat := ⟨7, 0, h0, b0, ad0⟩

/-- a toy scheme: key 7 has signed exactly one pre-image; the "signature" is `[0]`, and `[1]`
verifies as well (as `(r, n-s)` does for ECDSA) -/
def S : Scheme Nat Nat :=
  { pub := id, kind := fun _ => .ecdsa,
    sign := fun _ _ _ _ => [0],
    verify := fun pk algo m σ =>
      pk == 7 && algo == 1 && m == preimage (enc h0 b0) ad0 && (σ == [0] || σ == [1]) }

/-- a parser that knows the one message -/
def F : Framing :=
  { parseHdr := fun e => if e = encHeader h0 then some h0 else none
    parseOuter := fun x => if x = enc h0 b0 then some (encHeader h0, b0, []) else none }

theorem run_ok : c0.run S = .ok ⟨enc h0 b0, [0]⟩ := by
  simp [Call.run, signMsg, signInput, c0, S, checkPubKeyAlgo, algoKnown, h0, ad0, adLenOf]

theorem sound : SoundFor F h0 b0 := ⟨by simp [F], by simp [F]⟩

theorem emptyUnknown : EmptyHdrUnknown F := by
  intro h hh
  have hne := encHeader_ne_nil h0 (by decide)
  have : ([] : Bytes) ≠ encHeader h0 := fun e => hne e.symm
  simp [F, this] at hh

theorem ideal : Ideal S [c0] := by
  intro pk algo m σ hv
  simp only [S, Bool.and_eq_true, beq_iff_eq] at hv
  obtain ⟨⟨⟨h1, h2⟩, h3⟩, _⟩ := hv
  exact ⟨c0, by simp, _, h1.symm, h2.symm, run_ok, h3⟩

theorem complete : Complete S [c0] := by
  intro c hc msg hrun
  simp only [List.mem_singleton] at hc
  subst hc
  rw [run_ok] at hrun
  cases hrun
  simp [S, c0, h0]

end Toy

/-- the hypotheses of the theorems above hold of a concrete scheme/parser, and the conclusion is not
trivial: the toy message verifies under key 7 -/
example : verifyMsg Toy.F Toy.S ⟨enc Toy.h0 Toy.b0, [0]⟩ (some 7) [[1, 2], [3]]
    = .ok (Toy.h0, Toy.b0) :=
  sign_then_verify Toy.F Toy.S [Toy.c0] Toy.complete Toy.c0 (by simp) Toy.sound _ Toy.run_ok
    [[1, 2], [3]] (by simp [Toy.c0, Toy.ad0])

/-- **The ideal-signature hypotheses do not give the signature clause**: in the toy scheme (ideal
and complete) a different signature verifies, so `AnyChangeRejected` fails there — the model-level
witness of KNOWN FINDING `C38/ecdsa-s-negation`. -/
theorem signature_clause_not_implied :
    Ideal Toy.S [Toy.c0] ∧ Complete Toy.S [Toy.c0] ∧ ¬ AnyChangeRejected Toy.F Toy.S Toy.c0 := by
  refine ⟨Toy.ideal, Toy.complete, ?_⟩
  intro hall
  have hv : verifyMsg Toy.F Toy.S ⟨enc Toy.h0 Toy.b0, [1]⟩ (some 7) Toy.ad0
      = .ok (Toy.h0, Toy.b0) := by
    have hex : extract Toy.F (enc Toy.h0 Toy.b0) = some (Toy.h0, Toy.b0) := by
      simp [extract, Toy.F]
    have hcan : canonical Toy.F (enc Toy.h0 Toy.b0) = true := by
      simp [canonical, Toy.F, enc]
    simp only [verifyMsg, hex, hcan]
    simp [Toy.S, Toy.ad0, Toy.h0, adLenOf, checkPubKeyAlgo, algoKnown]
  have := (hall _ Toy.run_ok _ _ _ _ _ hv).2.2.1
  simp at this

/-! ## Facts regenerated from the source on every run (T3) -/

/-- What the model hard-codes about `pkg/scrypto/signed`, re-read from the source: the algorithm
table has exactly the three ECDSA entries `1, 2, 3` (all `pkECDSA`, so `checkPubKeyAlgo` is
`algoKnown ∧ ECDSA key`); `Verify` runs its guards in the modelled order and feeds the RAW
`signed.HeaderAndBody` (not a re-encoding) plus the associated data to `computeSignatureInput`,
whose two branches copy/hash `hdrAndBody` first and then every associated-data slice in order. -/
theorem gen_facts :
    (Gen.Signed.unknownSignatureAlgorithm, Gen.Signed.eCDSAWithSHA256, Gen.Signed.eCDSAWithSHA384,
      Gen.Signed.eCDSAWithSHA512) = (0, 1, 2, 3) ∧
    Gen.Signed.detailsKeys = ["ECDSAWithSHA256", "ECDSAWithSHA384", "ECDSAWithSHA512"] ∧
    Gen.Signed.detailsPubKeyAlgo = ["pkECDSA", "pkECDSA", "pkECDSA"] ∧
    Gen.Signed.detailsHash = ["crypto.SHA256", "crypto.SHA384", "crypto.SHA512"] ∧
    Gen.Signed.verifyCalls = ["extractHeaderAndBody", "checkCanonicalHeaderAndBody",
      "associatedDataLen", "checkPubKeyAlgo", "computeSignatureInput", "VerifyASN1"] ∧
    Gen.Signed.signCalls = ["associatedDataLen", "checkPubKeyAlgo", "Marshal", "Marshal",
      "computeSignatureInput", "Sign"] ∧
    Gen.Signed.verifyInputArgs = ["hdr.SignatureAlgorithm", "signed.HeaderAndBody", "associatedData..."] ∧
    Gen.Signed.signInputArgs = ["hdr.SignatureAlgorithm", "rawHdrAndBody", "associatedData..."] ∧
    Gen.Signed.verifyASN1Args = ["pub", "input", "signed.Signature"] ∧
    Gen.Signed.inputWrites = ["copy hdrAndBody", "range associatedData", "copy d",
      "Write hdrAndBody", "range associatedData", "Write d"] ∧
    (∀ a, algoKnown a = true ↔ a = Gen.Signed.eCDSAWithSHA256 ∨ a = Gen.Signed.eCDSAWithSHA384 ∨
      a = Gen.Signed.eCDSAWithSHA512) := by
  refine ⟨rfl, rfl, rfl, rfl, rfl, rfl, rfl, rfl, rfl, rfl, ?_⟩
  intro a
  simp [algoKnown, Gen.Signed.eCDSAWithSHA256, Gen.Signed.eCDSAWithSHA384, Gen.Signed.eCDSAWithSHA512]
  omega

end Scion.C38
